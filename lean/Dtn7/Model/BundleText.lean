/-
Structural line format for bundles shared by the C01/C02 harnesses (Go side: `verifDump`) and
drivers. Not part of any theorem.

  eid      n | d.<nodehex>.<demuxhex> | i.<node>.<service>
  primary  P:<version>:<flags>:<crcT>:<dst>:<src>:<rpt>:<time>:<seq>:<lifetime>:<fragoff>:<total>
  block    C:<num>:<flags>:<crcT>:<value>
  value    pl:<hex> | pn:<eid> | ag:<ms> | hc:<limit>:<count> | sp:<n> | dl:<eid>:<ts>:<pairs>
           | pr:<pairs> | sg:<pkhex>:<sighex> | ge:<type>:<hex>
  pairs    - | <eid>=<n>,<eid>=<n>,…            (sorted by text in dumps)
  bundle   <primary>/<block>/<block>/…
-/
import Driver.Common
import Dtn7.Model.Bundle
import Dtn7.Model.BundleSpec

namespace Dtn7.BundleText
open Dtn7.Cbor Dtn7.Eid Dtn7.Bundle
open Driver (fields)

@[inline] def hexNibble (c : UInt8) : Nat :=
  if 48 ≤ c && c ≤ 57 then (c - 48).toNat
  else if 97 ≤ c && c ≤ 102 then (c - 87).toNat
  else if 65 ≤ c && c ≤ 70 then (c - 55).toNat
  else 255

/-- Hex string → bytes, walking the UTF-8 buffer from the end (no `Char` list). -/
def parseHex (s : String) : Option (List UInt8) :=
  if s == "-" || s == "" then some [] else
  let b := s.toUTF8
  if b.size % 2 = 1 then none else
  let rec go (i : Nat) (acc : List UInt8) (fuel : Nat) : Option (List UInt8) :=
    match fuel with
    | 0 => some acc
    | fuel + 1 =>
      let hi := hexNibble (b.get! (i - 2))
      let lo := hexNibble (b.get! (i - 1))
      if hi > 15 || lo > 15 then none else go (i - 2) (UInt8.ofNat (hi * 16 + lo) :: acc) fuel
  go b.size [] (b.size / 2)

def hexChar (n : UInt8) : UInt8 := if n < 10 then n + 48 else n + 87

def toHex (bs : List UInt8) : String :=
  if bs.isEmpty then "-" else
  let arr := bs.foldl (fun (a : ByteArray) b => (a.push (hexChar (b / 16))).push (hexChar (b % 16))) (ByteArray.emptyWithCapacity (2 * bs.length))
  String.fromUTF8! arr

def showEid : Eid → String
  | .none => "n"
  | .dtn node demux => s!"d.{toHex node}.{toHex demux}"
  | .ipn n s => s!"i.{n}.{s}"

def readEid (s : String) : Option Eid :=
  match s.splitOn "." with
  | ["n"] => some .none
  | ["d", a, b] => do some (.dtn (← parseHex a) (← parseHex b))
  | ["i", a, b] => do some (.ipn (← a.toNat?) (← b.toNat?))
  | _ => none

/-- Insertion sort on strings (small lists). -/
def sortStrings (l : List String) : List String :=
  l.foldl (fun acc x => ins x acc) []
where
  ins (x : String) : List String → List String
    | [] => [x]
    | y :: ys => if x ≤ y then x :: y :: ys else y :: ins x ys

def showPairs (m : EidMap) : String :=
  if m.isEmpty then "-" else ",".intercalate (sortStrings (m.map fun p => s!"{showEid p.1}={p.2}"))

def readPairs (s : String) : Option EidMap :=
  if s == "-" then some [] else
  (s.splitOn ",").mapM fun kv =>
    match kv.splitOn "=" with
    | [k, v] => do some (← readEid k, ← v.toNat?)
    | _ => none

def showValue : BlockValue → String
  | .payload d => s!"pl:{toHex d}"
  | .prevNode e => s!"pn:{showEid e}"
  | .age ms => s!"ag:{ms}"
  | .hop l c => s!"hc:{l}:{c}"
  | .spray n => s!"sp:{n}"
  | .dtlsr id ts peers => s!"dl:{showEid id}:{ts}:{showPairs peers}"
  | .prophet m => s!"pr:{showPairs m}"
  | .signature pk sg => s!"sg:{toHex pk}:{toHex sg}"
  | .generic t d => s!"ge:{t}:{toHex d}"

def showCanonical (c : Canonical) : String :=
  s!"C:{c.num}:{c.flags}:{c.crcT}:{showValue c.value}"

def showPrimary (p : Primary) : String :=
  s!"P:{p.version}:{p.flags}:{p.crcT}:{showEid p.dst}:{showEid p.src}:{showEid p.rpt}:{p.tsTime}:{p.tsSeq}:{p.lifetime}:{p.fragOff}:{p.total}"

def showBundle (b : Bundle) : String :=
  "/".intercalate (showPrimary b.primary :: b.blocks.map showCanonical)

def readValue : List String → Option BlockValue
  | ["pl", h] => do some (.payload (← parseHex h))
  | ["pn", e] => do some (.prevNode (← readEid e))
  | ["ag", n] => do some (.age (← n.toNat?))
  | ["hc", l, c] => do some (.hop (← l.toNat?) (← c.toNat?))
  | ["sp", n] => do some (.spray (← n.toNat?))
  | ["dl", e, ts, ps] => do some (.dtlsr (← readEid e) (← ts.toNat?) (← readPairs ps))
  | ["pr", ps] => do some (.prophet (← readPairs ps))
  | ["sg", a, b] => do some (.signature (← parseHex a) (← parseHex b))
  | ["ge", t, h] => do some (.generic (← t.toNat?) (← parseHex h))
  | _ => none

def readCanonical (s : String) : Option Canonical :=
  match s.splitOn ":" with
  | "C" :: num :: fl :: ct :: v => do
    some ⟨← num.toNat?, ← fl.toNat?, ← ct.toNat?, ← readValue v⟩
  | _ => none

def readPrimary (s : String) : Option Primary :=
  match s.splitOn ":" with
  | ["P", ver, fl, ct, dst, src, rpt, t, sq, lt, off, tot] => do
    some ⟨← ver.toNat?, ← fl.toNat?, ← ct.toNat?, ← readEid dst, ← readEid src, ← readEid rpt,
      ← t.toNat?, ← sq.toNat?, ← lt.toNat?, ← off.toNat?, ← tot.toNat?⟩
  | _ => none

def readBundle (s : String) : Option Bundle :=
  match s.splitOn "/" with
  | p :: cs => do some ⟨← readPrimary p, ← cs.mapM readCanonical⟩
  | [] => none

/-- Bundles compare by their canonical text (map entries sorted). -/
def sameBundle (a b : Bundle) : Bool := showBundle a == showBundle b

/-- `key=value` tokens of a line after the operation name. -/
def kv (toks : List String) (key : String) : Option String :=
  toks.findSome? fun t =>
    if t.startsWith (key ++ "=") then some ((t.drop (key.length + 1)).toString) else none

def readNatList (s : String) : Option (List Nat) :=
  if s == "-" then some [] else (s.splitOn ",").mapM (·.toNat?)

/-- A multi-entry map block makes Go's serialisation order-dependent. -/
def hasMultiMap (b : Bundle) : Bool :=
  b.blocks.any fun c => match c.value with
    | .dtlsr _ _ peers => peers.length > 1
    | .prophet m => m.length > 1
    | _ => false

def clip (s : String) (n : Nat := 160) : String :=
  if s.length ≤ n then s else (s.take n).toString ++ "…"

end Dtn7.BundleText
