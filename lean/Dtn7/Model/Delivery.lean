/-
Model of local delivery (property C07)
  pkg/agent/application_agent.go  (bagContainsEndpoint, AppAgentContainsEndpoint)
  pkg/agent/mux_agent.go          (MuxAgent.handle fan-out, Register, unregister, Endpoints)
  pkg/agent/rest_agent.go         (RestAgent: register, unregister, receiveBundleMessage, fetch, Endpoints)
  pkg/agent/ws_agent.go, ws_agent_client.go (WebSocketAgent = inner MuxAgent over web clients)
  pkg/agent/ping_agent.go         (PingAgent acknowledges every bundle it is handed)
  pkg/routing/agent_manager.go    (HasEndpoint, Deliver)
  pkg/routing/core.go             (Core.HasEndpoint)
  pkg/routing/processing.go       (receive: duplicate test, dispatching, localDelivery)

Core-only; used by the driver `drv_c07` and by `Dtn7.Props.C07`.
-/
namespace Dtn7.Delivery

/-! ## Data -/

/-- A `dtn://node/svc` endpoint identifier. Go compares `bpv7.EndpointID` values with `==` in
`bagContainsEndpoint` (both parts) and with `SameNode` (authority only) in `Core.HasEndpoint`. -/
structure Eid where
  node : String
  svc  : String
deriving DecidableEq, Repr, Inhabited

def Eid.sameNode (a b : Eid) : Bool := a.node == b.node

/-- What local delivery looks at. `tok` stands for the complete content (the harness resolves
received bytes to a token by exact lookup of the serialisation). -/
structure Bundle where
  tok         : Nat
  dest        : Eid
  reportTo    : Eid
  admin       : Bool := false   -- AdministrativeRecordPayload flag
  adminOk     : Bool := true    -- the payload parses as an administrative record (checkAdministrativeRecord)
  reqDelivery : Bool := false   -- StatusRequestDelivery flag
deriving DecidableEq, Repr, Inhabited

/-- Who can be handed a bundle: a ping agent, a mock/other agent, a REST client (agent, client
number ≙ uuid), a web socket client (agent, connection). -/
inductive Rcpt where
  | ping (a : Nat)
  | mock (a : Nat)
  | rest (a c : Nat)
  | ws   (a c : Nat)
deriving DecidableEq, Repr, Inhabited

/-! ## sync.Map as an association list -/

def aload {κ β : Type} [DecidableEq κ] (k : κ) : List (κ × β) → Option β
  | [] => none
  | (k', v) :: t => if k' = k then some v else aload k t

def astore {κ β : Type} [DecidableEq κ] (k : κ) (v : β) : List (κ × β) → List (κ × β)
  | [] => [(k, v)]
  | (k', v') :: t => if k' = k then (k, v) :: t else (k', v') :: astore k v t

def adelete {κ β : Type} [DecidableEq κ] (k : κ) (l : List (κ × β)) : List (κ × β) :=
  l.filter (fun e => e.1 ≠ k)

/-- Parameters that select the code variant / resolve its nondeterminism.
`rangeAll`: the `sync.Map.Range` callbacks in `RestAgent.receiveBundleMessage` and `Endpoints`
return `true` (the repaired code). With `false` (the code before the D14 repair) `Range` stops
after the first element it happens to visit; `pickE` / `pickR` say which one that is. -/
structure Cfg where
  rangeAll : Bool := true
  pickE    : Nat := 0
  pickR    : Nat := 0
deriving Repr

/-- The elements a `Range` loop visits. -/
def rangeVisit {α : Type} (all : Bool) (pick : Nat) (l : List α) : List α :=
  if all then l else (l[pick % l.length]?).toList

/-! ## RestAgent -/

structure Rest where
  clients : List (Nat × Eid) := []           -- uuid ↦ endpoint
  mailbox : List (Nat × List Bundle) := []   -- uuid ↦ undelivered bundles
deriving DecidableEq, Repr, Inhabited

def Rest.endpoints (cfg : Cfg) (ra : Rest) : List Eid :=
  (rangeVisit cfg.rangeAll cfg.pickE ra.clients).map (·.2)

/-- load, append, store of `receiveBundleMessage` for one client. -/
def putMailbox (mb : List (Nat × List Bundle)) (u : Nat) (b : Bundle) : List (Nat × List Bundle) :=
  astore u ((aload u mb).getD [] ++ [b]) mb

/-- The uuids `receiveBundleMessage` collects. -/
def Rest.matching (cfg : Cfg) (ra : Rest) (dest : Eid) : List Nat :=
  ((rangeVisit cfg.rangeAll cfg.pickR ra.clients).filter (fun c => c.2 = dest)).map (·.1)

def Rest.receive (cfg : Cfg) (ra : Rest) (b : Bundle) : Rest × List Nat :=
  let uuids := ra.matching cfg b.dest
  ({ ra with mailbox := uuids.foldl (fun mb u => putMailbox mb u b) ra.mailbox }, uuids)

def Rest.register (ra : Rest) (u : Nat) (ep : Eid) : Rest :=
  { ra with clients := astore u ep ra.clients }

def Rest.unregister (ra : Rest) (u : Nat) : Rest :=
  { clients := adelete u ra.clients, mailbox := adelete u ra.mailbox }

def Rest.fetch (ra : Rest) (u : Nat) : Rest × List Bundle :=
  match aload u ra.mailbox with
  | some l => ({ ra with mailbox := adelete u ra.mailbox }, l)
  | none => (ra, [])

/-! ## Agents behind the MuxAgent -/

inductive Agent where
  | ping (ep : Eid)
  | mock (eps : List Eid)
  | rest (ra : Rest)
  | ws (conns : List (Nat × Option Eid))   -- connection ↦ registered endpoint, if any
deriving DecidableEq, Repr, Inhabited

def Agent.endpoints (cfg : Cfg) : Agent → List Eid
  | .ping ep => [ep]
  | .mock eps => eps
  | .rest ra => ra.endpoints cfg
  | .ws conns => conns.flatMap (fun c => c.2.toList)     -- inner MuxAgent.Endpoints()

/-- `bagContainsEndpoint(bag, eids)`. -/
def bagContains (bag eids : List Eid) : Bool := bag.any (fun e => eids.contains e)

/-- What a child does with a `BundleMessage` it is handed: the resulting state and the hand-overs. -/
def Agent.receive (cfg : Cfg) (i : Nat) (a : Agent) (b : Bundle) : Agent × List (Rcpt × Bundle) :=
  match a with
  | .ping _ => (a, [(.ping i, b)])
  | .mock _ => (a, [(.mock i, b)])
  | .rest ra =>
    let r := ra.receive cfg b
    (.rest r.1, r.2.map (fun u => (.rest i u, b)))
  | .ws conns =>
    -- WebSocketAgent.handler passes the message to its inner MuxAgent, whose children are the clients
    (a, (conns.filter (fun c => bagContains c.2.toList [b.dest])).map (fun c => (.ws i c.1, b)))

structure Mux where
  children : List (Nat × Agent) := []
deriving DecidableEq, Repr, Inhabited

/-- `MuxAgent.handle` for a message with `Recipients() = [b.dest]`. -/
def deliverChildren (cfg : Cfg) (b : Bundle) :
    List (Nat × Agent) → List (Nat × Agent) × List (Rcpt × Bundle)
  | [] => ([], [])
  | (i, a) :: rest =>
    let r := deliverChildren cfg b rest
    if bagContains (a.endpoints cfg) [b.dest] then
      let x := a.receive cfg i b
      ((i, x.1) :: r.1, x.2 ++ r.2)
    else ((i, a) :: r.1, r.2)

def Mux.deliver (cfg : Cfg) (m : Mux) (b : Bundle) : Mux × List (Rcpt × Bundle) :=
  let r := deliverChildren cfg b m.children
  (⟨r.1⟩, r.2)

def Mux.endpoints (cfg : Cfg) (m : Mux) : List Eid :=
  m.children.flatMap (fun c => c.2.endpoints cfg)

/-- `AgentManager.HasEndpoint` = `AppAgentHasEndpoint(mux, eid)`. -/
def Mux.hasEndpoint (cfg : Cfg) (m : Mux) (e : Eid) : Bool :=
  bagContains (m.endpoints cfg) [e]

/-- Apply `f` to the child with identifier `i`. -/
def Mux.update (m : Mux) (i : Nat) (f : Agent → Agent) : Mux :=
  ⟨m.children.map (fun c => if c.1 = i then (c.1, f c.2) else c)⟩

def Mux.child (m : Mux) (i : Nat) : Option Agent := aload i m.children

/-! ## Histories -/

inductive Op where
  | addPing (a : Nat) (ep : Eid)
  | addMock (a : Nat) (eps : List Eid)
  | addRest (a : Nat)
  | addWs (a : Nat)
  | dropAgent (a : Nat)                       -- the agent closed its sender channel: MuxAgent.unregister
  | restReg (a c : Nat) (ep : Eid)
  | restUnreg (a c : Nat)
  | restFetch (a c : Nat)
  | wsConnect (a c : Nat) (ep : Option Eid)   -- ServeHTTP (+ the client's register message)
  | wsClose (a c : Nat)
  | deliver (b : Bundle)
deriving DecidableEq, Repr

/-- `MuxAgent.Register` (identifiers are the harness's names; a name is used once). -/
def Mux.add (m : Mux) (i : Nat) (a : Agent) : Mux :=
  if (aload i m.children).isSome then m else ⟨m.children ++ [(i, a)]⟩

def step (cfg : Cfg) (m : Mux) : Op → Mux × List (Rcpt × Bundle)
  | .addPing a ep => (m.add a (.ping ep), [])
  | .addMock a eps => (m.add a (.mock eps), [])
  | .addRest a => (m.add a (.rest {}), [])
  | .addWs a => (m.add a (.ws []), [])
  | .dropAgent a => (⟨adelete a m.children⟩, [])
  | .restReg a c ep =>
    (m.update a (fun | .rest ra => .rest (ra.register c ep) | x => x), [])
  | .restUnreg a c =>
    (m.update a (fun | .rest ra => .rest (ra.unregister c) | x => x), [])
  | .restFetch a c =>
    match m.child a with
    | some (.rest ra) =>
      let r := ra.fetch c
      (m.update a (fun _ => .rest r.1), r.2.map (fun b => (.rest a c, b)))
    | _ => (m, [])
  | .wsConnect a c ep =>
    (m.update a (fun | .ws conns => .ws (astore c ep conns) | x => x), [])
  | .wsClose a c =>
    (m.update a (fun | .ws conns => .ws (adelete c conns) | x => x), [])
  | .deliver b => m.deliver cfg b

def run (cfg : Cfg) : Mux → List Op → Mux
  | m, [] => m
  | m, op :: ops => run cfg (step cfg m op).1 ops

/-- The trace: every operation with the events it caused. -/
def trace (cfg : Cfg) : Mux → List Op → List (Op × List (Rcpt × Bundle))
  | _, [] => []
  | m, op :: ops => (op, (step cfg m op).2) :: trace cfg (step cfg m op).1 ops

/-- All mailboxes (the harness dumps them after every operation). -/
def Mux.mailboxes (m : Mux) : List (Rcpt × List Bundle) :=
  m.children.flatMap (fun c =>
    match c.2 with
    | .rest ra => ra.mailbox.map (fun e => (Rcpt.rest c.1 e.1, e.2))
    | _ => [])

/-- The registrations a state represents: recipient and the endpoints it answers to. -/
def Agent.registered (i : Nat) : Agent → List (Rcpt × List Eid)
  | .ping ep => [(.ping i, [ep])]
  | .mock eps => [(.mock i, eps)]
  | .rest ra => ra.clients.map (fun c => (.rest i c.1, [c.2]))
  | .ws conns => conns.map (fun c => (.ws i c.1, c.2.toList))

def Mux.registered (m : Mux) : List (Rcpt × List Eid) :=
  m.children.flatMap (fun c => c.2.registered c.1)

/-- Well-formed registry: identifiers are names (no name twice). Preserved by every operation. -/
def keysNodup {κ β : Type} (l : List (κ × β)) : Prop := (l.map (·.1)).Nodup

def Agent.WF : Agent → Prop
  | .rest ra => keysNodup ra.clients ∧ keysNodup ra.mailbox
  | .ws conns => keysNodup conns
  | _ => True

def Mux.WF (m : Mux) : Prop := keysNodup m.children ∧ ∀ c ∈ m.children, c.2.WF

/-! ## Spec — independent of the model above

These predicates are what the theorems conclude and what the driver evaluates on the
implementation's own observations. -/

abbrev Regs := List (Rcpt × List Eid)

/-- The recipients registered for exactly this endpoint. -/
def registeredFor (regs : Regs) (dest : Eid) : List Rcpt :=
  (regs.filter (fun r => r.2.contains dest)).map (·.1)

/-- **DeliveredExactly**: every hand-over went to a recipient registered for exactly the bundle's
destination and carried the unchanged bundle; every such recipient got it exactly once. -/
def DeliveredExactly (regs : Regs) (b : Bundle) (out : List (Rcpt × Bundle)) : Bool :=
  out.all (fun o => o.2 == b && (registeredFor regs b.dest).contains o.1) &&
  (registeredFor regs b.dest).all (fun r => (out.map (·.1)).count r == 1)

/-- Which clause of `DeliveredExactly` fails, with the kind of recipient (for the specfail class). -/
def Rcpt.kind : Rcpt → String
  | .ping _ => "ping" | .mock _ => "mock" | .rest _ _ => "rest" | .ws _ _ => "ws"

def deliveredFail (regs : Regs) (b : Bundle) (out : List (Rcpt × Bundle)) : Option String :=
  let want := registeredFor regs b.dest
  match out.find? (fun o => !want.contains o.1) with
  | some o => some s!"recipient-not-registered-{o.1.kind}"
  | none =>
    match out.find? (fun o => o.2 != b) with
    | some o => some s!"content-differs-{o.1.kind}"
    | none =>
      match want.find? (fun r => (out.map (·.1)).count r == 0) with
      | some r => some s!"recipient-missed-{r.kind}"
      | none =>
        match want.find? (fun r => (out.map (·.1)).count r != 1) with
        | some r => some s!"recipient-duplicate-{r.kind}"
        | none => none

/-- **FetchExactlyOnce**: the concatenation of a client's fetch results (plus what is still in
the mailbox) is a permutation of what was put into its mailbox. -/
def FetchExactlyOnce (put fetched : List Bundle) : Bool := fetched.isPerm put

/-! ### Reference registry (Spec side): a flat table of registrations and mailboxes, updated by the
operations in the obvious way. -/

inductive Kind where | ping | mock | rest | ws
deriving DecidableEq, Repr

structure Reg where
  kinds : List (Nat × Kind) := []
  regs  : Regs := []
  boxes : List (Rcpt × List Bundle) := []
deriving Repr

def Rcpt.agent : Rcpt → Nat
  | .ping a => a | .mock a => a | .rest a _ => a | .ws a _ => a

def Reg.kindOf (r : Reg) (a : Nat) : Option Kind := aload a r.kinds

def Reg.box (r : Reg) (x : Rcpt) : List Bundle := (aload x r.boxes).getD []

def Reg.addAgent (r : Reg) (a : Nat) (k : Kind) (entries : Regs) : Reg :=
  if (r.kindOf a).isSome then r else { r with kinds := r.kinds ++ [(a, k)], regs := r.regs ++ entries }

def isRest : Rcpt → Bool
  | .rest _ _ => true
  | _ => false

/-- Append `b` to the mailbox of `x`. -/
def putBox (bx : List (Rcpt × List Bundle)) (x : Rcpt) (b : Bundle) : List (Rcpt × List Bundle) :=
  astore x ((aload x bx).getD [] ++ [b]) bx

def Reg.step (r : Reg) : Op → Reg × List (Rcpt × Bundle)
  | .addPing a ep => (r.addAgent a .ping [(.ping a, [ep])], [])
  | .addMock a eps => (r.addAgent a .mock [(.mock a, eps)], [])
  | .addRest a => (r.addAgent a .rest [], [])
  | .addWs a => (r.addAgent a .ws [], [])
  | .dropAgent a =>
    ({ kinds := adelete a r.kinds, regs := r.regs.filter (fun e => e.1.agent ≠ a),
       boxes := r.boxes.filter (fun e => e.1.agent ≠ a) }, [])
  | .restReg a c ep =>
    if r.kindOf a = some .rest then ({ r with regs := astore (.rest a c) [ep] r.regs }, [])
    else (r, [])
  | .restUnreg a c =>
    if r.kindOf a = some .rest then
      ({ r with regs := adelete (.rest a c) r.regs, boxes := adelete (.rest a c) r.boxes }, [])
    else (r, [])
  | .restFetch a c =>
    if r.kindOf a = some .rest then
      ({ r with boxes := adelete (.rest a c) r.boxes }, (r.box (.rest a c)).map (fun b => (.rest a c, b)))
    else (r, [])
  | .wsConnect a c ep =>
    if r.kindOf a = some .ws then ({ r with regs := astore (.ws a c) ep.toList r.regs }, [])
    else (r, [])
  | .wsClose a c =>
    if r.kindOf a = some .ws then ({ r with regs := adelete (.ws a c) r.regs }, [])
    else (r, [])
  | .deliver b =>
    let want := registeredFor r.regs b.dest
    ({ r with boxes := (want.filter isRest).foldl (fun bx x => putBox bx x b) r.boxes },
      want.map (fun x => (x, b)))

/-- Events of one operation agree with the reference: a delivery reaches exactly the registered
recipients (`DeliveredExactly`), a fetch returns exactly the mailbox (as a multiset), anything else
causes no event. -/
def eventsOk (r : Reg) (op : Op) (ev : List (Rcpt × Bundle)) : Bool :=
  match op with
  | .deliver b => DeliveredExactly r.regs b ev
  | .restFetch a c =>
    ev.all (fun e => e.1 == .rest a c) && FetchExactlyOnce (r.box (.rest a c)) (ev.map (·.2))
  | _ => ev.isEmpty

/-- A whole trace agrees with the reference. -/
def histOk : Reg → List (Op × List (Rcpt × Bundle)) → Bool
  | _, [] => true
  | r, (op, ev) :: rest => eventsOk r op ev && histOk (r.step op).1 rest

/-! ## Concurrency on one mailbox: micro-steps and schedules

One client's mailbox entry, a mutex, and any number of threads: deliveries (`receiveBundleMessage`
for this client: lock, load, store, unlock) and fetches (`fetchMailbox`: lock, load, delete, unlock).
`locked = false` is the code before the D15 repair (no mutex). -/

inductive Thr where
  | dIdle (b : Bundle)
  | dLocked (b : Bundle)
  | dLoaded (b : Bundle) (reg : Option (List Bundle))
  | dStored (b : Bundle)
  | dDone (b : Bundle)
  | fIdle
  | fLocked
  | fLoaded (l : List Bundle)
  | fDeleted (l : List Bundle)
  | fDone (l : List Bundle)
deriving DecidableEq, Repr

structure Shared where
  mbox : Option (List Bundle) := none
  lock : Option Nat := none
deriving DecidableEq, Repr

/-- One micro-step of thread `i`; `none` = not enabled (blocked on the mutex, or finished). -/
def stepThr (locked : Bool) (i : Nat) (s : Shared) : Thr → Option (Shared × Thr)
  | .dIdle b =>
    if locked then (if s.lock = none then some ({ s with lock := some i }, .dLocked b) else none)
    else some (s, .dLocked b)
  | .dLocked b => some (s, .dLoaded b s.mbox)
  | .dLoaded b r => some ({ s with mbox := some (r.getD [] ++ [b]) }, .dStored b)
  | .dStored b => some (if locked then { s with lock := none } else s, .dDone b)
  | .dDone _ => none
  | .fIdle =>
    if locked then (if s.lock = none then some ({ s with lock := some i }, .fLocked) else none)
    else some (s, .fLocked)
  | .fLocked =>
    match s.mbox with
    | some l => some (s, .fLoaded l)
    | none => some (s, .fDeleted [])
  | .fLoaded l => some ({ s with mbox := none }, .fDeleted l)
  | .fDeleted l => some (if locked then { s with lock := none } else s, .fDone l)
  | .fDone _ => none

/-- A schedule is a list of thread indices; a choice that is not enabled is skipped. Every
interleaving of the threads' micro-steps is `runSched … σ` for some `σ`, and vice versa. -/
def runSched (locked : Bool) : Shared × List Thr → List Nat → Shared × List Thr
  | st, [] => st
  | (s, ts), i :: σ =>
    match ts[i]? with
    | some t =>
      match stepThr locked i s t with
      | some (s', t') => runSched locked (s', ts.set i t') σ
      | none => runSched locked (s, ts) σ
    | none => runSched locked (s, ts) σ

def Thr.fetched : Thr → List Bundle
  | .fDeleted l => l
  | .fDone l => l
  | _ => []

def Thr.stored : Thr → List Bundle
  | .dStored b => [b]
  | .dDone b => [b]
  | _ => []

def Thr.bundle : Thr → List Bundle
  | .dIdle b | .dLocked b | .dLoaded b _ | .dStored b | .dDone b => [b]
  | _ => []

def Thr.done : Thr → Bool
  | .dDone _ => true
  | .fDone _ => true
  | _ => false

def Thr.idle : Thr → Bool
  | .dIdle _ => true
  | .fIdle => true
  | _ => false

/-- All fetch results so far / all bundles put into the mailbox so far. -/
def fetchedAll (ts : List Thr) : List Bundle := ts.flatMap Thr.fetched
def storedAll (ts : List Thr) : List Bundle := ts.flatMap Thr.stored
def bundlesAll (ts : List Thr) : List Bundle := ts.flatMap Thr.bundle

/-! ## The node: HasEndpoint, receive, dispatching, localDelivery -/

inductive Constraint where
  | dispatchPending | forwardPending | reassemblyPending | contraindicated | localEndpoint
deriving DecidableEq, Repr

inductive Out where
  | handed (r : Rcpt) (b : Bundle)   -- an application agent / client took the bundle
  | report (about : Bundle)          -- a "delivered" status report for `about`, sent to `about.reportTo`
  | forward (b : Bundle)             -- handed to Core.forward (routing algorithm, CLAs)
  | deletion (b : Bundle)            -- bundleDeletion
deriving DecidableEq, Repr

structure Node where
  nodeId : Eid
  mux    : Mux := {}
  claEps : List Eid := []                      -- endpoints of CLA listeners / receivers
  store  : List (Nat × Bundle × List Constraint) := []  -- bundle id ↦ bundle, retention constraints
deriving Repr

/-- `reportGuard = true` is the repaired `localDelivery` (returns when `Deliver` failed). -/
structure NCfg extends Cfg where
  reportGuard : Bool := true
deriving Repr

def Node.hasEndpoint (cfg : Cfg) (n : Node) (e : Eid) : Bool :=
  n.nodeId.sameNode e || n.mux.hasEndpoint cfg e || n.claEps.any (fun c => c.sameNode e)

/-- `Core.SendStatusReport(bp, DeliveredBundle, …)`. -/
def statusReport (cfg : Cfg) (n : Node) (b : Bundle) : List Out :=
  if b.admin then [] else if n.hasEndpoint cfg b.reportTo then [] else [.report b]

/-- `AgentManager.Deliver`: error when nobody registered the destination; otherwise the
LocalEndpoint constraint is removed and the bundle is handed to the MuxAgent. -/
def deliverAM (cfg : Cfg) (n : Node) (b : Bundle) (cons : List Constraint) :
    Bool × Node × List Out × List Constraint :=
  if n.mux.hasEndpoint cfg b.dest then
    let r := n.mux.deliver cfg b
    (true, { n with mux := r.1 }, r.2.map (fun h => .handed h.1 h.2),
      cons.filter (· ≠ .localEndpoint))
  else (false, n, [], cons)

def purge (cons : List Constraint) : List Constraint := cons.filter (· = .localEndpoint)

/-- `bp.AddConstraint(LocalEndpoint)` (the constraints are a set). -/
def addLocal (cons : List Constraint) : List Constraint :=
  if cons.contains .localEndpoint then cons else cons ++ [.localEndpoint]

/-- `Core.localDelivery`; the last component is the constraint set it leaves in the store
(`[]` = the bundle is removed from the store). -/
def localDelivery (cfg : NCfg) (n : Node) (b : Bundle) (cons : List Constraint) :
    Node × List Out × List Constraint :=
  if b.admin && !b.adminOk then (n, [.deletion b], purge cons)
  else
    let r := deliverAM cfg.toCfg n b (addLocal cons)
    if cfg.reportGuard && !r.1 then (r.2.1, r.2.2.1, r.2.2.2)
    else
      let rep := if b.reqDelivery then statusReport cfg.toCfg r.2.1 b else []
      (r.2.1, r.2.2.1 ++ rep, purge r.2.2.2)

/-- `descriptor.AddConstraint` (the constraints are a set). -/
def addC (c : Constraint) (cons : List Constraint) : List Constraint :=
  if cons.contains c then cons else cons ++ [c]

/-- `Core.dispatching` (the routing algorithm's veto is not modelled). -/
def dispatching (cfg : NCfg) (n : Node) (b : Bundle) (cons : List Constraint) :
    Node × List Out × List Constraint :=
  if n.hasEndpoint cfg.toCfg b.dest then localDelivery cfg n b cons
  else (n, [.forward b], addC .forwardPending (cons.filter (· ≠ .dispatchPending)))

/-- Write back what `dispatching` left: no constraints = the store deletes the bundle. -/
def Node.sync (n : Node) (b : Bundle) (cons : List Constraint) : Node :=
  { n with store := if cons.isEmpty then adelete b.tok n.store else astore b.tok (b, cons) n.store }

/-- `Core.receive` for one arriving copy: a bundle whose identifier is still in the store with
constraints is ignored; otherwise it is accepted and dispatched. -/
def receive (cfg : NCfg) (n : Node) (b : Bundle) : Node × List Out :=
  match aload b.tok n.store with
  | some (_, _ :: _) => (n, [])
  | _ =>
    let r := dispatching cfg n b [.dispatchPending]
    (r.1.sync b r.2.2, r.2.1)

/-- `BundleItem.Pending` as computed by `BundleDescriptor.Sync`. -/
def pendingC (cons : List Constraint) : Bool :=
  !cons.contains .reassemblyPending && (cons.contains .forwardPending || cons.contains .contraindicated)

/-- `Core.checkPendingBundles` (the cron job): every pending bundle of the store is dispatched
again — a bundle that was forwarded while nobody had registered its destination is delivered
locally once an agent has. -/
def tick (cfg : NCfg) (n : Node) : Node × List Out :=
  n.store.foldl (fun acc e =>
    if pendingC e.2.2 then
      let r := dispatching cfg acc.1 e.2.1 e.2.2
      (r.1.sync e.2.1 r.2.2, acc.2 ++ r.2.1)
    else acc) (n, [])

/-! ### Spec for the node -/

def Out.isHanded (b : Bundle) : Out → Bool
  | .handed _ b' => b' == b
  | _ => false

/-- **ReportOnlyAfterHandover**: a "delivered" report implies a hand-over of that bundle. -/
def ReportOnlyAfterHandover (b : Bundle) (outs : List Out) : Bool :=
  !outs.contains (.report b) || outs.any (Out.isHanded b)

/-- The retention constraint may only disappear after a hand-over (or because the bundle is a
malformed administrative record, which is deleted, not delivered). -/
def RetentionOk (b : Bundle) (outs : List Out) (cons : List Constraint) : Bool :=
  cons.contains .localEndpoint || outs.any (Out.isHanded b) || outs.contains (.deletion b)

def NotForwarded (outs : List Out) : Bool :=
  outs.all (fun | .forward _ => false | _ => true)

end Dtn7.Delivery
