/-
The administrative-record payload of a status report on the wire
  pkg/bpv7/administrative_record.go               (WriteAdministrativeRecord / ReadAdministrativeRecord)
  pkg/bpv7/administrative_record_status_report.go (StatusReport / BundleStatusItem Marshal/UnmarshalCbor)
  pkg/bpv7/bundle_id.go                           (BundleID Marshal/UnmarshalCbor: no array of its own)
  pkg/bpv7/endpoint.go, endpoint_dtn.go, endpoint_ipn.go, time.go (endpoint IDs, creation timestamp)

Core-only. `encAdminRecord` is what the node puts into the payload block of a report bundle,
`decAdminRecord` what a receiver reads back; the driver compares both with the implementation's
bytes, `Lemmas/ReportsCbor.lean` proves the round trip.
-/
import Dtn7.Model.Cbor
import Dtn7.Model.Reports

namespace Dtn7.Reports
open Dtn7.Cbor

/-- The decoded administrative record: status items, reason code, referenced bundle. -/
structure Record where
  items : List Item
  reason : Nat
  ref : BundleId
deriving DecidableEq, Repr

def Report.record (r : Report) : Record := ⟨r.items, r.reason, r.ref⟩

/-! ### Encoders (`MarshalCbor`) -/

def slash : UInt8 := 47

/-- `fmt.Sprintf("//%s/%s", NodeName, Demux)`. -/
def dtnSsp (node demux : Bytes) : Bytes := [slash, slash] ++ node ++ [slash] ++ demux

/-- `EndpointID.MarshalCbor`: `[scheme number, scheme specific part]`. -/
def encEid : Eid → Bytes
  | .none => encArray 2 ++ encUInt 1 ++ encUInt 0
  | .dtn n d => encArray 2 ++ encUInt 1 ++ encText (dtnSsp n d)
  | .ipn n s => encArray 2 ++ encUInt 2 ++ (encArray 2 ++ encUInt n ++ encUInt s)

/-- `cboring.WriteBoolean`. -/
def encBool (b : Bool) : Bytes := [if b then 0xF5 else 0xF4]

/-- `BundleStatusItem.MarshalCbor`: the time is written exactly if asserted and requested. -/
def encItem (it : Item) : Bytes :=
  match it.asserted, it.time with
  | true, some t => encArray 2 ++ encBool true ++ encUInt t
  | a, _ => encArray 1 ++ encBool a

def encItems : List Item → Bytes
  | [] => []
  | it :: rest => encItem it ++ encItems rest

/-- `BundleID.MarshalCbor`: source node, creation timestamp and — for fragments — offset and total
length, written into the surrounding array. -/
def encBundleId (i : BundleId) : Bytes :=
  encEid i.source ++ (encArray 2 ++ encUInt i.time ++ encUInt i.seq) ++
  (match i.frag with
   | some (o, t) => encUInt o ++ encUInt t
   | none => [])

/-- `BundleID.Len`. -/
def BundleId.len (i : BundleId) : Nat := if i.frag.isSome then 4 else 2

/-- `StatusReport.MarshalCbor`: `2 + RefBundle.Len()` elements. -/
def encStatusReport (r : Record) : Bytes :=
  encArray (2 + r.ref.len) ++ (encArray r.items.length ++ encItems r.items) ++ encUInt r.reason ++
  encBundleId r.ref

/-- `AdministrativeRecordManager.WriteAdministrativeRecord`: `[record type code, record]`. -/
def encAdminRecord (r : Record) : Bytes := encArray 2 ++ encUInt 1 ++ encStatusReport r

/-! ### Decoders (`UnmarshalCbor`) -/

/-- `[\w-._]` of the node-name part of `dtnEndpointRegexpSsp`. -/
def nodeChar (b : UInt8) : Bool :=
  (48 ≤ b && b ≤ 57) || (65 ≤ b && b ≤ 90) || (97 ≤ b && b ≤ 122) || b == 95 || b == 45 || b == 46

/-- `parseDtnSsp` for a text-string SSP: `^//([\w-._]+)/(.*)$` (`.` does not match a newline). -/
def parseSsp (ssp : Bytes) : Except Err Eid :=
  match ssp with
  | a :: b :: rest =>
    if a = slash ∧ b = slash then
      let node := rest.takeWhile (· != slash)
      let after := rest.dropWhile (· != slash)
      match after with
      | _ :: demux =>
        if node ≠ [] ∧ node.all nodeChar ∧ !demux.contains 10 then .ok (.dtn node demux)
        else .error (.other 2)
      | [] => .error (.other 2)
    else .error (.other 2)
  | _ => .error (.other 2)

/-- `EndpointID.UnmarshalCbor` with `DtnEndpoint`/`IpnEndpoint.UnmarshalCbor`. For scheme 1 any
unsigned integer is read as dtn:none (the code only looks at the major type). -/
def decEid (bs : Bytes) : Except Err (Eid × Bytes) := do
  let (l, bs) ← decArray bs
  if l ≠ 2 then .error (.other 1) else do
  let (scheme, bs) ← decUInt bs
  if scheme = 1 then do
    let (m, n, rest) ← decHead bs
    if m = majUInt then .ok (.none, rest)
    else if m = majText then do
      let (ssp, rest) ← readRaw n rest
      let e ← parseSsp ssp
      .ok (e, rest)
    else .error (.other 3)
  else if scheme = 2 then do
    let (l, bs) ← decArray bs
    if l ≠ 2 then .error (.other 1) else do
    let (n, bs) ← decUInt bs
    let (s, bs) ← decUInt bs
    .ok (.ipn n s, bs)
  else .error (.other 4)

/-- `cboring.ReadBoolean`. -/
def decBool : Bytes → Except Err (Bool × Bytes)
  | [] => .error .eof
  | b :: rest => if b = 0xF5 then .ok (true, rest) else if b = 0xF4 then .ok (false, rest) else .error (.other 5)

/-- `BundleStatusItem.UnmarshalCbor`. -/
def decItem (bs : Bytes) : Except Err (Item × Bytes) := do
  let (l, bs) ← decArray bs
  if l ≠ 1 ∧ l ≠ 2 then .error (.other 6) else do
  let (a, bs) ← decBool bs
  if l = 2 then do
    let (t, bs) ← decUInt bs
    .ok (⟨a, some t⟩, bs)
  else .ok (⟨a, none⟩, bs)

def decItems : Nat → Bytes → Except Err (List Item × Bytes)
  | 0, bs => .ok ([], bs)
  | k + 1, bs => do
    let (it, bs) ← decItem bs
    let (rest, bs) ← decItems k bs
    .ok (it :: rest, bs)

/-- `StatusReport.UnmarshalCbor` (4 or 6 elements; the fragment fields are read exactly for 6). -/
def decStatusReport (bs : Bytes) : Except Err (Record × Bytes) := do
  let (l, bs) ← decArray bs
  if l ≠ 4 ∧ l ≠ 6 then .error (.other 7) else do
  let (k, bs) ← decArray bs
  let (items, bs) ← decItems k bs
  let (reason, bs) ← decUInt bs
  let (src, bs) ← decEid bs
  let (l2, bs) ← decArray bs
  if l2 ≠ 2 then .error (.other 8) else do
  let (t, bs) ← decUInt bs
  let (sq, bs) ← decUInt bs
  if l = 6 then do
    let (o, bs) ← decUInt bs
    let (tot, bs) ← decUInt bs
    .ok (⟨items, reason, ⟨src, t, sq, some (o, tot)⟩⟩, bs)
  else .ok (⟨items, reason, ⟨src, t, sq, none⟩⟩, bs)

/-- `AdministrativeRecordManager.ReadAdministrativeRecord` (only type code 1 is registered). -/
def decAdminRecord (bs : Bytes) : Except Err (Record × Bytes) := do
  let (l, bs) ← decArray bs
  if l ≠ 2 then .error (.other 9) else do
  let (code, bs) ← decUInt bs
  if code ≠ 1 then .error (.other 10) else
  decStatusReport bs

/-! ### Well-formedness needed for the round trip -/

def u64 (n : Nat) : Prop := n < 2 ^ 64

/-- An endpoint the code can serialise and parse back. -/
def Eid.wf : Eid → Prop
  | .none => True
  | .dtn n d => n ≠ [] ∧ n.all nodeChar = true ∧ d.contains 10 = false ∧
      (dtnSsp n d).length ≤ maxInt32
  | .ipn n s => u64 n ∧ u64 s

/-- A status item as `MarshalCbor` can express it: a time only on an asserted item. -/
def Item.wf (it : Item) : Prop :=
  (it.time.isSome = true → it.asserted = true) ∧ ∀ t, it.time = some t → u64 t

def Record.wf (r : Record) : Prop :=
  (∀ it ∈ r.items, it.wf) ∧ u64 r.items.length ∧ u64 r.reason ∧ r.ref.source.wf ∧
  u64 r.ref.time ∧ u64 r.ref.seq ∧ ∀ o t, r.ref.frag = some (o, t) → u64 o ∧ u64 t

end Dtn7.Reports
