/-
Model of the bundle store
  pkg/storage/store.go        (Store.Push / Update / Delete / DeleteExpired / QueryId / QueryPending / KnowsBundle)
  pkg/storage/bundle_item.go  (BundleItem.IsComplete / Load, BundlePart.storeBundle / deleteBundle / Load)

The durable state is `(index, files)`:
* `index`  — the badgerhold records `BundleItem`, keyed by the scrubbed bundle ID (an atomic durable
  map: trusted, see DESIGN §4), kept as an association list in insertion order;
* `files`  — one file per bundle part under `<dir>/bndl/`, named `sha256(full bundle id)`. File
  names are modelled by the pair (scrubbed id, fragment offset/total), i.e. SHA-256 is assumed to
  be collision free on the ids in use.

Every mutating operation is a *plan*: the list of durable micro-steps the Go code performs, in the
code's order, computed from the state the operation reads first (`QueryId`, and — for a fragment
whose offset and total are already stored — `BundlePart.Load` of the stored fragment). `exec` runs the whole
plan, `crash k` only its first `k` steps (process killed there), `reopen` is the identity on the
durable state. Bundles are opaque byte strings together with what the store reads from them (id,
fragment offset/total, payload length, expiry); the bundle parser is a parameter `parse` (property
C01), of which only "a reader positioned at the start of an encoded bundle returns that bundle,
whatever follows it" is used (`WF`): part files are opened without `O_TRUNC`.

Core-only; used by the driver `drv_c08` and by `Dtn7.Props.C08`.
-/
namespace Dtn7.Store

abbrev Bytes := List UInt8

/-! ### Association lists (first match wins; `put` replaces in place or appends) -/

section AList
variable {κ : Type} {α : Type} [DecidableEq κ]

def get (k : κ) : List (κ × α) → Option α
  | [] => none
  | (k', v) :: r => if k' = k then some v else get k r

def put (k : κ) (v : α) : List (κ × α) → List (κ × α)
  | [] => [(k, v)]
  | (k', v') :: r => if k' = k then (k, v) :: r else (k', v') :: put k v r

def del (k : κ) (l : List (κ × α)) : List (κ × α) := l.filter (fun e => !decide (e.1 = k))

def keys (l : List (κ × α)) : List κ := l.map (·.1)

end AList

/-! ### Data -/

/-- Scrubbed bundle ID: source node, creation time, sequence number. -/
structure Id where
  src : Nat
  ts  : Nat
  seq : Nat
deriving DecidableEq, Repr

/-- Fragment offset and total application data length, `none` for an unfragmented bundle. -/
abbrev Frag := Option (Nat × Nat)

/-- File name of a part: `sha256(BundleID.String())`, the string contains offset and total exactly for fragments. -/
structure Name where
  id   : Id
  frag : Frag
  /-- the temporary file `<name>.tmp` of `BundlePart.replaceBundle` -/
  tmp  : Bool := false
deriving DecidableEq, Repr

def tmpOf (n : Name) : Name := { n with tmp := true }

abbrev Props := List (String × String)

/-- What the store sees of a bundle. `bytes` is its CBOR encoding, `payLen` the length of its
payload block, `expires` = creation time + lifetime (`calcExpirationDate`, milliseconds). -/
structure Bundle where
  id      : Id
  frag    : Frag
  payLen  : Nat
  expires : Nat
  bytes   : Bytes
deriving DecidableEq, Repr

/-- `BundlePart`. -/
structure Part where
  name  : Name
  off   : Nat
  total : Nat
deriving DecidableEq, Repr

/-- `BundleItem` (the key `Id`/`BId` is the association-list key). -/
structure Item where
  pending    : Bool
  expires    : Nat
  fragmented : Bool
  parts      : List Part
  props      : Props
deriving DecidableEq, Repr

structure State where
  index : List (Id × Item)
  files : List (Name × Bytes)
deriving DecidableEq, Repr

def State.empty : State := ⟨[], []⟩

/-! ### Micro-steps -/

inductive Step where
  | writeFile  (n : Name) (d : Bytes)   -- os.OpenFile(O_WRONLY|O_CREATE) + WriteBundle: no truncation
  | removeFile (n : Name)               -- os.Remove (an error is only logged)
  | writeTmp   (n : Name) (d : Bytes)   -- replaceBundle: OpenFile(n.tmp, O_WRONLY|O_CREATE|O_TRUNC), write, close
  | renameTmp  (n : Name)               -- replaceBundle: os.Rename(n.tmp, n): atomic replacement
  | idxInsert  (id : Id) (it : Item)    -- badgerhold Insert: ErrKeyExists if present
  | idxUpdate  (id : Id) (it : Item)    -- badgerhold Update: ErrNotFound if absent
  | idxDelete  (id : Id)                -- badgerhold Delete
deriving DecidableEq, Repr

/-- Writing `d` at offset 0 of a file holding `old` without truncating it. -/
def overwrite (d old : Bytes) : Bytes := d ++ old.drop d.length

def applyStep (s : State) : Step → State
  | .writeFile n d  => { s with files := put n (overwrite d ((get n s.files).getD [])) s.files }
  | .removeFile n   => { s with files := del n s.files }
  | .writeTmp n d   => { s with files := put (tmpOf n) d s.files }
  | .renameTmp n    =>
    match get (tmpOf n) s.files with
    | some d => { s with files := put n d (del (tmpOf n) s.files) }
    | none => s
  | .idxInsert id it => if (get id s.index).isSome then s else { s with index := put id it s.index }
  | .idxUpdate id it => if (get id s.index).isSome then { s with index := put id it s.index } else s
  | .idxDelete id   => { s with index := del id s.index }

/-- Does the step succeed (no error returned by the file system / badgerhold)? -/
def stepOk (s : State) : Step → Bool
  | .writeFile _ _   => true
  | .removeFile n    => (get n s.files).isSome
  | .writeTmp _ _    => true
  | .renameTmp n     => (get (tmpOf n) s.files).isSome
  | .idxInsert id _  => (get id s.index).isNone
  | .idxUpdate id _  => (get id s.index).isSome
  | .idxDelete id    => (get id s.index).isSome

def runSteps (s : State) : List Step → State
  | [] => s
  | st :: r => runSteps (applyStep s st) r

/-- All steps succeed when run from `s`. -/
def stepsOk (s : State) : List Step → Bool
  | [] => true
  | st :: r => stepOk s st && stepsOk (applyStep s st) r

/-! ### Operations -/

def bOff (b : Bundle) : Nat := (b.frag.map (·.1)).getD 0
def bTotal (b : Bundle) : Nat := (b.frag.map (·.2)).getD 0

/-- `newBundleItem`'s part (offset and total are 0 for an unfragmented bundle). -/
def partOf (b : Bundle) : Part := ⟨⟨b.id, b.frag, false⟩, bOff b, bTotal b⟩

/-- `newBundleItem`. -/
def newItem (b : Bundle) : Item := ⟨false, b.expires, b.frag.isSome, [partOf b], []⟩

def fragKey (b : Bundle) : Nat × Nat := (bOff b, bTotal b)

/-- The stored part `p` has the offset and total of the pushed fragment `b`. -/
def sameFrag (b : Bundle) (p : Part) : Bool := (p.off, p.total) == fragKey b

inductive Op where
  | push    (b : Bundle)
  | update  (id : Id) (pending : Bool) (expires : Nat) (props : Props)  -- QueryId; modify; Store.Update
  | delete  (id : Id)
  | replace (b : Bundle)                                               -- Store.ReplaceBundle
deriving DecidableEq, Repr

section Plan
-- the bundle parser (`bpv7.ParseBundle`, property C01)
variable (parse : Bytes → Option Bundle)

/-- `BundlePart.Load`: open the file, parse one bundle from its start. -/
def loadPart (s : State) (p : Part) : Option Bundle := (get p.name s.files).bind parse

/-- `BundlePart.replaceBundle`: write `<name>.tmp`, rename it over `<name>`. -/
def replaceSteps (n : Name) (d : Bytes) : List Step := [.writeTmp n d, .renameTmp n]

/-- The micro-steps of one operation, in the code's order, from the state it reads first.

* `Push`: `QueryId`; unknown ⇒ write the part file, insert the item. Known and the pushed bundle is
  a fragment of a fragment record: if no part has this offset and total, write the part file, then
  update the item with `Parts ++ [part]`; if one has, load the stored fragment (from the file name
  derived from the pushed bundle's id) and, unless it loads with a payload at least as long as the
  pushed one, replace the file (temporary file, rename) — the index is not written. Known otherwise
  (a fragment for a stored whole bundle, a whole bundle for any record): ignored.
* `Update`: the callers' `QueryId`, change of `Pending`/`Expires`/`Properties`, `Store.Update`.
* `Delete`: `QueryId`; known ⇒ delete the index entry, then remove the file of each part.
* `ReplaceBundle`: `QueryId`; the first part with the bundle's offset and total (0, 0 for an
  unfragmented bundle) gets its file replaced; error (no step) otherwise. It takes no lock and
  writes no index entry: all it does is the atomic replacement of one file. -/
def plan (s : State) : Op → List Step
  | .push b =>
    match get b.id s.index with
    | none => [.writeFile (partOf b).name b.bytes, .idxInsert b.id (newItem b)]
    | some it =>
      if b.frag.isSome && it.fragmented then
        if it.parts.any (sameFrag b) then
          match loadPart parse s (partOf b) with
          | some st => if b.payLen ≤ st.payLen then [] else replaceSteps (partOf b).name b.bytes
          | none => replaceSteps (partOf b).name b.bytes
        else
          [.writeFile (partOf b).name b.bytes,
           .idxUpdate b.id { it with parts := it.parts ++ [partOf b] }]
      else []
  | .update id pending expires props =>
    match get id s.index with
    | none => []
    | some it => [.idxUpdate id { it with pending := pending, expires := expires, props := props }]
  | .delete id =>
    match get id s.index with
    | none => []
    | some it => .idxDelete id :: it.parts.map (fun p => .removeFile p.name)
  | .replace b =>
    match get b.id s.index with
    | none => []
    | some it =>
      match it.parts.find? (sameFrag b) with
      | none => []
      | some p => replaceSteps p.name b.bytes

def exec (s : State) (op : Op) : State := runSteps s (plan parse s op)

/-- The process is killed after the first `k` micro-steps of `op`. -/
def crash (k : Nat) (s : State) (op : Op) : State := runSteps s ((plan parse s op).take k)

end Plan

/-- The order the tree had before the repair of D31: files first, index entry last. -/
def planDeleteFilesFirst (s : State) (id : Id) : List Step :=
  match get id s.index with
  | none => []
  | some it => it.parts.map (fun p => .removeFile p.name) ++ [.idxDelete id]

/-- `Close` + `NewStore` on the same directory. -/
def reopen (s : State) : State := s

/-- Ids `DeleteExpired` finds at time `now` (`Where("Expires").Lt(now)`). -/
def expiredIds (s : State) (now : Nat) : List Id :=
  keys (s.index.filter (fun e => decide (e.2.expires < now)))

/-- Commands of a history. -/
inductive Cmd where
  | op (o : Op)
  | sweep (now : Nat)
  | reopen
deriving DecidableEq, Repr

section Run
variable (parse : Bytes → Option Bundle)

/-- `DeleteExpired`: one `Delete` per found item. -/
def sweep (s : State) (now : Nat) : State :=
  (expiredIds s now).foldl (fun s id => exec parse s (.delete id)) s

def step (s : State) : Cmd → State
  | .op o => exec parse s o
  | .sweep now => sweep parse s now
  | .reopen => reopen s

def run (s : State) (cs : List Cmd) : State := cs.foldl (step parse) s

end Run

/-! ### Queries -/

def queryId (s : State) (id : Id) : Option Item := get id s.index

def knows (s : State) (id : Id) : Bool := (queryId s id).isSome

def queryPending (s : State) : List (Id × Item) := s.index.filter (fun e => e.2.pending)

section Read
variable (parse : Bytes → Option Bundle)

def loadParts (s : State) : List Part → Option (List Bundle)
  | [] => some []
  | p :: r =>
    match loadPart parse s p, loadParts s r with
    | some b, some bs => some (b :: bs)
    | _, _ => none

/-- A bundle the store can be given: the parser returns `b` from a reader positioned at the start
of `b.bytes`, whatever follows; and a fragment has a positive total length.
(`bpv7.ParseBundle` also validates: a bundle whose lifetime is exceeded at read time is rejected, so
`WF` includes "not yet expired by its own creation time + lifetime"; the store's `Expires` field is
independent of that and is what the expiry sweep looks at.) -/
def WF (b : Bundle) : Prop :=
  (∀ rest, parse (b.bytes ++ rest) = some b) ∧ ∀ o t, b.frag = some (o, t) → 0 < t

end Read

/-! ### Reassembly check (`bpv7.prepareReassembly`) -/

def insertByOff (b : Bundle) : List Bundle → List Bundle
  | [] => [b]
  | c :: r => if bOff b < bOff c then b :: c :: r else c :: insertByOff b r

/-- Stable insertion sort by fragment offset (`sort.Slice` is not stable; the difference is only
visible for two fragments with the same offset, i.e. one contained in the other). -/
def sortByOff : List Bundle → List Bundle
  | [] => []
  | b :: r => insertByOff b (sortByOff r)

/-- The sweep over the sorted fragments: `none` on a gap, otherwise the end index reached.
`useMax = true` is the loop with the running end index *maximised* (the repair of D3),
`useMax = false` the loop that overwrites it with the current fragment's end. -/
def sweepEnd (useMax : Bool) : Nat → List (Nat × Nat) → Option Nat
  | last, [] => some last
  | last, (o, l) :: r =>
    if last < o then none else sweepEnd useMax (if useMax then max last (o + l) else o + l) r

def reassemblable (useMax : Bool) (bs : List Bundle) : Bool :=
  match sortByOff bs with
  | [] => false
  | b0 :: r =>
    (b0 :: r).all (fun b => b.frag.isSome) &&
      sweepEnd useMax 0 ((b0 :: r).map (fun b => (bOff b, b.payLen))) == some (bTotal b0)

section Read2
variable (parse : Bytes → Option Bundle)

/-- `BundleItem.IsComplete`. -/
def isComplete (useMax : Bool) (s : State) (it : Item) : Bool :=
  !it.fragmented ||
    match loadParts parse s it.parts with
    | some bs => reassemblable useMax bs
    | none => false

/-- `BundleItem.Load` succeeds (after the repair of D24: an unfragmented item with its single part
is loaded directly; everything else goes through `ReassembleFragments`, whose result is the
subject of C10). -/
def loadable (useMax : Bool) (s : State) (it : Item) : Bool :=
  match it.fragmented, it.parts with
  | false, [p] => (loadPart parse s p).isSome
  | _, ps =>
    match loadParts parse s ps with
    | some bs => reassemblable useMax bs
    | none => false

/-- `BundleItem.Load` before the repair of D24: always through `ReassembleFragments`. -/
def loadableD24 (useMax : Bool) (s : State) (it : Item) : Bool :=
  match loadParts parse s it.parts with
  | some bs => reassemblable useMax bs
  | none => false

end Read2

/-! ### Spec: a plain association map `Id ↦ Record` (independent of files and micro-steps) -/

structure Record where
  fragmented : Bool
  /-- (offset, total) ↦ what reads back: payload length and bytes (`none`: unreadable) -/
  parts      : List ((Nat × Nat) × Option (Nat × Bytes))
  pending    : Bool
  expires    : Nat
  props      : Props
deriving DecidableEq, Repr

abbrev SMap := List (Id × Record)

/-- What reads back after `b` was written. -/
def content (b : Bundle) : Option (Nat × Bytes) := some (b.payLen, b.bytes)

/-- Replace the content of the part(s) with key `k`. -/
def setPart (k : Nat × Nat) (v : Option (Nat × Bytes)) (ps : List ((Nat × Nat) × Option (Nat × Bytes))) :
    List ((Nat × Nat) × Option (Nat × Bytes)) :=
  ps.map (fun p => if p.1 = k then (k, v) else p)

/-- Does the pushed fragment `b` replace the stored one with content `c`? Yes unless the stored
one reads back with a payload at least as long. -/
def replaces (c : Option (Nat × Bytes)) (b : Bundle) : Bool :=
  match c with
  | some (l, _) => decide (l < b.payLen)
  | none => true

def hasKey (k : Nat × Nat) (ps : List ((Nat × Nat) × Option (Nat × Bytes))) : Bool :=
  ps.any (fun p => p.1 == k)

def specStep (m : SMap) : Cmd → SMap
  | .op (.push b) =>
    match get b.id m with
    | none => put b.id ⟨b.frag.isSome, [(fragKey b, content b)], false, b.expires, []⟩ m
    | some r =>
      if b.frag.isSome && r.fragmented then
        if hasKey (fragKey b) r.parts then
          -- same offset and total: the longer fragment wins
          if replaces ((r.parts.find? (fun p => p.1 == fragKey b)).bind (·.2)) b then
            put b.id { r with parts := setPart (fragKey b) (content b) r.parts } m
          else m
        else put b.id { r with parts := r.parts ++ [(fragKey b, content b)] } m
      else m
  | .op (.update id pending expires props) =>
    match get id m with
    | none => m
    | some r => put id { r with pending := pending, expires := expires, props := props } m
  | .op (.delete id) => del id m
  | .op (.replace b) =>
    match get b.id m with
    | none => m
    | some r =>
      if hasKey (fragKey b) r.parts then
        put b.id { r with parts := setPart (fragKey b) (content b) r.parts } m
      else m
  | .sweep now => m.filter (fun e => !decide (e.2.expires < now))
  | .reopen => m

def specRun (m : SMap) (cs : List Cmd) : SMap := cs.foldl specStep m

/-- The fragments cover the payload: every position below `total` lies in some fragment and no
fragment reaches beyond `total`. Intervals are (offset, length). -/
def Covers (ivs : List (Nat × Nat)) (total : Nat) : Prop :=
  ivs ≠ [] ∧ (∀ x, x < total → ∃ iv ∈ ivs, iv.1 ≤ x ∧ x < iv.1 + iv.2) ∧
    ∀ iv ∈ ivs, iv.1 + iv.2 ≤ total

instance (ivs : List (Nat × Nat)) (total : Nat) : Decidable (Covers ivs total) := by
  unfold Covers; infer_instance

/-- No fragment of the set is contained in another one (the sets on which the loops with and
without the repair of D3 agree): in offset order the ends increase strictly. -/
def noContained : List (Nat × Nat) → Bool
  | [] => true
  | [_] => true
  | (o, l) :: (o', l') :: r => o < o' && o + l < o' + l' && noContained ((o', l') :: r)

section Abs
variable (parse : Bytes → Option Bundle)

def absItem (s : State) (it : Item) : Record :=
  ⟨it.fragmented,
   it.parts.map (fun p => ((p.off, p.total), (loadPart parse s p).map (fun b => (b.payLen, b.bytes)))),
   it.pending, it.expires, it.props⟩

/-- Abstraction: what a reader of the store sees. -/
def abs (s : State) : SMap := s.index.map (fun e => (e.1, absItem parse s e.2))

end Abs

/-! ### Two concurrent pushes -/

/-- Thread of one `Push`. `idle`: not started. `ready it?`: has read the index (`QueryId`)
and — in the locked variant — holds the store mutex; `steps` are the micro-steps still to do.
`done`: returned (mutex released). -/
inductive TState where
  | idle
  | busy (steps : List Step)
  | done
deriving DecidableEq, Repr

structure Conf where
  st : State
  t1 : TState
  t2 : TState
deriving DecidableEq, Repr

def TState.inside : TState → Bool
  | .busy _ => true
  | _ => false

section Sched
variable (parse : Bytes → Option Bundle)

/-- One scheduling decision for a thread pushing `b`; `other` is the other thread's state.
With `locked`, a thread that wants to start while the other one is inside its critical section
does not move (it is blocked in `mutex.Lock`). The first move of a thread is `QueryId` (and
`Lock`, and the `Load` of the replace-if-longer branch), which fixes its plan; the following moves
are its micro-steps; the move on an empty plan is the return (and `Unlock`). -/
def tstep (locked : Bool) (b : Bundle) (s : State) (me other : TState) : State × TState :=
  match me with
  | .idle => if locked && other.inside then (s, .idle) else (s, .busy (plan parse s (.push b)))
  | .busy [] => (s, .done)
  | .busy (x :: r) => (applyStep s x, .busy r)
  | .done => (s, .done)

/-- A schedule is a list of thread choices (`false` = thread 1, `true` = thread 2). -/
def cstep (locked : Bool) (b1 b2 : Bundle) (c : Conf) (who : Bool) : Conf :=
  if who then
    let (s, t) := tstep parse locked b2 c.st c.t2 c.t1
    { c with st := s, t2 := t }
  else
    let (s, t) := tstep parse locked b1 c.st c.t1 c.t2
    { c with st := s, t1 := t }

def runSched (locked : Bool) (b1 b2 : Bundle) (s : State) (sched : List Bool) : Conf :=
  sched.foldl (cstep parse locked b1 b2) ⟨s, .idle, .idle⟩

end Sched

def Conf.finished (c : Conf) : Bool := c.t1 == .done && c.t2 == .done

end Dtn7.Store
