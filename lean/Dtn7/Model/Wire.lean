/-
Generic plumbing for the auxiliary wire formats of C17 (and the MTCP framing of C12):
errors, fixed-width big-endian reads as done by `encoding/binary` + `io.ReadFull`, and the
"read messages until the stream is exhausted" loop used for the stream-alignment theorems.

Core-only.
-/
import Dtn7.Model.Cbor

namespace Dtn7.Wire
open Dtn7.Cbor (Bytes beBytes beVal)

/-- Decoder outcomes, coarse enough to be compared with the Go implementation:
`eof` = `io.EOF` / `io.ErrUnexpectedEOF` (input ended inside a value), everything else is a
rejection of the bytes that were read. -/
inductive Err where
  | eof
  | badHeader          -- message header byte is not the expected type code
  | badMagic           -- contact header magic / version mismatch
  | badCode            -- reason code outside the enumerated set
  | unknownType        -- no message registered for the type code
  | badLen             -- CBOR array of the wrong length
  | badEid             -- endpoint rejected (scheme number, SSP grammar)
  | badValue           -- other invalid field value (e.g. CLA type, boolean)
  | cbor (e : Dtn7.Cbor.Err)
  | fuel               -- internal: iteration bound of `decMany` hit (never with fuel = input length)
deriving Repr, DecidableEq

def Err.isEof : Err → Bool
  | .eof => true
  | .cbor .eof => true
  | _ => false

/-- Decoder results can be compared (for `decide`-checked examples and witnesses). -/
instance {ε α} [DecidableEq ε] [DecidableEq α] : DecidableEq (Except ε α)
  | .ok a, .ok b => if h : a = b then isTrue (by rw [h]) else isFalse (by intro h'; cases h'; exact h rfl)
  | .error a, .error b => if h : a = b then isTrue (by rw [h]) else isFalse (by intro h'; cases h'; exact h rfl)
  | .ok _, .error _ => isFalse (by intro h; cases h)
  | .error _, .ok _ => isFalse (by intro h; cases h)

/-- Did the decoder accept? -/
def accepts {α} : Except Err α → Bool
  | .ok _ => true
  | .error _ => false

/-- Lift a CBOR-level result. -/
def liftC {α} : Except Dtn7.Cbor.Err α → Except Err α
  | .ok a => .ok a
  | .error e => .error (.cbor e)

/-- `io.ReadFull(r, make([]byte, k))`. -/
def takeN (k : Nat) (bs : Bytes) : Except Err (Bytes × Bytes) :=
  if bs.length < k then .error .eof else .ok (bs.take k, bs.drop k)

/-- `binary.Read(r, binary.BigEndian, &x)` for an unsigned integer of `k` bytes. -/
def readBE (k : Nat) (bs : Bytes) : Except Err (Nat × Bytes) :=
  match takeN k bs with
  | .error e => .error e
  | .ok (h, rest) => .ok (beVal h, rest)

/-- One byte. -/
def readU8 : Bytes → Except Err (UInt8 × Bytes)
  | [] => .error .eof
  | b :: rest => .ok (b, rest)

/-- Read values with `dec` until the input is exhausted. `fuel` bounds the number of iterations;
`decMany` uses the input length (every successful non-empty read consumes at least one byte). -/
def decManyFuel {α} (dec : Bytes → Except Err (α × Bytes)) : Nat → Bytes → Except Err (List α)
  | _, [] => .ok []
  | 0, _ :: _ => .error .fuel
  | f + 1, b :: bs =>
    match dec (b :: bs) with
    | .error e => .error e
    | .ok (v, rest) =>
      match decManyFuel dec f rest with
      | .error e => .error e
      | .ok vs => .ok (v :: vs)

def decMany {α} (dec : Bytes → Except Err (α × Bytes)) (bs : Bytes) : Except Err (List α) :=
  decManyFuel dec bs.length bs

/-- Like `decMany` but also reports the stream offset after every value (what the harness
observes on the Go side with a counting reader). -/
def decManyOffsFuel {α} (dec : Bytes → Except Err (α × Bytes)) : Nat → Nat → Bytes → List (α × Nat) × Option Err
  | _, _, [] => ([], none)
  | 0, _, _ :: _ => ([], some .fuel)
  | f + 1, off, b :: bs =>
    match dec (b :: bs) with
    | .error e => ([], some e)
    | .ok (v, rest) =>
      let off' := off + ((b :: bs).length - rest.length)
      let (vs, e) := decManyOffsFuel dec f off' rest
      ((v, off') :: vs, e)

def decManyOffs {α} (dec : Bytes → Except Err (α × Bytes)) (bs : Bytes) : List (α × Nat) × Option Err :=
  decManyOffsFuel dec bs.length 0 bs

end Dtn7.Wire
