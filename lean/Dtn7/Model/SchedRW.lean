/-
A small generic interleaving semantics for threads that synchronise through ONE readers–writer
mutex (Go's `sync.RWMutex`, textbook semantics: any number of readers or one writer; blocked steps
are not enabled).

* A thread is a list of atomic micro-steps `acqR | acqW | rel | read ℓ | write ℓ` plus the mode in
  which it currently holds the mutex.
* A state is the list of threads; a schedule is a list of thread indices; `exec` runs a schedule
  and fails (`none`) if it picks a finished or blocked thread — so theorems of the form
  `∀ σ s', exec s σ = some s' → …` range over exactly the feasible interleavings.
* Two accesses race if they are both *enabled next steps* of different threads in a reachable state,
  touch the same location and one of them is a write (`racy`): they could then be executed in either
  order / overlap in a real execution.

`wlEnd ℓ h p` is the static lock discipline: running the step list `p` linearly from mode `h`, every
write to ℓ happens in mode W and every read of ℓ in mode R or W, acquisitions happen in mode `none`
only and releases in a held mode only; it returns the final mode.  The theorem
`Dtn7.Lemmas.SchedRW.protected_imp_race_free` turns that static fact into race freedom for all
schedules.

Method bodies with branches and loops are described by `Item`s: a lock operation, or a *region* of
accesses (`anyOf`) of which an execution may perform any number in any order; `Path` generates the
step lists of all executions, `ProgOf` all sequences of method calls.
-/
namespace Dtn7.SchedRW

inductive Mode where
  | none | R | W
  deriving DecidableEq, Repr

inductive Step (L : Type) where
  | acqR | acqW | rel
  | read (l : L)
  | write (l : L)
  deriving DecidableEq, Repr

structure Thread (L : Type) where
  held : Mode
  rest : List (Step L)
  deriving Repr

abbrev State (L : Type) := List (Thread L)

variable {L : Type}

def init (progs : List (List (Step L))) : State L := progs.map fun p => ⟨.none, p⟩

/-- Is the next step of a thread enabled in state `s`? -/
def enabledStep (s : State L) : Step L → Bool
  | .acqR => s.all fun t => t.held != .W
  | .acqW => s.all fun t => t.held == .none
  | _ => true

def modeAfter (h : Mode) : Step L → Mode
  | .acqR => .R
  | .acqW => .W
  | .rel => .none
  | _ => h

/-- Thread `i` performs its next micro-step. -/
def stepAt (s : State L) (i : Nat) : Option (State L) :=
  match s[i]? with
  | some ⟨h, st :: rest⟩ => if enabledStep s st then some (s.set i ⟨modeAfter h st, rest⟩) else none
  | _ => none

/-- Run a schedule. -/
def exec (s : State L) : List Nat → Option (State L)
  | [] => some s
  | i :: σ => (stepAt s i).bind (exec · σ)

def isWriteOf [DecidableEq L] (ℓ : L) : Step L → Bool
  | .write l => l == ℓ
  | _ => false

def isAccessOf [DecidableEq L] (ℓ : L) : Step L → Bool
  | .write l => l == ℓ
  | .read l => l == ℓ
  | _ => false

def next (s : State L) (i : Nat) : Option (Step L) := (s[i]?).bind (·.rest.head?)

/-- Some write to ℓ and another access to ℓ by a different thread are both about to happen. -/
def Racy [DecidableEq L] (ℓ : L) (s : State L) : Prop :=
  ∃ i j a b, i ≠ j ∧ next s i = some a ∧ next s j = some b ∧ isWriteOf ℓ a = true ∧ isAccessOf ℓ b = true

/-- Static lock discipline for location ℓ; returns the final mode. -/
def wlEnd [DecidableEq L] (ℓ : L) : Mode → List (Step L) → Option Mode
  | h, [] => some h
  | h, .acqR :: t => if h = .none then wlEnd ℓ .R t else none
  | h, .acqW :: t => if h = .none then wlEnd ℓ .W t else none
  | h, .rel :: t => if h = .none then none else wlEnd ℓ .none t
  | h, .read l :: t => if l = ℓ ∧ h = .none then none else wlEnd ℓ h t
  | h, .write l :: t => if l = ℓ ∧ h ≠ .W then none else wlEnd ℓ h t

/-! ### Method shapes -/

inductive Item (L : Type) where
  /-- a lock operation -/
  | op (s : Step L)
  /-- a region: any number of these accesses, in any order -/
  | anyOf (accs : List (Step L))
  deriving DecidableEq, Repr

def isAccess : Step L → Bool
  | .read _ => true
  | .write _ => true
  | _ => false

/-- The step lists of all executions of a method body. -/
inductive Path : List (Item L) → List (Step L) → Prop where
  | nil : Path [] []
  | op {s is p} : Path is p → Path (.op s :: is) (s :: p)
  | any {accs as' is p} : (∀ a ∈ as', a ∈ accs) → Path is p → Path (.anyOf accs :: is) (as' ++ p)

/-- All sequences of calls of the given methods. -/
inductive ProgOf (methods : List (List (Item L))) : List (Step L) → Prop where
  | nil : ProgOf methods []
  | call {m p q} : m ∈ methods → Path m p → ProgOf methods q → ProgOf methods (p ++ q)

/-- Lock discipline of a method shape for location ℓ; returns the final mode. -/
def shapeEnd [DecidableEq L] (ℓ : L) : Mode → List (Item L) → Option Mode
  | h, [] => some h
  | h, .op s :: is => if isAccess s then none else (wlEnd ℓ h [s]).bind (shapeEnd ℓ · is)
  | h, .anyOf accs :: is =>
    if accs.all (fun a => isAccess a && (wlEnd ℓ h [a]).isSome) then shapeEnd ℓ h is else none

/-! ### Decoding the extractor's trace codes (see extract/c19.go):
1 = RLock, 2 = Lock, 3 = (R)Unlock, 10+m = read of map m, 20+m = write, 30+m = the map itself is
handed out — its later use through the alias happens after the method released the mutex, so it
is modelled as an unprotected read at the end of the method. -/

def decodeRegion : List Nat → List (Step Nat)
  | [] => []
  | c :: t => if 10 ≤ c ∧ c < 20 then .read (c - 10) :: decodeRegion t
              else if 20 ≤ c ∧ c < 30 then .write (c - 20) :: decodeRegion t
              else decodeRegion t

def decodeOps (fuel : Nat) (codes : List Nat) : List (Item Nat) :=
  match fuel, codes with
  | 0, _ => []
  | _, [] => []
  | f + 1, 1 :: t => .op .acqR :: decodeOps f t
  | f + 1, 2 :: t => .op .acqW :: decodeOps f t
  | f + 1, 3 :: t => .op .rel :: decodeOps f t
  | f + 1, c :: t =>
    if 10 ≤ c ∧ c < 30 then
      let run := (c :: t).takeWhile fun c => 10 ≤ c ∧ c < 30
      .anyOf (decodeRegion run) :: decodeOps f ((c :: t).dropWhile fun c => 10 ≤ c ∧ c < 30)
    else decodeOps f t   -- escapes are collected separately; unknown codes make `codesKnown` fail

def escapes (codes : List Nat) : List (Step Nat) :=
  (codes.filter fun c => 30 ≤ c ∧ c < 40).map fun c => .read (c - 30)

def codesKnown (codes : List Nat) : Bool :=
  codes.all fun c => c = 1 ∨ c = 2 ∨ c = 3 ∨ (10 ≤ c ∧ c < 40)

/-- The shape of a method from its trace codes. -/
def decodeMethod (codes : List Nat) : List (Item Nat) :=
  decodeOps (codes.length + 1) codes ++
    (if (escapes codes).isEmpty then [] else [.anyOf (escapes codes)])

end Dtn7.SchedRW
