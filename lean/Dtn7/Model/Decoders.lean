/-
Count- and length-driven decoders of dtn7 with an ALLOCATION LOG (property C04).

  pkg/bpv7/administrative_record.go, administrative_record_status_report.go   (ReadAdministrativeRecord, StatusReport)
  pkg/bpv7/endpoint.go, endpoint_dtn.go, endpoint_ipn.go, bundle_id.go, time.go  (EndpointID, BundleID, CreationTimestamp)
  pkg/bpv7/extension_block_dtlsr.go, extension_block_prophet.go                 (map blocks)
  pkg/bpv7/bundle.go                                                            (the block loop of Bundle.UnmarshalCbor)
  pkg/discovery/announcement.go                                                 (UnmarshalAnnouncements)
  pkg/cla/tcpclv4/internal/msgs/xfer_segment.go, sess_init.go, message.go       (XFER_SEGMENT, SESS_INIT, discardBytes)
  pkg/cla/tcpclv4/internal/stages/sess_init.go, utils/transfer_out.go           (negotiated segment size)
  github.com/dtn7/cboring strings.go                                            (ReadRawBytes)

Every decoder is a total function `D α = St → Except Err α × St`: the state carries the unconsumed
input, the number of bytes consumed so far and the log; the log survives errors (what was allocated
before a decoder gave up is exactly what the property is about). One log entry `(requested, arrived)`
is written where the Go code allocates memory whose size depends on a decoded number:

* `cboring.ReadRawBytes l` (byte/text strings, XFER_SEGMENT data): `l ≤ 1 MiB` → `make([]byte, l)`
  before a byte is read → `(l, pos)`; larger → `io.CopyN` into a `bytes.Buffer` that grows with the
  bytes that arrive → `(2·got + 512, pos + got)` (doubling growth, `bytes.MinRead = 512`);
* append-while-reading loops (status items, announcements, canonical blocks, map entries): the
  append that makes the length `j` may grow the backing array to `2·j` elements → `(2·esz·j, pos)`
  with `pos` taken after the element has been read.

Loops driven by a wire count run on explicit fuel `remaining input + 1`; `Sound.nofuel` shows that the
fuel never runs out, i.e. the number of iterations is bounded by the input length whatever the count
field says. Core-only (linked into the driver).
-/
import Dtn7.Model.Cbor
import Dtn7.Model.Tcpcl

namespace Dtn7.Decoders
open Dtn7.Cbor

abbrev Log := List (Nat × Nat)

structure St where
  rest : Bytes
  pos  : Nat := 0
  log  : Log := []

def D (α : Type) : Type := St → Except Err α × St

@[inline] def D.pure (a : α) : D α := fun s => (.ok a, s)
@[inline] def D.bind (x : D α) (f : α → D β) : D β := fun s =>
  match x s with
  | (.error e, s') => (.error e, s')
  | (.ok a, s') => f a s'

instance : Monad D where
  pure := D.pure
  bind := D.bind

def fail (e : Err) : D α := fun s => (.error e, s)

/-- The error a loop reports when its fuel is exhausted. No decoder ever returns it (`Sound.nofuel`). -/
def fuelErr : Err := .other 99

def check (c : Bool) (e : Err) : D Unit := if c then D.pure () else fail e

/-! ### Primitives -/

/-- `cboring.ReadMajors`. Same function as `Cbor.decHead` (lemma `head_decHead`), without the
linear-time length test. -/
def head : D (Nat × Nat) := fun s =>
  match s.rest with
  | [] => (.error .eof, s)
  | b :: rest =>
    if b.toNat = 0x9F then (.error .flagIndef, s)
    else if b.toNat = 0xFF then (.error .flagBreak, s)
    else
      let adds := b.toNat % 32
      if adds ≤ 23 then (.ok (b.toNat / 32, adds), { s with rest := rest, pos := s.pos + 1 })
      else if adds ≤ 27 then
        let l := 2 ^ (adds - 24)
        let t := rest.take l
        if t.length < l then (.error .eof, s)
        else (.ok (b.toNat / 32, beVal t), { s with rest := rest.drop l, pos := s.pos + 1 + l })
      else (.error .badAdds, s)

/-- `cboring.ReadExpectMajors`. -/
def expect (maj : Nat) : D Nat := fun s =>
  match head s with
  | (.error e, s') => (.error e, s')
  | (.ok p, s') => if p.1 = maj then (.ok p.2, s') else (.error .wrongMajor, s')

def uint : D Nat := expect majUInt
def arrayLen : D Nat := expect majArray
def mapLen : D Nat := expect majMap

/-- One byte (`cboring.ReadBoolean`, `binary.Read` of a `uint8`). -/
def byte : D Nat := fun s =>
  match s.rest with
  | [] => (.error .eof, s)
  | b :: rest => (.ok b.toNat, { s with rest := rest, pos := s.pos + 1 })

/-- `cboring.ReadBoolean`: one byte, major 7, additional information 20 or 21. -/
def boolean : D Bool := fun s =>
  match byte s with
  | (.error e, s') => (.error e, s')
  | (.ok b, s') =>
    if b / 32 = 7 ∧ b % 32 = 20 then (.ok false, s')
    else if b / 32 = 7 ∧ b % 32 = 21 then (.ok true, s')
    else (.error .wrongMajor, s')

/-- `n` bytes without any allocation that depends on `n` (`binary.Read` of fixed-width fields). -/
def takeN (n : Nat) : D Bytes := fun s =>
  let t := s.rest.take n
  if t.length < n then (.error .eof, s)
  else (.ok t, { s with rest := s.rest.drop n, pos := s.pos + n })

/-- `binary.Read(r, binary.BigEndian, &x)` for an unsigned integer of `w` bytes. -/
def be (w : Nat) : D Nat := fun s =>
  match takeN w s with
  | (.error e, s') => (.error e, s')
  | (.ok t, s') => (.ok (beVal t), s')

def preallocLimit : Nat := 1024 * 1024
def minRead : Nat := 512

/-- `cboring.ReadRawBytes l`. -/
def raw (l : Nat) : D Bytes := fun s =>
  if l > maxInt32 then (.error .tooLong, s)
  else
    let t := s.rest.take l
    let s1 : St :=
      if l ≤ preallocLimit then { s with log := (l, s.pos) :: s.log }
      else { s with log := (2 * t.length + minRead, s.pos + t.length) :: s.log }
    if t.length < l then (.error .eof, s1)
    else (.ok t, { s1 with rest := s.rest.drop l, pos := s.pos + l })

/-- `msgs.discardBytes l` (`io.CopyN(ioutil.Discard, r, l)`): nothing is buffered. -/
def discard (l : Nat) : D Unit := fun s =>
  if l > 2 ^ 63 - 1 then (.error .tooLong, s)
  else
    let t := s.rest.take l
    if t.length < l then (.error .eof, s)
    else (.ok (), { s with rest := s.rest.drop l, pos := s.pos + l })

/-- Record an allocation of `r` bytes made at the current position (`make([]byte, r)`). -/
def logAlloc (r : Nat) : D Unit := fun s => (.ok (), { s with log := (r, s.pos) :: s.log })

/-! ### Loops -/

/-- `for i := 0; i < n; i++ { read one element; append }` — `n` from the wire, `esz` bytes per element. -/
def loopN (elem : D α) (esz : Nat) : Nat → Nat → List α → D (List α)
  | _, 0, acc => D.pure acc.reverse
  | 0, _ + 1, _ => fail fuelErr
  | f + 1, n + 1, acc => fun s =>
    match elem s with
    | (.error e, s') => (.error e, s')
    | (.ok x, s') =>
      loopN elem esz f n (x :: acc) { s' with log := (2 * esz * (acc.length + 1), s'.pos) :: s'.log }

/-- A count-driven loop started with the fuel the remaining input provides. -/
def repeatN (elem : D α) (esz n : Nat) : D (List α) := fun s =>
  loopN elem esz (s.rest.length + 1) n [] s

/-- `for { read one element; if err == FlagBreakCode { break }; append }` (the block loop of
`Bundle.UnmarshalCbor`). As in the Go code, a break code surfacing from anywhere inside the element
decoder ends the loop. -/
def loopBreak (elem : D α) (esz : Nat) : Nat → List α → D (List α)
  | 0, _ => fail fuelErr
  | f + 1, acc => fun s =>
    match elem s with
    | (.error e, s') => if e = .flagBreak then (.ok acc.reverse, s') else (.error e, s')
    | (.ok x, s') =>
      loopBreak elem esz f (x :: acc) { s' with log := (2 * esz * (acc.length + 1), s'.pos) :: s'.log }

def untilBreak (elem : D α) (esz : Nat) : D (List α) := fun s =>
  loopBreak elem esz (s.rest.length + 1) [] s

/-! ### Endpoint IDs -/

inductive Eid where
  | none
  | dtn (node demux : Bytes)
  | ipn (node service : Nat)
deriving Repr, DecidableEq

/-- `[\w-._]` of `dtnEndpointRegexpSsp` (RE2: `\w` is ASCII only). -/
def isNodeChar (b : UInt8) : Bool :=
  let c := b.toNat
  (48 ≤ c && c ≤ 57) || (65 ≤ c && c ≤ 90) || (97 ≤ c && c ≤ 122) || c == 95 || c == 45 || c == 46

/-- `^//([\w-._]+)/(.*)$`: node name, demux. `.` matches every byte sequence that contains no line
feed (invalid UTF-8 is matched byte-wise as U+FFFD). -/
def parseDtnSsp (t : Bytes) : Option (Bytes × Bytes) :=
  match t with
  | a :: b :: r =>
    if a.toNat = 47 ∧ b.toNat = 47 then
      let node := r.takeWhile isNodeChar
      match r.dropWhile isNodeChar with
      | c :: demux =>
        if c.toNat = 47 ∧ !node.isEmpty ∧ demux.all (fun x => x.toNat != 10) then some (node, demux) else Option.none
      | [] => Option.none
    else Option.none
  | _ => Option.none

def noneSsp : Bytes := [110, 111, 110, 101]   -- "none"

/-- `DtnEndpoint.UnmarshalCbor`. -/
def dtnSsp : D Eid := do
  let p ← head
  if p.1 = majUInt then D.pure Eid.none
  else if p.1 = majText then do
    let t ← raw p.2
    if t = noneSsp then fail (.other 1)
    else match parseDtnSsp t with
      | some (n, d) => D.pure (Eid.dtn n d)
      | Option.none => fail (.other 2)
  else fail .wrongMajor

/-- `IpnEndpoint.UnmarshalCbor`. -/
def ipnSsp : D Eid := do
  let n ← arrayLen
  check (n == 2) (.other 3)
  let a ← uint
  let b ← uint
  D.pure (Eid.ipn a b)

/-- `EndpointID.UnmarshalCbor`. -/
def eid : D Eid := do
  let n ← arrayLen
  check (n == 2) (.other 4)
  let scheme ← uint
  if scheme = 1 then dtnSsp else if scheme = 2 then ipnSsp else fail (.other 5)

/-! ### Administrative records -/

structure Item where
  asserted : Bool
  time : Option Nat
deriving Repr, DecidableEq

/-- `BundleStatusItem.UnmarshalCbor`. -/
def statusItem : D Item := do
  let n ← arrayLen
  check (n == 1 || n == 2) (.other 6)
  let b ← boolean
  if n = 2 then do
    let t ← uint
    D.pure ⟨b, some t⟩
  else D.pure ⟨b, Option.none⟩

structure StatusReport where
  items : List Item
  reason : Nat
  frag : Bool
  src : Eid
  ts : Nat × Nat
  fragInfo : Option (Nat × Nat)
deriving Repr, DecidableEq

def statusItemSize : Nat := 24
def announcementSize : Nat := 32
def blockSize : Nat := 64
def mapEntrySize : Nat := 64

/-- `CreationTimestamp.UnmarshalCbor`. -/
def timestamp : D (Nat × Nat) := do
  let n ← arrayLen
  check (n == 2) (.other 7)
  let a ← uint
  let b ← uint
  D.pure (a, b)

/-- `StatusReport.UnmarshalCbor` (the code after the repair of D8: items are appended while read). -/
def statusReport : D StatusReport := do
  let n ← arrayLen
  check (n == 4 || n == 6) (.other 8)
  let cnt ← arrayLen
  let items ← repeatN statusItem statusItemSize cnt
  let reason ← uint
  let src ← eid
  let ts ← timestamp
  if n = 6 then do
    let off ← uint
    let tot ← uint
    D.pure ⟨items, reason, true, src, ts, some (off, tot)⟩
  else D.pure ⟨items, reason, false, src, ts, Option.none⟩

/-- `AdministrativeRecordManager.ReadAdministrativeRecord` with only the status report registered. -/
def adminRecord : D StatusReport := do
  let n ← arrayLen
  check (n == 2) (.other 9)
  let code ← uint
  check (code == 1) (.other 10)
  statusReport

/-- The code before the repair: `make([]BundleStatusItem, n)` on the word of the count field. Only the
allocation matters here. -/
def statusReportOld : D Unit := do
  let n ← arrayLen
  check (n == 4 || n == 6) (.other 8)
  let cnt ← arrayLen
  logAlloc (statusItemSize * cnt)

/-! ### Discovery announcements -/

structure Announcement where
  claType : Nat
  endpoint : Eid
  port : Nat
deriving Repr, DecidableEq

/-- `CLAType.CheckValid`: TCPCLv4, TCPCLv4WebSocket, MTCP, BBC. -/
def claTypes : List Nat := [0, 1, 10, 20]

/-- `Announcement.UnmarshalCbor`. -/
def announcement : D Announcement := do
  let n ← arrayLen
  check (n == 3) (.other 11)
  let t ← uint
  check (claTypes.contains t) (.other 12)
  let e ← eid
  let p ← uint
  D.pure ⟨t, e, p⟩

/-- `UnmarshalAnnouncements` (after the repair of D9). -/
def announcements : D (List Announcement) := do
  let n ← arrayLen
  repeatN announcement announcementSize n

/-! ### Map blocks -/

def insertKey (k : Eid) (v : Nat) (m : List (Eid × Nat)) : List (Eid × Nat) :=
  (k, v) :: m.filter (fun p => p.1 != k)

/-- One `peers[peerID] = timestamp` / `predictability[peerID] = pred` entry. The float is kept as its bits. -/
def dtlsrEntry : D (Eid × Nat) := do
  let e ← eid
  let t ← uint
  D.pure (e, t)

def prophetEntry : D (Eid × Nat) := do
  let e ← eid
  let f ← expect majSimple
  D.pure (e, f)

structure Dtlsr where
  id : Eid
  ts : Nat
  peers : List (Eid × Nat)
deriving Repr, DecidableEq

/-- `DTLSRBlock.UnmarshalCbor`. -/
def dtlsr : D Dtlsr := do
  let n ← arrayLen
  check (n == 3) (.other 13)
  let id ← eid
  let ts ← uint
  let cnt ← mapLen
  let es ← repeatN dtlsrEntry mapEntrySize cnt
  D.pure ⟨id, ts, es.foldl (fun m p => insertKey p.1 p.2 m) []⟩

/-- `ProphetBlock.UnmarshalCbor`. -/
def prophet : D (List (Eid × Nat)) := do
  let cnt ← mapLen
  let es ← repeatN prophetEntry mapEntrySize cnt
  D.pure (es.foldl (fun m p => insertKey p.1 p.2 m) [])

/-! ### The block loop of a bundle -/

/-- `Bundle.UnmarshalCbor` with the primary and canonical block decoders as parameters: indefinite
array start, primary block, blocks until the break code. -/
def bundleBlocks (primary : D β) (block : D α) : D (β × List α) := do
  let b ← byte
  check (b == 0x9F) (.other 14)
  let p ← primary
  let bs ← untilBreak block blockSize
  D.pure (p, bs)

/-! ### TCPCLv4 messages -/

structure XferSegment where
  flags : Nat
  tid : Nat
  data : Bytes
deriving Repr, DecidableEq

/-- `DataTransmissionMessage.Unmarshal` (after the repair of D10). -/
def xferSegment : D XferSegment := do
  let h ← be 1
  check (h == 1) (.other 15)
  let flags ← be 1
  let tid ← be 8
  let extLen ← be 4
  discard extLen
  let dataLen ← be 8
  if dataLen > 0 then do
    let d ← raw dataLen
    D.pure ⟨flags, tid, d⟩
  else D.pure ⟨flags, tid, []⟩

/-- The code before the repair: `make([]byte, transferExtLen)` and `make([]byte, dataLen)`. -/
def xferSegmentOld : D Unit := do
  let h ← be 1
  check (h == 1) (.other 15)
  let _ ← be 1
  let _ ← be 8
  let extLen ← be 4
  logAlloc extLen
  let _ ← takeN extLen
  let dataLen ← be 8
  logAlloc dataLen

structure SessInit where
  keepalive : Nat
  segmentMru : Nat
  transferMru : Nat
  nodeId : Bytes
deriving Repr, DecidableEq

/-- `SessionInitMessage.Unmarshal`: the node ID buffer is sized by a 16 bit field. -/
def sessInit : D SessInit := do
  let h ← be 1
  check (h == 7) (.other 16)
  let ka ← be 2
  let smru ← be 8
  let tmru ← be 8
  let idLen ← be 2
  logAlloc idLen
  let id ← takeN idLen
  let extLen ← be 4
  discard extLen
  D.pure ⟨ka, smru, tmru, id⟩

/-! ### The sender side: segment size negotiated from the peer's SESS_INIT -/

/-- `utils.MaxSegmentMtu`. -/
def maxSegmentMtu : Nat := 1048576

/-- `SessInitStage.Handle`: the segment size taken from the peer's Segment MRU (D11 repaired). -/
def negotiate (peerMru : Nat) : Except Err Nat :=
  if peerMru = 0 then .error (.other 17) else .ok (min peerMru maxSegmentMtu)

/-- The code before the repair. -/
def negotiateOld (peerMru : Nat) : Except Err Nat := .ok peerMru

/-- `OutgoingTransfer.NextSegment`'s own check of its argument: the buffer it allocates. -/
def segmentBuffer (mtu : Nat) : Except Err Nat :=
  if mtu = 0 then .error (.other 18) else .ok (min mtu maxSegmentMtu)

/-- All segments `TransferManager.Send` emits for `data` when handed `mtu`. -/
def sendSegments (mtu : Nat) (data : Bytes) : Except Err (List Dtn7.Tcpcl.Seg) :=
  match segmentBuffer mtu with
  | .error e => .error e
  | .ok m => .ok (Dtn7.Tcpcl.segments true m data)

/-! ### Running a decoder -/

def run (d : D α) (bs : Bytes) : Except Err α × St := d { rest := bs }

def allocs (r : Except Err α × St) : Log := r.2.log

/-- The bound of the property: the code's constants. `C` = cboring's pre-allocation limit plus
`bytes.MinRead`; `K` = twice the largest element size (append doubles). -/
def C : Nat := preallocLimit + minRead
def K : Nat := 2 * blockSize

def LogOk (l : Log) : Prop := ∀ p ∈ l, p.1 ≤ C + K * p.2

instance (l : Log) : Decidable (LogOk l) := by unfold LogOk; infer_instance

def logOkB (l : Log) : Bool := l.all (fun p => p.1 ≤ C + K * p.2)

end Dtn7.Decoders
