/-
Model of the spray-and-wait routing algorithms and of the part of the forwarding pipeline that
drives them.
  pkg/routing/algorithm_spray.go   SprayAndWait / BinarySpray: NotifyNewBundle, SenderForBundle,
                                   ReportFailure, sprayMetaData
  pkg/bpv7/extension_block_spray.go  BinarySprayBlock (one uint64: the copies handed over)
  pkg/routing/processing.go        Core.forward: direct delivery first (then the algorithm is not
                                   consulted), one goroutine per chosen sender, ReportFailure for
                                   every failed Send, delete-after-direct-delivery
  pkg/routing/core.go              checkPendingBundles (retry tick, peer appeared)

One bundle is followed through one node. Core-only, executable; used by `drv_c18` and by
`Dtn7.Props.C18`.

Abstractions (all stated in checks/C18.json):
* peers are natural numbers; the bundle's destination node is the peer `dest`; one convergence
  sender per peer; `EndpointID` equality and `SameNode` coincide on them;
* the order in which `claManager.Sender()` (a `sync.Map` range) lists the connected senders is an
  input of every forwarding step (`Env.order`), so is the outcome of every `Send` (`Env.fails`)
  and the interleaving of the `ReportFailure` calls of one `forward` run (`Env.sched`);
* `uint64` arithmetic is modelled in `Nat` (no overflow below 2^64 copies);
* lifetime / hop-count checks of `forward` never trigger (the harness uses long-lived bundles).
-/
namespace Dtn7.Spray

abbrev Peer := Nat

/-- `sprayMetaData`. -/
structure Meta where
  sent : List Peer
  remaining : Nat
deriving Repr, DecidableEq

inductive Algo where
  | spray | binary
deriving Repr, DecidableEq

/-- Switches selecting the behaviour of the code *before* the three `fix:` commits; the defaults
describe the code that exists. Only used for the witness theorems. -/
structure Params where
  /-- D26a fixed: `ReportFailure` does its read-modify-write under one `Lock`. -/
  atomicRF : Bool := true
  /-- D26b fixed: only a peer recorded in `sent` gives a copy back. -/
  onlySent : Bool := true
  /-- D27 fixed: binary spray adds the failed transmission's copies to `remainingCopies`. -/
  binaryRestores : Bool := true
deriving Repr, DecidableEq

/-! ### NotifyNewBundle -/

/-- What `NotifyNewBundle` looks at: is the source an endpoint of this node, the value of a
BinarySprayBlock if the bundle carries one, the previous node if there is a PreviousNodeBlock. -/
structure Incoming where
  srcLocal : Bool
  block : Option Nat
  prev : Option Peer
deriving Repr, DecidableEq

def notify (a : Algo) (l : Nat) (b : Incoming) : Meta :=
  match a with
  | .spray =>
    if b.srcLocal then ⟨[], l⟩ else ⟨b.prev.toList, 1⟩
  | .binary =>
    match b.block with
    | some k => ⟨b.prev.toList, k⟩
    | none => if b.srcLocal then ⟨[], l⟩ else ⟨b.prev.toList, 1⟩

/-! ### SenderForBundle -/

/-- The loop of `SprayAndWait.SenderForBundle` over the connected senders `cs`: stop as soon as
fewer than two copies remain, skip peers in `sent`, otherwise select the peer, append it to `sent`
and take one copy. -/
def sprayPick : List Peer → Meta → List Peer × Meta
  | [], m => ([], m)
  | p :: ps, m =>
    if m.remaining < 2 then ([], m)
    else if p ∈ m.sent then sprayPick ps m
    else
      let r := sprayPick ps ⟨m.sent ++ [p], m.remaining - 1⟩
      (p :: r.1, r.2)

/-- `BinarySpray.SenderForBundle` after the `< 2` test: the first sender not in `sent` gets
`⌊remaining/2⌋` copies (written into the bundle's BinarySprayBlock), the rest is kept.
Result: chosen peer, copies announced, new metadata. -/
def binaryPick (cs : List Peer) (m : Meta) : Option (Peer × Nat × Meta) :=
  match cs.find? (fun p => !(m.sent.contains p)) with
  | none => none
  | some p =>
    let send := m.remaining / 2
    some (p, send, ⟨m.sent ++ [p], m.remaining - send⟩)

/-- One transmission chosen by the algorithm: peer and the BinarySprayBlock value of the bundle
handed to the CLA (`none`: the bundle's own block, if any, is untouched). -/
structure Choice where
  peer : Peer
  announced : Option Nat
deriving Repr, DecidableEq

/-- `SenderForBundle` of both algorithms (the `delete` flag is `false` on every path).
No metadata ⇒ nobody. -/
def senderForBundle (a : Algo) (cs : List Peer) (md : Option Meta) : List Choice × Option Meta :=
  match md with
  | none => ([], none)
  | some m =>
    if m.remaining < 2 then ([], some m)
    else
      match a with
      | .spray =>
        let r := sprayPick cs m
        (r.1.map (fun p => ⟨p, none⟩), some r.2)
      | .binary =>
        match binaryPick cs m with
        | none => ([], some m)
        | some (p, send, m') => ([⟨p, some send⟩], some m')

/-! ### ReportFailure -/

/-- The modification `ReportFailure` applies to the copy of the metadata it read:
`give` is `1` for spray-and-wait and the value of the failed bundle's BinarySprayBlock for binary
spray. -/
def giveBack (P : Params) (a : Algo) (m : Meta) (p : Peer) (give : Nat) : Meta :=
  let credit := match a with
    | .spray => give
    | .binary => if P.binaryRestores then give else 0
  if P.onlySent then
    if p ∈ m.sent then ⟨m.sent.erase p, m.remaining + credit⟩ else m
  else ⟨m.sent.erase p, m.remaining + credit⟩

/-- The metadata `SenderForBundle` writes back (its other result, the chosen senders, does not matter
for the bookkeeping). -/
def pickMeta (a : Algo) (cs : List Peer) (m : Meta) : Meta :=
  if m.remaining < 2 then m
  else match a with
    | .spray => (sprayPick cs m).2
    | .binary =>
      match binaryPick cs m with
      | none => m
      | some (_, _, m') => m'

/-- A read-modify-write of a bundle's metadata, performed by one goroutine. -/
inductive Action where
  | giveBack (p : Peer) (give : Nat)   -- `ReportFailure` for peer `p`
  | pick (cs : List Peer)              -- `SenderForBundle`, the manager listing the senders `cs`
deriving Repr, DecidableEq

def Action.apply (P : Params) (a : Algo) (m : Meta) : Action → Meta
  | .giveBack p g => Dtn7.Spray.giveBack P a m p g
  | .pick cs => pickMeta a cs m

def Action.ofReport (f : Peer × Nat) : Action := .giveBack f.1 f.2

def Action.report? : Action → Option (Peer × Nat)
  | .giveBack p g => some (p, g)
  | .pick _ => none

/-- Micro-steps of `ReportFailure` / `SenderForBundle` as far as the mutex and the map are concerned. -/
inductive Op where
  | rlock | runlock | lock | unlock
  | read    -- `metadata, ok := bundleData[bp.Id]`
  | write   -- modify the local copy and `bundleData[bp.Id] = metadata` (nothing if `!ok`)
deriving Repr, DecidableEq

def Op.name : Op → String
  | .rlock => "rlock" | .runlock => "runlock" | .lock => "lock" | .unlock => "unlock"
  | .read => "read" | .write => "write"

/-- The order in which `ReportFailure` and `SenderForBundle` take the locks and touch the map
(`false`: the code before the repairs, copy out under `RLock`, write back under `Lock`). -/
def rfProgram (atomicRF : Bool) : List Op :=
  if atomicRF then [.lock, .read, .write, .unlock]
  else [.rlock, .read, .runlock, .lock, .write, .unlock]

/-- One call in flight (one goroutine). -/
structure Thread where
  act : Action
  pc : Nat := 0
  loc : Option Meta := none   -- the copy made by `read`
deriving Repr, DecidableEq

/-- The algorithm's shared state for the bundle, its `sync.RWMutex`, and (ghost) the write-backs in
the order they happened, each with the copy of the metadata it was computed from. -/
structure Shared where
  md : Option Meta
  readers : Nat := 0
  writer : Option Nat := none   -- index of the thread holding the write lock
  order : List (Action × Meta) := []
deriving Repr, DecidableEq

/-- Execute `op` for thread `i`; `none` = blocked. -/
def exec (P : Params) (a : Algo) (i : Nat) (op : Op) (sh : Shared) (t : Thread) :
    Option (Shared × Thread) :=
  match op with
  | .rlock => if sh.writer.isNone then some ({ sh with readers := sh.readers + 1 }, t) else none
  | .runlock => some ({ sh with readers := sh.readers - 1 }, t)
  | .lock =>
    if sh.writer.isNone && sh.readers == 0 then some ({ sh with writer := some i }, t) else none
  | .unlock => some ({ sh with writer := none }, t)
  | .read => some (sh, { t with loc := sh.md })
  | .write =>
    match t.loc with
    | none => some (sh, t)
    | some m =>
      some ({ sh with md := some (t.act.apply P a m), order := sh.order ++ [(t.act, m)] }, t)

abbrev SState := Shared × List Thread

/-- Thread `i` takes its next micro-step if it has one and is not blocked. -/
def stepThread (P : Params) (a : Algo) (prog : List Op) (st : SState) (i : Nat) : SState :=
  match st.2[i]? with
  | none => st
  | some t =>
    match prog[t.pc]? with
    | none => st
    | some op =>
      match exec P a i op st.1 t with
      | none => st
      | some (sh', t') => (sh', st.2.set i { t' with pc := t.pc + 1 })

/-- Run a schedule: the list of thread indices in the order in which they are given the processor.
Every interleaving of the goroutines is such a list. -/
def runSched (P : Params) (a : Algo) (prog : List Op) (st : SState) (σ : List Nat) : SState :=
  σ.foldl (stepThread P a prog) st

def initThreads (acts : List Action) : List Thread := acts.map (fun act => { act := act })

/-- All goroutines have returned (`wg.Wait()` is over). -/
def allDone (prog : List Op) (ts : List Thread) : Bool := ts.all (fun t => t.pc == prog.length)

/-- Concurrent `SenderForBundle` / `ReportFailure` calls for one bundle under schedule `σ`. -/
def concurrentUpdates (P : Params) (a : Algo) (md : Option Meta) (acts : List Action)
    (σ : List Nat) : SState :=
  runSched P a (rfProgram P.atomicRF) ({ md := md }, initThreads acts) σ

/-- Reference semantics: the updates one after the other. -/
def applyAll (P : Params) (a : Algo) (md : Option Meta) (acts : List Action) : Option Meta :=
  acts.foldl (fun m act => m.map (fun m => act.apply P a m)) md

/-- `Chained md l`: the updates `l` form a sequential execution from `md` — every update was computed
from the state its predecessor left behind (so what the call returned, e.g. the senders chosen by
`SenderForBundle`, is what it returns in that sequential execution). -/
def Chained (P : Params) (a : Algo) : Option Meta → List (Action × Meta) → Prop
  | _, [] => True
  | md, (act, m) :: rest => md = some m ∧ Chained P a (some (act.apply P a m)) rest

instance Chained.decidable (P : Params) (a : Algo) :
    (md : Option Meta) → (l : List (Action × Meta)) → Decidable (Chained P a md l)
  | _, [] => isTrue trivial
  | md, (act, m) :: rest =>
    have := Chained.decidable P a (some (act.apply P a m)) rest
    inferInstanceAs (Decidable (md = some m ∧ Chained P a (some (act.apply P a m)) rest))

/-- The concurrent `ReportFailure` calls of one `forward` run under schedule `σ`. -/
def reportFailures (P : Params) (a : Algo) (md : Option Meta) (fs : List (Peer × Nat))
    (σ : List Nat) : SState :=
  concurrentUpdates P a md (fs.map Action.ofReport) σ

/-- Reference semantics: the reports one after the other. -/
def giveBackAll (P : Params) (a : Algo) (md : Option Meta) (fs : List (Peer × Nat)) : Option Meta :=
  fs.foldl (fun m f => m.map (fun m => giveBack P a m f.1 f.2)) md

/-- A schedule that lets thread 0 run to completion, then thread 1, … (`n` threads). -/
def seqSched (progLen n : Nat) : List Nat :=
  (List.range n).flatMap (fun i => List.replicate progLen i)

/-! ### The node around the algorithm -/

/-- One `Send` of a mock CLA as the harness logs it. -/
structure Send where
  peer : Peer
  ok : Bool
  block : Option Nat   -- BinarySprayBlock value of the transmitted bundle
deriving Repr, DecidableEq

structure Node where
  algo : Algo
  l : Nat                      -- configured multiplicity
  dest : Peer
  md : Option Meta := none   -- bundleData[id]
  conn : List Peer := []       -- peers with an active sender
  stored : Bool := false       -- bundle in the store and pending
  bblock : Option Nat := none  -- BinarySprayBlock of the stored bundle
  log : List Send := []
deriving Repr, DecidableEq

/-- The environment's choices during one forwarding step. -/
structure Env where
  order : List Peer := []   -- order in which the manager lists its senders
  fails : List Peer := []   -- peers whose `Send` returns an error
  sched : List Nat := []    -- interleaving of the failure reports
deriving Repr, DecidableEq

inductive Event where
  | submit (e : Env)                                        -- `Core.SendBundle`, source = this node
  | receive (block : Option Nat) (prev : Option Peer) (e : Env)   -- from a CLA, foreign source
  | peerUp (p : Peer) (e : Env)                             -- PeerAppeared ⇒ checkPendingBundles
  | peerDown (p : Peer)
  | tick (e : Env)                                          -- cron: checkPendingBundles
  | restart                                                 -- process restart: metadata and CLAs gone
  | loopback (block : Option Nat) (prev : Option Peer)      -- the bundle is received AGAIN while it is in the store
deriving Repr, DecidableEq

/-- The senders `forward` uses: direct delivery (`senderForDestination`) if the destination is
connected — then the algorithm is not asked —, otherwise `SenderForBundle`. -/
def choose (s : Node) (e : Env) : List Choice × Option Meta :=
  if s.conn.contains s.dest then ([⟨s.dest, none⟩], s.md)
  else senderForBundle s.algo (e.order.filter (fun p => s.conn.contains p)) s.md

/-- The `Send` calls of the step with their outcome and the BinarySprayBlock of the bundle sent. -/
def mkSends (s : Node) (e : Env) (choices : List Choice) : List Send :=
  choices.map fun c =>
    { peer := c.peer, ok := !(e.fails.contains c.peer),
      block := match c.announced with | some k => some k | none => s.bblock }

/-- Every failed `Send` is reported; binary spray's `ReportFailure` returns at once if the bundle has
no BinarySprayBlock, otherwise the block's value is what it gives back. -/
def mkReports (a : Algo) (sends : List Send) : List (Peer × Nat) :=
  (sends.filter (fun x => !x.ok)).filterMap fun x =>
    match a with
    | .spray => some (x.peer, 1)
    | .binary => x.block.map (fun k => (x.peer, k))

/-- The `Send`s of one `forward` run. -/
def forwardSends (s : Node) (e : Env) : List Send :=
  if s.stored then mkSends s e (choose s e).1 else []

/-- The failure-report goroutines of one `forward` run after schedule `e.sched`. -/
def forwardReports (P : Params) (s : Node) (e : Env) : SState :=
  reportFailures P s.algo (choose s e).2 (mkReports s.algo (mkSends s e (choose s e).1)) e.sched

/-- Did `e.sched` let every failure report finish (as `wg.Wait()` guarantees in the code)? -/
def forwardComplete (P : Params) (s : Node) (e : Env) : Bool :=
  allDone (rfProgram P.atomicRF) (forwardReports P s e).2

/-- `Core.forward` for the bundle (only pending bundles are forwarded). A successful direct delivery
deletes the bundle (`deleteAfterwards` stays `true`); everything else leaves it pending. -/
def forward (P : Params) (s : Node) (e : Env) : Node :=
  if !s.stored then s else
  let sends := mkSends s e (choose s e).1
  { s with md := (forwardReports P s e).1.md, log := s.log ++ sends,
           stored := !(sends.any (·.ok) && s.conn.contains s.dest) }

/-- What an event does before (possibly) forwarding the bundle: the node handed to `forward` and the
environment of that forwarding step (`none`: the event does not forward). -/
def prepare (s : Node) : Event → Node × Option Env
  | .submit e =>
    ({ s with md := some (notify s.algo s.l ⟨true, none, none⟩), stored := true, bblock := none }, some e)
  | .receive b prev e =>
    ({ s with md := some (notify s.algo s.l ⟨false, b, prev⟩), stored := true, bblock := b }, some e)
  | .peerUp p e => ({ s with conn := if s.conn.contains p then s.conn else s.conn ++ [p] }, some e)
  | .peerDown p => ({ s with conn := s.conn.erase p }, none)
  | .tick e => (s, some e)
  | .restart => ({ s with md := none, conn := [] }, none)
  -- `Core.receive` returns before `NotifyNewBundle` when the descriptor loaded from the store already
  -- has constraints ("Received bundle's ID is already known"): the node's own bundle looped back by a
  -- peer, or a relayed bundle arriving a second time, changes nothing — whatever BinarySprayBlock /
  -- PreviousNodeBlock the duplicate carries. (The event stands for a reception while the bundle is
  -- stored; the harness performs it only then.)
  | .loopback _ _ => (s, none)

def step (P : Params) (s : Node) (ev : Event) : Node :=
  match prepare s ev with
  | (s', some e) => forward P s' e
  | (s', none) => s'

def run (P : Params) (s : Node) (evs : List Event) : Node := evs.foldl (step P) s

/-- The schedule of the event's forwarding step lets all failure reports finish. -/
def stepComplete (P : Params) (s : Node) (ev : Event) : Bool :=
  match prepare s ev with
  | (s', some e) => forwardComplete P s' e
  | (_, none) => true

/-- Every forwarding step of the history has a complete schedule (what `wg.Wait()` enforces). -/
def runComplete (P : Params) (s : Node) : List Event → Bool
  | [] => true
  | ev :: evs => stepComplete P s ev && runComplete P (step P s ev) evs

/-- What the node would do if `receive` notified the algorithm also for a known bundle (the early
return placed after `NotifyNewBundle`): the metadata is overwritten as for a new bundle. Only used
for the witness `renotify_refills_budget_witness`. -/
def loopbackRenotify (s : Node) (srcLocal : Bool) (block : Option Nat) (prev : Option Peer) : Node :=
  { s with md := some (notify s.algo s.l ⟨srcLocal, block, prev⟩) }

def Event.isEntry : Event → Bool
  | .submit _ => true
  | .receive _ _ _ => true
  | _ => false

/-! ### Spec: what the property demands, on observations (independent of the model) -/

/-- Successful transmissions to peers other than the destination. -/
def relayed (dest : Peer) (log : List Send) : List Send :=
  log.filter (fun x => x.ok && x.peer != dest)

/-- `Budget`: successful transmissions to non-destination peers never exceed `L − 1`. -/
def Budget (l : Nat) (dest : Peer) (log : List Send) : Prop := (relayed dest log).length ≤ l - 1

instance (l : Nat) (dest : Peer) (log : List Send) : Decidable (Budget l dest log) := by
  unfold Budget; infer_instance

/-- `Conservation` (originated bundle, metadata alive): copies kept + copies handed over = `L`. -/
def Conservation (l : Nat) (dest : Peer) (log : List Send) (remaining : Nat) : Prop :=
  remaining + (relayed dest log).length = l

instance (l : Nat) (dest : Peer) (log : List Send) (r : Nat) : Decidable (Conservation l dest log r) := by
  unfold Conservation; infer_instance

/-- `FailureReturnsCopy`, per forwarding step: the count drops by exactly the number of successful
transmissions of the step to non-destination peers — a failed one costs nothing. -/
def FailureReturnsCopy (dest : Peer) (before : Nat) (sends : List Send) (after : Nat) : Prop :=
  after + (relayed dest sends).length = before

instance (dest : Peer) (b : Nat) (sends : List Send) (a : Nat) : Decidable (FailureReturnsCopy dest b sends a) := by
  unfold FailureReturnsCopy; infer_instance

/-- `SingleCopyWaits`: holding fewer than two copies, only the destination is served. -/
def SingleCopyWaits (dest : Peer) (held : Nat) (sends : List Send) : Prop :=
  held < 2 → ∀ x ∈ sends, x.peer = dest

instance (dest : Peer) (held : Nat) (sends : List Send) : Decidable (SingleCopyWaits dest held sends) := by
  unfold SingleCopyWaits; infer_instance

/-- Binary spray, one transmission to a non-destination peer out of `held` copies, `kept` afterwards:
half rounded down is announced; a success keeps the rest, a failure restores the count. -/
def BinarySplit (held : Nat) (x : Send) (kept : Nat) : Prop :=
  x.block = some (held / 2) ∧ (if x.ok then held / 2 + kept = held else kept = held)

instance (held : Nat) (x : Send) (kept : Nat) : Decidable (BinarySplit held x kept) := by
  unfold BinarySplit; infer_instance

end Dtn7.Spray
