/-
MTCP framing (pkg/cla/mtcp/client.go `Send`, server.go `handleSender`).

    frame b    = CBOR byte-string head with |enc b| ++ enc b
    keep-alive = 0x40 (the head of the empty byte string), also written as a probe after every frame
    server     = loop: read a byte-string head; 0 → again; otherwise parse ONE bundle from the stream
                 (the announced length is not used to delimit it)

The bundle codec is a parameter (C01's subject): `enc`/`parse` with `parse` returning the unconsumed rest.
Core-only.
-/
import Dtn7.Model.Wire

namespace Dtn7.Mtcp
open Dtn7.Cbor (Bytes encHead decExpect majBytes)
open Dtn7.Wire

structure Codec (B : Type) where
  enc : B → Bytes
  parse : Bytes → Except Err (B × Bytes)

def keepalive : Bytes := [0x40]

/-- What `MTCPClient.Send` writes for one bundle (without the trailing probe). -/
def frame {B} (c : Codec B) (b : B) : Bytes := encHead majBytes (c.enc b).length ++ c.enc b

inductive Item (B : Type) where
  | bundle (b : B)
  | keepalive

def encItem {B} (c : Codec B) : Item B → Bytes
  | .bundle b => frame c b
  | .keepalive => keepalive

def bundlesOf {B} : List (Item B) → List B
  | [] => []
  | .bundle b :: r => b :: bundlesOf r
  | .keepalive :: r => bundlesOf r

/-- How `handleSender` ended. -/
inductive End where
  | eof        -- clean end of stream at a frame boundary (io.EOF on the first head byte): silent return
  | headErr    -- the head could not be read / was not a byte-string head: logged, connection closed
  | bundleErr  -- the bundle parser failed: logged, connection closed
  | fuel
deriving Repr, DecidableEq

/-- `handleSender`'s loop. Every iteration consumes at least the head byte, so `fuel = length + 1` suffices. -/
def serverFuel {B} (c : Codec B) : Nat → Bytes → List B × End
  | 0, _ => ([], .fuel)
  | _ + 1, [] => ([], .eof)
  | f + 1, b :: bs =>
    match decExpect majBytes (b :: bs) with
    | .error _ => ([], .headErr)
    | .ok (n, rest) =>
      if n = 0 then serverFuel c f rest
      else
        match c.parse rest with
        | .error _ => ([], .bundleErr)
        | .ok (bundle, rest') =>
          let (bs', e) := serverFuel c f rest'
          (bundle :: bs', e)

def server {B} (c : Codec B) (bs : Bytes) : List B × End := serverFuel c (bs.length + 1) bs

/-- `MTCPClient.Send` as a function of the outcomes of its I/O steps, in order: serialise, write head, write
bundle, flush, write the zero-length probe (`true` = the step succeeded). The first failing step ends the call;
the deferred function reports `PeerDisappeared` exactly when an error is returned. -/
structure SendOutcome where
  err : Bool
  peerDisappeared : Bool
  stepsDone : Nat
deriving Repr, DecidableEq

def sendSteps : Nat := 5

def send (ios : List Bool) : SendOutcome :=
  let done := ((ios.take sendSteps).takeWhile id).length
  let failed := decide (done < sendSteps)
  ⟨failed, failed, done⟩

end Dtn7.Mtcp
