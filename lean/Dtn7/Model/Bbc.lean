/-
BBC transmissions (pkg/cla/bbc/transmission.go, connector.go) on top of the fragment header of
`Dtn7.Model.BbcFrag`.

Sender: `newPlainOutgoingTransmission` + the `WriteFragment` loop of `Connector.Send`
        (`mtu − 2` payload bytes per fragment, numbers 1, 2, …, 15, 0, 1, …, START on the first, END on the last).
Receiver: `Connector.handleIncomingFragment` with `NewIncomingTransmission` / `ReadFragment`
        (table keyed by the transmission id; any error deletes the entry and broadcasts a failure fragment;
        END hands the collected bytes to the bundle decoder — a parameter — and deletes the entry).
Core-only.
-/
import Dtn7.Model.BbcFrag

namespace Dtn7.Bbc
open Dtn7.Cbor (Bytes)

/-! ### Sender -/

/-- The `WriteFragment` loop: `p` = payload bytes per fragment (`mtu − 2`), `seq` = previous number. -/
def trainFuel (tid : UInt8) (p : Nat) : Nat → Bool → UInt8 → Bytes → List Frag
  | 0, _, _, _ => []
  | f + 1, start, seq, pl =>
    if pl.length ≤ p then [mkFrag tid (nextSeq seq) start true false pl]
    else mkFrag tid (nextSeq seq) start false false (pl.take p) ::
      trainFuel tid p f false (nextSeq seq) (pl.drop p)

/-- All fragments of one transmission. An empty payload is "already finished": `WriteFragment` errors and
nothing is sent (cannot happen for a compressed bundle). -/
def train (tid : UInt8) (mtu : Nat) (payload : Bytes) : List Frag :=
  if payload.isEmpty then [] else trainFuel tid (mtu - fragmentIdentifierSize) payload.length true 0 payload

/-! ### Spec of a fragment train (independent of the sender model) -/

/-- Number of the `i`-th fragment (0-based): 1, 2, …, 15, 0, 1, … -/
def seqOf (i : Nat) : UInt8 := UInt8.ofNat ((i + 1) % 16)

/-- Fragments `i, i+1, …` of a train of `n`: id, consecutive numbers, START exactly on 0, END exactly on
`n − 1`, never FAIL. -/
def shapeFrom (tid : UInt8) (n : Nat) : Nat → List Frag → Bool
  | _, [] => true
  | i, f :: fs =>
    f.tid == tid && f.seq == seqOf i && f.start == (i == 0) && f.fin == (i + 1 == n) && !f.fail &&
      shapeFrom tid n (i + 1) fs

def concatPayload : List Frag → Bytes
  | [] => []
  | f :: fs => f.payload ++ concatPayload fs

def TrainOk (tid : UInt8) (mtu : Nat) (payload : Bytes) (t : List Frag) : Prop :=
  t ≠ [] ∧ (∀ f ∈ t, f.bytes.length ≤ mtu) ∧ shapeFrom tid t.length 0 t = true ∧ concatPayload t = payload

instance (tid : UInt8) (mtu : Nat) (payload : Bytes) (t : List Frag) : Decidable (TrainOk tid mtu payload t) := by
  unfold TrainOk; infer_instance

/-- Which clause fails (for the `specfail` class). -/
def trainFail (tid : UInt8) (mtu : Nat) (payload : Bytes) (t : List Frag) : Option String :=
  if t.isEmpty then some "no-fragment"
  else if !t.all (fun f => f.bytes.length ≤ mtu) then some "fragment-larger-than-mtu"
  else if concatPayload t != payload then some "concat-differs"
  else if !shapeFrom tid t.length 0 t then some "numbers-or-marks"
  else none

/-! ### Receiver -/

/-- An open incoming transmission (finished ones are removed at once). -/
structure RxSt where
  payload : Bytes
  prev    : UInt8
deriving Repr, DecidableEq

inductive Out where
  | deliver (tid : UInt8) (payload : Bytes)   -- bundle decoded from `payload` reported on the channel
  | failFrag (tid seq : UInt8)                -- failure fragment broadcast (`ReportFailure`)
  | failSignal (tid : UInt8)                  -- a peer's failure fragment handed to the sending side
deriving Repr, DecidableEq

/-- `handleIncomingFragment` restricted to the entry of the fragment's transmission id.
`decodes` = "`Transmission.Bundle()` succeeds on these bytes". -/
def rx (decodes : Bytes → Bool) (st : Option RxSt) (f : Frag) : Option RxSt × List Out :=
  if f.fail then (st, [.failSignal f.tid])
  else
    match st with
    | none =>
      -- NewIncomingTransmission
      if !f.start then (none, [.failFrag f.tid f.seq])
      else if f.fin then
        (none, [if decodes f.payload then .deliver f.tid f.payload else .failFrag f.tid f.seq])
      else (some ⟨f.payload, f.seq⟩, [])
    | some t =>
      -- ReadFragment
      if f.seq != nextSeq t.prev then (none, [.failFrag f.tid f.seq])
      else if f.start then (none, [.failFrag f.tid f.seq])
      else
        let pl := t.payload ++ f.payload
        if f.fin then (none, [if decodes pl then .deliver f.tid pl else .failFrag f.tid f.seq])
        else (some ⟨pl, f.seq⟩, [])

/-- One transmission id in isolation: final entry and everything that came out. -/
def runSt (decodes : Bytes → Bool) : Option RxSt → List Frag → Option RxSt × List Out
  | st, [] => (st, [])
  | st, f :: fs =>
    match runSt decodes (rx decodes st f).1 fs with
    | (st'', o') => (st'', (rx decodes st f).2 ++ o')

def run (decodes : Bytes → Bool) (st : Option RxSt) (fs : List Frag) : List Out := (runSt decodes st fs).2

/-- The fragments of a train at the given positions (what a lossy, duplicating, reordering channel hands
to the receiver is such a selection). -/
def pick (t : List Frag) (is : List Nat) : List Frag := is.filterMap (fun j => t[j]?)

/-- "Fewer than sixteen in a row": consecutive received positions `i, j` are less than 16 away from being
consecutive train positions, i.e. `j − (i+1) ∈ (−16, 16)`. -/
def windowOk : List Nat → Bool
  | [] => true
  | [_] => true
  | i :: j :: r => decide (i ≤ j + 14) && decide (j ≤ i + 16) && windowOk (j :: r)

/-- The connector's table `transmissions` (association list, at most one entry per id). -/
abbrev Table := List (UInt8 × RxSt)

def Table.get (t : Table) (k : UInt8) : Option RxSt := (t.find? (·.1 == k)).map (·.2)

def Table.put (t : Table) (k : UInt8) : Option RxSt → Table
  | none => t.filter (·.1 != k)
  | some v => (k, v) :: t.filter (·.1 != k)

def step (decodes : Bytes → Bool) (tab : Table) (f : Frag) : Table × List Out :=
  let (st', o) := rx decodes (tab.get f.tid) f
  (tab.put f.tid st', o)

def runTable (decodes : Bytes → Bool) : Table → List Frag → List Out
  | _, [] => []
  | tab, f :: fs =>
    let (tab', o) := step decodes tab f
    o ++ runTable decodes tab' fs

/-! ### Single faults on a train of `n` fragments, as lists of received positions -/

inductive Fault where
  | drop (d : Nat)     -- position d never arrives
  | dup (d : Nat)      -- position d arrives twice in a row
  | swap (d : Nat)     -- positions d and d+1 arrive in the opposite order
deriving Repr, DecidableEq

def Fault.apply (n : Nat) : Fault → List Nat
  | .drop d => List.range' 0 d ++ List.range' (d + 1) (n - d - 1)
  | .dup d => List.range' 0 (d + 1) ++ List.range' d (n - d)
  | .swap d => List.range' 0 d ++ [d + 1, d] ++ List.range' (d + 2) (n - d - 2)

def Fault.valid (n : Nat) : Fault → Prop
  | .drop d => d < n
  | .dup d => d < n
  | .swap d => d + 1 < n

/-- The two fault classes the receiver cannot notice (D29): the END fragment (or the only fragment) is lost;
the only fragment of a one-fragment transmission arrives twice. -/
def Fault.silent (n : Nat) : Fault → Prop
  | .drop d => d + 1 = n
  | .dup _ => n = 1
  | .swap _ => False

instance (n : Nat) (f : Fault) : Decidable (f.valid n) := by cases f <;> unfold Fault.valid <;> infer_instance
instance (n : Nat) (f : Fault) : Decidable (f.silent n) := by cases f <;> unfold Fault.silent <;> infer_instance

def Out.tid : Out → UInt8
  | .deliver t _ => t
  | .failFrag t _ => t
  | .failSignal t => t

def Out.isDeliver : Out → Bool
  | .deliver _ _ => true
  | _ => false

def Out.isFailFrag : Out → Bool
  | .failFrag _ _ => true
  | _ => false

end Dtn7.Bbc
