/-
Delimiting ONE well-formed CBOR data item on a byte stream (RFC 8949 syntax: definite and indefinite
lengths, tags, simple values). Used by the C12 driver to instantiate MTCP's abstract bundle parser:
a serialised bundle is one CBOR item (an indefinite-length array). Core-only.
-/
import Dtn7.Model.Cbor

namespace Dtn7.CborItem
open Dtn7.Cbor (Bytes beVal)

/-- Work stack: `some k` = `k` more items expected at this level, `none` = items until the break byte. -/
def skipFuel : Nat → List (Option Nat) → Bytes → Option Bytes
  | 0, _, _ => none
  | _ + 1, [], bs => some bs
  | f + 1, some 0 :: st, bs => skipFuel f st bs
  | _ + 1, _ :: _, [] => none
  | f + 1, top :: st, b :: rest =>
    if b.toNat = 0xFF then
      match top with
      | none => skipFuel f st rest
      | some _ => none
    else
      let top' : Option Nat := top.map (· - 1)
      let maj := b.toNat / 32
      let adds := b.toNat % 32
      if adds ≤ 27 then
        let l := if adds ≤ 23 then 0 else 2 ^ (adds - 24)
        if rest.length < l then none else
        let n := if adds ≤ 23 then adds else beVal (rest.take l)
        let r1 := rest.drop l
        if maj = 2 ∨ maj = 3 then
          if r1.length < n then none else skipFuel f (top' :: st) (r1.drop n)
        else if maj = 4 then skipFuel f (some n :: top' :: st) r1
        else if maj = 5 then skipFuel f (some (2 * n) :: top' :: st) r1
        else if maj = 6 then skipFuel f (some 1 :: top' :: st) r1
        else skipFuel f (top' :: st) r1
      else if adds = 31 ∧ (maj = 2 ∨ maj = 3 ∨ maj = 4 ∨ maj = 5) then skipFuel f (none :: top' :: st) rest
      else none

/-- One item: its bytes and the unconsumed rest. -/
def parseItem (bs : Bytes) : Option (Bytes × Bytes) :=
  match skipFuel (2 * bs.length + 4) [some 1] bs with
  | none => none
  | some rest => some (bs.take (bs.length - rest.length), rest)

end Dtn7.CborItem
