/-
Spec side of C01 / C02 — written from the property statements, independent of the model's
`checkValid` / `parse` / `serialize`. These predicates are what the theorems conclude and what the
drivers evaluate on the IMPLEMENTATION's outputs.
-/
import Dtn7.Model.Bundle

namespace Dtn7.Bundle
open Dtn7.Cbor Dtn7.Eid

/-! ### C02: well-formedness (the rule list of the statement) -/

def isPayload (c : Canonical) : Bool := c.typeCode == 1

/-- Endpoint IDs carried by a block value that the rule "valid endpoint IDs" speaks about. -/
def valueEidsWf : BlockValue → Prop
  | .prevNode e => e.WellFormed
  | _ => True

instance (v : BlockValue) : Decidable (valueEidsWf v) := by
  cases v <;> unfold valueEidsWf <;> infer_instance

def hopOk : BlockValue → Prop
  | .hop l c => c ≤ l
  | _ => True

instance (v : BlockValue) : Decidable (hopOk v) := by
  cases v <;> unfold hopOk <;> infer_instance

def ageWithin (lifetime : Nat) : BlockValue → Prop
  | .age ms => ms ≤ lifetime
  | _ => False

instance (l : Nat) (v : BlockValue) : Decidable (ageWithin l v) := by
  cases v <;> unfold ageWithin <;> infer_instance

/-- Lifetime not run out at `now` (milliseconds, DTN epoch): by the creation time, or — when the
creation time is zero — by the bundle age. -/
def NotExpired (now : Nat) (b : Bundle) : Prop :=
  if b.primary.tsTime = 0 then ∃ c ∈ b.blocks, ageWithin b.primary.lifetime c.value
  else now ≤ b.primary.tsTime + b.primary.lifetime

instance (now : Nat) (b : Bundle) : Decidable (NotExpired now b) := by
  unfold NotExpired; infer_instance

/-- Status-report request flags of the primary block: bits 14, 16, 17, 18. -/
def requestsStatus (flags : Nat) : Prop :=
  flags.testBit 14 ∨ flags.testBit 16 ∨ flags.testBit 17 ∨ flags.testBit 18

instance (f : Nat) : Decidable (requestsStatus f) := by unfold requestsStatus; infer_instance

/-- The individual rules; `WellFormed` is their conjunction. -/
structure WellFormed (now : Nat) (b : Bundle) : Prop where
  version      : b.primary.version = 7
  onePayload   : (b.blocks.filter isPayload).length = 1
  payloadNum   : ∀ c ∈ b.blocks, isPayload c = true → c.num = 1
  payloadLast  : b.blocks.getLast?.map isPayload = some true
  uniqueNums   : (b.blocks.map Canonical.num).Nodup
  uniqueTypes  : (b.blocks.map Canonical.typeCode).Nodup
  primaryEids  : b.primary.dst.WellFormed ∧ b.primary.src.WellFormed ∧ b.primary.rpt.WellFormed
  blockEids    : ∀ c ∈ b.blocks, valueEidsWf c.value
  fragVsMnf    : ¬ (b.primary.flags.testBit 0 = true ∧ b.primary.flags.testBit 2 = true)
  adminNoStatus : (b.primary.flags.testBit 1 = true ∨ b.primary.src = Eid.none) →
                  ¬ requestsStatus b.primary.flags ∧ ∀ c ∈ b.blocks, c.flags.testBit 1 = false
  anonMnf      : b.primary.src = Eid.none → b.primary.flags.testBit 2 = true
  zeroTimeAge  : b.primary.tsTime = 0 → ∃ c ∈ b.blocks, c.typeCode = 7
  hopCount     : ∀ c ∈ b.blocks, hopOk c.value
  lifetime     : NotExpired now b

/-- The rules as a list of (name, holds?) — the driver reports the first failing one. -/
def wfRules (now : Nat) (b : Bundle) : List (String × Bool) := [
  ("version", decide (b.primary.version = 7)),
  ("one-payload-block", decide ((b.blocks.filter isPayload).length = 1)),
  ("payload-block-number-1", decide (∀ c ∈ b.blocks, isPayload c = true → c.num = 1)),
  ("payload-block-last", decide (b.blocks.getLast?.map isPayload = some true)),
  ("unique-block-numbers", decide ((b.blocks.map Canonical.num).Nodup)),
  ("one-block-per-type", decide ((b.blocks.map Canonical.typeCode).Nodup)),
  ("primary-endpoint-ids", decide (b.primary.dst.WellFormed ∧ b.primary.src.WellFormed ∧ b.primary.rpt.WellFormed)),
  ("block-endpoint-ids", decide (∀ c ∈ b.blocks, valueEidsWf c.value)),
  ("fragment-vs-must-not-fragment", decide (¬ (b.primary.flags.testBit 0 = true ∧ b.primary.flags.testBit 2 = true))),
  ("admin-or-anonymous-requests-status", decide ((b.primary.flags.testBit 1 = true ∨ b.primary.src = Eid.none) →
      ¬ requestsStatus b.primary.flags ∧ ∀ c ∈ b.blocks, c.flags.testBit 1 = false)),
  ("anonymous-without-must-not-fragment", decide (b.primary.src = Eid.none → b.primary.flags.testBit 2 = true)),
  ("zero-time-without-age-block", decide (b.primary.tsTime = 0 → ∃ c ∈ b.blocks, c.typeCode = 7)),
  ("hop-count-above-limit", decide (∀ c ∈ b.blocks, hopOk c.value)),
  ("lifetime-run-out", decide (NotExpired now b))]


/-- Names of the rules that do not hold (what the driver reports). -/
def brokenRules (now : Nat) (b : Bundle) : List String :=
  ((wfRules now b).filter (fun r => !r.2)).map (·.1)

/-! ### C01: the structures the wire can carry as such ("valid bundle" presupposes them)

`Encodable` collects what Go's types guarantee (`uint64`, `uint8` fields, byte strings a reader can
take back) and the normal form of the structure: a non-fragment has no fragment offset, typed values
sit under registered type codes and generic values under unregistered ones, map keys are pairwise
different (a Go map), endpoint structures are split the way the parser splits them. -/

def U64 (n : Nat) : Prop := n < 2 ^ 64

instance (n : Nat) : Decidable (U64 n) := by unfold U64; infer_instance

def Eid.Enc (e : Eid) : Prop := e.Canonical ∧ e.Bounded

instance (e : Eid) : Decidable (Eid.Enc e) := by unfold Eid.Enc; infer_instance

def EidMap.Enc (m : EidMap) : Prop :=
  (∀ p ∈ m, Eid.Enc p.1 ∧ U64 p.2) ∧ (m.map (·.1)).Nodup ∧ U64 m.length

instance (m : EidMap) : Decidable (EidMap.Enc m) := by unfold EidMap.Enc; infer_instance

def BlockValue.Enc (cfg : Cfg) : BlockValue → Prop
  | .payload _ => True
  | .generic t _ => cfg.registered t = false ∧ U64 t
  | .prevNode e => Eid.Enc e
  | .age ms => U64 ms
  | .hop l c => l ≤ 255 ∧ c ≤ 255
  | .spray n => cfg.registered tSpray = true ∧ U64 n
  | .dtlsr id ts peers => cfg.registered tDtlsr = true ∧ Eid.Enc id ∧ U64 ts ∧ EidMap.Enc peers
  | .prophet m => cfg.registered tProphet = true ∧ EidMap.Enc m
  | .signature pk sg => cfg.registered tSignature = true ∧ pk.length ≤ maxInt32 ∧ sg.length ≤ maxInt32

instance (cfg : Cfg) (v : BlockValue) : Decidable (BlockValue.Enc cfg v) := by
  cases v <;> unfold BlockValue.Enc <;> infer_instance

def Canonical.Enc (cfg : Cfg) (c : Canonical) : Prop :=
  U64 c.num ∧ U64 c.flags ∧ c.crcT ≤ 2 ∧ BlockValue.Enc cfg c.value ∧
  (encValueInner c.value).length ≤ maxInt32

instance (cfg : Cfg) (c : Canonical) : Decidable (Canonical.Enc cfg c) := by
  unfold Canonical.Enc; infer_instance

def Primary.Enc (p : Primary) : Prop :=
  p.version = dtnVersion ∧ U64 p.flags ∧ p.crcT ≤ 2 ∧
  Eid.Enc p.dst ∧ Eid.Enc p.src ∧ Eid.Enc p.rpt ∧
  U64 p.tsTime ∧ U64 p.tsSeq ∧ U64 p.lifetime ∧ U64 p.fragOff ∧ U64 p.total ∧
  (p.isFragment = false → p.fragOff = 0 ∧ p.total = 0)

instance (p : Primary) : Decidable (Primary.Enc p) := by unfold Primary.Enc; infer_instance

def Encodable (cfg : Cfg) (b : Bundle) : Prop :=
  Primary.Enc b.primary ∧ ∀ c ∈ b.blocks, Canonical.Enc cfg c

instance (cfg : Cfg) (b : Bundle) : Decidable (Encodable cfg b) := by unfold Encodable; infer_instance

/-- Bundle ID as C01 means it: source node, creation timestamp, fragment flag, offset, total length. -/
def Bundle.id (b : Bundle) : Eid × Nat × Nat × Bool × Nat × Nat :=
  (b.primary.src, b.primary.tsTime, b.primary.tsSeq, b.primary.isFragment, b.primary.fragOff, b.primary.total)

end Dtn7.Bundle
