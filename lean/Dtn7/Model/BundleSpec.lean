/-
Spec side of C01 / C02 — written from the property statements, independent of the model's
`checkValid` / `parse` / `serialize`. These predicates are what the theorems conclude and what the
drivers evaluate on the IMPLEMENTATION's outputs.
-/
import Dtn7.Model.Bundle

namespace Dtn7.Bundle
open Dtn7.Cbor Dtn7.Eid

/-! ### C02: well-formedness (the rule list of the statement) -/

def isPayload (c : Canonical) : Bool := c.typeCode == 1

/-- Endpoint IDs carried by a block value that the rule "valid endpoint IDs" speaks about. -/
def valueEidsWf : BlockValue → Prop
  | .prevNode e => e.WellFormed
  | _ => True

instance (v : BlockValue) : Decidable (valueEidsWf v) := by
  cases v <;> unfold valueEidsWf <;> infer_instance

def hopOk : BlockValue → Prop
  | .hop l c => c ≤ l
  | _ => True

instance (v : BlockValue) : Decidable (hopOk v) := by
  cases v <;> unfold hopOk <;> infer_instance

def ageWithin (lifetime : Nat) : BlockValue → Prop
  | .age ms => ms ≤ lifetime
  | _ => False

instance (l : Nat) (v : BlockValue) : Decidable (ageWithin l v) := by
  cases v <;> unfold ageWithin <;> infer_instance

/-- Lifetime not run out at `now` (milliseconds, DTN epoch): by the creation time, or — when the
creation time is zero — by the bundle age. -/
def NotExpired (now : Nat) (b : Bundle) : Prop :=
  if b.primary.tsTime = 0 then ∃ c ∈ b.blocks, ageWithin b.primary.lifetime c.value
  else now ≤ b.primary.tsTime + b.primary.lifetime

instance (now : Nat) (b : Bundle) : Decidable (NotExpired now b) := by
  unfold NotExpired; infer_instance

/-- Status-report request flags of the primary block: bits 14, 16, 17, 18. -/
def requestsStatus (flags : Nat) : Prop :=
  flags.testBit 14 ∨ flags.testBit 16 ∨ flags.testBit 17 ∨ flags.testBit 18

instance (f : Nat) : Decidable (requestsStatus f) := by unfold requestsStatus; infer_instance

/-- The individual rules; `WellFormed` is their conjunction. -/
structure WellFormed (now : Nat) (b : Bundle) : Prop where
  version      : b.primary.version = 7
  onePayload   : (b.blocks.filter isPayload).length = 1
  payloadNum   : ∀ c ∈ b.blocks, isPayload c = true → c.num = 1
  payloadLast  : b.blocks.getLast?.map isPayload = some true
  uniqueNums   : (b.blocks.map Canonical.num).Nodup
  uniqueTypes  : (b.blocks.map Canonical.typeCode).Nodup
  primaryEids  : b.primary.dst.WellFormed ∧ b.primary.src.WellFormed ∧ b.primary.rpt.WellFormed
  blockEids    : ∀ c ∈ b.blocks, valueEidsWf c.value
  fragVsMnf    : ¬ (b.primary.flags.testBit 0 = true ∧ b.primary.flags.testBit 2 = true)
  adminNoStatus : (b.primary.flags.testBit 1 = true ∨ b.primary.src = Eid.none) →
                  ¬ requestsStatus b.primary.flags ∧ ∀ c ∈ b.blocks, c.flags.testBit 1 = false
  anonMnf      : b.primary.src = Eid.none → b.primary.flags.testBit 2 = true
  zeroTimeAge  : b.primary.tsTime = 0 → ∃ c ∈ b.blocks, c.typeCode = 7
  hopCount     : ∀ c ∈ b.blocks, hopOk c.value
  lifetime     : NotExpired now b

/-- The rules as a list of (name, holds?) — the driver reports the first failing one. -/
def wfRules (now : Nat) (b : Bundle) : List (String × Bool) := [
  ("version", decide (b.primary.version = 7)),
  ("one-payload-block", decide ((b.blocks.filter isPayload).length = 1)),
  ("payload-block-number-1", decide (∀ c ∈ b.blocks, isPayload c = true → c.num = 1)),
  ("payload-block-last", decide (b.blocks.getLast?.map isPayload = some true)),
  ("unique-block-numbers", decide ((b.blocks.map Canonical.num).Nodup)),
  ("one-block-per-type", decide ((b.blocks.map Canonical.typeCode).Nodup)),
  ("primary-endpoint-ids", decide (b.primary.dst.WellFormed ∧ b.primary.src.WellFormed ∧ b.primary.rpt.WellFormed)),
  ("block-endpoint-ids", decide (∀ c ∈ b.blocks, valueEidsWf c.value)),
  ("fragment-vs-must-not-fragment", decide (¬ (b.primary.flags.testBit 0 = true ∧ b.primary.flags.testBit 2 = true))),
  ("admin-or-anonymous-requests-status", decide ((b.primary.flags.testBit 1 = true ∨ b.primary.src = Eid.none) →
      ¬ requestsStatus b.primary.flags ∧ ∀ c ∈ b.blocks, c.flags.testBit 1 = false)),
  ("anonymous-without-must-not-fragment", decide (b.primary.src = Eid.none → b.primary.flags.testBit 2 = true)),
  ("zero-time-without-age-block", decide (b.primary.tsTime = 0 → ∃ c ∈ b.blocks, c.typeCode = 7)),
  ("hop-count-above-limit", decide (∀ c ∈ b.blocks, hopOk c.value)),
  ("lifetime-run-out", decide (NotExpired now b))]

end Dtn7.Bundle
