/-
Endpoint IDs of pkg/bpv7 (endpoint.go, endpoint_dtn.go, endpoint_ipn.go): structure, validity
(`CheckValid`), and CBOR form (`EndpointID/DtnEndpoint/IpnEndpoint.{Marshal,Unmarshal}Cbor`).
Core-only.

Strings are byte lists: Go's `string(ssp)` keeps the raw bytes, the regular expressions are applied
to them with RE2 semantics (`\w` is ASCII, `.` is every character except `\n`, an invalid UTF-8 byte
is one character different from `\n`), so a byte-level recogniser is exact.
-/
import Dtn7.Model.Cbor

namespace Dtn7.Eid
open Dtn7.Cbor

inductive Eid where
  | none                            -- DtnEndpoint{IsDtnNone: true}
  | dtn (node demux : Bytes)        -- DtnEndpoint{NodeName, Demux}
  | ipn (node service : Nat)        -- IpnEndpoint{Node, Service}
deriving Repr, DecidableEq, Inhabited

/-- `[\w-._]` : `[0-9A-Za-z_]`, `-`, `.`, `_`. -/
def isNodeChar (c : UInt8) : Bool :=
  (48 ≤ c.toNat && c.toNat ≤ 57) || (65 ≤ c.toNat && c.toNat ≤ 90) ||
  (97 ≤ c.toNat && c.toNat ≤ 122) || c.toNat == 95 || c.toNat == 45 || c.toNat == 46

def slash : UInt8 := 47
def newline : UInt8 := 10

def noNewline (d : Bytes) : Bool := d.all (fun c => c != newline)

/-- `parseDtnSsp` for an SSP different from "none": `^//([\w-._]+)/(.*)$`. The greedy node-name
run is maximal and must be followed by `/` (which is not a node-name character), so the match is
unique. -/
def parseSsp : Bytes → Option (Bytes × Bytes)
  | a :: b :: t =>
    if a = slash ∧ b = slash then
      match t.dropWhile isNodeChar with
      | c :: demux =>
        if c = slash ∧ (t.takeWhile isNodeChar) ≠ [] ∧ noNewline demux = true
        then some (t.takeWhile isNodeChar, demux) else Option.none
      | [] => Option.none
    else Option.none
  | _ => Option.none

/-- `fmt.Sprintf("//%s/%s", NodeName, Demux)`. -/
def sspOf (node demux : Bytes) : Bytes := slash :: slash :: (node ++ slash :: demux)

/-- `EndpointID.CheckValid`: `dtn:none` is valid; a dtn endpoint is valid iff its printed URI
matches `^dtn:(none|//([\w-._]+)/(.*))$`; an ipn endpoint iff both numbers are ≥ 1. -/
def Eid.valid : Eid → Bool
  | .none => true
  | .dtn node demux => (parseSsp (sspOf node demux)).isSome
  | .ipn n s => decide (1 ≤ n) && decide (1 ≤ s)

def schemeDtn : Nat := 1
def schemeIpn : Nat := 2

/-- Bytes written by `EndpointID.MarshalCbor` once `CheckValid` has passed. -/
def encEidRaw : Eid → Bytes
  | .none => encArray 2 ++ encUInt schemeDtn ++ encUInt 0
  | .dtn node demux => encArray 2 ++ encUInt schemeDtn ++ encText (sspOf node demux)
  | .ipn n s => encArray 2 ++ encUInt schemeIpn ++ (encArray 2 ++ encUInt n ++ encUInt s)

/-- `EndpointID.MarshalCbor` (refuses invalid endpoints). -/
def encEid (e : Eid) : Except Err Bytes :=
  if e.valid then .ok (encEidRaw e) else .error (.other 10)

/-- Sequencing of decoders. -/
@[inline] def bindP {α β : Type} (p : Except Err (α × Bytes)) (f : α → Bytes → Except Err β) :
    Except Err β :=
  match p with
  | .error e => .error e
  | .ok (a, r) => f a r

@[simp] theorem bindP_ok {α β : Type} (a : α) (r : Bytes) (f : α → Bytes → Except Err β) :
    bindP (.ok (a, r)) f = f a r := rfl

@[simp] theorem bindP_error {α β : Type} (e : Err) (f : α → Bytes → Except Err β) :
    bindP (.error e : Except Err (α × Bytes)) f = .error e := rfl

/-- `DtnEndpoint.UnmarshalCbor`: an unsigned integer of *any* value means `dtn:none`; a text string
must match the SSP pattern ("none" as text is refused, it does not match either). -/
def decDtn (bs : Bytes) : Except Err (Eid × Bytes) :=
  match decHead bs with
  | .error e => .error e
  | .ok (m, n, r) =>
    if m = majUInt then .ok (.none, r)
    else if m = majText then
      bindP (readRaw n r) fun ssp r' =>
        match parseSsp ssp with
        | some (node, demux) => .ok (.dtn node demux, r')
        | Option.none => .error (.other 11)
    else .error (.other 12)

/-- `IpnEndpoint.UnmarshalCbor` (no range check here; `CheckValid` runs later). -/
def decIpn (bs : Bytes) : Except Err (Eid × Bytes) :=
  bindP (decArray bs) fun l r =>
    if l ≠ 2 then .error (.other 13) else
    bindP (decUInt r) fun n r =>
    bindP (decUInt r) fun s r =>
      .ok (.ipn n s, r)

/-- `EndpointID.UnmarshalCbor`. -/
def decEid (bs : Bytes) : Except Err (Eid × Bytes) :=
  bindP (decArray bs) fun l r =>
    if l ≠ 2 then .error (.other 14) else
    bindP (decUInt r) fun scheme r =>
      if scheme = schemeDtn then decDtn r
      else if scheme = schemeIpn then decIpn r
      else .error (.other 15)

/-! ### Spec side (independent formulation): what "valid endpoint ID" means -/

/-- Node name: non-empty, only letters, digits, `_`, `-`, `.`; it is the segment up to the first
`/` of what follows `dtn://`; the remainder (demux) contains no line feed. Stated on the text
`node ++ "/" ++ demux` so that it speaks about the URI, not about how the structure splits it. -/
def dtnTextOk (node demux : Bytes) : Bool :=
  let txt := node ++ slash :: demux
  let seg := txt.takeWhile (fun c => c != slash)
  let tail := txt.dropWhile (fun c => c != slash)
  !seg.isEmpty && seg.all isNodeChar && tail.all (fun c => c != newline)

def Eid.WellFormed : Eid → Prop
  | .none => True
  | .dtn node demux => dtnTextOk node demux = true
  | .ipn n s => 1 ≤ n ∧ 1 ≤ s

instance (e : Eid) : Decidable e.WellFormed := by
  cases e <;> unfold Eid.WellFormed <;> infer_instance

/-- Structural canonical form the parser always produces: the node name is the whole first segment. -/
def Eid.Canonical : Eid → Prop
  | .none => True
  | .dtn node demux => node ≠ [] ∧ node.all isNodeChar = true ∧ noNewline demux = true
  | .ipn _ _ => True

instance (e : Eid) : Decidable e.Canonical := by
  cases e <;> unfold Eid.Canonical <;> infer_instance

/-- All numbers fit `uint64`, the SSP fits `ReadRawBytes`. -/
def Eid.Bounded : Eid → Prop
  | .none => True
  | .dtn node demux => (sspOf node demux).length ≤ maxInt32
  | .ipn n s => n < 2 ^ 64 ∧ s < 2 ^ 64

instance (e : Eid) : Decidable e.Bounded := by
  cases e <;> unfold Eid.Bounded <;> infer_instance

end Dtn7.Eid
