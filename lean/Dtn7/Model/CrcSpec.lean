/-
C03 — Spec side: the two CRCs of BPv7 as independent bit-serial definitions, and a byte-level block
delimiter for a serialised bundle that does not share any code with the model of the Go parser.

  CRC-16/X-25      reflected, polynomial 0x1021 (reflected 0x8408), init 0xFFFF, final complement
  CRC-32C          reflected, polynomial 0x1EDC6F41 (reflected 0x82F63B78), init/xorout 0xFFFFFFFF

RFC 9171 §4.2.1/4.3.1/4.3.2: the CRC is computed over the concatenation of all bytes of the block
including the CRC field itself, which for this purpose is temporarily populated with zeros; the value is
written as a CBOR byte string of 2 resp. 4 bytes in network byte order.

Core-only and executable: the driver `drv_c03` evaluates these predicates on what the Go code produced
and accepted; `Dtn7.Props.C03` proves the error-detection theorems about `crcX25` / `crc32c`.
-/
import Dtn7.Model.Cbor

namespace Dtn7.Crc
open Dtn7.Cbor

abbrev Bits := List Bool

/-! ### Bit-serial CRC register -/

/-- One clock of the reflected (LSB-first) CRC shift register with feedback polynomial `P`. -/
def step {w : Nat} (P s : BitVec w) (b : Bool) : BitVec w :=
  (s >>> 1) ^^^ (if (s.getLsbD 0 ^^ b) then P else 0#w)

/-- Feed a bit string, first bit first. -/
def run {w : Nat} (P s : BitVec w) (bits : Bits) : BitVec w := bits.foldl (step P) s

/-- The bits of a byte in CRC order: least significant first. -/
def byteBits (b : UInt8) : Bits :=
  [b.toNat.testBit 0, b.toNat.testBit 1, b.toNat.testBit 2, b.toNat.testBit 3,
   b.toNat.testBit 4, b.toNat.testBit 5, b.toNat.testBit 6, b.toNat.testBit 7]

def bitsOf : Bytes → Bits
  | [] => []
  | b :: t => byteBits b ++ bitsOf t

def P16 : BitVec 16 := 0x8408#16
def P32 : BitVec 32 := 0x82F63B78#32

/-- CRC-16/X-25 of a byte string. -/
def crcX25 (d : Bytes) : BitVec 16 := ~~~ run P16 0xFFFF#16 (bitsOf d)

/-- CRC-32C (Castagnoli) of a byte string. -/
def crc32c (d : Bytes) : BitVec 32 := ~~~ run P32 0xFFFFFFFF#32 (bitsOf d)

/-! Allocation-free evaluation for the driver (proved equal to the definitions above). -/

def stepByte {w : Nat} (P s : BitVec w) (b : UInt8) : BitVec w :=
  let n := b.toNat
  step P (step P (step P (step P (step P (step P (step P (step P s (n.testBit 0)) (n.testBit 1))
    (n.testBit 2)) (n.testBit 3)) (n.testBit 4)) (n.testBit 5)) (n.testBit 6)) (n.testBit 7)

def runBytes {w : Nat} (P s : BitVec w) (d : Bytes) : BitVec w := d.foldl (stepByte P) s

theorem runBytes_eq {w : Nat} (P s : BitVec w) (d : Bytes) : runBytes P s d = run P s (bitsOf d) := by
  induction d generalizing s with
  | nil => rfl
  | cons b t ih =>
    show runBytes P (stepByte P s b) t = run P s (byteBits b ++ bitsOf t)
    rw [ih]
    simp [run, byteBits, stepByte]

def crcX25Fast (d : Bytes) : BitVec 16 := ~~~ runBytes P16 0xFFFF#16 d
def crc32cFast (d : Bytes) : BitVec 32 := ~~~ runBytes P32 0xFFFFFFFF#32 d

theorem crcX25Fast_eq (d : Bytes) : crcX25Fast d = crcX25 d := by
  simp [crcX25Fast, crcX25, runBytes_eq]

theorem crc32cFast_eq (d : Bytes) : crc32cFast d = crc32c d := by
  simp [crc32cFast, crc32c, runBytes_eq]

/-! ### CRC types and the CRC field -/

/-- Length in bytes of the CRC value for a CRC type (1 = CRC-16, 2 = CRC-32). -/
def crcLen (t : Nat) : Nat := if t = 1 then 2 else if t = 2 then 4 else 0

/-- Register width in bits. -/
def crcWidth (t : Nat) : Nat := 8 * crcLen t

def zeros (n : Nat) : Bytes := List.replicate n 0

/-- The CRC value of `data` in network byte order, as it appears in the block (`none` for a type
that is not a CRC). -/
def crcField (t : Nat) (data : Bytes) : Option Bytes :=
  if t = 1 then some (beBytes 2 (crcX25 data).toNat)
  else if t = 2 then some (beBytes 4 (crc32c data).toNat)
  else none

/-- Same, evaluated with the byte-wise fold (driver). -/
def crcFieldFast (t : Nat) (data : Bytes) : Option Bytes :=
  if t = 1 then some (beBytes 2 (crcX25Fast data).toNat)
  else if t = 2 then some (beBytes 4 (crc32cFast data).toNat)
  else none

theorem crcFieldFast_eq (t : Nat) (data : Bytes) : crcFieldFast t data = crcField t data := by
  simp [crcFieldFast, crcField, crcX25Fast_eq, crc32cFast_eq]

/-- "The received bytes of the block with the CRC field zeroed": the CRC value is the last item of
the block, so these are the block bytes with the last `crcLen t` bytes replaced by zeros. -/
def zeroField (t : Nat) (blk : Bytes) : Bytes :=
  blk.take (blk.length - crcLen t) ++ zeros (crcLen t)

/-- **Spec of one block that declares CRC type `t` ∈ {1,2}** given its complete received bytes:
the trailing `crcLen t` bytes are the CRC of the block with those bytes zeroed. -/
def BlockCrcOk (t : Nat) (blk : Bytes) : Prop :=
  crcLen t ≤ blk.length ∧ crcField t (zeroField t blk) = some (blk.drop (blk.length - crcLen t))

instance (t : Nat) (blk : Bytes) : Decidable (BlockCrcOk t blk) := by
  unfold BlockCrcOk; infer_instance

def blockCrcOkB (t : Nat) (blk : Bytes) : Bool :=
  crcLen t ≤ blk.length && crcFieldFast t (zeroField t blk) == some (blk.drop (blk.length - crcLen t))

/-! ### Error patterns -/

def xorBits : Bits → Bits → Bits
  | a :: as, b :: bs => (a ^^ b) :: xorBits as bs
  | _, _ => []

/-- Drop leading `false`s. -/
def stripL : Bits → Bits
  | [] => []
  | false :: t => stripL t
  | true :: t => true :: t

/-- The error pattern between its first and its last set bit. -/
def core (e : Bits) : Bits := (stripL (stripL e).reverse).reverse

/-- Length of a burst: distance from the first to the last set bit, inclusive (0 for no error). -/
def span (e : Bits) : Nat := (core e).length

/-! ### Independent block delimiter

Works on bytes only: definite-length CBOR items are skipped generically (unsigned/negative integers,
byte and text strings, arrays, maps, tags, simple values); an indefinite-length item or a break byte
inside a block is a delimiting failure. -/

mutual
/-- Skip one item; `none` = not a definite-length item / truncated. -/
def skipItem : Nat → Bytes → Option Bytes
  | 0, _ => none
  | fuel + 1, bs =>
    match decHead bs with
    | .error _ => none
    | .ok (maj, n, rest) =>
      if maj = 2 ∨ maj = 3 then (if rest.length < n then none else some (rest.drop n))
      else if maj = 4 then (if rest.length < n then none else skipItems fuel n rest)
      else if maj = 5 then (if rest.length < 2 * n then none else skipItems fuel (2 * n) rest)
      else if maj = 6 then skipItem fuel rest
      else some rest
/-- Skip `n` items. -/
def skipItems : Nat → Nat → Bytes → Option Bytes
  | 0, _, _ => none
  | _ + 1, 0, bs => some bs
  | fuel + 1, n + 1, bs =>
    match skipItem fuel bs with
    | none => none
    | some rest => skipItems fuel n rest
end

/-- The raw bytes of the next `n` items, and the rest. -/
def splitItems : Nat → Bytes → Option (List Bytes × Bytes)
  | 0, bs => some ([], bs)
  | n + 1, bs =>
    match skipItem (2 * bs.length + 2) bs with
    | none => none
    | some rest =>
      match splitItems n rest with
      | none => none
      | some (is, r) => some (bs.take (bs.length - rest.length) :: is, r)

/-- One delimited block: its complete bytes and the raw bytes of the items of its array. -/
structure Block where
  raw : Bytes
  items : List Bytes
deriving Repr, DecidableEq

/-- Delimit one block (a definite-length array) at the head of `bs`. -/
def splitBlock (bs : Bytes) : Option (Block × Bytes) :=
  match decHead bs with
  | .error _ => none
  | .ok (maj, n, rest) =>
    if maj ≠ 4 then none
    else if rest.length < n then none
    else
      match splitItems n rest with
      | none => none
      | some (is, r) => some (⟨bs.take (bs.length - r.length), is⟩, r)

/-- Blocks up to the break byte, which must be the last byte. -/
def splitBlocks : Nat → Bytes → Option (List Block)
  | 0, _ => none
  | fuel + 1, bs =>
    match bs with
    | [] => none
    | b :: t =>
      if b.toNat = 0xFF then (if t.isEmpty then some [] else none)
      else
        match splitBlock bs with
        | none => none
        | some (blk, r) =>
          match splitBlocks fuel r with
          | none => none
          | some bl => some (blk :: bl)

/-- A serialised bundle: `0x9F`, blocks, `0xFF`. -/
def delimit (bs : Bytes) : Option (List Block) :=
  match bs with
  | [] => none
  | b :: t => if b.toNat = 0x9F then splitBlocks (t.length + 1) t else none

/-- Value of an item that is an unsigned integer. -/
def itemUInt (it : Bytes) : Option Nat :=
  match decUInt it with
  | .ok (n, []) => some n
  | _ => none

/-- What one delimited block says about its CRC. -/
inductive CrcStatus where
  | malformed          -- the CRC type item is missing or not an unsigned integer
  | none               -- CRC type 0
  | absent (t : Nat)   -- CRC type ≠ 0 but the array has no CRC item / the type is unknown
  | good (t : Nat)     -- CRC type 1/2, CRC item present, value matches the Spec
  | bad (t : Nat)      -- CRC type 1/2, CRC item present, value or its encoding does not match
deriving Repr, DecidableEq

/-- The CRC item of a block with CRC type `t` is a byte string of exactly `crcLen t` bytes. -/
def fieldShapeOk (t : Nat) (it : Bytes) : Bool :=
  match decBytes it with
  | .ok (v, []) => v.length == crcLen t
  | _ => false

/-- `idx` = position of the CRC type item (2 in the primary block, 3 in a canonical block),
`hasField n` = does an array of `n` items carry a CRC item. -/
def crcStatus (primary : Bool) (b : Block) : CrcStatus :=
  let idx := if primary then 2 else 3
  let n := b.items.length
  let hasField := if primary then (n = 9 ∨ n = 11) else n = 6
  match b.items[idx]? with
  | Option.none => .malformed
  | some it =>
    match itemUInt it with
    | Option.none => .malformed
    | some t =>
      if t = 0 then .none
      else if t ≠ 1 ∧ t ≠ 2 then .absent t
      else if ¬ hasField then .absent t
      else
        match b.items.getLast? with
        | Option.none => .malformed
        | some f => if fieldShapeOk t f && blockCrcOkB t b.raw then .good t else .bad t

def statuses : List Block → List CrcStatus
  | [] => []
  | p :: cs => crcStatus true p :: cs.map (crcStatus false)

/-- Every block carries a CRC that matches. -/
def fullyProtected (bl : List Block) : Bool :=
  !bl.isEmpty && (statuses bl).all (fun s => match s with | .good _ => true | _ => false)

end Dtn7.Crc
