/-
Expected control skeletons for C02: the shape of the Go functions that `Dtn7.Model.Bundle` /
`Dtn7.Model.Eid` mirror, as they were when the model was written (one string per statement, logging
removed; produced by `/verif/extract`'s `Skeleton`). `Dtn7.Props.C02` states
`Dtn7.Gen.C02.<f> = Dtn7.Expected.C02.<f>` for each of them, so an edit of one of these functions
breaks a named obligation until the model has been re-checked against the new code and this
snapshot updated.
-/
namespace Dtn7.Expected.C02

def bundleCheckValid : List String := ["b.forEachBlock(func(blck block) { if blckErr := blck.CheckValid(); blckErr != nil { errs = multierror.Append(errs, blckErr) } })",
  "if b.CanonicalBlocks == nil || len(b.CanonicalBlocks) == 0",
  "  errs = multierror.Append(errs, fmt.Errorf(\"Bundle contains no CannonicalBlocks\"))",
  "  return",
  "if b.PrimaryBlock.BundleControlFlags.Has(AdministrativeRecordPayload) || b.PrimaryBlock.SourceNode == DtnNone()",
  "  for _, cb := range b.CanonicalBlocks",
  "    if cb.BlockControlFlags.Has(StatusReportBlock)",
  "      errs = multierror.Append(errs, fmt.Errorf(\"Bundle: Bundle Processing Control Flags indicate that \"+ \"this bundle's payload is an administrative record or the source \"+ \"node is omitted, but the \\\"Transmit status report if block \"+ \"cannot be processed\\\" Block Processing Control Flag was set in a \"+ \"Canonical Block\"))",
  "var cbBlockNumbers = make(map[uint64]bool)",
  "var cbBlockTypes = make(map[uint64]bool)",
  "for _, cb := range b.CanonicalBlocks",
  "  if _, ok := cbBlockNumbers[cb.BlockNumber]; ok",
  "    errs = multierror.Append(errs, fmt.Errorf(\"Bundle: Block number %d occurred multiple times\", cb.BlockNumber))",
  "  cbBlockNumbers[cb.BlockNumber] = true",
  "  blockType := cb.Value.BlockTypeCode()",
  "  if _, ok := cbBlockTypes[blockType]; ok",
  "    errs = multierror.Append(errs, fmt.Errorf(\"Bundle: Block type %d occurred multiple times\", blockType))",
  "  cbBlockTypes[blockType] = true",
  "if last := b.CanonicalBlocks[len(b.CanonicalBlocks)-1].Value.BlockTypeCode(); last != ExtBlockTypePayloadBlock",
  "  errs = multierror.Append(errs, fmt.Errorf(\"Bundle: last CannonicalBlock is not a Payload Block, but %d\", last))",
  "if b.PrimaryBlock.CreationTimestamp.IsZeroTime()",
  "  if _, err := b.ExtensionBlock(ExtBlockTypeBundleAgeBlock); err != nil",
  "    errs = multierror.Append(errs, fmt.Errorf( \"Bundle: Creation Timestamp is zero, but fetching Bundle Age block errored: %v\", err))",
  "if b.IsLifetimeExceeded()",
  "  errs = multierror.Append(errs, fmt.Errorf(\"Bundle: Lifetime is exceeded\"))",
  "return"]

def isLifetimeExceeded : List String := ["if b.PrimaryBlock.CreationTimestamp.IsZeroTime()",
  "  if bab, err := b.ExtensionBlock(ExtBlockTypeBundleAgeBlock); err != nil",
  "    return true",
  "  else",
  "    return bab.Value.(*BundleAgeBlock).Age() > b.PrimaryBlock.Lifetime",
  "maxTimestamp := b.PrimaryBlock.CreationTimestamp.DtnTime().Time().Add( time.Duration(b.PrimaryBlock.Lifetime) * time.Millisecond)",
  "return time.Now().After(maxTimestamp)"]

def primaryCheckValid : List String := ["if pb.Version != dtnVersion",
  "  errs = multierror.Append(errs, fmt.Errorf(\"PrimaryBlock: Wrong Version, %d instead of %d\", pb.Version, dtnVersion))",
  "if bcfErr := pb.BundleControlFlags.CheckValid(); bcfErr != nil",
  "  errs = multierror.Append(errs, bcfErr)",
  "if destErr := pb.Destination.CheckValid(); destErr != nil",
  "  errs = multierror.Append(errs, destErr)",
  "if srcErr := pb.SourceNode.CheckValid(); srcErr != nil",
  "  errs = multierror.Append(errs, srcErr)",
  "if rprtToErr := pb.ReportTo.CheckValid(); rprtToErr != nil",
  "  errs = multierror.Append(errs, rprtToErr)",
  "bpcfImpl := !(pb.SourceNode == DtnNone()) || (pb.BundleControlFlags.Has(MustNotFragmented) && !pb.BundleControlFlags.Has(StatusRequestReception) && !pb.BundleControlFlags.Has(StatusRequestForward) && !pb.BundleControlFlags.Has(StatusRequestDelivery) && !pb.BundleControlFlags.Has(StatusRequestDeletion))",
  "if !bpcfImpl",
  "  errs = multierror.Append(errs, fmt.Errorf(\"PrimaryBlock: Source Node is dtn:none, but Bundle could \"+ \"be fragmented or status report flags are not zero\"))",
  "return"]

def canonicalCheckValid : List String := ["if bcfErr := cb.BlockControlFlags.CheckValid(); bcfErr != nil",
  "  errs = multierror.Append(errs, bcfErr)",
  "if extErr := cb.Value.CheckValid(); extErr != nil",
  "  errs = multierror.Append(errs, extErr)",
  "if cb.Value.BlockTypeCode() == ExtBlockTypePayloadBlock && cb.BlockNumber != 1",
  "  errs = multierror.Append(errs, fmt.Errorf( \"CanonicalBlock is a PayloadBlock with a block number %d != 1\", cb.BlockNumber))",
  "return"]

def bundleFlagsCheckValid : List String := ["if bcf.Has(IsFragment) && bcf.Has(MustNotFragmented)",
  "  errs = multierror.Append(errs, fmt.Errorf(\"BundleControlFlags: both 'bundle is a fragment' and \"+ \"'bundle must not be fragmented' flags are set\"))",
  "adminRecCheck := !bcf.Has(AdministrativeRecordPayload) || (!bcf.Has(StatusRequestReception) && !bcf.Has(StatusRequestForward) && !bcf.Has(StatusRequestDelivery) && !bcf.Has(StatusRequestDeletion))",
  "if !adminRecCheck",
  "  errs = multierror.Append(errs, fmt.Errorf( \"BundleControlFlags: \\\"payload is administrative record => \"+ \"no status report request flags\\\" failed\"))",
  "return"]

def bundleFlagsHas : List String := ["return (bcf & flag) != 0"]

def blockFlagsCheckValid : List String := ["return nil"]

def eidCheckValid : List String := ["if eid.EndpointType == nil",
  "  return fmt.Errorf(\"internal EndpointType is nil\")",
  "return eid.EndpointType.CheckValid()"]

def dtnCheckValid : List String := ["if !regexp.MustCompile(dtnEndpointRegexpFull).MatchString(e.String())",
  "  err = fmt.Errorf(\"dtn URI does not match regexp\")",
  "return"]

def ipnCheckValid : List String := ["if e.Node < 1 || e.Service < 1",
  "  return fmt.Errorf(\"ipn's node and Service number must be >= 1\")",
  "return nil"]

def hopCheckValid : List String := ["if hcb.IsExceeded()",
  "  return fmt.Errorf(\"HopCountBlock is exceeded\")",
  "return nil"]

def hopIsExceeded : List String := ["return hcb.Count > hcb.Limit"]

def prevNodeCheckValid : List String := ["return EndpointID(*pnb).CheckValid()"]

def signatureCheckValid : List String := ["if l := len(s.PublicKey); l != ed25519.PublicKeySize",
  "  err = multierror.Append(err, fmt.Errorf(\"SignatureBlock: public key's length is %d, not required %d\", l, ed25519.PublicKeySize))",
  "if l := len(s.Signature); l != ed25519.SignatureSize",
  "  err = multierror.Append(err, fmt.Errorf(\"SignatureBlock: signature's length is %d, not required %d\", l, ed25519.SignatureSize))",
  "return"]

def dtlsrCheckValid : List String := ["if err := dtlsrb.ID.CheckValid(); err != nil",
  "  errs = multierror.Append(errs, err)",
  "for peerID := range dtlsrb.Peers",
  "  if err := peerID.CheckValid(); err != nil",
  "    errs = multierror.Append(errs, err)",
  "return"]

def prophetCheckValid : List String := ["for peerID := range pBlock",
  "  if err := peerID.CheckValid(); err != nil",
  "    errs = multierror.Append(errs, err)",
  "return"]

def sortLess : List String := ["if cbns[i].BlockNumber == ExtBlockTypePayloadBlock",
  "  return false",
  "else if cbns[j].BlockNumber == ExtBlockTypePayloadBlock",
  "  return true",
  "else",
  "  return cbns[i].BlockNumber < cbns[j].BlockNumber"]

def bundleUnmarshal : List String := ["if err := cboring.ReadExpect(cboring.IndefiniteArray, r); err != nil",
  "  return err",
  "if err := cboring.Unmarshal(&b.PrimaryBlock, r); err != nil",
  "  return fmt.Errorf(\"PrimaryBlock failed: %v\", err)",
  "for",
  "  cb := CanonicalBlock{}",
  "  if err := cboring.Unmarshal(&cb, r); err == cboring.FlagBreakCode",
  "    break",
  "  else if err != nil",
  "    return fmt.Errorf(\"CanonicalBlock failed: %v\", err)",
  "  else",
  "    b.CanonicalBlocks = append(b.CanonicalBlocks, cb)",
  "return b.CheckValid()"]

end Dtn7.Expected.C02
