/-
Model of DTLSR ("delay tolerant link state routing")
  pkg/routing/algorithm_dtlsr.go      (NotifyNewBundle, SenderForBundle, ReportPeer*, newNode,
                                       computeRoutingTable, purgePeers)
  pkg/bpv7/extension_block_dtlsr.go   (DTLSRPeerData.ShouldReplace)
  pkg/routing/algorithm.go            (filterCLAs)
  pkg/routing/processing.go           (Core.forward: direct delivery first, release after success)
  github.com/RyanCarrier/dijkstra v1.0.0  dijkstra.go / linked_list.go
                                      (Graph.Shortest = setup + postSetupEvaluate + bestPath, with the
                                       ascending linked list `visiting`)

Core-only and executable; used by the driver `drv_c20` and by `Dtn7.Props.C20`.

Contents
  §1  weighted digraphs, the Spec `MinCostNextHop` and the certificate checker `checkTable`
  §2  reference shortest paths: `n` rounds of Bellman–Ford relaxation, admissible next hops
  §3  line-by-line port of the library's `Shortest`
  §4  DTLSR state: link-state reception, node index, graph construction, routing table
  §5  SenderForBundle / filterCLAs / Core.forward's choice of convergence senders
-/
namespace Dtn7.Dtlsr

/-! ## §1 Graphs and the Spec -/

/-- An arc `(u, v, w)`: from `u` to `v` with cost `w` (Go: `int64`). -/
abbrev Arc := Nat × Nat × Int

/-- Vertices are `0 … n-1`; vertex `0` is the node itself (`nodeIndex[c.NodeId] = 0`). Parallel
arcs are allowed in the Spec (the cheapest one counts); the graph the code builds has none. -/
structure Graph where
  n : Nat
  arcs : List Arc
deriving Repr, DecidableEq

/-- `Walk g u v c`: the graph contains a walk from `u` to `v` of total cost `c`. -/
inductive Walk (g : Graph) : Nat → Nat → Int → Prop
  | nil (u : Nat) : Walk g u u 0
  | cons {u v x : Nat} {w c : Int} (ha : (u, v, w) ∈ g.arcs) (hw : Walk g v x c) :
      Walk g u x (w + c)

def Reachable (g : Graph) (u v : Nat) : Prop := ∃ c, Walk g u v c

/-- `d` is the least cost of a walk from `u` to `v`. -/
def IsDist (g : Graph) (u v : Nat) (d : Int) : Prop :=
  Walk g u v d ∧ ∀ c, Walk g u v c → d ≤ c

/-- **The property's statement about a routing table** (vertex level; `t d` is the next hop for
destination `d`):
* `dom`: the table has an entry for `d` exactly when `d` is another node that the known graph
  reaches from the node itself;
* `hop`: the entry `h` is an out-neighbour of the node (`(0,h,w)` is an arc: a current or recently
  lost neighbour) and lies on a minimum-cost path: `w + c` is the least cost of any walk `0 ⇝ d`,
  for some walk `h ⇝ d` of cost `c` (hence `c = dist(h,d)` and `w = cost(0,h)`). -/
structure MinCostNextHop (g : Graph) (t : Nat → Option Nat) : Prop where
  dom : ∀ d, (t d).isSome = true ↔ (d ≠ 0 ∧ Reachable g 0 d)
  hop : ∀ d h, t d = some h →
    ∃ w c, (0, h, w) ∈ g.arcs ∧ Walk g h d c ∧ IsDist g 0 d (w + c)

/-- A routing table as data: destination ↦ next hop (first entry wins). -/
abbrev Table := List (Nat × Nat)

def lookup (t : Table) (d : Nat) : Option Nat :=
  match t with
  | [] => none
  | (k, h) :: rest => if k = d then some h else lookup rest d

/-- Certificate for a table: `pot v = some p` claims "`v` is reachable and its distance from `0` is
`p`", `none` claims "unreachable"; `paths[d]` is a walk `0, h, …, d` claimed to be tight. -/
structure Cert where
  pot : List (Option Int)
  paths : List (List Nat)
deriving Repr

def Cert.potAt (c : Cert) (v : Nat) : Option Int := (c.pot[v]?).join

/-- `(a, b, w)` is an arc and it is tight for the potentials: `pot a + w = pot b`. -/
def tightArc (g : Graph) (pot : Nat → Option Int) (a b : Nat) : Bool :=
  g.arcs.any fun e =>
    e.1 == a && e.2.1 == b &&
      match pot a, pot b with
      | some pa, some pb => pa + e.2.2 == pb
      | _, _ => false

/-- Every consecutive pair of the vertex list is a tight arc. -/
def tightPath (g : Graph) (pot : Nat → Option Int) : List Nat → Bool
  | a :: b :: rest => tightArc g pot a b && tightPath g pot (b :: rest)
  | _ => true

/-- The path starts `0, h`, ends in `d`, and is tight. -/
def pathOk (g : Graph) (pot : Nat → Option Int) (h d : Nat) (p : List Nat) : Bool :=
  match p with
  | a :: b :: rest => a == 0 && b == h && (b :: rest).getLast? == some d && tightPath g pot p
  | _ => false

/-- Feasibility of the potentials on one arc, and closedness of the set of labelled vertices. -/
def arcFeasible (pot : Nat → Option Int) (e : Arc) : Bool :=
  match pot e.1 with
  | none => true
  | some pu =>
    match pot e.2.1 with
    | none => false
    | some pv => decide (pv ≤ pu + e.2.2)

/-- **Certificate checker.** Accepts only if
1. all arc end points are vertices, `0` is a vertex and `pot 0 = 0`;
2. the potentials are feasible on every arc leaving a labelled vertex and the labelled set is
   closed under arcs (so everything reachable from `0` is labelled, and `pot` is a lower bound of
   every walk's cost);
3. table keys are vertices other than `0`;
4. for every vertex `d ≠ 0`: unlabelled and no entry, or labelled with entry `h` and a tight path
   `0, h, …, d` (so `pot d` is attained by a walk whose first hop is `h`). -/
def checkTable (g : Graph) (t : Table) (c : Cert) : Bool :=
  let pot := c.potAt
  g.arcs.all (fun e => decide (e.1 < g.n) && decide (e.2.1 < g.n)) &&
  decide (0 < g.n) && pot 0 == some 0 &&
  g.arcs.all (arcFeasible pot) &&
  t.all (fun e => e.1 != 0 && decide (e.1 < g.n)) &&
  (List.range g.n).all fun d =>
    d == 0 ||
      match pot d, lookup t d with
      | none, none => true
      | some _, some h => pathOk g pot h d (c.paths.getD d [])
      | _, _ => false

/-! ## §2 Reference: Bellman–Ford relaxation -/

def upd {α : Type} (f : Nat → α) (k : Nat) (a : α) : Nat → α :=
  fun x => if x = k then a else f x

/-- Distance labels (`none` = not reached yet). A structure rather than a bare function so that the
compiled code evaluates every relaxation when it happens (a bare function would be a chain of
unevaluated closures). -/
structure Labels where
  get : Nat → Option Int

/-- Relax one arc. -/
def relaxArc (dist : Labels) (a : Arc) : Labels :=
  match dist.get a.1 with
  | none => dist
  | some du =>
    match dist.get a.2.1 with
    | none => ⟨upd dist.get a.2.1 (some (du + a.2.2))⟩
    | some dv => if du + a.2.2 < dv then ⟨upd dist.get a.2.1 (some (du + a.2.2))⟩ else dist

/-- One round: relax every arc once, in list order. -/
def relaxRound (arcs : List Arc) (dist : Labels) : Labels :=
  arcs.foldl relaxArc dist

def bfInit (src : Nat) : Labels := ⟨fun v => if v = src then some 0 else none⟩

def bfRounds (arcs : List Arc) : Nat → Labels → Labels
  | 0, d => d
  | k + 1, d => bfRounds arcs k (relaxRound arcs d)

/-- `n` rounds from `src` (`n - 1` suffice; the last one is a no-op). -/
def bf (g : Graph) (src : Nat) : Labels := bfRounds g.arcs g.n (bfInit src)

/-- Next hops that are admissible for destination `d`, given a distance oracle `D u v`:
out-neighbours `h` of `0` with `w(0,h) + D h d = D 0 d`. -/
def admissibleD (D : Nat → Nat → Option Int) (g : Graph) (d : Nat) : List Nat :=
  match D 0 d with
  | none => []
  | some dd =>
    g.arcs.filterMap fun a =>
      if a.1 = 0 then
        match D a.2.1 d with
        | some c => if a.2.2 + c = dd then some a.2.1 else none
        | none => none
      else none

def tableD (D : Nat → Nat → Option Int) (g : Graph) : Table :=
  (List.range g.n).filterMap fun d =>
    if d = 0 then none else (admissibleD D g d).head?.map fun h => (d, h)

def admissible (g : Graph) (d : Nat) : List Nat := admissibleD (fun u => (bf g u).get) g d

/-- The reference routing table: first admissible next hop for every reachable destination. -/
def refTable (g : Graph) : Table := tableD (fun u => (bf g u).get) g

/-! ## §3 Port of `dijkstra.Graph.Shortest` (v1.0.0)

`Shortest(src, dest)` = `setup(true, src, -1)`; `postSetupEvaluate`; `finally`/`bestPath`.
With fewer than 800 vertices `forceList(-1)` selects `linkedListNewLong()`, whose `PopOrdered` is
`popFront` of a list kept ascending by `pushOrdered`. The list holds *pointers* to vertices, so an
element's distance is always the vertex's current label: the port stores vertex ids and reads the
label from the state. `current.arcs` is a Go map: its iteration order is not specified, so the port
takes the adjacency lists (with their order) as an argument. `int64` additions are modelled in
`Int` (no wrap-around: assumption "path costs stay below 2^63"). -/

def maxInt64 : Int := 9223372036854775807

/-- `setDefaults(math.MaxInt64 - 2, -1)`. -/
def infDist : Int := maxInt64 - 2

structure LibSt where
  dist : Nat → Int              -- Verticies[v].distance
  pred : Nat → Option Nat       -- Verticies[v].bestVerticies[0]   (-1 ≙ none)
  best : Int                    -- g.best
  visitedDest : Bool            -- g.visitedDest
  visiting : List Nat           -- g.visiting, front first
  oldCurrent : Option Nat       -- oldCurrent (-1 ≙ none)

/-- The walk of `pushOrdered` from the front: stop at the first element whose label is not smaller
or which is `v` itself; found `v` ⇒ nothing inserted, otherwise insert before it. -/
def insertWalk (dist : Nat → Int) (v : Nat) : List Nat → List Nat
  | [] => [v]          -- unreachable: `pushOrdered` only walks when `back.distance ≥ v.distance`
  | c :: rest =>
    if dist c < dist v ∧ c ≠ v then c :: insertWalk dist v rest
    else if c = v then c :: rest
    else v :: c :: rest

/-- `linkedList.pushOrdered`. -/
def pushOrdered (dist : Nat → Int) (l : List Nat) (v : Nat) : List Nat :=
  match l.getLast? with
  | none => [v]
  | some back => if dist back < dist v then l ++ [v] else insertWalk dist v l

/-- A successful relaxation of the arc `cur → v` of cost `w`: new label and predecessor for `v`;
if `v` is the destination, `best` is updated and `v` is *not* pushed, otherwise `v` is pushed. -/
def relaxOne (dest cur v : Nat) (w : Int) (s : LibSt) : LibSt :=
  let s1 := { s with dist := upd s.dist v (s.dist cur + w), pred := upd s.pred v (some cur) }
  if v = dest then { s1 with best := s.dist cur + w, visitedDest := true }
  else { s1 with visiting := pushOrdered s1.dist s1.visiting v }

/-- The `for v, dist := range current.arcs` loop of `postSetupEvaluate`. `.error` is the
`newErrLoop` return. -/
def relaxArcs (dest cur : Nat) : List (Nat × Int) → LibSt → Except (Nat × Nat) LibSt
  | [], s => .ok s
  | (v, w) :: rest, s =>
    if s.dist cur + w < s.dist v then
      if s.pred cur = some v ∧ v ≠ dest then .error (cur, v)
      else relaxArcs dest cur rest (relaxOne dest cur v w s)
    else relaxArcs dest cur rest s

/-- The `for g.visiting.Len() > 0` loop. `none` = the fuel ran out; with `libFuel` this does not
happen (`Lemmas.libShortest_terminates`). -/
def evalLoop (adj : Nat → List (Nat × Int)) (dest : Nat) :
    Nat → LibSt → Except (Nat × Nat) (Option LibSt)
  | 0, s => .ok (if s.visiting.isEmpty then some s else none)
  | fuel + 1, s =>
    match s.visiting with
    | [] => .ok (some s)
    | cur :: rest =>
      let s := { s with visiting := rest }
      if s.oldCurrent = some cur then evalLoop adj dest fuel s
      else
        let s := { s with oldCurrent := some cur }
        if s.dist cur ≥ s.best then evalLoop adj dest fuel s
        else
          match relaxArcs dest cur (adj cur) s with
          | .error e => .error e
          | .ok s' => evalLoop adj dest fuel s'

/-- `bestPath`: follow `bestVerticies[0]` from `dest` back to `src`. `none`: the chain is broken
(Go would index `Verticies[-1]` and panic) or longer than the fuel. -/
def bestPathAux (pred : Nat → Option Nat) (src : Nat) : Nat → Nat → List Nat → Option (List Nat)
  | 0, _, _ => none
  | fuel + 1, c, acc =>
    if c = src then some (src :: acc)
    else
      match pred c with
      | none => none
      | some p => bestPathAux pred src fuel p (c :: acc)

inductive LibRes where
  | ok (distance : Int) (path : List Nat)
  | noPath
  | loopErr
  | outOfFuel
  | badPred
deriving Repr, DecidableEq

def libInit (src : Nat) : LibSt :=
  { dist := fun v => if v = src then 0 else infDist, pred := fun _ => none, best := maxInt64,
    visitedDest := false, visiting := [src], oldCurrent := none }

/-- `Graph.Shortest(src, dest)` on a graph with `n` vertices and adjacency lists `adj`. -/
def libShortest (fuel n : Nat) (adj : Nat → List (Nat × Int)) (src dest : Nat) : LibRes :=
  match evalLoop adj dest fuel (libInit src) with
  | .error _ => .loopErr
  | .ok none => .outOfFuel
  | .ok (some s) =>
    if s.visitedDest then
      match bestPathAux s.pred src (n + 1) dest [] with
      | some p => .ok (s.dist dest) p
      | none => .badPred
    else .noPath

/-- Adjacency lists of a graph, in arc-list order. -/
def adjOf (arcs : List Arc) (u : Nat) : List (Nat × Int) :=
  arcs.filterMap fun a => if a.1 = u then some (a.2.1, a.2.2) else none

/-- The fuel used for a graph. The Go loop has no bound; the port's bound is the termination
measure of the loop at its start (twice the sum of all labels plus the list length, see
`Lemmas.evalLoop_total`), so it is never the reason for stopping: astronomically large, but the
loop ends as soon as the work list is empty. -/
def libFuel (g : Graph) : Nat := infDist.toNat * (2 * g.n + 1)

/-- `err == nil`, `len(Path) > 1`, next hop `Path[1]`. -/
def hopOf : LibRes → Option Nat
  | .ok _ (_ :: h :: _) => some h
  | _ => none

/-- `computeRoutingTable`'s use of the library: `Shortest(0, i)` and `hopOf`. -/
def libNextHop (g : Graph) (d : Nat) : Option Nat :=
  hopOf (libShortest (libFuel g) g.n (adjOf g.arcs) 0 d)

def libTable (g : Graph) : Table :=
  (List.range g.n).filterMap fun d =>
    if d = 0 then none else (libNextHop g d).map fun h => (d, h)

/-! ## §4 DTLSR state -/

/-- `bpv7.DTLSRPeerData`. Endpoint ids are abstracted to numbers; times are `DtnTime`
(milliseconds, `uint64`); in `peers` the value `0` means "currently connected", otherwise it is
the time of the connection loss. The Go maps are association lists here. -/
structure PeerData where
  id : Nat
  timestamp : Nat
  peers : List (Nat × Nat)
deriving Repr, DecidableEq

/-- `pd.ShouldReplace(other)`. -/
def shouldReplace (pd other : PeerData) : Bool := decide (pd.timestamp > other.timestamp)

/-- The `receivedData` part of `NotifyNewBundle`: store if nothing is stored for that node,
replace only if strictly newer. -/
def notifyData (r : Nat → Option PeerData) (d : PeerData) : Nat → Option PeerData :=
  match r d.id with
  | none => upd r d.id (some d)
  | some stored => if shouldReplace d stored then upd r d.id (some d) else r

/-- Does `NotifyNewBundle` change `receivedData` (and hence set `receivedChange`, track nodes)? -/
def notifyAccepts (r : Nat → Option PeerData) (d : PeerData) : Bool :=
  match r d.id with
  | none => true
  | some stored => shouldReplace d stored

structure State where
  peers : List (Nat × Nat)            -- dtlsr.peers.Peers
  received : Nat → Option PeerData    -- dtlsr.receivedData
  indexNode : List Nat                -- dtlsr.indexNode (nodeIndex = position; [0] = own node id)
  table : Table                       -- dtlsr.routingTable (endpoint level)
  peerChange : Bool
  receivedChange : Bool

def State.init (self : Nat) : State :=
  { peers := [], received := fun _ => none, indexNode := [self], table := [],
    peerChange := false, receivedChange := false }

/-- `newNode`. -/
def newNode (ix : List Nat) (id : Nat) : List Nat := if ix.contains id then ix else ix ++ [id]

/-- `NotifyNewBundle` for a bundle carrying a DTLSR block. New nodes are tracked: the sender (only
when it was unknown) and its peers. (Go iterates the peer map in unspecified order, so the index
numbers of peers first seen in the same block are not determined; nothing observable depends on
them.) -/
def State.notify (s : State) (d : PeerData) : State :=
  if notifyAccepts s.received d then
    let ix := if (s.received d.id).isNone then newNode s.indexNode d.id else s.indexNode
    { s with received := notifyData s.received d, receivedChange := true,
             indexNode := (d.peers.map (·.1)).foldl newNode ix }
  else s

def setKey (m : List (Nat × Nat)) (k v : Nat) : List (Nat × Nat) :=
  match m with
  | [] => [(k, v)]
  | (k', v') :: rest => if k' = k then (k, v) :: rest else (k', v') :: setKey rest k v

/-- `ReportPeerAppeared`. -/
def State.peerAppeared (s : State) (p : Nat) : State :=
  { s with indexNode := newNode s.indexNode p, peers := setKey s.peers p 0, peerChange := true }

/-- `ReportPeerDisappeared` at DTN time `now` (the node is *not* tracked here). -/
def State.peerDisappeared (s : State) (now p : Nat) : State :=
  { s with peers := setKey s.peers p now, peerChange := true }

/-- `purgePeers`: drop peers lost more than `purge` ms ago. -/
def State.purge (s : State) (now purge : Nat) : State :=
  let keep := s.peers.filter fun e => !(e.2 != 0 && decide (e.2 + purge < now))
  { s with peers := keep, peerChange := s.peerChange || decide (keep.length ≠ s.peers.length) }

def two64 : Nat := 18446744073709551616

/-- Go's `int64(x)` of a `uint64`. -/
def toInt64 (x : Nat) : Int :=
  if x % two64 < two64 / 2 then ((x % two64 : Nat) : Int) else ((x % two64 : Nat) : Int) - two64

/-- `if timestamp == 0 { 0 } else { int64(currentTime - timestamp) }` on `uint64` DTN times. -/
def edgeCost (now ts : Nat) : Int :=
  if ts = 0 then 0 else toInt64 ((now % two64 + two64 - ts % two64) % two64)

/-- `dtlsr.nodeIndex[id]` (a Go map: `0` for an unknown key). -/
def idxOf (ix : List Nat) (id : Nat) : Nat :=
  let i := ix.idxOf id
  if i < ix.length then i else 0

/-- `Vertex.AddArc`: overwrites an existing arc to the same destination. -/
def addArc (arcs : List Arc) (a : Arc) : List Arc :=
  arcs.filter (fun b => !(b.1 == a.1 && b.2.1 == a.2.1)) ++ [a]

def ownArcs (now : Nat) (s : State) : List Arc :=
  s.peers.map fun e => (0, idxOf s.indexNode e.1, edgeCost now e.2)

def recvArcs (now : Nat) (s : State) : List Arc :=
  s.indexNode.flatMap fun id =>
    match s.received id with
    | none => []
    | some d => d.peers.map fun e => (idxOf s.indexNode d.id, idxOf s.indexNode e.1, edgeCost now e.2)

/-- The graph `computeRoutingTable` builds at DTN time `now`. -/
def buildGraph (now : Nat) (s : State) : Graph :=
  { n := s.indexNode.length, arcs := (ownArcs now s ++ recvArcs now s).foldl addArc [] }

/-- Vertex-level table → endpoint-level table through `indexNode`. -/
def toEids (ix : List Nat) (t : Table) : Table :=
  t.map fun e => (ix.getD e.1 0, ix.getD e.2 0)

/-- `computeRoutingTable` with the reference shortest paths (a *fresh* table every time). -/
def State.computeRef (s : State) (now : Nat) : State :=
  { s with table := toEids s.indexNode (refTable (buildGraph now s)) }

/-- `computeRoutingTable` with the ported library loop. -/
def State.computeLib (s : State) (now : Nat) : State :=
  { s with table := toEids s.indexNode (libTable (buildGraph now s)) }

/-- `recomputeCron`. -/
def State.recompute (s : State) (now : Nat) : State :=
  if s.peerChange || s.receivedChange then { s.computeLib now with receivedChange := false } else s

/-! ## §5 Choosing convergence senders -/

/-- `filterCLAs`: convergence senders (given by their peer endpoint) that are not yet in the
bundle's sent list, and the extended sent list. -/
def filterCLAs (sent : List Nat) : List Nat → List Nat × List Nat
  | [] => ([], sent)
  | c :: cs =>
    if sent.contains c then filterCLAs sent cs
    else
      let r := filterCLAs (sent ++ [c]) cs
      (c :: r.1, r.2)

inductive Dest where
  | broadcast            -- dtn://routing/dtlsr/broadcast/
  | node (id : Nat)
deriving Repr, DecidableEq

structure Decision where
  senders : List Nat     -- peer endpoints of the chosen convergence senders
  delete : Bool          -- release the bundle after a successful transmission
  sent : List Nat        -- new value of the bundle's "routing/dtlsr/sent" list
deriving Repr, DecidableEq

/-- `DTLSR.SenderForBundle`. -/
def senderForBundle (table : Table) (clas sent : List Nat) : Dest → Decision
  | .broadcast =>
    let r := filterCLAs sent clas
    ⟨r.1, false, r.2⟩
  | .node d =>
    match lookup table d with
    | none => ⟨[], false, sent⟩
    | some fwd => if clas.contains fwd then ⟨[fwd], true, sent⟩ else ⟨[], false, sent⟩

/-- `Core.forward`: direct delivery (`senderForDestination`) if the destination is connected,
otherwise the routing algorithm decides. -/
def forwardTargets (table : Table) (clas sent : List Nat) (dest : Dest) : Decision :=
  match dest with
  | .node d =>
    let direct := clas.filter (· == d)
    if direct.isEmpty then senderForBundle table clas sent dest else ⟨direct, true, sent⟩
  | .broadcast => senderForBundle table clas sent dest

/-- Is the bundle released (all constraints purged) after the transmissions? `oks` = which of the
chosen senders reported success. -/
def released (d : Decision) (anyOk : Bool) : Bool := anyOk && d.delete

/-- `DTLSR.ReportFailure` for a broadcast bundle: the peer whose transmission failed is removed
from the bundle's sent list (first occurrence), so that the next forwarding run offers it again.
For other bundles it does nothing. -/
def reportFailure (sent : List Nat) (p : Nat) : List Nat := sent.erase p

/-- One forwarding run of a broadcast bundle: `SenderForBundle` chooses the connected peers that
are not in the sent list and records them; every chosen peer whose transmission fails
(`fails`) is taken out again by `ReportFailure`. Returns the peers the bundle was handed to and
the sent list afterwards. -/
def broadcastAttempt (sent clas fails : List Nat) : List Nat × List Nat :=
  let r := filterCLAs sent clas
  (r.1, (r.1.filter fails.contains).foldl reportFailure r.2)

/-- A history of forwarding runs of one broadcast bundle: each run sees the then connected senders
and has its own set of failing transmissions; the sent list is persisted in between. Returns all
transmissions in order, each with its outcome. -/
def broadcastLog (sent : List Nat) : List (List Nat × List Nat) → List (Nat × Bool)
  | [] => []
  | (clas, fails) :: later =>
    let a := broadcastAttempt sent clas fails
    a.1.map (fun p => (p, !fails.contains p)) ++ broadcastLog a.2 later

/-- **Spec for one forwarding run of a broadcast bundle** (independent of `filterCLAs`): given the
peers that already had the bundle when it arrived (`had0`) and the peers it was successfully
handed to in earlier runs (`succ`), the run must hand it to exactly the connected peers that are in
neither set — each once. So a peer is never served again after a success, and a peer whose
transmission failed is tried again. -/
def broadcastRunOk (had0 succ clas sends : List Nat) : Bool :=
  sends.all (fun p => clas.contains p && !had0.contains p && !succ.contains p) &&
  clas.all (fun c => had0.contains c || succ.contains c || sends.contains c) &&
  sends.all (fun p => sends.count p == 1)

/-! ### Spec for link-state reception (independent of `notifyData`) -/

/-- The largest timestamp of a list of updates (0 for none). -/
def maxTs (l : List PeerData) : Nat := l.foldl (fun m d => max m d.timestamp) 0

/-- Among the updates for node `id` (in arrival order) the one that must be stored at the end:
the earliest one carrying the maximal timestamp ("replaced only by NEWER data"). -/
def expectedStored (ups : List PeerData) (id : Nat) : Option PeerData :=
  let mine := ups.filter (·.id == id)
  mine.find? (·.timestamp == maxTs mine)

end Dtn7.Dtlsr
