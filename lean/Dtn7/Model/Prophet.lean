/-
Model of pkg/routing/algorithm_prophet.go (PRoPHET routing), core-only and executable.

The arithmetic is parametric in the number type (`Ops α`): instantiated with exact rationals
(`ratOps`) and with the binary64 model of `Dtn7.Model.F64` (`f64Ops`, every operation is
`rne ∘ exact operation`, in the operation order of the Go expressions — Go on amd64 does not fuse
multiply-add).  The code that exists is mirrored, including its quirks:

* `encounter`:      pNew = pOld + ((1 − pOld) · PInit)          (a missing entry reads as 0, so the
                                                                 first encounter yields PInit)
* `agePred`:        pNew = pOld · Gamma                          one multiplication per cron tick
                                                                 (no power, no time units)
* `transitivity`:   pNew = pOld + ((((1 − pOld) · peerPred) · otherPeerPred) · Beta)
                    — the additive form, NOT `max(old, …)`; it runs over the received vector in
                    Go's (unspecified) map iteration order and re-reads `predictabilities[peer]` in
                    every iteration, so if the vector contains the sender itself the result depends
                    on the order: the model takes the order as the order of the list.
* `NotifyNewBundle`: a metadata bundle is imported only if addressed to this node; the stored vector
                    of the peer is replaced, then `transitivity(peer)`.
* `SenderForBundle`: metadata bundles → (nil, delete); otherwise every connected sender whose
                    `peerPredictabilities[peer][dest] > predictabilities[dest]` and which is not
                    yet in the bundle's sent list (the list grows while iterating).
Maps are association lists (first match wins; `mset` replaces in place or appends).
-/
import Dtn7.Model.F64

namespace Dtn7.Prophet

/-- The arithmetic the algorithm uses. `lt a b` is Go's `a < b`. -/
structure Ops (α : Type) where
  zero : α
  one : α
  add : α → α → α
  sub : α → α → α
  mul : α → α → α
  lt : α → α → Bool

/-- Exact rational arithmetic. -/
def ratOps : Ops Rat := ⟨0, 1, (· + ·), (· - ·), (· * ·), fun a b => decide (a < b)⟩

/-- binary64 arithmetic (values in units of 2^-1074, see `Dtn7.Model.F64`). -/
def f64Ops : Ops Int := ⟨0, F64.one, F64.fadd, F64.fsub, F64.fmul, fun a b => decide (a < b)⟩

section
variable {κ : Type} [DecidableEq κ] {α : Type}

/-- Go's `m[k]` on a `map[K]float64`: the zero value if absent. -/
def mget (z : α) : List (κ × α) → κ → α
  | [], _ => z
  | (k', v) :: t, k => if k' = k then v else mget z t k

/-- Go's `m[k] = v`. -/
def mset : List (κ × α) → κ → α → List (κ × α)
  | [], k, v => [(k, v)]
  | (k', v') :: t, k, v => if k' = k then (k, v) :: t else (k', v') :: mset t k v

def lookupVec : List (κ × List (κ × α)) → κ → Option (List (κ × α))
  | [], _ => none
  | (k', v) :: t, k => if k' = k then some v else lookupVec t k

def setVec : List (κ × List (κ × α)) → κ → List (κ × α) → List (κ × List (κ × α))
  | [], k, v => [(k, v)]
  | (k', v') :: t, k, v => if k' = k then (k, v) :: t else (k', v') :: setVec t k v

/-- `ProphetConfig` (the age interval is a cron period, not part of the arithmetic). -/
structure Cfg (α : Type) where
  pInit : α
  beta : α
  gamma : α

/-- `Prophet.predictabilities` and `Prophet.peerPredictabilities`. -/
structure St (κ α : Type) where
  own : List (κ × α) := []
  peers : List (κ × List (κ × α)) := []

/-- `pOld + ((1 - pOld) * prophet.config.PInit)` -/
def encounterVal (o : Ops α) (pInit pOld : α) : α :=
  o.add pOld (o.mul (o.sub o.one pOld) pInit)

/-- `pOld * prophet.config.Gamma` -/
def ageVal (o : Ops α) (gamma pOld : α) : α := o.mul pOld gamma

/-- `pOld + ((1 - pOld) * peerPred * otherPeerPred * prophet.config.Beta)` (products left to right) -/
def transVal (o : Ops α) (beta pOld peerPred otherPeerPred : α) : α :=
  o.add pOld (o.mul (o.mul (o.mul (o.sub o.one pOld) peerPred) otherPeerPred) beta)

/-- `Prophet.encounter(peer)` -/
def encounter (o : Ops α) (cfg : Cfg α) (st : St κ α) (peer : κ) : St κ α :=
  { st with own := mset st.own peer (encounterVal o cfg.pInit (mget o.zero st.own peer)) }

/-- `Prophet.ageCron()`: every entry once. -/
def ageAll (o : Ops α) (cfg : Cfg α) (st : St κ α) : St κ α :=
  { st with own := st.own.map fun kv => (kv.1, ageVal o cfg.gamma kv.2) }

/-- One iteration of the loop in `Prophet.transitivity`. -/
def transStep (o : Ops α) (cfg : Cfg α) (peer : κ) (own : List (κ × α)) (e : κ × α) : List (κ × α) :=
  mset own e.1 (transVal o cfg.beta (mget o.zero own e.1) (mget o.zero own peer) e.2)

/-- `Prophet.transitivity(peer)`; the peer's vector is traversed in list order. -/
def transitivity (o : Ops α) (cfg : Cfg α) (st : St κ α) (peer : κ) : St κ α :=
  match lookupVec st.peers peer with
  | none => st
  | some vec => { st with own := vec.foldl (transStep o cfg peer) st.own }

/-- The metadata branch of `Prophet.NotifyNewBundle`: `toMe` = the bundle's destination is this
node's id. -/
def receiveVec (o : Ops α) (cfg : Cfg α) (st : St κ α) (toMe : Bool) (peer : κ)
    (vec : List (κ × α)) : St κ α :=
  if toMe then transitivity o cfg { st with peers := setVec st.peers peer vec } peer else st

/-- What can happen to the tables. -/
inductive Ev (κ α : Type) where
  /-- `ReportPeerAppeared(peer)` -/
  | encounter (peer : κ)
  /-- a cron tick of `ageCron` -/
  | age
  /-- a metadata bundle from `peer` carrying `vec` arrived -/
  | receive (toMe : Bool) (peer : κ) (vec : List (κ × α))

def step (o : Ops α) (cfg : Cfg α) (st : St κ α) : Ev κ α → St κ α
  | .encounter p => encounter o cfg st p
  | .age => ageAll o cfg st
  | .receive toMe p vec => receiveVec o cfg st toMe p vec

def run (o : Ops α) (cfg : Cfg α) (st : St κ α) (evs : List (Ev κ α)) : St κ α :=
  evs.foldl (step o cfg) st

/-- `prophet.peerPredictabilities[peerID][destination]` (nil map and missing key read as 0). -/
def peerPred (o : Ops α) (st : St κ α) (peer dest : κ) : α :=
  match lookupVec st.peers peer with
  | none => o.zero
  | some vec => mget o.zero vec dest

/-- The loop of `SenderForBundle`. Returns the chosen senders (in order) and the grown sent list. -/
def chooseLoop (o : Ops α) (st : St κ α) (dest : κ) : List κ → List κ → List κ → List κ × List κ
  | [], chosen, sent => (chosen, sent)
  | cs :: rest, chosen, sent =>
    if o.lt (mget o.zero st.own dest) (peerPred o st cs dest) then
      if cs ∈ sent then chooseLoop o st dest rest chosen sent
      else chooseLoop o st dest rest (chosen ++ [cs]) (sent ++ [cs])
    else chooseLoop o st dest rest chosen sent

/-- `Prophet.SenderForBundle`: (senders, delete flag). `connected` = `claManager.Sender()` as peer
ids, `sent` = the bundle's `routing/prophet/sent` list. -/
def senderForBundle (o : Ops α) (st : St κ α) (isMeta : Bool) (dest : κ) (connected sent : List κ) :
    List κ × Bool :=
  if isMeta then ([], true) else ((chooseLoop o st dest connected [] sent).1, false)

/-- `Core.forward`'s choice: direct delivery if the destination node is connected, otherwise the
routing algorithm. -/
def forwardTargets (o : Ops α) (st : St κ α) (isMeta : Bool) (dest : κ) (connected sent : List κ) :
    List κ :=
  let direct := connected.filter (· = dest)
  if direct.isEmpty then (senderForBundle o st isMeta dest connected sent).1 else direct

/-! ### Spec side (decidable, independent of the model; evaluated on the implementation's outputs) -/

/-- Every chosen peer advertised a strictly greater predictability for the destination than the
node's own, and had not been sent the bundle. -/
def chosenOk (o : Ops α) (st : St κ α) (dest : κ) (sent chosen : List κ) : Bool :=
  chosen.all fun p => o.lt (mget o.zero st.own dest) (peerPred o st p dest) && !(sent.contains p)

end

/-- A binary64 value (units of 2^-1074) lies in [0, 1]. -/
def inUnit (v : Int) : Bool := decide (0 ≤ v) && decide (v ≤ F64.one)

/-- Spec: every held value lies in [0, 1]. -/
def allInUnit {κ : Type} (m : List (κ × Int)) : Bool := m.all fun kv => inUnit kv.2

/-! ### The arithmetic expressions as the extractor reads them from the source (post-order /
reverse Polish, see extract/c19.go): 0 = literal 1, 1 = pOld, 2 = the configuration constant,
3 = peerPred, 4 = otherPeerPred, 10 = +, 11 = −, 12 = ·. -/

def evalRpn {α : Type} (o : Ops α) (pOld cfgc peerP otherP : α) : List Nat → List α → Option α
  | [], [v] => some v
  | [], _ => none
  | 0 :: t, st => evalRpn o pOld cfgc peerP otherP t (o.one :: st)
  | 1 :: t, st => evalRpn o pOld cfgc peerP otherP t (pOld :: st)
  | 2 :: t, st => evalRpn o pOld cfgc peerP otherP t (cfgc :: st)
  | 3 :: t, st => evalRpn o pOld cfgc peerP otherP t (peerP :: st)
  | 4 :: t, st => evalRpn o pOld cfgc peerP otherP t (otherP :: st)
  | 10 :: t, b :: a :: st => evalRpn o pOld cfgc peerP otherP t (o.add a b :: st)
  | 11 :: t, b :: a :: st => evalRpn o pOld cfgc peerP otherP t (o.sub a b :: st)
  | 12 :: t, b :: a :: st => evalRpn o pOld cfgc peerP otherP t (o.mul a b :: st)
  | _ :: _, _ => none

end Dtn7.Prophet
