/-
Model of bundle fragmentation, abstract over serialised sizes
  pkg/bpv7/fragmentation.go   Bundle.Fragment, fragmentPrimaryBlock, fragmentExtensionBlocksLen

The bundle codec is a separate model (C01); here a bundle is described by the numbers the Go algorithm
works with: for every extension block its number, type code, replicate flag, the length it is *priced*
with by `fragmentExtensionBlocksLen` (serialised with CRC type 2) and its *actual* serialised length;
the same for the payload block with an empty payload; the length of the fragment primary block without
the two CBOR heads of fragment offset / total data length; the serialised size of the bundle itself; and
the payload bytes. The correspondence harness reports exactly these numbers for every bundle it feeds to
the real code, together with what `Fragment` returned.

Core-only; used by the drivers `drv_c09`, `drv_c10` and by `Dtn7.Props.C09` / `C10`.
-/
import Dtn7.Model.Cbor

namespace Dtn7.Frag
open Dtn7.Cbor (headLen)

abbrev Bytes := List UInt8

/-- Bundle processing control flags used here (`bundle_control_flags.go`). -/
def flagIsFragment : Nat := 0x01
def flagMustNotFragment : Nat := 0x04
/-- Block processing control flag `ReplicateBlock`. -/
def flagReplicate : Nat := 0x01
/-- Block type code of the Bundle Age block. -/
def typeBundleAge : Nat := 7
/-- `cborOverhead` in `Bundle.Fragment`: the indefinite-array start and the break byte. -/
def cborOverhead : Nat := 2

/-- An extension block (not the payload block) as far as fragmentation is concerned. -/
structure Blk where
  num : Nat
  type : Nat
  rep : Bool
  priced : Nat
  actual : Nat
deriving Repr, DecidableEq

/-- The payload block: replicate flag (a quirk: the estimate then counts it twice), priced length
(empty payload, CRC-32) and actual length with an empty payload and its own CRC type. -/
structure PBlk where
  rep : Bool
  priced : Nat
  actual0 : Nat
deriving Repr, DecidableEq

structure In where
  mtu : Nat
  flags : Nat
  off : Nat          -- FragmentOffset / TotalDataLength of the input (meaningful if it is a fragment)
  total : Nat
  zeroTime : Bool    -- creation time 0: every bundle then needs a Bundle Age block to be valid
  pbase : Nat
  size : Nat
  pl : PBlk
  blocks : List Blk
  payload : Bytes
deriving Repr, DecidableEq

def In.isFragment (x : In) : Bool := x.flags % 2 == 1
def In.mustNotFragment (x : In) : Bool := x.flags / 4 % 2 == 1

/-- Which variant of the code is modelled.
* `precheck`: a bundle whose serialisation fits is returned as itself before anything else, and an
  empty result is an error (the code after the D1 repair). `false`: no such test; instead a result of
  exactly one fragment is replaced by the bundle itself, and an empty payload yields `[]`.
* `absolute`: fragments of a fragment keep offsets relative to the original payload and the original
  total length (after the D2 repair). `false`: offsets restart at 0, total = local payload length. -/
structure Cfg where
  precheck : Bool
  absolute : Bool
deriving Repr, DecidableEq

def Cfg.fixed : Cfg := ⟨true, true⟩
def Cfg.old : Cfg := ⟨false, false⟩

/-- One fragment produced by the model. -/
structure Frag where
  off : Nat
  total : Nat
  data : Bytes
  carried : List Blk
deriving Repr, DecidableEq

inductive Err where
  | mustNotFragment
  | overhead          -- "bundle overhead of fragment i exceeds MTU"
  | emptyResult       -- nothing to return: an empty payload whose bundle does not fit
  | invalid           -- `fragBundle.CheckValid()`: zero creation time and no Bundle Age block carried
deriving Repr, DecidableEq

inductive Res where
  | error (e : Err)
  | self                     -- `[]Bundle{b}`
  | frags (fs : List Frag)
deriving Repr, DecidableEq

/-- `fragmentPrimaryBlock(...).l` : the fragment primary block with offset `off` and total `total`. -/
def primLen (x : In) (off total : Nat) : Nat := x.pbase + headLen off + headLen total

def sumPriced (bs : List Blk) : Nat := (bs.map (·.priced)).sum
def sumActual (bs : List Blk) : Nat := (bs.map (·.actual)).sum
def repBlocks (bs : List Blk) : List Blk := bs.filter (·.rep)

/-- `fragmentExtensionBlocksLen`: (first, others). The payload block is priced empty, with CRC-32 and
with a byte-string head wide enough for `mtu` bytes. -/
def extLen (x : In) : Nat × Nat :=
  let h := headLen x.mtu - 1
  (sumPriced x.blocks + x.pl.priced + h,
   sumPriced (repBlocks x.blocks) + (if x.pl.rep then x.pl.priced else 0) + x.pl.priced + h)

def base (c : Cfg) (x : In) : Nat := if c.absolute && x.isFragment then x.off else 0
def tot (c : Cfg) (x : In) : Nat := if c.absolute && x.isFragment then x.total else x.payload.length

/-- Extension blocks copied into the fragment that starts at local index `i`. -/
def carried (x : In) (i : Nat) : List Blk := if i = 0 then x.blocks else repBlocks x.blocks

def overheadAt (c : Cfg) (x : In) (first others i : Nat) : Nat :=
  cborOverhead + primLen x (base c x + i) (tot c x) + (if i = 0 then first else others)

/-- `fragBundle.CheckValid()`: everything that held for the input holds for the fragment (same primary
fields, a sub-list of the blocks, payload last) except the presence of the Bundle Age block that a zero
creation time demands. -/
def fragValid (x : In) (i : Nat) : Bool :=
  !x.zeroTime || (carried x i).any (·.type == typeBundleAge)

/-- The main loop `for i := 0; i < payloadBlockLen; { … i += fragPayloadBlockLen }`. `fuel` bounds the
number of iterations; every iteration advances `i` by at least 1, so `payload.length` suffices. -/
def loop (c : Cfg) (x : In) (first others : Nat) : Nat → Nat → Except Err (List Frag)
  | 0, _ => .ok []
  | fuel + 1, i =>
    if i < x.payload.length then
      let ov := overheadAt c x first others i
      if ov ≥ x.mtu then .error .overhead
      else if !fragValid x i then .error .invalid
      else
        let cap := x.mtu - ov
        match loop c x first others fuel (i + cap) with
        | .error e => .error e
        | .ok fs => .ok (⟨base c x + i, tot c x, (x.payload.drop i).take cap, carried x i⟩ :: fs)
    else .ok []

/-- `Bundle.Fragment`. -/
def fragment (c : Cfg) (x : In) : Res :=
  if x.mustNotFragment then .error .mustNotFragment
  else if c.precheck && x.size ≤ x.mtu then .self
  else
    match loop c x (extLen x).1 (extLen x).2 x.payload.length 0 with
    | .error e => .error e
    | .ok fs =>
      if c.precheck then (if fs.isEmpty then .error .emptyResult else .frags fs)
      else (if fs.length = 1 then .self else .frags fs)

/-- Serialised length of a model fragment: indefinite array + primary block + carried blocks + payload
block (actual length with an empty payload, minus its one-byte byte-string head, plus head and bytes). -/
def fragSize (x : In) (f : Frag) : Nat :=
  cborOverhead + primLen x f.off f.total + sumActual f.carried +
    (x.pl.actual0 + headLen f.data.length + f.data.length - 1)

/-! ### Spec (independent of the model): what the property demands of a fragment list -/

/-- `payload[off : off+len]` of Go, total. -/
def slice (p : Bytes) (off len : Nat) : Bytes := (p.drop off).take len

/-- `(offset, length)` pairs tile `[start, stop)` in order without gap or overlap. -/
def partitions : Nat → Nat → List (Nat × Nat) → Bool
  | s, e, [] => s == e
  | s, e, (o, l) :: r => o == s && partitions (s + l) e r

/-- What is observed of one fragment returned by the implementation (or computed by the model). -/
structure Obs where
  off : Nat
  total : Nat
  len : Nat              -- payload length
  size : Nat             -- serialised length
  flags : Nat
  valid : Bool           -- a valid bundle of its own (CheckValid; parses back and re-serialises identically)
  identOk : Bool         -- source, creation timestamp, destination, report-to, lifetime as the original
  types : List Nat       -- type codes of the extension blocks carried, in order
  blocksOk : Bool        -- every carried block is a copy (flags, CRC type, content) of the original's
  data : Bytes
deriving Repr, DecidableEq

/-- The obligations on a list of fragments of the bundle described by `x`, whose payload occupies
`[start, start + payload.length)` of a payload of `total` bytes. -/
structure FragmentsOk (x : In) (start total : Nat) (fs : List Obs) : Prop where
  nonempty : fs ≠ []
  size : ∀ f ∈ fs, f.size ≤ x.mtu
  valid : ∀ f ∈ fs, f.valid = true
  flag : ∀ f ∈ fs, f.flags = x.flags ||| flagIsFragment
  ident : ∀ f ∈ fs, f.identOk = true
  total : ∀ f ∈ fs, f.total = total
  part : partitions start (start + x.payload.length) (fs.map fun f => (f.off, f.len)) = true
  first : ∀ f, fs.head? = some f → f.types = x.blocks.map (·.type)
  repl : ∀ f ∈ fs, ∀ b ∈ x.blocks, b.rep = true → b.type ∈ f.types
  copies : ∀ f ∈ fs, f.blocksOk = true ∧ f.types.Nodup ∧ ∀ t ∈ f.types, t ∈ x.blocks.map (·.type)
  slices : ∀ f ∈ fs, f.len = f.data.length ∧ f.data = slice x.payload (f.off - start) f.len

/-! The clauses as executable tests (what the driver evaluates on the implementation's output). -/
def okSize (x : In) (fs : List Obs) : Bool := fs.all (fun f => f.size ≤ x.mtu)
def okValid (fs : List Obs) : Bool := fs.all (fun f => f.valid)
def okFlag (x : In) (fs : List Obs) : Bool := fs.all (fun f => f.flags == (x.flags ||| flagIsFragment))
def okIdent (fs : List Obs) : Bool := fs.all (fun f => f.identOk)
def okTotal (total : Nat) (fs : List Obs) : Bool := fs.all (fun f => f.total == total)
def okPart (x : In) (start : Nat) (fs : List Obs) : Bool :=
  partitions start (start + x.payload.length) (fs.map fun f => (f.off, f.len))
def okFirst (x : In) : List Obs → Bool
  | [] => true
  | f :: _ => f.types == x.blocks.map (·.type)
def okRepl (x : In) (fs : List Obs) : Bool :=
  fs.all (fun f => x.blocks.all (fun b => !b.rep || f.types.contains b.type))
def okCopies (x : In) (fs : List Obs) : Bool :=
  fs.all (fun f => f.blocksOk && decide f.types.Nodup &&
    f.types.all (fun t => (x.blocks.map (·.type)).contains t))
def okSlices (x : In) (start : Nat) (fs : List Obs) : Bool :=
  fs.all (fun f => f.len == f.data.length && f.data == slice x.payload (f.off - start) f.len)

/-- First failing clause (for the `specfail` class); `none` iff `FragmentsOk`
(`Lemmas.fragmentsFail_none_iff`). -/
def fragmentsFail (x : In) (start total : Nat) (fs : List Obs) : Option String :=
  if fs.isEmpty then some "empty-list"
  else if !okSize x fs then some "fragment-larger-than-mtu"
  else if !okValid fs then some "fragment-not-a-valid-bundle"
  else if !okFlag x fs then some "fragment-flag"
  else if !okIdent fs then some "identity-differs"
  else if !okTotal total fs then some "total-length-wrong"
  else if !okPart x start fs then some "offsets-not-a-partition"
  else if !okFirst x fs then some "first-fragment-blocks"
  else if !okRepl x fs then some "replicate-block-missing"
  else if !okCopies x fs then some "block-not-a-copy"
  else if !okSlices x start fs then some "payload-slice-differs"
  else none

/-- The model's fragment as an observation (identity fields and block contents are copied by
construction: `fragmentPrimaryBlock` copies the fields, the loop copies the blocks; validity is what
`fragValid` tests in the loop, given a valid input). -/
def Frag.obs (x : In) (f : Frag) : Obs :=
  { off := f.off, total := f.total, len := f.data.length, size := fragSize x f,
    flags := x.flags ||| flagIsFragment, valid := true, identOk := true, types := f.carried.map (·.type),
    blocksOk := true, data := f.data }

end Dtn7.Frag
