/-
The CBOR-based auxiliary formats of C17:
  pkg/bpv7/time.go                               CreationTimestamp      [time, seq]
  pkg/bpv7/bundle_id.go                          BundleID               eid, ts, (offset, total)   (not an array of its own)
  pkg/bpv7/administrative_record_status_report.go BundleStatusItem, StatusReport
  pkg/bpv7/administrative_record.go              [type code, record]
  pkg/discovery/announcement.go                  [[cla type, eid, port], …]
  pkg/agent/ws_agent_msg{,_impl}.go              [type code, body]

Core-only.
-/
import Dtn7.Model.EidText

namespace Dtn7.WireCbor
open Dtn7.Cbor (Bytes encArray encUInt encText encBytes decArray decUInt decText decBytes maxInt32)
open Dtn7.Wire
open Dtn7.EidText (Eid encEid decEid)

/-! ### Creation timestamp -/

structure Ts where
  time : Nat
  seq  : Nat
deriving Repr, DecidableEq

def encTs (t : Ts) : Bytes := encArray 2 ++ encUInt t.time ++ encUInt t.seq

def decTs (bs : Bytes) : Except Err (Ts × Bytes) :=
  match decArray bs with
  | .error e => .error (.cbor e)
  | .ok (l, r0) =>
  if l ≠ 2 then .error .badLen else
  match decUInt r0 with
  | .error e => .error (.cbor e)
  | .ok (t, r1) =>
  match decUInt r1 with
  | .error e => .error (.cbor e)
  | .ok (s, r2) => .ok (⟨t, s⟩, r2)

def TsCanonical (t : Ts) : Prop := t.time < 2 ^ 64 ∧ t.seq < 2 ^ 64
instance (t : Ts) : Decidable (TsCanonical t) := by unfold TsCanonical; infer_instance

/-! ### Bundle ID (the caller knows from the enclosing array whether it is a fragment's) -/

structure BundleId where
  src    : Eid
  ts     : Ts
  isFrag : Bool
  off    : Nat
  total  : Nat
deriving Repr, DecidableEq

def encBundleId (b : BundleId) : Bytes :=
  encEid b.src ++ encTs b.ts ++ (if b.isFrag then encUInt b.off ++ encUInt b.total else [])

def decBundleId (isFrag : Bool) (bs : Bytes) : Except Err (BundleId × Bytes) :=
  match decEid bs with
  | .error e => .error e
  | .ok (src, r0) =>
  match decTs r0 with
  | .error e => .error e
  | .ok (ts, r1) =>
  if isFrag then
    match decUInt r1 with
    | .error e => .error (.cbor e)
    | .ok (o, r2) =>
    match decUInt r2 with
    | .error e => .error (.cbor e)
    | .ok (t, r3) => .ok (⟨src, ts, true, o, t⟩, r3)
  else .ok (⟨src, ts, false, 0, 0⟩, r1)

def BundleIdCanonical (b : BundleId) : Prop :=
  Dtn7.EidText.CborCanonical b.src ∧ TsCanonical b.ts ∧
  (if b.isFrag then b.off < 2 ^ 64 ∧ b.total < 2 ^ 64 else b.off = 0 ∧ b.total = 0)
instance (b : BundleId) : Decidable (BundleIdCanonical b) := by
  unfold BundleIdCanonical; infer_instance

/-! ### Status report -/

structure StatusItem where
  asserted  : Bool
  time      : Nat
  requested : Bool
deriving Repr, DecidableEq

def encBool (b : Bool) : Bytes := [if b then 0xF5 else 0xF4]

/-- `cboring.ReadBoolean`: one byte, major type 7, additional information 20 / 21. -/
def decBool : Bytes → Except Err (Bool × Bytes)
  | [] => .error .eof
  | b :: rest =>
    if b.toNat / 32 ≠ 7 then .error .badValue
    else if b.toNat % 32 = 20 then .ok (false, rest)
    else if b.toNat % 32 = 21 then .ok (true, rest)
    else .error .badValue

def encItem (i : StatusItem) : Bytes :=
  if i.asserted && i.requested then encArray 2 ++ encBool i.asserted ++ encUInt i.time
  else encArray 1 ++ encBool i.asserted

def decItem (bs : Bytes) : Except Err (StatusItem × Bytes) :=
  match decArray bs with
  | .error e => .error (.cbor e)
  | .ok (l, r0) =>
  if l ≠ 1 ∧ l ≠ 2 then .error .badLen else
  match decBool r0 with
  | .error e => .error e
  | .ok (a, r1) =>
  if l = 2 then
    match decUInt r1 with
    | .error e => .error (.cbor e)
    | .ok (t, r2) => .ok (⟨a, t, true⟩, r2)
  else .ok (⟨a, 0, false⟩, r1)

/-- "time present ⇔ asserted ∧ requested". -/
def ItemCanonical (i : StatusItem) : Prop :=
  i.time < 2 ^ 64 ∧ (i.requested = true → i.asserted = true) ∧ (i.requested = false → i.time = 0)
instance (i : StatusItem) : Decidable (ItemCanonical i) := by unfold ItemCanonical; infer_instance

/-- Read `n` consecutive values. -/
def decN {α} (dec : Bytes → Except Err (α × Bytes)) : Nat → Bytes → Except Err (List α × Bytes)
  | 0, bs => .ok ([], bs)
  | n + 1, bs =>
    match dec bs with
    | .error e => .error e
    | .ok (v, rest) =>
      match decN dec n rest with
      | .error e => .error e
      | .ok (vs, rest') => .ok (v :: vs, rest')

structure StatusReport where
  items  : List StatusItem
  reason : Nat
  ref    : BundleId
deriving Repr, DecidableEq

def encReport (s : StatusReport) : Bytes :=
  encArray (2 + (if s.ref.isFrag then 4 else 2)) ++
  (encArray s.items.length ++ s.items.flatMap encItem) ++ encUInt s.reason ++ encBundleId s.ref

def decReport (bs : Bytes) : Except Err (StatusReport × Bytes) :=
  match decArray bs with
  | .error e => .error (.cbor e)
  | .ok (l, r0) =>
  if l ≠ 4 ∧ l ≠ 6 then .error .badLen else
  match decArray r0 with
  | .error e => .error (.cbor e)
  | .ok (n, r1) =>
  match decN decItem n r1 with
  | .error e => .error e
  | .ok (items, r2) =>
  match decUInt r2 with
  | .error e => .error (.cbor e)
  | .ok (reason, r3) =>
  match decBundleId (l = 6) r3 with
  | .error e => .error e
  | .ok (ref, r4) => .ok (⟨items, reason, ref⟩, r4)

def ReportCanonical (s : StatusReport) : Prop :=
  (∀ i ∈ s.items, ItemCanonical i) ∧ s.items.length < 2 ^ 64 ∧ s.reason < 2 ^ 64 ∧ BundleIdCanonical s.ref
instance (s : StatusReport) : Decidable (ReportCanonical s) := by unfold ReportCanonical; infer_instance

/-! ### Administrative record wrapper (only the status report is registered) -/

def adminStatusReport : Nat := 1

def encAdmin (s : StatusReport) : Bytes := encArray 2 ++ encUInt adminStatusReport ++ encReport s

def decAdmin (bs : Bytes) : Except Err (StatusReport × Bytes) :=
  match decArray bs with
  | .error e => .error (.cbor e)
  | .ok (l, r0) =>
  if l ≠ 2 then .error .badLen else
  match decUInt r0 with
  | .error e => .error (.cbor e)
  | .ok (code, r1) => if code = adminStatusReport then decReport r1 else .error .unknownType

/-! ### Discovery announcements -/

/-- `cla.CLAType.CheckValid`. -/
def claTypes : List Nat := [0, 1, 10, 20]

structure Announcement where
  cla  : Nat
  eid  : Eid
  port : Nat
deriving Repr, DecidableEq

def encAnn (a : Announcement) : Bytes := encArray 3 ++ encUInt a.cla ++ encEid a.eid ++ encUInt a.port

def decAnn (bs : Bytes) : Except Err (Announcement × Bytes) :=
  match decArray bs with
  | .error e => .error (.cbor e)
  | .ok (l, r0) =>
  if l ≠ 3 then .error .badLen else
  match decUInt r0 with
  | .error e => .error (.cbor e)
  | .ok (c, r1) =>
  if !claTypes.contains c then .error .badValue else
  match decEid r1 with
  | .error e => .error e
  | .ok (eid, r2) =>
  match decUInt r2 with
  | .error e => .error (.cbor e)
  | .ok (p, r3) => .ok (⟨c, eid, p⟩, r3)

def AnnCanonical (a : Announcement) : Prop :=
  claTypes.contains a.cla = true ∧ Dtn7.EidText.CborCanonical a.eid ∧ a.port < 2 ^ 64
instance (a : Announcement) : Decidable (AnnCanonical a) := by unfold AnnCanonical; infer_instance

/-- `MarshalAnnouncements` / `UnmarshalAnnouncements` (one UDP packet). -/
def encAnns (as : List Announcement) : Bytes := encArray as.length ++ as.flatMap encAnn

def decAnns (bs : Bytes) : Except Err (List Announcement × Bytes) :=
  match decArray bs with
  | .error e => .error (.cbor e)
  | .ok (n, r0) => decN decAnn n r0

/-! ### WebSocket agent messages (the bundle message's body is the bundle codec of C01, not modelled here) -/

def wamStatus : Nat := 0
def wamRegister : Nat := 1
def wamBundle : Nat := 2
def wamSyscallRequest : Nat := 3
def wamSyscallResponse : Nat := 4

inductive Wam where
  | status (msg : Bytes)
  | register (endpoint : Bytes)
  | syscallRequest (request : Bytes)
  | syscallResponse (request response : Bytes)
deriving Repr, DecidableEq

def encWam : Wam → Bytes
  | .status m => encArray 2 ++ encUInt wamStatus ++ encText m
  | .register e => encArray 2 ++ encUInt wamRegister ++ encText e
  | .syscallRequest r => encArray 2 ++ encUInt wamSyscallRequest ++ encText r
  | .syscallResponse q r => encArray 2 ++ encUInt wamSyscallResponse ++ (encArray 2 ++ encText q ++ encBytes r)

def decWam (bs : Bytes) : Except Err (Wam × Bytes) :=
  match decArray bs with
  | .error e => .error (.cbor e)
  | .ok (l, r0) =>
  if l ≠ 2 then .error .badLen else
  match decUInt r0 with
  | .error e => .error (.cbor e)
  | .ok (code, r1) =>
  if code = wamStatus then
    match decText r1 with
    | .error e => .error (.cbor e)
    | .ok (m, r2) => .ok (.status m, r2)
  else if code = wamRegister then
    match decText r1 with
    | .error e => .error (.cbor e)
    | .ok (m, r2) => .ok (.register m, r2)
  else if code = wamSyscallRequest then
    match decText r1 with
    | .error e => .error (.cbor e)
    | .ok (m, r2) => .ok (.syscallRequest m, r2)
  else if code = wamSyscallResponse then
    match decArray r1 with
    | .error e => .error (.cbor e)
    | .ok (l2, r2) =>
    if l2 ≠ 2 then .error .badLen else
    match decText r2 with
    | .error e => .error (.cbor e)
    | .ok (q, r3) =>
    match decBytes r3 with
    | .error e => .error (.cbor e)
    | .ok (r, r4) => .ok (.syscallResponse q r, r4)
  else .error .unknownType   -- includes wamBundle: outside this model

def WamCanonical : Wam → Prop
  | .status m => m.length ≤ maxInt32
  | .register e => e.length ≤ maxInt32
  | .syscallRequest r => r.length ≤ maxInt32
  | .syscallResponse q r => q.length ≤ maxInt32 ∧ r.length ≤ maxInt32
instance (w : Wam) : Decidable (WamCanonical w) := by cases w <;> unfold WamCanonical <;> infer_instance

end Dtn7.WireCbor
