/-
Endpoint IDs: structure, URI text form and CBOR form, as implemented in
  pkg/bpv7/endpoint.go      (NewEndpointID: `^([[:alnum:]]+):.+$`, scheme dispatch; CBOR wrapper)
  pkg/bpv7/endpoint_dtn.go  (`^//([\w-._]+)/(.*)$`, "none")
  pkg/bpv7/endpoint_ipn.go  (`^ipn:(\d+)\.(\d+)$`, strconv.ParseUint, node/service ≥ 1)

Go strings are byte strings; Go's `regexp` (RE2) decodes them as UTF-8 where an invalid byte is one
"character" U+FFFD. All literal characters and classes of the three expressions are ASCII and
`.` excludes only `\n`, and no byte of a multi-byte UTF-8 sequence is ASCII, so the expressions are
equivalent to the byte-level recognisers below (this equivalence is *validated* by the
correspondence run — all 256 byte values in every position class — not proved).

Core-only.
-/
import Dtn7.Model.Wire

namespace Dtn7.EidText
open Dtn7.Cbor (Bytes)
open Dtn7.Wire

inductive Eid where
  | none
  | dtn (node demux : Bytes)
  | ipn (node service : Nat)
deriving Repr, DecidableEq

/-! ### Character classes (ASCII only, as in RE2) -/

def isDigit (b : UInt8) : Bool := 48 ≤ b.toNat && b.toNat ≤ 57
def isAlpha (b : UInt8) : Bool := (65 ≤ b.toNat && b.toNat ≤ 90) || (97 ≤ b.toNat && b.toNat ≤ 122)
/-- `[[:alnum:]]` -/
def isAlnum (b : UInt8) : Bool := isDigit b || isAlpha b
/-- `[\w-._]` : word characters, '-', '.', '_' -/
def isNodeChar (b : UInt8) : Bool := isAlnum b || b.toNat = 95 || b.toNat = 45 || b.toNat = 46
/-- `.` : anything but a line feed -/
def isDot (b : UInt8) : Bool := b.toNat ≠ 10

def cColon : UInt8 := 58
def cSlash : UInt8 := 47
def cPoint : UInt8 := 46

def sDtn : Bytes := [100, 116, 110]          -- "dtn"
def sIpn : Bytes := [105, 112, 110]          -- "ipn"
def sNone : Bytes := [110, 111, 110, 101]    -- "none"

/-! ### Decimal numbers (`%d` and `strconv.ParseUint(_, 10, 64)`) -/

/-- Big-endian decimal digits of `n`; `f` is fuel (`n` itself always suffices). -/
def toDigitsF : Nat → Nat → List Nat
  | 0, n => [n % 10]
  | f + 1, n => if n < 10 then [n] else toDigitsF f (n / 10) ++ [n % 10]

def toDigits (n : Nat) : List Nat := toDigitsF n n

def printDec (n : Nat) : Bytes := (toDigits n).map (fun d => UInt8.ofNat (48 + d))

def valBE (ds : List Nat) : Nat := ds.foldl (fun a d => 10 * a + d) 0

/-- `(\d+)` then `ParseUint`: non-empty, digits only; `strictZeros` is the repaired parser that
refuses a leading zero on a number of more than one digit. Range (`< 2^64`) is checked by the caller. -/
def parseDec (strictZeros : Bool) (bs : Bytes) : Option Nat :=
  if bs.isEmpty || !bs.all isDigit then none
  else if strictZeros && bs.length > 1 && bs.head? == some 48 then none
  else some (valBE (bs.map (fun b => b.toNat - 48)))

/-! ### Text form -/

def printUri : Eid → Bytes
  | .none => sDtn ++ [cColon] ++ sNone
  | .dtn node demux => sDtn ++ [cColon, cSlash, cSlash] ++ node ++ [cSlash] ++ demux
  | .ipn n s => sIpn ++ [cColon] ++ printDec n ++ [cPoint] ++ printDec s

/-- `CheckValid` of the two endpoint types, on the structure. -/
def Valid : Eid → Prop
  | .none => True
  | .dtn node demux => node ≠ [] ∧ node.all isNodeChar = true ∧ demux.all isDot = true
  | .ipn n s => 1 ≤ n ∧ n < 2 ^ 64 ∧ 1 ≤ s ∧ s < 2 ^ 64

instance (e : Eid) : Decidable (Valid e) := by cases e <;> unfold Valid <;> infer_instance

def validB (e : Eid) : Bool := decide (Valid e)

/-- `parseDtnSsp` on something that is not "none": `^//([\w-._]+)/(.*)$`. -/
def parseDtnSsp (ssp : Bytes) : Except Err (Bytes × Bytes) :=
  match ssp with
  | 47 :: 47 :: r =>
    match r.dropWhile isNodeChar with
    | 47 :: demux =>
      if (r.takeWhile isNodeChar).isEmpty || !demux.all isDot then .error .badEid
      else .ok (r.takeWhile isNodeChar, demux)
    | _ => .error .badEid
  | _ => .error .badEid

/-- `EndpointType.CheckValid` as coded (used by `MarshalCbor` and the constructors). For dtn it matches
the PRINTED form against the grammar, which is weaker than `Valid` on the structure: a '/' inside the
node name just moves the node/demux boundary. Both agree on everything a parser or decoder can produce. -/
def checkValid : Eid → Bool
  | .none => true
  | .dtn node demux =>
    match parseDtnSsp ([cSlash, cSlash] ++ node ++ [cSlash] ++ demux) with
    | .ok _ => true
    | .error _ => false
  | .ipn n s => decide (1 ≤ n) && decide (1 ≤ s)

/-- `NewIpnEndpoint` on the part after "ipn:". -/
def parseIpnSsp (strictZeros : Bool) (ssp : Bytes) : Except Err Eid :=
  match ssp.dropWhile isDigit with
  | 46 :: r =>
    match parseDec strictZeros (ssp.takeWhile isDigit), parseDec strictZeros r with
    | some n, some s =>
      if n < 2 ^ 64 ∧ s < 2 ^ 64 ∧ 1 ≤ n ∧ 1 ≤ s then .ok (.ipn n s) else .error .badEid
    | _, _ => .error .badEid
  | _ => .error .badEid

/-- `NewEndpointID`. -/
def parseUri (strictZeros : Bool) (s : Bytes) : Except Err Eid :=
  match s.dropWhile isAlnum with
  | 58 :: ssp =>
    if (s.takeWhile isAlnum).isEmpty || ssp.isEmpty || !ssp.all isDot then .error .badEid
    else if s.takeWhile isAlnum = sDtn then
      if ssp = sNone then .ok .none
      else match parseDtnSsp ssp with
        | .ok (node, demux) => .ok (.dtn node demux)
        | .error e => .error e
    else if s.takeWhile isAlnum = sIpn then parseIpnSsp strictZeros ssp
    else .error .badEid
  | _ => .error .badEid

/-! ### CBOR form -/

open Dtn7.Cbor in
def encEid : Eid → Bytes
  | .none => encArray 2 ++ encUInt 1 ++ encUInt 0
  | .dtn node demux => encArray 2 ++ encUInt 1 ++ encText ([cSlash, cSlash] ++ node ++ [cSlash] ++ demux)
  | .ipn n s => encArray 2 ++ encUInt 2 ++ (encArray 2 ++ encUInt n ++ encUInt s)

/-- Values whose CBOR form round-trips: valid, and the SSP fits `ReadRawBytes`' limit. -/
def CborCanonical (e : Eid) : Prop :=
  Valid e ∧ match e with
    | .dtn node demux => node.length + demux.length + 3 ≤ Dtn7.Cbor.maxInt32
    | _ => True

instance (e : Eid) : Decidable (CborCanonical e) := by
  unfold CborCanonical; cases e <;> infer_instance

open Dtn7.Cbor in
/-- `EndpointID.UnmarshalCbor` → `DtnEndpoint.UnmarshalCbor` / `IpnEndpoint.UnmarshalCbor`.
Quirks mirrored: any unsigned integer in the dtn SSP position means `dtn:none`; the ipn numbers are
not range-checked here. -/
def decEid (bs : Bytes) : Except Wire.Err (Eid × Bytes) :=
  match decArray bs with
  | .error e => .error (.cbor e)
  | .ok (l, r0) =>
  if l ≠ 2 then .error .badLen else
  match decUInt r0 with
  | .error e => .error (.cbor e)
  | .ok (scheme, r1) =>
  if scheme = 1 then
    match decHead r1 with
    | .error e => .error (.cbor e)
    | .ok (maj, n, r2) =>
      if maj = majUInt then .ok (.none, r2)
      else if maj = majText then
        match readRaw n r2 with
        | .error e => .error (.cbor e)
        | .ok (ssp, r3) =>
          if ssp = sNone then .error .badEid
          else match parseDtnSsp ssp with
            | .ok (node, demux) => .ok (.dtn node demux, r3)
            | .error e => .error e
      else .error .badEid
  else if scheme = 2 then
    match decArray r1 with
    | .error e => .error (.cbor e)
    | .ok (l2, r2) =>
    if l2 ≠ 2 then .error .badLen else
    match decUInt r2 with
    | .error e => .error (.cbor e)
    | .ok (n, r3) =>
    match decUInt r3 with
    | .error e => .error (.cbor e)
    | .ok (s, r4) => .ok (.ipn n s, r4)
  else .error .badEid

end Dtn7.EidText
