/-
Model of bundle reassembly over intervals
  pkg/bpv7/fragmentation.go   prepareReassembly, IsBundleReassemblable, mergeFragmentPayload,
                              ReassembleFragments
  pkg/storage/bundle_item.go  BundleItem.IsComplete / Load (call the two functions above on the parts)

A fragment is its fragment flag, offset, total data length, payload bytes and the list of extension
blocks it carries (identified by their type codes). Core-only.
-/
namespace Dtn7.Frag

/-- A fragment as seen by reassembly. -/
structure RFrag where
  isFrag : Bool
  off : Nat
  total : Nat
  data : List UInt8
  blocks : List Nat
deriving Repr, DecidableEq

def RFrag.stop (f : RFrag) : Nat := f.off + f.data.length

/-! ### Sorting: `sort.Slice(bs, off_i < off_j)`

Go's `sort.Slice` is not stable. The model sorts with a (stable) insertion sort; the theorems are
proved for *every* arrangement of the input that is sorted by offset (`SortedOff`), so they cover any
tie order an unstable sort may produce. -/

def insertOff (f : RFrag) : List RFrag → List RFrag
  | [] => [f]
  | g :: gs => if f.off < g.off then f :: g :: gs else g :: insertOff f gs

def sortOff : List RFrag → List RFrag
  | [] => []
  | f :: fs => insertOff f (sortOff fs)

/-- Sorted by offset (ascending, ties in any order). -/
def SortedOff : List RFrag → Prop
  | [] => True
  | f :: fs => (∀ g ∈ fs, f.off ≤ g.off) ∧ SortedOff fs

inductive PErr where
  | empty          -- "slice of fragments is empty"
  | notFragment    -- "bundle is not a fragment"
  | gap            -- "next fragment starts at offset …, gap from … to …"
  | totalMismatch  -- "last index is … and does not match total length of …"
deriving Repr, DecidableEq

/-- The sweep of `prepareReassembly` over the sorted slice with the running end index `last`.
`maxEnd = true` is the code after the D3 repair (`last` only ever grows); `false` is the code before it
(`last` overwritten by the end of the current fragment). -/
def sweep (maxEnd : Bool) : Nat → List RFrag → Except PErr Nat
  | last, [] => .ok last
  | last, f :: fs =>
    if !f.isFrag then .error .notFragment
    else if f.off > last then .error .gap
    else sweep maxEnd (if maxEnd then max last f.stop else f.stop) fs

/-- `prepareReassembly` on an already sorted slice. -/
def checkSorted (maxEnd : Bool) (s : List RFrag) : Except PErr Unit :=
  match s with
  | [] => .error .empty
  | f :: _ =>
    match sweep maxEnd 0 s with
    | .error e => .error e
    | .ok last => if f.total != last then .error .totalMismatch else .ok ()

def prepareReassembly (maxEnd : Bool) (bs : List RFrag) : Except PErr Unit :=
  checkSorted maxEnd (sortOff bs)

def isReassemblable (maxEnd : Bool) (bs : List RFrag) : Bool :=
  match prepareReassembly maxEnd bs with
  | .ok _ => true
  | .error _ => false

/-- Go's `data[k:]`: a checked operation, `none` is the run-time panic "slice bounds out of range". -/
def sliceFrom (d : List UInt8) (k : Nat) : Option (List UInt8) :=
  if k ≤ d.length then some (d.drop k) else none

/-- `mergeFragmentPayload` over the sorted slice: `acc` is the payload rebuilt so far, `last` the
running end index. `none` = panic. With `maxEnd` a fragment that ends at or before `last` contributes
nothing and is skipped; without it every fragment is sliced at `last - off` (negative ⇒ panic too). -/
def merge (maxEnd : Bool) : Nat → List UInt8 → List RFrag → Option (List UInt8)
  | _, acc, [] => some acc
  | last, acc, f :: fs =>
    if maxEnd && f.stop ≤ last then merge maxEnd last acc fs
    else if last < f.off then none
    else
      match sliceFrom f.data (last - f.off) with
      | none => none
      | some d => merge maxEnd f.stop (acc ++ d) fs

inductive RRes where
  | error (e : PErr)
  | panic
  | ok (payload : List UInt8) (blocks : List Nat)
deriving Repr, DecidableEq

/-- `ReassembleFragments` on an already sorted slice: payload and the extension blocks of `bs[0]`. -/
def reassembleSorted (maxEnd : Bool) (s : List RFrag) : RRes :=
  match checkSorted maxEnd s with
  | .error e => .error e
  | .ok _ =>
    match merge maxEnd 0 [] s with
    | none => .panic
    | some p => .ok p (match s with | f :: _ => f.blocks | [] => [])

def reassemble (maxEnd : Bool) (bs : List RFrag) : RRes := reassembleSorted maxEnd (sortOff bs)

/-! ### The store: `storage.Store.Push` for fragments, `BundleItem.IsComplete` / `Load`

The parts of a fragmented item are keyed by (offset, total). `keepLonger = true` is the code after the
repair: a fragment whose key is known replaces the stored one if its payload is longer. `false` is the
code before it: the fragment that arrived first stays. -/

def storePush (keepLonger : Bool) : List RFrag → RFrag → List RFrag
  | [], f => [f]
  | g :: gs, f =>
    if g.off == f.off && g.total == f.total then
      (if keepLonger && g.data.length < f.data.length then f :: gs else g :: gs)
    else g :: storePush keepLonger gs f

/-- The parts held after pushing the fragments in the given order. -/
def storeParts (keepLonger : Bool) (fs : List RFrag) : List RFrag := fs.foldl (storePush keepLonger) []

/-- `BundleItem.IsComplete` of a fragmented item. -/
def storeIsComplete (keepLonger maxEnd : Bool) (fs : List RFrag) : Bool :=
  isReassemblable maxEnd (storeParts keepLonger fs)

/-- `BundleItem.Load`. -/
def storeLoad (keepLonger maxEnd : Bool) (fs : List RFrag) : RRes :=
  reassemble maxEnd (storeParts keepLonger fs)

/-! ### Spec -/

/-- The intervals `[off, off+len)` of the fragments together are exactly `[0, total)`. -/
def Covers (fs : List RFrag) (total : Nat) : Prop :=
  (∀ f ∈ fs, f.stop ≤ total) ∧ ∀ k, k < total → ∃ f ∈ fs, f.off ≤ k ∧ k < f.stop

instance (fs : List RFrag) (total : Nat) : Decidable (Covers fs total) := by
  unfold Covers; infer_instance

/-- `f` is a fragment of a bundle with payload `p`: flag set, total = `|p|`, bytes = the slice of `p`
at its offset. (Identity fields are not modelled here: the harness groups by bundle.) -/
def FragOf (p : List UInt8) (f : RFrag) : Prop :=
  f.isFrag = true ∧ f.total = p.length ∧ f.stop ≤ p.length ∧ f.data = (p.drop f.off).take f.data.length

instance (p : List UInt8) (f : RFrag) : Decidable (FragOf p f) := by
  unfold FragOf; infer_instance

end Dtn7.Frag
