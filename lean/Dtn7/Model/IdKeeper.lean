/-
Model of the origination path of dtn7 as far as bundle IDs are concerned (C14)
  pkg/routing/id_keeper.go        (IdKeeper.update / clean)
  pkg/routing/processing.go       (Core.SendBundle / transmit: order of "assign number" and "create descriptor")
  pkg/routing/bundle_descriptor.go (NewBundleDescriptorFromBundle / Sync: store key = scrubbed id, Push if unknown)
  pkg/storage/store.go            (Push ignores a known key)
  pkg/routing/core.go             (checkPendingBundles: retransmission of the STORED bytes)

Core-only; used by the driver `drv_c14` and by `Dtn7.Props.C14`.

Abstractions: an endpoint is a `String`; a serialised bundle is represented by the two things C14
speaks about - its id and the identity of its payload (`tag`); parse ∘ serialise = id is C01's
business. Sequence numbers are `Nat` (the code's `uint64` counter would wrap after 2^64 bundles of
one source and millisecond). `time.Now()` is a parameter of every submission, goroutine
interleavings are an explicit schedule over named micro-steps.
-/
namespace Dtn7.IdKeeper

/-- `idTuple`: source node and DTN time (ms) of the creation timestamp. -/
structure Key where
  source : String
  time : Nat
deriving DecidableEq, Repr, Inhabited

structure BundleId where
  source : String
  time : Nat
  seq : Nat
deriving DecidableEq, Repr, Inhabited

def BundleId.key (i : BundleId) : Key := ⟨i.source, i.time⟩

/-- A bundle as far as C14 is concerned. -/
structure Bundle where
  id : BundleId
  tag : Nat
deriving DecidableEq, Repr, Inhabited

/-! ### IdKeeper -/

/-- `IdKeeper.data : map[idTuple]uint64`. -/
abbrev Keeper := Key → Option Nat

def Keeper.empty : Keeper := fun _ => none

def Keeper.set (m : Keeper) (k : Key) (v : Nat) : Keeper := fun k' => if k' = k then some v else m k'

/-- `if state, ok := data[tpl]; ok { data[tpl] = state + 1 } else { data[tpl] = 0 }`: the value
written for a value read. -/
def nextOf : Option Nat → Nat
  | none => 0
  | some c => c + 1

/-- `bpv7.DtnTimeNow() - window` in `uint64` arithmetic. -/
def threshold (w now : Nat) : Nat := (now + 2 ^ 64 - w) % 2 ^ 64

/-- `t < threshold && tpl.time != bpv7.DtnTimeEpoch` for the time `t` the code compares with the threshold. -/
def droppedAt (w now t : Nat) (k : Key) : Bool := decide (t < threshold w now) && k.time != 0

/-- The comparison of the ORIGINAL `clean`: the tuple's own creation time (`tpl.time < threshold`). -/
def dropped (w now : Nat) (k : Key) : Bool := droppedAt w now k.time k

/-- The original `IdKeeper.clean` at clock reading `now` with the retention constant `w` (unit of DtnTime: ms). -/
def Keeper.clean (w : Nat) (m : Keeper) (now : Nat) : Keeper :=
  fun k => if dropped w now k then none else m k

/-- `IdKeeper.used : map[idTuple]bpv7.DtnTime`: the clock reading of a tuple's last `update`
(only meaningful for tuples with an entry in `data`). -/
abbrev Used := Key → Nat

def Used.set (u : Used) (k : Key) (t : Nat) : Used := fun k' => if k' = k then t else u k'

/-- `IdKeeper.clean` as it is now: an entry goes when it was not USED for `w` (and is not the epoch time);
both maps lose the entry (the `used` entry of a dropped tuple is never read again: the next `update` of
the tuple writes it first). -/
def Keeper.cleanU (w : Nat) (m : Keeper) (u : Used) (now : Nat) : Keeper :=
  fun k => if droppedAt w now (u k) k then none else m k

/-- The locked part of `IdKeeper.update` as one step: new map and the number written into the bundle
(`bndl.PrimaryBlock.CreationTimestamp[1] = idk.data[tpl]`). -/
def Keeper.update (m : Keeper) (k : Key) : Keeper × Nat :=
  let m' := m.set k (nextOf (m k))
  (m', (m' k).getD 0)

/-- A script for a bare IdKeeper. `upd k now`: `update` of a bundle with tuple `k`; when `auto`
(`autoClean`) it is followed by `clean` at clock reading `now`. -/
inductive Op where
  | upd (k : Key) (now : Nat)
  | clean (now : Nat)
deriving Repr

def Op.now : Op → Nat
  | .upd _ n => n
  | .clean n => n

def Op.cleans (auto : Bool) : Op → Bool
  | .upd _ _ => auto
  | .clean _ => true

/-- Run a script; result: final map and the numbers handed out, in order, with their tuples. `update` notes
the clock reading as the tuple's last use. -/
def runOps (w : Nat) (auto : Bool) : Keeper → Used → List Op → Keeper × List (Key × Nat)
  | m, _, [] => (m, [])
  | m, u, .upd k now :: ops =>
    let (m', s) := m.update k
    let u' := u.set k now
    let m'' := if auto then m'.cleanU w u' now else m'
    let (mf, l) := runOps w auto m'' u' ops
    (mf, (k, s) :: l)
  | m, u, .clean now :: ops => runOps w auto (m.cleanU w u now) u ops

/-- The numbers handed to tuple `κ` by a script, in order. -/
def seqsOf (w : Nat) (auto : Bool) (κ : Key) (m : Keeper) (u : Used) (ops : List Op) : List Nat :=
  ((runOps w auto m u ops).2.filter (fun e => e.1 = κ)).map (·.2)

/-! ### The node: submissions as threads of micro-steps -/

/-- Parameters of the model. `Cfg.code` is the code as it is (after the `fix:` commits);
the other values describe the tree before them and serve the witness theorems. -/
structure Cfg where
  /-- `SendBundle` calls `idKeeper.update` before `NewBundleDescriptorFromBundle`. -/
  updateFirst : Bool
  /-- `update` holds the mutex from before the first to after the last access of `data`. -/
  locked : Bool
  /-- retention constant of `clean` in ms -/
  window : Nat
  /-- `SendBundle` numbers through `IdKeeper.updateUnless(bndl, "is this ID in the store")`: inside the
      critical section the counter is incremented while the bundle's ID is taken (/repo 43cf7bc). -/
  skipKnown : Bool
  /-- `clean` judges an entry by the time of its last use (`IdKeeper.used`), not by the tuple's creation time. -/
  byUse : Bool
deriving Repr, DecidableEq

def Cfg.code : Cfg := ⟨true, true, 86400000, true, true⟩
/-- Before the repair of `clean`: an entry goes when the tuple's CREATION TIME is older than the window. -/
def Cfg.byCreationTime : Cfg := ⟨true, true, 86400000, true, false⟩
/-- Before /repo 43cf7bc: the number of the counter is used as it is. -/
def Cfg.noSkip : Cfg := ⟨true, true, 86400000, false, false⟩
/-- Before the D17 repair: descriptor first. -/
def Cfg.descriptorFirst : Cfg := ⟨false, true, 86400000, false, false⟩
/-- Before the D18 repair: `60*60*24` compared with milliseconds. -/
def Cfg.window86s : Cfg := ⟨true, true, 86400, false, false⟩
/-- A hypothetical `update` that does not take the mutex. -/
def Cfg.unlocked : Cfg := ⟨true, false, 86400000, false, false⟩

/-- One submission (a call of `Core.SendBundle`). -/
structure Sub where
  tag : Nat
  key : Key
  /-- sequence number the bundle carries when it is handed in (builders write 0) -/
  seq0 : Nat
  /-- clock reading of this submission's `clean` -/
  now : Nat
  /-- adapters the forwarder chooses when this submission reaches `forward` -/
  peers : List Nat
deriving Repr, Inhabited

inductive Instr where
  | lock | read | write | stamp | unlock | clean | push | send
deriving DecidableEq, Repr

/-- The program of one submission. -/
def prog (c : Cfg) : List Instr :=
  let upd : List Instr :=
    if c.locked then [.lock, .read, .write, .stamp, .unlock, .clean] else [.read, .write, .stamp, .clean]
  if c.updateFirst then upd ++ [.push, .send] else .push :: (upd ++ [.send])

structure Th where
  pc : Nat
  /-- `state, ok := idk.data[tpl]` -/
  reg : Option Nat
  /-- sequence number of the in-memory bundle -/
  seq : Nat
deriving Repr

structure Node where
  keeper : Keeper
  /-- `IdKeeper.used` -/
  used : Used
  /-- `IdKeeper.mutex` -/
  holder : Option Nat
  /-- key ↦ stored bytes; newest first -/
  store : List (BundleId × Bundle)
  /-- (adapter, bytes handed to it); newest first -/
  sent : List (Nat × Bundle)
  th : Nat → Th

def Node.init (subs : Nat → Sub) (k0 : Keeper) (u0 : Used := fun _ => 0) : Node :=
  ⟨k0, u0, none, [], [], fun i => ⟨0, none, (subs i).seq0⟩⟩

def Node.setTh (n : Node) (i : Nat) (t : Th) : Node :=
  { n with th := fun j => if j = i then t else n.th j }

/-- Advance thread `i` by one instruction without other effect. -/
def Node.bump (n : Node) (i : Nat) : Node := n.setTh i { n.th i with pc := (n.th i).pc + 1 }

def idOf (subs : Nat → Sub) (n : Node) (i : Nat) : BundleId :=
  ⟨(subs i).key.source, (subs i).key.time, (n.th i).seq⟩

/-- The in-memory bundle of submission `i`. -/
def bundleOf (subs : Nat → Sub) (n : Node) (i : Nat) : Bundle := ⟨idOf subs n i, (subs i).tag⟩

def knows (store : List (BundleId × Bundle)) (id : BundleId) : Bool := store.any (fun e => e.1 = id)

/-- The loop of `IdKeeper.updateUnless`: the first number from `v` on whose bundle ID is not in the store
(`fuel` rounds at most; `store.length + 1` rounds always reach one, `Dtn7.IdKeeper.Lemmas.firstFree_free`). -/
def firstFree (store : List (BundleId × Bundle)) (k : Key) : Nat → Nat → Nat
  | 0, v => v
  | fuel + 1, v => if knows store ⟨k.source, k.time, v⟩ then firstFree store k fuel (v + 1) else v

/-- The number written into the bundle: `bndl…[1] = idk.data[tpl]`, and with `skipKnown` the loop
`for taken(bndl.ID()) { idk.data[tpl]++; bndl…[1] = idk.data[tpl] }` in the same critical section. It is one
step of the model: no other `update`/`clean` can interleave (mutex); a `push` of another submission in
between has the same effect as one before or after the loop, because the loop passes each number once,
upwards, and this store never forgets a key. -/
def stampSeq (c : Cfg) (n : Node) (k : Key) : Nat :=
  if c.skipKnown then firstFree n.store k (n.store.length + 1) ((n.keeper k).getD 0) else (n.keeper k).getD 0

def exec (c : Cfg) (subs : Nat → Sub) (n : Node) (i : Nat) : Instr → Node
  | .lock => if n.holder = none then { n.bump i with holder := some i } else n
  | .read => n.setTh i { n.th i with pc := (n.th i).pc + 1, reg := n.keeper (subs i).key }
  | .write =>
    -- `idk.data[tpl] = …` and `idk.used[tpl] = bpv7.DtnTimeNow()`, both inside the critical section
    { n.bump i with keeper := n.keeper.set (subs i).key (nextOf (n.th i).reg),
                    used := n.used.set (subs i).key (subs i).now }
  | .stamp =>
    { n.setTh i { n.th i with pc := (n.th i).pc + 1, seq := stampSeq c n (subs i).key } with
      keeper := if c.skipKnown then n.keeper.set (subs i).key (stampSeq c n (subs i).key) else n.keeper }
  | .unlock => { n.bump i with holder := none }
  | .clean =>
    -- `clean` takes the mutex for its single access: it cannot run inside another thread's critical section
    if c.locked && n.holder.isSome then n
    else { n.bump i with keeper := if c.byUse then n.keeper.cleanU c.window n.used (subs i).now
                                   else n.keeper.clean c.window (subs i).now }
  | .push =>
    -- NewBundleDescriptorFromBundle: Id := b.ID(); Sync: `!KnowsBundle(Id)` ⇒ Push, and Push ignores a known key
    let b := bundleOf subs n i
    if knows n.store b.id then n.bump i else { n.bump i with store := (b.id, b) :: n.store }
  | .send => { n.bump i with sent := (subs i).peers.map (fun p => (p, bundleOf subs n i)) ++ n.sent }

/-- A scheduler decision: thread `i` performs its next instruction (nothing happens if it is finished
or blocked), or the node retransmits everything it has stored to adapter `p`
(`checkPendingBundles`: the bundle is loaded from the store). -/
inductive Act where
  | step (i : Nat)
  | retry (p : Nat)
deriving Repr

def step (c : Cfg) (subs : Nat → Sub) (n : Node) : Act → Node
  | .step i =>
    match (prog c)[(n.th i).pc]? with
    | some ins => exec c subs n i ins
    | none => n
  | .retry p => { n with sent := n.store.map (fun e => (p, e.2)) ++ n.sent }

def run (c : Cfg) (subs : Nat → Sub) (n : Node) (σ : List Act) : Node := σ.foldl (step c subs) n

/-- Thread `i` has its final sequence number. -/
def stampedPc (c : Cfg) : Nat := (prog c).idxOf .stamp + 1

/-- The schedule that runs the submissions `0 … k-1` one after the other, each to completion. -/
def seqSchedule (c : Cfg) (k : Nat) : List Act :=
  (List.range k).flatMap (fun i => List.replicate (prog c).length (Act.step i))

/-! ### Observations and Spec (independent of the model; also evaluated on the implementation's outputs) -/

structure Obs where
  /-- store key, id parsed from the stored bytes, payload tag -/
  stored : List (BundleId × BundleId × Nat)
  /-- adapter, id parsed from the bytes handed to it, payload tag -/
  sent : List (Nat × BundleId × Nat)
deriving Repr

def obsOf (n : Node) : Obs :=
  ⟨n.store.map (fun e => (e.1, e.2.id, e.2.tag)), n.sent.map (fun e => (e.1, e.2.id, e.2.tag))⟩

/-- Different bundles leave the node under different ids. -/
def SentIdsDistinct (o : Obs) : Prop :=
  ∀ a ∈ o.sent, ∀ b ∈ o.sent, a.2.2 ≠ b.2.2 → a.2.1 ≠ b.2.1

/-- Different bundles are filed under different keys (a key occurs once, and never for two payloads). -/
def StoreKeysDistinct (o : Obs) : Prop :=
  (o.stored.map (·.1)).Nodup ∧ ∀ a ∈ o.stored, ∀ b ∈ o.stored, a.2.2 ≠ b.2.2 → a.1 ≠ b.1

/-- Each of the bundles `tags` is filed, once. -/
def FiledOnce (tags : List Nat) (o : Obs) : Prop :=
  ∀ t ∈ tags, ∃ e ∈ o.stored, e.2.2 = t ∧ ∀ e' ∈ o.stored, e'.2.2 = t → e' = e

/-- The number under which a bundle is stored is the one in the stored bytes and the one in every
transmitted copy. -/
def StoredIsSent (o : Obs) : Prop :=
  (∀ e ∈ o.stored, e.1 = e.2.1) ∧
  (∀ e ∈ o.stored, ∀ s ∈ o.sent, e.2.2 = s.2.2 → s.2.1 = e.1) ∧
  (∀ a ∈ o.sent, ∀ b ∈ o.sent, a.2.2 = b.2.2 → a.2.1 = b.2.1)

instance (o : Obs) : Decidable (SentIdsDistinct o) := by unfold SentIdsDistinct; infer_instance
instance (o : Obs) : Decidable (StoreKeysDistinct o) := by unfold StoreKeysDistinct; infer_instance
instance (t : List Nat) (o : Obs) : Decidable (FiledOnce t o) := by unfold FiledOnce; infer_instance
instance (o : Obs) : Decidable (StoredIsSent o) := by unfold StoredIsSent; infer_instance

end Dtn7.IdKeeper
