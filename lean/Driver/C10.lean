import Driver.Common
import Dtn7.Model.Reassemble

/-!
Driver for C10. Input lines (blank separated):

  reasm <payload> <types> <frags> <able> <res>
     implementation: bpv7.IsBundleReassemblable and bpv7.ReassembleFragments on the fragments in the
     given order (each on a fresh copy of the slice; `recover()` around both)
  store <payload> <types> <frags> <able> <res>
     implementation: the fragments are pushed into a real storage.Store in the given order, then
     BundleItem.IsComplete / BundleItem.Load of the stored item

  payload  hex of the original bundle's payload
  types    "-" or '.' list of the type codes of the original's extension blocks (bundle order)
  frags    "-" or ';' list  <lvl>:<isfrag>:<off>:<total>:<datahex>:<types>
           lvl = 1 cut by Bundle.Fragment from the original, 2 cut by Bundle.Fragment from a first-level
           fragment, s built by hand
  able     yes | no | panic
  res      err | panic | ok:<payloadhex>:<identical>:<types>
           identical = 1 iff the result serialises byte-identically to the original bundle
-/
open Dtn7.Frag Driver

def parseTypes (s : String) : Option (List Nat) :=
  if s == "-" then some [] else (s.splitOn ".").mapM (·.toNat?)

def parseRFrag (s : String) : Option (String × RFrag) :=
  match s.splitOn ":" with
  | [lvl, isf, off, tot, hx, ts] =>
    match isf.toNat?, off.toNat?, tot.toNat?, parseHex hx, parseTypes ts with
    | some isf, some off, some tot, some d, some ts => some (lvl, ⟨isf == 1, off, tot, d, ts⟩)
    | _, _, _, _, _ => none
  | _ => none

def parseRFrags (s : String) : Option (List (String × RFrag)) :=
  if s == "-" then some [] else (s.splitOn ";").mapM parseRFrag

def maxEnd : Bool := true

/-- Some fragment's interval lies inside another's (by position in the list, so duplicates count). -/
def hasContained (fs : List RFrag) : Bool :=
  let ifs := fs.zipIdx
  ifs.any fun (f, i) => ifs.any fun (g, j) => i != j && g.off ≤ f.off && f.stop ≤ g.stop

def hasOverlap (fs : List RFrag) : Bool :=
  let ifs := fs.zipIdx
  ifs.any fun (f, i) => ifs.any fun (g, j) => i != j && g.off < f.stop && f.off < g.stop

def shape (fs : List RFrag) : String :=
  if hasContained fs then "contained-fragment" else if hasOverlap fs then "overlapping-fragments" else "disjoint-fragments"

def showR (fs : List RFrag) : String :=
  " ".intercalate (fs.map fun f => s!"[{f.off},{f.stop})")

def keepLonger : Bool := true

def judge (viaStore : Bool) (p : List UInt8) (types : List Nat) (lfs : List (String × RFrag)) (able res : String) : String :=
  let fs := lfs.map (·.2)
  let total := p.length
  let via := if viaStore then "store-" else ""
  let ctx := s!"total={total} frags={showR fs} able={able} res={res.take 40}"
  -- level "x": pieces of the payload whose announced total length is smaller than where they end — not fragments of
  -- any bundle; a set with one of them is "something else" and has to be refused
  if lfs.any (fun (l, _) => l == "x") then
    if able == "panic" || res == "panic" then s!"specfail {via}panic-in-reassembly-beyond-total {ctx}"
    else if able == "yes" || res.startsWith "ok:" then s!"specfail {via}fragments-beyond-total-accepted {ctx}"
    else if isReassemblable maxEnd fs then s!"diff able model=true impl={able} {ctx}"
    else "ok"
  else
  -- the fragments themselves must be fragments of the original (C09 / D2)
  match lfs.find? (fun (_, f) => f.isFrag && !decide (FragOf p f)) with
  | some (lvl, f) =>
    if lvl == "2" then s!"specfail refragment-not-absolute off={f.off} total={f.total} len={f.data.length} {ctx}"
    else if lvl == "1" then s!"specfail fragment-not-a-slice off={f.off} total={f.total} {ctx}"
    else s!"skip harness-built-a-wrong-fragment {ctx}"
  | none =>
  if able == "panic" || res == "panic" then s!"specfail {via}panic-in-reassembly-{shape fs} {ctx}"
  else
    let genuine := fs.all (·.isFrag)
    let cov := !fs.isEmpty && genuine && decide (Covers fs total)
    let ok := res.startsWith "ok:"
    if genuine && cov && (able != "yes" || !ok) then s!"specfail {via}covering-set-rejected-{shape fs} {ctx}"
    else if !cov && (able == "yes" || ok) then
      s!"specfail {via}non-covering-set-accepted-{shape fs} {ctx}"
    else
      -- the model on what reassembly gets to see
      let seen := if viaStore then storeParts keepLonger fs else fs
      let m := reassemble maxEnd seen
      let mable := isReassemblable maxEnd seen
      if mable != (able == "yes") then s!"diff able model={mable} impl={able} {ctx}"
      else
        match m, ok with
        | .ok mp mb, true =>
          match res.splitOn ":" with
          | [_, hx, ident, ts] =>
            if parseHex hx != some p then s!"specfail {via}reassembled-payload-differs-{shape fs} {ctx}"
            else if ident != "1" then s!"specfail {via}reassembled-bundle-differs-{shape fs} {ctx}"
            else if parseTypes ts != some types then s!"specfail {via}reassembled-blocks-differ {ctx}"
            else if mp != p || mb != types then s!"diff result model-payload-ok={mp == p} model-blocks={mb} {ctx}"
            else "ok"
          | _ => "skip parse-res"
        | .error _, false => "ok"
        | .panic, _ => s!"diff model-panics {ctx}"
        | _, _ => s!"diff outcome model-ok={!ok} impl={res.take 20} {ctx}"

def handle (line : String) : String :=
  match fields line with
  | [op, payload, types, frags, able, res] =>
    if op != "reasm" && op != "store" then "skip unknown-op" else
    match parseHex payload, parseTypes types, parseRFrags frags with
    | some p, some ts, some lfs => judge (op == "store") p ts lfs able res
    | _, _, _ => "skip parse"
  | _ => "skip unknown-op"

def main : IO Unit := run handle
