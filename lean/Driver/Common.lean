/-
Line-protocol plumbing shared by all per-property drivers (core-only, links as a `lean_exe`).

A harness (Go, calling the real dtn7 code in-process) writes one operation per line; the driver
reads the same lines from stdin, runs the executable model and the Spec predicates, and prints one
verdict line per input line:

  ok [detail]                 model output = implementation output, Spec holds on the implementation's output
  diff <detail>               model and implementation disagree (correspondence broken)
  specfail <class> <detail>   the Spec predicate fails on the IMPLEMENTATION's output (a violation,
                              `class` identifies the failing clause + input class; matched against
                              known_findings.json)
  skip <detail>               line not understood / not comparable (counted, never silently dropped)

Lines starting with '#' are comments/statistics from the harness and are echoed unchanged.
-/
namespace Driver

def hexVal (c : Char) : Option Nat :=
  if '0' ≤ c ∧ c ≤ '9' then some (c.toNat - '0'.toNat)
  else if 'a' ≤ c ∧ c ≤ 'f' then some (c.toNat - 'a'.toNat + 10)
  else if 'A' ≤ c ∧ c ≤ 'F' then some (c.toNat - 'A'.toNat + 10)
  else none

/-- Parse a hex string ("-" or "" is the empty byte string). -/
def parseHex (s : String) : Option (List UInt8) :=
  if s == "-" || s == "" then some [] else
  let rec go : List Char → List UInt8 → Option (List UInt8)
    | [], acc => some acc.reverse
    | [_], _ => none
    | a :: b :: rest, acc =>
      match hexVal a, hexVal b with
      | some x, some y => go rest (UInt8.ofNat (x * 16 + y) :: acc)
      | _, _ => none
  go s.toList []

def hexDigit (n : Nat) : Char :=
  if n < 10 then Char.ofNat (n + '0'.toNat) else Char.ofNat (n - 10 + 'a'.toNat)

def toHex (bs : List UInt8) : String :=
  if bs.isEmpty then "-" else
  String.ofList (bs.foldr (fun b acc => hexDigit (b.toNat / 16) :: hexDigit (b.toNat % 16) :: acc) [])

def fields (line : String) : List String :=
  (line.splitOn " ").filter (· ≠ "")

def stripNl (s : String) : String :=
  let s := if s.endsWith "\n" then (s.dropEnd 1).toString else s
  if s.endsWith "\r" then (s.dropEnd 1).toString else s

/-- Stateless line loop. -/
partial def loop (h : IO.FS.Stream) (out : IO.FS.Stream) (f : String → String) : IO Unit := do
  let line ← h.getLine
  if line.isEmpty then return ()
  let l := stripNl line
  if l.startsWith "#" || l.isEmpty then out.putStrLn l else out.putStrLn (f l)
  loop h out f

/-- Stateful line loop. -/
partial def loopS {σ : Type} (h : IO.FS.Stream) (out : IO.FS.Stream) (s : σ)
    (f : σ → String → σ × String) : IO Unit := do
  let line ← h.getLine
  if line.isEmpty then return ()
  let l := stripNl line
  if l.startsWith "#" || l.isEmpty then
    out.putStrLn l
    loopS h out s f
  else
    let (s', o) := f s l
    out.putStrLn o
    loopS h out s' f

def run (f : String → String) : IO Unit := do
  let i ← IO.getStdin
  let o ← IO.getStdout
  loop i o f
  o.flush

def runS {σ : Type} (s : σ) (f : σ → String → σ × String) : IO Unit := do
  let i ← IO.getStdin
  let o ← IO.getStdout
  loopS i o s f
  o.flush

end Driver
