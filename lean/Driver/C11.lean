import Driver.Common
import Dtn7.Model.Tcpcl

/-!
Driver for C11. Input lines (fields separated by blanks):

  seg  <mtu> <datahex> <segs>           segs = "-" or comma list  <flags>:<hex>   flags: 2=START 1=END
       implementation: NewOutgoingTransfer + NextSegment(mtu) until io.EOF on raw data
  xfer <mtu> <datahex> <segs> <acks> <delivered> <res>
       implementation: two TransferManagers joined by tapped channels; acks = "-" or comma list of
       acknowledged lengths; delivered = "none" | hex of the re-serialised bundle handed up;
       res = ok | err
  send <L> <script> <res>               script = comma list of a<n> (ack n) | r (refuse); the scripted
       peer answers the i-th segment with the i-th item ('.' = no answer). res = ok | err | blocked
-/
open Dtn7.Tcpcl Driver

def parseSeg (s : String) : Option Seg :=
  match s.splitOn ":" with
  | [f, h] =>
    match f.toNat?, parseHex h with
    | some fl, some d => some ⟨fl / 2 % 2 == 1, fl % 2 == 1, d⟩
    | _, _ => none
  | _ => none

def parseSegs (s : String) : Option (List Seg) :=
  if s == "-" then some [] else (s.splitOn ",").mapM parseSeg

def showSeg (s : Seg) : String :=
  s!"{(if s.start then 2 else 0) + (if s.fin then 1 else 0)}:{toHex s.data}"

def showSegs (l : List Seg) : String :=
  if l.isEmpty then "-" else ",".intercalate (l.map showSeg)

def parseNats (s : String) : Option (List Nat) :=
  if s == "-" then some [] else (s.splitOn ",").mapM (·.toNat?)

def lookahead : Bool := true
/-- `utils.MaxSegmentMtu` (pinned by `Props.C11.gen_constants`). -/
def capMtu : Nat := 1048576

/-- All ways to insert one event into a list. -/
def insertions {α} (x : α) : List α → List (List α)
  | [] => [[x]]
  | y :: ys => (x :: y :: ys) :: (insertions x ys).map (y :: ·)

def showRes : SendRes → String
  | .ok => "ok" | .error => "err" | .blocked => "blocked"

def handle (line : String) : String :=
  match fields line with
  | ["seg", m, d, segs] =>
    match m.toNat?, parseHex d, parseSegs segs with
    | some m, some d, some segs =>
      if m == 0 then "skip mtu0" else
      match segmentsFail d m segs with
      | some cls => s!"specfail {cls} mtu={m} len={d.length} impl={showSegs segs}"
      | none =>
        let ms := segmentsCapped lookahead capMtu m d
        if ms == segs then "ok" else s!"diff seg model={showSegs ms} impl={showSegs segs}"
    | _, _, _ => "skip parse"
  | ["xfer", m, d, segs, acks, deliv, res] =>
    match m.toNat?, parseHex d, parseSegs segs, parseNats acks with
    | some m, some d, some segs, some acks =>
      -- Spec on the implementation's observations
      match segmentsFail d m segs with
      | some cls => s!"specfail {cls} mtu={m} len={d.length} via=manager"
      | none =>
        let delivOk := deliv != "none" && parseHex deliv == some d
        if res == "ok-before-end-acked" then
          s!"specfail send-ok-before-end-acknowledged mtu={m} len={d.length}"
        else if res == "ok" && !delivOk then
          s!"specfail send-ok-but-not-delivered mtu={m} len={d.length} delivered={deliv}"
        else if deliv != "none" && !delivOk then
          s!"specfail delivered-differs mtu={m} len={d.length}"
        else
          -- correspondence with the model
          let ms := segmentsCapped lookahead capMtu m d
          let (macks, mdel) := receive {} ms
          let macks' := macks.filterMap (fun | .ack n => some n | .err => none)
          if ms != segs then s!"diff xfer-segs model={showSegs ms}"
          else if macks' != acks then s!"diff xfer-acks model={macks'} impl={acks}"
          else if mdel.isSome != (deliv != "none") then s!"diff xfer-delivered model={mdel.isSome}"
          else
            let r := send (macks'.map Ev.ack ++ [Ev.allSent d.length])
            if showRes r != res then s!"diff xfer-res model={showRes r} impl={res}" else "ok"
    | _, _, _, _ => "skip parse"
  | ["conc", m, sent, wire, got, res] =>
    -- several concurrent transfers in one direction, as seen on the wire
    let parseMsg (x : String) : Option Msg :=
      match x.splitOn ":" with
      | [t, f, h] =>
        match t.toNat?, f.toNat?, parseHex h with
        | some t, some fl, some d => some ⟨t, ⟨fl / 2 % 2 == 1, fl % 2 == 1, d⟩⟩
        | _, _, _ => none
      | _ => none
    let lst (x : String) : List String := if x == "-" then [] else x.splitOn ","
    match m.toNat?, (lst sent).mapM parseHex, (lst wire).mapM parseMsg with
    | some m, some sent, some ms =>
      let gotL := lst got
      let resL := lst res
      if gotL.any (·.startsWith "ERR") then s!"specfail concurrent-transfer-error got={got}"
      else if resL.any (· != "ok") then s!"specfail concurrent-send-failed res={res}"
      else
        match gotL.mapM parseHex with
        | none => "skip parse"
        | some gotB =>
          -- Spec: exactly the sent bundles arrive, each once
          let sortB (l : List Bytes) := l.toArray.qsort (fun a b => toHex a < toHex b) |>.toList
          if sortB gotB != sortB sent then
            s!"specfail concurrent-delivered-differs sent={sent.length} got={gotB.length}"
          else
            -- per-transfer trains meet the Spec
            let tids := (ms.map (·.tid)).eraseDups
            let bad := tids.filterMap fun k =>
              let train := (ms.filter (·.tid == k)).map (·.seg)
              segmentsFail (concatData train) m train
            match bad with
            | cls :: _ => s!"specfail {cls} via=concurrent"
            | [] =>
              -- correspondence: the model's demultiplexer on the same interleaving
              let md := (demux [] ms).map (·.2)
              if md != gotB then s!"diff conc model={md.length} impl={gotB.length}" else "ok"
    | _, _, _ => "skip parse"
  | ["send", l, script, res] =>
    match l.toNat? with
    | some l =>
      let items := if script == "-" then [] else script.splitOn ","
      let evs : List Ev := items.filterMap fun it =>
        if it.startsWith "r" then some Ev.refuse   -- r, r0 … r6: XFER_REFUSE with that reason code
        else if it.startsWith "a" then (it.drop 1).toNat?.map Ev.ack
        else none
      -- the "all sent" notification races with the acknowledgements; a missing answer ends in a timeout
      let cands := (insertions (Ev.allSent l) evs).map (fun e => showRes (send (e ++ [Ev.timeout])))
      -- a refusal stops the sender: "all sent" may never be reported
      let cands := cands ++ [showRes (send (evs ++ [Ev.timeout]))]
      -- Spec: success only if the final acknowledgement for exactly l bytes was scripted
      if res == "ok" && !(evs.contains (Ev.ack l)) && l != 0 && !(evs.contains (Ev.ack 0)) then
        s!"specfail send-ok-without-final-ack L={l} script={script}"
      else if cands.contains res then "ok" else s!"diff send model={cands} impl={res}"
    | none => "skip parse"
  | _ => "skip unknown-op"

def main : IO Unit := run handle
