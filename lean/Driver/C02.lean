import Driver.Common
import Dtn7.Model.Bundle
import Dtn7.Model.BundleSpec
import Dtn7.Model.BundleText

/-!
Driver for C02 (only well-formed bundles are accepted / produced). Input lines:

  par  … (as in Driver/C01.lean)   arbitrary bytes → `ParseBundle`; here the accepted structure is
       judged by `WellFormed` and accept/reject is compared with the model.
  chk  extra=… now0=… now1=… b=<bundle> valid=<1|0|panic>
       implementation: `Bundle.CheckValid` on the described structure (no wire involved).
  prod kind=<builder|frommap|fragment|refragment|reassembled|statusreport|pong|metadata> desc=<text> res=<err|panic>
  prod kind=… extra=… now0=… now1=… desc=… res=ok valid=<1|0> dump=<bundle> ser=<hex|err> parse=<ok|err|partial|-> pdump=<same|bundle|->
       implementation: a bundle handed out by a producer; `valid` = its own `CheckValid`, `ser` =
       `MarshalCbor`, `parse`/`pdump` = `ParseBundle` of those bytes.
-/
open Dtn7.Cbor Dtn7.Eid Dtn7.Bundle Dtn7.BundleText
open Driver (fields run)

def strictCode : Bool := true

def cfgOf (toks : List String) : Option Cfg := do
  let ex ← readNatList (← kv toks "extra")
  some { extra := ex, strict := strictCode }

def isErr {α} : Except Err α → Bool
  | .error _ => true
  | .ok _ => false

def firstBroken (now : Nat) (b : Bundle) : Option String :=
  ((wfRules now b).find? (fun r => !r.2)).map (·.1)

def natOf (toks : List String) (k : String) : Option Nat := (kv toks k).bind (·.toNat?)

def handlePar (toks : List String) : String :=
  match cfgOf toks, (kv toks "in").bind parseHex, kv toks "res", natOf toks "now0", natOf toks "now1" with
  | some cfg, some inp, some res, some now0, some now1 =>
    let m0 := parse cfg now0 inp
    let m1 := parse cfg (now1 + 1) inp
    if res == "panic" then "specfail panic-in-parse"
    else if res == "err" then
      if isErr m0 || isErr m1 then "ok" else "diff par model=accept impl=reject"
    else
    match (kv toks "dump").bind readBundle with
    | none => "skip parse-dump"
    | some d =>
      match firstBroken now0 d with
      | some rule => s!"specfail accepted-not-wellformed-{rule} dump={clip (showBundle d) 300}"
      | none =>
        let pick := match m0, m1 with
          | .ok x, _ => some x
          | _, .ok x => some x
          | _, _ => none
        match pick with
        | none => s!"diff par model=reject impl=accept dump={clip (showBundle d) 300}"
        | some (mb, _) =>
          if sameBundle mb d then "ok"
          else s!"diff par-structure model={clip (showBundle mb) 300} impl={clip (showBundle d) 300}"
  | _, _, _, _, _ => "skip parse"

def handleChk (toks : List String) : String :=
  match cfgOf toks, (kv toks "b").bind readBundle, kv toks "valid", natOf toks "now0", natOf toks "now1" with
  | some cfg, some b, some valid, some now0, some now1 =>
    let c0 := checkValid cfg.strict now0 b
    let c1 := checkValid cfg.strict (now1 + 1) b
    if valid == "panic" then "specfail panic-in-checkvalid"
    else if valid == "1" then
      match firstBroken now0 b with
      | some rule => s!"specfail checkvalid-passed-not-wellformed-{rule} b={clip (showBundle b) 300}"
      | none => if c0 || c1 then "ok" else s!"diff chk model=invalid impl=valid b={clip (showBundle b) 300}"
    else
      if !c0 || !c1 then "ok" else s!"diff chk model=valid impl=invalid b={clip (showBundle b) 300}"
  | _, _, _, _, _ => "skip parse"

def handleProd (toks : List String) : String :=
  match kv toks "kind", kv toks "res" with
  | some kind, some res =>
    if res == "err" then "ok no-bundle"
    else if res == "panic" then s!"specfail panic-in-{kind}"
    else
    match cfgOf toks, (kv toks "dump").bind readBundle, natOf toks "now0", natOf toks "now1",
          kv toks "ser", kv toks "parse", kv toks "pdump", kv toks "valid" with
    | some cfg, some d, some now0, some now1, some ser, some prs, some pdump, some valid =>
      match firstBroken now0 d with
      | some rule => s!"specfail produced-not-wellformed-{rule}-by-{kind} dump={clip (showBundle d) 300}"
      | none =>
        if ser == "err" || ser.startsWith "panic" then s!"specfail produced-not-serialisable-by-{kind}"
        else if prs != "ok" then
          (if (wfRules (now1 + 5000) d).all (·.2) then s!"specfail produced-not-accepted-by-{kind} parse={prs}"
           else "ok expired-meanwhile")
        else
        -- correspondence
        let c := checkValid cfg.strict now0 d || checkValid cfg.strict (now1 + 1) d
        if !c then s!"diff prod model=invalid dump={clip (showBundle d) 300}"
        else if valid != "1" then "diff prod impl-checkvalid-rejects-its-own-product"
        else
        match serialize d, parseHex ser with
        | .ok ms, some gs =>
          if ms != gs && !(hasMultiMap d && ms.length == gs.length) then
            s!"diff prod-ser model={clip (toHex ms) 300} impl={clip ser 300}"
          else
            match parse cfg now0 gs, parse cfg (now1 + 1) gs with
            | .error _, .error _ => "diff prod-parse model=reject impl=accept"
            | .ok (mb, _), _ | _, .ok (mb, _) =>
              let gp := if pdump == "same" then some d else readBundle pdump
              match gp with
              | some g => if sameBundle mb g then "ok" else s!"diff prod-pdump model={clip (showBundle mb) 300}"
              | none => "skip parse-pdump"
        | .error _, _ => "diff prod-ser model=err impl=bytes"
        | _, none => "skip parse-ser"
    | _, _, _, _, _, _, _, _ => "skip parse-prod"
  | _, _ => "skip parse"

def handle (line : String) : String :=
  match fields line with
  | "par" :: toks => handlePar toks
  | "chk" :: toks => handleChk toks
  | "prod" :: toks => handleProd toks
  | _ => "skip unknown-op"

def main : IO Unit := run handle
