import Driver.Common
import Dtn7.Model.CrcSpec
import Dtn7.Model.Crc

/-!
Driver for C03. Input lines (fields separated by blanks), written by
`harness/overlay/pkg/bpv7/verif_c03_test.go`:

  raw  <t> <datahex> <valuehex>        crc16.Checksum / crc32.Checksum with the package's tables
  calc <t> <bufhex> <valuehex|err>     calculateCRCBuff
  prim <requested> <blockhex>          a created primary block, serialised alone
  orig <hex> <verdict>                 generated bundle with a CRC on every block, re-parsed
  mut  <orighex> <off> <xorhex> <verdict>   ParseBundle on orig with xorhex xor-ed in at byte off
  direct <name> <hex> <verdict>        hand-made encodings
  adversarial <hex> <off> <xorhex> <verdict> <verdict-mutated>   crafted payload, one bit of its length flipped
  after <mutatedhex> <verdict-mutated> <pristinehex> <reserialisedhex|err|panic> <verdict-pristine>
       directly after a failed parse: the known-good object serialised again, its encoding parsed again

  verdict = accept | crc | other | panic

Spec verdicts (`specfail <class>`), all judged with the independent delimiter and the bit-serial CRCs of
`Dtn7.Model.CrcSpec`, never with the model of the Go parser:

  crc16-not-x25 / crc32-not-castagnoli         library value ≠ bit-serial definition
  created-primary-without-crc                   a created primary block has CRC type 0 / no CRC item
  serialised-crc-mismatch                       the serialiser wrote a value ≠ CRC of the block with zeroed field
  serialised-crc-wrong                          the same, for a good bundle serialised directly after a failed parse
  serialised-crc-mismatch-after-<what>          the same, for a bundle serialised again after fields of it were assigned
  valid-crc-rejected                            "invalid CRC value" for a generated bundle whose CRCs all match the Spec
  valid-crc-rejected-after-failed-parse         the same, directly after a failed parse
  accepted-crc-mismatch                         Go accepted although a block's CRC does not match its received bytes
  accepted-crc-over-reencoded-head              the same, and the block has a non-shortest array / CRC item head
  accepted-crc-declared-but-absent              Go accepted a block with CRC type ≠ 0 that carries no (known) CRC
  accepted-corrupted-single-bit                 Go accepted a fully protected bundle with one bit flipped
  accepted-corrupted-burst                      … with a burst ≤ CRC width, block boundaries intact
  accepted-corrupted-frame                      … with only the 0x9F / 0xFF frame bytes changed
  panic-in-parser

Correspondence (`diff`): the model verdict of `Dtn7.Model.Crc.parseBundle` against Go's:
  model accept ⇒ Go ∈ {accept, other}   (`CheckValid` and field validation are not modelled)
  model crc    ⇒ Go ∈ {crc, other}      (a field-level error may precede the CRC check)
  model other  ⇒ Go = other
-/
open Dtn7.Crc Dtn7.Cbor Driver

/-- What the driver remembers about the last original bundle (consecutive `mut` lines share it). -/
structure OrigInfo where
  hex : String
  bytes : Bytes
  blocks : Option (List Block)
  prot : Bool                       -- every block carries a matching CRC
  extents : List (Nat × Nat × Nat)  -- (start byte, end byte, CRC width in bits) of every block

structure St where
  orig : Option OrigInfo := none

def statusWidth : CrcStatus → Nat
  | .good t => crcWidth t
  | .bad t => crcWidth t
  | _ => 0

def mkExtents (start : Nat) : List Block → List CrcStatus → List (Nat × Nat × Nat)
  | b :: bs, s :: ss => (start, start + b.raw.length, statusWidth s) :: mkExtents (start + b.raw.length) bs ss
  | _, _ => []

def analyse (hex : String) (bs : Bytes) : OrigInfo :=
  let blocks := delimit bs
  match blocks with
  | none => ⟨hex, bs, none, false, []⟩
  | some bl => ⟨hex, bs, some bl, fullyProtected bl, mkExtents 1 bl (statuses bl)⟩

def xorAt (orig : Bytes) (off : Nat) (x : Bytes) : Bytes :=
  orig.take off ++ (List.zipWith (· ^^^ ·) ((orig.drop off).take x.length) x) ++ orig.drop (off + x.length)

/-- Absolute positions (CRC bit order) of the set bits of the pattern. -/
def patternBits (off : Nat) (x : Bytes) : List Nat :=
  (x.zipIdx).flatMap fun (b, k) =>
    (List.range 8).filterMap fun j => if b.toNat.testBit j then some ((off + k) * 8 + j) else none

def spanOf (ps : List Nat) : Nat :=
  match ps with
  | [] => 0
  | p :: _ => ps.foldl max p - ps.foldl min p + 1

/-- Every block hit by the pattern is hit by a burst no longer than its CRC width. -/
def withinGuarantee (ext : List (Nat × Nat × Nat)) (ps : List Nat) : Bool :=
  ext.all fun (s, e, w) =>
    let inb := ps.filter (fun p => 8 * s ≤ p ∧ p < 8 * e)
    spanOf inb ≤ w

def onlyFrame (ext : List (Nat × Nat × Nat)) (ps : List Nat) : Bool :=
  ps.all fun p => ext.all fun (s, e, _) => ¬ (8 * s ≤ p ∧ p < 8 * e)

def shortestArrayHead (b : Block) : Bool :=
  (encArray b.items.length).isPrefixOf b.raw

def shortestItemHead (it : Bytes) : Bool :=
  match decBytes it with
  | .ok (v, _) => (encHead majBytes v.length).isPrefixOf it
  | _ => true

def showVerdict : Verdict → String
  | .accept => "accept" | .crc k => s!"crc@{k}" | .other => "other"

def corresponds (m : Verdict) (go : String) : Bool :=
  match m with
  | .accept => go == "accept" || go == "other"
  | .crc _ => go == "crc" || go == "other"
  | .other => go == "other"

def showStatus : CrcStatus → String
  | .malformed => "malformed" | .none => "none" | .absent t => s!"absent{t}"
  | .good t => s!"good{t}" | .bad t => s!"bad{t}"

def isBad : CrcStatus → Bool | .bad _ => true | _ => false
def isAbsent : CrcStatus → Bool | .absent _ => true | _ => false

/-- Spec judgement of "Go accepted these bytes" that does not need the original: CRC of every
delimited block. `none` = nothing to object. -/
def acceptedSpec (bl : List Block) : Option String :=
  let sts := statuses bl
  let pairs := bl.zip sts
  match pairs.find? (fun p => isBad p.2) with
  | some (b, _) =>
    let reenc := !shortestArrayHead b || !(match b.items.getLast? with | some f => shortestItemHead f | none => true)
    some (if reenc then "accepted-crc-over-reencoded-head" else "accepted-crc-mismatch")
  | none =>
    if sts.any isAbsent then some "accepted-crc-declared-but-absent" else none

def judgeParsed (go : String) (bs : Bytes) (extra : List Block → Option String) (onUndelimitable : Option String) : String :=
  if go == "panic" then "specfail panic-in-parser" else
  let m := parseBundleWith crcCalcFast bs
  let corr := if corresponds m go then none else some s!"diff verdict model={showVerdict m} go={go}"
  if go == "accept" then
    match delimit bs with
    | none =>
      match onUndelimitable with
      | some cls => s!"specfail {cls} model={showVerdict m}"
      | none => s!"diff accepted-undelimitable model={showVerdict m}"
    | some bl =>
      match acceptedSpec bl with
      | some cls => s!"specfail {cls} statuses={(statuses bl).map showStatus} model={showVerdict m}"
      | none =>
        match extra bl with
        | some cls => s!"specfail {cls} model={showVerdict m}"
        | none => corr.getD "ok accepted"
  else corr.getD (match m with
    | .other => s!"ok {go}"
    | .crc _ => if go == "crc" then "ok crc" else s!"ok {go} model-crc"
    | .accept => s!"ok {go} model-accept")

def handle (st : St) (line : String) : St × String :=
  match fields line with
  | ["raw", t, d, v] =>
    match t.toNat?, parseHex d, parseHex v with
    | some t, some d, some v =>
      if crcFieldFast t d == some v then (st, "ok")
      else (st, s!"specfail {if t == 1 then "crc16-not-x25" else "crc32-not-castagnoli"} len={d.length} go={toHex v} spec={(crcFieldFast t d).map toHex}")
    | _, _, _ => (st, "skip parse")
  | ["calc", t, d, v] =>
    match t.toNat?, parseHex d with
    | some t, some d =>
      let m := crcCalcFast t d
      let ms := match m with | none => "err" | some c => toHex c
      if ms == v then (st, "ok") else (st, s!"diff calc t={t} model={ms} go={v}")
    | _, _ => (st, "skip parse")
  | ["prim", req, h] =>
    match req.toNat?, parseHex h with
    | some req, some bs =>
      match splitBlock bs with
      | some (b, []) =>
        match crcStatus true b with
        | .good t =>
          if t == setCrcTypePrimary req then (st, "ok") else (st, s!"diff primary-crc-type model={setCrcTypePrimary req} go={t}")
        | .bad _ => (st, s!"specfail serialised-crc-mismatch primary requested={req}")
        | s => (st, s!"specfail created-primary-without-crc requested={req} status={showStatus s}")
      | _ => (st, "diff primary-undelimitable")
    | _, _ => (st, "skip parse")
  | ["orig", h, go] =>
    match parseHex h with
    | some bs =>
      let oi := analyse h bs
      let st' : St := { orig := some oi }
      match oi.blocks with
      | none => (st', "diff generated-bundle-undelimitable")
      | some bl =>
        let sts := statuses bl
        if sts.any isBad then (st', s!"specfail serialised-crc-mismatch statuses={sts.map showStatus}")
        else if !oi.prot then (st', s!"skip generated-bundle-not-fully-protected")
        else if go == "crc" then (st', s!"specfail valid-crc-rejected statuses={sts.map showStatus}")
        else if go != "accept" then (st', s!"diff generated-bundle-rejected go={go} model={showVerdict (parseBundleWith crcCalcFast bs)}")
        else (st', judgeParsed go bs (fun _ => none) none)
    | none => (st, "skip parse")
  | ["reser", what, h, go] =>
    -- a bundle serialised again after `what` happened to it (fields assigned directly after a first
    -- serialisation / after parsing): the serialiser clause — every CRC written is the CRC of the bytes written
    match parseHex h with
    | some bs =>
      let oi := analyse h bs
      match oi.blocks with
      | none => (st, s!"specfail serialised-crc-mismatch-after-{what} undelimitable")
      | some bl =>
        let sts := statuses bl
        if sts.any isBad then (st, s!"specfail serialised-crc-mismatch-after-{what} statuses={sts.map showStatus}")
        else if go == "crc" then (st, s!"specfail valid-crc-rejected statuses={sts.map showStatus}")
        else if go != "accept" then (st, s!"diff reserialised-bundle-rejected go={go} model={showVerdict (parseBundleWith crcCalcFast bs)}")
        else (st, "ok")
    | none => (st, "skip parse")
  | ["mut", h, off, x, go] =>
    match off.toNat?, parseHex x with
    | some off, some x =>
      let oi? : Option OrigInfo :=
        match st.orig with
        | some oi => if oi.hex == h then some oi else (parseHex h).map (analyse h)
        | none => (parseHex h).map (analyse h)
      match oi? with
      | none => (st, "skip parse")
      | some oi =>
        let st' : St := { orig := some oi }
        if !oi.prot then (st', "skip original-not-fully-protected") else
        let mutated := xorAt oi.bytes off x
        if mutated == oi.bytes || mutated.length != oi.bytes.length then (st', "skip no-change") else
        let ps := patternBits off x
        let single := ps.length == 1
        let guaranteed := withinGuarantee oi.extents ps
        let frameOnly := onlyFrame oi.extents ps
        let extra (bl : List Block) : Option String :=
          if single then some "accepted-corrupted-single-bit"
          else if frameOnly then some "accepted-corrupted-frame"
          else if guaranteed && bl.map (·.raw.length) == (oi.blocks.getD []).map (·.raw.length) then
            some "accepted-corrupted-burst"
          else none
        let undel := if single then some "accepted-corrupted-single-bit"
          else if frameOnly then some "accepted-corrupted-frame" else none
        (st', judgeParsed go mutated extra undel)
    | _, _ => (st, "skip parse")
  | ["adversarial", h, off, x, go, goM] =>
    -- crafted payload (boundary moves onto a CRC item inside the payload): outside the property's claim,
    -- only model vs. implementation is compared
    match parseHex h, off.toNat?, parseHex x with
    | some bs, some off, some x =>
      let m1 := parseBundleWith crcCalcFast bs
      let m2 := parseBundleWith crcCalcFast (xorAt bs off x)
      if showVerdict m1 == go && showVerdict m2 == goM then (st, s!"ok adversarial {go} {goM}")
      else (st, s!"diff adversarial model={showVerdict m1},{showVerdict m2} go={go},{goM}")
    | _, _, _ => (st, "skip parse")
  | ["after", m, vm, p, rs, vp] =>
    match parseHex m, parseHex p with
    | some _, some pb =>
      match delimit pb with
      | none => (st, "skip pristine-undelimitable")
      | some bl =>
        if !fullyProtected bl then (st, "skip pristine-not-fully-protected")
        else if vm == "accept" then (st, "skip mutated-was-accepted")
        else if rs == "err" || rs == "panic" then (st, s!"specfail serialised-crc-wrong serialiser={rs}")
        else
          match parseHex rs with
          | none => (st, "skip parse")
          | some rb =>
            match delimit rb with
            | none => (st, "specfail serialised-crc-wrong reserialised-undelimitable")
            | some rbl =>
              let sts := statuses rbl
              if !fullyProtected rbl then (st, s!"specfail serialised-crc-wrong statuses={sts.map showStatus}")
              else if vp == "crc" then (st, "specfail valid-crc-rejected-after-failed-parse")
              else if vp == "panic" then (st, "specfail panic-in-parser")
              else if vp != "accept" then (st, s!"diff pristine-rejected-after-failed-parse go={vp}")
              else if rb != pb then (st, "diff reserialised-differs")
              else (st, "ok after")
    | _, _ => (st, "skip parse")
  | ["direct", _, h, go] =>
    match parseHex h with
    | some bs => (st, judgeParsed go bs (fun _ => none) none)
    | none => (st, "skip parse")
  | _ => (st, "skip unknown-op")

def main : IO Unit := runS ({} : St) handle
