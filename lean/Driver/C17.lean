import Driver.Common
import Dtn7.Model.TcpclMsgs
import Dtn7.Model.BbcFrag
import Dtn7.Model.EidText
import Dtn7.Model.WireCbor

/-!
Driver for C17. Every format uses the same three line shapes (fields separated by blanks):

  <fmt> enc <desc> <hex | merr> <trailer hex> <result>
                                             implementation: Marshal(value described by desc) = hex, then its own
                                             decoder on hex ++ trailer gave `result`
  <fmt> dec <hex> <result>                   implementation: decoder on arbitrary bytes
  <fmt> stream <desc~desc~…> <hex> <desc@off~…[~!eof|!inv]>
                                             implementation: all values marshalled into one buffer, read back one by one

  result = ok/<desc>/<consumed | ?> | err/eof | err/inv | err/any | panic

plus the endpoint text lines

  eiduri parse <hex of the string> <ok/<eid desc>/<hex of String()> | err>
  eiduri print <eid desc> <hex of String()> <ok/<eid desc> | err>      (struct built directly, printed, re-parsed)

Verdicts: model ≠ implementation → `diff`; the Spec (round trip of canonical values with exact consumption;
invalid values rejected; text ↔ structure unique) fails on the implementation's own outputs → `specfail`.
-/
open Driver
open Dtn7.Cbor (Bytes)
open Dtn7.Wire

/-- One wire format as the driver sees it. -/
structure Format (V : Type) where
  name : String
  parse : String → Option V
  shw : V → String
  enc : V → Bytes
  /-- does the implementation's Marshal succeed on this value? -/
  encOk : V → Bool
  dec : Bytes → Except Err (V × Bytes)
  /-- the property demands `dec (enc v ++ rest) = (v, rest)` for these values -/
  canon : V → Bool
  /-- Spec, independent of the model's decoder: a value the implementation ACCEPTED from the wire that
  the property says must be rejected → class name -/
  invalid : V → Option String
  /-- Spec on the accepted BYTES (for what the decoded value does not show, e.g. magic and version) -/
  invalidBytes : Bytes → Option String := fun _ => none

def showErr (e : Err) : String := if e.isEof then "err/eof" else "err/inv"

def showRes {V} (F : Format V) (input : Bytes) : Except Err (V × Bytes) → String
  | .error e => showErr e
  | .ok (v, rest) => s!"ok/{F.shw v}/{input.length - rest.length}"

/-- Compare an implementation result string with the model's, treating `?` (consumption not observable)
and `err/any` (error class not comparable) as wildcards. -/
def resMatches (impl model : String) : Bool :=
  if impl == model then true
  else if impl == "err/any" then model.startsWith "err/"
  else match impl.splitOn "/", model.splitOn "/" with
    | ["ok", d1, "?"], ["ok", d2, _] => d1 == d2
    | _, _ => false

/-- Spec: a value the implementation ACCEPTED from the wire must not be one the property says is invalid. -/
def acceptedInvalid {V} (F : Format V) (res : String) : Option String :=
  match res.splitOn "/" with
  | ["ok", d, _] => (F.parse d).bind F.invalid
  | _ => none

def handleEnc {V} [BEq V] (F : Format V) (desc hex trailer res : String) : String :=
  match F.parse desc with
  | none => "skip parse-desc"
  | some v =>
    if res == "panic" then s!"specfail panic-{F.name} desc={desc.take 80}" else
    if let some cls := acceptedInvalid F res then s!"specfail accepted-invalid-{cls} desc={desc.take 80} impl={res.take 80}" else
    if hex == "merr" then
      if F.encOk v then s!"diff {F.name}-enc model encodes, implementation refused desc={desc.take 80}" else "ok"
    else
    match parseHex hex, parseHex trailer with
    | none, _ => "skip parse-hex"
    | _, none => "skip parse-hex"
    | some gb, some tr =>
      -- Spec on the implementation's own encode→decode
      let want := s!"ok/{desc}/{gb.length}"
      if F.canon v && !(resMatches res want) then
        s!"specfail roundtrip-{F.name} desc={desc.take 120} impl={res.take 120}"
      else if !F.encOk v then s!"diff {F.name}-enc implementation encodes a value the model says Marshal refuses desc={desc.take 80}"
      else
        let mb := F.enc v
        if mb != gb then s!"diff {F.name}-enc model={(toHex mb).take 100} impl={hex.take 100}"
        else
          let mres := showRes F (gb ++ tr) (F.dec (gb ++ tr))
          if resMatches res mres then "ok"
          else s!"diff {F.name}-dec-own model={mres.take 120} impl={res.take 120}"

def handleDec {V} (F : Format V) (hex res : String) : String :=
  match parseHex hex with
  | none => "skip parse-hex"
  | some b =>
    if res == "panic" then s!"specfail panic-{F.name} hex={hex.take 80}" else
    -- Spec: accepted values must be valid ones
    match (acceptedInvalid F res).orElse (fun _ => if res.startsWith "ok/" then F.invalidBytes b else none) with
    | some cls => s!"specfail accepted-invalid-{cls} hex={hex.take 80} impl={res.take 80}"
    | none =>
      let mres := showRes F b (F.dec b)
      if resMatches res mres then "ok" else s!"diff {F.name}-dec model={mres.take 120} impl={res.take 120} hex={hex.take 80}"

def handleStream {V} (F : Format V) (descs hex got : String) : String :=
  match parseHex hex, (descs.splitOn "~").mapM F.parse with
  | some b, some vs =>
    let (mvs, me) := decManyOffs F.dec b
    let mgot := mvs.map (fun (v, off) => s!"{F.shw v}@{off}") ++
      (match me with | some e => ["!" ++ ((showErr e).drop 4).toString] | none => [])
    let mgotS := if mgot.isEmpty then "-" else "~".intercalate mgot
    let badItem := (got.splitOn "~").findSome? fun it =>
      match it.splitOn "@" with
      | [d, _] => (F.parse d).bind F.invalid
      | _ => none
    if let some cls := badItem then s!"specfail accepted-invalid-{cls} in-stream" else
    -- Spec: all values canonical ⇒ the implementation read back exactly the written list, and the last
    -- offset is the stream length (alignment)
    if vs.all F.canon then
      let offs := Id.run do
        let mut acc := 0
        let mut out : List String := []
        for v in vs do
          acc := acc + (F.enc v).length
          out := out ++ [s!"{F.shw v}@{acc}"]
        return out
      if got != "~".intercalate offs then s!"specfail stream-misaligned-{F.name} n={vs.length}"
      else if mgotS != got then s!"diff {F.name}-stream model={mgotS.take 200}"
      else "ok"
    else if mgotS != got then s!"diff {F.name}-stream model={mgotS.take 200} impl={got.take 200}"
    else "ok"
  | _, _ => "skip parse-stream"

def handleFmt {V} [BEq V] (F : Format V) : List String → String
  | ["enc", desc, hex, trailer, res] => handleEnc F desc hex trailer res
  | ["dec", hex, res] => handleDec F hex res
  | ["stream", descs, hex, got] => handleStream F descs hex got
  | _ => "skip unknown-op"

/-! ### small parsing helpers -/

def hexOpt (s : String) : Option Bytes := parseHex s
def u8? (s : String) : Option UInt8 := s.toNat?.bind fun n => if n < 256 then some (UInt8.ofNat n) else none
def bool? (s : String) : Option Bool := if s == "1" then some true else if s == "0" then some false else none
def showB (b : Bool) : String := if b then "1" else "0"

/-! ### TCPCL -/
section
open Dtn7.TcpclMsgs

def parseMsg (s : String) : Option Msg :=
  match s.splitOn ":" with
  | ["ch", f] => (u8? f).map .contact
  | ["si", k, a, b, n] => do some (.sessInit (← k.toNat?) (← a.toNat?) (← b.toNat?) (← hexOpt n))
  | ["st", f, r] => do some (.sessTerm (← u8? f) (← u8? r))
  | ["xs", f, t, d] => do some (.xferSegment (← u8? f) (← t.toNat?) (← hexOpt d))
  | ["xa", f, t, l] => do some (.xferAck (← u8? f) (← t.toNat?) (← l.toNat?))
  | ["xr", r, t] => do some (.xferRefuse (← u8? r) (← t.toNat?))
  | ["ka"] => some .keepalive
  | ["mr", r, h] => do some (.reject (← u8? r) (← u8? h))
  | _ => none

def showMsg : Msg → String
  | .contact f => s!"ch:{f.toNat}"
  | .sessInit k a b n => s!"si:{k}:{a}:{b}:{toHex n}"
  | .sessTerm f r => s!"st:{f.toNat}:{r.toNat}"
  | .xferSegment f t d => s!"xs:{f.toNat}:{t}:{toHex d}"
  | .xferAck f t l => s!"xa:{f.toNat}:{t}:{l}"
  | .xferRefuse r t => s!"xr:{r.toNat}:{t}"
  | .keepalive => "ka"
  | .reject r h => s!"mr:{r.toNat}:{h.toNat}"

/-- Spec tables (RFC 9174 §4.?, independent of the model's `termCodes` …): the enumerated reason codes. -/
def specTermCodes : List Nat := [0, 1, 2, 3, 4, 5]
def specRefuseCodes : List Nat := [0, 1, 2, 3, 4, 5, 6]
def specRejectCodes : List Nat := [1, 2, 3]

def msgInvalid : Msg → Option String
  | .sessTerm _ r => if specTermCodes.contains r.toNat then none else some "reason-code-sess-term"
  | .xferRefuse r _ => if specRefuseCodes.contains r.toNat then none else some "reason-code-xfer-refuse"
  | .reject r _ => if specRejectCodes.contains r.toNat then none else some "reason-code-msg-reject"
  | _ => none

def fmtTcpcl : Format Msg :=
  { name := "tcpcl", parse := parseMsg, shw := showMsg, enc := enc, encOk := fun _ => true,
    dec := readMessage, canon := canonicalB, invalid := msgInvalid,
    -- a stream starting with 'd' is a contact header: it must be exactly "dtn!" + version 4
    invalidBytes := fun b =>
      if b.head? == some 0x64 && b.take 5 != [0x64, 0x74, 0x6E, 0x21, 0x04] then some "contact-magic-or-version" else none }
end

/-! ### BBC fragment header: desc = tid:seq:SEF:payloadhex (arguments of NewFragment; S,E,F ∈ {0,1}) -/
section
open Dtn7.Bbc

/-- The value is the argument tuple of `NewFragment`. -/
structure FragArgs where
  tid : UInt8
  seq : UInt8
  start : Bool
  fin : Bool
  fail : Bool
  payload : Bytes
deriving BEq

def parseFragArgs (s : String) : Option FragArgs :=
  match s.splitOn ":" with
  | [t, q, fl, p] =>
    match fl.toList with
    | [a, b, c] => do
      some ⟨← u8? t, ← u8? q, ← bool? a.toString, ← bool? b.toString, ← bool? c.toString, ← hexOpt p⟩
    | _ => none
  | _ => none

def showFragArgs (a : FragArgs) : String :=
  s!"{a.tid.toNat}:{a.seq.toNat}:{showB a.start}{showB a.fin}{showB a.fail}:{toHex a.payload}"

def fragOf (a : FragArgs) : Frag := mkFrag a.tid a.seq a.start a.fin a.fail a.payload
def argsOf (f : Frag) : FragArgs := ⟨f.tid, f.seq, f.start, f.fin, f.fail, f.payload⟩

def fmtFrag : Format FragArgs :=
  { name := "frag", parse := parseFragArgs, shw := showFragArgs, enc := fun a => (fragOf a).bytes,
    encOk := fun _ => true,
    dec := fun b => match parseFrag b with | .ok f => .ok (argsOf f, []) | .error e => .error e,
    canon := fun a => a.seq.toNat < 32, invalid := fun _ => none }
end

/-! ### Endpoint IDs -/
section
open Dtn7.EidText

def parseEid (s : String) : Option Eid :=
  match s.splitOn ":" with
  | ["none"] => some .none
  | ["dtn", n, d] => do some (.dtn (← hexOpt n) (← hexOpt d))
  | ["ipn", n, s] => do some (.ipn (← n.toNat?) (← s.toNat?))
  | _ => none

def showEid : Eid → String
  | .none => "none"
  | .dtn n d => s!"dtn:{toHex n}:{toHex d}"
  | .ipn n s => s!"ipn:{n}:{s}"

/-- Is the ipn parser of the tree under test the repaired one? The harness tells (line `eiduri mode …`);
default is the repaired parser. -/
def strictZeros : Bool := true

/-- Class of an accepted-but-invalid endpoint, by structure only. -/
def eidInvalid (e : Eid) : Option String :=
  if validB e then none else
  match e with
  | .ipn _ _ => some "eid-ipn-out-of-range"
  | .dtn _ _ => some "eid-dtn-malformed"
  | .none => none

def fmtEidCbor : Format Eid :=
  { name := "eidcbor", parse := parseEid, shw := showEid, enc := encEid, encOk := checkValid, dec := decEid,
    canon := fun e => decide (CborCanonical e),
    -- the dtn scheme's CBOR form carries URI text (the scheme-specific part): a malformed one must be refused here
    -- as in the URI parser; the ipn scheme's CBOR form is two numbers, whose range is checked with the bundle (C02)
    invalid := fun e => match e with | .dtn _ _ => eidInvalid e | _ => none }

def handleEidUri : List String → String
  | ["parse", hex, res] =>
    match parseHex hex with
    | none => "skip parse-hex"
    | some s =>
      let m := parseUri strictZeros s
      match res.splitOn "/" with
      | ["err"] =>
        (match m with
         | .error _ => "ok"
         | .ok e => s!"diff eiduri-parse model accepts {showEid e}, implementation rejects hex={hex.take 80}")
      | ["ok", d, printed] =>
        match parseEid d, parseHex printed with
        | some e, some p =>
          -- Spec (uses only the printer and the validity predicate, not the model's parser):
          -- an accepted string denotes a valid endpoint and is exactly the text that endpoint prints as
          if !validB e then s!"specfail accepted-invalid-{(eidInvalid e).getD "eid"} hex={hex.take 80}"
          else if printUri e != p then s!"diff eiduri-print model={toHex (printUri e)} impl={printed}"
          else if p != s then
            -- leading zeros are what the grammar `\\d+` (the code before the D30 repair) additionally accepts
            let cls := match e, parseUri false s with
              | .ipn _ _, .ok _ => "ipn-leading-zero"
              | .ipn _ _, _ => "ipn-other"
              | _, _ => "dtn"
            s!"specfail eid-text-not-unique-{cls} input={hex.take 80} prints-as={printed.take 80}"
          else
            (match m with
             | .ok e' => if e' == e then "ok" else s!"diff eiduri-parse model={showEid e'} impl={d}"
             | .error _ => s!"diff eiduri-parse model rejects, implementation accepts {d} hex={hex.take 80}")
        | _, _ => "skip parse-res"
      | _ => "skip parse-res"
  | ["print", d, printed, res] =>
    match parseEid d, parseHex printed with
    | some e, some p =>
      if printUri e != p then s!"diff eiduri-print model={toHex (printUri e)} impl={printed}"
      else
        -- Spec: a valid structure's text parses back to exactly that structure (an invalid structure cannot come
        -- from the wire or from a parser; for those only the correspondence is checked)
        if validB e && res != s!"ok/{d}" then s!"specfail roundtrip-eiduri desc={d.take 80} impl={res.take 80}"
        else
          let m := match parseUri strictZeros p with | .ok e' => s!"ok/{showEid e'}" | .error _ => "err"
          if m == res then "ok" else s!"diff eiduri-reparse model={m.take 80} impl={res.take 80}"
    | _, _ => "skip parse-desc"
  | _ => "skip unknown-op"
end

/-! ### CBOR formats of bpv7 / discovery / agent -/
section
open Dtn7.WireCbor Dtn7.EidText

def parseTs (a b : String) : Option Ts := do some ⟨← a.toNat?, ← b.toNat?⟩

def fmtTs : Format Ts :=
  { name := "ts", parse := fun s => match s.splitOn "|" with | [a, b] => parseTs a b | _ => none,
    shw := fun t => s!"{t.time}|{t.seq}", enc := encTs, encOk := fun _ => true, dec := decTs,
    canon := fun t => decide (TsCanonical t), invalid := fun _ => none }

def parseBid : List String → Option BundleId
  | [e, t, s, f, o, tot] => do
    some ⟨← parseEid e, ← parseTs t s, ← bool? f, ← o.toNat?, ← tot.toNat?⟩
  | _ => none

def showBid (b : BundleId) : String :=
  s!"{showEid b.src}|{b.ts.time}|{b.ts.seq}|{showB b.isFrag}|{b.off}|{b.total}"

/-- The bundle id is not self-delimiting: the harness decodes with the fragment flag of the encoded
value, which is the first character of the desc (`F|…` or `N|…`). -/
def fmtBid (isFrag : Bool) : Format BundleId :=
  { name := "bid", parse := fun s => parseBid (s.splitOn "|"), shw := showBid, enc := encBundleId,
    encOk := fun b => checkValid b.src, dec := decBundleId isFrag,
    canon := fun b => decide (BundleIdCanonical b) && b.isFrag == isFrag, invalid := fun _ => none }

def parseItem (s : String) : Option StatusItem :=
  match s.splitOn "." with
  | [a, t, r] => do some ⟨← bool? a, ← t.toNat?, ← bool? r⟩
  | _ => none

def showItem (i : StatusItem) : String := s!"{showB i.asserted}.{i.time}.{showB i.requested}"

def parseReport (s : String) : Option StatusReport :=
  match s.splitOn "|" with
  | items :: reason :: bid => do
    let its ← if items == "-" then some [] else (items.splitOn ",").mapM parseItem
    some ⟨its, ← reason.toNat?, ← parseBid bid⟩
  | _ => none

def showReport (r : StatusReport) : String :=
  let its := if r.items.isEmpty then "-" else ",".intercalate (r.items.map showItem)
  s!"{its}|{r.reason}|{showBid r.ref}"

def fmtReport : Format StatusReport :=
  { name := "sr", parse := parseReport, shw := showReport, enc := encReport, encOk := fun r => checkValid r.ref.src,
    dec := decReport, canon := fun r => decide (ReportCanonical r), invalid := fun _ => none }

def fmtAdmin : Format StatusReport :=
  { fmtReport with name := "ar", enc := encAdmin, dec := decAdmin }

def parseAnn (s : String) : Option Announcement :=
  match s.splitOn "|" with
  | [c, e, p] => do some ⟨← c.toNat?, ← parseEid e, ← p.toNat?⟩
  | _ => none

def showAnn (a : Announcement) : String := s!"{a.cla}|{showEid a.eid}|{a.port}"

def specClaTypes : List Nat := [0, 1, 10, 20]

def fmtAnn : Format Announcement :=
  { name := "ann", parse := parseAnn, shw := showAnn, enc := encAnn, encOk := fun a => checkValid a.eid,
    dec := decAnn, canon := fun a => decide (AnnCanonical a),
    invalid := fun a => if specClaTypes.contains a.cla then none else some "cla-type" }

def fmtAnns : Format (List Announcement) :=
  { name := "anns",
    parse := fun s => if s == "-" then some [] else (s.splitOn ";").mapM parseAnn,
    shw := fun l => if l.isEmpty then "-" else ";".intercalate (l.map showAnn),
    enc := encAnns, encOk := fun l => l.all (fun a => checkValid a.eid), dec := decAnns,
    canon := fun l => l.all (fun a => decide (AnnCanonical a)),
    invalid := fun l => if l.all (fun a => specClaTypes.contains a.cla) then none else some "cla-type" }

def parseWam (s : String) : Option Wam :=
  match s.splitOn ":" with
  | ["st", m] => (hexOpt m).map .status
  | ["rg", m] => (hexOpt m).map .register
  | ["rq", m] => (hexOpt m).map .syscallRequest
  | ["rs", q, r] => do some (.syscallResponse (← hexOpt q) (← hexOpt r))
  | _ => none

def showWam : Wam → String
  | .status m => s!"st:{toHex m}"
  | .register m => s!"rg:{toHex m}"
  | .syscallRequest m => s!"rq:{toHex m}"
  | .syscallResponse q r => s!"rs:{toHex q}:{toHex r}"

def fmtWam : Format Wam :=
  { name := "wam", parse := parseWam, shw := showWam, enc := encWam, encOk := fun _ => true, dec := decWam,
    canon := fun w => decide (WamCanonical w), invalid := fun _ => none }
end

def handle (line : String) : String :=
  match fields line with
  | "tcpcl" :: rest => handleFmt fmtTcpcl rest
  | "frag" :: rest => handleFmt fmtFrag rest
  | ["fragnext", v, a, b] =>
    (match u8? v with
     | some x =>
       if s!"{(Dtn7.Bbc.nextSeq x).toNat}" != a then s!"diff nextSeq model={(Dtn7.Bbc.nextSeq x).toNat} impl={a}"
       else if s!"{(Dtn7.Bbc.nextTid x).toNat}" != b then s!"diff nextTid model={(Dtn7.Bbc.nextTid x).toNat} impl={b}"
       else if a.toNat?.any (fun n => n ≥ 16 ∨ n ≠ (x.toNat + 1) % 16) then s!"specfail sequence-number-not-mod-16 v={v}"
       else "ok"
     | none => "skip parse")
  | "eiduri" :: rest => handleEidUri rest
  | "eidcbor" :: rest => handleFmt fmtEidCbor rest
  | "ts" :: rest => handleFmt fmtTs rest
  | "bidF" :: rest => handleFmt (fmtBid true) rest
  | "bidN" :: rest => handleFmt (fmtBid false) rest
  | "sr" :: rest => handleFmt fmtReport rest
  | "ar" :: rest => handleFmt fmtAdmin rest
  | "ann" :: rest => handleFmt fmtAnn rest
  | "anns" :: rest => handleFmt fmtAnns rest
  | "wam" :: rest => handleFmt fmtWam rest
  | _ => "skip unknown-format"

def main : IO Unit := run handle
