import Driver.Common
import Dtn7.Model.Spray

/-!
Driver for C18. One history per input line (written by harness/overlay/pkg/routing/verif_c18_test.go):

  h <spray|binary> <L> <npeers> <event> <event> ...

  event = <ev>/<fails>/<sched>/<sends>/<rem>/<sent>/<store>
    ev     S | R:<k|->:<prev|-> | U:<i> | D:<i> | T | X | O | L:<k|->:<prev|->
           (submit, receive with BinarySprayBlock k from previous node prev, peer i up / down, retry
           tick, restart, two retry ticks started at the same time — the second while the first sits
           between reading and writing the metadata, if the lock lets it; L = the bundle is received
           AGAIN while it is in the store — the stored bundle with a PreviousNodeBlock of peer prev and,
           if k is given, a BinarySprayBlock announcing k copies — through the calls the handler makes);
           peer 0 is the bundle's destination node
    fails  '-' or dot-separated peers whose Send fails during the event
    sched  '-' or a word over {a,b}: forced order of the read / write-back steps of two failure reports
  observations of the REAL node after the event:
    sends  '-' or comma list  peer:ok:block   (mock CLA log; block = BinarySprayBlock value parsed
           from the transmitted bytes, '-' if the bundle has none), sorted by peer
    rem    remainingCopies read from bundleData ('x': no metadata)
    sent   '-' or dot-separated peers in the metadata's sent list, sorted ('x': no metadata)
    store  g | p | n   (bundle gone / stored and pending / stored, not pending)

Verdict: the Spec predicates of Dtn7.Model.Spray are evaluated on the observations (specfail), then
the model is run on the same history and compared event by event (diff).
-/
open Dtn7.Spray Driver

structure Obs where
  sends : List Send
  rem : Option Nat
  sent : Option (List Peer)
  store : String
  panic : Option String := none

structure EvLine where
  ev : String            -- raw event token (for messages)
  kind : Char
  k : Option Nat := none
  prev : Option Peer := none
  peer : Peer := 0
  fails : List Peer
  sched : String
  obs : Obs

def parseDots (s : String) : Option (List Nat) :=
  if s == "-" then some [] else (s.splitOn ".").mapM (·.toNat?)

def parseOptNat (s : String) : Option (Option Nat) :=
  if s == "-" then some none else s.toNat?.map some

def parseSend (s : String) : Option Send :=
  match s.splitOn ":" with
  | [p, ok, b] =>
    match p.toNat?, parseOptNat b with
    | some p, some b => if ok == "1" then some ⟨p, true, b⟩ else if ok == "0" then some ⟨p, false, b⟩ else none
    | _, _ => none
  | _ => none

def parseSends (s : String) : Option (List Send) :=
  if s == "-" then some [] else (s.splitOn ",").mapM parseSend

def parseEvent (tok : String) : Option EvLine :=
  match tok.splitOn "/" with
  | [ev, fails, sched, sends, rem, sent, store] =>
    let evp := ev.splitOn ":"
    let kind := (evp.head!).front
    let fails? := parseDots fails
    let obs? : Option Obs :=
      if sends.startsWith "panic" then some { sends := [], rem := none, sent := none, store := store, panic := some sends }
      else
        match parseSends sends with
        | none => none
        | some ss =>
          if rem == "x" then some { sends := ss, rem := none, sent := none, store := store }
          else
            match rem.toNat?, parseDots sent with
            | some r, some sl => some { sends := ss, rem := some r, sent := some sl, store := store }
            | _, _ => none
    match fails?, obs? with
    | some fs, some obs =>
      let base : EvLine := { ev := ev, kind := kind, fails := fs, sched := if sched == "-" then "" else sched, obs := obs }
      match kind, evp with
      | 'S', [_] => some base
      | 'T', [_] => some base
      | 'X', [_] => some base
      | 'O', [_] => some base
      | 'R', [_, k, p] =>
        match parseOptNat k, parseOptNat p with
        | some k, some p => some { base with k := k, prev := p }
        | _, _ => none
      | 'L', [_, k, p] =>
        match parseOptNat k, parseOptNat p with
        | some k, some p => some { base with k := k, prev := p }
        | _, _ => none
      | 'U', [_, i] => i.toNat?.map (fun i => { base with peer := i })
      | 'D', [_, i] => i.toNat?.map (fun i => { base with peer := i })
      | _, _ => none
    | _, _ => none
  | _ => none

def sortSends (l : List Send) : List Send :=
  (l.toArray.qsort (fun a b => a.peer < b.peer || (a.peer == b.peer && (a.block.getD 0) < (b.block.getD 0)))).toList

def sortNats (l : List Nat) : List Nat := (l.toArray.qsort (· < ·)).toList

def showSend (x : Send) : String :=
  s!"{x.peer}:{if x.ok then 1 else 0}:{match x.block with | some b => toString b | none => "-"}"

def showSends (l : List Send) : String := if l.isEmpty then "-" else ",".intercalate (l.map showSend)
def showDots (l : List Nat) : String := if l.isEmpty then "-" else ".".intercalate (l.map toString)

/-- Schedule for the model: the forced word (one letter = two micro-steps of the repaired program:
lock+read, then write+unlock), then enough round-robin passes for every report to finish. -/
def mkSched (word : String) (n : Nat) : List Nat :=
  let forced := word.toList.flatMap (fun c => let t := c.toNat - 'a'.toNat; [t, t])
  forced ++ (List.range (n + 1)).flatMap (fun _ => seqSched 4 (n + 1))

/-- Input class of a forwarding step (part of the specfail class). -/
def stepClass (kind : Char) (sends : List Send) : String :=
  let failed := sends.filter (fun x => !x.ok)
  if kind == 'O' then "overlapping-forward-runs"
  else if failed.any (fun x => x.peer == 0) then "direct-delivery-failed"
  else if failed.length ≥ 2 then "concurrent-failures"
  else if failed.length == 1 then "single-failure"
  else "no-failure"

/-- State of the Spec evaluation: everything here comes from the harness input and the node's own
observations, nothing from the model. -/
structure SpecSt where
  originated : Bool := false     -- entered by submit (budget L applies)
  entered : Bool := false
  held : Option Nat := none      -- remainingCopies as last observed (or the entry's initial count)
  sent : Option (List Peer) := none  -- the metadata's sent list as last observed
  restarted : Bool := false
  allSends : List Send := []

def dest : Peer := 0

/-- Spec on one event; `none` = fine. -/
def specEvent (algo : Algo) (l : Nat) (st : SpecSt) (e : EvLine) : SpecSt × Option String :=
  match e.obs.panic with
  | some p => (st, some s!"panic-in-event-{e.kind} {p}")
  | none =>
  -- copies held when the event's forwarding step starts
  let st := match e.kind with
    | 'S' => { st with originated := true, entered := true, held := some l, restarted := false }
    | 'R' =>
      let init := match algo with
        | .spray => 1
        -- a relayed bundle holds the copies its BinarySprayBlock announces; one without a block (relayed by a
        -- node that runs another algorithm) was not originated here and holds a single copy
        | .binary => match e.k with | some k => k | none => 1
      { st with originated := false, entered := true, held := some init, restarted := false }
    | 'X' => { st with held := none, restarted := true }
    | _ => st
  let sends := e.obs.sends
  let all := st.allSends ++ sends
  let cls := stepClass e.kind sends
  let fail? : Option String :=
    if e.kind == 'L' then
      -- a duplicate reception of a stored bundle must not touch the budget: nothing is sent, the
      -- count and the record of who was served stay as they were
      if !sends.isEmpty then some s!"duplicate-reception-forwards sends={showSends sends}"
      else match st.held, e.obs.rem with
        | some h, some r =>
          if r != h then
            some s!"duplicate-reception-changes-count-{if st.originated then "own-bundle" else "relayed-bundle"} before={h} after={r}"
          else if st.sent.map sortNats != e.obs.sent.map sortNats then
            some s!"duplicate-reception-changes-sent-list-{if st.originated then "own-bundle" else "relayed-bundle"}"
          else none
        | some h, none => some s!"duplicate-reception-drops-metadata before={h}"
        | none, some r => some s!"duplicate-reception-creates-metadata after={r}"
        | none, none => none
    else
    match st.held, e.obs.rem with
    | some h, some r =>
      if !decide (SingleCopyWaits dest h sends) then
        some s!"single-copy-relayed-{cls} held={h} sends={showSends sends}"
      else match algo with
      | .spray =>
        if !decide (FailureReturnsCopy dest h sends r) then
          some s!"spray-failure-returns-copy-{cls} before={h} after={r} sends={showSends sends}"
        else if st.originated && !st.restarted && !decide (Conservation l dest all r) then
          some s!"spray-conservation-{cls} L={l} remaining={r} relayed={(relayed dest all).length}"
        else none
      | .binary =>
        if e.kind == 'O' then
          -- two forwarding steps at once: what was handed over successfully + what is kept = what was held
          let given := ((relayed dest sends).map (fun x => x.block.getD 0)).sum
          if r + given != h then
            some s!"binary-not-conserved-{cls} before={h} after={r} sends={showSends sends}"
          else none
        else
        match sends.filter (fun x => x.peer != dest) with
        | [] =>
          if r != h then some s!"binary-count-changed-without-relay-{cls} before={h} after={r}" else none
        | [x] =>
          if decide (BinarySplit h x r) then none
          else if x.block != some (h / 2) then
            some s!"binary-split-not-half held={h} announced={showSend x}"
          else if x.ok then some s!"binary-split-not-conserved held={h} announced={h / 2} kept={r}"
          else some s!"binary-failure-not-restored held={h} announced={h / 2} after={r}"
        | xs => some s!"binary-several-relays-in-one-step sends={showSends xs}"
    | _, _ => none
  let fail? := match fail? with
    | some f => some f
    | none =>
      if st.originated && algo == .spray && !decide (Budget l dest all) then
        some s!"spray-budget-exceeded L={l} relayed={(relayed dest all).length}"
      else none
  ({ st with allSends := all, held := if e.kind == 'X' then none else e.obs.rem,
             sent := if e.kind == 'X' then none else e.obs.sent }, fail?)

/-- The model's event for a harness event; the sender order puts the peers the node actually sent to
first (the manager's order is a `sync.Map` range: any order is possible, the model is asked whether
the observed choice is one of its outcomes). -/
def mkEvent (n : Nat) (e : EvLine) : Option (List Event) :=
  let order := e.obs.sends.map (·.peer) ++ List.range n
  let env : Env := { order := order, fails := e.fails, sched := mkSched e.sched n }
  match e.kind with
  | 'S' => some [.submit env]
  | 'R' => some [.receive e.k e.prev env]
  | 'U' => some [.peerUp e.peer env]
  | 'D' => some [.peerDown e.peer]
  | 'T' => some [.tick env]
  | 'O' => some [.tick env, .tick env]   -- the repaired code serialises the two runs
  | 'X' => some [.restart]
  | 'L' => some [.loopback e.k e.prev]
  | _ => none

/-- All ways to split a list into (chosen, rest). -/
def splits {α} : List α → List (List α × List α)
  | [] => [([], [])]
  | x :: xs => (splits xs).flatMap fun (a, b) => [(x :: a, b), (a, x :: b)]

/-- Two overlapping `forward` runs A and B under the repaired locking: each `SenderForBundle` and
each `ReportFailure` is atomic, so the outcomes are the sequential executions of
pick_A · (some of A's failure reports) · pick_B · (the other reports of A and those of B) —
give-backs commute, only their position relative to B's pick matters. (A direct delivery does not
consult the algorithm: A is over before B starts.) -/
def overlapOutcomes (s : Node) (envA envB : Env) : List Node :=
  if !s.stored || s.conn.contains s.dest then [run {} s [.tick envA, .tick envB]]
  else
    let (chA, md1) := choose s envA
    let sendsA := mkSends s envA chA
    let repA := mkReports s.algo sendsA
    (splits repA).map fun (early, late) =>
      let sB : Node := { s with md := giveBackAll {} s.algo md1 early }
      let (chB, md2) := choose sB envB
      let sendsB := mkSends sB envB chB
      let repB := mkReports s.algo sendsB
      { s with md := giveBackAll {} s.algo md2 (late ++ repB), log := s.log ++ sendsA ++ sendsB }

/-- All permutations (used for at most five observed peers). -/
def perms {α} : List α → List (List α)
  | [] => [[]]
  | x :: xs => (perms xs).flatMap fun p => (List.range (p.length + 1)).map fun i => p.take i ++ x :: p.drop i

def modelObs (before after : Node) : String :=
  let sends := sortSends (after.log.drop before.log.length)
  let rem := match after.md with | some m => toString m.remaining | none => "x"
  let sent := match after.md with | some m => showDots (sortNats m.sent) | none => "x"
  s!"{showSends sends}/{rem}/{sent}/{if after.stored then "p" else "g"}"

def implObs (o : Obs) : String :=
  let rem := match o.rem with | some r => toString r | none => "x"
  let sent := match o.sent with | some l => showDots (sortNats l) | none => "x"
  s!"{showSends (sortSends o.sends)}/{rem}/{sent}/{o.store}"

def handle (line : String) : String :=
  match fields line with
  | "h" :: alg :: l :: n :: toks =>
    match (if alg == "spray" then some Algo.spray else if alg == "binary" then some Algo.binary else none),
          l.toNat?, n.toNat?, toks.mapM parseEvent with
    | some algo, some l, some n, some evs =>
      -- 1. Spec on the implementation's observations
      let (_, specfail) := evs.foldl (init := (({} : SpecSt), (none : Option String))) fun (st, f) e =>
        match f with
        | some _ => (st, f)
        | none => let (st', f') := specEvent algo l st e; (st', f'.map (fun m => s!"{m} at={e.ev}"))
      match specfail with
      | some f => s!"specfail {f}"
      | none =>
        -- 2. correspondence with the model
        let node0 : Node := { algo := algo, l := l, dest := dest }
        let (_, diff) := evs.foldl (init := (node0, (none : Option String))) fun (s, d) e =>
          match d with
          | some _ => (s, d)
          | none =>
            match mkEvent n e with
            | none => (s, some s!"bad-event {e.ev}")
            | some mevs =>
              if e.kind == 'O' then
                -- the manager lists its senders in an arbitrary order, anew for each run: try all pairs
                let seen := (e.obs.sends.map (·.peer)).eraseDups
                let orders := if seen.length ≤ 4 then perms seen else [seen]
                let outs := orders.flatMap fun oa => orders.flatMap fun ob =>
                  overlapOutcomes s { order := oa ++ List.range n, fails := e.fails }
                    { order := ob ++ List.range n, fails := e.fails }
                let io := implObs e.obs
                match outs.find? (fun s' => modelObs s s' == io) with
                | some s' => (s', none)
                | none => (s, some s!"at={e.ev} model-outcomes={(outs.map (modelObs s)).eraseDups} impl={io}")
              else
              let s' := run {} s mevs
              if !runComplete {} s mevs then (s', some s!"model-schedule-incomplete at={e.ev}")
              else
                let mo := modelObs s s'
                let io := implObs e.obs
                if mo == io then (s', none) else (s', some s!"at={e.ev} model={mo} impl={io}")
        match diff with
        | some d => s!"diff {d}"
        | none => "ok"
    | _, _, _, _ => "skip parse"
  | ["gov", alg, l, "panic"] => s!"specfail panic-in-gated-overlap alg={alg} l={l}"
  | ["gov", alg, l, "second-run-hangs"] => s!"specfail second-run-hangs-while-a-transmission-is-in-progress alg={alg} l={l}"
  | ["gov", _alg, _l, "not-blocked"] => "skip first-transmission-not-blocked"
  | "gov" :: alg :: _l :: rest =>
    -- a transmission to A is in progress, another run hands B its share (success), then A's transmission fails:
    -- the copies kept afterwards plus the copies B got equal the copies held before, B is booked, A is not
    let get (k : String) : Option String :=
      (rest.find? (·.startsWith (k ++ "="))).map (fun f => (f.drop (k.length + 1)).toString)
    match (get "before").bind (·.toNat?), get "toA", get "okA", get "toB", get "okB", (get "after").bind (·.toNat?), get "sent" with
    | some before, some toA, some okA, some toB, some okB, some after, some sent =>
      -- the copies the node holds while A's transmission is in progress
      let held := if alg == "binary" then before - before / 2 else before - 1
      if okA == "false" && toB == "" then
        -- B was not served by the second run: right iff the node is down to its last copy (wait phase);
        -- A's failure then restores everything
        if 2 ≤ held then s!"specfail second-run-did-not-serve-new-peer before={before} held={held}"
        else if after != before then
          s!"specfail failure-not-restored-after-another-run before={before} after={after}"
        else if sent != "-" then s!"specfail failed-peer-still-booked-after-another-run sent={sent}"
        else "ok"
      else if okA != "false" || okB != "true" then "skip gated-overlap-answers"
      else if held < 2 then s!"specfail last-copy-given-away before={before} held={held}"
      else if alg == "binary" then
        match toA.toNat?, toB.toNat? with
        | some a, some b =>
          if a != before / 2 then s!"specfail binary-split-not-half before={before} announced={a}"
          else if b != (before - a) / 2 then s!"specfail binary-split-not-half before={before - a} announced={b}"
          else if after + b != before then
            s!"specfail binary-failure-not-restored-after-another-run before={before} toA={a} toB={b} after={after}"
          else if sent != "2" then s!"specfail failed-peer-still-booked-after-another-run sent={sent}"
          else "ok"
        | _, _ => "skip parse"
      else
        if after + 1 != before then
          s!"specfail spray-failure-returns-copy-after-another-run before={before} after={after}"
        else if sent != "2" then s!"specfail failed-peer-still-booked-after-another-run sent={sent}"
        else "ok"
    | _, _, _, _, _, _, _ => "skip parse"
  | _ => "skip unknown-op"

def main : IO Unit := run handle
