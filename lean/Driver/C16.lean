import Driver.Common
import Dtn7.Model.ClaManager

/-!
Driver for C16. One whole trace per input line (fields separated by blanks):

  <tag> <budget> <adapters> <steps>

  adapters = comma list of  <addr>:<kind>:<perm>:<eid>:<peer>:<script>
             kind s|r|b (sender, receiver, both), perm p|n, script = answers of the successive
             Start() calls that were really made: o (ok) r (error, retry) n (error, no retry), "-" = none
  steps    = ';' list of    <op>/<senders>/<receivers>/<events>/<outcome>
             op R<i> register, U<i> unregister, X<i> restart, T retry tick, P<i> peer disappeared, C close
             senders/receivers = '.' list of adapter numbers (sorted) or "-"   (Manager.Sender()/Receiver())
             events = '.' list of s<i><answer> (Start call) / c<i> (Close call) made during the step,
                      ordered by adapter (per adapter chronological), or "-"
             outcome k (returned) p (panic) d (dead-lock, 2 s watchdog); the trace ends at p or d

The implementation's observations are judged by `Spec.*` (specfail), then compared step by step with
the model run on the same operations, adapter configuration and scripts (diff).
-/
open Dtn7.ClaManager Driver

def natOfChars (cs : List Char) : Option Nat :=
  if cs.isEmpty then none
  else cs.foldlM (fun n c => if c.isDigit then some (n * 10 + (c.toNat - '0'.toNat)) else none) 0

def parseAns : Char → Option Ans
  | 'o' => some .ok
  | 'r' => some .failRetry
  | 'n' => some .failNoRetry
  | _ => none

def showAns : Ans → String
  | .ok => "o" | .failRetry => "r" | .failNoRetry => "n"

structure AdapterSpec where
  cfg : Cfg
  script : List Ans

def parseAdapter (s : String) : Option AdapterSpec :=
  match s.splitOn ":" with
  | [addr, kind, perm, eid, peer, sc] => do
    let addr ← addr.toNat?
    let eid ← eid.toNat?
    let peer ← peer.toNat?
    let script ← if sc == "-" then some [] else sc.toList.mapM parseAns
    let k ← match kind with
      | "s" => some (true, false)
      | "r" => some (false, true)
      | "b" => some (true, true)
      | _ => none
    some ⟨⟨addr, k.1, k.2, perm == "p", eid, peer⟩, script⟩
  | _ => none

def parseOp (s : String) : Option Op :=
  match s.toList with
  | ['T'] => some .tick
  | ['C'] => some .close
  | 'R' :: r => (natOfChars r).map .register
  | 'U' :: r => (natOfChars r).map .unregister
  | 'X' :: r => (natOfChars r).map .restart
  | 'P' :: r => (natOfChars r).map .peerDisappeared
  | _ => none

def showOp : Op → String
  | .register a => s!"R{a}" | .unregister a => s!"U{a}" | .restart a => s!"X{a}"
  | .tick => "T" | .peerDisappeared a => s!"P{a}" | .close => "C"

def opName : Op → String
  | .register _ => "register" | .unregister _ => "unregister" | .restart _ => "restart"
  | .tick => "tick" | .peerDisappeared _ => "peer-disappeared" | .close => "close"

def parseIds (s : String) : Option (List Nat) :=
  if s == "-" then some [] else (s.splitOn ".").mapM (·.toNat?)

def showIds (l : List Nat) : String :=
  if l.isEmpty then "-" else ".".intercalate (l.map toString)

def parseEvent (s : String) : Option Item :=
  match s.toList with
  | 'c' :: r => (natOfChars r).map .stop
  | 's' :: r =>
    match r.reverse with
    | a :: d => do
      let ans ← parseAns a
      let i ← natOfChars d.reverse
      some (.start i ans)
    | [] => none
  | _ => none

def parseEvents (s : String) : Option (List Item) :=
  if s == "-" then some [] else (s.splitOn ".").mapM parseEvent

def showEvent : Item → String
  | .start a r => s!"s{a}{showAns r}"
  | .stop a => s!"c{a}"
  | .op o => s!"?{showOp o}"

def showEvents (l : List Item) : String :=
  if l.isEmpty then "-" else ".".intercalate (l.map showEvent)

def itemKey : Item → Nat
  | .start a _ => a
  | .stop a => a
  | .op _ => 0

structure GoStep where
  op : Op
  senders : List Nat
  receivers : List Nat
  events : List Item      -- chronological per adapter, ordered by adapter
  outcome : Outcome

def parseStep (s : String) : Option GoStep :=
  match s.splitOn "/" with
  | [o, snd, rcv, ev, out] => do
    let o ← parseOp o
    let snd ← parseIds snd
    let rcv ← parseIds rcv
    let ev ← parseEvents ev
    let out ← match out with
      | "k" => some Outcome.ok
      | "p" => some Outcome.panic
      | "d" => some Outcome.deadlock
      | _ => none
    some ⟨o, snd, rcv, ev, out⟩
  | _ => none

def showOutcome : Outcome → String
  | .ok => "k" | .panic => "p" | .deadlock => "d"

def showStep (o : Op) (snd rcv : List Nat) (ev : List Item) (out : Outcome) : String :=
  s!"{showOp o}/{showIds snd}/{showIds rcv}/{showEvents ev}/{showOutcome out}"

def sortNat (l : List Nat) : List Nat := l.mergeSort (fun a b => decide (a ≤ b))

/-- The first failing Spec clause for one observation of the implementation, as a class name. -/
def specClass (cfg : Nat → Cfg) (b : Nat) (o : Obs) : Option String :=
  if !Spec.noPanic o then
    some (match o.outcome with
      | .deadlock => s!"deadlock-on-{opName o.op}"
      | _ => s!"panic-on-{opName o.op}")
  else if o.outcome != .ok then none
  else if !Spec.activeIffStarted cfg o then
    let all := o.senders ++ o.receivers ++ Spec.adapters o.hist
    let ghost := all.find? fun a =>
      (o.senders.contains a || o.receivers.contains a) && !Spec.running a o.hist
    match ghost with
    | some a => some (if (cfg a).permanent then "active-not-started-permanent" else "active-not-started")
    | none => some "started-not-listed"
  else if !Spec.startedOnlyRegistered cfg o.hist then
    some (match o.op with
      | .tick => "retry-tick-starts-unregistered-adapter"
      | _ => "start-of-unregistered-adapter")
  else if !Spec.discipline o.hist then
    some (match o.hist.find? (fun | .op _ => false | _ => true) with
      | some (.stop _) => "close-of-not-started"
      | _ => "start-or-close-out-of-order")
  else if !Spec.closeStops o then some "close-leaves-adapter-running"
  else if !Spec.budgetRespected cfg b o.hist then some "budget-exceeded"
  else if !Spec.permanentRetried cfg o then some "permanent-not-retried-once"
  else if !Spec.singleInstance cfg o.hist then some "two-instances-one-address"
  else if !Spec.restartRestarts cfg b o then
    some (match o.op with
      | .peerDisappeared _ => "peer-loss-does-not-restart"
      | _ => "restart-does-not-restart")
  else none

def lookupAdapter (ads : List AdapterSpec) (a : Nat) : AdapterSpec :=
  ads.getD a ⟨⟨1000 + a, false, false, false, 0, 0⟩, []⟩

/-- Go's observations as `Obs` (cumulative log, newest first). -/
def goObs : Hist → List GoStep → List Obs
  | _, [] => []
  | h, g :: gs =>
    let h' := g.events.reverse ++ (.op g.op :: h)
    ⟨g.op, h', g.senders, g.receivers, g.outcome⟩ :: goObs h' gs

def firstSome {α β} (f : α → Option β) : List α → Option (Nat × β) :=
  let rec go (i : Nat) : List α → Option (Nat × β)
    | [] => none
    | x :: xs => match f x with
      | some y => some (i, y)
      | none => go (i + 1) xs
  go 0

/-- The model's step in the harness' notation. -/
def modelStep (env : Env) (s : State) (o : Op) : State × String :=
  let s' := step env s o
  let new := (s'.hist.take (s'.hist.length - s.hist.length - 1)).reverse
  let evs := new.mergeSort (fun a b => decide (itemKey a ≤ itemKey b))
  if s'.panicked then (s', showStep o [] [] evs .panic)
  else (s', showStep o (sortNat (sendersOf env s')) (sortNat (receiversOf env s')) evs .ok)

def compare (env : Env) : State → Nat → List GoStep → Option String
  | _, _, [] => none
  | s, i, g :: gs =>
    let (s', ms) := modelStep env s g.op
    let gsStr := showStep g.op g.senders g.receivers g.events g.outcome
    if ms != gsStr then some s!"step={i} model={ms} impl={gsStr}"
    else if s'.panicked then (if gs.isEmpty then none else some s!"step={i} impl-continues-after-panic")
    else compare env s' (i + 1) gs

def handle (line : String) : String :=
  match fields line with
  | [_tag, b, ads, steps] =>
    match b.toNat?, (ads.splitOn ",").mapM parseAdapter, (steps.splitOn ";").mapM parseStep with
    | some b, some ads, some gsteps =>
      let cfg : Nat → Cfg := fun a => (lookupAdapter ads a).cfg
      let script : Nat → Nat → Ans := fun a k => (lookupAdapter ads a).script.getD k .ok
      let obs := goObs [] gsteps
      match firstSome (specClass cfg b) obs with
      | some (i, cls) =>
        let g := gsteps.getD i ⟨.tick, [], [], [], .ok⟩
        s!"specfail {cls} step={i} {showStep g.op g.senders g.receivers g.events g.outcome}"
      | none =>
        let env : Env := { cfg := cfg, script := script, budget := b, fixed := true }
        match compare env {} 0 gsteps with
        | some d => s!"diff {d}"
        | none => "ok"
    | _, _, _ => "skip parse"
  | _ => "skip unknown-line"

def main : IO Unit := run handle
