import Dtn7.Drv.NodeLine
import Dtn7.Gen.C05

/-!
Driver for C05 (store-carry-forward). Line format and judgement: `Dtn7/Drv/NodeLine.lean`.
The code variant the model mirrors is selected by facts regenerated from the source
(`Dtn7.Gen.C05.seqAssignedFirst`, `Dtn7.Gen.C05.expiryCountsFromNow`).

  H.<algo> …        one history → Spec clauses `Retained`, `SentToDestination`, `EpidemicFlood`, restart
  CONC.<algo> …     two simultaneous transmission failures of one bundle (see `NodeLine.judgeConc`)
  MID.<algo> …      the persistent record while a transmission is in progress (`NodeLine.judgeMid`)
  OVL.<algo> …      a peer appears while another pending-bundles run is blocked in a Send (`NodeLine.judgeOvl`)
-/
open Dtn7.Node

def handle (line : String) : String :=
  if line.startsWith "CONC." then NodeLine.judgeConc line
  else if line.startsWith "MID." then NodeLine.judgeMid line
  else if line.startsWith "OVL." then NodeLine.judgeOvl line
  else NodeLine.judge ⟨Dtn7.Gen.C05.seqAssignedFirst, Dtn7.Gen.C05.sendBundleSkipsStored, Dtn7.Gen.C05.expiryCountsFromNow, Dtn7.Gen.C05.dtlsrReportsFailure,
    Dtn7.Gen.C05.dispatchingHoldsRefused, Dtn7.Gen.C05.epidemicGateServesDirect⟩ c05FailX line

def main : IO Unit := Driver.run handle
