import Driver.Common
import Dtn7.Model.Fragment
import Dtn7.Model.FragmentBundle

/-!
Driver for C09. One input line per call of the real `Bundle.Fragment` (blank separated):

  frag <mtu> <bflags> <off> <total> <zt> <pbase> <size> <first> <others> <pl> <blocks> <payload> <res> <reasm> <bundle>

  mtu      the size limit given to Fragment
  bflags   bundle processing control flags of the input (0x01 is-fragment, 0x04 must-not-fragment)
  off,total FragmentOffset / TotalDataLength of the input (second-level fragmentation)
  zt       1 iff the creation time is zero (a Bundle Age block is then mandatory)
  pbase    len(fragmentPrimaryBlock(pb, 0, 0)) - 2
  size     serialised length of the input bundle
  first,others   what the real fragmentExtensionBlocksLen(b, mtu) returned ("e" = error)
  pl       payload block  <replicate>:<priced>:<actual0>
  blocks   "-" or comma list  <num>:<type>:<replicate>:<priced>:<actual>   (bundle order, payload excluded)
  payload  hex
  res      err:mnf | err:overhead | err:empty | err:invalid | err:other | panic | hang | empty | self |
           ';' list of fragments  <off>:<total>:<plen>:<size>:<flags>:<ident>:<blocks>:<sliceok>:<valid>:<payloadhex>
           ident = five 0/1 digits (source, timestamp, destination, report-to, lifetime equal to the input's)
           blocks = "-" or '.' list  <num>/<type>/<len>/<same>
  reasm    na | <good>/<n>[:<first failure: err|panic|differs>]   Go ReassembleFragments on n shuffles,
           serialisation compared with the original's
  bundle   hex of the input bundle: the replay input, and parsed with the codec model (`Bundle.parseRaw`) so that
           `inOf` — the numbers the theorems `fragments_fit_mtu` / `pricing_holds` speak about — is compared
           field by field with the numbers measured on the real code
-/
open Dtn7.Frag Driver

def nat? (s : String) : Option Nat := s.toNat?

def parseBlk (s : String) : Option Blk :=
  match s.splitOn ":" with
  | [n, t, r, p, a] =>
    match nat? n, nat? t, nat? r, nat? p, nat? a with
    | some n, some t, some r, some p, some a => some ⟨n, t, r == 1, p, a⟩
    | _, _, _, _, _ => none
  | _ => none

def parseBlks (s : String) : Option (List Blk) :=
  if s == "-" then some [] else (s.splitOn ",").mapM parseBlk

def parsePl (s : String) : Option PBlk :=
  match s.splitOn ":" with
  | [r, p, a] =>
    match nat? r, nat? p, nat? a with
    | some r, some p, some a => some ⟨r == 1, p, a⟩
    | _, _, _ => none
  | _ => none

structure GoFrag where
  obs : Obs
  nums : List Nat
  lens : List Nat
deriving Repr

def parseFBlocks (s : String) : Option (List (Nat × Nat × Nat × Nat)) :=
  if s == "-" then some [] else
  (s.splitOn ".").mapM fun b =>
    match b.splitOn "/" with
    | [n, t, l, sm] =>
      match nat? n, nat? t, nat? l, nat? sm with
      | some n, some t, some l, some sm => some (n, t, l, sm)
      | _, _, _, _ => none
    | _ => none

def parseFrag (s : String) : Option GoFrag :=
  match s.splitOn ":" with
  | [o, t, l, sz, fl, id, bl, sl, va, hx] =>
    match nat? o, nat? t, nat? l, nat? sz, nat? fl, parseFBlocks bl, parseHex hx with
    | some o, some t, some l, some sz, some fl, some bl, some d =>
      some { obs := { off := o, total := t, len := l, size := sz, flags := fl, valid := va == "1", identOk := id == "11111",
                      types := bl.map (·.2.1), blocksOk := bl.all (·.2.2.2 == 1) && sl == "1", data := d },
             nums := bl.map (·.1), lens := bl.map (·.2.2.1) }
    | _, _, _, _, _, _, _ => none
  | _ => none

def showErr : Err → String
  | .mustNotFragment => "err:mnf"
  | .overhead => "err:overhead"
  | .emptyResult => "err:empty"
  | .invalid => "err:invalid"

def showFrag (x : In) (f : Frag) : String :=
  s!"{f.off}:{f.total}:{f.data.length}:{fragSize x f}:{f.carried.map (·.type)}"

def showGo (g : GoFrag) : String :=
  s!"{g.obs.off}:{g.obs.total}:{g.obs.len}:{g.obs.size}:{g.obs.types}"

def cfg : Cfg := Cfg.fixed

/-- Block numbers 2, 3, … in bundle order (the only numbering `AddExtensionBlock` reproduces). -/
def numbersCanonical (bs : List Blk) : Bool :=
  bs.map (·.num) == (List.range bs.length).map (· + 2)

def judgeSpec (x : In) (res reasm : String) : String :=
  let l := x.payload.length
  let rf := if x.isFragment then "-refragment" else ""
  let ep := if l == 0 then "-empty-payload" else ""
  let ctx := s!"mtu={x.mtu} size={x.size} len={l} res={res.take 120}"
  if res == "panic" then s!"specfail panic-in-fragment{rf} {ctx}"
  else if res == "hang" then s!"specfail fragment-does-not-terminate{rf} {ctx}"
  else if x.mustNotFragment then
    if res.startsWith "err:" then
      (if fragment cfg x == .error .mustNotFragment && res == "err:mnf" then "ok" else s!"diff mnf impl={res}")
    else s!"specfail must-not-fragment-not-refused {ctx}"
  else if x.size ≤ x.mtu then
    if res == "self" then (if fragment cfg x == .self then "ok" else "diff self")
    else if res == "empty" then s!"specfail fits-returned-empty-list{ep}{rf} {ctx}"
    else if res.startsWith "err:" then s!"specfail fits-but-error{ep}{rf} {ctx}"
    else s!"specfail fits-but-split{rf} {ctx}"
  else if res == "empty" then s!"specfail empty-list{ep}{rf} {ctx}"
  else if res == "self" then s!"specfail fragment-larger-than-mtu-returned-itself{rf} {ctx}"
  else if res.startsWith "err:" then
    match fragment cfg x with
    | .error e => if showErr e == res then "ok" else s!"diff error model={showErr e} impl={res}"
    | .self => s!"diff error model=self impl={res}"
    | .frags fs => s!"diff error model={fs.map (showFrag x)} impl={res}"
  else
    match (res.splitOn ";").mapM parseFrag with
    | none => "skip parse-frags"
    | some gs =>
      let start := if x.isFragment then x.off else 0
      let total := if x.isFragment then x.total else l
      match fragmentsFail x start total (gs.map (·.obs)) with
      | some cls => s!"specfail {cls}{rf} {ctx}"
      | none =>
        -- reassembly in every tried order must give back the original serialisation
        let reasmOk := reasm == "na" || (match reasm.splitOn "/" with
          | [a, b] => a == b
          | _ => false)
        if !reasmOk then
          let kind := match reasm.splitOn ":" with
            | [_, k] => k
            | _ => "unparsed"
          let cls := if kind == "differs" && !numbersCanonical x.blocks then "differs-block-numbers-or-order-not-2..k"
                     else kind
          s!"specfail reassembly-{cls}{rf} reasm={reasm} nums={x.blocks.map (·.num)} {ctx}"
        else
          -- correspondence with the model
          match fragment cfg x with
          | .frags fs =>
            if fs.map (showFrag x) == gs.map showGo then
              -- block numbers and lengths are those of the original
              if gs.all (fun g => (g.nums.zip g.obs.types).all (fun (n, t) => x.blocks.any (fun b => b.num == n && b.type == t))) then "ok"
              else s!"diff block-numbers impl={gs.map (·.nums)}"
            else s!"diff frags model={fs.map (showFrag x)} impl={gs.map showGo}"
          | .self => s!"diff frags model=self impl={gs.map showGo}"
          | .error e => s!"diff frags model={showErr e} impl={gs.map showGo}"

def judge (x : In) (first others res reasm : String) : String :=
  let ctx := s!"mtu={x.mtu} size={x.size} len={x.payload.length} res={res.take 120}"
  -- A Spec failure on the implementation's output always takes precedence; only if the Spec holds are
  -- the model's assumptions (hypotheses of `size_bound`, the estimate) and its outputs compared.
  let pre : Option String :=
    if !(x.blocks.all (fun b => b.actual ≤ b.priced) && x.pl.actual0 ≤ x.pl.priced && 1 ≤ x.pl.actual0) then
      some s!"diff pricing-hypothesis block longer than priced {ctx}"
    else if first != "e" && (first != toString (extLen x).1 || others != toString (extLen x).2) then
      some s!"diff extLen model={(extLen x).1},{(extLen x).2} impl={first},{others}"
    else none
  let v := judgeSpec x res reasm
  if v.startsWith "specfail" then v else pre.getD v

def handle (line : String) : String :=
  match fields line with
  | ["frag", mtu, bflags, off, total, zt, pbase, size, first, others, pl, blocks, payload, res, reasm, bundle] =>
    match nat? mtu, nat? bflags, nat? off, nat? total, nat? pbase, nat? size, parsePl pl, parseBlks blocks,
          parseHex payload with
    | some mtu, some bflags, some off, some total, some pbase, some size, some pl, some blocks, some payload =>
      let x : In := { mtu, flags := bflags, off, total, zeroTime := zt == "1", pbase, size, pl, blocks, payload }
      let v := judge x first others res reasm
      if v != "ok" then v else
      -- the abstract input of the codec model's bundle must be the measured one
      match parseHex bundle with
      | none => "skip parse-bundle-hex"
      | some bs =>
        match Dtn7.Bundle.parseRaw {} bs with
        | .error _ => "diff codec-model-does-not-parse-the-bundle"
        | .ok (b, _) =>
          let y := inOf b mtu
          if y == x then "ok"
          else s!"diff inOf flags={y.flags} off={y.off} total={y.total} zt={y.zeroTime} pbase={y.pbase} size={y.size} pl={repr y.pl} blocks={repr y.blocks} payload-equal={y.payload == x.payload}"
    | _, _, _, _, _, _, _, _, _ => "skip parse"
  | _ => "skip unknown-op"

def main : IO Unit := run handle
