import Driver.Common
import Dtn7.Model.Bundle
import Dtn7.Model.BundleSpec
import Dtn7.Model.BundleText

/-!
Driver for C01 (bundle wire codec). Input lines (`key=value` tokens after the operation name; bundle
structures in the text format of `Dtn7.Model.BundleText`):

  ser extra=<codes|-> now0=<ms> now1=<ms> b=<bundle> out=<hex|err|panic:…> back=<same|bundle|err|partial:n|-> again=<same|hex|err|->
      implementation: `Bundle.MarshalCbor` of the described structure; then `ParseBundle` of those bytes
      (`back`, "same" = structure identical) and `MarshalCbor` of the result (`again`).
  par extra=<codes|-> now0=<ms> now1=<ms> in=<hex> res=<ok|err|panic> [used=<n> dump=<bundle>
      reser=<same|hex|err> re2=<same|bundle|err|partial:n|-> reser2=<same|hex|err|->]
      implementation: `ParseBundle` of arbitrary bytes; for an accepted input the structure, the bytes
      consumed, the re-serialisation, its re-parse and the second re-serialisation.

`extra` lists the block types among 192..195 registered with the extension block manager, `now0/now1`
bracket the call (DTN time, ms).
-/
open Dtn7.Cbor Dtn7.Eid Dtn7.Bundle Dtn7.BundleText
open Driver (fields run)

/-- The code the model describes: with the repairs of D5/D6/D7 (`Dtn7.Gen.C01.strict`, checked by
`Dtn7.Props.C01.gen_strict`). -/
def strictCode : Bool := true

def cfgOf (toks : List String) : Option Cfg := do
  let ex ← readNatList (← kv toks "extra")
  some { extra := ex, strict := strictCode }

def isErr {α} : Except Err α → Bool
  | .error _ => true
  | .ok _ => false

/-- Why a structure that was accepted cannot be written again (input class of the finding). -/
def unserialisableClass (b : Bundle) : String :=
  if !crcKnown b.primary.crcT || b.blocks.any (fun c => !crcKnown c.crcT) then "crc-type-unknown"
  else if b.blocks.any (fun c => match c.value with
      | .dtlsr id _ ps => !(id.valid && ps.all (·.1.valid))
      | .prophet m => !m.all (·.1.valid)
      | _ => false) then "invalid-eid-in-map-block"
  else "other"

def idOf (b : Bundle) : String :=
  s!"{showEid b.primary.src}-{b.primary.tsTime}-{b.primary.tsSeq}-{has b.primary.flags bIsFragment}-{b.primary.fragOff}-{b.primary.total}"

def allWf (now : Nat) (b : Bundle) : Bool := (wfRules now b).all (·.2)

def sigSizesOk (b : Bundle) : Bool :=
  b.blocks.all fun c => match c.value with
    | .signature pk sg => pk.length == 32 && sg.length == 64
    | _ => true

/-- The structure is one the wire can carry as such (what "valid bundle" presupposes in C01):
non-fragments carry no fragment fields, typed values sit under registered codes, generic values
under unregistered ones, numbers fit. -/
def canonicalStruct (cfg : Cfg) (b : Bundle) : Bool :=
  (has b.primary.flags bIsFragment || (b.primary.fragOff == 0 && b.primary.total == 0)) &&
  b.blocks.all fun c => match c.value with
    | .generic t _ => !cfg.registered t
    | .hop l k => l < 256 && k < 256
    | v => cfg.registered v.typeCode

def handleSer (toks : List String) : String :=
  match cfgOf toks, (kv toks "b").bind readBundle, kv toks "out", (kv toks "now0").bind (·.toNat?),
        (kv toks "now1").bind (·.toNat?) with
  | some cfg, some b, some out, some now0, some _now1 =>
    let back := (kv toks "back").getD "-"
    let again := (kv toks "again").getD "-"
    if out.startsWith "panic" then s!"specfail panic-in-marshal {clip out}" else
    let m := serialize b
    -- Spec (first sentence of C01) on the implementation's outputs
    let valid := allWf now0 b && sigSizesOk b && canonicalStruct cfg b && b.serializable
    if valid && out == "err" then "specfail valid-bundle-not-serialisable"
    else if valid && back == "err" then
      (if allWf (now0 + 5000) b then "specfail valid-bundle-rejected-after-serialising" else "ok expired-meanwhile")
    else if valid && back.startsWith "partial" then "specfail serialised-bundle-not-consumed-exactly"
    else if valid && back != "same" then s!"specfail roundtrip-structure-differs back={clip back}"
    else if valid && again != "same" && !hasMultiMap b then "specfail roundtrip-bytes-differ"
    else
    -- correspondence
    match m, parseHex out with
    | .error _, _ => if out == "err" then "ok" else s!"diff ser model=err impl={clip out}"
    | .ok mb, some ob =>
      if out == "err" then s!"diff ser model={clip (toHex mb)} impl=err"
      else if mb == ob then "ok"
      else if hasMultiMap b then
        match parseRaw cfg ob with
        | .ok (b', []) =>
          if sameBundle b' { b with primary := { b.primary with version := dtnVersion } } && ob.length == mb.length then "ok map-order"
          else s!"diff ser-map model={clip (toHex mb)} impl={clip out}"
        | _ => s!"diff ser-map-unparsable impl={clip out}"
      else s!"diff ser model={clip (toHex mb) 400} impl={clip out 400}"
    | .ok _, none => "skip parse-out"
  | _, _, _, _, _ => "skip parse"

def handlePar (toks : List String) : String :=
  match cfgOf toks, (kv toks "in").bind parseHex, kv toks "res", (kv toks "now0").bind (·.toNat?),
        (kv toks "now1").bind (·.toNat?) with
  | some cfg, some inp, some res, some now0, some now1 =>
    let m0 := parse cfg now0 inp
    let m1 := parse cfg (now1 + 1) inp
    if res == "panic" then "specfail panic-in-parse"
    else if res == "err" then
      if isErr m0 || isErr m1 then "ok"
      else s!"diff par model=accept impl=reject"
    else
    match (kv toks "dump").bind readBundle, (kv toks "used").bind (·.toNat?), kv toks "reser",
          kv toks "re2", kv toks "reser2" with
    | some d, some used, some reser, some re2, some reser2 =>
      -- Spec (second sentence of C01) on the implementation's outputs
      if reser == "err" || reser.startsWith "panic" then
        s!"specfail accepted-not-reserialisable-{unserialisableClass d} reser={clip reser}"
      else if re2 == "err" || re2 == "panic" then
        (if allWf (now1 + 5000) d then "specfail reserialised-bytes-rejected" else "ok expired-meanwhile")
      else if re2.startsWith "partial" then "specfail reserialised-bytes-not-consumed-exactly"
      else if re2 != "same" then
        match readBundle re2 with
        | none => "skip parse-re2"
        | some d2 =>
          if idOf d2 != idOf d then
            (if !has d.primary.flags bIsFragment && (d.primary.fragOff != 0 || d.primary.total != 0)
             then "specfail bundle-id-differs-fragment-fields-without-fragment-flag"
             else s!"specfail bundle-id-differs {idOf d} vs {idOf d2}")
          else s!"specfail blocks-differ-after-reserialising re2={clip re2}"
      else if reser2 != "same" && !hasMultiMap d then "specfail reserialisation-not-stable"
      else if d.blocks.getLast?.map isPayload != some true then
        "specfail reparsed-bundle-payload-block-not-last"
      else
      -- correspondence
      let pick := match m0, m1 with
        | .ok x, _ => some x
        | _, .ok x => some x
        | _, _ => none
      match pick with
      | none => s!"diff par model=reject impl=accept dump={clip (showBundle d) 300}"
      | some (mb, rest) =>
        if !sameBundle mb d then s!"diff par-structure model={clip (showBundle mb) 300} impl={clip (showBundle d) 300}"
        else if inp.length - rest.length != used then s!"diff par-consumed model={inp.length - rest.length} impl={used}"
        else
          let goReser := if reser == "same" then some inp else parseHex reser
          match serialize d, goReser with
          | .ok ms, some gs =>
            if ms == gs || (hasMultiMap d && ms.length == gs.length) then "ok"
            else s!"diff par-reser model={clip (toHex ms) 300} impl={clip (toHex gs) 300}"
          | .error _, _ => "diff par-reser model=err impl=bytes"
          | _, none => "skip parse-reser"
    | _, _, _, _, _ => "skip parse-ok-fields"
  | _, _, _, _, _ => "skip parse"

def handle (line : String) : String :=
  match fields line with
  | "ser" :: toks => handleSer toks
  | "par" :: toks => handlePar toks
  | _ => "skip unknown-op"

def main : IO Unit := run handle
