import Dtn7.Drv.NodeLine
import Dtn7.Gen.C13

/-!
Driver for C13 (never back to the previous node, never twice to one peer). Line format and judgement:
`Dtn7/Drv/NodeLine.lean`; Spec clauses `NoReturn`, `NoDup`, `FailureReenablesExactly`, spray bookkeeping,
restart. The code variant the model mirrors is selected by facts regenerated from the source.
-/
open Dtn7.Node

def handle (line : String) : String :=
  NodeLine.judge ⟨Dtn7.Gen.C13.seqAssignedFirst, Dtn7.Gen.C13.sendBundleSkipsStored, Dtn7.Gen.C13.expiryCountsFromNow, Dtn7.Gen.C13.dtlsrReportsFailure,
    Dtn7.Gen.C13.dispatchingHoldsRefused, Dtn7.Gen.C13.epidemicGateServesDirect⟩ c13Fail line

def main : IO Unit := Driver.run handle
