import Driver.Common
import Dtn7.Model.Store

/-!
Driver for C08 (stateful). Input lines, fields separated by blanks:

  begin  <sid> seed=<n> now=<unix ms>
  op     <sid> <n> <desc> res=<r> <dump>
  crash  <sid> <n> <point>:<nth> <desc> exit=<code> <dump>      the operation ran in a child process
         that exited at the nth hit of the hook point (exit 77) or finished (exit 0); <dump> after reopen
  conc   <sid> <n> first=<1|2> <push1> <push2> parked=<b> blocked=<b> res=<r1>,<r2> <dump>
  stress <sid> <n> n=<k> <push>*k res=<r>*k <dump>

  <desc> = push:<id>:<frag>:<paylen>:<expires ms>:<hex>   frag = - | <off>.<total>
         | update:<id>:<pending>:<expires>:<props>        props = - | k=v&k=v (sorted)
         | delete:<id> | sweep:<now ms> | reopen | query:<id> | junk:<id>~<frag>:<hex>
         | replace:<id>:<frag>:<paylen>:<expires ms>:<hex>     Store.ReplaceBundle
         | pushfail:…                                          Push while the part file cannot be written
  <dump> = st=<items> files=<files> pend=<ids> knows=<ids>     ("-" = empty, lists comma separated)
  item   = <id>/<pending>/<expires>/<fragmented>/<props>/<complete>/<load>/<part>+<part>…
  part   = <off>:<total>:<file label>:<hex of the re-serialised read-back | !>
  file   = <id>~<frag>#<size>   (<id>~<frag>!tmp#<size> for the temporary file of replaceBundle)

Verdicts: the Go dump is judged against the reference map (`specStep`, a plain association map) →
`specfail <aspect>-after-<op kind>`; then compared with the model state (`step`, `crash`, the two
serial orders for `conc`) → `diff`.
-/
open Dtn7.Store Driver

namespace C08

def after (pre s : String) : Option String :=
  if s.startsWith pre then some (String.ofList (s.toList.drop pre.length)) else none

def parseId (s : String) : Option Id :=
  match (s.splitOn ".").map String.toNat? with
  | [some a, some b, some c] => some ⟨a, b, c⟩
  | _ => none

def showId (i : Id) : String := s!"{i.src}.{i.ts}.{i.seq}"

def idLt (a b : Id) : Bool :=
  a.src < b.src || (a.src == b.src && (a.ts < b.ts || (a.ts == b.ts && a.seq < b.seq)))

def parseFrag (s : String) : Option Frag :=
  if s == "-" then some none else
  match (s.splitOn ".").map String.toNat? with
  | [some o, some t] => some (some (o, t))
  | _ => none

def showFrag : Frag → String
  | none => "-"
  | some (o, t) => s!"{o}.{t}"

def parseProps (s : String) : Props :=
  if s == "-" then [] else
  (s.splitOn "&").map fun kv =>
    match kv.splitOn "=" with
    | k :: v => (k, "=".intercalate v)
    | [] => ("", "")

def showProps (p : Props) : String :=
  if p.isEmpty then "-" else "&".intercalate (p.map fun (k, v) => s!"{k}={v}")

def b01 (b : Bool) : String := if b then "1" else "0"

/-! ### Go dump -/

structure GPart where
  off : Nat
  total : Nat
  label : String
  data : String
deriving BEq, Repr

structure GItem where
  id : Id
  pending : String
  expires : Nat
  fragmented : String
  props : String
  complete : String
  load : String
  parts : List GPart
deriving BEq, Repr

structure GDump where
  items : List GItem
  files : List String
  pend : List String
  knows : List String
deriving BEq, Repr

def showItem (it : GItem) : String :=
  let ps := it.parts.map fun p => s!"{p.off}:{p.total}:{p.label}:{p.data}"
  s!"{it.pending}/{it.expires}/{it.fragmented}/{it.props}/{it.complete}/{it.load}/{"+".intercalate ps}"

def csv (s : String) : List String := if s == "-" then [] else s.splitOn ","

def parsePart (s : String) : Option GPart :=
  match s.splitOn ":" with
  | [o, t, l, d] => do some ⟨← o.toNat?, ← t.toNat?, l, d⟩
  | _ => none

def parseItem (s : String) : Option GItem :=
  match s.splitOn "/" with
  | [i, p, e, f, pr, c, l, ps] => do
    let parts ← (if ps == "" then some [] else (ps.splitOn "+").mapM parsePart)
    some ⟨← parseId i, p, ← e.toNat?, f, pr, c, l, parts⟩
  | _ => none

def parseDump (fs : List String) : Option GDump :=
  match fs with
  | [a, b, c, d] => do
    let st ← after "st=" a
    let items ← (csv st).mapM parseItem
    some ⟨items, csv (← after "files=" b), csv (← after "pend=" c), csv (← after "knows=" d)⟩
  | _ => none

/-! ### Operations -/

inductive DOp where
  | cmd (c : Cmd)
  | query (id : Id)
  | junk (n : Name) (d : Bytes)
  | pushFail (b : Bundle)      -- Push while the part file cannot be written
  | staleUpdate (id : Id)      -- Store.Update with an item that was read before its record was removed

def parseBundle (kw : String) (s : String) : Option Bundle :=
  match s.splitOn ":" with
  | [k, i, f, pl, ex, h] =>
    if k == kw then do some ⟨← parseId i, ← parseFrag f, ← pl.toNat?, ← ex.toNat?, ← parseHex h⟩ else none
  | _ => none

def parsePush (s : String) : Option Bundle := parseBundle "push" s

def parseDesc (s : String) : Option DOp :=
  match s.splitOn ":" with
  | "push" :: _ => (parsePush s).map fun b => .cmd (.op (.push b))
  | "replace" :: _ => (parseBundle "replace" s).map fun b => .cmd (.op (.replace b))
  | "pushfail" :: rest => (parsePush (":".intercalate ("push" :: rest))).map .pushFail
  | ["update", i, p, e, pr] => do
    some (.cmd (.op (.update (← parseId i) (p == "1") (← e.toNat?) (parseProps pr))))
  | ["delete", i] => (parseId i).map fun i => .cmd (.op (.delete i))
  | ["staleupdate", i] => (parseId i).map .staleUpdate
  | ["sweep", n] => n.toNat?.map fun n => .cmd (.sweep n)
  | ["reopen"] => some (.cmd .reopen)
  | ["query", i] => (parseId i).map .query
  | ["junk", n, h] =>
    match n.splitOn "~" with
    | [i, f] => do some (.junk ⟨← parseId i, ← parseFrag f, false⟩ (← parseHex h))
    | _ => none
  | _ => none

def opKind : DOp → String
  | .cmd (.op (.push b)) => if b.frag.isSome then "push-fragment" else "push-bundle"
  | .cmd (.op (.update ..)) => "update"
  | .cmd (.op (.delete _)) => "delete"
  | .cmd (.op (.replace _)) => "replace-bundle"
  | .cmd (.sweep _) => "sweep"
  | .cmd .reopen => "reopen"
  | .query _ => "query"
  | .junk .. => "junk"
  | .pushFail _ => "push-failed-write"
  | .staleUpdate _ => "stale-update"

/-! ### Driver state -/

structure DState where
  sid : String := ""
  now : Nat := 0
  table : List Bundle := []     -- every bundle mentioned so far: the parser's domain
  model : State := State.empty
  spec : SMap := []
  failed : Bool := false        -- a Spec failure was reported in this sequence
  modelOff : Bool := false      -- model and implementation diverged in this sequence: Spec only

/-- `bpv7.ParseBundle` on a part file: the bundle whose encoding starts the file; rejected when
its lifetime is exceeded (`CheckValid`). -/
def mkParse (now : Nat) (table : List Bundle) (bytes : Bytes) : Option Bundle :=
  (table.find? (fun b => b.bytes.isPrefixOf bytes)).bind fun b =>
    if b.expires < now then none else some b

def insertSorted {α} (lt : α → α → Bool) (x : α) : List α → List α
  | [] => [x]
  | y :: r => if lt x y then x :: y :: r else y :: insertSorted lt x r

def sortBy {α} (lt : α → α → Bool) (l : List α) : List α := l.foldr (insertSorted lt) []

def showName (n : Name) : String := s!"{showId n.id}~{showFrag n.frag}{if n.tmp then "!tmp" else ""}"

/-- Harness's notion of a set on which `Load` is attempted and `complete` is compared: one common
total length (mixed totals are C10's subject). -/
def cleanIvs (ivs : List (Nat × Nat × Nat)) : Bool :=   -- (off, len, total), sorted by off
  match ivs with
  | [] => true
  | (_, _, t0) :: _ => ivs.all (fun iv => iv.2.2 == t0)

/-- Render the model state the way the harness renders the store. -/
def modelDump (d : DState) (s : State) (sortParts : Bool) : GDump :=
  let parse := mkParse d.now d.table
  let ids := sortBy idLt ((d.table.map (·.id)).eraseDups)
  let items := ids.filterMap fun id =>
    (queryId s id).map fun it =>
      let loaded := it.parts.map fun p => (p, loadPart parse s p)
      let readable := loaded.all (·.2.isSome)
      let complete := isComplete parse true s it
      let ivs := sortBy (fun a b => a.1 < b.1)
        (loaded.filterMap fun (p, b) => b.map fun b => (p.off, b.payLen, p.total))
      let load :=
        if !it.fragmented then b01 (loadable parse true s it)
        else if readable && complete && cleanIvs ivs then b01 (loadable parse true s it)
        else "x"
      let parts := loaded.map fun (p, b) =>
        (⟨p.off, p.total, showName p.name, match b with | some b => toHex b.bytes | none => "!"⟩ : GPart)
      let parts := if sortParts then sortBy (fun a b => a.off < b.off || (a.off == b.off && a.total < b.total)) parts
        else parts
      (⟨id, b01 it.pending, it.expires, b01 it.fragmented, showProps it.props, b01 complete, load, parts⟩ : GItem)
  let files := sortBy (fun a b => decide (a < b)) (s.files.map fun (n, c) => s!"{showName n}#{c.length}")
  let pend := (sortBy idLt ((queryPending s).map (·.1))).map showId
  let knows := (ids.filter (knows s)).map showId
  ⟨items, files, pend, knows⟩

/-- Is the stored fragment set one on which the complete/load outcome is compared? -/
def itemClean (d : DState) (s : State) (id : Id) : Bool :=
  match queryId s id with
  | none => true
  | some it =>
    !it.fragmented ||
      let parse := mkParse d.now d.table
      let loaded := it.parts.filterMap fun p => (loadPart parse s p).map fun b => (p.off, b.payLen, p.total)
      loaded.length == it.parts.length && cleanIvs (sortBy (fun a b => a.1 < b.1) loaded)

/-- Model vs. implementation. `complete` is not compared on sets with a contained fragment or
mixed totals (D3 / unstable sort are C10's subject). -/
def diffDump (d : DState) (s : State) (m g : GDump) : Option String :=
  if m.items.map (·.id) != g.items.map (·.id) then
    some s!"ids model={m.items.map (showId ·.id)} impl={g.items.map (showId ·.id)}"
  else
    let bad := (m.items.zip g.items).find? fun (a, b) =>
      let a' := if itemClean d s a.id then a else { a with complete := b.complete, load := b.load }
      a' != b
    match bad with
    | some (a, b) => some s!"item {showId a.id} model={showItem a} impl={showItem b}"
    | none =>
      if m.files != g.files then some s!"files model={m.files} impl={g.files}"
      else if m.pend != g.pend then some s!"pending model={m.pend} impl={g.pend}"
      else if m.knows != g.knows then some s!"knows model={m.knows} impl={g.knows}"
      else none

/-! ### Spec: the Go dump against the reference map -/

def partLt (a b : (Nat × Nat) × Option (Nat × Bytes)) : Bool :=
  a.1.1 < b.1.1 || (a.1.1 == b.1.1 && a.1.2 < b.1.2)

/-- First aspect in which the implementation's dump deviates from the reference map. -/
def judge (d : DState) (m : SMap) (g : GDump) : Option (String × String) :=
  let m := sortBy (fun a b => idLt a.1 b.1) m
  let gids := g.items.map (·.id)
  match m.find? (fun e => !gids.contains e.1) with
  | some e => some ("record-missing", showId e.1)
  | none =>
  match g.items.find? (fun it => (get it.id m).isNone) with
  | some it => some ("record-unexpected", showId it.id)
  | none =>
  let perItem : List (Option (String × String)) := g.items.map fun it =>
    match get it.id m with
    | none => none
    | some r =>
      let want := sortBy partLt r.parts
      let have_ := sortBy (fun a b => a.off < b.off || (a.off == b.off && a.total < b.total)) it.parts
      let wk := want.map (·.1)
      let hk := have_.map fun p => (p.off, p.total)
      let i := showId it.id
      if it.fragmented != b01 r.fragmented then some ("fragmented-flag", i)
      else if hk != hk.eraseDups then some ("part-duplicated", i)
      else if wk.any (fun k => !hk.contains k) then some ("part-lost", i)
      else if hk.any (fun k => !wk.contains k) then some ("part-unexpected", i)
      else
        -- bytes: read back byte-identical, unless the bundle's lifetime is exceeded (ParseBundle rejects it)
        let badBytes := (want.zip have_).find? fun (w, h) =>
          match w.2 with
          | none => false
          | some (_, bytes) =>
            let expired := (d.table.find? (fun b => b.bytes == bytes)).any (fun b => b.expires < d.now)
            if expired then h.data != "!" && h.data != toHex bytes else h.data != toHex bytes
        match badBytes with
        | some (_, h) => some (if h.data == "!" then "part-unreadable" else "part-bytes-differ", i)
        | none =>
          if it.pending != b01 r.pending then some ("pending-flag", i)
          else if it.expires != r.expires then some ("expires", i)
          else if it.props != showProps r.props then some ("properties", i)
          else
            -- completeness / load
            let bs := want.filterMap fun w => w.2.bind fun c => d.table.find? (fun b => b.bytes == c.2)
            let anyExpired := bs.any (fun b => b.expires < d.now) || bs.length != want.length
            if anyExpired then none
            else if !r.fragmented then
              if it.complete != "1" then some ("complete-unfragmented", i)
              else if it.load != "1" then some ("load-unfragmented", i)
              else none
            else
              let ivs := sortBy (fun a b => a.1 < b.1) (bs.map fun b => (bOff b, b.payLen, bTotal b))
              if !cleanIvs ivs then none
              else
                let t := match ivs with | (_, _, t) :: _ => t | [] => 0
                let cov := decide (Covers (ivs.map fun iv => (iv.1, iv.2.1)) t)
                if it.complete != b01 cov then some ("complete-iff-covers", i)
                else if cov && it.load != "1" then some ("load-complete-set", i)
                else none
  match perItem.find? Option.isSome with
  | some (some x) => some x
  | _ =>
    let pend := (m.filter (·.2.pending)).map (showId ·.1)
    if g.pend != pend then some ("pending-query", s!"want={pend} got={g.pend}")
    else if g.knows != m.map (showId ·.1) then some ("knows", s!"want={m.map (showId ·.1)} got={g.knows}")
    else none

def learn (d : DState) (bs : List Bundle) : DState :=
  { d with table := bs.foldl (fun t b => if t.contains b then t else t ++ [b]) d.table }

def expectedRes (d : DState) : DOp → String
  | .cmd (.op (.update id ..)) => if (get id d.spec).isSome then "ok" else "notfound"
  | .cmd (.op (.replace b)) =>
    match get b.id d.spec with
    | some r => if hasKey (fragKey b) r.parts then "ok" else "err"
    | none => "err"
  | .query id => if (get id d.spec).isSome then "found" else "notfound"
  | .pushFail b => if specStep d.spec (.op (.push b)) == d.spec then "ok" else "err"
  -- the record is gone: updating it fails and, above all, does not bring it back (the dump is judged)
  | .staleUpdate id => if (get id d.spec).isSome then "ok" else "err"
  | _ => "ok"

def handleOp (d : DState) (desc res : String) (dump : List String) : DState × String :=
  match parseDesc desc, parseDump dump with
  | some op, some g =>
    let d := match op with
      | .cmd (.op (.push b)) => learn d [b]
      | .cmd (.op (.replace b)) => learn d [b]
      | .pushFail b => learn d [b]
      | _ => d
    let kind := opKind op
    let (model', spec') := match op with
      | .cmd c => (step (mkParse d.now d.table) d.model c, specStep d.spec c)
      | .query _ => (d.model, d.spec)
      | .junk n bytes => ({ d.model with files := put n bytes d.model.files }, d.spec)
      | .pushFail _ => (d.model, d.spec)   -- not acknowledged (or ignored): nothing may change
      | .staleUpdate _ => (d.model, d.spec) -- an update of a record that was removed changes nothing
    let d' := { d with model := model', spec := spec' }
    if res != expectedRes d op then (d', s!"specfail result-after-{kind} res={res} expected={expectedRes d op}")
    else
      match judge d' spec' g with
      | some (cls, det) => (d', s!"specfail {cls}-after-{kind} {det}")
      | none =>
        if d.modelOff then (d', "skip model-diverged") else
        match diffDump d' model' (modelDump d' model' false) g with
        | some det => (d', s!"diff {kind} {det}")
        | none => (d', "ok")
  | _, _ => (d, "skip parse")

/-- Number of micro-steps done when the child exits at the nth hit of a hook point. -/
def crashSteps (point : String) (nth : Nat) : Option Nat :=
  if point == "push:new:file-written" || point == "push:frag:file-written" || point == "replace:tmp-written" then some 1
  else if point == "delete:before-index" then some 0
  else if point == "delete:before-remove" then some nth
  else if point == "delete:file-removed" then some (nth + 1)
  else none

def subsets {α} : List α → List (List α)
  | [] => [[]]
  | x :: r => (subsets r) ++ (subsets r).map (x :: ·)

def insertAll {α} (x : α) : List α → List (List α)
  | [] => [[x]]
  | y :: r => (x :: y :: r) :: (insertAll x r).map (y :: ·)

def perms {α} : List α → List (List α)
  | [] => [[]]
  | x :: r => (perms r).flatMap (insertAll x)

/-- Hook points and micro-steps of one `Delete`, in the code's order. -/
def deleteEvents (prs : Bytes → Option Bundle) (s : State) (id : Id) : List (Sum String Step) :=
  match plan prs s (.delete id) with
  | [] => []
  | idx :: removes =>
    [.inl "delete:before-index", .inr idx] ++
      removes.flatMap fun st => [.inl "delete:before-remove", .inr st, .inl "delete:file-removed"]

/-- `DeleteExpired` deleting `ids` in this order, killed at the `nth` hit of `point` (counted over
the whole sweep); the complete sweep if the point is not hit that often. -/
def sweepCrash (prs : Bytes → Option Bundle) (point : String) (nth : Nat) (s : State) (ids : List Id) : State :=
  let rec walk (evs : List (Sum String Step)) (s : State) (cnt : Nat) : State × Nat × Bool :=
    match evs with
    | [] => (s, cnt, false)
    | .inl h :: r =>
      if h == point then
        if cnt + 1 == nth then (s, cnt + 1, true) else walk r s (cnt + 1)
      else walk r s cnt
    | .inr st :: r => walk r (applyStep s st) cnt
  let rec go (ids : List Id) (s : State) (cnt : Nat) : State :=
    match ids with
    | [] => s
    | id :: r =>
      let (s', cnt', stop) := walk (deleteEvents prs s id) s cnt
      if stop then s' else go r s' cnt'
  go ids s 0

def handleCrash (d : DState) (pt desc exit : String) (dump : List String) : DState × String :=
  let (point, nth) := match pt.splitOn ":" |>.reverse with
    | n :: rest => (":".intercalate rest.reverse, n.toNat?.getD 0)
    | [] => ("", 0)
  match parseDesc desc, parseDump dump with
  | some (.cmd c), some g =>
    let d := match c with
      | .op (.push b) => learn d [b]
      | .op (.replace b) => learn d [b]
      | _ => d
    let prs := mkParse d.now d.table
    let specAfter := specStep d.spec c
    let full := step prs d.model c
    -- Spec candidates: what may be visible after the kill. One operation: the content before or
    -- after it. An expiry sweep (one Delete per expired record, in an unspecified order): any set
    -- of the expired records is gone, everything else is as before. A child that finished (exit 0)
    -- acknowledged the operation: after.
    let (specCands, modelCands) : List SMap × List State :=
      if exit == "0" then ([specAfter], [full])
      else if exit != "77" then ([], [])
      else match c with
        | .op o =>
          ([d.spec, specAfter], match crashSteps point nth with
            | some k => [crash prs k d.model o]
            | none => [])
        | .sweep now =>
          let expired := (d.spec.filter (fun e => decide (e.2.expires < now))).map (·.1)
          ((subsets expired).map (fun gone => d.spec.filter (fun e => !gone.contains e.1)),
           (perms (expiredIds d.model now)).map (sweepCrash prs point nth d.model))
        | .reopen => ([d.spec], [d.model])
    match specCands.find? (fun m => (judge { d with spec := m } m g).isNone) with
    | none =>
      let d' := { d with model := full, spec := specAfter }
      let unreadable := g.items.any fun it => it.parts.any (·.data == "!")
      let why := match judge d' specAfter g with | some (c, det) => s!"{c} {det}" | none => ""
      if exit != "77" && exit != "0" then (d', s!"diff child-failed exit={exit}")
      else if unreadable then (d', s!"specfail crash-{point}-unreadable-record {why}")
      else (d', s!"specfail crash-{point}-neither-old-nor-new {why}")
    | some m =>
      let dm := { d with spec := m }
      if d.modelOff then ({ dm with model := full }, "skip model-diverged") else
      match modelCands.find? (fun s => (diffDump dm s (modelDump dm s false) g).isNone) with
      | some s => ({ dm with model := s }, "ok")
      | none =>
        match modelCands with
        | s :: _ => ({ dm with model := s },
            s!"diff crash {point}:{nth} {(diffDump dm s (modelDump dm s false) g).getD ""}")
        | [] => ({ dm with model := full }, s!"diff crash unknown-hook-point {point}")
  | _, _ => (d, "skip parse")

def handleConc (d : DState) (p1 p2 parked blocked res : String) (dump : List String) : DState × String :=
  match parsePush p1, parsePush p2, parseDump dump with
  | some b1, some b2, some g =>
    let d := learn d [b1, b2]
    let spec' := specStep (specStep d.spec (.op (.push b1))) (.op (.push b2))
    let prs := mkParse d.now d.table
    let s12 := exec prs (exec prs d.model (.push b1)) (.push b2)
    let s21 := exec prs (exec prs d.model (.push b2)) (.push b1)
    let d' := { d with model := s12, spec := spec' }
    if res != "ok,ok" then (d', s!"specfail result-after-concurrent-push res={res}")
    else match judge d' spec' g with
    | some (cls, det) => (d', s!"specfail {cls}-after-concurrent-push {det}")
    | none =>
      if d.modelOff then (d', "skip model-diverged")
      else if parked != "1" then (d', "diff conc hook-point-not-reached")
      else if blocked != "1" then (d', "diff conc second-push-not-blocked-by-mutex")
      else
        match [s12, s21].find? (fun s => (diffDump d' s (modelDump d' s false) g).isNone) with
        | some s => ({ d' with model := s }, "ok")
        | none => (d', s!"diff conc {(diffDump d' s12 (modelDump d' s12 false) g).getD ""}")
  | _, _, _ => (d, "skip parse")

def sortParts (g : GDump) : GDump :=
  { g with items := g.items.map fun it =>
      { it with parts := sortBy (fun a b => a.off < b.off || (a.off == b.off && a.total < b.total)) it.parts } }

def handleStress (d : DState) (pushes : List String) (res : String) (dump : List String) : DState × String :=
  match pushes.mapM parsePush, parseDump dump with
  | some bs, some g =>
    let d := learn d bs
    let spec' := bs.foldl (fun m b => specStep m (.op (.push b))) d.spec
    let model' := bs.foldl (fun s b => exec (mkParse d.now d.table) s (.push b)) d.model
    let d' := { d with model := model', spec := spec' }
    if (res.splitOn ",").any (· != "ok") then (d', s!"specfail result-after-concurrent-push res={res}")
    else match judge d' spec' g with
    | some (cls, det) => (d', s!"specfail {cls}-after-concurrent-push {det}")
    | none =>
      if d.modelOff then (d', "skip model-diverged") else
      match diffDump d' model' (modelDump d' model' true) (sortParts g) with
      | some det => (d', s!"diff stress {det}")
      | none => (d', "ok")
  | _, _ => (d, "skip parse")

def handle1 (d : DState) (line : String) : DState × String :=
  match fields line with
  | ["begin", sid, _, now] =>
    ({ sid := sid, now := ((after "now=" now).bind String.toNat?).getD 0 }, "ok")
  | "op" :: sid :: _ :: desc :: res :: dump =>
    if sid != d.sid then (d, "skip sequence-mismatch") else
    handleOp d desc ((after "res=" res).getD "?") dump
  | "crash" :: sid :: _ :: pt :: desc :: exit :: dump =>
    if sid != d.sid then (d, "skip sequence-mismatch") else
    handleCrash d pt desc ((after "exit=" exit).getD "?") dump
  | "conc" :: sid :: _ :: _ :: p1 :: p2 :: parked :: blocked :: res :: dump =>
    if sid != d.sid then (d, "skip sequence-mismatch") else
    handleConc d p1 p2 ((after "parked=" parked).getD "?") ((after "blocked=" blocked).getD "?")
      ((after "res=" res).getD "?") dump
  | "stress" :: sid :: _ :: _ :: rest =>
    if sid != d.sid then (d, "skip sequence-mismatch") else
    let pushes := rest.takeWhile (fun s => s.startsWith "push:")
    match rest.dropWhile (fun s => s.startsWith "push:") with
    | res :: dump => handleStress d pushes ((after "res=" res).getD "?") dump
    | [] => (d, "skip parse")
  | "reset" :: sid :: _ :: dump =>
    -- the harness emptied the store after a stress round: the dump must be empty, start afresh
    if sid != d.sid then (d, "skip sequence-mismatch") else
    let d' : DState := { sid := d.sid, now := d.now, modelOff := d.modelOff }
    match parseDump dump with
    | some g =>
      if g.items.isEmpty && g.files.isEmpty && g.pend.isEmpty && g.knows.isEmpty then (d', "ok")
      else (d', s!"diff reset store-not-empty files={g.files} knows={g.knows}")
    | none => (d', "skip parse")
  | _ => (d, "skip unknown-op")

/-- Only the first deviation of a sequence is reported: the reference map and the model are not
re-synchronised with the implementation afterwards. -/
def handle (d : DState) (line : String) : DState × String :=
  if d.failed && !line.startsWith "begin " then (d, "skip after-failure") else
  let (d', v) := handle1 d line
  if v.startsWith "specfail" || v.startsWith "skip parse" then ({ d' with failed := true }, v)
  else if v.startsWith "diff" then ({ d' with modelOff := true }, v)
  else (d', v)

end C08

def main : IO Unit := Driver.runS ({} : C08.DState) C08.handle
