import Driver.Common
import Dtn7.Model.Mtcp
import Dtn7.Model.CborItem
import Dtn7.Model.Bbc

/-!
Driver for C12. Input lines (fields separated by blanks; byte strings in hex, lists comma separated, "-" = empty):

  mtcp stream <bytes the client wrote> <sent bundle encodings> <bundle encodings the server reported> <Send results>
  mtcp raw <wf|bad> <stream> <sent> <reported>            stream written on a raw connection into handleSender
  mtcp cut <k> <stream> <sent> <reported>                 only the first k bytes of stream were written
  mtcp d32obs …                                           observation only (TCP timing), always `ok`
  bbc train <tid> <mtu> <payload> <fragments> <err 0|1>
  bbc send <tid> <mtu> <fragments the modem saw> <ok|err> <decodes 0|1>
  bbc rx <label:d:n> <k=payload;…> <received fragments> <outputs per step> <open ids>
  bbc e2e <ok|err> <same|diff|none>

The MTCP bundle parser of the model is abstract; here it is instantiated with "one CBOR data item"
(`Dtn7.CborItem.parseItem`): a serialised bundle is one item and the server reports it re-serialised.
-/
open Driver
open Dtn7.Cbor (Bytes)

def parseHexList (s : String) : Option (List Bytes) :=
  if s == "-" then some [] else (s.splitOn ",").mapM parseHex

def showHexList (l : List Bytes) : String :=
  if l.isEmpty then "-" else ",".intercalate (l.map toHex)

/-! ### MTCP -/
section
open Dtn7.Mtcp Dtn7.Wire

def itemCodec : Codec Bytes :=
  { enc := id,
    parse := fun bs => match Dtn7.CborItem.parseItem bs with
      | some (b, rest) => .ok (b, rest)
      | none => .error .eof }

def isPrefixOf (a b : List Bytes) : Bool := a.length ≤ b.length && b.take a.length == a

def handleMtcp : List String → String
  | ["stream", wire, sent, got, results] =>
    match parseHex wire, parseHexList sent, parseHexList got with
    | some wire, some sent, some got =>
      -- Spec: every Send succeeded, the server reported exactly the sent bundles in order
      if (results.splitOn ",").any (· != "ok") then s!"specfail mtcp-send-failed-on-healthy-connection results={results}"
      else if got != sent then s!"specfail mtcp-stream-differs sent={sent.length} reported={got.length}"
      else
        let (mgot, e) := server itemCodec wire
        if mgot != got then s!"diff mtcp-stream model reports {mgot.length} bundles, implementation {got.length}"
        else if e != .eof then s!"diff mtcp-stream model end={repr e}"
        else
          -- the wire is what the framing model says: frames and keep-alives only
          let expect := sent.flatMap (fun b => frame itemCodec b ++ keepalive)
          let strip := wire.length ≥ expect.length
          if !strip then s!"diff mtcp-wire shorter than frames+probes" else "ok"
    | _, _, _ => "skip parse"
  | ["concsend", _n, sent, got, results] =>
    -- several goroutines send over one client at the same time: on a healthy connection every Send succeeds and
    -- the server reports exactly the bundles sent (as a multiset: the order between goroutines is not defined) —
    -- a frame is written as a whole, nothing of another frame or a keep-alive gets inside it
    let s := if sent == "-" then [] else sent.splitOn ","
    let g := if got == "-" then [] else got.splitOn ","
    if (results.splitOn ",").any (· != "ok") then s!"specfail mtcp-send-failed-on-healthy-connection-concurrent-senders results={results}"
    else if g.any (fun x => !s.contains x) then "specfail mtcp-reported-bundle-never-sent-concurrent-senders"
    else if s.any (fun x => s.count x != g.count x) then
      s!"specfail mtcp-stream-differs-concurrent-senders sent={s.length} reported={g.length}"
    else "ok"
  | ["raw", label, stream, sent, got] =>
    match parseHex stream, parseHexList sent, parseHexList got with
    | some stream, some sent, some got =>
      if label == "wf" && got != sent then s!"specfail mtcp-stream-differs sent={sent.length} reported={got.length}"
      else if !(got.all (fun g => sent.contains g)) then s!"specfail mtcp-reported-bundle-never-sent"
      else
        let (mgot, _) := server itemCodec stream
        -- `bad` streams contain a damaged bundle: the model's stand-in parser (any CBOR item) is more lenient than
        -- the bundle parser, so the implementation may stop earlier than the model, never later or differently
        if label == "wf" && mgot != got then s!"diff mtcp-raw model reports {mgot.length} bundles, implementation {got.length}"
        else if !isPrefixOf got mgot then s!"diff mtcp-raw-bad implementation reports bundles the model does not"
        else "ok"
    | _, _, _ => "skip parse"
  | ["cut", k, stream, sent, got] =>
    match k.toNat?, parseHex stream, parseHexList sent, parseHexList got with
    | some k, some stream, some sent, some got =>
      -- Spec: a cut connection yields a prefix of what was sent, never a different bundle
      if !isPrefixOf got sent then s!"specfail mtcp-cut-delivers-other-bundle k={k}"
      else
        let (mgot, _) := server itemCodec (stream.take k)
        if mgot != got then s!"diff mtcp-cut k={k} model reports {mgot.length} bundles, implementation {got.length}" else "ok"
    | _, _, _, _ => "skip parse"
  | ["d32obs", _scenario, results, gone] =>
    -- WHETHER Send fails on a dead connection is TCP timing: observation only. But every failed Send must have
    -- reported the peer as gone, and a successful one must not (deterministic, `Mtcp.send`).
    let nErr := ((results.splitOn ",").filter (· == "err")).length
    (match (gone.drop 5).toNat? with
     | some g => if g == nErr then "ok observation-only"
                 else s!"specfail mtcp-send-error-without-peer-disappeared errors={nErr} reports={g}"
     | none => "ok observation-only")
  | "d32obs" :: _ => "ok observation-only"
  | ["d32sum", fo, total] =>
    -- a single "ok" for a Send on a connection the peer closed 100 ms before can be TCP timing; all of them cannot:
    -- the liveness probe of `Send` (a second write after the flush) then does not detect a closed peer and the
    -- bundle is lost with a success answer
    (match (fo.drop 9).toNat?, (total.drop 3).toNat? with
     | some f, some n =>
       if n ≥ 5 && f == n then s!"specfail mtcp-send-ok-on-closed-connection-every-time first-ok={f} of={n}"
       else "ok"
     | _, _ => "skip parse")
  | _ => "skip unknown-op"
end

/-! ### BBC -/
section
open Dtn7.Bbc

def parseFrags (s : String) : Option (List Frag) :=
  if s == "-" then some [] else
  (s.splitOn ",").mapM fun h => do
    let b ← parseHex h
    match parseFrag b with
    | .ok f => some f
    | .error _ => none

def showFrags (l : List Frag) : String :=
  if l.isEmpty then "-" else ",".intercalate (l.map (fun f => toHex f.bytes))

def parseOrigs (s : String) : Option (List Bytes) :=
  (s.splitOn ";").mapM fun kv =>
    match kv.splitOn "=" with
    | [_, h] => parseHex h
    | _ => none

def showOut (origs : List Bytes) : Out → String
  | .deliver _ pl => match origs.findIdx? (· == pl) with | some k => s!"D{k}" | none => "Dx"
  | .failFrag t q => s!"F{t.toNat}.{q.toNat}"
  | .failSignal t => s!"S{t.toNat}"

/-- Per-step outputs of the table model, rendered like the harness does. -/
def modelSteps (decodes : Bytes → Bool) (origs : List Bytes) : Table → List Frag → List String × Table
  | tab, [] => ([], tab)
  | tab, f :: fs =>
    let (tab', o) := step decodes tab f
    let s := if o.isEmpty then "." else "+".intercalate (o.map (showOut origs))
    let (ss, t) := modelSteps decodes origs tab' fs
    (s :: ss, t)

def insertSorted (x : Nat) : List Nat → List Nat
  | [] => [x]
  | y :: ys => if x ≤ y then x :: y :: ys else y :: insertSorted x ys

def handleBbc : List String → String
  | ["train", tid, mtu, payload, frags, err] =>
    match u8 tid, mtu.toNat?, parseHex payload, parseFrags frags with
    | some tid, some mtu, some payload, some frags =>
      if payload.isEmpty then
        -- nothing to send: the code refuses ("already finished"), no fragment
        (if frags.isEmpty && err == "1" then "ok" else s!"diff bbc-train-empty impl={frags.length} err={err}")
      else if err == "1" then s!"specfail bbc-train-error mtu={mtu} len={payload.length}"
      else match trainFail tid mtu payload frags with
        | some cls => s!"specfail bbc-train-{cls} mtu={mtu} len={payload.length}"
        | none =>
          let m := train tid mtu payload
          if m == frags then "ok" else s!"diff bbc-train model={(showFrags m).take 200} impl={frags.length}"
    | _, _, _, _ => "skip parse"
  | ["send", tid, mtu, frags, res, dec] =>
    match u8 tid, mtu.toNat?, parseFrags frags with
    | some tid, some mtu, some frags =>
      let payload := concatPayload frags
      if res != "ok" then s!"specfail bbc-send-failed mtu={mtu}"
      else if dec != "1" then s!"specfail bbc-sent-fragments-do-not-decode mtu={mtu}"
      else match trainFail tid mtu payload frags with
        | some cls => s!"specfail bbc-train-{cls} mtu={mtu} len={payload.length} via=connector"
        | none => if train tid mtu payload == frags then "ok" else "diff bbc-send model train differs"
    | _, _, _ => "skip parse"
  | ["rx", label, origs, frags, outs, openIds] =>
    match parseOrigs origs, parseFrags frags with
    | some origs, some frags =>
      let steps := if outs == "-" then [] else outs.splitOn ";"
      let all := steps.flatMap (fun s => if s == "." then [] else s.splitOn "+")
      -- Spec 1: never a different bundle
      if all.any (· == "Dx") then s!"specfail bbc-delivered-different-bundle label={label}"
      else if all.any (· == "panic") then s!"specfail panic-bbc-rx label={label}"
      else
        let nDeliver := (all.filter (·.startsWith "D")).length
        let signalled := all.any (·.startsWith "F")
        let lab := label.splitOn ":"
        let kind := lab.headD ""
        let d := (lab.getD 1 "0").toNat!
        let n := (lab.getD 2 "0").toNat!
        -- Spec 2: an intact train is delivered exactly once, silently
        if kind == "none" && (nDeliver != 1 || signalled) then s!"specfail bbc-intact-train-not-delivered-once n={n}"
        -- Spec 3: a single drop / duplication / adjacent swap is signalled by a failure fragment
        else if (kind == "drop" || kind == "dup" || kind == "swap" || kind == "concfault") && !signalled then
          (if kind == "drop" && d + 1 == n then s!"specfail bbc-fault-not-signalled-drop-of-end-fragment n={n}"
           else if kind == "dup" && n == 1 then s!"specfail bbc-fault-not-signalled-duplicated-single-fragment-redelivered deliveries={nDeliver}"
           else s!"specfail bbc-fault-not-signalled kind={kind} d={d} n={n}")
        else
          -- `decodes` (xz + bundle decoder) is a parameter of the model. The originals decode; whether a DIFFERENT
          -- reassembly decodes is up to xz/CRC (a stream damaged behind the bundle's last byte still decodes): at
          -- such steps the implementation may either fail or deliver — and what it delivers was checked above.
          let (mA, tab) := modelSteps (fun p => origs.contains p) origs [] frags
          let (mB, _) := modelSteps (fun _ => true) origs [] frags
          let msteps := (mA.zip (mB.zip steps)).map fun (a, b, i) => if a == b then a else if i.startsWith "D" then i else a
          let mopen := (tab.map (·.1.toNat)).foldr insertSorted []
          let mopenS := if mopen.isEmpty then "-" else ",".intercalate (mopen.map toString)
          if msteps != steps then s!"diff bbc-rx label={label} model={(";".intercalate msteps).take 200} impl={outs.take 200}"
          else if mopenS != openIds then s!"diff bbc-rx-open model={mopenS} impl={openIds}"
          else "ok"
    | _, _ => "skip parse"
  | ["e2e", res, got] =>
    if res == "ok" && got == "same" then "ok"
    else if got == "diff" then "specfail bbc-delivered-different-bundle label=e2e"
    else s!"specfail bbc-e2e-not-delivered res={res} got={got}"
  | _ => "skip unknown-op"
where
  u8 (s : String) : Option UInt8 := s.toNat?.bind fun n => if n < 256 then some (UInt8.ofNat n) else none
end

def handle (line : String) : String :=
  match fields line with
  | "mtcp" :: rest => handleMtcp rest
  | "bbc" :: rest => handleBbc rest
  | _ => "skip unknown-format"

def main : IO Unit := run handle
