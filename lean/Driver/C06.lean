import Driver.Common
import Dtn7.Model.Forward

/-!
Driver for C06. Input lines (fields separated by blanks):

  hc <limit> <count> <incResult> <countAfterInc> <exceededAfter> <countAfterDec>
       implementation: `HopCountBlock{limit,count}`: Increment(), Count, IsExceeded(), Decrement(), Count
       (the order `Core.forward` uses; forward's guard is Increment's result)

  fwd <id> <node> <algo> <known> <acc> <mem> <runs> <txs> <clean>
       one bundle through a real `routing.Core` with scripted mock CLAs
       node   hex of the node id string        algo   routing algorithm name
       known  comma list of block type codes (of the accepted bundle) the block manager knows, or "-"
       acc    dump of the accepted bundle      mem    hop count of the shared in-memory bundle after
                                                      reception ("-" = no hop count block)
       runs   k;elLoNs;elHiNs;nowLoMs;nowHiMs;stored  joined by "|": reception (k = 0) and every
              `checkPendingBundles`; residence time bracket (ns), DTN time bracket (ms), bundle in store
              afterwards (1/0)
       txs    k;peer;ok;valid;dump joined by "|" or "-": every bundle handed to a mock CLA in run k
       clean  nowMs;storedBefore;storedAfter   `Store.DeleteExpired` at the end
  dump = <primary hex>/<creation ms>/<lifetime ms>/<bundle flags>/<blocks>
  blocks = "-" | comma list of <type>:<num>:<flags>:<crc>:<value>
  value = h<limit>.<count> | a<ms> | p<eid hex> | d<payload hex> | o<data hex>
-/
open Dtn7.Forward Driver

def cfg : Cfg := Cfg.fixed

def headTail (s : String) : Option (Char × String) :=
  match s.toList with
  | [] => none
  | c :: r => some (c, String.ofList r)

def parseValue (type : Nat) (s : String) : Option Value :=
  match headTail s with
  | some ('h', r) =>
    match r.splitOn "." with
    | [l, c] =>
      match l.toNat?, c.toNat? with
      | some l, some c => if type == 10 && l < 256 && c < 256 then some (.hop (UInt8.ofNat l) (UInt8.ofNat c)) else none
      | _, _ => none
    | _ => none
  | some ('a', r) => if type == 7 then r.toNat?.map Value.age else none
  | some ('p', r) => if type == 6 then (parseHex r).map Value.prevNode else none
  | some ('d', r) => if type == 1 then (parseHex r).map Value.payload else none
  | some ('o', r) => if builtinTypes.contains type then none else (parseHex r).map (Value.other type)
  | _ => none

def parseBlock (s : String) : Option Block :=
  match s.splitOn ":" with
  | [t, n, f, c, v] =>
    match t.toNat?, n.toNat?, f.toNat?, c.toNat? with
    | some t, some n, some f, some c => (parseValue t v).map (fun v => ⟨n, f, c, v⟩)
    | _, _, _, _ => none
  | _ => none

def parseDump (s : String) : Option Bundle :=
  match s.splitOn "/" with
  | [p, ct, lt, fl, bl] =>
    match parseHex p, ct.toNat?, lt.toNat?, fl.toNat? with
    | some p, some ct, some lt, some fl =>
      let blocks := if bl == "-" then some [] else (bl.splitOn ",").mapM parseBlock
      blocks.map (fun bs => ⟨⟨p, ct, lt, fl⟩, bs⟩)
    | _, _, _, _ => none
  | _ => none

structure Run where
  k : Nat
  elLo : Nat
  elHi : Nat
  nowLo : Nat
  nowHi : Nat
  stored : Bool

structure Tx where
  k : Nat
  peer : String
  ok : Bool
  valid : Bool
  sent : Option Bundle    -- none = did not parse

def parseRun (s : String) : Option Run :=
  match (s.splitOn ";").mapM (·.toNat?) with
  | some [k, a, b, c, d, e] => some ⟨k, a, b, c, d, e == 1⟩
  | _ => none

def parseTx (s : String) : Option Tx :=
  match s.splitOn ";" with
  | [k, peer, ok, valid, dump] =>
    match k.toNat? with
    | some k =>
      if dump == "unparsable" then some ⟨k, peer, ok == "1", false, none⟩
      else (parseDump dump).map (fun b => ⟨k, peer, ok == "1", valid == "1", some b⟩)
    | none => none
  | _ => none

def ownedOf (algo : String) : List Nat :=
  if algo == "binary_spray" then [192] else if algo == "dtlsr" then [193] else if algo == "prophet" then [194] else []

def dropOwned (owned : List Nat) (b : Bundle) : Bundle :=
  { b with blocks := b.blocks.filter (fun x => !owned.contains x.type) }

def hasOwned (owned : List Nat) (b : Bundle) : Bool := b.blocks.any (fun x => owned.contains x.type)

/-- The routing algorithm's `SenderForBundle` runs after `transform`: it updates its own block in
place, or appends it with `AddExtensionBlock` (which sorts the list once more). The block itself is
not compared (`owned`), only its effect on the order of the others. -/
def viewOwned (owned : List Nat) (accHas : Bool) (impl : Bundle) (m : Bundle) : Bundle :=
  if !accHas && hasOwned owned impl then dropOwned owned { m with blocks := sortBlocks m.blocks }
  else dropOwned owned m

def sentAge (b : Bundle) : Option Nat := firstAge b.blocks

def showOpt (o : Option Bundle) : String :=
  match o with
  | none => "none"
  | some b => s!"blocks={repr (b.blocks.map (fun x => (x.type, x.num, x.flags, x.crc)))} hop={repr (firstHop b.blocks)} age={repr (firstAge b.blocks)}"

/-- The hop count of the in-memory bundle (shared with the caller) after the reception run. -/
def memHopAfterFirst (known : List Nat) (node : Bytes) (acc : Bundle) (el now : Nat) : Option UInt8 :=
  match firstHop acc.blocks with
  | none => none
  | some (l, c) =>
    match processed known acc with
    | none => some c
    | some mem =>
      match transform cfg node mem el now with
      | .ok s => (firstHop (afterSend s).blocks).map (·.2)
      | .error _ => some (hopIncrement cfg l c).1

/-- Spec on the implementation's observations of one run. -/
def specRun (known owned : List Nat) (node : Bytes) (acc : Bundle) (r : Run) (txs : List Tx) : Option String :=
  let mine := txs.filter (·.k == r.k)
  -- every transmitted bundle parses, is valid, and is a faithful copy
  let bad := mine.findSome? fun t =>
    match t.sent with
    | none => some "sent-does-not-parse"
    | some s =>
      if !t.valid then some "sent-not-a-valid-bundle"
      else if decide (FaithfulCopy known owned node acc s r.elLo r.elHi) then none
      else some ((faithfulFail known owned node acc s r.elLo r.elHi).getD "faithful-copy")
  match bad with
  | some c => some c
  | none =>
    if hopWouldExceed acc then
      if !mine.isEmpty then
        (match firstHop acc.blocks with
         | some (_, c) => if c == 255 then some "transmitted-hop-count-255-would-exceed-limit" else some "transmitted-hop-count-would-exceed-limit"
         | none => some "transmitted-hop-count-would-exceed-limit")
      else if r.stored then some "hop-limit-exceeded-not-dropped-from-store"
      else none
    else if expiredByAge acc r.elLo then
      if !mine.isEmpty then some "transmitted-after-lifetime-by-age"
      else if r.stored then some "expired-by-age-not-dropped-from-store"
      else none
    else if acc.primary.created != 0 && r.nowLo > acc.primary.created + acc.primary.lifetime + 2000 then
      -- more than 2 s after the expiry instant
      if !mine.isEmpty then some "transmitted-after-lifetime-by-creation-time" else none
    else none

/-- Correspondence of one run: the model, started from `store`, for the corner points of the
brackets (and the residence the transmitted age block reveals). Returns the model's store
afterwards, or a description of the disagreement. -/
def corrRun (known owned : List Nat) (node : Bytes) (acc : Bundle) (store : Option Bundle) (r : Run) (txs : List Tx) :
    Except String (Option Bundle) :=
  let mine := txs.filter (·.k == r.k)
  -- a retry reads the clock twice: when the stored bytes are parsed (`loadOk`) and in `forward`
  let step2 (el nowLoad nowFwd : Nat) : Option Bundle × Option Bundle :=
    if r.k == 0 then receive cfg known node acc el nowFwd
    else match store with
      | none => (none, none)
      | some st => if loadOk st nowLoad then forward cfg node st el nowFwd (some st) else (none, some st)
  let step (el now : Nat) : Option Bundle × Option Bundle := step2 el now now
  match mine with
  | [] =>
    let cands := [step r.elLo r.nowLo, step r.elHi r.nowHi, step r.elLo r.nowHi, step r.elHi r.nowLo,
      step2 r.elLo r.nowLo r.nowHi, step2 r.elHi r.nowLo r.nowHi]
    -- nothing handed over and the bundle still stored: either the model refuses as well, or no
    -- convergence sender was selected in this run (routing, not part of this property)
    match cands.find? (fun c => c.2.isSome == r.stored && (c.1.isNone || r.stored)) with
    | some c => .ok c.2
    | none =>
      let c := step r.elLo r.nowLo
      .error s!"run{r.k} impl: nothing sent stored={r.stored} model: {showOpt c.1} stored={c.2.isSome}"
  | t :: _ =>
    match t.sent with
    | none => .error s!"run{r.k} unparsable"
    | some s =>
      let el := match sentAge s, firstAge acc.blocks with
        | some y, some x => if y ≥ x then (y - x) * 1000000 else r.elLo
        | _, _ => r.elLo
      let cands := [step el r.nowLo, step el r.nowHi]
      match cands.find? (fun c => c.1.isSome) with
      | none => .error s!"run{r.k} impl sent, model refuses"
      | some c =>
        let accHas := hasOwned owned acc
        let view (t : Tx) : Option Bundle := match t.sent, c.1 with
          | some i, some m => some (viewOwned owned accHas i m)
          | _, _ => none
        match mine.find? (fun t => t.sent.map (dropOwned owned) != view t) with
        | some t' => .error s!"run{r.k} peer={t'.peer} model: {showOpt (view t')} impl: {showOpt (t'.sent.map (dropOwned owned))}"
        | none =>
          -- after a successful transmission the algorithm may have the bundle deleted (direct delivery)
          if !r.stored && mine.any (·.ok) then .ok none
          else if c.2.isSome != r.stored then .error s!"run{r.k} stored impl={r.stored} model={c.2.isSome}"
          else .ok c.2

def handleFwd (node : Bytes) (algo : String) (known : List Nat) (acc : Bundle) (mem : String)
    (runs : List Run) (txs : List Tx) (clean : List Nat) : String :=
  let owned := ownedOf algo
  -- 1. Spec on the implementation's outputs
  match runs.findSome? (fun r => (specRun known owned node acc r txs).map (fun c => (c, r.k))) with
  | some (cls, k) => s!"specfail {cls} run={k}"
  | none =>
    -- transmissions attributed to no run?
    if txs.any (fun t => !runs.any (·.k == t.k)) then "diff tx-without-run" else
    -- expired by creation time: gone after the store's own sweep
    let cleanBad := match clean with
      | [tc, _, aft] => acc.primary.created != 0 && tc > acc.primary.created + acc.primary.lifetime + 2000 && aft == 1
      | _ => false
    if cleanBad then "specfail expired-by-creation-time-not-dropped-from-store" else
    -- 2. correspondence
    let rec go (store : Option Bundle) : List Run → Option String
      | [] => none
      | r :: rs =>
        match corrRun known owned node acc store r txs with
        | .error e => some e
        | .ok st => go st rs
    match go none runs with
    | some e => s!"diff {e}"
    | none =>
      match runs.head? with
      | some r0 =>
        let elFor := match (txs.filter (·.k == 0)).head? with
          | some t => (match t.sent.bind sentAge, firstAge acc.blocks with
              | some y, some x => if y ≥ x then (y - x) * 1000000 else r0.elLo
              | _, _ => r0.elLo)
          | none => r0.elLo
        let cands := [memHopAfterFirst known node acc elFor r0.nowLo, memHopAfterFirst known node acc r0.elHi r0.nowHi]
        let shown := cands.map (fun o => match o with | none => "-" | some c => toString c.toNat)
        if shown.contains mem then "ok" else s!"diff mem-hop impl={mem} model={shown}"
      | none => "skip no-runs"

def parseB (s : String) : Option Bool :=
  if s == "true" then some true else if s == "false" then some false else none

def handle (line : String) : String :=
  match fields line with
  | ["hc", l, c, res, after, exc, dec] =>
    match l.toNat?, c.toNat?, parseB res, after.toNat?, parseB exc, dec.toNat? with
    | some l, some c, some res, some after, some exc, some dec =>
      if l > 255 || c > 255 then "skip range" else
      let l8 := UInt8.ofNat l
      let c8 := UInt8.ofNat c
      -- Spec: forwarded (guard false) ⇒ count exactly one higher and within the limit;
      --       count + 1 > limit ⇒ refused
      if !res && !(after == c + 1 && after ≤ l) then
        (if c == 255 then s!"specfail hop-count-255-wraps-and-is-forwarded limit={l}"
         else s!"specfail hop-count-forwarded-not-plus-one limit={l} count={c}")
      else
        let m := hopIncrement cfg l8 c8
        let mexc := hopIsExceeded l8 m.1
        let mdec := hopDecrement m.1
        if m.1.toNat == after && m.2 == res && mexc == exc && mdec.toNat == dec then "ok"
        else s!"diff hc model=({m.1.toNat},{m.2},{mexc},{mdec.toNat}) impl=({after},{res},{exc},{dec})"
    | _, _, _, _, _, _ => "skip parse"
  | ["fwd", _id, node, algo, known, acc, mem, runs, txs, clean] =>
    let knownL := if known == "-" then some [] else (known.splitOn ",").mapM (·.toNat?)
    let txsL := if txs == "-" then some [] else (txs.splitOn "|").mapM parseTx
    match parseHex node, knownL, parseDump acc, (runs.splitOn "|").mapM parseRun, txsL, (clean.splitOn ";").mapM (·.toNat?) with
    | some node, some known, some acc, some runs, some txs, some clean => handleFwd node algo known acc mem runs txs clean
    | _, _, _, _, _, _ => "skip parse"
  | "panic" :: rest => s!"specfail panic-in-core {" ".intercalate rest}"
  | _ => "skip unknown-op"

def main : IO Unit := run handle
