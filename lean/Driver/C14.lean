import Driver.Common
import Dtn7.Model.IdKeeper

/-!
Driver for C14. Input lines (fields separated by blanks; inside a field items are separated by ','
and item components by '|'; a bundle id is written `source~time~seq`):

  idk <auto> <ops> <outs>
       a script on a bare IdKeeper (autoClean = auto). ops: `u|source|time|now` (update of a bundle
       with that tuple, `now` = clock read just before) or `c|now` (clean). outs, one per op:
       `<number written into the bundle or ->|<dump>`, dump = `source~time~counter` joined by '+'.
  idkc <k> <time> <rounds>
       k goroutines call update for one tuple of a fresh IdKeeper; every round lists the k numbers
       sorted, joined by '|'.
  grp <path> <mode> <peer> <timekind> <k> now=<ms> n=<expected> subs=<…> snap=<…> sent=<…>
       one group of submissions through a fresh Core.
       timekind: now | epoch | old2m | old2d (one creation time for the whole group) | mixed (several
       sources and NON-MONOTONE creation times: T, T+1s, T-1s, epoch, T+1ms in any order);
       path: sb (Core.SendBundle) | agent (application agent → AgentManager) | report / report2
       (received bundles that request reports; the node originates n status reports);
       mode: seq | conc (one goroutine per submission); peer: none | neigh | destfail | dest;
       subs: `tag|id-as-handed-in`; snap: store items after the submissions `key|id-in-bytes|tag`;
       sent: `phase|adapter|id-in-bytes|tag|lookup` (lookup: F = at the moment of the transmission
       the store had this very bundle under this id, T = the key belonged to another bundle,
       N = no such key). Phase 2 = retransmission from the store after the group.
-/
open Dtn7.IdKeeper Driver

/-- One day in ms: the class boundary of the known finding (independent of the code's constant). -/
def dayMs : Nat := 86400000

def timeClass (now t : Nat) : String :=
  if t = 0 then "epoch" else if now - t ≤ dayMs then "within-24h" else "older-than-24h"

def parseId (s : String) : Option BundleId :=
  match s.splitOn "~" with
  | [src, t, q] =>
    match t.toNat?, q.toNat? with
    | some t, some q => some ⟨src, t, q⟩
    | _, _ => none
  | _ => none

def parseTag (s : String) : Option Nat :=
  (parseHex s).map (fun bs => bs.foldl (fun acc b => acc * 256 + b.toNat) 0)

def items (s : String) : List String := if s == "-" then [] else s.splitOn ","

def peerNo (s : String) : Nat :=
  match (s.drop 1).toNat? with
  | some n => n
  | none => 0

/-! ### idk -/

inductive IOp where
  | u (k : Key) (now : Nat)
  | c (now : Nat)
  /-- the harness moves the tuple's last use `delta` ms into the past (time passing without use) -/
  | a (k : Key) (delta : Nat)

def parseOp (s : String) : Option IOp :=
  match s.splitOn "|" with
  | ["u", src, t, now] =>
    match t.toNat?, now.toNat? with
    | some t, some now => some (.u ⟨src, t⟩ now)
    | _, _ => none
  | ["c", now] => now.toNat?.map IOp.c
  | ["a", src, t, delta] =>
    match t.toNat?, delta.toNat? with
    | some t, some delta => some (.a ⟨src, t⟩ delta)
    | _, _ => none
  | _ => none

def parseDump (s : String) : Option (List (Key × Nat)) :=
  if s == "-" then some [] else
  (s.splitOn "+").mapM fun it =>
    match parseId it with
    | some i => some (⟨i.source, i.time⟩, i.seq)
    | none => none

def parseOut (s : String) : Option (Option Nat × List (Key × Nat)) :=
  match s.splitOn "|" with
  | [q, d] =>
    match parseDump d with
    | some d => if q == "-" then some (none, d) else q.toNat?.map (fun q => (some q, d))
    | none => none
  | _ => none

def dumpGet (d : List (Key × Nat)) (k : Key) : Option Nat := (d.find? (·.1 = k)).map (·.2)

def window : Nat := Cfg.code.window

def handleIdk (auto : Bool) (ops : List IOp) (outs : List (Option Nat × List (Key × Nat))) : String :=
  let keys := ops.filterMap (fun | .u k _ => some k | .c _ => none | .a k _ => some k)
  -- Spec: two updates never hand out one id
  let idx := (List.range ops.length).zip (ops.zip outs)
  let us := idx.filterMap (fun | (i, .u k now, (some q, _)) => some (i, k, now, q) | _ => none)
  -- time the harness let pass without use of `k` between script positions i and j
  let agedBetween (k : Key) (i j : Nat) : Nat :=
    (idx.filterMap (fun | (p, .a k' d, _) => if k' = k ∧ i < p ∧ p < j then some d else none | _ => none)).foldl (· + ·) 0
  let rec clash : List (Nat × Key × Nat × Nat) → Option (Key × Nat × Nat)
    | [] => none
    | (i, k, _, q) :: rest =>
      match rest.find? (fun e => e.2.1 = k ∧ e.2.2.2 = q) with
      | some e => some (k, e.2.2.1, agedBetween k i e.1)
      | none => clash rest
  match clash us with
  | some (k, now, idle) =>
    -- a counter that was not used for longer than the retention window is forgotten (by design of `clean`):
    -- a class of its own
    if window ≤ idle ∧ k.time ≠ 0 then
      s!"specfail idkeeper-same-number-tuple-unused-for-longer-than-24h source={k.source} time={k.time} idle={idle}"
    else s!"specfail idkeeper-same-number-creation-time-{timeClass now k.time} source={k.source} time={k.time}"
  | none =>
    -- correspondence: the model step by step
    let rec go (m : Keeper) (u : Used) : List IOp → List (Option Nat × List (Key × Nat)) → Nat → Option String
      | [], [], _ => none
      | .u k now :: ops, (q, d) :: outs, i =>
        let (m1, s) := m.update k
        let u1 := u.set k now
        let m2 := if auto then m1.cleanU window u1 now else m1
        if q != some s then some s!"op{i} number model={s} impl={q}"
        else if keys.any (fun k' => m2 k' != dumpGet d k') then some s!"op{i} map-after-update"
        else go m2 u1 ops outs (i + 1)
      | .c now :: ops, (_, d) :: outs, i =>
        let m2 := m.cleanU window u now
        if keys.any (fun k' => m2 k' != dumpGet d k') then some s!"op{i} map-after-clean"
        else go m2 u ops outs (i + 1)
      | .a k delta :: ops, (_, d) :: outs, i =>
        if keys.any (fun k' => m k' != dumpGet d k') then some s!"op{i} map-after-ageing"
        else go m (u.set k (u k - delta)) ops outs (i + 1)
      | _, _, _ => some "length"
    match go Keeper.empty (fun _ => 0) ops outs 0 with
    | some d => s!"diff idk {d}"
    | none => "ok"

/-! ### grp -/

structure SentItem where
  phase : Nat
  peer : Nat
  id : BundleId
  tag : Nat
  look : String

def parseSub (s : String) : Option (Nat × BundleId) :=
  match s.splitOn "|" with
  | [t, i] => match parseTag t, parseId i with
    | some t, some i => some (t, i)
    | _, _ => none
  | _ => none

def parseSnap (s : String) : Option (BundleId × BundleId × Nat) :=
  match s.splitOn "|" with
  | [k, i, t] => match parseId k, parseId i, parseTag t with
    | some k, some i, some t => some (k, i, t)
    | _, _, _ => none
  | _ => none

def parseSent (s : String) : Option SentItem :=
  match s.splitOn "|" with
  | [ph, p, i, t, l] => match ph.toNat?, parseId i, parseTag t with
    | some ph, some i, some t => some ⟨ph, peerNo p, i, t, l⟩
    | _, _, _ => none
  | _ => none

def kv (key : String) (fs : List String) : Option String :=
  (fs.find? (·.startsWith (key ++ "="))).map (fun s => (s.drop (key.length + 1)).toString)

/-- insertion sort by a key -/
def sortBy {α} (f : α → Nat) (l : List α) : List α :=
  l.foldl (fun acc x =>
    let (a, b) := acc.span (fun y => f y ≤ f x)
    a ++ x :: b) []

def ltId (a b : BundleId) : Bool :=
  a.source < b.source || (a.source == b.source && (a.time < b.time || (a.time == b.time && a.seq < b.seq)))

def sortTriples (l : List (Nat × BundleId × Nat)) : List (Nat × BundleId × Nat) :=
  let lt (a b : Nat × BundleId × Nat) : Bool :=
    a.1 < b.1 || (a.1 == b.1 && (ltId a.2.1 b.2.1 || (a.2.1 == b.2.1 && a.2.2 < b.2.2)))
  l.foldl (fun acc x =>
    let (a, b) := acc.span (fun y => lt y x || y == x)
    a ++ x :: b) []

def dedup {α} [BEq α] (l : List α) : List α := l.foldl (fun acc x => if acc.contains x then acc else acc ++ [x]) []

def handleGrp (path mode peer : String) (now n : Nat)
    (subs : List (Nat × BundleId)) (snap : List (BundleId × BundleId × Nat)) (sent : List SentItem) : String :=
  let obs : Obs := ⟨snap, sent.map (fun s => (s.peer, s.id, s.tag))⟩
  let tc (i : BundleId) : String := timeClass now i.time
  let isReport := path.startsWith "report" || path == "sreport"
  -- (a) different bundles leave under different ids
  if ¬ decide (SentIdsDistinct obs) then
    let bad := obs.sent.find? (fun a => obs.sent.any (fun b => a.2.2 != b.2.2 && a.2.1 == b.2.1))
    let i := (bad.map (·.2.1)).getD default
    -- the input class: concurrent group / sequential group whose earlier bundles were delivered directly
    -- (and deleted) before the next one was numbered / sequential group whose bundles are all still stored
    let cls := if mode == "conc" then "-concurrent" else if peer == "dest" then "-first-already-delivered" else ""
    s!"specfail same-id-on-wire-creation-time-{tc i}{cls} id={i.source}~{i.time}~{i.seq}"
  -- (b) different bundles are filed under different keys
  else if ¬ decide (StoreKeysDistinct obs) then
    s!"specfail same-store-key-creation-time-{tc ((obs.stored.head?.map (·.1)).getD default)}"
  -- (c) store key = id in the stored bytes = id of every transmitted copy
  else if ¬ decide (∀ e ∈ obs.stored, e.1 = e.2.1) then
    "specfail store-key-differs-from-stored-id"
  else if ¬ decide (∀ e ∈ obs.stored, ∀ s ∈ obs.sent, e.2.2 = s.2.2 → s.2.1 = e.1) then
    "specfail stored-id-differs-from-transmitted-id"
  else if ¬ decide (∀ a ∈ obs.sent, ∀ b ∈ obs.sent, a.2.2 = b.2.2 → a.2.1 = b.2.1) then
    "specfail copies-of-one-bundle-carry-different-ids"
  else
  -- which bundles were originated
  let seenTags := dedup (snap.map (·.2.2) ++ sent.map (·.tag))
  let tags := if isReport then seenTags else subs.map (·.1)
  let idOfTag (t : Nat) : Option BundleId :=
    match snap.find? (·.2.2 = t) with
    | some e => some e.1
    | none => (sent.find? (·.tag = t)).map (·.id)
  let tcTag (t : Nat) : String :=
    match idOfTag t with
    | some i => tc i
    | none => match subs.find? (·.1 = t) with
      | some s => tc s.2
      | none => timeClass now now
  if isReport && tags.length ≠ n then
    s!"specfail originated-report-lost-creation-time-{timeClass now now} expected={n} seen={tags.length}"
  -- (d) every bundle is filed, once (after a successful direct delivery the item is gone again)
  else if peer != "dest" && ¬ decide (FiledOnce tags obs) then
    let t := (tags.find? (fun t => (snap.filter (·.2.2 = t)).length != 1)).getD 0
    s!"specfail bundle-not-filed-creation-time-{tcTag t}{if mode == "conc" then "-concurrent" else ""}"
  -- (e) at the moment of every transmission the bundle is filed under the transmitted id
  else if sent.any (fun s => s.look != "F") then
    s!"specfail transmitted-copy-not-filed-under-its-id-creation-time-{tc ((sent.find? (fun s => s.look != "F")).map (·.id)).get!}"
  else
  -- correspondence: the order in which the counter served the submissions is read off the numbers
  let assigned : List (Nat × BundleId) := tags.filterMap (fun t => (idOfTag t).map (fun i => (t, i)))
  if assigned.length ≠ tags.length then "diff grp a-bundle-without-any-observation" else
  let ordered := sortBy (fun (e : Nat × BundleId) => e.2.seq)
    (sortBy (fun (e : Nat × BundleId) => e.2.time) assigned)
  -- sequential submissions: the i-th one gets the number of earlier submissions with its (source, time)
  let rec expectSeq : List (Nat × BundleId) → List (Nat × BundleId) → List (Nat × Nat)
    | _, [] => []
    | seen, (t, i) :: rest =>
      (t, (seen.filter (fun e => e.2.source = i.source ∧ e.2.time = i.time)).length) ::
        expectSeq ((t, i) :: seen) rest
  let seqOrderOk := mode != "seq" || isReport ||
    (expectSeq [] subs).all (fun e => (assigned.find? (·.1 = e.1)).map (·.2.seq) == some e.2)
  if ¬ seqOrderOk then "diff grp sequential-submissions-numbered-out-of-order" else
  let peers1 : List Nat := match peer with
    | "neigh" => [3] | "destfail" => [2] | "dest" => [2] | _ => []
  let retry : List Act := match peer with
    | "none" => [.retry 2] | "neigh" => [.retry 4] | "destfail" => [.retry 2] | _ => []
  let seq0 (t : Nat) : Nat := ((subs.find? (·.1 = t)).map (·.2.seq)).getD 0
  let msubs : List Sub := ordered.map (fun e => ⟨e.1, ⟨e.2.source, e.2.time⟩, seq0 e.1, now, peers1⟩)
  let subf : Nat → Sub := fun i => msubs.getD i default
  let mn := run Cfg.code subf (Node.init subf Keeper.empty) (seqSchedule Cfg.code msubs.length ++ retry)
  let mo := obsOf mn
  let mStored := sortTriples (mo.stored.map (fun e => (0, e.2.1, e.2.2)))
  let iStored := sortTriples (snap.map (fun e => (0, e.2.1, e.2.2)))
  let mSent := sortTriples mo.sent
  let iSent := sortTriples obs.sent
  if peer != "dest" && mStored != iStored then
    s!"diff grp store model={mStored.map (fun e => (e.2.1.seq, e.2.2))} impl={iStored.map (fun e => (e.2.1.seq, e.2.2))}"
  else if mSent != iSent then
    s!"diff grp sent model={mSent.map (fun e => (e.1, e.2.1.seq))} impl={iSent.map (fun e => (e.1, e.2.1.seq))}"
  else "ok"

/-- `rst <variant> <mode> <timekind> <k2> now=… n=… subs=… delivered=… snap=… sent=…`: submissions of one
(source, creation time) before and after an orderly restart. Spec only (the micro-step model has no restart
event and no deletion; the theorem that covers the step is `assigned_number_is_free`): the same clauses as
for a group; a bundle that was delivered and deleted before the restart need not be filed. -/
def handleRst (variant mode : String) (now : Nat) (subs : List (Nat × BundleId)) (delivered : List Nat)
    (snap : List (BundleId × BundleId × Nat)) (sent : List SentItem) : String :=
  let obs : Obs := ⟨snap, sent.map (fun s => (s.peer, s.id, s.tag))⟩
  let tc (i : BundleId) : String := timeClass now i.time
  let sfx := if mode == "conc" then "-after-restart-concurrent" else "-after-restart"
  -- store-level clauses first: the wire clause has a known finding in the gap variant
  let tags := (subs.map (·.1)).filter (fun t => !delivered.contains t)
  if ¬ decide (StoreKeysDistinct obs) then
    s!"specfail same-store-key-creation-time-{tc ((obs.stored.head?.map (·.1)).getD default)}{sfx}"
  else if ¬ decide (∀ e ∈ obs.stored, e.1 = e.2.1) then
    s!"specfail store-key-differs-from-stored-id{sfx}"
  else if ¬ decide (FiledOnce tags obs) then
    let t := (tags.find? (fun t => (snap.filter (·.2.2 = t)).length != 1)).getD 0
    let i := ((subs.find? (·.1 = t)).map (·.2)).getD default
    s!"specfail bundle-not-filed-creation-time-{tc i}{sfx}"
  else if ¬ decide (∀ e ∈ obs.stored, ∀ s ∈ obs.sent, e.2.2 = s.2.2 → s.2.1 = e.1) then
    s!"specfail stored-id-differs-from-transmitted-id{sfx}"
  else if ¬ decide (∀ a ∈ obs.sent, ∀ b ∈ obs.sent, a.2.2 = b.2.2 → a.2.1 = b.2.1) then
    s!"specfail copies-of-one-bundle-carry-different-ids{sfx}"
  else if sent.any (fun s => s.look != "F") then
    s!"specfail transmitted-copy-not-filed-under-its-id-creation-time-{tc ((sent.find? (fun s => s.look != "F")).map (·.id)).get!}{sfx}"
  else if ¬ decide (SentIdsDistinct obs) then
    let bad := obs.sent.find? (fun a => obs.sent.any (fun b => a.2.2 != b.2.2 && a.2.1 == b.2.1))
    let i := (bad.map (·.2.1)).getD default
    -- the number of a bundle that left the store before the restart is free again: its own input class
    let cls := if variant == "gap" && obs.sent.any (fun a => delivered.contains a.2.2 && a.2.1 == i)
      then "-number-of-a-bundle-delivered-before-the-restart" else sfx
    s!"specfail same-id-on-wire-creation-time-{tc i}{cls} id={i.source}~{i.time}~{i.seq}"
  else "ok"

def handle (line : String) : String :=
  if line.startsWith "grp " && ((line.splitOn " panic ").length > 1 || (line.splitOn " error ").length > 1) then
    "specfail panic-or-error-in-submission " ++ line
  else
  match fields line with
  | ["idkbig", n, a, b] =>
    -- the clock-less tuple is numbered, n other tuples are numbered, the clock-less tuple is numbered again:
    -- consecutive numbers (`Keeper.update` of another key and `cleanU` leave the epoch entry alone:
    -- `update_fst_other`, `droppedAt_epoch`)
    (match a.toNat?, b.toNat? with
     | some a, some b =>
       if b == a + 1 then "ok"
       else s!"specfail idkeeper-epoch-counter-lost-among-{n}-other-tuples first={a} second={b}"
     | _, _ => "skip parse")
  | ["idk", auto, ops, outs] =>
    match (ops.splitOn ",").mapM parseOp, (outs.splitOn ",").mapM parseOut with
    | some ops, some outs => handleIdk (auto == "1") ops outs
    | _, _ => "skip parse"
  | ["idkc", k, _t, rounds] =>
    match k.toNat? with
    | some k =>
      let rs := (rounds.splitOn ",").map (fun r => (r.splitOn "|").filterMap (·.toNat?))
      if rs.any (fun r => r.length ≠ k) then "skip parse"
      else if rs.any (fun r => decide ¬ r.Nodup) then "specfail concurrent-update-same-number"
      else if rs.any (fun r => r != List.range k) then s!"diff idkc expected {List.range k}"
      else "ok"
    | none => "skip parse"
  | "rst" :: variant :: mode :: _tk :: _k :: rest =>
    if (line.splitOn " panic ").length > 1 || (line.splitOn " error ").length > 1 then
      "specfail panic-or-error-in-submission " ++ line
    else
    match (kv "now" rest).bind (·.toNat?), kv "subs" rest, kv "delivered" rest, kv "snap" rest, kv "sent" rest with
    | some now, some subs, some dl, some snap, some sent =>
      if (snap.splitOn "unreadable").length > 1 || (snap.splitOn "unparsable").length > 1 ||
         (sent.splitOn "unparsable").length > 1 then
        "specfail stored-or-transmitted-bundle-unreadable"
      else
      match (items subs).mapM parseSub, (items dl).mapM parseTag, (items snap).mapM parseSnap, (items sent).mapM parseSent with
      | some subs, some dl, some snap, some sent => handleRst variant mode now subs dl snap sent
      | _, _, _, _ => "skip parse"
    | _, _, _, _, _ => "skip parse"
  | "grp" :: path :: mode :: peer :: _tk :: _k :: rest =>
    match (kv "now" rest).bind (·.toNat?), (kv "n" rest).bind (·.toNat?), kv "subs" rest, kv "snap" rest, kv "sent" rest with
    | some now, some n, some subs, some snap, some sent =>
      if (snap.splitOn "unreadable").length > 1 || (snap.splitOn "unparsable").length > 1 ||
         (sent.splitOn "unparsable").length > 1 then
        "specfail stored-or-transmitted-bundle-unreadable"
      else
      match (items subs).mapM parseSub, (items snap).mapM parseSnap, (items sent).mapM parseSent with
      | some subs, some snap, some sent => handleGrp path mode peer now n subs snap sent
      | _, _, _ => "skip parse"
    | _, _, _, _, _ => "skip parse"
  | _ => "skip unknown-op"

def main : IO Unit := run handle
