import Driver.Common
import Dtn7.Model.Decoders

/-!
Driver for C04. Input lines:

  dec <decoder> <inputhex> <outcome> <alloc> <canon>
       one decoder of the implementation run on one input in a child process;
       outcome ∈ value | error | panic | timeout | oom, alloc = runtime.MemStats.TotalAlloc delta,
       canon = decoder specific summary of the decoded value ("-" if none)
  dec mru|sendmtu <hex: mru[8] ‖ active[1] ‖ payload length[4]> <outcome> <alloc> <canon>
       mru: a scripted peer declares the Segment MRU in its SESS_INIT (real SessInitStage), then a bundle
       is sent through a real TransferManager created with state.SegmentMtu; sendmtu: the TransferManager
       is created with the value directly.
       canon = stage=ok|err,m=<SegmentMtu>,send=ok|err|timeout|skip,L=<encoded length>,nsegs=,max=,min=

Spec (what the property demands of the implementation's observable behaviour):
  no panic            → specfail panic-<decoder>
  no hang             → specfail hang-<decoder>
  allocated ≤ C + k·len(input)   → specfail alloc-unbounded-<decoder>   (also for a fatal out of memory)
Correspondence: for the decoders modelled in `Dtn7.Decoders` value/error and the canonical summary must
agree, and the model's own allocation log must satisfy its bound.
-/
open Dtn7.Decoders Dtn7.Cbor Driver

/-- Measured-allocation bound. `measC` = cboring's 1 MiB pre-allocation + 256 KiB for everything that does
not depend on the input (regular expressions compiled per call, reflection, error values); `measK` = bytes
the implementation may allocate per input byte that has actually arrived (an endpoint ID of a few bytes
compiles two regular expressions, ≈ 300 B per wire byte measured on honest messages). -/
def measC : Nat := 1024 * 1024 + 256 * 1024
def measK : Nat := 512

/-- ulikunitz/xz allocates its default dictionary (8 MiB, `ReaderConfig.DictCap`) plus decoder state of the
same order for every stream it is asked to read: a constant of the library per completed transmission
(`ends` in the canon of the BBC decoders = fragments carrying the end bit). -/
def xzPerStream : Nat := 25 * 1024 * 1024

def kv (canon key : String) : Option String :=
  (canon.splitOn ",").findSome? fun p =>
    match p.splitOn "=" with
    | [k, v] => if k == key then some v else none
    | _ => none

/-- Bytes per arrived input byte. The discovery handler decodes the packet (the harness hands it to the IPv4
and the IPv6 entry and decodes it once more for its own expectation) and constructs one convergence-layer
client per announcement of ≈ 9 wire bytes: a constant per announcement that has arrived, ≈ 800 B per byte
measured on honest packets. -/
def kOf (dec : String) : Nat :=
  if dec == "announce-handler" then 4 * measK else measK

def extraC (dec canon : String) : Nat :=
  if dec.startsWith "bbc" then xzPerStream * (((kv canon "ends").bind (·.toNat?)).getD 1).max 1 else 0

def showEid : Eid → String
  | .none => "none"
  | .dtn n d => s!"dtn:{toHex n}:{toHex d}"
  | .ipn a b => s!"ipn:{a}.{b}"

def b2n (b : Bool) : Nat := if b then 1 else 0

/-- Model outcome: `none` = error, `some canon` = value. Second component: model log within bound. -/
def model (dec : String) (bs : Bytes) : Option (Option String × Bool) :=
  let fin {α} (r : Except Err α × St) (f : α → String) : Option (Option String × Bool) :=
    some ((match r.1 with | .ok a => some (f a) | .error _ => none), logOkB r.2.log)
  match dec with
  | "adminrec" => fin (run adminRecord bs) fun sr =>
      s!"n={sr.items.length},reason={sr.reason},frag={b2n sr.frag},src={showEid sr.src}"
  | "eid-cbor" => fin (run eid bs) showEid
  | "dtlsr" => fin (run dtlsr bs) fun d => s!"n={d.peers.length},ts={d.ts},id={showEid d.id}"
  | "prophet" => fin (run prophet bs) fun m => s!"n={m.length}"
  | "announce" => fin (run announcements bs) fun l => s!"n={l.length}"
  | "xfer-segment" => fin (run xferSegment bs) fun x => s!"flags={x.flags},tid={x.tid},len={x.data.length}"
  | "sess-init" => fin (run sessInit bs) fun x =>
      s!"ka={x.keepalive},smru={x.segmentMru},tmru={x.transferMru},idlen={x.nodeId.length}"
  | _ => none

def ceilDiv (a b : Nat) : Nat := (a + b - 1) / b

/-- Spec + correspondence for one `Send`. `m?` = the segment size the model says is in force. -/
def judgeSend (who : String) (m? : Except Err Nat) (send : String) (l nsegs maxseg minseg alloc : Nat) : String :=
  if send == "panic" then s!"specfail panic-{who} send"
  else if send == "timeout" then s!"specfail hang-{who} send"
  else if send == "oom" then s!"specfail alloc-unbounded-{who} send"
  -- an empty segment makes no progress: the sender emits them for ever (Spec, independent of the model)
  else if nsegs > 0 && minseg == 0 then s!"specfail hang-{who} empty-segment"
  else if maxseg > maxSegmentMtu then s!"specfail alloc-unbounded-{who} segment-larger-than-limit"
  else match m? with
    | .error _ => if send == "err" then "ok" else s!"diff {who} model=err impl={send}"
    | .ok m =>
      if send != "ok" then s!"diff {who} model=ok impl={send}"
      else if minseg == 0 then s!"specfail hang-{who} empty-segment"
      else if maxseg > m then s!"specfail alloc-unbounded-{who} segment-larger-than-negotiated"
      else if alloc > measC + measK * l + (nsegs + 2) * m then s!"specfail alloc-unbounded-{who} alloc={alloc}"
      else if nsegs != ceilDiv l m then s!"diff {who} segments model={ceilDiv l m} impl={nsegs}"
      else "ok"

/-- `dec mru` / `dec sendmtu` lines. -/
def judgeMru (dec : String) (bs : Bytes) (alloc : Nat) (canon : String) : String :=
  let v := beVal (bs.take 8)
  match kv canon "stage", (kv canon "m").bind (·.toNat?), kv canon "send", (kv canon "L").bind (·.toNat?),
        (kv canon "nsegs").bind (·.toNat?), (kv canon "max").bind (·.toNat?), (kv canon "min").bind (·.toNat?) with
  | some stage, some m, some send, some l, some nsegs, some maxseg, some minseg =>
    if dec == "sendmtu" then judgeSend "tcpcl-send" (segmentBuffer v) send l nsegs maxseg minseg alloc
    else if stage == "ok" && m == 0 then
      -- the sender would emit empty segments for ever
      "specfail hang-sess-init-stage mru-zero-accepted"
    else if stage == "ok" && m > maxSegmentMtu then s!"specfail alloc-unbounded-sess-init-stage mtu={m}"
    else match negotiate v with
      | .error _ =>
        if stage != "err" then s!"diff mru model=err impl={stage}:{m}"
        else if send != "skip" then s!"diff mru send-after-failed-stage {send}" else "ok"
      | .ok mm =>
        if stage != "ok" || m != mm then s!"diff mru model=ok:{mm} impl={stage}:{m}"
        else judgeSend "tcpcl-send" (segmentBuffer m) send l nsegs maxseg minseg alloc
  | _, _, _, _, _, _, _ => "skip mru-canon"

def handle (line : String) : String :=
  match fields line with
  | ["dec", dec, hexIn, outcome, alloc, canon] =>
    match parseHex hexIn, alloc.toNat? with
    | some bs, some alloc =>
      if outcome == "panic" then s!"specfail panic-{dec} {canon}"
      else if outcome == "timeout" then s!"specfail hang-{dec} len={bs.length}"
      else if outcome == "oom" then s!"specfail alloc-unbounded-{dec} fatal-out-of-memory len={bs.length}"
      else if outcome != "value" && outcome != "error" then "skip outcome"
      else if dec == "mru" || dec == "sendmtu" then judgeMru dec bs alloc canon
      else if alloc > measC + extraC dec canon + kOf dec * bs.length then
        s!"specfail alloc-unbounded-{dec} alloc={alloc} len={bs.length}"
      else
        match model dec bs with
        | none => "ok"
        | some (m, logOk) =>
          if !logOk then s!"diff {dec} model-log-exceeds-bound"
          else match m with
            | none => if outcome == "error" then "ok" else s!"diff {dec} model=error impl=value:{canon}"
            | some c =>
              if outcome != "value" then s!"diff {dec} model=value:{c} impl=error"
              else if c != canon then s!"diff {dec} model={c} impl={canon}"
              else "ok"
    | _, _ => "skip parse"
  | _ => "skip unknown-op"

def main : IO Unit := run handle
