import Driver.Common
import Dtn7.Model.Dtlsr

/-!
Driver for C20. Node names are numbers (`dtn://n<k>/` ↦ `k`, the node itself is `0`).

  tab <n> <T0> <J> <links> <known> <table> <index> <flags>
      One recomputation of a real `DTLSR` instance. `links` = "-" or comma list `u>v:L` (live) /
      `u>v:<age>` (lost `age` ms before T0), read back from `peers` (u = 0) and `receivedData`
      (u ≥ 1; data stored under the node's own id is printed as `S>v:…`). `T0`/`T0+J` bracket the
      `DtnTimeNow()` inside `computeRoutingTable`. `known` = ids with received data, `table` = "-"
      or `d>h,…`, `index` = `indexNode`, `flags` = "-" or inconsistencies between
      `nodeIndex`, `indexNode` and `length`.
      Spec: ∃ now ∈ [T0, T0+J]: `checkTable` accepts Go's table on the graph (own links + received
      links, cost 0 | now − loss time) with a certificate from the driver's own Bellman–Ford.
      Correspondence: same domain as the model's table, every hop in the model's admissible set;
      the ported library loop is cross-checked against the reference on the same graph.
  lib <n> <arcs> <src> <dest> <res>
      `dijkstra.Graph.Shortest(src, dest)` called directly; arcs `u>v:w` in AddArc order;
      res = `ok:<distance>:<v0.v1.…>` | `nopath` | `err:…` | `panic`.
  ls <updates> <acc> <final>
      Link-state blocks `id@ts:peers` fed to `NotifyNewBundle` in this order; `acc` = one digit
      per update (did `receivedData` change); `final` = `receivedData` afterwards, sorted.
  bc <sent0> <steps>      steps = `clas|sends;…`: successive forwarding runs of one broadcast bundle,
      sends = `peer:ok|fail`; Spec `broadcastRunOk`: every run serves exactly the connected peers that
      neither had the bundle (`sent0`) nor were served successfully before
  blk <own> <block>       the DTLSR block of the node's own broadcast vs. its `peers`
  fwd <table> <clas> <dest> <sends> <released>     a unicast bundle through `Core.forward`
  own up|down <peer> <ok>   after ReportPeerAppeared the own link is live (0); after
      ReportPeerDisappeared its loss time lies between the clock readings around the call
  hang <n> <links> / panic <n> <links>    `recomputeCron` did not return within 5 s / panicked
-/
open Dtn7.Dtlsr Driver

/-! ### parsing -/

def commaList (s : String) : List String := if s == "-" then [] else s.splitOn ","

structure Link where
  u : Nat
  selfData : Bool      -- printed as `S>…`
  v : Nat
  age : Option Nat     -- none = live
deriving Repr

def parseLink (s : String) : Option Link :=
  match s.splitOn ":" with
  | [uv, c] =>
    match uv.splitOn ">" with
    | [u, v] =>
      let age? : Option (Option Nat) := if c == "L" then some none else c.toNat?.map some
      let u? : Option (Nat × Bool) := if u == "S" then some (0, true) else u.toNat?.map (·, false)
      match u?, v.toNat?, age? with
      | some (u, sd), some v, some age => some ⟨u, sd, v, age⟩
      | _, _, _ => none
    | _ => none
  | _ => none

def parsePairs (s : String) : Option (List (Nat × Nat)) :=
  (commaList s).mapM fun e =>
    match e.splitOn ">" with
    | [a, b] => match a.toNat?, b.toNat? with
      | some a, some b => some (a, b)
      | _, _ => none
    | _ => none

def parseNatList (s : String) : Option (List Nat) := (commaList s).mapM (·.toNat?)

/-! ### the driver's own shortest paths (arrays, independent of `Dtn7.Dtlsr.bf`) -/

def drvRelax (arcs : List Arc) (d : Array (Option Int)) : Array (Option Int) :=
  arcs.foldl (fun d a =>
    match d.getD a.1 none with
    | none => d
    | some du =>
      match d.getD a.2.1 none with
      | none => d.setIfInBounds a.2.1 (some (du + a.2.2))
      | some dv => if du + a.2.2 < dv then d.setIfInBounds a.2.1 (some (du + a.2.2)) else d) d

def drvBF (n : Nat) (arcs : List Arc) (src : Nat) : Array (Option Int) :=
  let init := (Array.replicate n (none : Option Int)).setIfInBounds src (some 0)
  (List.range n).foldl (fun d _ => drvRelax arcs d) init

/-- Parent pointers of a search from `h` along arcs that are tight for `pot`. -/
def tightParents (n : Nat) (arcs : List Arc) (pot : Array (Option Int)) (h : Nat) : Array (Option Nat) :=
  let init := (Array.replicate n (none : Option Nat)).setIfInBounds h (some h)
  (List.range n).foldl (fun par _ =>
    arcs.foldl (fun par a =>
      match par.getD a.1 none, par.getD a.2.1 none, pot.getD a.1 none, pot.getD a.2.1 none with
      | some _, none, some pu, some pv => if pu + a.2.2 == pv then par.setIfInBounds a.2.1 (some a.1) else par
      | _, _, _, _ => par) par) init

def pathFrom (par : Array (Option Nat)) (h : Nat) : Nat → Nat → List Nat → List Nat
  | 0, _, _ => []
  | fuel + 1, c, acc =>
    if c == h then h :: acc
    else match par.getD c none with
      | none => []
      | some p => pathFrom par h fuel p (c :: acc)

/-- Certificate for Go's table `t` on `g`. -/
def mkCert (g : Graph) (t : Table) : Cert :=
  let pot := drvBF g.n g.arcs 0
  let paths := (List.range g.n).map fun d =>
    match lookup t d with
    | none => []
    | some h =>
      let par := tightParents g.n g.arcs pot h
      match pathFrom par h (g.n + 1) d [] with
      | [] => []
      | p => 0 :: p
  { pot := pot.toList, paths := paths }

def classify (g : Graph) (t : Table) : String :=
  let pot := drvBF g.n g.arcs 0
  let bad := t.find? fun e => e.1 == 0 || e.1 ≥ g.n
  if bad.isSome then "table-key-is-not-a-known-other-node" else
  let r := (List.range g.n).findSome? fun d =>
    if d == 0 then none else
    match pot.getD d none, lookup t d with
    | none, some _ => some "table-entry-for-unreachable-destination"
    | some _, none => some "table-misses-reachable-destination"
    | some _, some h =>
      if !(g.arcs.any fun a => a.1 == 0 && a.2.1 == h) then some "next-hop-is-not-a-neighbour"
      else none
    | none, none => none
  r.getD "next-hop-not-on-a-min-cost-path"

/-! ### tab -/

def showTable (t : Table) : String :=
  if t.isEmpty then "-" else ",".intercalate (t.map fun e => s!"{e.1}>{e.2}")

def insertSorted (x : Nat) : List Nat → List Nat
  | [] => [x]
  | y :: ys => if x ≤ y then x :: y :: ys else y :: insertSorted x ys

def sortNat (l : List Nat) : List Nat := l.foldr insertSorted []

def dedupNat (l : List Nat) : List Nat := l.foldr (fun x acc => if acc.contains x then acc else x :: acc) []

/-- The Spec graph at time `T0 + δ`: names are vertices; data a node stored about itself is not
part of its own link state. -/
def specGraph (n : Nat) (links : List Link) (δ : Nat) : Graph :=
  { n := n,
    arcs := (links.filter (!·.selfData)).map fun l =>
      (l.u, l.v, match l.age with | none => (0 : Int) | some a => ((a + δ : Nat) : Int)) }

/-- The model state holding the same link state as the implementation, with Go's node index. -/
def modelState (t0 : Nat) (links : List Link) (known : List Nat) (index : List Nat) : State :=
  let ts (l : Link) : Nat := match l.age with | none => 0 | some a => t0 - a
  let own := (links.filter fun l => l.u == 0 && !l.selfData).map fun l => (l.v, ts l)
  let dataOf (id : Nat) : PeerData :=
    { id := id, timestamp := 1,
      peers := (links.filter fun l => l.u == id && (id != 0 || l.selfData)).map fun l => (l.v, ts l) }
  { peers := own,
    received := fun id => if known.contains id then some (dataOf id) else none,
    indexNode := index, table := [], peerChange := true, receivedChange := true }

/-- All-pairs distances of the model (`bf` from every vertex), tabulated once. A structure, so that
the table is computed when it is built and not on every lookup. -/
structure DistTable where
  tbl : List (List (Option Int))

def mkDistTable (g : Graph) : DistTable :=
  ⟨(List.range g.n).map fun u =>
    let l := bf g u
    (List.range g.n).map l.get⟩

def DistTable.get (t : DistTable) (u v : Nat) : Option Int := (t.tbl.getD u []).getD v none

/-- Correspondence at one instant; `none` = agreement. -/
def tabModelDiff (now : Nat) (st : State) (goTab : Table) : Option String :=
  let g := buildGraph now st
  let T := mkDistTable g
  let D := T.get
  let ix := st.indexNode
  let bad := (List.range g.n).findSome? fun i =>
    if i == 0 then none else
    let name := ix.getD i 0
    let adm := (admissibleD D g i).map fun h => ix.getD h 0
    match lookup goTab name with
    | none => if adm.isEmpty then none else some s!"dest={name} impl=none model={adm}"
    | some h => if adm.contains h then none else some s!"dest={name} impl={h} model={adm}"
  match bad with
  | some b => some b
  | none =>
    -- entries for names outside the index
    match goTab.find? fun e => !(ix.contains e.1) || e.1 == ix.getD 0 0 with
    | some e => some s!"entry-for-untracked dest={e.1}"
    | none =>
      -- the ported library loop against the reference, on the same graph
      let lt := libTable g
      let badPort := (List.range g.n).findSome? fun i =>
        if i == 0 then none else
        let adm := admissibleD D g i
        match lookup lt i with
        | none => if adm.isEmpty then none else some s!"port vertex={i} port=none ref={adm}"
        | some h => if adm.contains h then none else some s!"port vertex={i} port={h} ref={adm}"
      badPort

def handleTab (n t0 j : Nat) (links : List Link) (known : List Nat) (goTab : Table) (index : List Nat) :
    String :=
  let deltas := List.range (j + 1)
  let specOk (δ : Nat) : Bool :=
    let g := specGraph n links δ
    checkTable g goTab (mkCert g goTab)
  match deltas.find? specOk with
  | none =>
    let g := specGraph n links 0
    s!"specfail {classify g goTab} table={showTable goTab} J={j}"
  | some δ0 =>
    -- sanity of the node index (bijection onto the known nodes, own node first)
    let mentioned := dedupNat (0 :: (links.flatMap fun l => [l.u, l.v]) ++ known)
    if index.head? != some 0 || (dedupNat index).length != index.length ||
        !(mentioned.all index.contains) || !(index.all (· < n)) then
      s!"diff index impl={index} mentioned={sortNat mentioned}"
    else
      let st := modelState t0 links known index
      match deltas.find? fun δ => specOk δ && (tabModelDiff (t0 + δ) st goTab).isNone with
      | some _ => "ok"
      | none => s!"diff tab delta={δ0} {(tabModelDiff (t0 + δ0) st goTab).getD "?"}"

/-! ### lib -/

def parseArc (s : String) : Option Arc :=
  match s.splitOn ":" with
  | [uv, w] =>
    match uv.splitOn ">" with
    | [u, v] => match u.toNat?, v.toNat?, w.toInt? with
      | some u, some v, some w => some (u, v, w)
      | _, _, _ => none
    | _ => none
  | _ => none

def showRes : LibRes → String
  | .ok d p => s!"ok:{d}:{".".intercalate (p.map toString)}"
  | .noPath => "nopath"
  | .loopErr => "err:loop"
  | .outOfFuel => "outoffuel"
  | .badPred => "panic"

/-- Cost of a vertex list as a walk, using the (unique) arc between consecutive vertices. -/
def walkCost (arcs : List Arc) : List Nat → Option Int
  | a :: b :: rest =>
    match arcs.find? (fun e => e.1 == a && e.2.1 == b), walkCost arcs (b :: rest) with
    | some e, some c => some (e.2.2 + c)
    | _, _ => none
  | _ => some 0

def rotations {α : Type} (l : List α) : List (List α) :=
  if l.isEmpty then [[]] else (List.range l.length).map fun k => l.drop k ++ l.take k

/-- All adjacency orders obtained by rotating every vertex's arc list (Go 1.23 iterates a map of at
most 8 entries from a random starting slot of its single bucket). The flag says whether the
enumeration is complete (every vertex has at most 8 arcs and the product stayed below the cap). -/
def rotatedAdjs (n : Nat) (arcs : List Arc) (cap : Nat) : List (List (List (Nat × Int))) × Bool :=
  (List.range n).foldl (fun (acc : List (List (List (Nat × Int))) × Bool) u =>
    let a := adjOf arcs u
    let rs := rotations a
    if a.length > 8 || acc.1.length * rs.length > cap then (acc.1.map (· ++ [a]), false)
    else (acc.1.flatMap fun pre => rs.map fun r => pre ++ [r], acc.2)) ([[]], true)

def handleLib (n : Nat) (arcs : List Arc) (src dest : Nat) (res : String) : String :=
  let g : Graph := ⟨n, arcs⟩
  let fuel := libFuel g
  let port := libShortest fuel n (adjOf arcs) src dest
  -- Spec on the library's answer (only for the calls DTLSR makes: src ≠ dest)
  let dist := (drvBF n arcs src).getD dest none
  let specProblem : Option String :=
    if src == dest then none else
    if res == "nopath" then (if dist.isSome then some "library-reports-no-path-to-reachable-vertex" else none)
    else if res.startsWith "ok:" then
      match res.splitOn ":" with
      | [_, d, p] =>
        match d.toInt?, (p.splitOn ".").mapM (·.toNat?) with
        | some d, some p =>
          if dist != some d then some "library-distance-not-minimal"
          else if p.head? != some src || p.getLast? != some dest then some "library-path-endpoints-wrong"
          else if walkCost arcs p != some d then some "library-path-not-a-min-cost-walk"
          else none
        | _, _ => some "library-result-unparsable"
      | _ => some "library-result-unparsable"
    else some "library-error-or-panic-on-nonnegative-graph"
  match specProblem with
  | some c => s!"specfail {c} res={res} port={showRes port}"
  | none =>
    if showRes port == res then "ok"
    else
      -- same outcome class and distance; the path may differ with the map iteration order
      let (adjs, complete) := rotatedAdjs n arcs 3000
      let alts := adjs.map fun adj =>
        showRes (libShortest fuel n (fun u => adj.getD u []) src dest)
      if alts.contains res then "ok order-matched"
      else
        match port with
        | .ok d _ =>
          -- the Spec above already established: minimal distance, valid walk of that cost
          if res.startsWith s!"ok:{d}:" && !complete then "ok path-valid"
          else s!"diff lib port={showRes port} impl={res} alts={alts.length}"
        | _ => s!"diff lib port={showRes port} impl={res}"

/-! ### ls -/

def parsePeerData (s : String) : Option PeerData :=
  match s.splitOn ":" with
  | [hd, ps] =>
    match hd.splitOn "@" with
    | [id, ts] =>
      let peers : Option (List (Nat × Nat)) :=
        if ps == "_" then some [] else
        (ps.splitOn "+").mapM fun e =>
          match e.splitOn "=" with
          | [p, t] => match p.toNat?, t.toNat? with
            | some p, some t => some (p, t)
            | _, _ => none
          | _ => none
      match id.toNat?, ts.toNat?, peers with
      | some id, some ts, some peers => some ⟨id, ts, peers⟩
      | _, _, _ => none
    | _ => none
  | _ => none

def handleLs (ups : List PeerData) (acc : String) (fin : List PeerData) : String :=
  let ids := dedupNat (ups.map (·.id))
  -- Spec: the stored entry of every node is the earliest update with the maximal timestamp
  let badFinal := ids.find? fun id => expectedStored ups id != fin.find? (·.id == id)
  let extra := fin.find? fun d => !(ids.contains d.id)
  -- Spec: an update is accepted iff it is the first of its node or strictly newer than all before
  let accBits := acc.toList.map (· == '1')
  let expectAcc := (List.range ups.length).map fun i =>
    match ups[i]? with
    | none => false
    | some u =>
      let before := (ups.take i).filter (·.id == u.id)
      before.all fun b => b.timestamp < u.timestamp
  let badAcc := (List.range ups.length).find? fun i => accBits.getD i false != expectAcc.getD i false
  if accBits.length != ups.length then "skip acc-length"
  else match badAcc with
  | some i =>
    if accBits.getD i false then s!"specfail linkstate-replaced-by-data-that-is-not-newer step={i}"
    else s!"specfail linkstate-newer-data-not-stored step={i}"
  | none =>
    if badFinal.isSome || extra.isSome then s!"specfail linkstate-final-is-not-the-newest id={badFinal.getD 0}"
    else
      -- correspondence with the model
      let r := ups.foldl notifyData (fun _ => none)
      let macc := ((List.range ups.length).map fun i =>
        notifyAccepts ((ups.take i).foldl notifyData (fun _ => none)) (ups.getD i ⟨0, 0, []⟩))
      if macc != accBits then s!"diff ls-acc model={macc}"
      else if ids.all fun id => r id == fin.find? (·.id == id) then "ok"
      else "diff ls-final"

/-! ### bc / blk / fwd -/

def parseSends (s : String) : Option (List (Nat × Bool)) :=
  (commaList s).mapM fun e =>
    match e.splitOn ":" with
    | [p, r] => p.toNat?.map fun p => (p, r == "ok")
    | _ => none

def handleBc (sent0 : List Nat) (steps : List (List Nat × List (Nat × Bool))) : String :=
  -- Spec, run by run: `succ` = peers served successfully so far, `failed` = peers with a failed
  -- transmission so far (only used to name the failure class)
  let rec spec (i : Nat) (succ failed : List Nat) :
      List (List Nat × List (Nat × Bool)) → Option String
    | [] => none
    | (clas, sends) :: rest =>
      let peers := sends.map (·.1)
      if broadcastRunOk sent0 succ clas peers then
        spec (i + 1) (succ ++ (sends.filter (·.2)).map (·.1)) (failed ++ (sends.filter (!·.2)).map (·.1)) rest
      else
        let cls :=
          if peers.any fun p => peers.count p > 1 then "broadcast-sent-twice-to-a-peer-in-one-run"
          else if peers.any succ.contains then "broadcast-sent-again-after-a-successful-transmission"
          else if peers.any sent0.contains then "broadcast-sent-to-a-peer-that-already-had-it"
          else if peers.any fun p => !clas.contains p then "broadcast-sent-to-a-peer-that-is-not-connected"
          else if clas.any fun c => failed.contains c && !succ.contains c && !peers.contains c then
            "broadcast-failed-peer-not-offered-again"
          else "broadcast-not-sent-to-every-peer"
        some s!"specfail {cls} run={i} clas={clas} sends={peers} served={succ} had={sent0}"
  match spec 0 [] [] steps with
  | some v => v
  | none =>
    -- model, run by run
    let rec go (sent : List Nat) : List (List Nat × List (Nat × Bool)) → Option String
      | [] => none
      | (clas, sends) :: rest =>
        let fails := (sends.filter (!·.2)).map (·.1)
        let a := broadcastAttempt sent clas fails
        if sortNat a.1 != sortNat (sends.map (·.1)) then some s!"model={a.1} impl={sends.map (·.1)}"
        else go a.2 rest
    match go sent0 steps with
    | some d => s!"diff bc {d}"
    | none => "ok"

def handleFwd (table : Table) (clas : List Nat) (dest : Nat) (sends : List (Nat × Bool)) (rel : Bool) :
    String :=
  let hop := lookup table dest
  let badPeer := sends.find? fun s => s.1 != dest && hop != some s.1
  let anyOk := sends.any (·.2)
  if badPeer.isSome then
    s!"specfail unicast-handed-to-a-peer-that-is-not-the-next-hop dest={dest} hop={hop} sends={sends.map (·.1)}"
  else if sends.length > 1 then s!"specfail unicast-handed-to-several-peers dest={dest}"
  else if anyOk && !rel then s!"specfail unicast-not-released-after-forwarding dest={dest}"
  else if !anyOk && rel then s!"specfail unicast-released-without-transmission dest={dest}"
  else
    let d := forwardTargets table clas [] (.node dest)
    if sortNat d.senders != sortNat (sends.map (·.1)) then
      s!"diff fwd model={d.senders} impl={sends.map (·.1)}"
    else if released d anyOk != rel then s!"diff fwd-released model={released d anyOk}"
    else "ok"

def handle (line : String) : String :=
  match fields line with
  | ["tab", n, t0, j, links, known, table, index, flags] =>
    match n.toNat?, t0.toNat?, j.toNat?, (commaList links).mapM parseLink, parseNatList known,
          parsePairs table, parseNatList index with
    | some n, some t0, some j, some links, some known, some table, some index =>
      if links.any fun l => match l.age with | some a => a > t0 | none => false then "skip future-loss-time"
      else
        let v := handleTab n t0 j links known table index
        -- `flags`: the harness found nodeIndex / indexNode / length inconsistent with each other
        if v == "ok" && flags != "-" then s!"diff index-structure {flags}" else v
    | _, _, _, _, _, _, _ => "skip parse"
  | ["lib", n, arcs, src, dest, res] =>
    match n.toNat?, (commaList arcs).mapM parseArc, src.toNat?, dest.toNat? with
    | some n, some arcs, some src, some dest => handleLib n arcs src dest res
    | _, _, _, _ => "skip parse"
  | ["ls", ups, acc, fin] =>
    match (commaList ups).mapM parsePeerData, (commaList fin).mapM parsePeerData with
    | some ups, some fin => handleLs ups acc fin
    | _, _ => "skip parse"
  | ["bc", sent0, steps] =>
    let parsed := (steps.splitOn ";").mapM fun st =>
      match st.splitOn "|" with
      | [c, s] => match parseNatList c, parseSends s with
        | some c, some s => some (c, s)
        | _, _ => none
      | _ => none
    match parseNatList sent0, parsed with
    | some s0, some st => handleBc s0 st
    | _, _ => "skip parse"
  | ["blk", own, blk] =>
    if own == blk then "ok" else s!"specfail broadcast-block-differs-from-own-link-state own={own} block={blk}"
  | ["fwd", table, clas, dest, sends, rel] =>
    match parsePairs table, parseNatList clas, dest.toNat?, parseSends sends with
    | some t, some c, some d, some s => handleFwd t c d s (rel == "1")
    | _, _, _, _ => "skip parse"
  | ["own", what, _peer, ok] =>
    if ok == "1" then "ok"
    else if what == "up" then "specfail own-link-not-live-after-peer-appeared"
    else "specfail own-link-loss-time-not-the-time-of-disappearance"
  | "hang" :: _ => "specfail recompute-does-not-terminate the cron body did not return within 5 s"
  | "panic" :: _ => "specfail panic-in-recompute"
  | _ => "skip unknown-op"

def main : IO Unit := run handle
