import Driver.Common
import Dtn7.Model.Reports
import Dtn7.Model.ReportsCbor
import Dtn7.Gen.C15

/-!
Driver for C15. Input lines (blank-separated `key=value` tokens after the op name):

  node id=<eid> agents=<eid,..> listeners=<eid,..> receivers=<eid,..>
       the node under test, as configured by the harness (what `Core.HasEndpoint` looks at)

  sc n=<idx> entry=<recv|dup|submit|foreign|retry|pending> want=<name> flags=<n> frag=<-|off:total> src=<eid>
     ts=<time>:<seq> dst=<eid> rto=<eid> rcv=<eid> blocks=<-|f,f,..> self=<0|1> destlocal=<0|1>
     peers=<n> loadable=<0|1>
     hop=<0|1> expired=<0|1> sends=<ok>:<failed> dlv=<n> stored=<0|1> t0=<ms> t1=<ms> undec=<n>
     stray=<n> reports=<-|R;R;..> cascade=<n|-> [panic=<text>]
       one subject bundle driven through a real Core. Inputs: the subject's primary-block fields,
       the block flags of its unknown canonical blocks (array order), the descriptor's receiver,
       whether the report-to endpoint is one of the node's (`self`, by construction of the scenario).
       Observations: successful/failed `Send`s of the subject at the mock CLAs, deliveries to the
       mock agent, whether the store still has it, and every administrative-record bundle the core
       announced to the routing algorithm (`NotifyNewBundle`: every report passes it whatever its
       destination; `stray` counts administrative records seen at a CLA or the agent that were not
       announced), decoded:
       R = flags,source,destination,report-to,lifetime,items,reason,ref-source,ref-time:ref-seq,
           ref-frag,via,payload   items = four of 0 | 1 | 1@<time> | 0@<time> joined by '/';
           payload = hex of the payload block's data (the serialised administrative record)
       cascade = number of NEW administrative records observed after feeding each of these reports
       back into three nodes (`-` = not exercised for this scenario).

Verdict per `sc` line: the Spec (`reportJustifiedFail`, `noReportToSelfFail`, `noCascadeFail`) is
evaluated on the observed reports against the observed events; then the observed reports are
compared with `flowReports` of the model variant the source selects (`Gen.C15.reportOnlyOnSuccess`).
-/
open Dtn7.Reports Driver

def codeCfg : Cfg := ⟨Dtn7.Gen.C15.reportOnlyOnSuccess⟩

def splitChar (c : Char) (s : String) : List String :=
  let rec go : List Char → List Char → List String → List String
    | [], cur, acc => (String.ofList cur.reverse :: acc).reverse
    | x :: xs, cur, acc =>
      if x == c then go xs [] (String.ofList cur.reverse :: acc) else go xs (x :: cur) acc
  go s.toList [] []

def bytesOf (cs : List Char) : Bytes := (String.ofList cs).toUTF8.toList

def parseEid (s : String) : Option Eid :=
  let cs := s.toList
  if s == "dtn:none" then some .none
  else if cs.take 6 == "dtn://".toList then
    let rest := cs.drop 6
    let node := rest.takeWhile (· != '/')
    let demux := (rest.dropWhile (· != '/')).drop 1
    some (.dtn (bytesOf node) (bytesOf demux))
  else if cs.take 4 == "ipn:".toList then
    match splitChar '.' (String.ofList (cs.drop 4)) with
    | [a, b] =>
      match a.toNat?, b.toNat? with
      | some n, some sv => some (.ipn n sv)
      | _, _ => none
    | _ => none
  else none

def parseEids (s : String) : Option (List Eid) :=
  if s == "-" || s == "" then some [] else (splitChar ',' s).mapM parseEid

def lookup (kv : List (String × String)) (k : String) : Option String :=
  (kv.find? (·.1 == k)).map (·.2)

def parseKv (toks : List String) : List (String × String) :=
  toks.filterMap fun t =>
    let cs := t.toList
    let k := cs.takeWhile (· != '=')
    if k.length == cs.length then none
    else some (String.ofList k, String.ofList (cs.drop (k.length + 1)))

def parsePair (c : Char) (s : String) : Option (Nat × Nat) :=
  match splitChar c s with
  | [a, b] =>
    match a.toNat?, b.toNat? with
    | some x, some y => some (x, y)
    | _, _ => none
  | _ => none

def parseFrag (s : String) : Option (Option (Nat × Nat)) :=
  if s == "-" then some none else (parsePair ':' s).map some

def parseItem (s : String) : Option Item :=
  match splitChar '@' s with
  | [a] => if a == "1" then some ⟨true, none⟩ else if a == "0" then some ⟨false, none⟩ else none
  | [a, t] =>
    match t.toNat? with
    | some tv =>
      if a == "1" then some ⟨true, some tv⟩ else if a == "0" then some ⟨false, some tv⟩ else none
    | none => none
  | _ => none

def parseReport (s : String) : Option (Report × Bytes) :=
  match splitChar ',' s with
  | [fl, src, dst, rto, life, items, reason, rsrc, rts, rfrag, _via, payload] =>
    match fl.toNat?, parseEid src, parseEid dst, parseEid rto, life.toNat?,
          (splitChar '/' items).mapM parseItem, reason.toNat?, parseEid rsrc, parsePair ':' rts,
          parseFrag rfrag, parseHex payload with
    | some fl, some src, some dst, some rto, some life, some items, some reason, some rsrc,
      some (rt, rs), some rfrag, some payload =>
      some ({ flags := fl, source := src, destination := dst, reportTo := rto, lifetime := life,
              items := items, reason := reason, ref := ⟨rsrc, rt, rs, rfrag⟩ }, payload)
    | _, _, _, _, _, _, _, _, _, _, _ => none
  | _ => none

def parseReports (s : String) : Option (List (Report × Bytes)) :=
  if s == "-" then some [] else (splitChar ';' s).mapM parseReport

def parseNats (s : String) : Option (List Nat) :=
  if s == "-" then some [] else (splitChar ',' s).mapM (·.toNat?)

/-- The wire form of one observed report: the model's decoder must read the implementation's
bytes as the record the implementation's own decoder reported, and the model's encoder must
reproduce the bytes. -/
def payloadProblem (r : Report) (payload : Bytes) : Option String :=
  match decAdminRecord payload with
  | .error e => some s!"payload-not-decodable-by-the-model err={repr e}"
  | .ok (rec, rest) =>
    if !rest.isEmpty then some "payload-trailing-bytes"
    else if rec != r.record then some s!"payload-decodes-differently model={repr rec}"
    else if encAdminRecord rec != payload then some "payload-bytes-differ-from-model-encoding"
    else none

/-- Replace every reported time by 0 (the model is run with one `now`; the harness bounds the real
values by `t0 ≤ time ≤ t1`). -/
def normTimes (r : Report) : Report :=
  { r with items := r.items.map fun it => { it with time := it.time.map fun _ => 0 } }

def itemTimes (r : Report) : List Nat := r.items.filterMap (·.time)

def showReport (r : Report) : String :=
  let its := r.items.map fun it =>
    (if it.asserted then "1" else "0") ++ (match it.time with | some _ => "@t" | none => "")
  let fr := match r.ref.frag with
    | some (o, t) => s!"{o}:{t}"
    | none => "-"
  s!"[flags={r.flags} src={repr r.source} dst={repr r.destination} life={r.lifetime} items={"/".intercalate its} reason={r.reason} ref={repr r.ref.source}/{r.ref.time}:{r.ref.seq}/{fr}]"

def outcomeName : Outcome → String
  | .received => "received" | .unknownBlock _ => "unknownblock" | .deliveredAgent => "delivered"
  | .noAgent => "noagent" | .forwarded => "forwarded" | .allFailed => "allfailed"
  | .lifetimeExpired => "expired" | .hopExceeded => "hop" | .foreignSource => "foreign"
  | .notDispatched => "notdispatched"

/-- The dispatch outcome the harness aimed at (used only to detect a harness that no longer
produces the situation it claims to). -/
def wantMatches (want : String) (d : Outcome) : Bool :=
  match want with
  | "delivered" => d == .deliveredAgent
  | "noagent" => d == .noAgent
  | "fwdboth" | "fwdone" | "fwdrouted" => d == .forwarded
  | "allfailed" => d == .allFailed
  | "expired" => d == .lifetimeExpired
  | "hop" => d == .hopExceeded
  | "notdispatched" => d == .notDispatched
  | _ => true

def handleSc (node : Node) (kv : List (String × String)) : String :=
  let get := lookup kv
  match get "entry", (get "flags").bind (·.toNat?), (get "frag").bind parseFrag,
        (get "src").bind parseEid, (get "ts").bind (parsePair ':'), (get "dst").bind parseEid,
        (get "rto").bind parseEid, (get "rcv").bind parseEid, (get "blocks").bind parseNats,
        (get "sends").bind (parsePair ':'), (get "dlv").bind (·.toNat?),
        (get "reports").bind parseReports with
  | some entry, some flags, some frag, some src, some (t, sq), some dst, some rto, some rcv,
    some blocks, some (okS, failS), some dlv, some goReportsP =>
    let goReports := goReportsP.map (·.1)
    let bit := fun k => (get k) == some "1"
    let t0 := ((get "t0").bind (·.toNat?)).getD 0
    let t1 := ((get "t1").bind (·.toNat?)).getD 0
    let s : Subject :=
      { flags := flags, source := src, destination := dst, reportTo := rto, time := t, seq := sq,
        fragOffset := (frag.map (·.1)).getD 0, totalLen := (frag.map (·.2)).getD 0,
        blocks := blocks, receiver := rcv }
    match get "panic" with
    | some p => s!"specfail panic-in-core entry={entry} {p}"
    | none =>
    if (get "undec") != some "0" then
      s!"specfail undecodable-administrative-record-emitted n={(get "undec").getD "?"}"
    else if (get "stray").getD "0" != "0" then
      s!"diff administrative-record-at-cla-or-agent-never-announced-to-routing n={(get "stray").getD "?"}"
    else if frag.isSome != s.isFragment then "skip frag-flag-mismatch"
    else
    -- the event log, from the observations
    let stored := bit "stored"
    let isRecv := entry == "recv"
    let delReason :=
      if entry == "foreign" then rNoInformation
      else if isRecv && blocks.any (has · bfDelete) then rBlockUnsupported
      else if bit "hop" then rHopLimitExceeded
      else if bit "expired" then rLifetimeExpired
      else rNoInformation
    let evs : List Event :=
      (if isRecv then Event.received :: blocks.map Event.unsupportedBlock else []) ++
      (if okS > 0 then [Event.forwarded] else []) ++
      (if dlv > 0 then [Event.delivered] else []) ++
      (if !stored && okS == 0 && dlv == 0 && entry != "dup" then [Event.deleted delReason] else [])
    -- Spec on the implementation's reports
    let fails := goReports.filterMap (reportJustifiedFail s evs)
    let specFail : Option String :=
      match fails with
      | c :: _ => some c
      | [] =>
        match noReportToSelfFail (bit "self") goReports with
        | some c => some c
        | none =>
          match (get "cascade").bind (·.toNat?) with
          | some n => noCascadeFail n
          | none => none
    match specFail with
    | some cls0 =>
      -- input class: the one situation in which the current code is known to report a delivery
      -- that did not happen (D16) is "destination is an endpoint of the node, no agent took it"
      let cls :=
        if cls0 == "reported-delivered-did-not-happen" && bit "destlocal" && dlv == 0 then
          cls0 ++ "-destination-local-no-agent"
        else cls0
      if cls == "reported-delivered-did-not-happen-destination-local-no-agent" &&
          codeCfg.reportOnlyOnSuccess then
        s!"diff extracted-fact-says-delivery-report-only-on-success-but entry={entry} flags={flags}"
      else
        s!"specfail {cls} entry={entry} flags={flags} frag={(get "frag").getD "?"} rto={(get "rto").getD "?"} blocks={(get "blocks").getD "?"} events={repr evs} reports={goReports.map showReport}"
    | none =>
    -- correspondence with the model
    let d : Outcome :=
      if dlv > 0 then .deliveredAgent
      else if (get "loadable") == some "0" then .notDispatched -- the stored bytes fail CheckValid on load
      else if bit "destlocal" then .noAgent
      else if (get "peers") == some "0" then .notDispatched   -- nobody to send to: nothing is dispatched
      else if bit "hop" then .hopExceeded
      else if bit "expired" then .lifetimeExpired
      else if okS > 0 then .forwarded
      else if failS > 0 then .allFailed
      else .notDispatched
    let flow? : Option Flow :=
      match entry with
      | "recv" => some (.receive d)
      | "dup" => some .receiveKnown
      | "submit" => some (.submit d)
      | "retry" => some (.retry d)
      | "pending" => some (.retry d)
      | "foreign" => some .submitForeign
      | _ => none
    match flow? with
    | none => "skip unknown-entry"
    | some flow =>
    let reached := (flowOutcomes s flow).contains d
    let want := (get "want").getD ""
    if reached && !wantMatches want d then
      s!"diff harness-outcome want={want} observed={outcomeName d} sends={okS}:{failS} dlv={dlv}"
    else if !flow.wellFormed then "skip ill-formed-flow"
    else
    let model := flowReports codeCfg node s 0 flow
    let times := goReports.flatMap itemTimes
    if model.map normTimes != goReports.map normTimes then
      s!"diff reports entry={entry} flags={flags} blocks={(get "blocks").getD "?"} rcv={(get "rcv").getD "?"} rto={(get "rto").getD "?"} outcome={outcomeName d} model={model.map showReport} impl={goReports.map showReport}"
    else if !times.all (fun x => t0 ≤ x && x ≤ t1) then
      s!"diff report-time-outside-window t0={t0} t1={t1} times={times}"
    else
    match goReportsP.filterMap (fun rp => payloadProblem rp.1 rp.2) with
    | pp :: _ => s!"diff {pp} entry={entry} flags={flags}"
    | [] =>
      -- the deleted/known bookkeeping the Spec's events rest on must agree with the model's events
      let mevs := flowEvents s flow
      let mdel := mevs.any isDeleted
      let odel := evs.any isDeleted
      if mdel != odel then
        s!"diff deletion-event model={mdel} observed={odel} entry={entry} outcome={outcomeName d} stored={stored}"
      else
      match missingReports s mevs (reportingAllowed node s) goReports with
      | [] => "ok"
      | ps => s!"diff missing-report positions={ps} entry={entry} flags={flags}"
  | _, _, _, _, _, _, _, _, _, _, _, _ => "skip parse"

/-- One verdict line per input line: `repr` breaks long values over several lines. -/
def flat (s : String) : String :=
  String.ofList (s.toList.map fun c => if c == '\n' || c == '\r' then ' ' else c)

def handle (st : Option Node) (line : String) : Option Node × String :=
  match fields line with
  | "node" :: rest =>
    let kv := parseKv rest
    match (lookup kv "id").bind parseEid, (lookup kv "agents").bind parseEids,
          (lookup kv "listeners").bind parseEids, (lookup kv "receivers").bind parseEids with
    | some id, some ag, some li, some rc =>
      (some { id := id, agents := ag, listeners := li, receivers := rc }, "ok")
    | _, _, _, _ => (st, "skip parse")
  | "sc" :: rest =>
    match st with
    | some node => (st, flat (handleSc node (parseKv rest)))
    | none => (st, "skip no-node-line")
  | _ => (st, "skip unknown-op")

def main : IO Unit := runS (none : Option Node) handle
