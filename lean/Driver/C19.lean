import Driver.Common
import Dtn7.Model.Prophet

/-!
Driver for C19 (PRoPHET). Every line is self-contained. All numbers are `math.Float64bits` in hex;
maps are `key:bits,key:bits` sorted by key or `-`.

  op   <add|sub|mul> <a> <b> <r>                  one hardware binary64 operation
  enc  <pinit> <beta> <gamma> <own> <peer> <post> <sent>
       ReportPeerAppeared(peer) (or encounter(peer) under the lock): own tables before/after;
       sent = the vector inside the metadata bundle handed to the peer's mock CLA | unobserved | none
  age  <pinit> <beta> <gamma> <own> <post>        ageCron()
  rcv  <pinit> <beta> <gamma> <own> <toMe> <peer> <vec> <post> <stored>
       a metadata bundle from peer carrying vec; stored = peerPredictabilities[peer] afterwards | absent
  fwd  <meta> <dest> <own> <peers> <conn> <sentBefore> <chosen> <sentAfter>
       a bundle pushed through the real Core; peers = `p=<map>;q=<map>` | -, chosen = mocks offered it
  sfb  <meta> <dest> <own> <peers> <conn> <sentBefore> <chosen> <del>      Prophet.SenderForBundle
  stress <race> <goroutines> <iters> <ok|fatal-concurrent-map|data-race|child-error …>
  panic <where> <value>
-/
open Dtn7 Dtn7.Prophet Driver

abbrev PM := List (String × Int)

def hexNat (s : String) : Option Nat :=
  if s.isEmpty then none else
  s.toList.foldlM (fun acc c => (hexVal c).map (acc * 16 + ·)) 0

def parseVal (s : String) : Option Int := (hexNat s).bind F64.ofBits

def parseMap (s : String) : Option PM :=
  if s == "-" then some [] else
  (s.splitOn ",").mapM fun kv =>
    match kv.splitOn ":" with
    | [k, v] => (parseVal v).map (k, ·)
    | _ => none

def parsePeers (s : String) : Option (List (String × PM)) :=
  if s == "-" then some [] else
  (s.splitOn ";").mapM fun e =>
    match e.splitOn "=" with
    | [k, v] => (parseMap v).map (k, ·)
    | _ => none

def parseKeys (s : String) : List String := if s == "-" then [] else s.splitOn ","

def insertBy {α} (lt : α → α → Bool) (x : α) : List α → List α
  | [] => [x]
  | y :: ys => if lt x y then x :: y :: ys else y :: insertBy lt x ys

def sortBy {α} (lt : α → α → Bool) (l : List α) : List α := l.foldr (insertBy lt) []

def sortMap (m : PM) : PM := sortBy (fun a b => a.1 < b.1) m
def sortKeys (l : List String) : List String := sortBy (· < ·) l

def showBits (v : Int) : String :=
  match F64.toBits v with
  | some b => let d := Nat.toDigits 16 b; String.ofList (List.replicate (16 - d.length) '0' ++ d)
  | none => s!"notdouble({v})"

def showMap (m : PM) : String :=
  if m.isEmpty then "-" else ",".intercalate ((sortMap m).map fun kv => s!"{kv.1}:{showBits kv.2}")

def showKeys (l : List String) : String := if l.isEmpty then "-" else ",".intercalate (sortKeys l)

def allUnit (m : PM) : Bool := allInUnit m

def keysOf (m : PM) : List String := m.map (·.1)

/-- ∀ key of either map: `a[k] ≤ b[k]` (missing = 0). -/
def leMap (a b : PM) : Bool :=
  (keysOf a ++ keysOf b).all fun k => decide (mget (0 : Int) a k ≤ mget 0 b k)

def parseCfg (a b c : String) : Option (Cfg Int) :=
  match parseVal a, parseVal b, parseVal c with
  | some x, some y, some z => some ⟨x, y, z⟩
  | _, _, _ => none

def cfgOk (c : Cfg Int) : Bool := inUnit c.pInit && inUnit c.beta && inUnit c.gamma

def nodeOf (k : String) : String := (k.splitOn "+").headD k

def O := f64Ops

/-- An iteration order of the received vector that explains Go's result, if there is one: the
entries Go evidently processed before the sender's own entry come first. -/
def witnessOrder (cfg : Cfg Int) (own : PM) (peer : String) (vec post : PM) : PM :=
  if (vec.any (·.1 == peer)) then
    let before := vec.filter fun e => e.1 != peer &&
      mget 0 post e.1 == transVal O cfg.beta (mget O.zero own e.1) (mget O.zero own peer) e.2
    let self := vec.filter (·.1 == peer)
    let after := vec.filter fun e => e.1 != peer && !(before.any (·.1 == e.1))
    before ++ self ++ after
  else vec

def fwdSpec (isMeta : Bool) (direct : Bool) (st : St String Int) (dest : String)
    (sentBefore chosen : List String) : Option String :=
  chosen.findSome? fun p =>
    if direct && nodeOf p == nodeOf dest then none
    else if isMeta then some s!"metadata-bundle-forwarded peer={p}"
    else
      let o := mget (0 : Int) st.own dest
      let pp := peerPred O st p dest
      if sentBefore.contains p then some s!"forward-already-sent peer={p}"
      else if pp > o then none
      else if (lookupVec st.peers p).isNone then some s!"forward-unknown-peer peer={p} own={showBits o}"
      else if pp == o then some s!"forward-tie peer={p} own={showBits o} peerPred={showBits pp}"
      else some s!"forward-lower peer={p} own={showBits o} peerPred={showBits pp}"

def handle (line : String) : String :=
  match fields line with
  | ["op", kind, a, b, r] =>
    match parseVal a, parseVal b, hexNat r with
    | some a, some b, some r =>
      let m := if kind == "add" then F64.fadd a b else if kind == "sub" then F64.fsub a b else F64.fmul a b
      if F64.toBits m == some r then "ok" else s!"diff op-{kind} model={showBits m}"
    | _, _, _ => "skip parse"
  | ["enc", c1, c2, c3, own, peer, post, sent] =>
    match parseCfg c1 c2 c3, parseMap own, parseMap post with
    | some cfg, some own, some post =>
      if !(cfgOk cfg && allUnit own) then "skip precondition" else
      if !(allUnit post) then s!"specfail range-after-encounter post={showMap post}" else
      if !(leMap own post) then s!"specfail encounter-lowered own={showMap own} post={showMap post}" else
      let m := (encounter O cfg ⟨own, []⟩ peer).own
      if sortMap m != sortMap post then s!"diff enc model={showMap m}"
      else if sent != "unobserved" && parseMap sent != some (sortMap post) then
        s!"diff enc-summary-vector sent={sent}"
      else "ok"
    | _, _, _ => "skip parse"
  | ["age", c1, c2, c3, own, post] =>
    match parseCfg c1 c2 c3, parseMap own, parseMap post with
    | some cfg, some own, some post =>
      if !(cfgOk cfg && allUnit own) then "skip precondition" else
      if !(allUnit post) then s!"specfail range-after-ageing post={showMap post}" else
      if !(leMap post own) then s!"specfail ageing-raised own={showMap own} post={showMap post}" else
      let m := (ageAll O cfg ⟨own, []⟩).own
      if sortMap m != sortMap post then s!"diff age model={showMap m}" else "ok"
    | _, _, _ => "skip parse"
  | ["rcv", c1, c2, c3, own, toMe, peer, vec, post, stored] =>
    match parseCfg c1 c2 c3, parseMap own, parseMap vec, parseMap post with
    | some cfg, some own, some vec, some post =>
      if !(cfgOk cfg && allUnit own && allUnit vec) then "skip precondition" else
      if !(allUnit post) then s!"specfail range-after-transitive post={showMap post}" else
      if !(leMap own post) then s!"specfail transitive-lowered own={showMap own} post={showMap post}" else
      let order := witnessOrder cfg own peer vec post
      let st := receiveVec O cfg ⟨own, []⟩ (toMe == "1") peer order
      if sortMap st.own != sortMap post then s!"diff rcv model={showMap st.own}"
      else if toMe == "1" && parseMap stored != some (sortMap vec) then s!"diff rcv-stored-vector stored={stored}"
      else "ok"
    | _, _, _, _ => "skip parse"
  | ["fwd", isMeta, dest, own, peers, conn, sentB, chosen, sentA] =>
    match parseMap own, parsePeers peers with
    | some own, some peers =>
      let st : St String Int := ⟨own, peers⟩
      let isMeta := isMeta == "1"
      let conn := parseKeys conn
      let sentB := parseKeys sentB
      let chosen := parseKeys chosen
      if conn.any (fun c => nodeOf c == nodeOf dest && c != dest) then "skip direct-delivery-to-service-endpoint" else
      match fwdSpec isMeta true st dest sentB chosen with
      | some cls => s!"specfail {cls} dest={dest} own={showMap own} peers={peers.map fun p => (p.1, showMap p.2)}"
      | none =>
        let m := forwardTargets O st isMeta dest conn sentB
        let direct := conn.contains dest
        let msent := if isMeta then sentB else (chooseLoop O st dest conn [] sentB).2
        if sortKeys m != sortKeys chosen then s!"diff fwd model={showKeys m}"
        else if !direct && sortKeys msent != sortKeys (parseKeys sentA) then s!"diff fwd-sent-list model={showKeys msent}"
        else "ok"
    | _, _ => "skip parse"
  | ["adv", own, peer, vec2, dest, chosen] =>
    -- the gate judged against what the peer advertises NOW (its latest summary vector), whatever the node
    -- stored of earlier ones
    match parseMap own, parseMap vec2 with
    | some own, some vec2 =>
      let st : St String Int := ⟨own, [(peer, vec2)]⟩
      let chosen := parseKeys chosen
      match fwdSpec false true st dest [] chosen with
      | some cls => s!"specfail {cls}-no-longer-advertised dest={dest} own={showMap own} advertised={showMap vec2}"
      | none =>
        let m := forwardTargets O st false dest [peer] []
        if sortKeys m != sortKeys chosen then s!"diff adv model={showKeys m}" else "ok"
    | _, _ => "skip parse"
  | ["sfb", isMeta, dest, own, peers, conn, sentB, chosen, del] =>
    match parseMap own, parsePeers peers with
    | some own, some peers =>
      let st : St String Int := ⟨own, peers⟩
      let isMeta := isMeta == "1"
      let sentB := parseKeys sentB
      let chosen := parseKeys chosen
      match fwdSpec isMeta false st dest sentB chosen with
      | some cls => s!"specfail {cls} dest={dest} own={showMap own} peers={peers.map fun p => (p.1, showMap p.2)}"
      | none =>
        let (m, d) := senderForBundle O st isMeta dest (parseKeys conn) sentB
        if sortKeys m != sortKeys chosen then s!"diff sfb model={showKeys m}"
        else if (if d then "1" else "0") != del then s!"diff sfb-delete model={d}"
        else "ok"
    | _, _ => "skip parse"
  | "stress" :: race :: _ :: iters :: outcome :: _ =>
    if outcome == "ok" then "ok"
    else if outcome == "fatal-concurrent-map" then
      s!"specfail crash-concurrent-map-access race={race} iters={iters}"
    else if outcome == "data-race" then s!"specfail data-race-predictability-maps race={race} iters={iters}"
    else s!"diff stress {outcome}"
  | "panic" :: wher :: rest => s!"specfail panic-{wher} {rest}"
  | _ => "skip unknown-op"

def main : IO Unit := run handle
