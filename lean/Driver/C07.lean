import Driver.Common
import Dtn7.Model.Delivery

/-!
Driver for C07. Input lines (fields separated by blanks). Endpoints are written `node/svc`
(= `dtn://node/svc`); bundles are named by tokens (the harness resolves received content to the
token of the delivered bundle with the byte-identical serialisation, 0 = no such bundle).

  hist <op>=<recv>|<mbox>|<eps> ...        (pkg/agent: real MuxAgent / PingAgent / RestAgent over HTTP /
                                            WebSocketAgent with connectors / mock agents)
     op:  P<i>:<eid>  M<i>:<eid>+<eid>|-  R<i>  W<i>        register an agent at the mux
          X<i>                                               agent i closes down (mux unregisters it)
          r<i>.<c>:<eid>  u<i>.<c>  f<i>.<c>                 REST register / unregister / fetch
          w<i>.<c>:<eid>|-  x<i>.<c>                         web socket connect(+register) / close
          d<tok>:<eid>                                       deliver a bundle through the mux
     recv: "-" or ;-list  <rcpt>:<tok>,<tok>   what P/M/W recipients received, and for f the fetch result
     mbox: "-" or ;-list  R<i>.<c>:<toks>      all REST mailboxes after the operation
     eps:  "-" or ,-list                       MuxAgent.Endpoints() after the operation (sorted)
  race <mode> <pre> <new> <f1> <f2> <note>  deliver-during-fetch with forced order of the mailbox accesses
  stress <who> all <delivered> <fetched>    16-goroutine stress, per persistent recipient
  stress transient sub - <n>                n wrong/duplicate bundles seen by transient clients
  muxu <n> <leave> <counts>                 a child of the MuxAgent unregisters while a delivery is in progress
  content <path> <senthex> <recvhex>        bytes handed over vs. bytes delivered
  core <node> <peers> <op>=<obs> ...         (pkg/routing: a real Core with agents and mock CLAs)
     op as above (P M R r u) with obs <recv>|<sent>|<eps>, and
          b<tok>:<dest>:<reportTo>:<flags>  receive a bundle; flags ⊆ d(elivery report requested)
                                            a(dministrative record) g(arbage administrative record)
          (the report-to endpoint of bundle <tok> is <reportTo><tok>: unique per bundle)
          with obs <recv>|<sent>|<store>;  sent: ;-list <peer>:B<tok> | <peer>:S<kinds>:<tok>><eid>
          store: absent | letters D F R C L joined by +
          t                                 the pending-bundles cron job (Core.checkPendingBundles)
          with obs <recv>|<sent>|<tok>:<store>;…   (store state of every bundle seen so far)
-/
open Dtn7.Delivery Driver

/-! ### parsing -/

def parseEid (s : String) : Eid :=
  match s.splitOn "/" with
  | n :: rest => ⟨n, "/".intercalate rest⟩
  | [] => ⟨s, ""⟩

def showEid (e : Eid) : String := e.node ++ "/" ++ e.svc

def parseToks (s : String) : Option (List Nat) :=
  if s == "-" then some [] else (s.splitOn ",").mapM (·.toNat?)

def showToks (l : List Nat) : String :=
  if l.isEmpty then "-" else ",".intercalate (l.map toString)

/-- `P3`, `M1`, `R0.5`, `W2.7`. -/
def parseRcpt (s : String) : Option Rcpt :=
  let body := (s.drop 1).toString
  match s.front, body.splitOn "." with
  | 'P', [a] => a.toNat?.map Rcpt.ping
  | 'M', [a] => a.toNat?.map Rcpt.mock
  | 'R', [a, c] => do some (Rcpt.rest (← a.toNat?) (← c.toNat?))
  | 'W', [a, c] => do some (Rcpt.ws (← a.toNat?) (← c.toNat?))
  | _, _ => none

def showRcpt : Rcpt → String
  | .ping a => s!"P{a}" | .mock a => s!"M{a}" | .rest a c => s!"R{a}.{c}" | .ws a c => s!"W{a}.{c}"

def rcptKey : Rcpt → Nat × Nat × Nat
  | .mock a => (0, a, 0) | .ping a => (1, a, 0) | .rest a c => (2, a, c) | .ws a c => (3, a, c)

def keyLt (x y : Nat × Nat × Nat) : Bool :=
  x.1 < y.1 || (x.1 == y.1 && (x.2.1 < y.2.1 || (x.2.1 == y.2.1 && x.2.2 < y.2.2)))

def insertBy {α} (lt : α → α → Bool) (x : α) : List α → List α
  | [] => [x]
  | y :: ys => if lt x y then x :: y :: ys else y :: insertBy lt x ys

/-- Stable insertion sort. -/
def sortBy {α} (lt : α → α → Bool) (l : List α) : List α :=
  l.foldr (fun x acc => insertBy (fun a b => lt a b) x acc) []

/-- `<rcpt>:<toks>;…` -/
def parseEntries (s : String) : Option (List (Rcpt × List Nat)) :=
  if s == "-" then some [] else
  (s.splitOn ";").mapM fun e =>
    match e.splitOn ":" with
    | [r, t] => do some ((← parseRcpt r), (← parseToks t))
    | _ => none

def showEntries (l : List (Rcpt × List Nat)) : String :=
  if l.isEmpty then "-" else
  ";".intercalate ((sortBy (fun a b => keyLt (rcptKey a.1) (rcptKey b.1)) l).map
    (fun e => showRcpt e.1 ++ ":" ++ showToks e.2))

/-- Group events per recipient, tokens in order of arrival. -/
def groupEvents (ev : List (Rcpt × Bundle)) : List (Rcpt × List Nat) :=
  ev.foldl (fun acc e =>
    if acc.any (·.1 == e.1) then acc.map (fun x => if x.1 == e.1 then (x.1, x.2 ++ [e.2.tok]) else x)
    else acc ++ [(e.1, [e.2.tok])]) []

def parseAC (s : String) : Option (Nat × Nat) :=
  match s.splitOn "." with
  | [a, c] => do some ((← a.toNat?), (← c.toNat?))
  | _ => none

structure BundleSpec where
  tok : Nat
  dest : String
  rt : String
  flags : String

def mkBundle (tok : Nat) (dest rt flags : String) : Bundle :=
  { tok := tok, dest := parseEid dest, reportTo := parseEid rt,
    admin := flags.contains 'a' || flags.contains 'g', adminOk := !flags.contains 'g',
    reqDelivery := flags.contains 'd' }

/-- Operation of a `hist` / `core` item (the part before `=`). `b…` items are handled by the caller. -/
def parseOp (s : String) : Option Op :=
  let parts := s.splitOn ":"
  let head := parts.headD ""
  let arg := ":".intercalate (parts.drop 1)
  let num := (head.drop 1).toString
  match head.front with
  | 'P' => num.toNat?.map (Op.addPing · (parseEid arg))
  | 'M' => num.toNat?.map (Op.addMock · (if arg == "-" then [] else (arg.splitOn "+").map parseEid))
  | 'R' => num.toNat?.map Op.addRest
  | 'W' => num.toNat?.map Op.addWs
  | 'X' => num.toNat?.map Op.dropAgent
  | 'r' => (parseAC num).map (fun ac => Op.restReg ac.1 ac.2 (parseEid arg))
  | 'u' => (parseAC num).map (fun ac => Op.restUnreg ac.1 ac.2)
  | 'f' => (parseAC num).map (fun ac => Op.restFetch ac.1 ac.2)
  | 'w' => (parseAC num).map (fun ac => Op.wsConnect ac.1 ac.2 (if arg == "-" then none else some (parseEid arg)))
  | 'x' => (parseAC num).map (fun ac => Op.wsClose ac.1 ac.2)
  | 'd' => num.toNat?.map (fun t => Op.deliver (mkBundle t arg s!"rt/{t}" ""))
  | _ => none

def cfg : Cfg := {}
def ncfg : NCfg := {}

/-! ### Spec checks on the implementation's observations -/

/-- Observed events: tokens resolved against the bundles delivered so far in this line. -/
def toEvents (known : List Bundle) (obs : List (Rcpt × List Nat)) : List (Rcpt × Bundle) :=
  obs.flatMap fun e => e.2.map fun t =>
    (e.1, (known.find? (·.tok == t)).getD { tok := t, dest := ⟨"?", "?"⟩, reportTo := ⟨"?", "?"⟩ })

def permToks (a b : List Nat) : Bool := a.isPerm b

/-- Mailboxes: the dump must be exactly the reference's boxes. -/
def mailboxFail (r : Reg) (obs : List (Rcpt × List Nat)) : Option String :=
  match obs.find? (fun e => !(r.regs.any (·.1 == e.1))) with
  | some _ => some "mailbox-of-unregistered-client"
  | none =>
    match obs.find? (fun e => !permToks e.2 ((r.box e.1).map (·.tok))) with
    | some _ => some "mailbox-content-differs"
    | none =>
      match r.boxes.find? (fun e => !obs.any (·.1 == e.1)) with
      | some _ => some "mailbox-missing"
      | none => none

def insertStr (x : String) : List String → List String
  | [] => [x]
  | y :: ys => if x < y then x :: y :: ys else y :: insertStr x ys
def sortStr (l : List String) : List String := l.foldr insertStr []

def showEps (l : List Eid) : String :=
  if l.isEmpty then "-" else ",".intercalate (sortStr (l.map showEid))

def endpointsFail (r : Reg) (obs : String) : Option String :=
  let want := sortStr ((r.regs.flatMap (·.2)).map showEid)
  let got := if obs == "-" then [] else obs.splitOn ","
  if got == want then none
  else if want.any (fun e => !got.contains e) then some "endpoints-incomplete"
  else some "endpoints-wrong"

def eventsFail (r : Reg) (op : Op) (ev : List (Rcpt × Bundle)) : Option String :=
  if eventsOk r op ev then none else
  match op with
  | .deliver b => (deliveredFail r.regs b ev).orElse (fun _ => some "delivered-exactly")
  | .restFetch a c =>
    let want := (r.box (.rest a c)).map (·.tok)
    let got := ev.map (·.2.tok)
    if ev.any (fun e => e.1 != .rest a c) then some "fetch-wrong-client"
    else if got.any (fun t => !want.contains t) then some "fetch-returns-foreign-bundle"
    else if got.any (fun t => got.count t > 1) then some "fetch-duplicate"
    else some "fetch-incomplete"
  | _ => some "unexpected-delivery"

/-! ### hist lines -/

structure HistSt where
  m : Mux := {}
  r : Reg := {}
  known : List Bundle := []

def histItem (st : HistSt) (item : String) : Except String HistSt :=
  match item.splitOn "=" with
  | [ops, obs] =>
    match parseOp ops, obs.splitOn "|" with
    | some op, [recvS, mboxS, epsS] =>
      match parseEntries recvS, parseEntries mboxS with
      | some recv, some mbox =>
        let known := match op with | .deliver b => b :: st.known | _ => st.known
        -- hand-overs to REST clients are seen as growth of their mailboxes
        let restDelta : List (Rcpt × List Nat) := match op with
          | .deliver _ => (mbox.map (fun e => (e.1, ((st.r.box e.1).map (·.tok)).foldl (fun acc t => acc.erase t) e.2))).filter (fun e => !e.2.isEmpty)
          | _ => []
        let goEv := toEvents known (recv ++ restDelta)
        -- Spec on the implementation's observations
        match eventsFail st.r op goEv with
        | some cls => .error s!"specfail {cls} at {ops}"
        | none =>
        let r' := (st.r.step op).1
        match mailboxFail r' mbox with
        | some cls => .error s!"specfail {cls} at {ops}"
        | none =>
        match endpointsFail r' epsS with
        | some cls => .error s!"specfail {cls} at {ops} want={showEps (r'.regs.flatMap (·.2))}"
        | none =>
        -- correspondence with the model
        let x := step cfg st.m op
        let mEv := match op with | .deliver _ => x.2.filter (fun e => !isRest e.1) | _ => x.2
        let mRecv := showEntries (groupEvents mEv)
        let mMbox := showEntries (x.1.mailboxes.map (fun e => (e.1, e.2.map (·.tok))))
        let mEps := showEps (x.1.endpoints cfg)
        if mRecv != showEntries recv then .error s!"diff recv at {ops} model={mRecv} impl={recvS}"
        else if mMbox != showEntries mbox then .error s!"diff mailboxes at {ops} model={mMbox} impl={mboxS}"
        else if mEps != epsS then .error s!"diff endpoints at {ops} model={mEps} impl={epsS}"
        else .ok { m := x.1, r := r', known := known }
      | _, _ => .error "skip parse-entries"
    | _, _ => .error s!"skip parse-op {ops}"
  | _ => .error "skip parse-item"

def handleHist (items : List String) : String :=
  let rec go (st : HistSt) : List String → String
    | [] => "ok"
    | it :: rest =>
      match histItem st it with
      | .ok st' => go st' rest
      | .error e => e
  go {} items

/-! ### race lines -/

def bundleOfTok (t : Nat) : Bundle := { tok := t, dest := ⟨"n1", "a"⟩, reportTo := ⟨"rt", toString t⟩ }

/-- All schedules of length `n` over two threads. -/
def schedules : Nat → List (List Nat)
  | 0 => [[]]
  | n + 1 => (schedules n).flatMap (fun σ => [0 :: σ, 1 :: σ])

/-- Outcomes (first fetch, mailbox afterwards) of the model with the mutex over all complete schedules. -/
def raceOutcomes (pre : List Nat) (new : Nat) : List (List Nat × List Nat) :=
  let s0 : Shared := { mbox := if pre.isEmpty then none else some (pre.map bundleOfTok) }
  let ts := [Thr.fIdle, Thr.dIdle (bundleOfTok new)]
  ((schedules 8).filterMap fun σ =>
    let r := runSched true (s0, ts) σ
    if r.2.all Thr.done then
      some ((fetchedAll r.2).map (·.tok), (r.1.mbox.getD []).map (·.tok))
    else none).eraseDups

def handleRace (pre new f1 f2 : String) : String :=
  match parseToks pre, new.toNat?, parseToks f1, parseToks f2 with
  | some pre, some new, some f1, some f2 =>
    let put := pre ++ [new]
    let got := f1 ++ f2
    if !FetchExactlyOnce (put.map bundleOfTok) (got.map bundleOfTok) then
      if got.any (fun t => got.count t > 1) then "specfail fetch-duplicate-deliver-during-fetch"
      else if put.any (fun t => !got.contains t) then "specfail fetch-lost-deliver-during-fetch"
      else "specfail fetch-foreign-deliver-during-fetch"
    else if (raceOutcomes pre new).contains (f1, f2) then "ok"
    else s!"diff race model={(raceOutcomes pre new).map (fun o => (showToks o.1, showToks o.2))} impl={showToks f1}/{showToks f2}"
  | _, _, _, _ => "skip parse"

/-! ### core lines -/

structure CoreSt where
  n : Node
  r : Reg := {}
  known : List Bundle := []
  held : List Nat := []      -- tokens the implementation reported as still stored
  stores : List (Nat × String) := []  -- last store state the implementation reported per token

def storeLetter : Constraint → String
  | .dispatchPending => "D" | .forwardPending => "F" | .reassemblyPending => "R"
  | .contraindicated => "C" | .localEndpoint => "L"

def showStore (cons : Option (List Constraint)) : String :=
  match cons with
  | none | some [] => "absent"
  | some l => "+".intercalate (sortStr (l.map storeLetter))

/-- REST clients registered in the reference, in the harness's fetch order. -/
def restClients (r : Reg) : List (Nat × Nat) :=
  sortBy (fun a b => keyLt (0, a.1, a.2) (0, b.1, b.2))
    (r.regs.filterMap (fun e => match e.1 with | .rest a c => some (a, c) | _ => none))

def coreItem (peers : List String) (st : CoreSt) (item : String) : Except String CoreSt :=
  match item.splitOn "=" with
  | [ops, obs] =>
    match obs.splitOn "|" with
    | [recvS, sentS, thirdS] =>
      match parseEntries recvS with
      | none => .error "skip parse-entries"
      | some recv =>
      if ops.front == 'b' then
        match ops.splitOn ":" with
        | [hd, dest, rt, fl] =>
          match (hd.drop 1).toString.toNat? with
          | none => .error "skip parse-b"
          | some tok =>
          let b := mkBundle tok dest (rt ++ toString tok) fl
          let known := if st.known.any (·.tok == tok) then st.known else b :: st.known
          let goEv := toEvents known recv
          let sent := if sentS == "-" then [] else sentS.splitOn ";"
          let whats := sent.map (fun s => ":".intercalate ((s.splitOn ":").drop 1))
          let isLocal := st.n.nodeId.sameNode b.dest || st.r.regs.any (·.2.contains b.dest)
          let accepted := !st.held.contains tok
          let malformed := b.admin && !b.adminOk
          let reported := whats.any (fun w =>
            match w.splitOn ":" with
            | [k, rest] => k.startsWith "S" && k.contains 'd' && (rest.splitOn ">").headD "" == toString tok
            | _ => false)
          -- Spec
          let fail : Option String :=
            if isLocal && whats.contains s!"B{tok}" then some "local-bundle-forwarded"
            else if !(isLocal && accepted && !malformed) && !goEv.isEmpty then
              some (if !isLocal then "delivered-though-not-local" else if !accepted then "delivered-unaccepted-copy" else "delivered-malformed-record")
            else if isLocal && accepted && !malformed && !DeliveredExactly st.r.regs b goEv then
              (deliveredFail st.r.regs b goEv).map (· ++ "-core")
            else if reported && goEv.isEmpty then some "delivered-report-without-handover"
            else if isLocal && accepted && thirdS == "absent" && goEv.isEmpty && !malformed then
              some "retention-removed-without-handover"
            else none
          match fail with
          | some cls => .error s!"specfail {cls} at {ops}"
          | none =>
          -- model
          let x := receive ncfg st.n b
          -- the harness fetches every REST client's mailbox after the operation
          let clients := restClients st.r
          let n' : Node := { x.1 with mux := clients.foldl (fun m ac => (step cfg m (.restFetch ac.1 ac.2)).1) x.1.mux }
          let handed := x.2.filterMap (fun | .handed r b' => some (r, b') | _ => none)
          let mRecv := showEntries (groupEvents handed)
          let reports := x.2.filterMap (fun | .report a => some s!"Sd:{a.tok}>{showEid a.reportTo}" | _ => none)
          let fwd := x.2.filterMap (fun | .forward a => some s!"B{a.tok}" | _ => none)
          let mSent := sortStr (peers.flatMap (fun p => (reports ++ fwd).map (fun w => p ++ ":" ++ w)))
          let mSentS := if mSent.isEmpty then "-" else ";".intercalate mSent
          let mStore := showStore ((aload tok n'.store).map (·.2))
          let forwarded := !fwd.isEmpty || (!isLocal)
          if mRecv != showEntries recv then .error s!"diff core-recv at {ops} model={mRecv} impl={recvS}"
          else if mSentS != sentS then .error s!"diff core-sent at {ops} model={mSentS} impl={sentS}"
          else if !forwarded && mStore != thirdS then .error s!"diff core-store at {ops} model={mStore} impl={thirdS}"
          else
            let r1 := (st.r.step (.deliver b)).1
            let r2 := if isLocal && accepted && !malformed then
                clients.foldl (fun r ac => (r.step (.restFetch ac.1 ac.2)).1) r1 else st.r
            let held := if thirdS == "absent" then st.held.filter (· != tok)
                        else if st.held.contains tok then st.held else tok :: st.held
            .ok { n := n', r := r2, known := known, held := held, stores := astore tok thirdS st.stores }
        | _ => .error "skip parse-b"
      else if ops == "t" then
        let goEv := toEvents st.known recv
        let sent := if sentS == "-" then [] else sentS.splitOn ";"
        let whats := sent.map (fun s => ":".intercalate ((s.splitOn ":").drop 1))
        let obsStores : List (Nat × String) := if thirdS == "-" then [] else
          (thirdS.splitOn ";").filterMap (fun e => match e.splitOn ":" with
            | [t, v] => t.toNat?.map (·, v)
            | _ => none)
        let isLocal := fun (b : Bundle) => st.n.nodeId.sameNode b.dest || st.r.regs.any (·.2.contains b.dest)
        -- a bundle is re-dispatched when the implementation had reported it as pending (F or C constraint)
        let wasPending := fun (b : Bundle) => match aload b.tok st.stores with
          | some v => v.contains 'F' || v.contains 'C'
          | none => false
        -- Spec
        let fail : Option String := st.known.findSome? fun b =>
          let evb := goEv.filter (·.2.tok == b.tok)
          let reported := whats.any (fun w =>
            match w.splitOn ":" with
            | [k, rest] => k.startsWith "S" && k.contains 'd' && (rest.splitOn ">").headD "" == toString b.tok
            | _ => false)
          if isLocal b && whats.contains s!"B{b.tok}" then some "local-bundle-forwarded"
          else if !(wasPending b && isLocal b) && !evb.isEmpty then some "delivered-unaccepted-copy"
          else if wasPending b && isLocal b && !(b.admin && !b.adminOk) && !DeliveredExactly st.r.regs b evb then
            (deliveredFail st.r.regs b evb).map (· ++ "-core-tick")
          else if reported && evb.isEmpty then some "delivered-report-without-handover"
          else if wasPending b && isLocal b && aload b.tok obsStores == some "absent" && evb.isEmpty && !(b.admin && !b.adminOk) then
            some "retention-removed-without-handover"
          else none
        match (if goEv.any (fun e => !st.known.any (·.tok == e.2.tok)) then some "content-differs-core-tick" else fail) with
        | some cls => .error s!"specfail {cls} at t"
        | none =>
        -- model
        let x := tick ncfg st.n
        let clients := restClients st.r
        let n' : Node := { x.1 with mux := clients.foldl (fun m ac => (step cfg m (.restFetch ac.1 ac.2)).1) x.1.mux }
        let handed := x.2.filterMap (fun | .handed r b' => some (r, b') | _ => none)
        let sortToks := fun (l : List (Rcpt × List Nat)) => l.map (fun e => (e.1, sortBy (fun a b => decide (a < b)) e.2))
        let mRecv := showEntries (sortToks (groupEvents handed))
        let reports := x.2.filterMap (fun | .report a => some s!"Sd:{a.tok}>{showEid a.reportTo}" | _ => none)
        let mSent := sortStr (peers.flatMap (fun p => reports.map (fun w => p ++ ":" ++ w)))
        let mSentS := if mSent.isEmpty then "-" else ";".intercalate mSent
        let storeDiff := obsStores.find? (fun e =>
          match aload e.1 n'.store with
          | some (_, cons) => !(cons.contains .forwardPending) && showStore (some cons) != e.2
          | none => e.2 != "absent" && !(e.2.contains 'F' || e.2.contains 'C'))
        if mRecv != showEntries (sortToks recv) then .error s!"diff core-tick-recv model={mRecv} impl={recvS}"
        else if mSentS != sentS then .error s!"diff core-tick-sent model={mSentS} impl={sentS}"
        else if storeDiff.isSome then .error s!"diff core-tick-store impl={thirdS}"
        else
          let delivered := st.known.filter (fun b => wasPending b && isLocal b && !(b.admin && !b.adminOk))
          let r1 := delivered.foldl (fun r b => (r.step (.deliver b)).1) st.r
          let r2 := clients.foldl (fun r ac => (r.step (.restFetch ac.1 ac.2)).1) r1
          let held := st.held.filter (fun t => aload t obsStores != some "absent")
          .ok { st with n := n', r := r2, held := held, stores := obsStores }
      else
        match parseOp ops with
        | none => .error s!"skip parse-op {ops}"
        | some op =>
          if !recv.isEmpty then .error s!"specfail unexpected-delivery at {ops}" else
          let r' := (st.r.step op).1
          match endpointsFail r' thirdS with
          | some cls => .error s!"specfail {cls} at {ops}"
          | none =>
          let x := step cfg st.n.mux op
          let mEps := showEps (x.1.endpoints cfg)
          if sentS != "-" then .error s!"diff core-sent at {ops} impl={sentS}"
          else if mEps != thirdS then .error s!"diff endpoints at {ops} model={mEps} impl={thirdS}"
          else .ok { st with n := { st.n with mux := x.1 }, r := r' }
    | _ => .error "skip parse-obs"
  | _ => .error "skip parse-item"

def handleCore (node peers : String) (items : List String) : String :=
  let ps := if peers == "-" then [] else peers.splitOn ","
  let rec go (st : CoreSt) : List String → String
    | [] => "ok"
    | it :: rest =>
      match coreItem ps st it with
      | .ok st' => go st' rest
      | .error e => e
  go { n := { nodeId := ⟨node, ""⟩ } } items

/-! ### dispatch -/

def handle (line : String) : String :=
  match fields line with
  | "hist" :: items => handleHist items
  | ["race", _mode, pre, new, f1, f2, _note] => handleRace pre new f1 f2
  | ["stress", _who, "all", delivered, fetched] =>
    match parseToks delivered, parseToks fetched with
    | some d, some f =>
      if FetchExactlyOnce (d.map bundleOfTok) (f.map bundleOfTok) then "ok"
      else if f.any (fun t => f.count t > 1) then "specfail stress-duplicate"
      else if d.any (fun t => !f.contains t) then "specfail stress-lost"
      else "specfail stress-foreign"
    | _, _ => "skip parse"
  | ["stress", "transient", "sub", _, n] => s!"specfail stress-transient-wrong n={n}"
  | ["muxu", _n, _leave, "hang"] => "specfail mux-delivery-hangs-while-a-child-unregisters"
  | ["muxu", _n, _leave, "panic"] => "specfail panic-while-a-child-unregisters"
  | ["muxu", _n, _leave, "crashed"] => "specfail process-crashed-while-a-child-unregisters"
  | ["muxu", n, leave, counts] =>
    -- a child unregisters while the delivery of a bundle to the children is in progress: every other
    -- registered child is handed the bundle exactly once, the leaving one at most once
    match n.toNat?, leave.toNat?, (counts.splitOn ",").mapM (·.toNat?) with
    | some n, some leave, some cs =>
      if cs.length != n then "skip parse"
      else
        let bad := (List.range n).filterMap fun i =>
          let c := cs.getD i 0
          if i == leave then (if c ≤ 1 then none else some "duplicate")
          else if c == 1 then none else if c == 0 then some "missed" else some "duplicate"
        match bad.head? with
        | none => "ok"
        | some k => s!"specfail mux-{k}-while-a-child-unregisters counts={counts} leaving={leave}"
    | _, _, _ => "skip parse"
  | ["muxslow", _m, "hang"] => "specfail mux-delivery-hangs-with-a-busy-child"
  | ["muxslow", m, counts] =>
    -- a child that is busy for a long time per bundle: every child is handed every bundle of the burst, once
    match m.toNat?, (counts.splitOn ",").mapM (·.toNat?) with
    | some m, some cs =>
      if cs.all (· == m) then "ok"
      else if cs.any (· < m) then s!"specfail mux-busy-child-missed-a-bundle burst={m} counts={counts}"
      else s!"specfail mux-busy-child-duplicate burst={m} counts={counts}"
    | _, _ => "skip parse"
  | ["content", path, sent, recv] =>
    match parseHex sent, parseHex recv with
    | some s, some r => if s == r then "ok" else s!"specfail content-differs-{path}"
    | _, _ => "skip parse"
  | "core" :: node :: peers :: items => handleCore node peers items
  | _ => "skip unknown-op"

def main : IO Unit := run handle
