#!/bin/bash
# Self-test of the C15 fact extractor: the fact `reportOnlyOnSuccess` must be false on the current
# localDelivery and flip to true for every plausible shape of the D16 repair; unrelated facts must
# follow the edits they describe. Works on scratch copies of the repository, never on the tree itself.
# usage: selftest/c15_facts.sh [repo]      (default $VERIF_REPO or /repo)
set -u
export GOFLAGS=-mod=mod GOPROXY=off GOSUMDB=off GOTOOLCHAIN=local
VERIF=$(cd "$(dirname "$0")/.." && pwd)
REPO=${1:-${VERIF_REPO:-/repo}}
T=$(mktemp -d "${TMPDIR:-/var/tmp}/c15facts.XXXXXX")
trap 'rm -rf "$T"' EXIT
(cd "$VERIF/extract" && go build -o "$T/extract" .) || exit 2
fail=0
run() { # name expected-value python-edit
  local name=$1 want=$2 edit=$3
  rm -rf "$T/r" && mkdir -p "$T/r/pkg" && cp -r "$REPO/pkg/routing" "$REPO/pkg/bpv7" "$REPO/pkg/cla" "$T/r/pkg/" || exit 2
  python3 - "$T/r/pkg/routing/processing.go" "$edit" <<'PY' || { echo "FAIL $name: edit did not apply"; fail=1; return; }
import sys
path, edit = sys.argv[1], sys.argv[2]
s = open(path).read()
OLD = '''	if err := c.agentManager.Deliver(bp); err != nil {
		log.WithField("bundle", bp.ID()).WithError(err).Warn("Delivering local bundle errored")
	}

	if bp.MustBundle().PrimaryBlock.BundleControlFlags.Has(bpv7.StatusRequestDelivery) {
		c.SendStatusReport(bp, bpv7.DeliveredBundle, bpv7.NoInformation)
	}
'''
NEW = {
 'none': OLD,
 'else': '''	if err := c.agentManager.Deliver(bp); err != nil {
		log.WithField("bundle", bp.ID()).WithError(err).Warn("Delivering local bundle errored")
	} else if bp.MustBundle().PrimaryBlock.BundleControlFlags.Has(bpv7.StatusRequestDelivery) {
		c.SendStatusReport(bp, bpv7.DeliveredBundle, bpv7.NoInformation)
	}
''',
 'return': '''	if err := c.agentManager.Deliver(bp); err != nil {
		log.WithField("bundle", bp.ID()).WithError(err).Warn("Delivering local bundle errored")
		return
	}

	if bp.MustBundle().PrimaryBlock.BundleControlFlags.Has(bpv7.StatusRequestDelivery) {
		c.SendStatusReport(bp, bpv7.DeliveredBundle, bpv7.NoInformation)
	}
''',
 'eqnil': '''	delivErr := c.agentManager.Deliver(bp)
	if delivErr == nil {
		if bp.MustBundle().PrimaryBlock.BundleControlFlags.Has(bpv7.StatusRequestDelivery) {
			c.SendStatusReport(bp, bpv7.DeliveredBundle, bpv7.NoInformation)
		}
	} else {
		log.WithField("bundle", bp.ID()).WithError(delivErr).Warn("Delivering local bundle errored")
	}
''',
 'wrongvar': '''	err := c.agentManager.Deliver(bp)
	_, other := bp.Bundle()
	if other == nil {
		if bp.MustBundle().PrimaryBlock.BundleControlFlags.Has(bpv7.StatusRequestDelivery) {
			c.SendStatusReport(bp, bpv7.DeliveredBundle, bpv7.NoInformation)
		}
	}
	_ = err
''',
 'onfailure': '''	if err := c.agentManager.Deliver(bp); err != nil {
		if bp.MustBundle().PrimaryBlock.BundleControlFlags.Has(bpv7.StatusRequestDelivery) {
			c.SendStatusReport(bp, bpv7.DeliveredBundle, bpv7.NoInformation)
		}
	}
''',
}
assert s.count(OLD) == 1
open(path, 'w').write(s.replace(OLD, NEW[edit]))
PY
  (cd "$T/r" && gofmt -l pkg/routing/processing.go >/dev/null) || { echo "FAIL $name: does not parse"; fail=1; return; }
  mkdir -p "$T/out" && "$T/extract" -repo "$T/r" -out "$T/out" -only C15 >/dev/null; 
  got=$(grep -o 'def reportOnlyOnSuccess : Bool := [a-z]*' "$T/out/C15.lean" | awk '{print $NF}')
  if [ "$got" = "$want" ]; then echo "ok   $name: reportOnlyOnSuccess=$got"; else echo "FAIL $name: reportOnlyOnSuccess=$got, expected $want"; fail=1; fi
}
run current        false none
run else-branch    true  else
run early-return   true  return
run eq-nil-branch  true  eqnil
run wrong-variable false wrongvar
run on-failure     false onfailure
exit $fail
