#!/usr/bin/env python3
"""C16 self-test: apply one mutation at a time to the repo worktree ($VERIF_REPO, must be clean), check that
`go test ./pkg/cla/` still passes, run `bin/check C16 quick`, print what was reported, restore the tree.
usage: VERIF_REPO=/path/to/repo selftest/C16-mutations.py [mutation names]"""
import subprocess, os, json, sys, glob, time
VERIF=os.path.dirname(os.path.dirname(os.path.abspath(__file__)))
REPO=os.environ.get('VERIF_REPO','/repo')
env=dict(os.environ, GOFLAGS='-mod=mod', GOPROXY='off', GOSUMDB='off', GOTOOLCHAIN='local', VERIF_REPO=REPO)
MUTS = {
 'M0-revert-D13-fix': ('pkg/cla/manager_elem.go', '''			if atomic.LoadInt32(&ce.ttl) > 0 {
				atomic.AddInt32(&ce.ttl, -1)
			}''', '''			atomic.AddInt32(&ce.ttl, -1)'''),
 'M1-isActive-le': ('pkg/cla/manager_elem.go', 'return atomic.LoadInt32(&ce.ttl) < 0', 'return atomic.LoadInt32(&ce.ttl) <= 0'),
 'M2-deactivate-no-isActive': ('pkg/cla/manager_elem.go', '''	if !ce.isActive() {
		return
	}

	ce.mutex.Lock()
	defer ce.mutex.Unlock()

	log.WithFields(log.Fields{
		"cla": ce.conv,
	}).Info("Deactivating CLA")''', '''	ce.mutex.Lock()
	defer ce.mutex.Unlock()

	log.WithFields(log.Fields{
		"cla": ce.conv,
	}).Info("Deactivating CLA")'''),
 'M3-deactivate-no-ttl-reset': ('pkg/cla/manager_elem.go', '''	<-ce.stopAck

	atomic.StoreInt32(&ce.ttl, ttl)''', '''	<-ce.stopAck
	_ = ttl'''),
 'M4-close-skips-receivers': ('pkg/cla/manager.go', '''			manager.convs.Range(func(_, convElem interface{}) bool {
				manager.Unregister(convElem.(*convergenceElem).conv)
				return true
			})''', '''			manager.convs.Range(func(_, convElem interface{}) bool {
				if _, isRec := convElem.(*convergenceElem).asReceiver(); isRec {
					return true
				}
				manager.Unregister(convElem.(*convergenceElem).conv)
				return true
			})'''),
 'M5-register-replaces': ('pkg/cla/manager.go', '''	if convElem, exists := manager.convs.Load(conv.Address()); exists {
		ce = convElem.(*convergenceElem)
		if ce.isActive() {''', '''	if convElem, exists := manager.convs.Load(conv.Address()); exists {
		ce = newConvergenceElement(conv, manager.inChnl, manager.queueTtl)
		if convElem.(*convergenceElem).isActive() {'''),
 'M6-tick-keeps-definitive-failure': ('pkg/cla/manager.go', '''					manager.convs.Delete(key)
				}
				return true''', '''				}
				return true'''),
 'M7-unregister-any-instance': ('pkg/cla/manager.go', '''	if element.conv != conv {''', '''	if false && element.conv != conv {'''),
 'M8-restart-without-unregister': ('pkg/cla/manager.go', '''	manager.Unregister(conv)
	manager.Register(conv)''', '''	manager.Register(conv)'''),
 'M9-new-element-budget-plus-one': ('pkg/cla/manager.go', 'ce = newConvergenceElement(conv, manager.inChnl, manager.queueTtl)', 'ce = newConvergenceElement(conv, manager.inChnl, manager.queueTtl+1)'),
 'M11-unregister-keeps-element': ('pkg/cla/manager.go', '''	element.deactivate(manager.queueTtl)
	manager.convs.Delete(conv.Address())''', '''	element.deactivate(manager.queueTtl)'''),
 'M12-no-element-goroutine': ('pkg/cla/manager_elem.go', '''		go ce.handler()
''', '''		_ = ce.handler
'''),
 'M10-no-refusal-check': ('pkg/cla/manager.go', 'if cr.GetEndpointID() == cs.GetPeerEndpointID() {', 'if false && cr.GetEndpointID() == cs.GetPeerEndpointID() {'),
}
sel = sys.argv[1:] or list(MUTS)
out = {}
for name in sel:
    f, old, new = MUTS[name]
    subprocess.run(['git','checkout','--','pkg/cla'], cwd=REPO, check=True)
    p=os.path.join(REPO,f); s=open(p).read()
    assert s.count(old)==1, (name, s.count(old))
    open(p,'w').write(s.replace(old,new))
    r=subprocess.run(['go','test','-count=1','./pkg/cla/'],cwd=REPO,env=env,capture_output=True,text=True)
    res={'go_test': 'pass' if r.returncode==0 else 'FAIL: '+(r.stdout+r.stderr)[-800:]}
    for f0 in glob.glob(VERIF+'/evidence/replay/C16-*'): os.remove(f0)
    t=time.time()
    r=subprocess.run(['bin/check','C16','quick'],cwd=VERIF,env=dict(env,VERIF_SEED='1'),capture_output=True,text=True)
    res['rc']=r.returncode; res['stdout']=r.stdout[-1500:]; res['wall']=round(time.time()-t,1)
    ev=json.load(open(VERIF+'/evidence/C16.json'))
    res['verdicts']=ev['coverage']['verdicts']
    res['replays']={}
    for f0 in glob.glob(VERIF+'/evidence/replay/C16-*'):
        d=json.load(open(f0))
        if d.get('kind')=='no-failing-input-found':
            res['replays'][os.path.basename(f0)]=[(b['kind'],b['what'][:300]) for b in d['broken']]
        else:
            res['replays'][os.path.basename(f0)]={'class':d['class'],'occ':d['occurrences'],'min':d['minimal_input'][:300]}
    out[name]=res
    print(name, json.dumps(res,indent=1), flush=True)
    subprocess.run(['git','checkout','--','pkg/cla'], cwd=REPO, check=True)
json.dump(out, open(os.path.join(os.environ.get('TMPDIR','/tmp'),'c16-mutation-results-%d.json' % int(time.time())),'w'), indent=1)
