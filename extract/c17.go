package main

import (
	"fmt"
	"go/ast"
	"go/constant"
	"go/token"
	"sort"
	"strconv"
	"strings"
)

// ---- helpers local to C17 / C12 (kept here, x.go stays untouched) ----

// constEnv evaluates all package-level constants of a directory (ints and strings).
func (x *X) constEnv(dir string) (map[string]constant.Value, error) {
	p, err := x.Pkg(dir)
	if err != nil {
		return nil, err
	}
	env := map[string]constant.Value{}
	for pass := 0; pass < 3; pass++ {
		for _, fn := range sortedFiles(p) {
			for _, d := range p[fn].Decls {
				gd, ok := d.(*ast.GenDecl)
				if !ok || gd.Tok != token.CONST {
					continue
				}
				var lastExprs []ast.Expr
				for iota, s := range gd.Specs {
					vs := s.(*ast.ValueSpec)
					exprs := vs.Values
					if len(exprs) == 0 {
						exprs = lastExprs
					} else {
						lastExprs = exprs
					}
					for i, n := range vs.Names {
						if i >= len(exprs) {
							continue
						}
						if v := evalConst(exprs[i], env, int64(iota)); v != nil {
							env[n.Name] = v
						}
					}
				}
			}
		}
	}
	return env, nil
}

// StrConst evaluates a package-level string constant.
func (x *X) StrConst(dir, name string) string {
	env, err := x.constEnv(dir)
	if err != nil {
		x.Failf("%v", err)
		return ""
	}
	v, ok := env[name]
	if !ok || v.Kind() != constant.String {
		x.Failf("string constant %s.%s not found", dir, name)
		return ""
	}
	return constant.StringVal(v)
}

// CallArgStr finds the first call `<callee>(arg)` in a function and evaluates its single argument as
// a constant string expression (literals, package constants, +).
func (x *X) CallArgStr(dir, recv, fn, callee string) string {
	fd, err := x.Func(dir, recv, fn)
	if err != nil {
		x.Failf("%v", err)
		return ""
	}
	env, _ := x.constEnv(dir)
	res, found := "", false
	ast.Inspect(fd.Body, func(n ast.Node) bool {
		ce, ok := n.(*ast.CallExpr)
		if !ok || found || exprName(ce.Fun) != callee || len(ce.Args) != 1 {
			return true
		}
		if v := evalConst(ce.Args[0], env, 0); v != nil && v.Kind() == constant.String {
			res, found = constant.StringVal(v), true
		}
		return true
	})
	if !found {
		x.Failf("%s (%s).%s: no call %s(<constant string>)", dir, recv, fn, callee)
	}
	return res
}

// VarBytes reads `var name = []byte{…}`.
func (x *X) VarBytes(dir, name string) []uint64 {
	p, err := x.Pkg(dir)
	if err != nil {
		x.Failf("%v", err)
		return nil
	}
	env, _ := x.constEnv(dir)
	for _, fn := range sortedFiles(p) {
		for _, d := range p[fn].Decls {
			gd, ok := d.(*ast.GenDecl)
			if !ok || gd.Tok != token.VAR {
				continue
			}
			for _, s := range gd.Specs {
				vs := s.(*ast.ValueSpec)
				for i, n := range vs.Names {
					if n.Name != name || i >= len(vs.Values) {
						continue
					}
					cl, ok := vs.Values[i].(*ast.CompositeLit)
					if !ok {
						continue
					}
					var out []uint64
					for _, e := range cl.Elts {
						v := evalConst(e, env, 0)
						if v == nil {
							x.Failf("%s.%s: element not constant", dir, name)
							return nil
						}
						u, _ := constant.Uint64Val(constant.ToInt(v))
						out = append(out, u)
					}
					return out
				}
			}
		}
	}
	x.Failf("var %s.%s not found", dir, name)
	return nil
}

// MapKeys reads the (constant, integer) keys of `var name = map[…]…{k: v, …}`, sorted.
func (x *X) MapKeys(dir, name string) []uint64 {
	p, err := x.Pkg(dir)
	if err != nil {
		x.Failf("%v", err)
		return nil
	}
	env, _ := x.constEnv(dir)
	for _, fn := range sortedFiles(p) {
		for _, d := range p[fn].Decls {
			gd, ok := d.(*ast.GenDecl)
			if !ok || gd.Tok != token.VAR {
				continue
			}
			for _, s := range gd.Specs {
				vs := s.(*ast.ValueSpec)
				for i, n := range vs.Names {
					if n.Name != name || i >= len(vs.Values) {
						continue
					}
					cl, ok := vs.Values[i].(*ast.CompositeLit)
					if !ok {
						continue
					}
					var out []uint64
					for _, e := range cl.Elts {
						kv, ok := e.(*ast.KeyValueExpr)
						if !ok {
							continue
						}
						v := evalConst(kv.Key, env, 0)
						if v == nil {
							x.Failf("%s.%s: key %s not constant", dir, name, x.Src(kv.Key))
							continue
						}
						u, _ := constant.Uint64Val(constant.ToInt(v))
						out = append(out, u)
					}
					sort.Slice(out, func(i, j int) bool { return out[i] < out[j] })
					return out
				}
			}
		}
	}
	x.Failf("var %s.%s not found", dir, name)
	return nil
}

// NamedCodes lists the case constants of the first switch in (recv).fn whose clause does NOT return
// `invalid` (a string literal's value or an identifier's name) — for `IsValid() = String() != "INVALID"`.
func (x *X) NamedCodes(dir, recv, fn, invalid string) []uint64 {
	fd, err := x.Func(dir, recv, fn)
	if err != nil {
		x.Failf("%v", err)
		return nil
	}
	env, _ := x.constEnv(dir)
	var out []uint64
	found := false
	ast.Inspect(fd.Body, func(n ast.Node) bool {
		sw, ok := n.(*ast.SwitchStmt)
		if !ok || found {
			return true
		}
		found = true
		for _, c := range sw.Body.List {
			cc := c.(*ast.CaseClause)
			if cc.List == nil {
				continue
			}
			isInvalid := false
			for _, st := range cc.Body {
				if r, ok := st.(*ast.ReturnStmt); ok && len(r.Results) == 1 {
					switch e := r.Results[0].(type) {
					case *ast.BasicLit:
						if s, err := strconv.Unquote(e.Value); err == nil && s == invalid {
							isInvalid = true
						}
					case *ast.Ident:
						if e.Name == invalid {
							isInvalid = true
						}
					}
				}
			}
			if isInvalid {
				continue
			}
			for _, e := range cc.List {
				v := evalConst(e, env, 0)
				if v == nil {
					x.Failf("%s (%s).%s: case %s not constant", dir, recv, fn, x.Src(e))
					continue
				}
				u, _ := constant.Uint64Val(constant.ToInt(v))
				out = append(out, u)
			}
		}
		return false
	})
	if !found {
		x.Failf("%s (%s).%s: no switch statement", dir, recv, fn)
	}
	sort.Slice(out, func(i, j int) bool { return out[i] < out[j] })
	return out
}

func (x *X) skeleton(name, dir, recv, fn string) {
	fd, err := x.Func(dir, recv, fn)
	if err != nil {
		x.Failf("%v", err)
		x.StrList(name, nil)
		return
	}
	x.StrList(name, x.Skeleton(fd))
}

func (x *X) hasCall(name, dir, recv, fn, suffix string) {
	fd, err := x.Func(dir, recv, fn)
	if err != nil {
		x.Failf("%v", err)
		x.Bool(name, false)
		return
	}
	x.Bool(name, x.HasCall(fd, suffix))
}

func init() {
	register("C17", func(x *X) error {
		// Translated code (extract/golean.go): the BBC fragment header functions as Lean definitions
		x.Raw("namespace Go")
		gl := x.GoLean("pkg/cla/bbc")
		for _, fn := range []string{"NewFragment", "nextSequenceNumber", "nextTransmissionId"} {
			gl.Translate("", fn)
		}
		for _, m := range []string{"TransmissionID", "SequenceNumber", "StartBit", "EndBit", "FailBit", "ReportFailure"} {
			gl.Translate("Fragment", m)
		}
		gl.Emit()
		x.Raw("end Go")
		const msgs = "pkg/cla/tcpclv4/internal/msgs"
		const bbc = "pkg/cla/bbc"
		const bp = "pkg/bpv7"
		const claDir = "pkg/cla"
		const agentDir = "pkg/agent"

		// ---- TCPCLv4: type codes, dispatch table, flags, magic, reason-code sets
		for _, c := range []struct{ lean, goName string }{
			{"sessInit", "SESS_INIT"}, {"sessTerm", "SESS_TERM"}, {"xferSegment", "XFER_SEGMENT"}, {"xferAck", "XFER_ACK"},
			{"xferRefuse", "XFER_REFUSE"}, {"keepalive", "KEEPALIVE"}, {"msgReject", "MSG_REJECT"},
			{"contactCanTls", "ContactCanTls"}, {"terminationReply", "TerminationReply"},
			{"segmentEnd", "SegmentEnd"}, {"segmentStart", "SegmentStart"},
		} {
			x.Nat(c.lean, x.MustConst(msgs, c.goName))
		}
		x.NatList("dispatchCodes", x.MapKeys(msgs, "messages"))
		x.NatList("contactHead", x.VarBytes(msgs, "contactHeaderHead"))
		if codes, err := x.ValidCodes(msgs, "SessionTerminationCode", "IsValid"); err != nil {
			x.Failf("%v", err)
		} else {
			x.NatList("termCodes", codes)
		}
		if codes, err := x.ValidCodes(msgs, "MessageRejectionReason", "IsValid"); err != nil {
			x.Failf("%v", err)
		} else {
			x.NatList("rejectCodes", codes)
		}
		// TransferRefusalCode.IsValid is `String() != "INVALID"`: the set is read off String's switch
		x.skeleton("refuseIsValid", msgs, "TransferRefusalCode", "IsValid")
		x.NatList("refuseCodes", x.NamedCodes(msgs, "TransferRefusalCode", "String", "INVALID"))
		x.hasCall("sessTermChecksCode", msgs, "SessionTerminationMessage", "Unmarshal", ".IsValid")
		x.hasCall("xferRefuseChecksCode", msgs, "TransferRefusalMessage", "Unmarshal", ".IsValid")
		x.hasCall("rejectChecksCode", msgs, "MessageRejectionMessage", "Unmarshal", ".IsValid")

		// ---- BBC fragment header
		x.Nat("fragmentIdentifierSize", x.MustConst(bbc, "fragmentIdentifierSize"))
		x.skeleton("newFragment", bbc, "", "NewFragment")
		x.skeleton("fragSequenceNumber", bbc, "Fragment", "SequenceNumber")
		x.skeleton("fragStartBit", bbc, "Fragment", "StartBit")
		x.skeleton("fragEndBit", bbc, "Fragment", "EndBit")
		x.skeleton("fragFailBit", bbc, "Fragment", "FailBit")
		x.skeleton("nextSequenceNumber", bbc, "", "nextSequenceNumber")

		// ---- endpoints
		x.Nat("dtnSchemeNo", x.MustConst(bp, "dtnEndpointSchemeNo"))
		x.Nat("ipnSchemeNo", x.MustConst(bp, "ipnEndpointSchemeNo"))
		x.Str("dtnSchemeName", x.StrConst(bp, "dtnEndpointSchemeName"))
		x.Str("ipnSchemeName", x.StrConst(bp, "ipnEndpointSchemeName"))
		x.Str("dtnNoneSsp", x.StrConst(bp, "dtnEndpointDtnNoneSsp"))
		x.Str("dtnRegexpSsp", x.StrConst(bp, "dtnEndpointRegexpSsp"))
		x.Str("dtnRegexpFull", x.StrConst(bp, "dtnEndpointRegexpFull"))
		x.Str("dtnSspRegexpUsed", x.CallArgStr(bp, "", "parseDtnSsp", "regexp.MustCompile"))
		x.Str("ipnRegexp", x.CallArgStr(bp, "", "NewIpnEndpoint", "regexp.MustCompile"))
		x.Str("uriRegexp", x.CallArgStr(bp, "", "NewEndpointID", "regexp.MustCompile"))
		x.skeleton("ipnCheckValid", bp, "IpnEndpoint", "CheckValid")

		// ---- administrative records, CLA types, WebSocket agent codes
		x.Nat("adminRecordStatusReport", x.MustConst(bp, "AdminRecordTypeStatusReport"))
		x.skeleton("statusItemMarshal", bp, "BundleStatusItem", "MarshalCbor")
		x.NatList("claTypes", x.NamedCodes(claDir, "CLAType", "String", "unknownClaTypeString"))
		x.skeleton("claCheckValid", claDir, "CLAType", "CheckValid")
		x.hasCall("announcementChecksType", "pkg/discovery", "Announcement", "UnmarshalCbor", ".CheckValid")
		x.NatList("wamCodes", x.MapKeys(agentDir, "wamMapping"))
		for _, c := range []struct{ lean, goName string }{
			{"wamStatus", "wamStatusCode"}, {"wamRegister", "wamRegisterCode"}, {"wamBundle", "wamBundleCode"},
			{"wamSyscallRequest", "wamSyscallRequestCode"}, {"wamSyscallResponse", "wamSyscallResponseCode"},
		} {
			x.Nat(c.lean, x.MustConst(agentDir, c.goName))
		}
		_ = fmt.Sprint
		_ = strings.Join
		return nil
	})
}
