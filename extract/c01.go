package main

import (
	"os"
	"path/filepath"
	"regexp"
	"strings"
)

const bpv7Dir = "pkg/bpv7"

// skel emits the control skeleton of one function (see X.Skeleton) under a Lean name.
func skel(x *X, recv, name, leanName string) []string {
	fd, err := x.Func(bpv7Dir, recv, name)
	if err != nil {
		x.Failf("%v", err)
		x.StrList(leanName, nil)
		return nil
	}
	s := x.Skeleton(fd)
	x.StrList(leanName, s)
	return s
}

func calls(x *X, recv, name string) []string {
	fd, err := x.Func(bpv7Dir, recv, name)
	if err != nil {
		x.Failf("%v", err)
		return nil
	}
	return x.Calls(fd)
}

func anyContains(ss []string, sub string) bool {
	for _, s := range ss {
		if strings.Contains(s, sub) {
			return true
		}
	}
	return false
}

// cboringDir locates the source of the cboring version named in go.mod inside the module cache,
// relative to the repository root (X.Pkg joins with the root).
func cboringDir(x *X) string {
	gomod, err := os.ReadFile(filepath.Join(x.repo, "go.mod"))
	if err != nil {
		x.Failf("%v", err)
		return ""
	}
	m := regexp.MustCompile(`github.com/dtn7/cboring\s+(v[0-9.]+)`).FindSubmatch(gomod)
	if m == nil {
		x.Failf("cboring not required in go.mod")
		return ""
	}
	cache := os.Getenv("GOMODCACHE")
	if cache == "" {
		home, _ := os.UserHomeDir()
		gopath := os.Getenv("GOPATH")
		if gopath == "" {
			gopath = filepath.Join(home, "go")
		}
		cache = filepath.Join(gopath, "pkg", "mod")
	}
	abs := filepath.Join(cache, "github.com", "dtn7", "cboring@"+string(m[1]))
	rel, err := filepath.Rel(x.repo, abs)
	if err != nil {
		x.Failf("%v", err)
		return ""
	}
	return rel
}

func init() {
	register("C01", func(x *X) error {
		// F1 constants the codec model depends on
		x.Nat("dtnVersion", x.MustConst(bpv7Dir, "dtnVersion"))
		for _, c := range [][2]string{
			{"tPayload", "ExtBlockTypePayloadBlock"}, {"tPrevNode", "ExtBlockTypePreviousNodeBlock"},
			{"tAge", "ExtBlockTypeBundleAgeBlock"}, {"tHop", "ExtBlockTypeHopCountBlock"},
			{"tSpray", "ExtBlockTypeBinarySprayBlock"}, {"tDtlsr", "ExtBlockTypeDTLSRBlock"},
			{"tProphet", "ExtBlockTypeProphetBlock"}, {"tSignature", "ExtBlockTypeSignatureBlock"},
			{"crcNo", "CRCNo"}, {"crc16", "CRC16"}, {"crc32", "CRC32"},
			{"schemeDtn", "dtnEndpointSchemeNo"}, {"schemeIpn", "ipnEndpointSchemeNo"},
			{"isFragment", "IsFragment"},
		} {
			x.Nat(c[0], x.MustConst(bpv7Dir, c[1]))
		}
		if cb := cboringDir(x); cb != "" {
			for _, c := range [][2]string{{"cbIndefiniteArray", "IndefiniteArray"}, {"cbBreakCode", "BreakCode"},
				{"cbUInt", "UInt"}, {"cbByteString", "ByteString"}, {"cbTextString", "TextString"},
				{"cbArray", "Array"}, {"cbMap", "Map"}, {"cbSimpleData", "SimpleData"}} {
				v, err := x.Const(cb, c[1])
				if err != nil {
					x.Failf("%v", err)
				}
				x.Nat(c[0], v)
			}
		}

		// which block types package bpv7 registers by itself
		x.StrList("defaultRegistered", func() []string {
			var out []string
			for _, c := range calls(x, "", "GetExtensionBlockManager") {
				if strings.HasPrefix(c, "New") && strings.HasSuffix(c, "Block") {
					out = append(out, c)
				}
			}
			return out
		}())

		// F3 skeletons: the functions the model mirrors line by line
		skel(x, "Bundle", "MarshalCbor", "bundleMarshal")
		bu := skel(x, "Bundle", "UnmarshalCbor", "bundleUnmarshal")
		x.Bool("unmarshalEndsInCheckValid", len(bu) > 0 && bu[len(bu)-1] == "return b.CheckValid()")
		skel(x, "PrimaryBlock", "MarshalCbor", "primaryMarshal")
		pu := skel(x, "PrimaryBlock", "UnmarshalCbor", "primaryUnmarshal")
		skel(x, "CanonicalBlock", "MarshalCbor", "canonicalMarshal")
		cu := skel(x, "CanonicalBlock", "UnmarshalCbor", "canonicalUnmarshal")
		skel(x, "ExtensionBlockManager", "WriteBlock", "writeBlock")
		skel(x, "ExtensionBlockManager", "ReadBlock", "readBlock")
		skel(x, "EndpointID", "MarshalCbor", "eidMarshal")
		skel(x, "EndpointID", "UnmarshalCbor", "eidUnmarshal")
		skel(x, "DtnEndpoint", "UnmarshalCbor", "dtnUnmarshal")
		skel(x, "", "calculateCRCBuff", "calculateCRCBuff")
		// … and the per-type value codecs, endpoint and timestamp codecs
		for _, f := range [][3]string{
			{"DtnEndpoint", "MarshalCbor", "dtnMarshal"},
			{"IpnEndpoint", "MarshalCbor", "ipnMarshal"}, {"IpnEndpoint", "UnmarshalCbor", "ipnUnmarshal"},
			{"CreationTimestamp", "MarshalCbor", "timestampMarshal"}, {"CreationTimestamp", "UnmarshalCbor", "timestampUnmarshal"},
			{"PayloadBlock", "MarshalBinary", "payloadMarshal"}, {"PayloadBlock", "UnmarshalBinary", "payloadUnmarshal"},
			{"GenericExtensionBlock", "MarshalBinary", "genericMarshal"}, {"GenericExtensionBlock", "UnmarshalBinary", "genericUnmarshal"},
			{"PreviousNodeBlock", "MarshalCbor", "prevNodeMarshal"}, {"PreviousNodeBlock", "UnmarshalCbor", "prevNodeUnmarshal"},
			{"BundleAgeBlock", "MarshalCbor", "ageMarshal"}, {"BundleAgeBlock", "UnmarshalCbor", "ageUnmarshal"},
			{"HopCountBlock", "MarshalCbor", "hopMarshal"}, {"HopCountBlock", "UnmarshalCbor", "hopUnmarshal"},
			{"BinarySprayBlock", "MarshalCbor", "sprayMarshal"}, {"BinarySprayBlock", "UnmarshalCbor", "sprayUnmarshal"},
			{"DTLSRBlock", "MarshalCbor", "dtlsrMarshal"}, {"DTLSRBlock", "UnmarshalCbor", "dtlsrUnmarshal"},
			{"ProphetBlock", "MarshalCbor", "prophetMarshal"}, {"ProphetBlock", "UnmarshalCbor", "prophetUnmarshal"},
			{"SignatureBlock", "MarshalCbor", "signatureMarshal"}, {"SignatureBlock", "UnmarshalCbor", "signatureUnmarshal"},
			{"ExtensionBlockManager", "createBlock", "createBlock"},
		} {
			skel(x, f[0], f[1], f[2])
		}
		skel(x, "", "parseDtnSsp", "parseDtnSsp")

		// the CRC comparison guards acceptance in both block parsers
		x.Bool("primaryCrcGuard", anyContains(pu, "!bytes.Equal(crcCalc, crcVal)"))
		x.Bool("canonicalCrcGuard", anyContains(cu, "!bytes.Equal(crcCalc, crcVal)"))

		// the repairs of D5 / D7 / D6 are in the source ⇒ the strict model is the one that applies
		d5 := anyContains(pu, "emptyCRC(CRCType(crcT))") && anyContains(pu, "hasCrc != (CRCType(crcT) != CRCNo)") &&
			anyContains(cu, "emptyCRC(CRCType(crcT))") && anyContains(cu, "hasCrc != (CRCType(crcT) != CRCNo)")
		d7 := anyContains(pu, "hasFrag != BundleControlFlags(bcf).Has(IsFragment)")
		dc := calls(x, "DTLSRBlock", "CheckValid")
		pc := calls(x, "ProphetBlock", "CheckValid")
		d6 := CallIndex(dc, "ID.CheckValid") >= 0 && CallIndex(dc, "peerID.CheckValid") >= 0 && CallIndex(pc, "peerID.CheckValid") >= 0
		x.Bool("fixD5", d5)
		x.Bool("fixD6", d6)
		x.Bool("fixD7", d7)
		x.Bool("strict", d5 && d6 && d7)

		// the two endpoint patterns the recogniser in Model/Eid.lean implements
		for _, c := range [][2]string{{"dtnRegexpSsp", "dtnEndpointRegexpSsp"}, {"dtnNoneSsp", "dtnEndpointDtnNoneSsp"}} {
			x.Str(c[0], strConst(x, c[1]))
		}
		return nil
	})
}

// strConst reads a package-level string constant given as a single literal.
func strConst(x *X, name string) string {
	p, err := x.Pkg(bpv7Dir)
	if err != nil {
		x.Failf("%v", err)
		return ""
	}
	re := regexp.MustCompile(`(?m)^\s*` + name + "\\s*=\\s*(`[^`]*`|\"[^\"]*\")")
	for _, fn := range sortedFiles(p) {
		src, err := os.ReadFile(filepath.Join(x.repo, bpv7Dir, fn))
		if err != nil {
			continue
		}
		if m := re.FindSubmatch(src); m != nil {
			return string(m[1][1 : len(m[1])-1])
		}
	}
	x.Failf("string constant %s not found", name)
	return ""
}
