package main

// Facts for C19 (PRoPHET), read from pkg/routing/algorithm_prophet.go on every run:
//
//  * the F4 lock table: every access to the maps `predictabilities` / `peerPredictabilities` reachable
//    from an entry method of *Prophet with the state of `dataMutex` (none/R/W) at that point, obtained
//    by a structured linear walk (Lock/RLock/Unlock/RUnlock, `defer …Unlock()`, helper methods inlined
//    at their call sites, branch/loop bodies must leave the lock state unchanged or end in `return`);
//    handing the map itself to somebody else (`f(prophet.predictabilities)`) is an "escape": the
//    alias is read later without any lock;
//  * the arithmetic expressions of encounter / agePred / transitivity as source text, as reverse
//    Polish code (operation ORDER) and the function skeletons;
//  * the comparison and its operands in SenderForBundle, the metadata rule, the "addressed to me"
//    guard of NotifyNewBundle;
//  * the documented default constants (cmd/dtnd/configuration.toml) as binary64 bit patterns.

import (
	"fmt"
	"go/ast"
	"go/token"
	"math"
	"os"
	"path/filepath"
	"regexp"
	"strconv"
	"strings"
)

const c19Dir = "pkg/routing"
const c19Recv = "Prophet"
const c19Mutex = "dataMutex"

var c19Maps = []string{"predictabilities", "peerPredictabilities"}

type c19Access struct {
	entry, fn, mp, kind, lock string
}

type c19Walker struct {
	x        *X
	methods  map[string]*ast.FuncDecl
	entry    string
	lock     string // "none" | "R" | "W"
	deferred bool
	acc      []c19Access
	trace    []uint64
	problems []string
	depth    int
}

func c19RecvName(fd *ast.FuncDecl) string {
	if fd.Recv != nil && len(fd.Recv.List) == 1 && len(fd.Recv.List[0].Names) == 1 {
		return fd.Recv.List[0].Names[0].Name
	}
	return ""
}

// c19Methods returns all methods with receiver *Prophet / Prophet declared in the package.
func c19Methods(x *X) (map[string]*ast.FuncDecl, error) {
	p, err := x.Pkg(c19Dir)
	if err != nil {
		return nil, err
	}
	out := map[string]*ast.FuncDecl{}
	for _, fn := range sortedFiles(p) {
		for _, d := range p[fn].Decls {
			fd, ok := d.(*ast.FuncDecl)
			if !ok || fd.Recv == nil || len(fd.Recv.List) != 1 || fd.Body == nil {
				continue
			}
			t := fd.Recv.List[0].Type
			if s, ok := t.(*ast.StarExpr); ok {
				t = s.X
			}
			if id, ok := t.(*ast.Ident); ok && id.Name == c19Recv {
				out[fd.Name.Name] = fd
			}
		}
	}
	if len(out) == 0 {
		return nil, fmt.Errorf("no methods of %s found in %s", c19Recv, c19Dir)
	}
	return out, nil
}

// selfCall returns the method name if e is `recv.m(...)`.
func c19SelfCall(e ast.Expr, recv string) (string, bool) {
	ce, ok := e.(*ast.CallExpr)
	if !ok {
		return "", false
	}
	se, ok := ce.Fun.(*ast.SelectorExpr)
	if !ok {
		return "", false
	}
	if id, ok := se.X.(*ast.Ident); ok && id.Name == recv {
		return se.Sel.Name, true
	}
	return "", false
}

// mutexOp returns "Lock"/"RLock"/"Unlock"/"RUnlock" if e is `recv.dataMutex.<op>()`.
func c19MutexOp(e ast.Expr, recv string) (string, bool) {
	ce, ok := e.(*ast.CallExpr)
	if !ok {
		return "", false
	}
	se, ok := ce.Fun.(*ast.SelectorExpr)
	if !ok {
		return "", false
	}
	in, ok := se.X.(*ast.SelectorExpr)
	if !ok || in.Sel.Name != c19Mutex {
		return "", false
	}
	if id, ok := in.X.(*ast.Ident); ok && id.Name == recv {
		return se.Sel.Name, true
	}
	return "", false
}

// mapSel returns the map's index if e is `recv.predictabilities` / `recv.peerPredictabilities`.
func c19MapSel(e ast.Expr, recv string) (int, bool) {
	se, ok := e.(*ast.SelectorExpr)
	if !ok {
		return 0, false
	}
	id, ok := se.X.(*ast.Ident)
	if !ok || id.Name != recv {
		return 0, false
	}
	for i, m := range c19Maps {
		if se.Sel.Name == m {
			return i, true
		}
	}
	return 0, false
}

func (w *c19Walker) emit(fn string, mp int, kind string) {
	w.acc = append(w.acc, c19Access{w.entry, fn, c19Maps[mp], kind, w.lock})
	switch kind {
	case "read", "range":
		w.trace = append(w.trace, 10+uint64(mp))
	case "write":
		w.trace = append(w.trace, 20+uint64(mp))
	default: // escape
		w.trace = append(w.trace, 30+uint64(mp))
	}
}

// exprs scans an expression tree for map accesses, escapes, helper calls. `writes` holds the
// expressions that are assignment targets.
func (w *c19Walker) expr(fn, recv string, e ast.Node, writes map[ast.Expr]bool) {
	if e == nil {
		return
	}
	ast.Inspect(e, func(n ast.Node) bool {
		switch n := n.(type) {
		case *ast.FuncLit:
			// runs at an unknown time: whatever it touches is not covered by the current lock state
			saved, savedDef := w.lock, w.deferred
			w.lock, w.deferred = "none", false
			w.block(fn, recv, n.Body.List)
			w.lock, w.deferred = saved, savedDef
			return false
		case *ast.CallExpr:
			if op, ok := c19MutexOp(n, recv); ok {
				w.problems = append(w.problems, fmt.Sprintf("%s: %s.%s() inside an expression", fn, c19Mutex, op))
				return false
			}
			if m, ok := c19SelfCall(n, recv); ok {
				for _, a := range n.Args {
					w.expr(fn, recv, a, nil)
				}
				w.call(m)
				return false
			}
			if id, ok := n.Fun.(*ast.Ident); ok && id.Name == "delete" && len(n.Args) == 2 {
				if mp, ok := c19MapSel(n.Args[0], recv); ok {
					w.emit(fn, mp, "write")
					w.expr(fn, recv, n.Args[1], nil)
					return false
				}
			}
			if id, ok := n.Fun.(*ast.Ident); ok && id.Name == "len" && len(n.Args) == 1 {
				if mp, ok := c19MapSel(n.Args[0], recv); ok {
					w.emit(fn, mp, "read")
					return false
				}
			}
			return true
		case *ast.IndexExpr:
			if mp, ok := c19MapSel(n.X, recv); ok {
				if writes[n] {
					w.emit(fn, mp, "write")
				} else {
					w.emit(fn, mp, "read")
				}
				w.expr(fn, recv, n.Index, nil)
				return false
			}
			return true
		case *ast.SelectorExpr:
			if mp, ok := c19MapSel(n, recv); ok {
				// the map value itself is used (argument, assignment, return value, …)
				w.emit(fn, mp, "escape")
				return false
			}
			return true
		}
		return true
	})
}

func (w *c19Walker) call(m string) {
	fd, ok := w.methods[m]
	if !ok {
		return
	}
	if w.depth > 8 {
		w.problems = append(w.problems, "recursion among "+c19Recv+" methods at "+m)
		return
	}
	w.depth++
	savedDef := w.deferred
	w.deferred = false
	before := w.lock
	w.block(m, c19RecvName(fd), fd.Body.List)
	if w.deferred {
		w.release(m, "deferred")
	}
	if w.lock != before {
		w.problems = append(w.problems, fmt.Sprintf("%s returns with lock state %s (entered with %s)", m, w.lock, before))
		w.lock = before
	}
	w.deferred = savedDef
	w.depth--
}

func (w *c19Walker) acquire(fn, mode string) {
	if w.lock != "none" {
		w.problems = append(w.problems, fmt.Sprintf("%s: acquires %s while holding %s", fn, mode, w.lock))
	}
	w.lock = mode
	if mode == "R" {
		w.trace = append(w.trace, 1)
	} else {
		w.trace = append(w.trace, 2)
	}
}

func (w *c19Walker) release(fn, how string) {
	if w.lock == "none" {
		w.problems = append(w.problems, fmt.Sprintf("%s: release (%s) without holding the lock", fn, how))
	}
	w.lock = "none"
	w.trace = append(w.trace, 3)
}

func c19EndsInReturn(stmts []ast.Stmt) bool {
	if len(stmts) == 0 {
		return false
	}
	_, ok := stmts[len(stmts)-1].(*ast.ReturnStmt)
	return ok
}

// nested walks a branch or loop body: it must leave the lock state as it found it, or leave the
// function.
func (w *c19Walker) nested(fn, recv string, stmts []ast.Stmt) {
	saved, savedDef := w.lock, w.deferred
	mark := len(w.trace)
	w.block(fn, recv, stmts)
	if w.lock != saved || w.deferred != savedDef {
		if c19EndsInReturn(stmts) {
			// e.g. `if cond { Lock(); defer Unlock(); …; return }`: the lock is released on return
			if w.deferred && !savedDef {
				w.release(fn, "deferred")
			}
			if w.lock != saved {
				w.problems = append(w.problems, fmt.Sprintf("%s: a branch returns holding %s", fn, w.lock))
			}
		} else {
			w.problems = append(w.problems, fmt.Sprintf("%s: lock state changes inside a branch/loop body (%s -> %s)", fn, saved, w.lock))
		}
		w.lock, w.deferred = saved, savedDef
	}
	_ = mark
}

func (w *c19Walker) block(fn, recv string, stmts []ast.Stmt) {
	for _, s := range stmts {
		switch s := s.(type) {
		case *ast.ExprStmt:
			if op, ok := c19MutexOp(s.X, recv); ok {
				switch op {
				case "Lock":
					w.acquire(fn, "W")
				case "RLock":
					w.acquire(fn, "R")
				case "Unlock":
					if w.lock != "W" {
						w.problems = append(w.problems, fn+": Unlock while holding "+w.lock)
					}
					w.release(fn, "Unlock")
				case "RUnlock":
					if w.lock != "R" {
						w.problems = append(w.problems, fn+": RUnlock while holding "+w.lock)
					}
					w.release(fn, "RUnlock")
				}
				continue
			}
			if ce, ok := s.X.(*ast.CallExpr); ok && isLogging(exprName(ce.Fun)) {
				// logging may mention the maps' VALUES (already read into locals) — still scan it
				w.expr(fn, recv, s.X, nil)
				continue
			}
			w.expr(fn, recv, s.X, nil)
		case *ast.DeferStmt:
			if op, ok := c19MutexOp(s.Call, recv); ok {
				if (op == "Unlock" && w.lock == "W") || (op == "RUnlock" && w.lock == "R") {
					w.deferred = true
				} else {
					w.problems = append(w.problems, fmt.Sprintf("%s: defer %s while holding %s", fn, op, w.lock))
				}
				continue
			}
			w.expr(fn, recv, s.Call, nil)
		case *ast.AssignStmt:
			writes := map[ast.Expr]bool{}
			for _, l := range s.Lhs {
				writes[l] = true
			}
			for _, r := range s.Rhs {
				w.expr(fn, recv, r, nil)
			}
			for _, l := range s.Lhs {
				if ix, ok := l.(*ast.IndexExpr); ok {
					if _, ok := c19MapSel(ix.X, recv); ok {
						w.expr(fn, recv, l, writes)
						continue
					}
					w.expr(fn, recv, l, nil) // m[a][b] = v: a read of the outer map
					continue
				}
				if mp, ok := c19MapSel(l, recv); ok {
					w.emit(fn, mp, "write") // the field itself is replaced
					continue
				}
			}
		case *ast.IncDecStmt:
			if ix, ok := s.X.(*ast.IndexExpr); ok {
				if mp, ok := c19MapSel(ix.X, recv); ok {
					w.emit(fn, mp, "read")
					w.emit(fn, mp, "write")
				}
			}
		case *ast.IfStmt:
			if s.Init != nil {
				w.block(fn, recv, []ast.Stmt{s.Init})
			}
			w.expr(fn, recv, s.Cond, nil)
			w.nested(fn, recv, s.Body.List)
			switch e := s.Else.(type) {
			case *ast.BlockStmt:
				w.nested(fn, recv, e.List)
			case *ast.IfStmt:
				w.nested(fn, recv, []ast.Stmt{e})
			}
		case *ast.ForStmt:
			if s.Init != nil {
				w.block(fn, recv, []ast.Stmt{s.Init})
			}
			if s.Cond != nil {
				w.expr(fn, recv, s.Cond, nil)
			}
			body := s.Body.List
			if s.Post != nil {
				body = append(append([]ast.Stmt{}, body...), s.Post)
			}
			w.nested(fn, recv, body)
		case *ast.RangeStmt:
			if mp, ok := c19MapSel(s.X, recv); ok {
				w.emit(fn, mp, "range")
			} else {
				w.expr(fn, recv, s.X, nil)
			}
			w.nested(fn, recv, s.Body.List)
		case *ast.SwitchStmt:
			if s.Init != nil {
				w.block(fn, recv, []ast.Stmt{s.Init})
			}
			if s.Tag != nil {
				w.expr(fn, recv, s.Tag, nil)
			}
			for _, c := range s.Body.List {
				cc := c.(*ast.CaseClause)
				for _, e := range cc.List {
					w.expr(fn, recv, e, nil)
				}
				w.nested(fn, recv, cc.Body)
			}
		case *ast.TypeSwitchStmt:
			for _, c := range s.Body.List {
				w.nested(fn, recv, c.(*ast.CaseClause).Body)
			}
		case *ast.SelectStmt:
			for _, c := range s.Body.List {
				w.nested(fn, recv, c.(*ast.CommClause).Body)
			}
		case *ast.BlockStmt:
			w.block(fn, recv, s.List)
		case *ast.GoStmt:
			saved, savedDef := w.lock, w.deferred
			w.lock, w.deferred = "none", false
			w.expr(fn, recv, s.Call, nil)
			w.lock, w.deferred = saved, savedDef
		case *ast.ReturnStmt:
			for _, r := range s.Results {
				w.expr(fn, recv, r, nil)
			}
		case *ast.DeclStmt:
			w.expr(fn, recv, s.Decl, nil)
		case *ast.LabeledStmt:
			w.block(fn, recv, []ast.Stmt{s.Stmt})
		case *ast.SendStmt:
			w.expr(fn, recv, s.Chan, nil)
			w.expr(fn, recv, s.Value, nil)
		default:
			w.expr(fn, recv, s, nil)
		}
	}
}

// c19Rpn converts an arithmetic expression into reverse Polish code (see Dtn7.Prophet.evalRpn).
func c19Rpn(x *X, e ast.Expr, cfgName *string) []uint64 {
	switch e := e.(type) {
	case *ast.ParenExpr:
		return c19Rpn(x, e.X, cfgName)
	case *ast.BasicLit:
		if e.Value == "1" || e.Value == "1.0" {
			return []uint64{0}
		}
		return []uint64{97}
	case *ast.Ident:
		switch e.Name {
		case "pOld":
			return []uint64{1}
		case "peerPred":
			return []uint64{3}
		case "otherPeerPred":
			return []uint64{4}
		}
		return []uint64{99}
	case *ast.SelectorExpr:
		s := x.Src(e)
		if strings.HasPrefix(s, "prophet.config.") {
			*cfgName = strings.TrimPrefix(s, "prophet.config.")
			return []uint64{2}
		}
		return []uint64{99}
	case *ast.BinaryExpr:
		out := append(c19Rpn(x, e.X, cfgName), c19Rpn(x, e.Y, cfgName)...)
		switch e.Op {
		case token.ADD:
			return append(out, 10)
		case token.SUB:
			return append(out, 11)
		case token.MUL:
			return append(out, 12)
		}
		return append(out, 98)
	}
	return []uint64{99}
}

// c19Assign finds the first `name := <expr>` (or `name = <expr>`) in a function body.
func c19Assign(fd *ast.FuncDecl, name string) ast.Expr {
	var found ast.Expr
	ast.Inspect(fd.Body, func(n ast.Node) bool {
		as, ok := n.(*ast.AssignStmt)
		if !ok || found != nil {
			return found == nil
		}
		for i, l := range as.Lhs {
			if id, ok := l.(*ast.Ident); ok && id.Name == name && i < len(as.Rhs) && len(as.Lhs) == len(as.Rhs) {
				found = as.Rhs[i]
				return false
			}
		}
		return true
	})
	return found
}

func init() {
	register("C19", func(x *X) error {
		methods, err := c19Methods(x)
		if err != nil {
			return err
		}
		// roots of the call graph among the methods = entry points (called from other goroutines:
		// the Core's handler, cron, the forwarding pipeline)
		called := map[string]bool{}
		for _, fd := range methods {
			recv := c19RecvName(fd)
			ast.Inspect(fd.Body, func(n ast.Node) bool {
				if m, ok := c19SelfCall(exprOrNil(n), recv); ok {
					if _, is := methods[m]; is {
						called[m] = true
					}
				}
				return true
			})
		}
		var names []string
		for n := range methods {
			names = append(names, n)
		}
		sortStrings(names)
		var table []string
		var traces []string
		var problems []string
		var entries []string
		for _, n := range names {
			if called[n] {
				continue
			}
			entries = append(entries, n)
			w := &c19Walker{x: x, methods: methods, entry: n, lock: "none"}
			w.call(n)
			problems = append(problems, w.problems...)
			for _, a := range w.acc {
				table = append(table, fmt.Sprintf("(%s, %s, %s, %s, %s)", leanStr(a.entry), leanStr(a.fn), leanStr(a.mp), leanStr(a.kind), leanStr(a.lock)))
			}
			codes := make([]string, len(w.trace))
			for i, c := range w.trace {
				codes[i] = strconv.FormatUint(c, 10)
			}
			traces = append(traces, fmt.Sprintf("(%s, [%s])", leanStr(n), strings.Join(codes, ", ")))
		}
		x.StrList("entryMethods", entries)
		x.Raw("/-- (entry method, function containing the access, map, kind, dataMutex state) -/")
		x.Raw("def lockTable : List (String × String × String × String × String) := [\n  " + strings.Join(table, ",\n  ") + "]")
		x.Raw("/-- per entry method: 1 = RLock, 2 = Lock, 3 = (R)Unlock, 10+m = read, 20+m = write, 30+m = the map")
		x.Raw("itself is handed out (m: 0 = predictabilities, 1 = peerPredictabilities) -/")
		x.Raw("def traces : List (String × List Nat) := [\n  " + strings.Join(traces, ",\n  ") + "]")
		x.StrList("lockWalkProblems", problems)

		// ---- arithmetic
		for _, it := range []struct{ fn, prefix string }{{"encounter", "encounter"}, {"agePred", "age"}, {"transitivity", "trans"}} {
			fd, ok := methods[it.fn]
			if !ok {
				x.Failf("method %s not found", it.fn)
				continue
			}
			e := c19Assign(fd, "pNew")
			if e == nil {
				x.Failf("%s: no assignment to pNew", it.fn)
				continue
			}
			cfgName := ""
			rpn := c19Rpn(x, e, &cfgName)
			x.Str(it.prefix+"Expr", strings.Join(strings.Fields(x.Src(e)), " "))
			x.NatList(it.prefix+"Rpn", rpn)
			x.Str(it.prefix+"Const", cfgName)
			if po := c19Assign(fd, "pOld"); po != nil {
				x.Str(it.prefix+"POld", x.Src(po))
			}
			x.StrList(it.prefix+"Skeleton", x.Skeleton(fd))
		}
		if fd, ok := methods["transitivity"]; ok {
			if e := c19Assign(fd, "peerPred"); e != nil {
				x.Str("transPeerPred", x.Src(e))
			}
		}
		if fd, ok := methods["ageCron"]; ok {
			x.StrList("ageCronSkeleton", x.Skeleton(fd))
		}

		// ---- forwarding rule
		if fd, ok := methods["SenderForBundle"]; ok {
			cond, meta := "", false
			loopSeen := false
			metaBeforeLoop := false
			ast.Inspect(fd.Body, func(n ast.Node) bool {
				switch n := n.(type) {
				case *ast.RangeStmt:
					loopSeen = true
				case *ast.IfStmt:
					src := x.Src(n.Cond)
					if n.Init != nil {
						src = x.Src(n.Init) + "; " + src
					}
					if strings.Contains(src, "ExtBlockTypeProphetBlock") && strings.HasSuffix(strings.TrimSpace(src), "err == nil") {
						if l := n.Body.List; len(l) > 0 {
							if r, ok := l[len(l)-1].(*ast.ReturnStmt); ok && x.Src(r) == "return nil, true" {
								meta = true
								metaBeforeLoop = !loopSeen
							}
						}
					}
					if be, ok := n.Cond.(*ast.BinaryExpr); ok && cond == "" {
						if id, ok := be.X.(*ast.Ident); ok && id.Name == "peerPred" {
							cond = x.Src(n.Cond)
						}
					}
				}
				return true
			})
			x.Str("forwardCond", cond)
			if e := c19Assign(fd, "peerPred"); e != nil {
				x.Str("forwardPeerPred", x.Src(e))
			}
			if e := c19Assign(fd, "ownPred"); e != nil {
				x.Str("forwardOwnPred", x.Src(e))
			}
			x.Bool("metadataReturnsNilTrue", meta && metaBeforeLoop)
		} else {
			x.Failf("method SenderForBundle not found")
		}
		if fd, ok := methods["NotifyNewBundle"]; ok {
			guard := ""
			ast.Inspect(fd.Body, func(n ast.Node) bool {
				if is, ok := n.(*ast.IfStmt); ok && guard == "" {
					src := x.Src(is.Cond)
					if strings.Contains(src, "PrimaryBlock.Destination") && c19EndsInReturn(is.Body.List) {
						guard = src
					}
				}
				return true
			})
			x.Str("importGuard", guard)
		}
		x.Nat("prophetBlockType", x.MustConst("pkg/bpv7", "ExtBlockTypeProphetBlock"))

		// ---- documented defaults
		raw, err := os.ReadFile(filepath.Join(x.repo, "cmd/dtnd/configuration.toml"))
		if err != nil {
			return err
		}
		for _, k := range []string{"pinit", "beta", "gamma"} {
			m := regexp.MustCompile(`(?m)^#?\s*` + k + `\s*=\s*([0-9.eE+-]+)\s*$`).FindStringSubmatch(string(raw))
			if m == nil {
				x.Failf("configuration.toml: no default for %s", k)
				continue
			}
			v, err := strconv.ParseFloat(m[1], 64)
			if err != nil {
				x.Failf("configuration.toml: %s = %q is not a number", k, m[1])
				continue
			}
			x.Str("default_"+k, m[1])
			x.Nat("default_"+k+"_bits", math.Float64bits(v))
		}
		return nil
	})
}

func exprOrNil(n ast.Node) ast.Expr {
	if e, ok := n.(ast.Expr); ok {
		return e
	}
	return nil
}

func sortStrings(s []string) {
	for i := 1; i < len(s); i++ {
		for j := i; j > 0 && s[j] < s[j-1]; j-- {
			s[j], s[j-1] = s[j-1], s[j]
		}
	}
}
