package main

func init() {
	register("C12", func(x *X) error {
		const bbc = "pkg/cla/bbc"
		const mtcp = "pkg/cla/mtcp"

		// ---- BBC: the sender and receiver state machines are small and decisive: their skeletons are facts
		x.Nat("fragmentIdentifierSize", x.MustConst(bbc, "fragmentIdentifierSize"))
		x.skeleton("nextSequenceNumber", bbc, "", "nextSequenceNumber")
		x.skeleton("newPlainOutgoingTransmission", bbc, "", "newPlainOutgoingTransmission")
		x.skeleton("writeFragment", bbc, "OutgoingTransmission", "WriteFragment")
		x.skeleton("newIncomingTransmission", bbc, "", "NewIncomingTransmission")
		x.skeleton("readFragment", bbc, "IncomingTransmission", "ReadFragment")
		x.skeleton("handleIncomingFragment", bbc, "Connector", "handleIncomingFragment")
		x.skeleton("handleIncomingNewTransmission", bbc, "Connector", "handleIncomingNewTransmission")
		x.skeleton("handleIncomingKnownTransmission", bbc, "Connector", "handleIncomingKnownTransmission")
		x.skeleton("reportFailure", bbc, "Fragment", "ReportFailure")

		// ---- MTCP: what Send writes and in which order; the server loop
		if fd, err := x.Func(mtcp, "MTCPClient", "Send"); err != nil {
			x.Failf("%v", err)
		} else {
			x.StrList("clientSendCalls", x.Calls(fd))
		}
		x.skeleton("clientSend", mtcp, "MTCPClient", "Send")
		x.skeleton("handleSender", mtcp, "MTCPServer", "handleSender")
		return nil
	})
}
