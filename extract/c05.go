package main

import (
	"go/ast"
	"strings"
)

// Facts for C05 (store-carry-forward) and, shared, C13: the call order of the processing pipeline, the
// pending rule of BundleDescriptor.Sync, the expiry computation, and the lock discipline of the
// per-peer failure bookkeeping.

const routingDir = "pkg/routing"
const storageDir = "pkg/storage"

// nodeFacts emits the facts both C05 and C13 depend on.
func nodeFacts(x *X) error {
	for _, f := range []struct{ recv, name, out string }{
		{"Core", "SendBundle", "sendBundleCalls"},
		{"Core", "transmit", "transmitCalls"},
		{"Core", "receive", "receiveCalls"},
		{"Core", "dispatching", "dispatchingCalls"},
		{"Core", "forward", "forwardCalls"},
		{"Core", "bundleContraindicated", "contraindicatedCalls"},
		{"Core", "bundleDeletion", "deletionCalls"},
		{"Core", "checkPendingBundles", "checkPendingCalls"},
		{"Core", "localDelivery", "localDeliveryCalls"},
	} {
		fd, err := x.Func(routingDir, f.recv, f.name)
		if err != nil {
			return err
		}
		x.StrList(f.out, x.Calls(fd))
	}

	// D17: is the sequence number assigned before the descriptor (store key) is created?
	sb, err := x.Func(routingDir, "Core", "SendBundle")
	if err != nil {
		return err
	}
	sbCalls := x.Calls(sb)
	iUpd, iDesc := CallIndex(sbCalls, "idKeeper.updateUnless"), CallIndex(sbCalls, "NewBundleDescriptorFromBundle")
	if iUpd < 0 {
		iUpd = CallIndex(sbCalls, "idKeeper.update")
	}
	x.Bool("seqAssignedFirst", iUpd >= 0 && iDesc >= 0 && iUpd < iDesc)
	// 43cf7bc: does SendBundle skip the numbers of bundles that are still stored? It hands the store's
	// "is this ID known" to IdKeeper.updateUnless, which increments the counter while the ID is taken,
	// inside its critical section.
	sbSk := x.Skeleton(sb)
	x.StrList("sendBundleSkeleton", sbSk)
	var uuSk []string
	if uu, err := x.Func(routingDir, "IdKeeper", "updateUnless"); err == nil {
		uuSk = x.Skeleton(uu)
	}
	x.StrList("updateUnlessSkeleton", uuSk)
	asksStore := len(sbSk) > 0 && sbSk[0] ==
		"c.idKeeper.updateUnless(bndl, func(bid bpv7.BundleID) bool { _, err := c.store.QueryId(bid.Scrub()) return err == nil })"
	loopAt, lockAt, unlockAt := -1, -1, -1
	for i, l := range uuSk {
		switch l {
		case "idk.mutex.Lock()":
			lockAt = i
		case "idk.mutex.Unlock()":
			unlockAt = i
		case "for ; taken != nil && taken(bndl.ID());":
			if i+2 < len(uuSk) && uuSk[i+1] == "  idk.data[tpl] = idk.data[tpl] + 1" &&
				uuSk[i+2] == "  bndl.PrimaryBlock.CreationTimestamp[1] = idk.data[tpl]" {
				loopAt = i
			}
		}
	}
	x.Bool("sendBundleSkipsStored", asksStore && lockAt >= 0 && lockAt < loopAt && loopAt < unlockAt)
	tr, err := x.Func(routingDir, "Core", "transmit")
	if err != nil {
		return err
	}
	x.Bool("transmitAssignsSeq", CallIndex(x.Calls(tr), "idKeeper.update") >= 0)

	// Core.dispatching: is a bundle the algorithm does not allow to dispatch marked contraindicated?
	dp, err := x.Func(routingDir, "Core", "dispatching")
	if err != nil {
		return err
	}
	dpSk := x.Skeleton(dp)
	x.StrList("dispatchingSkeleton", dpSk)
	hold := false
	for i, l := range dpSk {
		if l == "if !c.routing.DispatchingAllowed(bp)" {
			for j := i + 1; j < len(dpSk) && strings.HasPrefix(dpSk[j], "  "); j++ {
				if strings.TrimSpace(dpSk[j]) == "c.bundleContraindicated(bp)" {
					hold = true
				}
			}
		}
	}
	x.Bool("dispatchingHoldsRefused", hold)

	// EpidemicRouting.DispatchingAllowed: the gate. Does it let a bundle through whose destination (the stored
	// routing/epidemic/destination) is a directly connected peer, before it looks at the sent list?
	eg, err := x.Func(routingDir, "EpidemicRouting", "DispatchingAllowed")
	if err != nil {
		return err
	}
	egSk := x.Skeleton(eg)
	x.StrList("epidemicGateSkeleton", egSk)
	gateDirect := false
	for i, l := range egSk {
		if strings.TrimSpace(l) == "if len(er.c.senderForDestination(dst.(bpv7.EndpointID))) > 0" &&
			i+1 < len(egSk) && strings.TrimSpace(egSk[i+1]) == "return true" {
			// it has to come before the sent list is consulted
			for j := i + 1; j < len(egSk); j++ {
				if strings.Contains(egSk[j], "er.clasForBundle(bp, false)") {
					gateDirect = true
				}
			}
		}
	}
	x.Bool("epidemicGateServesDirect", gateDirect)
	// EpidemicRouting.NotifyNewBundle writes the destination property the gate reads
	en, err := x.Func(routingDir, "EpidemicRouting", "NotifyNewBundle")
	if err != nil {
		return err
	}
	x.StrList("epidemicNotifySkeleton", x.Skeleton(en))

	// BundleDescriptor.Sync: the three-way rule and the pending expression
	sy, err := x.Func(routingDir, "BundleDescriptor", "Sync")
	if err != nil {
		return err
	}
	x.StrList("syncSkeleton", x.Skeleton(sy))
	pc, err := x.Func(routingDir, "BundleDescriptor", "PurgeConstraints")
	if err != nil {
		return err
	}
	x.StrList("purgeSkeleton", x.Skeleton(pc))
	cp, err := x.Func(routingDir, "Core", "checkPendingBundles")
	if err != nil {
		return err
	}
	x.StrList("checkPendingSkeleton", x.Skeleton(cp))
	bc, err := x.Func(routingDir, "Core", "bundleContraindicated")
	if err != nil {
		return err
	}
	x.StrList("contraindicatedSkeleton", x.Skeleton(bc))

	// D22: calcExpirationDate
	ce, err := x.Func(storageDir, "", "calcExpirationDate")
	if err != nil {
		return err
	}
	ceCalls := x.Calls(ce)
	x.StrList("calcExpirationCalls", ceCalls)
	x.StrList("calcExpirationSkeleton", x.Skeleton(ce))
	x.Bool("expiryCountsFromNow", CallIndex(ceCalls, "IsZeroTime") >= 0 && CallIndex(ceCalls, "time.Now") >= 0)
	de, err := x.Func(storageDir, "Store", "DeleteExpired")
	if err != nil {
		return err
	}
	x.StrList("deleteExpiredCalls", x.Calls(de))

	// filterCLAs compares endpoint IDs with ==
	fc, err := x.Func(routingDir, "", "filterCLAs")
	if err != nil {
		return err
	}
	x.StrList("filterCLAsSkeleton", x.Skeleton(fc))

	// D25: is the read-modify-write of the sent list in ReportFailure inside a critical section?
	for _, a := range []struct{ recv, out string }{{"EpidemicRouting", "epidemicReportFailure"}, {"Prophet", "prophetReportFailure"}} {
		fd, err := x.Func(routingDir, a.recv, "ReportFailure")
		if err != nil {
			return err
		}
		x.StrList(a.out+"Access", lockTable(x, fd))
	}
	// DTLSR.ReportFailure: empty in the original code, removes the peer from the sent list after the fix
	if fd, err := x.Func(routingDir, "DTLSR", "ReportFailure"); err == nil {
		x.Bool("dtlsrReportsFailure", x.HasCall(fd, "store.Update"))
		x.StrList("dtlsrReportFailureAccess", lockTable(x, fd))
	} else {
		return err
	}
	// the per-peer goroutine of forward(): Send, then ReportFailure on error
	fw, err := x.Func(routingDir, "Core", "forward")
	if err != nil {
		return err
	}
	x.StrList("forwardGoroutine", goBodies(x, fw))
	return nil
}

// lockTable lists, in source order, the store accesses (QueryId / Update) of a function together with
// the lock state at that point: "L" (some sync.Mutex / RWMutex of the receiver is held for writing, i.e.
// a `.Lock()` call precedes it and — when not deferred — the matching `.Unlock()` does not) or "-".
// Only straight-line top-level locking is recognised (which is what a minimal fix looks like);
// anything else is reported as unlocked.
func lockTable(x *X, fd *ast.FuncDecl) []string {
	var out []string
	held := false
	var visit func(n ast.Node) bool
	visit = func(n ast.Node) bool {
		switch s := n.(type) {
		case *ast.DeferStmt:
			// deferred Unlock keeps the lock until return
			return false
		case *ast.FuncLit:
			return false
		case *ast.CallExpr:
			name := exprName(s.Fun)
			switch {
			case strings.HasSuffix(name, ".Lock"):
				held = true
			case strings.HasSuffix(name, ".Unlock"):
				held = false
			case strings.HasSuffix(name, "store.QueryId"), strings.HasSuffix(name, "store.Update"):
				st := "-"
				if held {
					st = "L"
				}
				out = append(out, name[strings.LastIndex(name, ".")+1:]+":"+st)
			}
		}
		return true
	}
	ast.Inspect(fd.Body, visit)
	return out
}

// goBodies renders the skeletons of the `go func` literals inside a function.
func goBodies(x *X, fd *ast.FuncDecl) []string {
	var out []string
	ast.Inspect(fd.Body, func(n ast.Node) bool {
		gs, ok := n.(*ast.GoStmt)
		if !ok {
			return true
		}
		if fl, ok := gs.Call.Fun.(*ast.FuncLit); ok {
			tmp := &ast.FuncDecl{Name: ast.NewIdent("go"), Type: fl.Type, Body: fl.Body}
			out = append(out, x.Skeleton(tmp)...)
		}
		return false
	})
	return out
}

func init() {
	register("C05", nodeFacts)
}
