package main

import (
	"fmt"
	"go/ast"
	"go/token"
	"os"
	"os/exec"
	"path/filepath"
	"regexp"
	"runtime"
	"strings"
)

// C03: CRC type codes, which library tables the package builds, the shape of calculateCRCBuff / emptyCRC,
// the acceptance guards of both UnmarshalCbor functions, PrimaryBlock.SetCRCType, and the polynomial
// constants + update loop of the two CRC libraries as found in the module cache / GOROOT.
func init() {
	register("C03", func(x *X) error {
		const dir = "pkg/bpv7"
		x.Nat("crcNo", x.MustConst(dir, "CRCNo"))
		x.Nat("crc16", x.MustConst(dir, "CRC16"))
		x.Nat("crc32", x.MustConst(dir, "CRC32"))
		x.Nat("dtnVersion", x.MustConst(dir, "dtnVersion"))
		x.Nat("isFragment", x.MustConst(dir, "IsFragment"))

		// package-level tables
		for _, name := range []string{"crc16table", "crc32table"} {
			if e, err := c03PkgVar(x, dir, name); err != nil {
				x.Failf("%v", err)
				x.Str(name+"Expr", "")
			} else {
				x.Str(name+"Expr", strings.Join(strings.Fields(x.Src(e)), " "))
			}
		}

		for _, fn := range []string{"calculateCRCBuff", "emptyCRC"} {
			fd, err := x.Func(dir, "", fn)
			if err != nil {
				return err
			}
			x.StrList(fn+"Skeleton", x.Skeleton(fd))
		}

		for _, recv := range []string{"PrimaryBlock", "CanonicalBlock"} {
			fd, err := x.Func(dir, recv, "UnmarshalCbor")
			if err != nil {
				return err
			}
			low := strings.ToLower(recv[:1]) + recv[1:]
			x.StrList(low+"UnmarshalCalls", x.Calls(fd))
			x.StrList(low+"Guard", c03Guard(x.Skeleton(fd)))
			// what is fed into the CRC buffer
			x.StrList(low+"CrcBuffLines", c03Grep(x.Skeleton(fd), "crcBuff"))
			// CRC type must be known and must agree with the array length (fragment flag likewise)
			checks := []string{}
			for _, l := range x.Skeleton(fd) {
				if strings.Contains(l, "emptyCRC(") || strings.Contains(l, "hasCrc") || strings.Contains(l, "hasFrag") {
					checks = append(checks, strings.TrimLeft(l, " "))
				}
			}
			x.StrList(low+"TypeChecks", checks)

			fm, err := x.Func(dir, recv, "MarshalCbor")
			if err != nil {
				return err
			}
			x.StrList(low+"MarshalCrcLines", c03Grep(x.Skeleton(fm), "crc"))
		}

		if fd, err := x.Func(dir, "PrimaryBlock", "SetCRCType"); err == nil {
			x.StrList("primarySetCRCTypeSkeleton", x.Skeleton(fd))
		} else {
			return err
		}

		// libraries
		modcache, goroot := c03GoEnv()
		ver, err := c03ModVersion(x.repo, "github.com/howeyc/crc16")
		if err != nil {
			return err
		}
		x.Str("crc16ModuleVersion", ver)
		crc16Dir, err := filepath.Rel(x.repo, filepath.Join(modcache, "github.com/howeyc/crc16@"+ver))
		if err != nil {
			return err
		}
		x.Nat("libCrc16CCITT", x.MustConst(crc16Dir, "CCITT"))
		for _, fn := range []string{"makeTable", "update", "Update", "Checksum", "MakeTable"} {
			fd, err := x.Func(crc16Dir, "", fn)
			if err != nil {
				return err
			}
			x.StrList("libCrc16"+strings.ToUpper(fn[:1])+fn[1:]+"Skeleton"+c03Case(fn), x.Skeleton(fd))
		}
		crc32Dir, err := filepath.Rel(x.repo, filepath.Join(goroot, "src/hash/crc32"))
		if err != nil {
			return err
		}
		x.Nat("libCrc32Castagnoli", x.MustConst(crc32Dir, "Castagnoli"))
		return nil
	})
}

// c03Case disambiguates names that differ only in the case of the first letter (update / Update).
func c03Case(fn string) string {
	if fn[:1] == strings.ToUpper(fn[:1]) {
		return "Exported"
	}
	return ""
}

func c03PkgVar(x *X, dir, name string) (ast.Expr, error) {
	p, err := x.Pkg(dir)
	if err != nil {
		return nil, err
	}
	for _, fn := range sortedFiles(p) {
		for _, d := range p[fn].Decls {
			gd, ok := d.(*ast.GenDecl)
			if !ok || gd.Tok != token.VAR {
				continue
			}
			for _, s := range gd.Specs {
				vs := s.(*ast.ValueSpec)
				for i, n := range vs.Names {
					if n.Name == name && i < len(vs.Values) {
						return vs.Values[i], nil
					}
				}
			}
		}
	}
	return nil, fmt.Errorf("package variable %s.%s not found", dir, name)
}

// c03Guard: the if/else-if chain that starts with the call of calculateCRCBuff, together with the
// enclosing condition (the line before it), up to the end of the chain.
func c03Guard(sk []string) []string {
	for i, l := range sk {
		if !strings.Contains(l, "calculateCRCBuff(") {
			continue
		}
		ind := len(l) - len(strings.TrimLeft(l, " "))
		start := i
		if i > 0 {
			start = i - 1
		}
		out := append([]string{}, sk[start:i+1]...)
		for _, m := range sk[i+1:] {
			mi := len(m) - len(strings.TrimLeft(m, " "))
			if mi < ind {
				break
			}
			if mi == ind && !strings.HasPrefix(strings.TrimLeft(m, " "), "else") {
				break
			}
			out = append(out, m)
		}
		return out
	}
	return []string{"<no calculateCRCBuff call>"}
}

func c03Grep(sk []string, sub string) []string {
	out := []string{}
	for _, l := range sk {
		if strings.Contains(l, sub) {
			out = append(out, strings.TrimLeft(l, " "))
		}
	}
	return out
}

func c03GoEnv() (modcache, goroot string) {
	modcache, goroot = "/root/go/pkg/mod", runtime.GOROOT()
	out, err := exec.Command("go", "env", "GOMODCACHE", "GOROOT").Output()
	if err == nil {
		ls := strings.Split(strings.TrimSpace(string(out)), "\n")
		if len(ls) == 2 {
			if ls[0] != "" {
				modcache = ls[0]
			}
			if ls[1] != "" {
				goroot = ls[1]
			}
		}
	}
	return
}

func c03ModVersion(repo, mod string) (string, error) {
	raw, err := os.ReadFile(filepath.Join(repo, "go.mod"))
	if err != nil {
		return "", err
	}
	re := regexp.MustCompile(`(?m)^\s*(?:require\s+)?` + regexp.QuoteMeta(mod) + `\s+(\S+)`)
	m := re.FindStringSubmatch(string(raw))
	if m == nil {
		return "", fmt.Errorf("module %s not required in go.mod", mod)
	}
	return m[1], nil
}
