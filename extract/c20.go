package main

import (
	"fmt"
	"go/ast"
	"go/parser"
	"go/token"
	"os"
	"path/filepath"
	"regexp"
	"strings"
)

// C20 facts: what the Lean model of DTLSR (Dtn7.Model.Dtlsr) mirrors from the source.
//
//   - the broadcast address constant;
//   - DTLSRPeerData.ShouldReplace (the `>` of the replace-if-newer rule);
//   - skeletons of NotifyNewBundle, SenderForBundle, ReportFailure, computeRoutingTable, newNode, recomputeCron
//     (pkg/routing/algorithm_dtlsr.go) and filterCLAs (pkg/routing/algorithm.go), plus targeted facts
//     read out of computeRoutingTable: the edge-cost assignments and their guards, the Shortest call,
//     the next-hop expression, the fresh table;
//   - the version of github.com/RyanCarrier/dijkstra required by go.mod and the skeletons of the
//     library functions that Dtn7.Dtlsr.libShortest ports (read from the module cache).
func init() {
	register("C20", func(x *X) error {
		const routingDir = "pkg/routing"
		const bpv7Dir = "pkg/bpv7"

		// -- constants
		if s, err := c20StringConst(x, routingDir, "dtlsrBroadcastAddress"); err == nil {
			x.Str("broadcastAddress", s)
		} else {
			x.Failf("%v", err)
			x.Str("broadcastAddress", "")
		}

		// -- skeletons
		for _, f := range []struct{ dir, recv, name, lean string }{
			{bpv7Dir, "DTLSRPeerData", "ShouldReplace", "shouldReplace"},
			{routingDir, "DTLSR", "NotifyNewBundle", "notifyNewBundle"},
			{routingDir, "DTLSR", "SenderForBundle", "senderForBundle"},
			{routingDir, "DTLSR", "ReportFailure", "reportFailure"},
			{routingDir, "DTLSR", "computeRoutingTable", "computeRoutingTable"},
			{routingDir, "DTLSR", "newNode", "newNode"},
			{routingDir, "DTLSR", "recomputeCron", "recomputeCron"},
			{routingDir, "DTLSR", "ReportPeerAppeared", "reportPeerAppeared"},
			{routingDir, "DTLSR", "ReportPeerDisappeared", "reportPeerDisappeared"},
			{routingDir, "DTLSR", "purgePeers", "purgePeers"},
			{routingDir, "", "filterCLAs", "filterCLAs"},
		} {
			fd, err := x.Func(f.dir, f.recv, f.name)
			if err != nil {
				x.Failf("%v", err)
				x.StrList(f.lean, nil)
				continue
			}
			x.StrList(f.lean, x.Skeleton(fd))
		}

		// -- targeted facts of computeRoutingTable
		if fd, err := x.Func(routingDir, "DTLSR", "computeRoutingTable"); err == nil {
			var costRhs, costGuards, hopAssign, shortestCalls, tableInit, tableStore, loops []string
			var guardStack []string
			var walk func(n ast.Node)
			walk = func(n ast.Node) {
				switch s := n.(type) {
				case nil:
					return
				case *ast.BlockStmt:
					for _, st := range s.List {
						walk(st)
					}
				case *ast.IfStmt:
					if s.Init != nil {
						walk(s.Init)
					}
					guardStack = append(guardStack, c20OneLine(x.Src(s.Cond)))
					walk(s.Body)
					guardStack = guardStack[:len(guardStack)-1]
					if s.Else != nil {
						guardStack = append(guardStack, "!("+c20OneLine(x.Src(s.Cond))+")")
						walk(s.Else)
						guardStack = guardStack[:len(guardStack)-1]
					}
				case *ast.ForStmt:
					hd := ""
					if s.Init != nil {
						hd += c20OneLine(x.Src(s.Init))
					}
					hd += "; "
					if s.Cond != nil {
						hd += c20OneLine(x.Src(s.Cond))
					}
					hd += "; "
					if s.Post != nil {
						hd += c20OneLine(x.Src(s.Post))
					}
					loops = append(loops, hd)
					walk(s.Body)
				case *ast.RangeStmt:
					loops = append(loops, "range "+c20OneLine(x.Src(s.X)))
					walk(s.Body)
				case *ast.AssignStmt:
					lhs := make([]string, len(s.Lhs))
					for i, l := range s.Lhs {
						lhs[i] = c20OneLine(x.Src(l))
					}
					rhs := make([]string, len(s.Rhs))
					for i, r := range s.Rhs {
						rhs[i] = c20OneLine(x.Src(r))
					}
					l, r := strings.Join(lhs, ", "), strings.Join(rhs, ", ")
					switch {
					case l == "edgeCost":
						costRhs = append(costRhs, r)
						g := ""
						if len(guardStack) > 0 {
							g = guardStack[len(guardStack)-1]
						}
						costGuards = append(costGuards, g)
					case strings.HasPrefix(l, "routingTable["):
						hopAssign = append(hopAssign, l+" = "+r)
					case l == "routingTable":
						tableInit = append(tableInit, s.Tok.String()+" "+r)
					case l == "dtlsr.routingTable":
						tableStore = append(tableStore, r)
					}
					for _, r := range s.Rhs {
						ast.Inspect(r, func(m ast.Node) bool {
							if ce, ok := m.(*ast.CallExpr); ok && strings.HasSuffix(exprName(ce.Fun), ".Shortest") {
								shortestCalls = append(shortestCalls, c20OneLine(x.Src(ce)))
							}
							return true
						})
					}
				case *ast.LabeledStmt:
					walk(s.Stmt)
				}
			}
			walk(fd.Body)
			x.StrList("costRhs", costRhs)
			x.StrList("costGuards", costGuards)
			x.StrList("hopAssign", hopAssign)
			x.StrList("shortestCalls", shortestCalls)
			x.StrList("tableInit", tableInit)
			x.StrList("tableStore", tableStore)
			x.StrList("computeLoops", loops)
		} else {
			x.Failf("%v", err)
		}

		// -- the Dijkstra library the port mirrors
		ver, dir, err := c20DijkstraDir(x.repo)
		if err != nil {
			x.Failf("%v", err)
			x.Str("dijkstraVersion", "")
			return nil
		}
		x.Str("dijkstraVersion", ver)
		files := map[string]*ast.File{}
		for _, fn := range []string{"dijkstra.go", "linked_list.go", "vertex.go", "mappedGraph.go"} {
			f, err := parser.ParseFile(x.fset, filepath.Join(dir, fn), nil, 0)
			if err != nil {
				x.Failf("dijkstra %s: %v", fn, err)
				continue
			}
			files[fn] = f
		}
		for _, f := range []struct{ file, recv, name, lean string }{
			{"dijkstra.go", "Graph", "Shortest", "libShortest"},
			{"dijkstra.go", "Graph", "evaluate", "libEvaluate"},
			{"dijkstra.go", "Graph", "setup", "libSetup"},
			{"dijkstra.go", "Graph", "forceList", "libForceList"},
			{"dijkstra.go", "Graph", "postSetupEvaluate", "libPostSetupEvaluate"},
			{"dijkstra.go", "Graph", "finally", "libFinally"},
			{"dijkstra.go", "Graph", "bestPath", "libBestPath"},
			{"linked_list.go", "linkedList", "PopOrdered", "libPopOrdered"},
			{"linked_list.go", "linkedList", "pushOrdered", "libPushOrdered"},
			{"linked_list.go", "", "linkedListNewLong", "libLinkedListNewLong"},
			{"vertex.go", "Vertex", "AddArc", "libVertexAddArc"},
			{"mappedGraph.go", "Graph", "AddArc", "libGraphAddArc"},
		} {
			fd := c20FuncIn(files[f.file], f.recv, f.name)
			if fd == nil {
				x.Failf("dijkstra %s: (%s).%s not found", f.file, f.recv, f.name)
				x.StrList(f.lean, nil)
				continue
			}
			x.StrList(f.lean, x.Skeleton(fd))
		}
		return nil
	})
}

func c20OneLine(s string) string { return strings.Join(strings.Fields(s), " ") }

// c20StringConst reads a package-level string constant given as a literal.
func c20StringConst(x *X, dir, name string) (string, error) {
	p, err := x.Pkg(dir)
	if err != nil {
		return "", err
	}
	for _, fn := range sortedFiles(p) {
		for _, d := range p[fn].Decls {
			gd, ok := d.(*ast.GenDecl)
			if !ok || gd.Tok != token.CONST {
				continue
			}
			for _, s := range gd.Specs {
				vs := s.(*ast.ValueSpec)
				for i, n := range vs.Names {
					if n.Name != name || i >= len(vs.Values) {
						continue
					}
					if bl, ok := vs.Values[i].(*ast.BasicLit); ok && bl.Kind == token.STRING {
						return strings.Trim(bl.Value, "\"`"), nil
					}
				}
			}
		}
	}
	return "", fmt.Errorf("string constant %s.%s not found", dir, name)
}

func c20FuncIn(f *ast.File, recv, name string) *ast.FuncDecl {
	if f == nil {
		return nil
	}
	for _, d := range f.Decls {
		fd, ok := d.(*ast.FuncDecl)
		if !ok || fd.Name.Name != name {
			continue
		}
		r := ""
		if fd.Recv != nil && len(fd.Recv.List) == 1 {
			t := fd.Recv.List[0].Type
			if s, ok := t.(*ast.StarExpr); ok {
				t = s.X
			}
			if id, ok := t.(*ast.Ident); ok {
				r = id.Name
			}
		}
		if r == recv {
			return fd
		}
	}
	return nil
}

// c20DijkstraDir finds the version required in go.mod and the module's directory in the module cache.
func c20DijkstraDir(repo string) (version, dir string, err error) {
	mod, err := os.ReadFile(filepath.Join(repo, "go.mod"))
	if err != nil {
		return "", "", err
	}
	m := regexp.MustCompile(`github\.com/RyanCarrier/dijkstra\s+(v[^\s]+)`).FindSubmatch(mod)
	if m == nil {
		return "", "", fmt.Errorf("go.mod does not require github.com/RyanCarrier/dijkstra")
	}
	version = string(m[1])
	var roots []string
	if c := os.Getenv("GOMODCACHE"); c != "" {
		roots = append(roots, c)
	}
	if gp := os.Getenv("GOPATH"); gp != "" {
		for _, p := range filepath.SplitList(gp) {
			roots = append(roots, filepath.Join(p, "pkg", "mod"))
		}
	}
	if h, e := os.UserHomeDir(); e == nil {
		roots = append(roots, filepath.Join(h, "go", "pkg", "mod"))
	}
	roots = append(roots, "/root/go/pkg/mod")
	for _, r := range roots {
		d := filepath.Join(r, "github.com", "!ryan!carrier", "dijkstra@"+version)
		if st, e := os.Stat(d); e == nil && st.IsDir() {
			return version, d, nil
		}
	}
	return version, "", fmt.Errorf("module github.com/RyanCarrier/dijkstra@%s not found in the module cache", version)
}
