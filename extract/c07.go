package main

import (
	"fmt"
	"go/ast"
	"strings"
)

// Facts for C07 (local delivery):
//   - what the sync.Map.Range callbacks in RestAgent.receiveBundleMessage / Endpoints return
//     (returning false stops the iteration after the first client: defect D14);
//   - control skeletons of the small functions the model mirrors line by line: MuxAgent.handle,
//     bagContainsEndpoint, AgentManager.Deliver, Core.localDelivery, Core.HasEndpoint and the final
//     decision of Core.dispatching;
//   - lock table: every access to RestAgent.mailbox / RestAgent.clients inside a compound operation
//     with the state of RestAgent.mailboxMutex at that point (defect D15);
//   - order of the mailbox accesses (load before store / load before delete).
func init() {
	register("C07", func(x *X) error {
		const agentDir = "pkg/agent"
		const routingDir = "pkg/routing"

		for _, f := range []struct{ name, fn string }{
			{"rangeReturnsReceive", "receiveBundleMessage"},
			{"rangeReturnsEndpoints", "Endpoints"},
		} {
			fd, err := x.Func(agentDir, "RestAgent", f.fn)
			if err != nil {
				return err
			}
			x.StrList(f.name, c07RangeReturns(x, fd))
		}

		for _, f := range []struct{ name, dir, recv, fn string }{
			{"muxHandle", agentDir, "MuxAgent", "handle"},
			{"bagContainsEndpoint", agentDir, "", "bagContainsEndpoint"},
			{"restReceive", agentDir, "RestAgent", "receiveBundleMessage"},
			{"restFetchMailbox", agentDir, "RestAgent", "fetchMailbox"},
			{"amDeliver", routingDir, "AgentManager", "Deliver"},
			{"amHasEndpoint", routingDir, "AgentManager", "HasEndpoint"},
			{"localDelivery", routingDir, "Core", "localDelivery"},
			{"coreHasEndpoint", routingDir, "Core", "HasEndpoint"},
		} {
			fd, err := x.Func(f.dir, f.recv, f.fn)
			if err != nil {
				// fetchMailbox only exists after the D15 repair; its absence is a fact, not a failure
				if f.fn == "fetchMailbox" {
					x.StrList(f.name, nil)
					continue
				}
				return err
			}
			x.StrList(f.name, x.Skeleton(fd))
		}

		// the tail of Core.dispatching: the local/forward decision
		if fd, err := x.Func(routingDir, "Core", "dispatching"); err == nil {
			sk := x.Skeleton(fd)
			from := len(sk)
			for i, l := range sk {
				if strings.HasPrefix(l, "if c.HasEndpoint(") {
					from = i
				}
			}
			x.StrList("dispatchingDecision", sk[from:])
		} else {
			return err
		}

		// calls made by localDelivery and Deliver (nothing that transmits to a peer)
		if fd, err := x.Func(routingDir, "Core", "localDelivery"); err == nil {
			calls := x.Calls(fd)
			x.StrList("localDeliveryCalls", calls)
			var transmit []string
			for _, c := range calls {
				if strings.HasSuffix(c, "forward") || strings.HasSuffix(c, ".Send") || strings.Contains(c, "claManager") || strings.Contains(c, "routing") {
					transmit = append(transmit, c)
				}
			}
			x.StrList("localDeliveryTransmitCalls", transmit)
		} else {
			return err
		}

		// lock table
		var acc []string
		for _, fn := range []string{"receiveBundleMessage", "fetchMailbox", "handleFetch", "handleUnregister", "handleRegister", "handleBuild", "Endpoints"} {
			fd, err := x.Func(agentDir, "RestAgent", fn)
			if err != nil {
				continue
			}
			acc = append(acc, c07LockTable(fn, fd)...)
		}
		x.StrList("restAccesses", acc)
		var unlockedMailbox []string
		for _, a := range acc {
			f := strings.Split(a, ":")
			if len(f) == 3 && strings.HasPrefix(f[1], "mailbox.") && f[2] != "locked" {
				unlockedMailbox = append(unlockedMailbox, a)
			}
		}
		x.StrList("restMailboxUnlocked", unlockedMailbox)
		return nil
	})
}

// c07RangeReturns lists the results of the return statements of the function literal passed to a
// `….Range(` call inside fd.
func c07RangeReturns(x *X, fd *ast.FuncDecl) []string {
	var out []string
	ast.Inspect(fd.Body, func(n ast.Node) bool {
		ce, ok := n.(*ast.CallExpr)
		if !ok || !strings.HasSuffix(exprName(ce.Fun), ".Range") || len(ce.Args) != 1 {
			return true
		}
		fl, ok := ce.Args[0].(*ast.FuncLit)
		if !ok {
			out = append(out, "not-a-literal")
			return true
		}
		ast.Inspect(fl.Body, func(m ast.Node) bool {
			if _, nested := m.(*ast.FuncLit); nested {
				return false
			}
			if r, ok := m.(*ast.ReturnStmt); ok {
				var rs []string
				for _, e := range r.Results {
					rs = append(rs, x.Src(e))
				}
				out = append(out, strings.Join(rs, ","))
			}
			return true
		})
		return false
	})
	return out
}

// c07LockTable walks the statements of fd in source order and records every call on ra.mailbox /
// ra.clients as "<func>:<field>.<method>:<locked|unlocked>", where locked means: textually after
// ra.mailboxMutex.Lock() (or a deferred Unlock) and not after a plain ra.mailboxMutex.Unlock().
func c07LockTable(fn string, fd *ast.FuncDecl) []string {
	var out []string
	held := false
	var visit func(n ast.Node)
	visit = func(n ast.Node) {
		ast.Inspect(n, func(m ast.Node) bool {
			switch s := m.(type) {
			case *ast.DeferStmt:
				// defer ra.mailboxMutex.Unlock(): the lock stays held until the function returns
				if exprName(s.Call.Fun) == "ra.mailboxMutex.Unlock" {
					return false
				}
			case *ast.CallExpr:
				name := exprName(s.Fun)
				switch {
				case name == "ra.mailboxMutex.Lock":
					held = true
				case name == "ra.mailboxMutex.Unlock":
					held = false
				case strings.HasPrefix(name, "ra.mailbox.") || strings.HasPrefix(name, "ra.clients."):
					st := "unlocked"
					if held {
						st = "locked"
					}
					out = append(out, fmt.Sprintf("%s:%s:%s", fn, strings.TrimPrefix(name, "ra."), st))
				}
			}
			return true
		})
	}
	visit(fd.Body)
	return out
}
