package main

import (
	"fmt"
	"go/ast"
	"strconv"
	"strings"
)

// litField returns the source text of field `name` in the first composite literal of type `typ`
// inside fd.
func (x *X) litField(fd *ast.FuncDecl, typ, name string) (string, error) {
	var out string
	found := false
	ast.Inspect(fd.Body, func(n ast.Node) bool {
		cl, ok := n.(*ast.CompositeLit)
		if !ok || found {
			return !found
		}
		if id, ok := cl.Type.(*ast.Ident); !ok || id.Name != typ {
			return true
		}
		for _, el := range cl.Elts {
			kv, ok := el.(*ast.KeyValueExpr)
			if !ok {
				continue
			}
			if k, ok := kv.Key.(*ast.Ident); ok && k.Name == name {
				out = strings.Join(strings.Fields(x.Src(kv.Value)), " ")
				found = true
			}
		}
		return !found
	})
	if !found {
		return "", fmt.Errorf("%s: no field %s in a %s literal", fd.Name.Name, name, typ)
	}
	return out, nil
}

// returnExprs lists the source text of every return statement's results in fd.
func (x *X) returnExprs(fd *ast.FuncDecl) []string {
	var out []string
	ast.Inspect(fd.Body, func(n ast.Node) bool {
		if r, ok := n.(*ast.ReturnStmt); ok {
			var ps []string
			for _, e := range r.Results {
				ps = append(ps, strings.Join(strings.Fields(x.Src(e)), " "))
			}
			out = append(out, strings.Join(ps, ", "))
		}
		return true
	})
	return out
}

// deepSkeleton renders fd like Skeleton, but independent of comments and logging inside function
// literals: doc comments of local declarations are dropped, every function literal (the callbacks of
// sync.Map.Range) is rendered as its own skeleton ("func#i| …") and replaced by an empty literal in
// the outer skeleton.
func (x *X) deepSkeleton(fd *ast.FuncDecl) []string {
	var lits []*ast.FuncLit
	ast.Inspect(fd.Body, func(n ast.Node) bool {
		switch n := n.(type) {
		case *ast.GenDecl:
			n.Doc = nil
		case *ast.FuncLit:
			lits = append(lits, n)
		}
		return true
	})
	var inner []string
	for i, l := range lits {
		for _, line := range x.Skeleton(&ast.FuncDecl{Name: ast.NewIdent("lit"), Body: l.Body}) {
			inner = append(inner, fmt.Sprintf("func#%d| %s", i, line))
		}
	}
	for _, l := range lits {
		l.Body = &ast.BlockStmt{}
	}
	return append(x.Skeleton(fd), inner...)
}

func init() {
	register("C16", func(x *X) error {
		const dir = "pkg/cla"
		// defaults set by NewManager
		nm, err := x.Func(dir, "", "NewManager")
		if err != nil {
			return err
		}
		ttl, err := x.litField(nm, "Manager", "queueTtl")
		if err != nil {
			return err
		}
		v, err := strconv.ParseUint(ttl, 0, 32)
		if err != nil {
			return fmt.Errorf("queueTtl default is not a literal: %q", ttl)
		}
		x.Nat("queueTtlDefault", v)
		rt, err := x.litField(nm, "Manager", "retryTime")
		if err != nil {
			return err
		}
		x.Str("retryTimeDefault", rt)

		// newConvergenceElement: initial ttl is the parameter, channels stay nil
		ne, err := x.Func(dir, "", "newConvergenceElement")
		if err != nil {
			return err
		}
		x.StrList("newElementReturns", x.returnExprs(ne))

		// isActive: the comparison that encodes "active"
		ia, err := x.Func(dir, "convergenceElem", "isActive")
		if err != nil {
			return err
		}
		x.StrList("isActiveReturns", x.returnExprs(ia))

		// activate / deactivate: whole control skeletons (small, decisive for the property)
		for _, fn := range []string{"activate", "deactivate"} {
			fd, err := x.Func(dir, "convergenceElem", fn)
			if err != nil {
				return err
			}
			x.StrList(fn+"Skeleton", x.Skeleton(fd))
		}
		// the element goroutine: Close() of the adapter exactly on stopSyn
		if fd, err := x.Func(dir, "convergenceElem", "handler"); err == nil {
			x.StrList("elemHandlerSkeleton", x.Skeleton(fd))
		} else {
			return err
		}
		// manager side: skeletons of the registry operations and of handler() (tick / peer loss / shutdown)
		for _, fn := range []string{"registerConvergence", "unregisterConvergence", "Restart", "handler", "Close"} {
			fd, err := x.Func(dir, "Manager", fn)
			if err != nil {
				return err
			}
			x.StrList("manager"+strings.ToUpper(fn[:1])+fn[1:]+"Skeleton", x.deepSkeleton(fd))
		}
		// Register refuses after Close
		if fd, err := x.Func(dir, "Manager", "Register"); err == nil {
			calls := x.Calls(fd)
			x.StrList("registerCalls", calls)
		} else {
			return err
		}
		for _, fn := range []string{"Sender", "Receiver"} {
			fd, err := x.Func(dir, "Manager", fn)
			if err != nil {
				return err
			}
			x.StrList("manager"+fn+"Skeleton", x.deepSkeleton(fd))
		}
		return nil
	})
}
