package main

// A small Go → Lean 4 translator for straight-line integer/boolean functions.
//
// Supported: functions and methods whose parameters, results and (relevant) receiver fields are
// bool or unsigned machine integers (uint8/byte, uint16, uint32, uint64, and named types over them);
// statements: return, if/else (with or without else), :=, =, op=, ++, --, expression switch with
// constant cases, calls of other translated functions/methods of the same package; expressions:
// literals, constants of the package (evaluated), + - * / % & | ^ &^ << >> (constant shift counts
// below the width), comparisons, && || !, conversions between the supported integer types.
// Pointer-receiver methods that assign receiver fields return the updated receiver (alone, or paired
// with the declared result). Struct fields / parameters of other types are dropped; a function that
// reads a dropped entity is rejected (translation error → extraction failure → broken obligation).
//
// Machine integers become Lean's UInt8/16/32/64 (wrap-around arithmetic as in Go). Differences that
// remain and are excluded syntactically: division by zero (Go panics), variable shift counts.

import (
	"fmt"
	"go/ast"
	"go/token"
	"sort"
	"strings"
)

type glField struct{ name, lean string }

type glStruct struct {
	name   string
	fields []glField // supported fields only
	all    map[string]bool
}

type goLean struct {
	x       *X
	dir     string
	structs map[string]*glStruct
	named   map[string]string // named type -> lean type
	out     []string
	done    map[string]bool
	ns      string
}

func (x *X) GoLean(dir string) *goLean {
	g := &goLean{x: x, dir: dir, structs: map[string]*glStruct{}, named: map[string]string{}, done: map[string]bool{}}
	p, err := x.Pkg(dir)
	if err != nil {
		x.Failf("%v", err)
		return g
	}
	// named integer types first, then structs
	for pass := 0; pass < 2; pass++ {
		for _, fn := range sortedFiles(p) {
			for _, d := range p[fn].Decls {
				gd, ok := d.(*ast.GenDecl)
				if !ok || gd.Tok != token.TYPE {
					continue
				}
				for _, s := range gd.Specs {
					ts := s.(*ast.TypeSpec)
					switch t := ts.Type.(type) {
					case *ast.Ident:
						if pass == 0 {
							if l := g.leanType(t); l != "" {
								g.named[ts.Name.Name] = l
							}
						}
					case *ast.StructType:
						if pass == 1 {
							st := &glStruct{name: ts.Name.Name, all: map[string]bool{}}
							for _, f := range t.Fields.List {
								l := g.leanType(f.Type)
								for _, n := range f.Names {
									st.all[n.Name] = true
									if l != "" {
										st.fields = append(st.fields, glField{n.Name, l})
									}
								}
							}
							g.structs[ts.Name.Name] = st
						}
					}
				}
			}
		}
	}
	return g
}

func (g *goLean) leanType(e ast.Expr) string {
	switch t := e.(type) {
	case *ast.Ident:
		switch t.Name {
		case "bool":
			return "Bool"
		case "uint8", "byte":
			return "UInt8"
		case "uint16":
			return "UInt16"
		case "uint32":
			return "UInt32"
		case "uint64":
			return "UInt64"
		}
		if l, ok := g.named[t.Name]; ok {
			return l
		}
		if _, ok := g.structs[t.Name]; ok {
			return t.Name
		}
	case *ast.StarExpr:
		return g.leanType(t.X)
	}
	return ""
}

func (g *goLean) emitStruct(name string) {
	if g.done["struct "+name] {
		return
	}
	g.done["struct "+name] = true
	st := g.structs[name]
	var fs []string
	for _, f := range st.fields {
		fs = append(fs, fmt.Sprintf("  %s : %s", f.name, f.lean))
	}
	g.out = append(g.out, fmt.Sprintf("structure %s where\n%s\nderiving DecidableEq, Repr", name, strings.Join(fs, "\n")))
}

type glCtx struct {
	g        *goLean
	recv     string    // receiver identifier ("" if none)
	recvT    *glStruct // receiver struct (nil if none / non-struct)
	recvLean string    // lean type of a non-struct receiver
	mutates  bool
	vars     map[string]bool // locals + params in scope
	resT     string          // lean result type ("" for none)
}

// Translate emits the Lean definition of a function/method (and, recursively, its callees).
func (g *goLean) Translate(recv, name string) {
	key := recv + "." + name
	if g.done[key] {
		return
	}
	g.done[key] = true
	fd, err := g.x.Func(g.dir, recv, name)
	if err != nil {
		g.x.Failf("golean: %v", err)
		return
	}
	def, err := g.translate(fd, recv)
	if err != nil {
		g.x.Failf("golean: %s.%s: %v", recv, name, err)
		return
	}
	g.out = append(g.out, def)
}

func (g *goLean) Emit() {
	for _, l := range g.out {
		g.x.Raw(l)
		g.x.Raw("")
	}
}

func assignsRecvField(body *ast.BlockStmt, recv string) bool {
	found := false
	ast.Inspect(body, func(n ast.Node) bool {
		check := func(e ast.Expr) {
			if se, ok := e.(*ast.SelectorExpr); ok {
				if id, ok := se.X.(*ast.Ident); ok && id.Name == recv {
					found = true
				}
			}
		}
		switch s := n.(type) {
		case *ast.AssignStmt:
			for _, l := range s.Lhs {
				check(l)
			}
		case *ast.IncDecStmt:
			check(s.X)
		}
		return true
	})
	return found
}

func (g *goLean) translate(fd *ast.FuncDecl, recv string) (string, error) {
	c := &glCtx{g: g, vars: map[string]bool{}}
	var params []string
	leanName := fd.Name.Name
	if fd.Recv != nil {
		r := fd.Recv.List[0]
		if len(r.Names) == 1 {
			c.recv = r.Names[0].Name
		}
		if st, ok := g.structs[recv]; ok {
			c.recvT = st
			g.emitStruct(recv)
			params = append(params, fmt.Sprintf("(%s : %s)", nz(c.recv), recv))
		} else if l, ok := g.named[recv]; ok {
			c.recvLean = l
			params = append(params, fmt.Sprintf("(%s : %s)", nz(c.recv), l))
			c.vars[c.recv] = true
		} else {
			return "", fmt.Errorf("unsupported receiver type %s", recv)
		}
		leanName = recv + "." + fd.Name.Name
		if c.recvT != nil && c.recv != "" {
			c.mutates = assignsRecvField(fd.Body, c.recv)
		}
	}
	for _, p := range fd.Type.Params.List {
		l := g.leanType(p.Type)
		for _, n := range p.Names {
			if l == "" {
				continue // dropped parameter
			}
			if _, isStruct := g.structs[l]; isStruct {
				g.emitStruct(l)
			}
			params = append(params, fmt.Sprintf("(%s : %s)", li(n.Name), l))
			c.vars[n.Name] = true
		}
	}
	if fd.Type.Results != nil {
		if len(fd.Type.Results.List) != 1 || len(fd.Type.Results.List[0].Names) > 0 {
			return "", fmt.Errorf("unsupported result list")
		}
		c.resT = g.leanType(fd.Type.Results.List[0].Type)
		if c.resT == "" {
			return "", fmt.Errorf("unsupported result type")
		}
		if _, isStruct := g.structs[c.resT]; isStruct {
			g.emitStruct(c.resT)
		}
	}
	ret := c.resT
	if c.mutates {
		if ret == "" {
			ret = recv
		} else {
			ret = recv + " × " + ret
		}
	}
	if ret == "" {
		return "", fmt.Errorf("function has no result and mutates nothing")
	}
	var pre []string
	if c.recvT != nil && c.recv != "" {
		for _, f := range c.recvT.fields {
			pre = append(pre, fmt.Sprintf("let %s_%s := %s.%s", c.recv, f.name, c.recv, f.name))
		}
	}
	body, err := c.stmts(fd.Body.List)
	if err != nil {
		return "", err
	}
	var b strings.Builder
	fmt.Fprintf(&b, "def %s %s : %s :=\n", leanName, strings.Join(params, " "), ret)
	for _, l := range pre {
		fmt.Fprintf(&b, "  %s\n", l)
	}
	fmt.Fprintf(&b, "  %s", body)
	return b.String(), nil
}

var leanKeywords = map[string]bool{"end": true, "from": true, "at": true, "fun": true, "do": true, "then": true,
	"in": true, "with": true, "open": true, "if": true, "else": true, "let": true, "have": true, "show": true,
	"match": true, "where": true, "namespace": true, "section": true, "variable": true, "instance": true,
	"structure": true, "class": true, "def": true, "theorem": true, "example": true, "by": true, "local": true,
	"mutual": true, "private": true, "protected": true, "universe": true, "export": true, "import": true,
	"prefix": true, "infix": true, "notation": true, "macro": true, "syntax": true, "deriving": true, "extends": true,
	"for": true, "unless": true, "return": true, "try": true, "catch": true, "finally": true, "mut": true, "nomatch": true,
	"Type": true, "Prop": true, "Sort": true, "this": true, "calc": true, "suffices": true, "obtain": true, "using": true}

// li escapes a Go identifier that is a Lean keyword.
func li(s string) string {
	if leanKeywords[s] {
		return "«" + s + "»"
	}
	return s
}

func nz(s string) string {
	if s == "" {
		return "_self"
	}
	return s
}

func (c *glCtx) recvValue() string {
	if c.recvT == nil {
		return c.recv
	}
	var fs []string
	for _, f := range c.recvT.fields {
		fs = append(fs, fmt.Sprintf("%s := %s_%s", f.name, c.recv, f.name))
	}
	return "{ " + strings.Join(fs, ", ") + " : " + c.recvT.name + " }"
}

func (c *glCtx) finish(val string) string {
	if c.mutates {
		if val == "" {
			return c.recvValue()
		}
		return "(" + c.recvValue() + ", " + val + ")"
	}
	return val
}

// assigned returns the variables (locals or receiver-field variables) assigned in stmts.
func (c *glCtx) assigned(stmts []ast.Stmt) []string {
	set := map[string]bool{}
	var lhs func(e ast.Expr)
	lhs = func(e ast.Expr) {
		switch t := e.(type) {
		case *ast.Ident:
			set[li(t.Name)] = true
		case *ast.SelectorExpr:
			if id, ok := t.X.(*ast.Ident); ok && id.Name == c.recv {
				set[c.recv+"_"+t.Sel.Name] = true
			}
		}
	}
	for _, s := range stmts {
		ast.Inspect(s, func(n ast.Node) bool {
			switch t := n.(type) {
			case *ast.AssignStmt:
				if t.Tok != token.DEFINE {
					for _, l := range t.Lhs {
						lhs(l)
					}
				}
			case *ast.IncDecStmt:
				lhs(t.X)
			}
			return true
		})
	}
	var out []string
	for k := range set {
		out = append(out, k)
	}
	sort.Strings(out)
	return out
}

func endsInReturn(stmts []ast.Stmt) bool {
	if len(stmts) == 0 {
		return false
	}
	switch s := stmts[len(stmts)-1].(type) {
	case *ast.ReturnStmt:
		return true
	case *ast.IfStmt:
		if s.Else == nil {
			return false
		}
		if !endsInReturn(s.Body.List) {
			return false
		}
		switch e := s.Else.(type) {
		case *ast.BlockStmt:
			return endsInReturn(e.List)
		case *ast.IfStmt:
			return endsInReturn([]ast.Stmt{e})
		}
	case *ast.SwitchStmt:
		hasDefault := false
		for _, cl := range s.Body.List {
			cc := cl.(*ast.CaseClause)
			if cc.List == nil {
				hasDefault = true
			}
			if !endsInReturn(cc.Body) {
				return false
			}
		}
		return hasDefault
	}
	return false
}

func (c *glCtx) stmts(stmts []ast.Stmt) (string, error) {
	if len(stmts) == 0 {
		if c.resT != "" {
			return "", fmt.Errorf("missing return")
		}
		return c.finish(""), nil
	}
	s, rest := stmts[0], stmts[1:]
	switch s := s.(type) {
	case *ast.ReturnStmt:
		if len(s.Results) == 0 {
			return c.finish(""), nil
		}
		if len(s.Results) != 1 {
			return "", fmt.Errorf("multi-value return")
		}
		e, err := c.expr(s.Results[0])
		if err != nil {
			return "", err
		}
		return c.finish(e), nil
	case *ast.AssignStmt:
		if len(s.Lhs) != 1 || len(s.Rhs) != 1 {
			return "", fmt.Errorf("tuple assignment")
		}
		name, err := c.lvalue(s.Lhs[0], s.Tok == token.DEFINE)
		if err != nil {
			return "", err
		}
		rhs, err := c.expr(s.Rhs[0])
		if err != nil {
			return "", err
		}
		if s.Tok != token.ASSIGN && s.Tok != token.DEFINE {
			op, ok := map[token.Token]string{token.ADD_ASSIGN: "+", token.SUB_ASSIGN: "-", token.MUL_ASSIGN: "*",
				token.OR_ASSIGN: "|||", token.AND_ASSIGN: "&&&", token.XOR_ASSIGN: "^^^"}[s.Tok]
			if !ok {
				return "", fmt.Errorf("unsupported assignment operator %s", s.Tok)
			}
			rhs = fmt.Sprintf("(%s %s %s)", name, op, rhs)
		}
		k, err := c.stmts(rest)
		if err != nil {
			return "", err
		}
		return fmt.Sprintf("let %s := %s\n  %s", name, rhs, k), nil
	case *ast.DeclStmt:
		gd, ok := s.Decl.(*ast.GenDecl)
		if !ok || gd.Tok != token.VAR || len(gd.Specs) != 1 {
			return "", fmt.Errorf("unsupported declaration")
		}
		vs := gd.Specs[0].(*ast.ValueSpec)
		if len(vs.Names) != 1 || len(vs.Values) != 1 {
			return "", fmt.Errorf("unsupported var declaration")
		}
		rhs, err := c.expr(vs.Values[0])
		if err != nil {
			return "", err
		}
		if vs.Type != nil {
			if l := c.g.leanType(vs.Type); l != "" {
				rhs = fmt.Sprintf("(%s : %s)", rhs, l)
			}
		}
		c.vars[vs.Names[0].Name] = true
		k, err := c.stmts(rest)
		if err != nil {
			return "", err
		}
		return fmt.Sprintf("let %s := %s\n  %s", li(vs.Names[0].Name), rhs, k), nil
	case *ast.IncDecStmt:
		name, err := c.lvalue(s.X, false)
		if err != nil {
			return "", err
		}
		op := "+"
		if s.Tok == token.DEC {
			op = "-"
		}
		k, err := c.stmts(rest)
		if err != nil {
			return "", err
		}
		return fmt.Sprintf("let %s := (%s %s 1)\n  %s", name, name, op, k), nil
	case *ast.IfStmt:
		if s.Init != nil {
			return "", fmt.Errorf("if with init statement")
		}
		cond, err := c.expr(s.Cond)
		if err != nil {
			return "", err
		}
		var elseStmts []ast.Stmt
		switch e := s.Else.(type) {
		case nil:
		case *ast.BlockStmt:
			elseStmts = e.List
		case *ast.IfStmt:
			elseStmts = []ast.Stmt{e}
		}
		if endsInReturn(s.Body.List) {
			th, err := c.stmts(s.Body.List)
			if err != nil {
				return "", err
			}
			el, err := c.stmts(append(append([]ast.Stmt{}, elseStmts...), rest...))
			if err != nil {
				return "", err
			}
			return fmt.Sprintf("if %s then\n  (%s)\n  else\n  (%s)", cond, th, el), nil
		}
		// branches fall through: join the assigned variables
		vs := c.assigned(append(append([]ast.Stmt{}, s.Body.List...), elseStmts...))
		if len(vs) == 0 {
			return "", fmt.Errorf("if without effect")
		}
		tuple := vs[0]
		if len(vs) > 1 {
			tuple = "(" + strings.Join(vs, ", ") + ")"
		}
		sub := *c
		sub.resT, sub.mutates = "", false
		br := func(stmts []ast.Stmt) (string, error) {
			// translate assignments only; the continuation is the tuple
			var b strings.Builder
			for _, st := range stmts {
				one, err := sub.stmts([]ast.Stmt{st})
				if err != nil {
					return "", err
				}
				// `one` ends with the (empty) finish; strip it
				one = strings.TrimSuffix(strings.TrimRight(one, " \n"), "")
				b.WriteString(one)
				b.WriteString("\n  ")
			}
			b.WriteString(tuple)
			return b.String(), nil
		}
		th, err := br(s.Body.List)
		if err != nil {
			return "", err
		}
		el, err := br(elseStmts)
		if err != nil {
			return "", err
		}
		k, err := c.stmts(rest)
		if err != nil {
			return "", err
		}
		return fmt.Sprintf("let %s := if %s then\n  (%s)\n  else\n  (%s)\n  %s", tuple, cond, th, el, k), nil
	case *ast.SwitchStmt:
		if s.Init != nil || s.Tag == nil {
			return "", fmt.Errorf("unsupported switch form")
		}
		tag, err := c.expr(s.Tag)
		if err != nil {
			return "", err
		}
		var deflt []ast.Stmt
		hasDefault := false
		type arm struct {
			cond string
			body []ast.Stmt
		}
		var arms []arm
		for _, cl := range s.Body.List {
			cc := cl.(*ast.CaseClause)
			if cc.List == nil {
				deflt, hasDefault = cc.Body, true
				continue
			}
			var cs []string
			for _, e := range cc.List {
				v, err := c.expr(e)
				if err != nil {
					return "", err
				}
				cs = append(cs, fmt.Sprintf("%s == %s", tag, v))
			}
			arms = append(arms, arm{"(" + strings.Join(cs, " || ") + ")", cc.Body})
		}
		tail := rest
		if hasDefault {
			if !endsInReturn(deflt) {
				return "", fmt.Errorf("switch default must return")
			}
			tail = deflt
		}
		out, err := c.stmts(tail)
		if err != nil {
			return "", err
		}
		for i := len(arms) - 1; i >= 0; i-- {
			if !endsInReturn(arms[i].body) {
				return "", fmt.Errorf("switch case must return")
			}
			b, err := c.stmts(arms[i].body)
			if err != nil {
				return "", err
			}
			out = fmt.Sprintf("if %s then\n  (%s)\n  else\n  (%s)", arms[i].cond, b, out)
		}
		return out, nil
	}
	return "", fmt.Errorf("unsupported statement %T", s)
}

func (c *glCtx) lvalue(e ast.Expr, define bool) (string, error) {
	switch t := e.(type) {
	case *ast.Ident:
		if define {
			c.vars[t.Name] = true
		} else if !c.vars[t.Name] {
			return "", fmt.Errorf("assignment to unknown variable %s", t.Name)
		}
		return li(t.Name), nil
	case *ast.SelectorExpr:
		if id, ok := t.X.(*ast.Ident); ok && id.Name == c.recv && c.recvT != nil {
			for _, f := range c.recvT.fields {
				if f.name == t.Sel.Name {
					return c.recv + "_" + t.Sel.Name, nil
				}
			}
		}
	}
	return "", fmt.Errorf("unsupported assignment target")
}

func (c *glCtx) expr(e ast.Expr) (string, error) {
	switch t := e.(type) {
	case *ast.BasicLit:
		if t.Kind == token.INT {
			return t.Value, nil
		}
		return "", fmt.Errorf("unsupported literal %s", t.Value)
	case *ast.ParenExpr:
		return c.expr(t.X)
	case *ast.Ident:
		switch t.Name {
		case "true", "false":
			return t.Name, nil
		}
		if c.vars[t.Name] {
			return li(t.Name), nil
		}
		if v, err := c.g.x.Const(c.g.dir, t.Name); err == nil {
			return fmt.Sprintf("%d", v), nil
		}
		return "", fmt.Errorf("unknown identifier %s", t.Name)
	case *ast.SelectorExpr:
		if id, ok := t.X.(*ast.Ident); ok && id.Name == c.recv && c.recvT != nil {
			for _, f := range c.recvT.fields {
				if f.name == t.Sel.Name {
					return c.recv + "_" + t.Sel.Name, nil
				}
			}
			return "", fmt.Errorf("receiver field %s has an unsupported type", t.Sel.Name)
		}
		if id, ok := t.X.(*ast.Ident); ok && id.Name == "math" {
			if v, ok := map[string]string{"MaxUint8": "255", "MaxUint16": "65535", "MaxUint32": "4294967295",
				"MaxUint64": "18446744073709551615", "MaxInt8": "127", "MaxInt16": "32767", "MaxInt32": "2147483647",
				"MaxInt64": "9223372036854775807"}[t.Sel.Name]; ok {
				return v, nil
			}
		}
		return "", fmt.Errorf("unsupported selector %s", exprName(t))
	case *ast.UnaryExpr:
		v, err := c.expr(t.X)
		if err != nil {
			return "", err
		}
		switch t.Op {
		case token.NOT:
			return "(!" + v + ")", nil
		case token.XOR:
			return "(~~~" + v + ")", nil
		}
		return "", fmt.Errorf("unsupported unary %s", t.Op)
	case *ast.BinaryExpr:
		a, err := c.expr(t.X)
		if err != nil {
			return "", err
		}
		b, err := c.expr(t.Y)
		if err != nil {
			return "", err
		}
		switch t.Op {
		case token.ADD, token.SUB, token.MUL:
			return fmt.Sprintf("(%s %s %s)", a, t.Op, b), nil
		case token.QUO, token.REM:
			// only constant non-zero divisors (Go panics on zero, Lean returns 0)
			if lit, ok := t.Y.(*ast.BasicLit); !ok || lit.Value == "0" {
				if _, err := c.g.x.Const(c.g.dir, exprName(t.Y)); err != nil {
					return "", fmt.Errorf("non-constant divisor")
				}
			}
			return fmt.Sprintf("(%s %s %s)", a, t.Op, b), nil
		case token.AND:
			return fmt.Sprintf("(%s &&& %s)", a, b), nil
		case token.OR:
			return fmt.Sprintf("(%s ||| %s)", a, b), nil
		case token.XOR:
			return fmt.Sprintf("(%s ^^^ %s)", a, b), nil
		case token.AND_NOT:
			return fmt.Sprintf("(%s &&& ~~~%s)", a, b), nil
		case token.SHL, token.SHR:
			lit, ok := t.Y.(*ast.BasicLit)
			if !ok || len(lit.Value) > 1 || lit.Value[0] > '7' {
				return "", fmt.Errorf("shift count must be a literal below 8")
			}
			op := "<<<"
			if t.Op == token.SHR {
				op = ">>>"
			}
			return fmt.Sprintf("(%s %s %s)", a, op, b), nil
		case token.EQL:
			return fmt.Sprintf("(%s == %s)", a, b), nil
		case token.NEQ:
			return fmt.Sprintf("(%s != %s)", a, b), nil
		case token.LSS, token.LEQ, token.GTR, token.GEQ:
			op := map[token.Token]string{token.LSS: "<", token.LEQ: "≤", token.GTR: ">", token.GEQ: "≥"}[t.Op]
			return fmt.Sprintf("(decide (%s %s %s))", a, op, b), nil
		case token.LAND:
			return fmt.Sprintf("(%s && %s)", a, b), nil
		case token.LOR:
			return fmt.Sprintf("(%s || %s)", a, b), nil
		}
		return "", fmt.Errorf("unsupported operator %s", t.Op)
	case *ast.CallExpr:
		// conversion?
		if id, ok := t.Fun.(*ast.Ident); ok && len(t.Args) == 1 {
			if l := c.g.leanType(id); l != "" && l != "Bool" {
				if _, isStruct := c.g.structs[l]; !isStruct {
					v, err := c.expr(t.Args[0])
					if err != nil {
						return "", err
					}
					if _, isLit := t.Args[0].(*ast.BasicLit); isLit {
						return fmt.Sprintf("(%s : %s)", v, l), nil
					}
					return fmt.Sprintf("(%s).toNat.to%s", v, l), nil
				}
			}
		}
		// method call on the receiver / a variable, or package function
		var callee, recvArg, recvType string
		switch f := t.Fun.(type) {
		case *ast.SelectorExpr:
			id, ok := f.X.(*ast.Ident)
			if !ok {
				return "", fmt.Errorf("unsupported call %s", exprName(t.Fun))
			}
			if id.Name == c.recv && c.recvT != nil {
				recvType, recvArg = c.recvT.name, c.recvValue()
			} else if id.Name == c.recv && c.recvLean != "" {
				return "", fmt.Errorf("method call on non-struct receiver")
			} else {
				return "", fmt.Errorf("unsupported call %s", exprName(t.Fun))
			}
			callee = f.Sel.Name
		case *ast.Ident:
			callee = f.Name
		default:
			return "", fmt.Errorf("unsupported call")
		}
		fd, err := c.g.x.Func(c.g.dir, recvType, callee)
		if err != nil {
			return "", err
		}
		c.g.Translate(recvType, callee)
		var args []string
		if recvArg != "" {
			args = append(args, recvArg)
		}
		i := 0
		for _, p := range fd.Type.Params.List {
			l := c.g.leanType(p.Type)
			n := len(p.Names)
			if n == 0 {
				n = 1
			}
			for k := 0; k < n; k++ {
				if i >= len(t.Args) {
					return "", fmt.Errorf("argument count")
				}
				if l != "" {
					a, err := c.expr(t.Args[i])
					if err != nil {
						return "", err
					}
					args = append(args, a)
				}
				i++
			}
		}
		name := callee
		if recvType != "" {
			name = recvType + "." + callee
		}
		return "(" + name + " " + strings.Join(args, " ") + ")", nil
	case *ast.CompositeLit:
		id, ok := t.Type.(*ast.Ident)
		if !ok {
			return "", fmt.Errorf("unsupported composite literal")
		}
		st, ok := c.g.structs[id.Name]
		if !ok {
			return "", fmt.Errorf("unsupported composite literal type %s", id.Name)
		}
		c.g.emitStruct(id.Name)
		vals := map[string]string{}
		for _, el := range t.Elts {
			kv, ok := el.(*ast.KeyValueExpr)
			if !ok {
				return "", fmt.Errorf("positional composite literal")
			}
			k := kv.Key.(*ast.Ident).Name
			supported := false
			for _, f := range st.fields {
				if f.name == k {
					supported = true
				}
			}
			if !supported {
				continue
			}
			v, err := c.expr(kv.Value)
			if err != nil {
				return "", err
			}
			vals[k] = v
		}
		var fs []string
		for _, f := range st.fields {
			v, ok := vals[f.name]
			if !ok {
				v = "0"
				if f.lean == "Bool" {
					v = "false"
				}
			}
			fs = append(fs, fmt.Sprintf("%s := %s", f.name, v))
		}
		return "{ " + strings.Join(fs, ", ") + " : " + id.Name + " }", nil
	}
	return "", fmt.Errorf("unsupported expression %T", e)
}
