package main

import "strings"

func init() {
	register("C06", func(x *X) error {
		const bp = "pkg/bpv7"
		const rt = "pkg/routing"

		// Translated code (extract/golean.go): the hop count block's arithmetic as Lean definitions
		x.Raw("namespace Go")
		g := x.GoLean(bp)
		g.Translate("HopCountBlock", "IsExceeded")
		g.Translate("HopCountBlock", "Increment")
		g.Translate("HopCountBlock", "Decrement")
		g.Emit()
		x.Raw("end Go")

		// F1: block type codes and block processing control flags the model hard-codes
		x.Nat("typePayload", x.MustConst(bp, "ExtBlockTypePayloadBlock"))
		x.Nat("typePreviousNode", x.MustConst(bp, "ExtBlockTypePreviousNodeBlock"))
		x.Nat("typeBundleAge", x.MustConst(bp, "ExtBlockTypeBundleAgeBlock"))
		x.Nat("typeHopCount", x.MustConst(bp, "ExtBlockTypeHopCountBlock"))
		x.Nat("typeBinarySpray", x.MustConst(bp, "ExtBlockTypeBinarySprayBlock"))
		x.Nat("typeDTLSR", x.MustConst(bp, "ExtBlockTypeDTLSRBlock"))
		x.Nat("typeProphet", x.MustConst(bp, "ExtBlockTypeProphetBlock"))
		x.Nat("flagStatusReportBlock", x.MustConst(bp, "StatusReportBlock"))
		x.Nat("flagDeleteBundle", x.MustConst(bp, "DeleteBundle"))
		x.Nat("flagRemoveBlock", x.MustConst(bp, "RemoveBlock"))

		// F3: step order of Core.forward (milestones only, in source order)
		fwd, err := x.Func(rt, "Core", "forward")
		if err != nil {
			return err
		}
		milestones := []string{".Increment", ".IsExceeded", ".IsLifetimeExceeded", ".UpdateBundleAge", "NewPreviousNodeBlock",
			".AddExtensionBlock", ".senderForDestination", ".SenderForBundle", ".Send", ".Wait", ".Decrement",
			".bundleDeletion", ".Push", ".ReplaceBundle", ".WriteBundle", ".Update"}
		x.StrList("forwardSteps", c06Milestones(x.Calls(fwd), milestones))
		// the hop count section: which value guards the deletion
		x.StrList("forwardHopLines", c06Grep(x.Skeleton(fwd), []string{"hc.", "exceeded"}))
		// age / lifetime guards
		x.StrList("forwardAgeLines", c06Grep(x.Skeleton(fwd), []string{"UpdateBundleAge", "age >=", "IsLifetimeExceeded"}))

		// receive: unknown blocks; is the stored bundle replaced after a removal?
		rcv, err := x.Func(rt, "Core", "receive")
		if err != nil {
			return err
		}
		x.StrList("receiveSteps", c06Milestones(x.Calls(rcv), []string{".IsKnown", ".bundleDeletion",
			".ReplaceBundle", ".NotifyNewBundle", ".dispatching"}))
		x.Bool("persistRemoval", CallIndex(x.Calls(rcv), ".ReplaceBundle") >= 0 &&
			CallIndex(x.Calls(rcv), ".ReplaceBundle") < CallIndex(x.Calls(rcv), ".dispatching"))
		x.StrList("receiveFlagLines", c06Grep(x.Skeleton(rcv), []string{"BlockControlFlags.Has", "IsKnown", "for i :=", "blockRemoved"}))

		// retries start from the stored bundle: checkPendingBundles builds the descriptor from the id only
		cpb, err := x.Func(rt, "Core", "checkPendingBundles")
		if err != nil {
			return err
		}
		x.StrList("checkPendingSteps", c06Milestones(x.Calls(cpb), []string{".QueryPending", "NewBundleDescriptor", "NewBundleDescriptorFromBundle", ".dispatching"}))

		// small decisive functions: full skeletons
		for _, f := range []struct{ name, dir, recv, fn string }{
			{"updateBundleAge", rt, "BundleDescriptor", "UpdateBundleAge"},
			{"hopIncrement", bp, "HopCountBlock", "Increment"},
			{"hopIsExceeded", bp, "HopCountBlock", "IsExceeded"},
			{"hopDecrement", bp, "HopCountBlock", "Decrement"},
			{"ageIncrement", bp, "BundleAgeBlock", "Increment"},
			{"isLifetimeExceeded", bp, "Bundle", "IsLifetimeExceeded"},
			{"addExtensionBlock", bp, "Bundle", "AddExtensionBlock"},
			{"blockNumberLess", bp, "canonicalBlockNumberSort", "Less"},
			{"extensionBlock", bp, "Bundle", "ExtensionBlock"},
		} {
			fd, err := x.Func(f.dir, f.recv, f.fn)
			if err != nil {
				return err
			}
			x.StrList(f.name, x.Skeleton(fd))
		}

		// the four block types every node knows
		gm, err := x.Func(bp, "", "GetExtensionBlockManager")
		if err != nil {
			return err
		}
		x.StrList("builtinBlocks", c06Milestones(x.Calls(gm), []string{"NewPayloadBlock", "NewPreviousNodeBlock", "NewBundleAgeBlock", "NewHopCountBlock"}))
		return nil
	})
}

// c06Milestones keeps the calls whose name ends in one of the suffixes, reduced to that suffix.
func c06Milestones(calls []string, suffixes []string) []string {
	var out []string
	for _, c := range calls {
		for _, s := range suffixes {
			if strings.HasSuffix(c, s) {
				out = append(out, strings.TrimPrefix(s, "."))
				break
			}
		}
	}
	return out
}

// c06Grep keeps the skeleton lines containing one of the needles (indentation removed).
func c06Grep(lines []string, needles []string) []string {
	var out []string
	for _, l := range lines {
		for _, n := range needles {
			if strings.Contains(l, n) {
				out = append(out, strings.TrimSpace(l))
				break
			}
		}
	}
	return out
}
