package main

import "strings"

// Facts for C13 (never back to the previous node, never twice to one peer): the shared node facts plus
// the skeletons of the choice / bookkeeping functions of the replicating algorithms.

func init() {
	register("C13", func(x *X) error {
		if err := nodeFacts(x); err != nil {
			return err
		}
		for _, f := range []struct{ recv, name, out string }{
			{"EpidemicRouting", "NotifyNewBundle", "epidemicNotifyCalls"},
			{"EpidemicRouting", "clasForBundle", "epidemicClasCalls"},
			{"EpidemicRouting", "ReportFailure", "epidemicFailureSkeleton"},
			{"SprayAndWait", "NotifyNewBundle", "sprayNotifySkeleton"},
			{"SprayAndWait", "ReportFailure", "sprayFailureSkeleton"},
			{"BinarySpray", "NotifyNewBundle", "binaryNotifySkeleton"},
			{"DTLSR", "ReportFailure", "dtlsrFailureSkeleton"},
			{"SensorNetworkMuleRouting", "SenderForBundle", "muleSendersSkeleton"},
		} {
			fd, err := x.Func(routingDir, f.recv, f.name)
			if err != nil {
				return err
			}
			if len(f.out) > 5 && f.out[len(f.out)-5:] == "Calls" {
				x.StrList(f.out, x.Calls(fd))
			} else {
				// skeleton without assignments that only build a logger
				var sk []string
				for _, l := range x.Skeleton(fd) {
					if strings.HasPrefix(strings.TrimSpace(l), "logger := ") {
						continue
					}
					sk = append(sk, l)
				}
				x.StrList(f.out, sk)
			}
		}
		return nil
	})
}
