// Command extract re-reads /repo's working tree and regenerates /verif/lean/Dtn7/Gen/Cxx.lean.
//
// It is the "translator" half of the tie between the Lean models and the Go source: constants,
// tables and small control-flow facts that the models depend on are read from the source on every
// run; the Lean side states the expected values as theorems (`by decide`), so a change of any
// extracted fact breaks a named proof obligation. Only the Go standard library is used.
package main

import (
	"flag"
	"fmt"
	"os"
	"path/filepath"
	"sort"
	"strings"
)

// A family writes the body of one Gen file.
type family func(x *X) error

var families = map[string]family{}

func register(id string, f family) { families[id] = f }

func main() {
	repo := flag.String("repo", "/repo", "repository root")
	out := flag.String("out", "/verif/lean/Dtn7/Gen", "output directory")
	only := flag.String("only", "", "comma separated property ids (default: all)")
	flag.Parse()

	ids := []string{}
	if *only != "" {
		ids = strings.Split(*only, ",")
	} else {
		for id := range families {
			ids = append(ids, id)
		}
	}
	sort.Strings(ids)
	if err := os.MkdirAll(*out, 0o755); err != nil {
		fail(err)
	}
	rc := 0
	for _, id := range ids {
		f, ok := families[id]
		if !ok {
			// a property without extracted facts still gets an (empty) Gen module
			f = func(x *X) error { return nil }
		}
		x := newX(*repo, id)
		if err := f(x); err != nil {
			// An extraction failure (e.g. the function no longer exists) must not be silent:
			// the Gen file then carries the failure and the Lean build breaks at a named theorem.
			x.Failf("%v", err)
		}
		path := filepath.Join(*out, id+".lean")
		content := x.render()
		old, err := os.ReadFile(path)
		if err == nil && string(old) == content {
			continue // unchanged: keep mtime so lake does not rebuild
		}
		if err := os.WriteFile(path, []byte(content), 0o644); err != nil {
			fail(err)
		}
		if len(x.failures) > 0 {
			rc = 3
		}
	}
	os.Exit(rc)
}

func fail(err error) {
	fmt.Fprintln(os.Stderr, "extract:", err)
	os.Exit(2)
}
