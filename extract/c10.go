package main

import (
	"go/ast"
	"strings"
)

func init() {
	register("C10", func(x *X) error {
		const dir = "pkg/bpv7"
		const sdir = "pkg/storage"
		x.Nat("flagIsFragment", x.MustConst(dir, "IsFragment"))

		pr, err := x.Func(dir, "", "prepareReassembly")
		if err != nil {
			return err
		}
		conds := x.Conds(pr)
		x.StrList("prepareConds", conds)
		x.StrList("prepareLastIndex", x.Assigns(pr, "lastIndex"))
		// the comparator of sort.Slice
		var less []string
		ast.Inspect(pr.Body, func(n ast.Node) bool {
			if fl, ok := n.(*ast.FuncLit); ok {
				for _, st := range fl.Body.List {
					if r, ok := st.(*ast.ReturnStmt); ok && len(r.Results) == 1 {
						less = append(less, strings.Join(strings.Fields(x.Src(r.Results[0])), " "))
					}
				}
			}
			return true
		})
		x.StrList("prepareSortLess", less)
		// D3: the running end index only grows
		x.Bool("maxEnd", containsStr(conds, "fragEnd > lastIndex") && len(x.Assigns(pr, "lastIndex")) == 2 &&
			containsStr(x.Assigns(pr, "lastIndex"), "lastIndex = fragEnd"))

		mg, err := x.Func(dir, "", "mergeFragmentPayload")
		if err != nil {
			return err
		}
		mconds := x.Conds(mg)
		x.StrList("mergeConds", mconds)
		x.StrList("mergeLastIndex", x.Assigns(mg, "lastIndex"))
		x.StrList("mergeData", x.Assigns(mg, "data"))
		x.Bool("mergeSkipsCovered", containsStr(mconds, "fragStartIndex+len(fragPayloadData) <= lastIndex"))

		re, err := x.Func(dir, "", "ReassembleFragments")
		if err != nil {
			return err
		}
		x.StrList("reassembleCalls", x.Calls(re))
		x.StrList("reassembleConds", x.Conds(re))

		ib, err := x.Func(dir, "", "IsBundleReassemblable")
		if err != nil {
			return err
		}
		x.StrList("isReassemblable", x.Skeleton(ib))

		// the store side
		ic, err := x.Func(sdir, "BundleItem", "IsComplete")
		if err != nil {
			return err
		}
		x.StrList("itemIsComplete", x.Skeleton(ic))
		ld, err := x.Func(sdir, "BundleItem", "Load")
		if err != nil {
			return err
		}
		x.StrList("itemLoadCalls", x.Calls(ld))
		pu, err := x.Func(sdir, "Store", "Push")
		if err != nil {
			return err
		}
		pconds := x.Conds(pu)
		x.StrList("pushConds", pconds)
		x.Bool("keepLonger", containsStr(pconds, "fragmentPayloadLen(stored) >= fragmentPayloadLen(b)") &&
			CallIndex(x.Calls(pu), ".replaceBundle") >= 0)
		return nil
	})
}
