package main

func init() {
	register("C02", func(x *X) error {
		// F1: flag bits and codes the validation model depends on
		x.Nat("dtnVersion", x.MustConst(bpv7Dir, "dtnVersion"))
		for _, c := range [][2]string{
			{"isFragment", "IsFragment"}, {"adminRecord", "AdministrativeRecordPayload"},
			{"mustNotFragment", "MustNotFragmented"}, {"appAck", "RequestUserApplicationAck"},
			{"statusTime", "RequestStatusTime"}, {"srReception", "StatusRequestReception"},
			{"srForward", "StatusRequestForward"}, {"srDelivery", "StatusRequestDelivery"},
			{"srDeletion", "StatusRequestDeletion"},
			{"replicateBlock", "ReplicateBlock"}, {"statusReportBlock", "StatusReportBlock"},
			{"deleteBundle", "DeleteBundle"}, {"removeBlock", "RemoveBlock"},
			{"tPayload", "ExtBlockTypePayloadBlock"}, {"tPrevNode", "ExtBlockTypePreviousNodeBlock"},
			{"tAge", "ExtBlockTypeBundleAgeBlock"}, {"tHop", "ExtBlockTypeHopCountBlock"},
			{"ms1970To2k", "milliseconds1970To2k"},
		} {
			x.Nat(c[0], x.MustConst(bpv7Dir, c[1]))
		}

		// F3: the rule list, as control skeletons of the CheckValid family
		skel(x, "Bundle", "CheckValid", "bundleCheckValid")
		skel(x, "Bundle", "IsLifetimeExceeded", "isLifetimeExceeded")
		skel(x, "PrimaryBlock", "CheckValid", "primaryCheckValid")
		skel(x, "CanonicalBlock", "CheckValid", "canonicalCheckValid")
		skel(x, "BundleControlFlags", "CheckValid", "bundleFlagsCheckValid")
		skel(x, "BundleControlFlags", "Has", "bundleFlagsHas")
		skel(x, "BlockControlFlags", "CheckValid", "blockFlagsCheckValid")
		skel(x, "EndpointID", "CheckValid", "eidCheckValid")
		skel(x, "DtnEndpoint", "CheckValid", "dtnCheckValid")
		skel(x, "IpnEndpoint", "CheckValid", "ipnCheckValid")
		skel(x, "HopCountBlock", "CheckValid", "hopCheckValid")
		skel(x, "HopCountBlock", "IsExceeded", "hopIsExceeded")
		skel(x, "PreviousNodeBlock", "CheckValid", "prevNodeCheckValid")
		skel(x, "SignatureBlock", "CheckValid", "signatureCheckValid")
		skel(x, "DTLSRBlock", "CheckValid", "dtlsrCheckValid")
		skel(x, "ProphetBlock", "CheckValid", "prophetCheckValid")
		skel(x, "canonicalBlockNumberSort", "Less", "sortLess")

		// validation is the last thing the parser does, and every producer runs it
		bu := skel(x, "Bundle", "UnmarshalCbor", "bundleUnmarshal")
		x.Bool("unmarshalEndsInCheckValid", len(bu) > 0 && bu[len(bu)-1] == "return b.CheckValid()")
		x.Bool("newBundleChecks", CallIndex(calls(x, "", "NewBundle"), "b.CheckValid") >= 0)
		x.Bool("buildUsesNewBundle", CallIndex(calls(x, "BundleBuilder", "Build"), "NewBundle") >= 0)
		x.Bool("buildFromMapUsesBuild", CallIndex(calls(x, "", "BuildFromMap"), "bldr.Build") >= 0)
		x.Bool("fragmentChecks", CallIndex(calls(x, "Bundle", "Fragment"), "fragBundle.CheckValid") >= 0)
		x.Bool("reassembleChecks", CallIndex(calls(x, "", "ReassembleFragments"), "b.CheckValid") >= 0)
		return nil
	})
}
