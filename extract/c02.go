package main

import "strings"

func init() {
	register("C02", func(x *X) error {
		// F1: flag bits and codes the validation model depends on
		x.Nat("dtnVersion", x.MustConst(bpv7Dir, "dtnVersion"))
		for _, c := range [][2]string{
			{"isFragment", "IsFragment"}, {"adminRecord", "AdministrativeRecordPayload"},
			{"mustNotFragment", "MustNotFragmented"}, {"appAck", "RequestUserApplicationAck"},
			{"statusTime", "RequestStatusTime"}, {"srReception", "StatusRequestReception"},
			{"srForward", "StatusRequestForward"}, {"srDelivery", "StatusRequestDelivery"},
			{"srDeletion", "StatusRequestDeletion"},
			{"replicateBlock", "ReplicateBlock"}, {"statusReportBlock", "StatusReportBlock"},
			{"deleteBundle", "DeleteBundle"}, {"removeBlock", "RemoveBlock"},
			{"tPayload", "ExtBlockTypePayloadBlock"}, {"tPrevNode", "ExtBlockTypePreviousNodeBlock"},
			{"tAge", "ExtBlockTypeBundleAgeBlock"}, {"tHop", "ExtBlockTypeHopCountBlock"},
			{"ms1970To2k", "milliseconds1970To2k"},
		} {
			x.Nat(c[0], x.MustConst(bpv7Dir, c[1]))
		}

		// F3: the rule list, as control skeletons of the CheckValid family
		skel(x, "Bundle", "CheckValid", "bundleCheckValid")
		skel(x, "Bundle", "IsLifetimeExceeded", "isLifetimeExceeded")
		skel(x, "PrimaryBlock", "CheckValid", "primaryCheckValid")
		skel(x, "CanonicalBlock", "CheckValid", "canonicalCheckValid")
		skel(x, "BundleControlFlags", "CheckValid", "bundleFlagsCheckValid")
		skel(x, "BundleControlFlags", "Has", "bundleFlagsHas")
		skel(x, "BlockControlFlags", "CheckValid", "blockFlagsCheckValid")
		skel(x, "EndpointID", "CheckValid", "eidCheckValid")
		skel(x, "DtnEndpoint", "CheckValid", "dtnCheckValid")
		skel(x, "IpnEndpoint", "CheckValid", "ipnCheckValid")
		skel(x, "HopCountBlock", "CheckValid", "hopCheckValid")
		skel(x, "HopCountBlock", "IsExceeded", "hopIsExceeded")
		skel(x, "PreviousNodeBlock", "CheckValid", "prevNodeCheckValid")
		skel(x, "SignatureBlock", "CheckValid", "signatureCheckValid")
		skel(x, "DTLSRBlock", "CheckValid", "dtlsrCheckValid")
		skel(x, "ProphetBlock", "CheckValid", "prophetCheckValid")
		skel(x, "canonicalBlockNumberSort", "Less", "sortLess")

		// validation is the last thing the parser does, and every producer runs it
		bu := skel(x, "Bundle", "UnmarshalCbor", "bundleUnmarshal")
		x.Bool("unmarshalEndsInCheckValid", len(bu) > 0 && bu[len(bu)-1] == "return b.CheckValid()")
		x.Bool("newBundleChecks", CallIndex(calls(x, "", "NewBundle"), "b.CheckValid") >= 0)
		x.Bool("buildUsesNewBundle", CallIndex(calls(x, "BundleBuilder", "Build"), "NewBundle") >= 0)
		x.Bool("buildFromMapUsesBuild", CallIndex(calls(x, "", "BuildFromMap"), "bldr.Build") >= 0)
		x.Bool("fragmentChecks", CallIndex(calls(x, "Bundle", "Fragment"), "fragBundle.CheckValid") >= 0)
		// … for EVERY fragment: the check is a direct child statement of the fragment loop, under no other condition
		x.Bool("fragmentChecksEveryFragment", func() bool {
			fd, err := x.Func(bpv7Dir, "Bundle", "Fragment")
			if err != nil {
				x.Failf("%v", err)
				return false
			}
			sk := x.Skeleton(fd)
			for i, l := range sk {
				if l != "  if err = fragBundle.CheckValid(); err != nil" {
					continue
				}
				if i+1 >= len(sk) || sk[i+1] != "    return" {
					return false
				}
				for j := i - 1; j >= 0; j-- {
					if !strings.HasPrefix(sk[j], " ") {
						return strings.HasPrefix(sk[j], "for ")
					}
				}
			}
			return false
		}())
		// the node's own bundles are Builder() chains ending in Build(); the harness runs the same chains
		chain := func(dir, recv, name string) []string {
			fd, err := x.Func(dir, recv, name)
			if err != nil {
				x.Failf("%v", err)
				return nil
			}
			var out []string
			for _, c := range x.Calls(fd) {
				if strings.HasPrefix(c, "bundleBuilder.") {
					out = append(out, c)
				} else if strings.Contains(c, "Builder()") && (len(out) == 0 || len(c) > len(out[0])) {
					out = []string{c} // a fluent chain: its longest form names every call
				}
			}
			return out
		}
		x.StrList("statusReportChain", chain("pkg/routing", "Pipeline", "sendReport"))
		x.StrList("pongChain", chain("pkg/agent", "PingAgent", "ackBundle"))
		x.StrList("metadataChain", chain("pkg/routing", "", "sendMetadataBundle"))
		x.Bool("reassembleChecks", CallIndex(calls(x, "", "ReassembleFragments"), "b.CheckValid") >= 0)
		return nil
	})
}
