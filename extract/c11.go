package main

func init() {
	register("C11", func(x *X) error {
		const msgsDir = "pkg/cla/tcpclv4/internal/msgs"
		const utilsDir = "pkg/cla/tcpclv4/internal/utils"
		x.Nat("segmentEnd", x.MustConst(msgsDir, "SegmentEnd"))
		x.Nat("segmentStart", x.MustConst(msgsDir, "SegmentStart"))
		x.Nat("xferSegment", x.MustConst(msgsDir, "XFER_SEGMENT"))
		x.Nat("xferAck", x.MustConst(msgsDir, "XFER_ACK"))
		x.Nat("xferRefuse", x.MustConst(msgsDir, "XFER_REFUSE"))

		// Does NextSegment look ahead after a full read (the END flag of an exactly filled last segment)?
		fd, err := x.Func(utilsDir, "OutgoingTransfer", "NextSegment")
		if err != nil {
			return err
		}
		calls := x.Calls(fd)
		x.StrList("nextSegmentCalls", calls)
		x.Bool("lookahead", CallIndex(calls, ".Peek") >= 0)
		// the sender clamps the peer's Segment MRU (repair of D11); 0 = no clamp in the source
		if v, err := x.Const(utilsDir, "MaxSegmentMtu"); err == nil {
			x.Nat("maxSegmentMtu", v)
		} else {
			x.Nat("maxSegmentMtu", 0)
		}
		sk := x.Skeleton(fd)
		head := sk
		if len(head) > 5 {
			head = head[:5]
		}
		x.StrList("nextSegmentHead", head)

		// IncomingTransfer.NextSegment / TransferManager.Send skeletons are small and decisive.
		if fd, err := x.Func(utilsDir, "IncomingTransfer", "NextSegment"); err == nil {
			x.StrList("incomingNextSegment", x.Skeleton(fd))
		} else {
			return err
		}
		return nil
	})
}
