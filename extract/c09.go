package main

import (
	"fmt"
	"go/ast"
	"go/token"
	"strconv"
	"strings"
)

// ---- helpers used by the C09 / C10 families ----

// Conds lists, in source order, every `if` / `else if` condition (with its init statement) and every
// `for` header of a function body, including those inside function literals. Logging does not occur in
// conditions, so the list is insensitive to logging changes; any change of a guard or a comparison
// operator changes it.
func (x *X) Conds(fd *ast.FuncDecl) []string {
	var out []string
	norm := func(s string) string { return strings.Join(strings.Fields(s), " ") }
	ast.Inspect(fd.Body, func(n ast.Node) bool {
		switch s := n.(type) {
		case *ast.IfStmt:
			c := "if "
			if s.Init != nil {
				c += x.Src(s.Init) + "; "
			}
			out = append(out, norm(c+x.Src(s.Cond)))
		case *ast.ForStmt:
			c := "for "
			if s.Init != nil {
				c += x.Src(s.Init)
			}
			c += "; "
			if s.Cond != nil {
				c += x.Src(s.Cond)
			}
			c += "; "
			if s.Post != nil {
				c += x.Src(s.Post)
			}
			out = append(out, norm(c))
		case *ast.RangeStmt:
			out = append(out, norm("range "+x.Src(s.X)))
		}
		return true
	})
	return out
}

// LocalInt finds `name = <int literal>` in a var/const declaration or `name := <int literal>` inside a
// function body.
func (x *X) LocalInt(fd *ast.FuncDecl, name string) (uint64, error) {
	var lit *ast.BasicLit
	ast.Inspect(fd.Body, func(n ast.Node) bool {
		switch s := n.(type) {
		case *ast.ValueSpec:
			for i, id := range s.Names {
				if id.Name == name && i < len(s.Values) {
					if bl, ok := s.Values[i].(*ast.BasicLit); ok {
						lit = bl
					}
				}
			}
		case *ast.AssignStmt:
			for i, l := range s.Lhs {
				if id, ok := l.(*ast.Ident); ok && id.Name == name && i < len(s.Rhs) && s.Tok == token.DEFINE {
					if bl, ok := s.Rhs[i].(*ast.BasicLit); ok {
						lit = bl
					}
				}
			}
		}
		return true
	})
	if lit == nil {
		return 0, fmt.Errorf("%s: local integer %s not found", fd.Name.Name, name)
	}
	return strconv.ParseUint(lit.Value, 0, 64)
}

// CallArgs returns the printed arguments of every call whose name has the given suffix.
func (x *X) CallArgs(fd *ast.FuncDecl, suffix string) []string {
	var out []string
	ast.Inspect(fd.Body, func(n ast.Node) bool {
		ce, ok := n.(*ast.CallExpr)
		if !ok || !strings.HasSuffix(exprName(ce.Fun), suffix) {
			return true
		}
		var as []string
		for _, a := range ce.Args {
			if _, isLit := a.(*ast.FuncLit); isLit {
				as = append(as, "func")
				continue
			}
			as = append(as, strings.Join(strings.Fields(x.Src(a)), " "))
		}
		out = append(out, strings.Join(as, ", "))
		return true
	})
	return out
}

// Assigns lists the assignments (`=`, `:=`, `+=`, …) to the named variable in a function body.
func (x *X) Assigns(fd *ast.FuncDecl, name string) []string {
	var out []string
	ast.Inspect(fd.Body, func(n ast.Node) bool {
		as, ok := n.(*ast.AssignStmt)
		if !ok {
			return true
		}
		for _, l := range as.Lhs {
			if id, ok := l.(*ast.Ident); ok && id.Name == name {
				out = append(out, strings.Join(strings.Fields(x.Src(as)), " "))
				break
			}
		}
		return true
	})
	return out
}

func containsStr(l []string, sub string) bool {
	for _, s := range l {
		if strings.Contains(s, sub) {
			return true
		}
	}
	return false
}

func indexStr(l []string, sub string) int {
	for i, s := range l {
		if strings.Contains(s, sub) {
			return i
		}
	}
	return -1
}

func init() {
	register("C09", func(x *X) error {
		const dir = "pkg/bpv7"
		x.Nat("flagIsFragment", x.MustConst(dir, "IsFragment"))
		x.Nat("flagMustNotFragment", x.MustConst(dir, "MustNotFragmented"))
		x.Nat("flagReplicate", x.MustConst(dir, "ReplicateBlock"))
		x.Nat("typePayload", x.MustConst(dir, "ExtBlockTypePayloadBlock"))
		x.Nat("typeBundleAge", x.MustConst(dir, "ExtBlockTypeBundleAgeBlock"))
		x.Nat("crc32", x.MustConst(dir, "CRC32"))

		fr, err := x.Func(dir, "Bundle", "Fragment")
		if err != nil {
			return err
		}
		if v, err := x.LocalInt(fr, "cborOverhead"); err == nil {
			x.Nat("cborOverhead", v)
		} else {
			return err
		}
		conds := x.Conds(fr)
		x.StrList("fragmentConds", conds)
		calls := x.Calls(fr)
		// D1: the bundle is serialised and compared with the limit before anything is estimated,
		// the single-fragment shortcut is gone, an empty result is an error
		pre := indexStr(conds, "buff.Len() <= mtu")
		x.Bool("precheck", pre >= 0 && CallIndex(calls, "b.MarshalCbor") >= 0 &&
			CallIndex(calls, "b.MarshalCbor") < CallIndex(calls, "fragmentExtensionBlocksLen") &&
			!containsStr(conds, "len(bs) == 1") && containsStr(conds, "len(bs) == 0"))
		x.Bool("mustNotFragmentFirst", len(conds) > 0 && strings.Contains(conds[0], "Has(MustNotFragmented)"))
		// D2: offsets relative to the original payload, original total
		x.StrList("fragmentPrimaryBlockArgs", x.CallArgs(fr, "fragmentPrimaryBlock"))
		x.StrList("fragmentLoopStep", x.Assigns(fr, "i"))
		x.StrList("fragmentCapacity", x.Assigns(fr, "fragPayloadBlockLen"))
		x.StrList("fragmentOverhead", x.Assigns(fr, "overhead"))
		// D4: blocks are not renumbered
		x.Bool("fragmentRenumbers", CallIndex(calls, ".AddExtensionBlock") >= 0 || CallIndex(calls, "MustNewBundle") >= 0)

		el, err := x.Func(dir, "", "fragmentExtensionBlocksLen")
		if err != nil {
			return err
		}
		x.StrList("extLenConds", x.Conds(el))
		x.StrList("extLenHeadArg", x.CallArgs(el, "WriteByteStringLen"))
		x.StrList("extLenFirst", x.Assigns(el, "first"))
		x.StrList("extLenOthers", x.Assigns(el, "others"))
		x.StrList("extLenCrc", x.CallArgs(el, "NewPayloadBlock"))

		re, err := x.Func(dir, "", "ReassembleFragments")
		if err != nil {
			return err
		}
		x.Bool("reassembleRenumbers", CallIndex(x.Calls(re), ".AddExtensionBlock") >= 0)
		return nil
	})
}
