package main

import (
	"fmt"
	"go/ast"
	"strings"
)

// C08 — the bundle store. Facts the model Dtn7.Model.Store depends on:
//   - the micro-step order inside Store.Push / Store.Delete (call-order codes),
//   - the lock discipline of Push / Update / Delete (every index access after Lock + deferred Unlock),
//   - the open flags of BundlePart.storeBundle (no truncation, no append),
//   - the index key (scrubbed id) and the part file name (sha256 of the full id),
//   - the de-duplication guard (offset AND total), the two badgerhold queries,
//   - Update writes the item it was given, BundleItem.Load / IsComplete short cuts.
func init() {
	register("C08", func(x *X) error {
		const dir = "pkg/storage"

		// ---- call order codes
		code := func(name string) uint64 {
			switch {
			case strings.HasSuffix(name, "mutex.Lock"):
				return 1
			case strings.HasSuffix(name, "mutex.Unlock"):
				return 2
			case strings.HasSuffix(name, ".QueryId"):
				return 3
			case strings.HasSuffix(name, ".storeBundle"):
				return 4
			case strings.HasSuffix(name, "bh.Insert"):
				return 5
			case strings.HasSuffix(name, "bh.Update"):
				return 6
			case strings.HasSuffix(name, ".deleteBundle"):
				return 7
			case strings.HasSuffix(name, "bh.Delete"):
				return 8
			case strings.HasSuffix(name, "bh.Find"):
				return 9
			case strings.HasSuffix(name, "bh.Get"):
				return 10
			case strings.HasSuffix(name, ".Delete"): // Store.Delete called from DeleteExpired
				return 11
			case strings.HasSuffix(name, "os.Remove"):
				return 12
			case strings.HasSuffix(name, "os.OpenFile"):
				return 13
			case strings.HasSuffix(name, ".WriteBundle"):
				return 14
			case strings.HasSuffix(name, "os.Open"):
				return 15
			case strings.HasSuffix(name, "ParseBundle"):
				return 16
			case strings.HasSuffix(name, "ReassembleFragments"):
				return 17
			case strings.HasSuffix(name, "IsBundleReassemblable"):
				return 18
			case strings.HasSuffix(name, ".bundleParts"):
				return 19
			case strings.HasSuffix(name, ".replaceBundle"):
				return 22
			case strings.HasSuffix(name, ".Load"):
				return 20
			case name == "fragmentPayloadLen":
				return 21
			case strings.HasSuffix(name, "os.Rename"):
				return 23
			case name == "f.Close":
				return 24
			}
			return 0
		}
		order := func(recv, name, out string) (*ast.FuncDecl, error) {
			fd, err := x.Func(dir, recv, name)
			if err != nil {
				return nil, err
			}
			calls := x.Calls(fd)
			x.StrList(out+"Calls", calls)
			var codes []uint64
			for _, c := range calls {
				if k := code(c); k != 0 {
					codes = append(codes, k)
				}
			}
			x.NatList(out+"Order", codes)
			return fd, nil
		}
		var fns = map[string]*ast.FuncDecl{}
		for _, f := range []struct{ recv, name, out string }{
			{"Store", "Push", "push"}, {"Store", "Update", "update"}, {"Store", "Delete", "delete"},
			{"Store", "ReplaceBundle", "replaceOp"}, {"BundlePart", "replaceBundle", "replaceFile"},
			{"Store", "DeleteExpired", "deleteExpired"}, {"Store", "QueryId", "queryId"},
			{"Store", "QueryPending", "queryPending"}, {"Store", "KnowsBundle", "knowsBundle"},
			{"BundlePart", "storeBundle", "storeBundle"}, {"BundlePart", "deleteBundle", "deleteBundle"},
			{"BundlePart", "Load", "partLoad"}, {"BundleItem", "Load", "itemLoad"},
			{"BundleItem", "IsComplete", "isComplete"},
		} {
			fd, err := order(f.recv, f.name, f.out)
			if err != nil {
				return err
			}
			fns[f.out] = fd
		}

		// ---- lock discipline: statement 0 is `s.mutex.Lock()`, statement 1 `defer s.mutex.Unlock()`,
		// no other Lock/Unlock, no `go` statement; then every index access (s.bh.*, s.QueryId) is made
		// while the mutex is held. Table entries: (function code * 100 + call code, held).
		var table []string
		// ReplaceBundle (function 4) takes no lock; its only index access is the read QueryId.
		for fi, out := range []string{"push", "update", "delete", "replaceOp"} {
			fd := fns[out]
			held := false
			if len(fd.Body.List) >= 2 {
				if es, ok := fd.Body.List[0].(*ast.ExprStmt); ok {
					if ce, ok := es.X.(*ast.CallExpr); ok && strings.HasSuffix(exprName(ce.Fun), "mutex.Lock") {
						if ds, ok := fd.Body.List[1].(*ast.DeferStmt); ok && strings.HasSuffix(exprName(ds.Call.Fun), "mutex.Unlock") {
							held = true
						}
					}
				}
			}
			locks, unlocks, gos := 0, 0, 0
			ast.Inspect(fd.Body, func(n ast.Node) bool {
				switch n := n.(type) {
				case *ast.GoStmt:
					gos++
				case *ast.CallExpr:
					nm := exprName(n.Fun)
					if strings.HasSuffix(nm, "mutex.Lock") {
						locks++
					}
					if strings.HasSuffix(nm, "mutex.Unlock") {
						unlocks++
					}
				}
				return true
			})
			if locks != 1 || unlocks != 1 || gos != 0 {
				held = false
			}
			for _, c := range x.Calls(fd) {
				k := code(c)
				if k == 3 || k == 5 || k == 6 || k == 8 || k == 9 || k == 10 {
					table = append(table, fmt.Sprintf("(%d, %v)", (fi+1)*100+int(k), held))
				}
			}
		}
		x.Raw("def lockTable : List (Nat × Bool) := [" + strings.Join(table, ", ") + "]")

		// ---- open flags of storeBundle
		flags := ""
		ast.Inspect(fns["storeBundle"].Body, func(n ast.Node) bool {
			if ce, ok := n.(*ast.CallExpr); ok && exprName(ce.Fun) == "os.OpenFile" && len(ce.Args) >= 2 {
				flags = x.Src(ce.Args[1])
			}
			return true
		})
		x.Str("storeOpenFlags", flags)
		x.Bool("storeCreates", strings.Contains(flags, "O_CREATE"))
		x.Bool("storeWriteOnly", strings.Contains(flags, "O_WRONLY"))
		x.Bool("storeTruncates", strings.Contains(flags, "O_TRUNC"))
		x.Bool("storeAppends", strings.Contains(flags, "O_APPEND"))
		x.Bool("storeExclusive", strings.Contains(flags, "O_EXCL"))

		rflags := ""
		ast.Inspect(fns["replaceFile"].Body, func(n ast.Node) bool {
			if ce, ok := n.(*ast.CallExpr); ok && exprName(ce.Fun) == "os.OpenFile" && len(ce.Args) >= 2 {
				rflags = x.Src(ce.Args[1])
			}
			return true
		})
		x.Str("replaceOpenFlags", rflags)
		x.Bool("replaceTruncatesTmp", strings.Contains(rflags, "O_TRUNC") && strings.Contains(rflags, "O_CREATE") &&
			strings.Contains(rflags, "O_WRONLY") && !strings.Contains(rflags, "O_APPEND"))

		// ---- naming
		src := func(recv, name string) string {
			fd, err := x.Func(dir, recv, name)
			if err != nil {
				x.Failf("%v", err)
				return ""
			}
			return strings.Join(strings.Fields(x.Src(fd.Body)), " ")
		}
		nbi := src("", "newBundleItem")
		x.Bool("keyIsScrubbedId", strings.Contains(nbi, "Id: bid.Scrub().String()") && strings.Contains(nbi, "bid := b.ID()"))
		x.Bool("fileNameFromFullId", strings.Contains(nbi, "Filename: bundlePartPath(bid, storagePath)"))
		x.Bool("partCarriesOffsetTotal", strings.Contains(nbi, "FragmentOffset: bid.FragmentOffset") && strings.Contains(nbi, "TotalDataLength: bid.TotalDataLength"))
		x.Bool("newItemNotPending", strings.Contains(nbi, "Pending: false"))
		x.Bool("newItemFragmentedFlag", strings.Contains(nbi, "Fragmented: b.PrimaryBlock.HasFragmentation()"))
		bpp := src("", "bundlePartPath")
		x.Bool("fileNameIsSha256OfIdString", strings.Contains(bpp, "sha256.Sum256([]byte(id.String()))") && strings.Contains(bpp, "path.Join(storagePath, f)"))
		qid := src("Store", "QueryId")
		x.Bool("queryScrubs", strings.Contains(qid, "s.bh.Get(bid.Scrub().String(), &bi)"))

		// ---- guards in Push
		push := src("Store", "Push")
		x.Bool("dedupByOffsetAndTotal", strings.Contains(push,
			"part.FragmentOffset == compPart.FragmentOffset && part.TotalDataLength == compPart.TotalDataLength"))
		x.Bool("pushAppendsPart", strings.Contains(push, "biStore.Parts = append(biStore.Parts, compPart)"))
		x.Bool("pushUpdatesStoredItem", strings.Contains(push, "s.bh.Update(biStore.Id, biStore)"))
		x.Bool("pushInsertsNewItem", strings.Contains(push, "s.bh.Insert(bi.Id, bi)"))
		x.Bool("pushReplacesIfLonger", strings.Contains(push,
			"if stored, err := compPart.Load(); err == nil && fragmentPayloadLen(stored) >= fragmentPayloadLen(b)") &&
			strings.Contains(push, "return compPart.replaceBundle(b)"))
		rf := src("BundlePart", "replaceBundle")
		x.Bool("replaceWritesTmpThenRenames", strings.Contains(rf, `tmpFilename := bp.Filename + ".tmp"`) &&
			strings.Contains(rf, "os.OpenFile(tmpFilename,") && strings.Contains(rf, "return os.Rename(tmpFilename, bp.Filename)"))
		ro := src("Store", "ReplaceBundle")
		x.Bool("replaceOpMatchesOffsetTotal", strings.Contains(ro,
			"part.FragmentOffset == bid.FragmentOffset && part.TotalDataLength == bid.TotalDataLength") &&
			strings.Contains(ro, "return part.replaceBundle(b)") && strings.Contains(ro, "bi, err := s.QueryId(bid)"))
		x.StrList("replaceOpSkeleton", x.Skeleton(fns["replaceOp"]))
		x.StrList("replaceFileSkeleton", x.Skeleton(fns["replaceFile"]))
		x.StrList("pushSkeleton", x.Skeleton(fns["push"]))
		x.StrList("deleteSkeleton", x.Skeleton(fns["delete"]))

		// ---- queries
		x.Bool("pendingQuery", strings.Contains(src("Store", "QueryPending"), `badgerhold.Where("Pending").Eq(true)`))
		x.Bool("expiredQuery", strings.Contains(src("Store", "DeleteExpired"), `badgerhold.Where("Expires").Lt(time.Now())`))
		x.Bool("knowsIsNotNotFound", strings.Contains(src("Store", "KnowsBundle"), "err != badgerhold.ErrNotFound"))

		// ---- Update writes the item it was given: Lock, deferred Unlock, return s.bh.Update(bi.Id, bi)
		us := x.Skeleton(fns["update"])
		x.StrList("updateSkeleton", us)
		x.Bool("updateWritesGivenItem", len(us) == 3 && us[2] == "return s.bh.Update(bi.Id, bi)")

		// ---- Load / IsComplete short cuts
		ls := x.Skeleton(fns["itemLoad"])
		x.StrList("itemLoadSkeleton", ls)
		x.Bool("loadDirectIfUnfragmented", len(ls) >= 2 && ls[0] == "if !bi.Fragmented && len(bi.Parts) == 1" &&
			ls[1] == "  return bi.Parts[0].Load()")
		cs := x.Skeleton(fns["isComplete"])
		x.StrList("isCompleteSkeleton", cs)
		x.Bool("completeIfUnfragmented", len(cs) >= 2 && cs[0] == "if !bi.Fragmented" && cs[1] == "  return true")
		return nil
	})
}
