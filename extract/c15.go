package main

import (
	"go/ast"
	"go/token"
	"strconv"
	"strings"
	"time"
)

// ---- C15: status reports -------------------------------------------------------------------
//
// Facts read from the current source:
//   F1  flag bits, status positions, reason codes, the report bundle's lifetime;
//   F3  skeletons of Core.SendStatusReport / Core.HasEndpoint / NewStatusReport / Bundle.ID /
//       BundleStatusItem.MarshalCbor / bundleDeletion;
//       every call site of SendStatusReport and bundleDeletion in pkg/routing with the chain of
//       conditions it sits under (enclosing if/else/for headers and the early-exit guards that
//       precede it in each enclosing block), and the places where `bundleSent` is set;
//       reportOnlyOnSuccess: does the delivery report in localDelivery depend on Deliver's success?

// site is one matched node together with the conditions it is executed under.
type site struct {
	fn    string
	chain []chainElem
	what  string
}

type chainElem struct {
	kind string // "if", "else", "unless", "for", "case", "func", "go", "defer"
	init ast.Stmt
	cond ast.Expr
	text string
}

func (s site) String() string {
	parts := []string{s.fn}
	for _, c := range s.chain {
		parts = append(parts, c.text)
	}
	parts = append(parts, s.what)
	return strings.Join(parts, " | ")
}

func oneLine(s string) string { return strings.Join(strings.Fields(s), " ") }

// terminates reports whether a block's last statement leaves the enclosing block for good.
func terminates(b *ast.BlockStmt) bool {
	if len(b.List) == 0 {
		return false
	}
	switch l := b.List[len(b.List)-1].(type) {
	case *ast.ReturnStmt:
		return true
	case *ast.BranchStmt:
		return l.Tok == token.CONTINUE || l.Tok == token.BREAK || l.Tok == token.GOTO
	case *ast.ExprStmt:
		if ce, ok := l.X.(*ast.CallExpr); ok {
			return exprName(ce.Fun) == "panic"
		}
	}
	return false
}

// Sites walks a function body and reports every node accepted by want, with its condition chain.
func (x *X) Sites(fd *ast.FuncDecl, want func(n ast.Node) (string, bool)) []site {
	var out []site
	var walkBlock func(list []ast.Stmt, ctx []chainElem)
	var walkStmt func(s ast.Stmt, ctx []chainElem)
	cp := func(ctx []chainElem, e ...chainElem) []chainElem {
		n := make([]chainElem, 0, len(ctx)+len(e))
		n = append(n, ctx...)
		return append(n, e...)
	}
	inspect := func(n ast.Node, ctx []chainElem) {
		if n == nil {
			return
		}
		ast.Inspect(n, func(m ast.Node) bool {
			if m == nil {
				return true
			}
			if ce, ok := m.(*ast.CallExpr); ok && isLogging(exprName(ce.Fun)) {
				return false
			}
			if fl, ok := m.(*ast.FuncLit); ok {
				walkBlock(fl.Body.List, cp(ctx, chainElem{kind: "func", text: "func literal"}))
				return false
			}
			if w, ok := want(m); ok {
				out = append(out, site{fn: fd.Name.Name, chain: ctx, what: w})
			}
			return true
		})
	}
	ifText := func(s *ast.IfStmt) string {
		t := ""
		if s.Init != nil {
			t = x.Src(s.Init) + "; "
		}
		return oneLine(t + x.Src(s.Cond))
	}
	walkStmt = func(s ast.Stmt, ctx []chainElem) {
		switch s := s.(type) {
		case *ast.IfStmt:
			if s.Init != nil {
				inspect(s.Init, ctx)
			}
			inspect(s.Cond, ctx)
			t := ifText(s)
			walkBlock(s.Body.List, cp(ctx, chainElem{kind: "if", init: s.Init, cond: s.Cond, text: "if " + t}))
			switch e := s.Else.(type) {
			case *ast.BlockStmt:
				walkBlock(e.List, cp(ctx, chainElem{kind: "else", init: s.Init, cond: s.Cond, text: "else of (" + t + ")"}))
			case *ast.IfStmt:
				walkStmt(e, cp(ctx, chainElem{kind: "else", init: s.Init, cond: s.Cond, text: "else of (" + t + ")"}))
			}
		case *ast.ForStmt:
			hd := "for "
			if s.Init != nil {
				inspect(s.Init, ctx)
				hd += x.Src(s.Init)
			}
			hd += "; "
			if s.Cond != nil {
				inspect(s.Cond, ctx)
				hd += x.Src(s.Cond)
			}
			hd += "; "
			if s.Post != nil {
				hd += x.Src(s.Post)
			}
			walkBlock(s.Body.List, cp(ctx, chainElem{kind: "for", text: oneLine(hd)}))
		case *ast.RangeStmt:
			inspect(s.X, ctx)
			walkBlock(s.Body.List, cp(ctx, chainElem{kind: "for", text: "for range " + oneLine(x.Src(s.X))}))
		case *ast.SwitchStmt:
			if s.Init != nil {
				inspect(s.Init, ctx)
			}
			tag := ""
			if s.Tag != nil {
				inspect(s.Tag, ctx)
				tag = x.Src(s.Tag)
			}
			for _, c := range s.Body.List {
				cc := c.(*ast.CaseClause)
				var es []string
				for _, e := range cc.List {
					es = append(es, x.Src(e))
				}
				lbl := "default"
				if cc.List != nil {
					lbl = "case " + strings.Join(es, ", ")
				}
				walkBlock(cc.Body, cp(ctx, chainElem{kind: "case", text: oneLine("switch " + tag + " " + lbl)}))
			}
		case *ast.TypeSwitchStmt:
			for _, c := range s.Body.List {
				cc := c.(*ast.CaseClause)
				walkBlock(cc.Body, cp(ctx, chainElem{kind: "case", text: "typeswitch case"}))
			}
		case *ast.SelectStmt:
			for _, c := range s.Body.List {
				cc := c.(*ast.CommClause)
				walkBlock(cc.Body, cp(ctx, chainElem{kind: "case", text: "select case"}))
			}
		case *ast.BlockStmt:
			walkBlock(s.List, ctx)
		case *ast.LabeledStmt:
			walkStmt(s.Stmt, ctx)
		case *ast.GoStmt:
			inspect(s.Call, cp(ctx, chainElem{kind: "go", text: "go"}))
		case *ast.DeferStmt:
			inspect(s.Call, cp(ctx, chainElem{kind: "defer", text: "defer"}))
		default:
			inspect(s, ctx)
		}
	}
	walkBlock = func(list []ast.Stmt, ctx []chainElem) {
		cur := ctx
		for _, s := range list {
			walkStmt(s, cur)
			if is, ok := s.(*ast.IfStmt); ok && is.Else == nil && terminates(is.Body) {
				cur = cp(cur, chainElem{kind: "unless", init: is.Init, cond: is.Cond, text: "unless " + ifText(is)})
			}
		}
	}
	walkBlock(fd.Body.List, nil)
	return out
}

// callWanted matches calls of a method/function with the given selector name and prints them
// with their arguments.
func (x *X) callWanted(name string) func(n ast.Node) (string, bool) {
	return func(n ast.Node) (string, bool) {
		ce, ok := n.(*ast.CallExpr)
		if !ok {
			return "", false
		}
		fn := exprName(ce.Fun)
		if fn != name && !strings.HasSuffix(fn, "."+name) {
			return "", false
		}
		var args []string
		for _, a := range ce.Args {
			args = append(args, oneLine(x.Src(a)))
		}
		return name + "(" + strings.Join(args, ", ") + ")", true
	}
}

// allFuncs lists the function declarations of a package directory in file/source order.
func (x *X) allFuncs(dir string) ([]*ast.FuncDecl, error) {
	p, err := x.Pkg(dir)
	if err != nil {
		return nil, err
	}
	var out []*ast.FuncDecl
	for _, fn := range sortedFiles(p) {
		for _, d := range p[fn].Decls {
			if fd, ok := d.(*ast.FuncDecl); ok && fd.Body != nil {
				out = append(out, fd)
			}
		}
	}
	return out, nil
}

// builderChain flattens `a.B(x).C(y).D()` into ["a", "B(x)", "C(y)", "D()"].
func (x *X) builderChain(e ast.Expr) []string {
	var out []string
	for {
		ce, ok := e.(*ast.CallExpr)
		if !ok {
			out = append([]string{oneLine(x.Src(e))}, out...)
			return out
		}
		sel, ok := ce.Fun.(*ast.SelectorExpr)
		if !ok {
			out = append([]string{oneLine(x.Src(e))}, out...)
			return out
		}
		var args []string
		for _, a := range ce.Args {
			args = append(args, oneLine(x.Src(a)))
		}
		out = append([]string{sel.Sel.Name + "(" + strings.Join(args, ", ") + ")"}, out...)
		e = sel.X
	}
}

// successConditioned decides whether a chain makes its site depend on the success of a call of
// `callee` (e.g. "Deliver"): an enclosing `if v == nil`, an `else` of `if v != nil`, or a
// preceding guard `if v != nil { …; return }`, where v was assigned from a call of callee (in the
// if's init statement or earlier in the function).
func successConditioned(fd *ast.FuncDecl, chain []chainElem, callee string) bool {
	fromCallee := map[string]bool{}
	mentions := func(n ast.Node) bool {
		found := false
		ast.Inspect(n, func(m ast.Node) bool {
			if ce, ok := m.(*ast.CallExpr); ok {
				if nm := exprName(ce.Fun); nm == callee || strings.HasSuffix(nm, "."+callee) {
					found = true
				}
			}
			return !found
		})
		return found
	}
	ast.Inspect(fd.Body, func(n ast.Node) bool {
		if as, ok := n.(*ast.AssignStmt); ok {
			for _, r := range as.Rhs {
				if mentions(r) {
					for _, l := range as.Lhs {
						if id, ok := l.(*ast.Ident); ok && id.Name != "_" {
							fromCallee[id.Name] = true
						}
					}
				}
			}
		}
		return true
	})
	// polarity of `cond` w.r.t. "callee failed": +1 cond means failure, -1 cond means success, 0 unrelated
	var pol func(e ast.Expr) int
	pol = func(e ast.Expr) int {
		switch e := e.(type) {
		case *ast.ParenExpr:
			return pol(e.X)
		case *ast.UnaryExpr:
			if e.Op == token.NOT {
				return -pol(e.X)
			}
		case *ast.BinaryExpr:
			if e.Op == token.NEQ || e.Op == token.EQL {
				var id *ast.Ident
				var other ast.Expr
				if i, ok := e.X.(*ast.Ident); ok {
					id, other = i, e.Y
				} else if i, ok := e.Y.(*ast.Ident); ok {
					id, other = i, e.X
				}
				if id != nil && fromCallee[id.Name] {
					if o, ok := other.(*ast.Ident); ok && o.Name == "nil" {
						if e.Op == token.NEQ {
							return 1
						}
						return -1
					}
				}
			}
		}
		return 0
	}
	for _, c := range chain {
		if c.cond == nil {
			continue
		}
		p := pol(c.cond)
		switch c.kind {
		case "if":
			if p == -1 {
				return true
			}
		case "else", "unless":
			if p == 1 {
				return true
			}
		}
	}
	return false
}

func init() {
	register("C15", func(x *X) error {
		const bp = "pkg/bpv7"
		const rt = "pkg/routing"

		// F1 constants
		for _, c := range [][2]string{
			{"fIsFragment", "IsFragment"}, {"fAdmin", "AdministrativeRecordPayload"},
			{"fReqTime", "RequestStatusTime"}, {"fReqReception", "StatusRequestReception"},
			{"fReqForward", "StatusRequestForward"}, {"fReqDelivery", "StatusRequestDelivery"},
			{"fReqDeletion", "StatusRequestDeletion"},
			{"bfReport", "StatusReportBlock"}, {"bfDelete", "DeleteBundle"}, {"bfRemove", "RemoveBlock"},
			{"posReceived", "ReceivedBundle"}, {"posForwarded", "ForwardedBundle"},
			{"posDelivered", "DeliveredBundle"}, {"posDeleted", "DeletedBundle"},
			{"maxPos", "maxStatusInformationPos"},
			{"rNoInformation", "NoInformation"}, {"rLifetimeExpired", "LifetimeExpired"},
			{"rHopLimitExceeded", "HopLimitExceeded"}, {"rBlockUnsupported", "BlockUnsupported"},
			{"adminRecordTypeStatusReport", "AdminRecordTypeStatusReport"},
		} {
			x.Nat(c[0], x.MustConst(bp, c[1]))
		}

		// F3 skeletons
		for _, f := range []struct{ name, dir, recv, fn string }{
			{"sendStatusReport", rt, "Core", "SendStatusReport"},
			{"hasEndpoint", rt, "Core", "HasEndpoint"},
			{"bundleDeletion", rt, "Core", "bundleDeletion"},
			{"localDelivery", rt, "Core", "localDelivery"},
			{"checkPendingBundles", rt, "Core", "checkPendingBundles"},
			{"descriptorBundle", rt, "BundleDescriptor", "Bundle"},
			{"newBundleItem", "pkg/storage", "", "newBundleItem"},
			{"agentHasEndpoint", rt, "AgentManager", "HasEndpoint"},
			{"claHasEndpoint", "pkg/cla", "Manager", "HasEndpoint"},
			{"newStatusReport", bp, "", "NewStatusReport"},
			{"bundleId", bp, "Bundle", "ID"},
			{"statusItemMarshal", bp, "BundleStatusItem", "MarshalCbor"},
			{"statusReportMarshal", bp, "StatusReport", "MarshalCbor"},
			{"bundleIdMarshal", bp, "BundleID", "MarshalCbor"},
			{"bundleIdLen", bp, "BundleID", "Len"},
			{"flagsHas", bp, "BundleControlFlags", "Has"},
			{"blockFlagsHas", bp, "BlockControlFlags", "Has"},
		} {
			fd, err := x.Func(f.dir, f.recv, f.fn)
			if err != nil {
				return err
			}
			x.StrList(f.name, x.Skeleton(fd))
		}

		// SendStatusReport: guards (top-level early exits, in order), the builder chain, the lifetime
		ssr, err := x.Func(rt, "Core", "SendStatusReport")
		if err != nil {
			return err
		}
		var guards []string
		for _, s := range ssr.Body.List {
			if is, ok := s.(*ast.IfStmt); ok && is.Else == nil && terminates(is.Body) {
				guards = append(guards, oneLine(x.Src(is.Cond)))
			}
		}
		x.StrList("ssrGuards", guards)
		var chain []string
		ast.Inspect(ssr.Body, func(n ast.Node) bool {
			ce, ok := n.(*ast.CallExpr)
			if !ok || chain != nil {
				return true
			}
			if sel, ok := ce.Fun.(*ast.SelectorExpr); ok && sel.Sel.Name == "Build" {
				chain = x.builderChain(ce)
				return false
			}
			return true
		})
		x.StrList("ssrBuilder", chain)
		var lifetimeMs uint64
		for _, c := range chain {
			if strings.HasPrefix(c, "Lifetime(") {
				arg := strings.TrimSuffix(strings.TrimPrefix(c, "Lifetime("), ")")
				if s, err := strconv.Unquote(arg); err == nil {
					if d, err := time.ParseDuration(s); err == nil {
						lifetimeMs = uint64(d.Milliseconds())
					} else {
						x.Failf("SendStatusReport: lifetime %q does not parse", s)
					}
				} else if v, err := strconv.ParseUint(arg, 0, 64); err == nil {
					lifetimeMs = v
				} else {
					x.Failf("SendStatusReport: lifetime argument %s not understood", arg)
				}
			}
		}
		x.Nat("reportLifetimeMs", lifetimeMs)
		var nsrArgs []string
		for _, s := range x.Sites(ssr, x.callWanted("NewStatusReport")) {
			nsrArgs = append(nsrArgs, s.String())
		}
		x.StrList("ssrNewStatusReport", nsrArgs)

		// call sites in pkg/routing
		fds, err := x.allFuncs(rt)
		if err != nil {
			return err
		}
		var reportSites, deletionSites, sentSites, deliverySite []string
		deliveryConditioned := false
		deliveryFlagGuarded := false
		deliveryCall := ""
		deliverySites := 0
		for _, fd := range fds {
			for _, s := range x.Sites(fd, x.callWanted("SendStatusReport")) {
				if fd.Name.Name == "localDelivery" {
					// kept apart from the other sites: the repair of D16 changes the conditions this
					// call sits under; what must not change is pinned by the three facts below
					deliverySites++
					deliverySite = append(deliverySite, s.String())
					deliveryCall = s.what
					deliveryConditioned = successConditioned(fd, s.chain, "Deliver")
					for _, c := range s.chain {
						if (c.kind == "if") && c.init == nil &&
							oneLine(x.Src(c.cond)) == "bp.MustBundle().PrimaryBlock.BundleControlFlags.Has(bpv7.StatusRequestDelivery)" {
							deliveryFlagGuarded = true
						}
					}
					continue
				}
				reportSites = append(reportSites, s.String())
			}
			for _, s := range x.Sites(fd, x.callWanted("bundleDeletion")) {
				deletionSites = append(deletionSites, s.String())
			}
			if fd.Name.Name == "forward" {
				for _, s := range x.Sites(fd, func(n ast.Node) (string, bool) {
					as, ok := n.(*ast.AssignStmt)
					if !ok || len(as.Lhs) != 1 {
						return "", false
					}
					if id, ok := as.Lhs[0].(*ast.Ident); ok && id.Name == "bundleSent" {
						return oneLine(x.Src(as)), true
					}
					return "", false
				}) {
					sentSites = append(sentSites, s.String())
				}
			}
		}
		x.StrList("reportSites", reportSites)
		x.StrList("deliveryReportSite", deliverySite)
		x.Str("deliveryReportCall", deliveryCall)
		x.Bool("deliveryReportFlagGuarded", deliveryFlagGuarded)
		x.StrList("deletionSites", deletionSites)
		x.StrList("bundleSentSites", sentSites)
		if deliverySites != 1 {
			x.Failf("localDelivery: expected exactly one SendStatusReport call, found %d", deliverySites)
		}
		x.Bool("reportOnlyOnSuccess", deliveryConditioned && deliverySites == 1)
		return nil
	})
}
