package main

import (
	"go/ast"
	"go/token"
	"os"
	"path/filepath"
	"regexp"
	"strconv"
	"strings"
)

// C18 — spray-and-wait copy budget. Facts read from pkg/routing/algorithm_spray.go,
// pkg/routing/processing.go, pkg/bpv7 and the sample configuration:
//
//   - the order in which ReportFailure / SenderForBundle take dataMutex and touch bundleData
//     (the micro-step program of Dtn7.Spray.rfProgram),
//   - the skeletons of both ReportFailure methods (guard "peer is in sent" around the give-back),
//   - the `< 2` guards and the `/ 2` split of SenderForBundle,
//   - the copies NotifyNewBundle starts with, where the multiplicity comes from,
//   - the part of Core.forward that decides between direct delivery and the algorithm and reports
//     failures.
func init() {
	register("C18", func(x *X) error {
		const dir = "pkg/routing"
		for _, recv := range []string{"SprayAndWait", "BinarySpray"} {
			rf, err := x.Func(dir, recv, "ReportFailure")
			if err != nil {
				return err
			}
			x.StrList("reportFailureOps"+recv, c18LockOps(x, rf))
			x.StrList("reportFailureSkeleton"+recv, c18DropHooks(x.Skeleton(rf)))

			sfb, err := x.Func(dir, recv, "SenderForBundle")
			if err != nil {
				return err
			}
			x.StrList("senderForBundleOps"+recv, c18LockOps(x, sfb))
			// the whole control skeleton: `< 2` guards, skip of peers in sent, bookkeeping, `/ 2` split
			x.StrList("senderForBundleSkeleton"+recv, c18DropHooks(x.Skeleton(sfb)))

			nb, err := x.Func(dir, recv, "NotifyNewBundle")
			if err != nil {
				return err
			}
			x.StrList("notifyOps"+recv, c18LockOps(x, nb))
			x.StrList("notifyCopies"+recv, c18FieldValues(x, nb, "remainingCopies"))
			x.StrList("notifyConditions"+recv, c18IfConds(x, nb))

			gc, err := x.Func(dir, recv, "GarbageCollect")
			if err != nil {
				return err
			}
			x.StrList("garbageCollectCalls"+recv, x.Calls(gc))

			ctor, err := x.Func(dir, "", "New"+recv)
			if err != nil {
				return err
			}
			x.StrList("multiplicitySource"+recv, c18FieldValues(x, ctor, "l"))
		}

		fw, err := x.Func(dir, "Core", "forward")
		if err != nil {
			return err
		}
		x.StrList("forwardSenders", c18Grep(x.Skeleton(fw),
			"senderForDestination", "nodes == nil", "SenderForBundle", "node.Send(", "ReportFailure", "deleteAfterwards"))
		// Core.receive: the known-bundle test (with the statement that follows it) and the notification, in source order
		rc, err := x.Func(dir, "Core", "receive")
		if err != nil {
			return err
		}
		var recvOrder []string
		rsk := x.Skeleton(rc)
		for i, l := range rsk {
			if strings.Contains(l, "len(bp.Constraints)") {
				recvOrder = append(recvOrder, l)
				if i+1 < len(rsk) {
					recvOrder = append(recvOrder, rsk[i+1])
				}
			} else if strings.Contains(l, "NotifyNewBundle") {
				recvOrder = append(recvOrder, l)
			}
		}
		x.StrList("receiveOrder", recvOrder)

		cp, err := x.Func(dir, "Core", "checkPendingBundles")
		if err != nil {
			return err
		}
		x.StrList("checkPendingCalls", x.Calls(cp))

		x.Nat("binarySprayBlockType", x.MustConst("pkg/bpv7", "ExtBlockTypeBinarySprayBlock"))

		// SprayConfig.Multiplicity has no default in the code (zero value); the sample configuration
		// shows this value:
		sample := uint64(0)
		if data, err := os.ReadFile(filepath.Join(x.repo, "cmd/dtnd/configuration.toml")); err == nil {
			if m := regexp.MustCompile(`(?m)^#?\s*multiplicity\s*=\s*(\d+)`).FindSubmatch(data); m != nil {
				sample, _ = strconv.ParseUint(string(m[1]), 10, 64)
			}
		} else {
			x.Failf("%v", err)
		}
		x.Nat("sampleMultiplicity", sample)
		x.Bool("multiplicityHasCodeDefault", c18HasDefault(x, dir))
		return nil
	})
}

// c18LockOps lists, in source order, the operations on the receiver's dataMutex and bundleData in a
// method body: lock / unlock / rlock / runlock, read (bundleData[..] on a right-hand side), write
// (bundleData[..] = ..). A deferred unlock is moved to the end (it runs when the method returns).
func c18LockOps(x *X, fd *ast.FuncDecl) []string {
	var ops []string
	var deferred []string
	isData := func(e ast.Expr) bool {
		ix, ok := e.(*ast.IndexExpr)
		if !ok {
			return false
		}
		sel, ok := ix.X.(*ast.SelectorExpr)
		return ok && sel.Sel.Name == "bundleData"
	}
	mutexOp := func(ce *ast.CallExpr) string {
		name := exprName(ce.Fun)
		for suffix, op := range map[string]string{".dataMutex.Lock": "lock", ".dataMutex.Unlock": "unlock",
			".dataMutex.RLock": "rlock", ".dataMutex.RUnlock": "runlock"} {
			if strings.HasSuffix(name, suffix) {
				return op
			}
		}
		return ""
	}
	ast.Inspect(fd.Body, func(n ast.Node) bool {
		switch n := n.(type) {
		case *ast.DeferStmt:
			if op := mutexOp(n.Call); op != "" {
				deferred = append(deferred, op)
				return false
			}
		case *ast.CallExpr:
			if op := mutexOp(n); op != "" {
				ops = append(ops, op)
			}
		case *ast.AssignStmt:
			for _, r := range n.Rhs {
				if isData(r) {
					ops = append(ops, "read")
				}
			}
			for _, l := range n.Lhs {
				if isData(l) {
					ops = append(ops, "write")
				}
			}
		}
		return true
	})
	for i := len(deferred) - 1; i >= 0; i-- {
		ops = append(ops, deferred[i])
	}
	return ops
}

func c18DropHooks(lines []string) []string {
	var out []string
	for _, l := range lines {
		if strings.HasPrefix(strings.TrimSpace(l), "verifPoint(") {
			continue
		}
		out = append(out, l)
	}
	return out
}

func c18Grep(lines []string, subs ...string) []string {
	var out []string
	for _, l := range lines {
		for _, s := range subs {
			if strings.Contains(l, s) {
				out = append(out, l)
				break
			}
		}
	}
	return out
}

// c18FieldValues lists the values given to a field in the composite literals of a function body.
func c18FieldValues(x *X, fd *ast.FuncDecl, field string) []string {
	var out []string
	ast.Inspect(fd.Body, func(n ast.Node) bool {
		kv, ok := n.(*ast.KeyValueExpr)
		if !ok {
			return true
		}
		if id, ok := kv.Key.(*ast.Ident); ok && id.Name == field {
			out = append(out, x.Src(kv.Value))
		}
		return true
	})
	return out
}

// c18IfConds lists the conditions of the top-level if statements of a function body.
func c18IfConds(x *X, fd *ast.FuncDecl) []string {
	var out []string
	for _, st := range fd.Body.List {
		// the conditions of an if / else-if chain, in order
		for is, ok := st.(*ast.IfStmt); ok && is != nil; {
			c := x.Src(is.Cond)
			if is.Init != nil {
				c = x.Src(is.Init) + "; " + c
			}
			out = append(out, strings.Join(strings.Fields(c), " "))
			next, isIf := is.Else.(*ast.IfStmt)
			if !isIf {
				break
			}
			is = next
		}
	}
	return out
}

// c18HasDefault reports whether any function of the package assigns to a Multiplicity field
// (a default for SprayConfig would look like that).
func c18HasDefault(x *X, dir string) bool {
	p, err := x.Pkg(dir)
	if err != nil {
		x.Failf("%v", err)
		return false
	}
	found := false
	for _, f := range p {
		ast.Inspect(f, func(n ast.Node) bool {
			switch n := n.(type) {
			case *ast.AssignStmt:
				if n.Tok == token.ASSIGN || n.Tok == token.DEFINE {
					for _, l := range n.Lhs {
						if sel, ok := l.(*ast.SelectorExpr); ok && sel.Sel.Name == "Multiplicity" {
							found = true
						}
					}
				}
			case *ast.KeyValueExpr:
				if id, ok := n.Key.(*ast.Ident); ok && id.Name == "Multiplicity" {
					found = true
				}
			}
			return true
		})
	}
	return found
}
