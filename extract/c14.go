package main

import (
	"go/ast"
	"go/constant"
	"go/token"
	"sort"
	"strings"
)

// Facts for C14 (originated bundles get distinct IDs):
//   - the order of "assign the sequence number" and "create the descriptor (store key, stored bytes)"
//     in Core.SendBundle, and that transmit() is entered from SendBundle only;
//   - the lock bracket of IdKeeper.update and that it writes the counter into the bundle;
//   - the retention constant of IdKeeper.clean together with the unit of DtnTime;
//   - small skeletons of the functions whose shape the model copies.
func init() {
	register("C14", func(x *X) error {
		const routingDir = "pkg/routing"
		const bpv7Dir = "pkg/bpv7"
		const storageDir = "pkg/storage"

		// ---- SendBundle / transmit
		sb, err := x.Func(routingDir, "Core", "SendBundle")
		if err != nil {
			return err
		}
		calls := x.Calls(sb)
		x.StrList("sendBundleCalls", calls)
		updName := "idKeeper.updateUnless"
		if CallIndex(calls, updName) < 0 {
			updName = "idKeeper.update"
		}
		x.Str("sendBundleUpdateCall", updName)
		upd := CallIndex(calls, updName)
		desc := CallIndex(calls, "NewBundleDescriptorFromBundle")
		sign := CallIndex(calls, "sendBundleAttachSignature")
		x.Int("sendBundleUpdateIdx", int64(upd))
		x.Int("sendBundleDescriptorIdx", int64(desc))
		x.Int("sendBundleSignIdx", int64(sign))
		// the update must be an unconditional top-level statement whose argument is SendBundle's parameter
		x.Bool("sendBundleUpdateUnconditional", c14TopLevelCall(sb, updName) >= 0)
		x.Int("sendBundleUpdateStmt", int64(c14TopLevelCall(sb, updName)))
		// the first statement of SendBundle, verbatim: which "taken" predicate the IdKeeper is given
		sbSk := x.Skeleton(sb)
		first := ""
		if len(sbSk) > 0 {
			first = sbSk[0]
		}
		x.Str("sendBundleFirstStmt", first)
		x.Int("sendBundleDescriptorStmt", int64(c14TopLevelCall(sb, "NewBundleDescriptorFromBundle")))
		x.Int("sendBundleTransmitStmt", int64(c14TopLevelCall(sb, "c.transmit")))

		tr, err := x.Func(routingDir, "Core", "transmit")
		if err != nil {
			return err
		}
		x.StrList("transmitCalls", x.Calls(tr))
		x.Bool("transmitCallsUpdate", x.HasCall(tr, "idKeeper.update") || x.HasCall(tr, "idKeeper.updateUnless"))

		// every function of pkg/routing that calls transmit / idKeeper.update
		x.StrList("transmitCallers", c14Callers(x, routingDir, ".transmit"))
		x.StrList("updateCallers", append(c14Callers(x, routingDir, "idKeeper.update"), c14Callers(x, routingDir, "idKeeper.updateUnless")...))
		x.StrList("updateUnlessCallers", c14Callers(x, routingDir, ".updateUnless"))

		// From here on nothing returns early: a function that no longer exists is recorded as an
		// extraction failure (`gen_no_extraction_failure` breaks) and its facts get empty values, so
		// that every name the Lean side mentions stays defined.
		skel := func(name, dir, recv, fn string) {
			if fd, err := x.Func(dir, recv, fn); err == nil {
				x.StrList(name, x.Skeleton(fd))
			} else {
				x.Failf("%v", err)
				x.StrList(name, nil)
			}
		}

		// ---- IdKeeper.update (a wrapper) and IdKeeper.updateUnless (the body)
		skel("updateWrapperSkeleton", routingDir, "IdKeeper", "update")
		up, err := x.Func(routingDir, "IdKeeper", "updateUnless")
		if err != nil {
			x.Failf("%v", err)
			up = &ast.FuncDecl{Body: &ast.BlockStmt{}}
		}
		x.StrList("updateSkeleton", x.Skeleton(up))
		lockIdx, unlockIdx, firstAcc, lastAcc := -1, -1, -1, -1
		writesSeq := false
		for i, st := range up.Body.List {
			src := strings.Join(strings.Fields(x.Src(st)), " ")
			switch {
			case src == "idk.mutex.Lock()" && lockIdx < 0:
				lockIdx = i
			case src == "idk.mutex.Unlock()":
				unlockIdx = i
			}
			if strings.Contains(src, "idk.data") || strings.Contains(src, "idk.used") || strings.Contains(src, "bndl.PrimaryBlock") && !strings.HasPrefix(src, "var tpl") {
				if firstAcc < 0 {
					firstAcc = i
				}
				lastAcc = i
			}
			if as, ok := st.(*ast.AssignStmt); ok && len(as.Lhs) == 1 && len(as.Rhs) == 1 {
				l := strings.Join(strings.Fields(x.Src(as.Lhs[0])), "")
				r := strings.Join(strings.Fields(x.Src(as.Rhs[0])), "")
				if l == "bndl.PrimaryBlock.CreationTimestamp[1]" && r == "idk.data[tpl]" {
					writesSeq = true
				}
			}
		}
		x.Int("updateLockStmt", int64(lockIdx))
		x.Int("updateUnlockStmt", int64(unlockIdx))
		x.Int("updateFirstAccessStmt", int64(firstAcc))
		x.Int("updateLastAccessStmt", int64(lastAcc))
		// no `defer`/`go`/early return may sit between Lock and Unlock: the skeleton fact covers that
		x.Bool("updateLocked", lockIdx >= 0 && unlockIdx > lockIdx && firstAcc > lockIdx && lastAcc < unlockIdx && firstAcc >= 0)
		x.Bool("updateWritesSeq", writesSeq)

		skel("newIdKeeperSkeleton", routingDir, "", "NewIdKeeper")
		skel("newIdTupleSkeleton", routingDir, "", "newIdTuple")

		// ---- IdKeeper.clean: skeleton and `threshold = DtnTimeNow() - <constant>`
		cl, err := x.Func(routingDir, "IdKeeper", "clean")
		if err != nil {
			x.Failf("%v", err)
			cl = &ast.FuncDecl{Body: &ast.BlockStmt{}}
		}
		x.StrList("cleanSkeleton", x.Skeleton(cl))
		window := uint64(0)
		found := false
		ast.Inspect(cl.Body, func(n ast.Node) bool {
			vs, ok := n.(*ast.ValueSpec)
			if !ok || len(vs.Names) != 1 || vs.Names[0].Name != "threshold" || len(vs.Values) != 1 {
				return true
			}
			be, ok := vs.Values[0].(*ast.BinaryExpr)
			if !ok || be.Op != token.SUB || exprName(be.X) != "bpv7.DtnTimeNow()" {
				return true
			}
			if v := evalConst(be.Y, map[string]constant.Value{}, 0); v != nil {
				if u, exact := constant.Uint64Val(constant.ToInt(v)); exact {
					window, found = u, true
				}
			}
			return true
		})
		if !found {
			x.Failf("IdKeeper.clean: `var threshold = bpv7.DtnTimeNow() - <constant>` not found")
		}
		x.Nat("cleanWindow", window)
		// what is compared with the threshold: the time of the tuple's last use (map `used`, written by update inside
		// its critical section) or the tuple's creation time
		byUse, usedWritten := false, false
		for _, l := range x.Skeleton(cl) {
			if strings.TrimSpace(l) == "if used < threshold && tpl.time != bpv7.DtnTimeEpoch" {
				byUse = true
			}
		}
		for _, l := range x.Skeleton(up) {
			if strings.TrimSpace(l) == "idk.used[tpl] = bpv7.DtnTimeNow()" {
				usedWritten = true
			}
		}
		x.Bool("cleanJudgesByUse", byUse && usedWritten)
		// unit of DtnTime: DtnTimeFromTime divides UnixNano by nanoToMilli
		x.Nat("nanoToMilli", x.MustConst(bpv7Dir, "nanoToMilli"))
		skel("dtnTimeFromTimeSkeleton", bpv7Dir, "", "DtnTimeFromTime")

		// ---- descriptor creation, store push, retransmission
		skel("newDescriptorFromBundleSkeleton", routingDir, "", "NewBundleDescriptorFromBundle")
		if fd, err := x.Func(routingDir, "BundleDescriptor", "Sync"); err == nil {
			sk := x.Skeleton(fd)
			if len(sk) > 2 {
				sk = sk[:2]
			}
			x.StrList("syncHead", sk)
		} else {
			x.Failf("%v", err)
			x.StrList("syncHead", nil)
		}
		if fd, err := x.Func(storageDir, "Store", "Push"); err == nil {
			c := x.Calls(fd)
			x.StrList("pushCalls", c)
			// the final else branch (known, unfragmented) returns nil without touching the store
			sk := x.Skeleton(fd)
			tail := sk
			if len(tail) > 2 {
				tail = tail[len(tail)-2:]
			}
			x.StrList("pushTail", tail)
		} else {
			x.Failf("%v", err)
			x.StrList("pushCalls", nil)
			x.StrList("pushTail", nil)
		}
		if fd, err := x.Func(routingDir, "Core", "checkPendingBundles"); err == nil {
			x.StrList("checkPendingCalls", x.Calls(fd))
		} else {
			x.Failf("%v", err)
			x.StrList("checkPendingCalls", nil)
		}
		if fd, err := x.Func(routingDir, "AgentManager", "handleMessage"); err == nil {
			x.StrList("agentHandleMessageCalls", x.Calls(fd))
		} else {
			x.Failf("%v", err)
			x.StrList("agentHandleMessageCalls", nil)
		}
		return nil
	})
}

// c14TopLevelCall returns the index of the top-level statement of fd's body that is (or assigns the
// result of) a call whose name ends in suffix, -1 if there is none or it is nested in a branch.
func c14TopLevelCall(fd *ast.FuncDecl, suffix string) int {
	for i, st := range fd.Body.List {
		var e ast.Expr
		switch s := st.(type) {
		case *ast.ExprStmt:
			e = s.X
		case *ast.AssignStmt:
			if len(s.Rhs) == 1 {
				e = s.Rhs[0]
			}
		}
		if ce, ok := e.(*ast.CallExpr); ok && strings.HasSuffix(exprName(ce.Fun), suffix) {
			return i
		}
	}
	return -1
}

// c14Callers lists the functions of a package whose body contains a call with the given name suffix.
func c14Callers(x *X, dir, suffix string) []string {
	p, err := x.Pkg(dir)
	if err != nil {
		x.Failf("%v", err)
		return nil
	}
	var out []string
	for _, fn := range sortedFiles(p) {
		for _, d := range p[fn].Decls {
			fd, ok := d.(*ast.FuncDecl)
			if !ok || fd.Body == nil {
				continue
			}
			if x.HasCall(fd, suffix) {
				out = append(out, fd.Name.Name)
			}
		}
	}
	sort.Strings(out)
	return out
}
