package main

// C04 — allocation-site table.
//
// For every decoder file anchored by the property (plus the sibling TCPCLv4 message files that
// msgs.ReadMessage dispatches to, and cboring's strings.go from the module cache) this pass lists every
// allocation, slicing, bulk read or count-driven loop whose size could come from the wire:
//
//	make(T, n) / make(T, n, m) / make(map…, n)        kinds make, makecap, makemap, makechan
//	x[a:b] with a non-constant bound                    kind slice
//	io.ReadFull(r, buf)                                 kind readfull (size = the buffer's make size)
//	b.Grow(n), io.CopyN(dst, src, n)                    kinds grow, copyn
//	for …; i < n; … with n neither constant nor len()   kind loop
//	cboring.ReadRawBytes(n, r)                          kind readraw
//	cboring.ReadByteString(r) / ReadTextString(r)       kind readstring (length read inside the library)
//	for { … } whose body reads from the wire            kind loopbreak
//	xz.NewReader(r)                                     kind xzreader (dictionary sized by the stream header)
//	f(…, n, …) with n a decoded number                  kind call (the callee may allocate by it elsewhere)
//
// each with the provenance of its size expression (const | lenMem | wire | param | local), the declared
// type of the size variable, every textually dominating guard on that variable (enclosing if / else
// branches, preceding early returns and clamps), the numeric upper/lower bound those guards imply, and —
// for loops — whether the body reads from the wire and leaves on error (append-while-reading).
//
// Provenance is deliberately simple and local to one function: a variable is "wire" when it is assigned
// from one of cboring's numeric readers, filled by binary.Read, or computed from such a variable.

import (
	"fmt"
	"go/ast"
	"go/constant"
	"go/parser"
	"go/token"
	"math"
	"os"
	"path/filepath"
	"regexp"
	"sort"
	"strings"
)

var c04Files = []string{
	// anchors.files of property C04
	"pkg/bpv7/bundle.go",
	"pkg/bpv7/canonical_block.go",
	"pkg/bpv7/primary_block.go",
	"pkg/bpv7/extension_block.go",
	"pkg/bpv7/extension_block_dtlsr.go",
	"pkg/bpv7/extension_block_prophet.go",
	"pkg/bpv7/extension_block_signature.go",
	"pkg/bpv7/administrative_record.go",
	"pkg/bpv7/administrative_record_status_report.go",
	"pkg/bpv7/bundle_builder.go",
	"pkg/bpv7/endpoint.go",
	"pkg/bpv7/endpoint_dtn.go",
	"pkg/cla/tcpclv4/internal/msgs/message.go",
	"pkg/cla/tcpclv4/internal/msgs/xfer_segment.go",
	"pkg/cla/tcpclv4/internal/msgs/sess_init.go",
	"pkg/cla/tcpclv4/internal/msgs/contact_header.go",
	"pkg/cla/tcpclv4/internal/utils/transfer_out.go",
	"pkg/cla/tcpclv4/internal/utils/transfer_in.go",
	"pkg/cla/tcpclv4/internal/utils/message_switch_readerwriter.go",
	"pkg/cla/tcpclv4/internal/stages/sess_init.go",
	"pkg/cla/mtcp/server.go",
	"pkg/cla/bbc/transmission_fragment.go",
	"pkg/cla/bbc/transmission.go",
	"pkg/cla/bbc/connector.go",
	"pkg/discovery/announcement.go",
	"pkg/discovery/manager.go",
	"pkg/agent/ws_agent_msg.go",
	"pkg/agent/ws_agent_msg_impl.go",
	"pkg/agent/rest_agent.go",
	// not anchored, but reached through msgs.ReadMessage / the bundle decoder
	"pkg/cla/tcpclv4/internal/utils/transfer_manager.go",
	"pkg/cla/tcpclv4/internal/msgs/keepalive.go",
	"pkg/cla/tcpclv4/internal/msgs/reject.go",
	"pkg/cla/tcpclv4/internal/msgs/sess_term.go",
	"pkg/cla/tcpclv4/internal/msgs/xfer_ack.go",
	"pkg/cla/tcpclv4/internal/msgs/xfer_refuse.go",
	"pkg/bpv7/endpoint_ipn.go",
	"pkg/bpv7/bundle_id.go",
	"pkg/bpv7/time.go",
	"pkg/bpv7/extension_block_payload.go",
	"pkg/bpv7/extension_block_previous_node.go",
	"pkg/bpv7/extension_block_bundle_age.go",
	"pkg/bpv7/extension_block_hop_count.go",
	"pkg/bpv7/extension_block_generic.go",
}

// numeric readers of cboring: their non-error results are values taken from the wire
var c04WireReaders = map[string]bool{
	"cboring.ReadUInt": true, "cboring.ReadArrayLength": true, "cboring.ReadMapPairLength": true,
	"cboring.ReadByteStringLen": true, "cboring.ReadTextStringLen": true, "cboring.ReadMajors": true,
	"cboring.ReadExpectMajors": true, "cboring.ReadFloat64": true, "cboring.ReadFloat32": true,
	"ReadMajors": true, "ReadExpectMajors": true, "ReadByteStringLen": true, "ReadTextStringLen": true,
	"ReadUInt": true, "ReadArrayLength": true, "ReadMapPairLength": true,
}

// calls after which an iteration has consumed input or left the loop
var c04ReadCall = regexp.MustCompile(`^(cboring\.(Unmarshal|Read\w*)|binary\.Read|io\.ReadFull|io\.CopyN|msgs\.ReadMessage|.*\.modem\.Receive|.*\.NextSegment)$`)

type c04Site struct {
	file, fn, kind, size, elem, prov, typ, guard string
	bound                                        *uint64
	lower                                        uint64
	reads                                        bool
	pos                                          token.Pos
}

type c04Guard struct {
	cond   ast.Expr
	holds  bool   // the site is reached only if cond is true (enclosing then-branch) / false
	action string // "then" | "else" | "return" | clamp text
}

type c04Fn struct {
	x       *X
	dir     string
	file    string
	name    string
	params  map[string]string
	locals  map[string]string
	wire    map[string]bool
	makes   map[string]*c04Site // buffer variable -> its make site
	consts  map[string]constant.Value
	imports map[string]string // local import name -> repo dir
	sites   *[]c04Site
}

func init() {
	register("C04", func(x *X) error {
		var sites []c04Site
		for _, f := range c04Files {
			if _, err := os.Stat(filepath.Join(x.repo, f)); err != nil {
				x.Failf("anchored file missing: %s", f)
				continue
			}
			if err := c04ScanFile(x, filepath.Dir(f), filepath.Join(x.repo, f), f, &sites); err != nil {
				return err
			}
		}
		// cboring's string reader (the library guard the property names)
		if p, ver, err := c04Cboring(x.repo); err != nil {
			x.Failf("%v", err)
		} else {
			x.Str("cboringVersion", ver)
			if err := c04ScanFile(x, "", filepath.Join(p, "strings.go"), "cboring:strings.go", &sites); err != nil {
				return err
			}
		}
		sort.SliceStable(sites, func(i, j int) bool {
			if sites[i].file != sites[j].file {
				return sites[i].file < sites[j].file
			}
			return sites[i].pos < sites[j].pos
		})

		x.Raw("inductive Prov where\n  | const | lenMem | wire | param | loc\nderiving DecidableEq, Repr\n")
		x.Raw("structure Site where\n  file : String\n  fn : String\n  kind : String\n  size : String\n  elem : String\n  prov : Prov\n  typ : String\n  guard : String\n  bound : Option Nat\n  lower : Nat\n  reads : Bool\nderiving DecidableEq, Repr\n")
		var b strings.Builder
		b.WriteString("def allocSites : List Site := [")
		for i, s := range sites {
			if i > 0 {
				b.WriteString(",")
			}
			bound := "none"
			if s.bound != nil {
				bound = fmt.Sprintf("some %d", *s.bound)
			}
			fmt.Fprintf(&b, "\n  ⟨%s, %s, %s, %s, %s, .%s, %s, %s, %s, %d, %v⟩",
				leanStr(s.file), leanStr(s.fn), leanStr(s.kind), leanStr(s.size), leanStr(s.elem), s.prov,
				leanStr(s.typ), leanStr(s.guard), bound, s.lower, s.reads)
		}
		b.WriteString("]")
		x.Raw(b.String())

		// constants and skeletons of the TCPCLv4 sender side (D11)
		const utilsDir = "pkg/cla/tcpclv4/internal/utils"
		const stagesDir = "pkg/cla/tcpclv4/internal/stages"
		x.Nat("maxSegmentMtu", x.MustConst(utilsDir, "MaxSegmentMtu"))
		if fd, err := x.Func(stagesDir, "SessInitStage", "Handle"); err == nil {
			x.StrList("sessInitHandle", x.Skeleton(fd))
		} else {
			return err
		}
		if fd, err := x.Func(utilsDir, "OutgoingTransfer", "NextSegment"); err == nil {
			sk := x.Skeleton(fd)
			if len(sk) > 6 {
				sk = sk[:6] // the MTU checks precede everything else
			}
			x.StrList("nextSegmentHead", sk)
		} else {
			return err
		}
		return nil
	})
}

// c04Cboring locates the cboring module named in go.mod inside the module cache.
func c04Cboring(repo string) (dir, ver string, err error) {
	gm, err := os.ReadFile(filepath.Join(repo, "go.mod"))
	if err != nil {
		return "", "", err
	}
	m := regexp.MustCompile(`github\.com/dtn7/cboring\s+(v[\w.\-+]+)`).FindSubmatch(gm)
	if m == nil {
		return "", "", fmt.Errorf("go.mod does not require github.com/dtn7/cboring")
	}
	ver = string(m[1])
	var roots []string
	if c := os.Getenv("GOMODCACHE"); c != "" {
		roots = append(roots, c)
	}
	if g := os.Getenv("GOPATH"); g != "" {
		roots = append(roots, filepath.Join(g, "pkg", "mod"))
	}
	if h, e := os.UserHomeDir(); e == nil {
		roots = append(roots, filepath.Join(h, "go", "pkg", "mod"))
	}
	roots = append(roots, "/root/go/pkg/mod")
	for _, r := range roots {
		d := filepath.Join(r, "github.com", "dtn7", "cboring@"+ver)
		if _, e := os.Stat(filepath.Join(d, "strings.go")); e == nil {
			return d, ver, nil
		}
	}
	return "", ver, fmt.Errorf("cboring %s not found in the module cache", ver)
}

func c04ScanFile(x *X, dir, path, label string, sites *[]c04Site) error {
	f, err := parser.ParseFile(x.fset, path, nil, 0)
	if err != nil {
		return err
	}
	// package-level constants of the file's package (evaluated by the shared evaluator)
	consts := map[string]constant.Value{}
	for k, v := range c04MathConsts {
		consts[k] = v
	}
	var pkgFiles map[string]*ast.File
	if dir != "" {
		pkgFiles, _ = x.Pkg(dir)
	} else {
		pkgFiles = map[string]*ast.File{"f": f}
	}
	c04CollectConsts(pkgFiles, consts, "")
	imports := map[string]string{}
	for _, im := range f.Imports {
		p := strings.Trim(im.Path.Value, `"`)
		const mod = "github.com/dtn7/dtn7-go/"
		if strings.HasPrefix(p, mod) {
			d := strings.TrimPrefix(p, mod)
			name := filepath.Base(d)
			if im.Name != nil {
				name = im.Name.Name
			}
			imports[name] = d
			if other, err := x.Pkg(d); err == nil {
				c04CollectConsts(other, consts, name+".")
			}
		}
	}
	for _, d := range f.Decls {
		fd, ok := d.(*ast.FuncDecl)
		if !ok || fd.Body == nil {
			continue
		}
		name := fd.Name.Name
		if fd.Recv != nil && len(fd.Recv.List) == 1 {
			t := fd.Recv.List[0].Type
			if s, ok := t.(*ast.StarExpr); ok {
				t = s.X
			}
			if id, ok := t.(*ast.Ident); ok {
				name = id.Name + "." + name
			}
		}
		fn := &c04Fn{x: x, dir: dir, file: label, name: name, params: map[string]string{}, locals: map[string]string{},
			wire: map[string]bool{}, makes: map[string]*c04Site{}, consts: consts, imports: imports, sites: sites}
		if fd.Type.Params != nil {
			for _, p := range fd.Type.Params.List {
				for _, n := range p.Names {
					fn.params[n.Name] = x.Src(p.Type)
				}
			}
		}
		fn.collect(fd.Body)
		fn.block(fd.Body.List, nil)
	}
	return nil
}

var c04MathConsts = map[string]constant.Value{
	"math.MaxInt32":  constant.MakeInt64(math.MaxInt32),
	"math.MaxInt64":  constant.MakeInt64(math.MaxInt64),
	"math.MaxUint32": constant.MakeUint64(math.MaxUint32),
	"math.MaxUint16": constant.MakeUint64(math.MaxUint16),
	"math.MaxInt16":  constant.MakeInt64(math.MaxInt16),
	"math.MaxUint8":  constant.MakeUint64(math.MaxUint8),
}

func c04CollectConsts(files map[string]*ast.File, env map[string]constant.Value, prefix string) {
	local := map[string]constant.Value{}
	for pass := 0; pass < 3; pass++ {
		for _, fn := range sortedFiles(files) {
			for _, d := range files[fn].Decls {
				gd, ok := d.(*ast.GenDecl)
				if !ok || gd.Tok != token.CONST {
					continue
				}
				var last []ast.Expr
				for i, s := range gd.Specs {
					vs := s.(*ast.ValueSpec)
					exprs := vs.Values
					if len(exprs) == 0 {
						exprs = last
					} else {
						last = exprs
					}
					for j, n := range vs.Names {
						if j < len(exprs) {
							if v := evalConst(exprs[j], local, int64(i)); v != nil {
								local[n.Name] = v
							}
						}
					}
				}
			}
		}
	}
	for k, v := range local {
		env[prefix+k] = v
	}
}

// ---- provenance ----

func c04IsErrName(n string) bool {
	return n == "_" || n == "err" || strings.HasSuffix(n, "Err") || strings.HasSuffix(n, "err")
}

// collect determines the wire-derived variables and declared types of one function body.
func (fn *c04Fn) collect(body *ast.BlockStmt) {
	hasBinaryRead := false
	ast.Inspect(body, func(n ast.Node) bool {
		if ce, ok := n.(*ast.CallExpr); ok && exprName(ce.Fun) == "binary.Read" {
			hasBinaryRead = true
			if len(ce.Args) == 3 {
				if u, ok := ce.Args[2].(*ast.UnaryExpr); ok && u.Op == token.AND {
					fn.wire[fn.x.Src(u.X)] = true
				}
			}
		}
		return true
	})
	ast.Inspect(body, func(n ast.Node) bool {
		switch n := n.(type) {
		case *ast.DeclStmt:
			if gd, ok := n.Decl.(*ast.GenDecl); ok && gd.Tok == token.VAR {
				for _, s := range gd.Specs {
					vs := s.(*ast.ValueSpec)
					for _, nm := range vs.Names {
						if vs.Type != nil {
							fn.locals[nm.Name] = fn.x.Src(vs.Type)
						}
					}
				}
			}
		case *ast.CompositeLit:
			// []interface{}{&a, &b.c} in a function that feeds them to binary.Read
			if hasBinaryRead {
				for _, e := range n.Elts {
					if u, ok := e.(*ast.UnaryExpr); ok && u.Op == token.AND {
						fn.wire[fn.x.Src(u.X)] = true
					}
				}
			}
		case *ast.AssignStmt:
			if len(n.Rhs) == 1 {
				if ce, ok := n.Rhs[0].(*ast.CallExpr); ok && c04WireReaders[exprName(ce.Fun)] {
					for _, l := range n.Lhs {
						if id, ok := l.(*ast.Ident); ok && !c04IsErrName(id.Name) {
							fn.wire[id.Name] = true
						}
					}
				}
			}
		}
		return true
	})
	// propagate through plain assignments and conversions (fixpoint, small)
	for pass := 0; pass < 4; pass++ {
		ast.Inspect(body, func(n ast.Node) bool {
			as, ok := n.(*ast.AssignStmt)
			if !ok || len(as.Lhs) != len(as.Rhs) {
				return true
			}
			for i, r := range as.Rhs {
				if _, isCall := r.(*ast.CallExpr); isCall && !c04IsConversion(r) {
					continue
				}
				if fn.mentionsWire(r) {
					if id, ok := as.Lhs[i].(*ast.Ident); ok && !c04IsErrName(id.Name) {
						fn.wire[id.Name] = true
					}
				}
			}
			return true
		})
	}
}

var c04Builtins = map[string]bool{"len": true, "cap": true, "append": true, "copy": true, "make": true, "new": true,
	"panic": true, "print": true, "println": true, "delete": true, "close": true, "recover": true}

var c04ConvNames = map[string]bool{"int": true, "int8": true, "int16": true, "int32": true, "int64": true, "uint": true,
	"uint8": true, "uint16": true, "uint32": true, "uint64": true, "byte": true, "uintptr": true}

func c04IsConversion(e ast.Expr) bool {
	ce, ok := e.(*ast.CallExpr)
	if !ok || len(ce.Args) != 1 {
		return false
	}
	id, ok := ce.Fun.(*ast.Ident)
	return ok && c04ConvNames[id.Name]
}

// idents lists the variable-like operands of an expression: identifiers and selector texts, without
// conversion / builtin function names.
func (fn *c04Fn) idents(e ast.Expr) []string {
	var out []string
	var walk func(e ast.Expr)
	walk = func(e ast.Expr) {
		switch e := e.(type) {
		case *ast.Ident:
			out = append(out, e.Name)
		case *ast.SelectorExpr:
			out = append(out, fn.x.Src(e))
		case *ast.CallExpr:
			for _, a := range e.Args {
				walk(a)
			}
		case *ast.BinaryExpr:
			walk(e.X)
			walk(e.Y)
		case *ast.UnaryExpr:
			walk(e.X)
		case *ast.ParenExpr:
			walk(e.X)
		case *ast.IndexExpr:
			walk(e.X)
			walk(e.Index)
		case *ast.StarExpr:
			walk(e.X)
		}
	}
	walk(e)
	return out
}

func (fn *c04Fn) mentionsWire(e ast.Expr) bool {
	for _, id := range fn.idents(e) {
		if fn.wire[id] {
			return true
		}
	}
	return false
}

func (fn *c04Fn) eval(e ast.Expr) constant.Value {
	switch e := e.(type) {
	case *ast.SelectorExpr:
		if v, ok := fn.consts[fn.x.Src(e)]; ok {
			return v
		}
		return nil
	case *ast.BinaryExpr:
		a, b := fn.eval(e.X), fn.eval(e.Y)
		if a == nil || b == nil {
			return nil
		}
		switch e.Op {
		case token.SHL, token.SHR:
			s, ok := constant.Uint64Val(constant.ToInt(b))
			if !ok {
				return nil
			}
			return constant.Shift(constant.ToInt(a), e.Op, uint(s))
		case token.ADD, token.SUB, token.MUL:
			return constant.BinaryOp(a, e.Op, b)
		case token.QUO:
			return constant.BinaryOp(constant.ToInt(a), token.QUO_ASSIGN, constant.ToInt(b))
		}
		return nil
	case *ast.ParenExpr:
		return fn.eval(e.X)
	case *ast.CallExpr:
		if c04IsConversion(e) {
			return fn.eval(e.Args[0])
		}
		return nil
	}
	return evalConst(e, fn.consts, 0)
}

func c04OnlyLen(e ast.Expr, fn *c04Fn) bool {
	switch e := e.(type) {
	case *ast.CallExpr:
		if id, ok := e.Fun.(*ast.Ident); ok && (id.Name == "len" || id.Name == "cap") {
			return true
		}
		if c04IsConversion(e) {
			return c04OnlyLen(e.Args[0], fn)
		}
		return false
	case *ast.BinaryExpr:
		return (c04OnlyLen(e.X, fn) || fn.eval(e.X) != nil) && (c04OnlyLen(e.Y, fn) || fn.eval(e.Y) != nil)
	case *ast.ParenExpr:
		return c04OnlyLen(e.X, fn)
	}
	return false
}

// classify returns the provenance, the variables the guards are searched for, and the declared type.
func (fn *c04Fn) classify(e ast.Expr) (prov string, keys []string, typ string) {
	ids := fn.idents(e)
	for _, id := range ids {
		if fn.wire[id] {
			prov = "wire"
			keys = append(keys, id)
		}
	}
	if prov == "" {
		// len(x) of data in memory stays lenMem even when x is a parameter
		if fn.eval(e) != nil {
			return "const", nil, ""
		}
		if c04OnlyLen(e, fn) {
			return "lenMem", ids, ""
		}
		for _, id := range ids {
			if _, ok := fn.params[id]; ok {
				prov = "param"
				keys = append(keys, id)
			} else if i := strings.IndexByte(id, '.'); i > 0 {
				// a field of a parameter (e.g. a decoded message handed to its consumer)
				if _, ok := fn.params[id[:i]]; ok {
					prov = "param"
					keys = append(keys, id)
				}
			}
		}
	}
	if prov == "" {
		return "loc", ids, ""
	}
	for _, k := range keys {
		if t, ok := fn.locals[k]; ok {
			typ = t
		} else if t, ok := fn.params[k]; ok {
			typ = t
		}
	}
	return prov, keys, typ
}

// ---- guards ----

func c04Min(a *uint64, v uint64) *uint64 {
	if a == nil || v < *a {
		return &v
	}
	return a
}

// upper returns the upper bound for variable k implied by cond being `holds`.
func (fn *c04Fn) upper(cond ast.Expr, k string, holds bool) *uint64 {
	switch c := cond.(type) {
	case *ast.ParenExpr:
		return fn.upper(c.X, k, holds)
	case *ast.UnaryExpr:
		if c.Op == token.NOT {
			return fn.upper(c.X, k, !holds)
		}
	case *ast.BinaryExpr:
		switch c.Op {
		case token.LAND:
			if holds { // both hold
				a, b := fn.upper(c.X, k, true), fn.upper(c.Y, k, true)
				if a == nil {
					return b
				}
				if b != nil {
					return c04Min(a, *b)
				}
				return a
			}
			return nil
		case token.LOR:
			if !holds { // both fail
				a, b := fn.upper(c.X, k, false), fn.upper(c.Y, k, false)
				if a == nil {
					return b
				}
				if b != nil {
					return c04Min(a, *b)
				}
				return a
			}
			return nil
		}
		op, l, r := c.Op, c.X, c.Y
		// normalise to  k OP const
		if fn.x.Src(c04Strip(r)) == k && fn.eval(l) != nil {
			l, r = r, l
			switch op {
			case token.LSS:
				op = token.GTR
			case token.LEQ:
				op = token.GEQ
			case token.GTR:
				op = token.LSS
			case token.GEQ:
				op = token.LEQ
			}
		}
		if fn.x.Src(c04Strip(l)) != k {
			return nil
		}
		cv := fn.eval(r)
		if cv == nil {
			return nil
		}
		u, ok := constant.Uint64Val(constant.ToInt(cv))
		if !ok {
			return nil
		}
		if !holds { // negate the operator
			switch op {
			case token.GTR:
				op = token.LEQ
			case token.GEQ:
				op = token.LSS
			case token.NEQ:
				op = token.EQL
			case token.LSS:
				op = token.GEQ
			case token.LEQ:
				op = token.GTR
			case token.EQL:
				op = token.NEQ
			}
		}
		switch op {
		case token.LEQ, token.EQL:
			return &u
		case token.LSS:
			if u > 0 {
				v := u - 1
				return &v
			}
		}
	}
	return nil
}

// lower returns the lower bound (≥ 1) implied for k, 0 if none.
func (fn *c04Fn) lowerOf(cond ast.Expr, k string, holds bool) uint64 {
	switch c := cond.(type) {
	case *ast.ParenExpr:
		return fn.lowerOf(c.X, k, holds)
	case *ast.UnaryExpr:
		if c.Op == token.NOT {
			return fn.lowerOf(c.X, k, !holds)
		}
	case *ast.BinaryExpr:
		if (c.Op == token.LAND && holds) || (c.Op == token.LOR && !holds) {
			a, b := fn.lowerOf(c.X, k, holds), fn.lowerOf(c.Y, k, holds)
			if a > b {
				return a
			}
			return b
		}
		if fn.x.Src(c04Strip(c.X)) != k {
			// const <= k
			if fn.x.Src(c04Strip(c.Y)) == k && fn.eval(c.X) != nil && holds && (c.Op == token.LEQ || c.Op == token.LSS) {
				u, _ := constant.Uint64Val(constant.ToInt(fn.eval(c.X)))
				if c.Op == token.LSS {
					u++
				}
				return u
			}
			return 0
		}
		cv := fn.eval(c.Y)
		if cv == nil {
			return 0
		}
		u, _ := constant.Uint64Val(constant.ToInt(cv))
		switch {
		case c.Op == token.EQL && !holds && u == 0, c.Op == token.NEQ && holds && u == 0, c.Op == token.GTR && holds && u == 0:
			return 1
		case c.Op == token.GEQ && holds:
			return u
		case c.Op == token.LSS && !holds:
			return u
		}
	}
	return 0
}

func c04Strip(e ast.Expr) ast.Expr {
	for {
		switch v := e.(type) {
		case *ast.ParenExpr:
			e = v.X
		case *ast.CallExpr:
			if c04IsConversion(v) {
				e = v.Args[0]
			} else {
				return e
			}
		default:
			return e
		}
	}
}

func (fn *c04Fn) guardsFor(keys []string, ctx []c04Guard) (text string, bound *uint64, lower uint64) {
	var parts []string
	seen := map[string]bool{}
	for _, g := range ctx {
		ids := fn.idents(g.cond)
		hit := ""
		for _, k := range keys {
			for _, id := range ids {
				if id == k {
					hit = k
				}
			}
		}
		if hit == "" {
			continue
		}
		var t string
		switch g.action {
		case "then":
			t = fn.x.Src(g.cond)
		case "else":
			t = "!(" + fn.x.Src(g.cond) + ")"
		default:
			t = fn.x.Src(g.cond) + " => " + g.action
		}
		t = strings.Join(strings.Fields(t), " ")
		if seen[t] {
			continue
		}
		seen[t] = true
		parts = append(parts, t)
		for _, k := range keys {
			if u := fn.upper(g.cond, k, g.holds); u != nil {
				bound = c04Min(bound, *u)
			}
			if l := fn.lowerOf(g.cond, k, g.holds); l > lower {
				lower = l
			}
		}
	}
	return strings.Join(parts, "; "), bound, lower
}

// ---- walking ----

func c04Terminates(b *ast.BlockStmt) bool {
	if b == nil || len(b.List) == 0 {
		return false
	}
	switch s := b.List[len(b.List)-1].(type) {
	case *ast.ReturnStmt:
		return true
	case *ast.BranchStmt:
		return s.Tok == token.CONTINUE || s.Tok == token.BREAK || s.Tok == token.GOTO
	case *ast.ExprStmt:
		if ce, ok := s.X.(*ast.CallExpr); ok {
			n := exprName(ce.Fun)
			return n == "panic" || strings.HasSuffix(n, ".Fatal") || strings.HasSuffix(n, ".Fatalf")
		}
	}
	return false
}

// clampOf recognises  if v > C { v = C }  bodies: returns "v = C".
func (fn *c04Fn) clampOf(b *ast.BlockStmt) string {
	if b == nil || len(b.List) != 1 {
		return ""
	}
	as, ok := b.List[0].(*ast.AssignStmt)
	if !ok || as.Tok != token.ASSIGN || len(as.Lhs) != 1 || len(as.Rhs) != 1 || fn.eval(as.Rhs[0]) == nil {
		return ""
	}
	return fn.x.Src(as)
}

func (fn *c04Fn) block(stmts []ast.Stmt, ctx []c04Guard) {
	ctx = append([]c04Guard(nil), ctx...)
	for _, s := range stmts {
		fn.stmt(s, ctx)
		// guards established for the statements that follow
		if is, ok := s.(*ast.IfStmt); ok {
			for cur := is; cur != nil; {
				if c04Terminates(cur.Body) {
					ctx = append(ctx, c04Guard{cur.Cond, false, "return"})
				} else if cl := fn.clampOf(cur.Body); cl != "" {
					ctx = append(ctx, c04Guard{cur.Cond, false, cl})
				} else {
					break // a branch that falls through: later conditions of the chain are not dominating
				}
				next, _ := cur.Else.(*ast.IfStmt)
				cur = next
			}
		}
	}
}

func (fn *c04Fn) stmt(s ast.Stmt, ctx []c04Guard) {
	switch s := s.(type) {
	case nil:
	case *ast.BlockStmt:
		fn.block(s.List, ctx)
	case *ast.IfStmt:
		if s.Init != nil {
			fn.stmt(s.Init, ctx)
		}
		fn.exprs(ctx, s.Cond)
		fn.block(s.Body.List, append(append([]c04Guard(nil), ctx...), c04Guard{s.Cond, true, "then"}))
		if s.Else != nil {
			ectx := append(append([]c04Guard(nil), ctx...), c04Guard{s.Cond, false, "else"})
			switch e := s.Else.(type) {
			case *ast.IfStmt:
				fn.stmt(e, ectx)
			case *ast.BlockStmt:
				fn.block(e.List, ectx)
			}
		}
	case *ast.ForStmt:
		if s.Init != nil {
			fn.stmt(s.Init, ctx)
		}
		if s.Cond == nil && fn.bodyReads(s.Body) {
			// for { … } that reads from the wire / the outgoing stream until an error or a break
			*fn.sites = append(*fn.sites, c04Site{file: fn.file, fn: fn.name, kind: "loopbreak", size: "", prov: "wire", reads: true, pos: s.Pos()})
		}
		if be, ok := s.Cond.(*ast.BinaryExpr); ok && (be.Op == token.LSS || be.Op == token.LEQ) {
			prov, keys, typ := fn.classify(be.Y)
			if prov != "const" && prov != "lenMem" {
				g, b, l := fn.guardsFor(keys, ctx)
				*fn.sites = append(*fn.sites, c04Site{file: fn.file, fn: fn.name, kind: "loop", size: fn.x.Src(be.Y), prov: prov, typ: typ,
					guard: g, bound: b, lower: l, reads: fn.bodyReads(s.Body), pos: s.Pos()})
			}
		}
		fn.exprs(ctx, s.Cond)
		if s.Post != nil {
			fn.stmt(s.Post, ctx)
		}
		fn.block(s.Body.List, ctx)
	case *ast.RangeStmt:
		fn.exprs(ctx, s.X)
		fn.block(s.Body.List, ctx)
	case *ast.SwitchStmt:
		if s.Init != nil {
			fn.stmt(s.Init, ctx)
		}
		fn.exprs(ctx, s.Tag)
		for _, c := range s.Body.List {
			cc := c.(*ast.CaseClause)
			fn.exprs(ctx, cc.List...)
			fn.block(cc.Body, ctx)
		}
	case *ast.TypeSwitchStmt:
		if s.Init != nil {
			fn.stmt(s.Init, ctx)
		}
		fn.stmt(s.Assign, ctx)
		for _, c := range s.Body.List {
			fn.block(c.(*ast.CaseClause).Body, ctx)
		}
	case *ast.SelectStmt:
		for _, c := range s.Body.List {
			cc := c.(*ast.CommClause)
			if cc.Comm != nil {
				fn.stmt(cc.Comm, ctx)
			}
			fn.block(cc.Body, ctx)
		}
	case *ast.LabeledStmt:
		fn.stmt(s.Stmt, ctx)
	case *ast.GoStmt:
		fn.exprs(ctx, s.Call)
	case *ast.DeferStmt:
		fn.exprs(ctx, s.Call)
	case *ast.AssignStmt:
		fn.exprs(ctx, s.Rhs...)
		fn.exprs(ctx, s.Lhs...)
		// remember buffers allocated by make, for io.ReadFull
		if len(s.Lhs) == 1 && len(s.Rhs) == 1 {
			fn.noteMake(s.Lhs[0], s.Rhs[0])
		}
	case *ast.DeclStmt:
		if gd, ok := s.Decl.(*ast.GenDecl); ok {
			for _, sp := range gd.Specs {
				if vs, ok := sp.(*ast.ValueSpec); ok {
					fn.exprs(ctx, vs.Values...)
					if len(vs.Names) == 1 && len(vs.Values) == 1 {
						fn.noteMake(vs.Names[0], vs.Values[0])
					}
				}
			}
		}
	case *ast.ExprStmt:
		fn.exprs(ctx, s.X)
	case *ast.ReturnStmt:
		fn.exprs(ctx, s.Results...)
	case *ast.SendStmt:
		fn.exprs(ctx, s.Chan, s.Value)
	case *ast.IncDecStmt:
		fn.exprs(ctx, s.X)
	}
}

func (fn *c04Fn) noteMake(lhs, rhs ast.Expr) {
	ce, ok := rhs.(*ast.CallExpr)
	if !ok {
		return
	}
	if id, ok := ce.Fun.(*ast.Ident); !ok || id.Name != "make" || len(ce.Args) < 2 {
		return
	}
	// the site was appended by exprs() just before
	if n := len(*fn.sites); n > 0 && (*fn.sites)[n-1].pos == ce.Pos() {
		s := (*fn.sites)[n-1]
		fn.makes[fn.x.Src(lhs)] = &s
	}
}

// bodyReads: the loop body reads from the wire and leaves the function on a read error before it
// stores the element (append-while-reading / map insert after a successful read).
func (fn *c04Fn) bodyReads(b *ast.BlockStmt) bool {
	reads, leaves := false, false
	ast.Inspect(b, func(n ast.Node) bool {
		switch n := n.(type) {
		case *ast.CallExpr:
			if c04ReadCall.MatchString(exprName(n.Fun)) {
				reads = true
			}
		case *ast.ReturnStmt:
			leaves = true
		}
		return true
	})
	return reads && leaves
}

// exprs records the sites inside expressions (and walks function literals with the same context).
func (fn *c04Fn) exprs(ctx []c04Guard, es ...ast.Expr) {
	for _, e := range es {
		if e == nil {
			continue
		}
		ast.Inspect(e, func(n ast.Node) bool {
			switch n := n.(type) {
			case *ast.FuncLit:
				for _, p := range n.Type.Params.List {
					for _, nm := range p.Names {
						fn.params[nm.Name] = fn.x.Src(p.Type)
					}
				}
				fn.block(n.Body.List, ctx)
				return false
			case *ast.SliceExpr:
				for _, bnd := range []ast.Expr{n.Low, n.High, n.Max} {
					if bnd == nil || fn.eval(bnd) != nil {
						continue
					}
					fn.add(ctx, "slice", fn.x.Src(n), "", bnd, n.Pos())
				}
			case *ast.CallExpr:
				name := exprName(n.Fun)
				switch {
				case name == "make" && len(n.Args) >= 2:
					kind := "make"
					switch n.Args[0].(type) {
					case *ast.MapType:
						kind = "makemap"
					case *ast.ChanType:
						kind = "makechan"
					}
					elem := fn.x.Src(n.Args[0])
					if len(n.Args) == 3 {
						// make([]T, len, cap): both matter; the capacity is what is allocated
						fn.add(ctx, "make", "", elem, n.Args[1], n.Pos())
						fn.add(ctx, "makecap", "", elem, n.Args[2], n.Pos())
					} else {
						fn.add(ctx, kind, "", elem, n.Args[1], n.Pos())
					}
				case name == "io.ReadFull" && len(n.Args) == 2:
					buf := fn.x.Src(n.Args[1])
					s := c04Site{file: fn.file, fn: fn.name, kind: "readfull", size: buf, prov: "loc", pos: n.Pos()}
					if m, ok := fn.makes[buf]; ok {
						s.size = buf + " = make(" + m.elem + ", " + m.size + ")"
						s.prov, s.typ, s.guard, s.bound, s.lower = m.prov, m.typ, m.guard, m.bound, m.lower
					} else if se, ok := n.Args[1].(*ast.SliceExpr); ok && se.High != nil {
						p, keys, typ := fn.classify(se.High)
						g, b, l := fn.guardsFor(keys, ctx)
						s.prov, s.typ, s.guard, s.bound, s.lower = p, typ, g, b, l
					}
					*fn.sites = append(*fn.sites, s)
				case strings.HasSuffix(name, ".Grow") && len(n.Args) == 1:
					fn.add(ctx, "grow", "", "", n.Args[0], n.Pos())
				case name == "io.CopyN" && len(n.Args) == 3:
					fn.add(ctx, "copyn", "", fn.x.Src(n.Args[0]), n.Args[2], n.Pos())
				case (name == "cboring.ReadRawBytes" || name == "ReadRawBytes") && len(n.Args) == 2:
					fn.add(ctx, "readraw", "", "", n.Args[0], n.Pos())
				case name == "xz.NewReader":
					// decompressor: its dictionary is sized by the stream's own header
					*fn.sites = append(*fn.sites, c04Site{file: fn.file, fn: fn.name, kind: "xzreader", size: name, prov: "wire", pos: n.Pos()})
				case name == "cboring.ReadByteString" || name == "cboring.ReadTextString":
					*fn.sites = append(*fn.sites, c04Site{file: fn.file, fn: fn.name, kind: "readstring", size: name, prov: "wire", pos: n.Pos()})
				default:
					// a decoded number handed to some other function (which may allocate by it elsewhere)
					if c04IsConversion(n) || c04Builtins[name] || isLogging(name) || strings.HasPrefix(name, "fmt.") ||
						strings.HasPrefix(name, "log.") || strings.HasPrefix(name, "binary.") {
						break
					}
					for _, a := range n.Args {
						if u, ok := a.(*ast.UnaryExpr); ok && u.Op == token.AND {
							continue // &x: a destination, not a size
						}
						prov, keys, typ := fn.classify(a)
						numeric := prov == "wire"
						if prov == "param" {
							numeric = false
							for _, k := range keys {
								if c04ConvNames[fn.params[k]] {
									numeric = true
								}
							}
						}
						if !numeric {
							continue
						}
						g, b, l := fn.guardsFor(keys, ctx)
						*fn.sites = append(*fn.sites, c04Site{file: fn.file, fn: fn.name, kind: "call", size: name + "(" + fn.x.Src(a) + ")", elem: name,
							prov: prov, typ: typ, guard: g, bound: b, lower: l, pos: n.Pos()})
					}
				}
			}
			return true
		})
	}
}

func (fn *c04Fn) add(ctx []c04Guard, kind, text, elem string, size ast.Expr, pos token.Pos) {
	prov, keys, typ := fn.classify(size)
	g, b, l := fn.guardsFor(keys, ctx)
	sz := fn.x.Src(size)
	if text != "" {
		sz = text + " @ " + sz
	}
	// a variable of a narrow unsigned type is bounded by its type
	{
		switch typ {
		case "uint8", "byte":
			b = c04Min(b, math.MaxUint8)
		case "uint16":
			b = c04Min(b, math.MaxUint16)
		}
	}
	*fn.sites = append(*fn.sites, c04Site{file: fn.file, fn: fn.name, kind: kind, size: sz, elem: elem, prov: prov, typ: typ,
		guard: g, bound: b, lower: l, pos: pos})
}
