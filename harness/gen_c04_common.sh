#!/bin/sh
# Writes one copy of c04_common.go.tmpl per package that has a C04 harness (overlay files are in-package).
set -e
cd "$(dirname "$0")"
for spec in \
  pkg/bpv7:bpv7 \
  pkg/discovery:discovery \
  pkg/cla/tcpclv4/internal/msgs:msgs \
  pkg/cla/tcpclv4/internal/stages:stages \
  pkg/cla/mtcp:mtcp \
  pkg/cla/bbc:bbc \
  pkg/agent:agent
do
  dir=${spec%%:*}; pkg=${spec##*:}
  mkdir -p "overlay/$dir"
  sed "s/^package PKGNAME$/package $pkg/" c04_common.go.tmpl > "overlay/$dir/verif_c04_common_test.go"
done
