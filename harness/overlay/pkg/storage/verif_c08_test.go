package storage

// Correspondence harness for C08 (attached to the package with `go test -overlay`; never part of /repo).
// Drives a real Store in $VERIF_SCRATCH and writes one observation per line to $VERIF_OUT;
// see /verif/lean/Driver/C08.lean for the line format.
//
//   (a) random operation sequences (push bundle / push fragment / update / delete / expiry sweep /
//       query / close+reopen), full observable state after every operation;
//   (b) every crash point of Push and Delete: the operation runs in a CHILD process (re-exec of this
//       test binary, VERIF_CRASH=<point>:<nth> makes it exit inside the operation), the parent
//       reopens the store, prints what survived and goes on with operations on the same id;
//   (c) two pushes of different fragments of one bundle from two goroutines, both orders forced
//       through the schedule hook, plus a plain goroutine stress.

import (
	"bufio"
	"bytes"
	"encoding/hex"
	"encoding/json"
	"fmt"
	"os"
	"os/exec"
	"path/filepath"
	"sort"
	"strconv"
	"strings"
	"sync"
	"testing"
	"time"

	log "github.com/sirupsen/logrus"

	"github.com/dtn7/dtn7-go/pkg/bpv7"
)

type c08Rng struct{ s uint64 }

func (r *c08Rng) next() uint64 {
	r.s += 0x9e3779b97f4a7c15
	z := r.s
	z = (z ^ (z >> 30)) * 0xbf58476d1ce4e5b9
	z = (z ^ (z >> 27)) * 0x94d049bb133111eb
	return z ^ (z >> 31)
}
func (r *c08Rng) intn(n int) int { return int(r.next() % uint64(n)) }

func c08Hex(b []byte) string {
	if len(b) == 0 {
		return "-"
	}
	return hex.EncodeToString(b)
}

// c08Fam is one bundle identity (source, creation time, sequence number) with its full payload.
type c08Fam struct {
	src      int
	ts, seq  uint64
	lifetime uint64
	base     []byte

	mu    sync.Mutex
	cache map[[4]int]bpv7.Bundle
}

func (f *c08Fam) id() string { return fmt.Sprintf("%d.%d.%d", f.src, f.ts, f.seq) }

// c08Bundle builds the whole bundle (frag == nil) or the fragment [off, off+n) with the given total.
func (f *c08Fam) bundle(frag *[3]int) bpv7.Bundle { return f.bundleV(frag, 0) }

// bundleV: variant 1 carries an additional hop count block (same id, other bytes: what is left after
// Core.receive removed a block is variant 0).
func (f *c08Fam) bundleV(frag *[3]int, variant int) bpv7.Bundle {
	key := [4]int{-1, -1, -1, variant}
	if frag != nil {
		key = [4]int{frag[0], frag[1], frag[2], variant}
	}
	f.mu.Lock()
	defer f.mu.Unlock()
	if b, ok := f.cache[key]; ok {
		return b
	}
	b := f.build(frag, variant)
	if f.cache == nil {
		f.cache = map[[4]int]bpv7.Bundle{}
	}
	f.cache[key] = b
	return b
}

func (f *c08Fam) build(frag *[3]int, variant int) bpv7.Bundle {
	payload := f.base
	if frag != nil {
		payload = f.base[frag[0] : frag[0]+frag[1]]
	}
	bldr := bpv7.Builder().
		CRC(bpv7.CRC32).
		Source(fmt.Sprintf("dtn://n%d/", f.src)).
		Destination("dtn://dst/").
		CreationTimestampNow().
		Lifetime(int(f.lifetime))
	if variant == 1 {
		bldr = bldr.HopCountBlock(17)
	}
	b, err := bldr.PayloadBlock(payload).Build()
	if err != nil {
		panic(err)
	}
	b.PrimaryBlock.CreationTimestamp = bpv7.NewCreationTimestamp(bpv7.DtnTime(f.ts), f.seq)
	if frag != nil {
		b.PrimaryBlock.BundleControlFlags |= bpv7.IsFragment
		b.PrimaryBlock.FragmentOffset = uint64(frag[0])
		b.PrimaryBlock.TotalDataLength = uint64(frag[2])
	}
	return b
}

func c08Enc(b bpv7.Bundle) []byte {
	var buf bytes.Buffer
	if err := b.WriteBundle(&buf); err != nil {
		panic(err)
	}
	return buf.Bytes()
}

func c08FragStr(b bpv7.Bundle) string {
	if b.PrimaryBlock.HasFragmentation() {
		return fmt.Sprintf("%d.%d", b.PrimaryBlock.FragmentOffset, b.PrimaryBlock.TotalDataLength)
	}
	return "-"
}

func c08PayLen(b bpv7.Bundle) int {
	pb, err := b.PayloadBlock()
	if err != nil {
		return 0
	}
	return len(pb.Value.(*bpv7.PayloadBlock).Data())
}

// c08Seq is one sequence on one store directory.
type c08Seq struct {
	sid   string
	dir   string
	store *Store
	fams  []*c08Fam
	names map[string]string // file base name -> "<id>~<frag>"
	out   []string
	n     int
	r     *c08Rng
	nowMs int64
	given []bpv7.Bundle // bundles pushed in this sequence
}

func (q *c08Seq) emit(format string, a ...interface{}) {
	q.out = append(q.out, fmt.Sprintf(format, a...))
}

func (q *c08Seq) famOf(b bpv7.Bundle) *c08Fam {
	for _, f := range q.fams {
		if fmt.Sprintf("dtn://n%d/", f.src) == b.PrimaryBlock.SourceNode.String() &&
			uint64(b.PrimaryBlock.CreationTimestamp.DtnTime()) == f.ts &&
			b.PrimaryBlock.CreationTimestamp.SequenceNumber() == f.seq {
			return f
		}
	}
	return nil
}

func (q *c08Seq) register(b bpv7.Bundle) {
	f := q.famOf(b)
	q.names[filepath.Base(bundlePartPath(b.ID(), "x"))] = f.id() + "~" + c08FragStr(b)
}

func (q *c08Seq) open() {
	var s *Store
	var err error
	for i := 0; i < 100; i++ {
		// a child process forked by another sequence holds a copy of the closed store's lock
		// descriptor until it execs: retry
		if s, err = NewStore(q.dir); err == nil || !strings.Contains(err.Error(), "directory lock") {
			break
		}
		time.Sleep(20 * time.Millisecond)
	}
	if err != nil {
		panic(err)
	}
	q.store = s
}

func (q *c08Seq) pushDesc(b bpv7.Bundle) string {
	q.register(b)
	return fmt.Sprintf("push:%s:%s:%d:%d:%s", q.famOf(b).id(), c08FragStr(b), c08PayLen(b),
		calcExpirationDate(b).UnixNano()/1000000, c08Hex(c08Enc(b)))
}

func c08Props(m map[string]interface{}) string {
	if len(m) == 0 {
		return "-"
	}
	var ks []string
	for k := range m {
		ks = append(ks, k)
	}
	sort.Strings(ks)
	var ps []string
	for _, k := range ks {
		ps = append(ps, fmt.Sprintf("%s=%v", k, m[k]))
	}
	return strings.Join(ps, "&")
}

func c08Bool(b bool) string {
	if b {
		return "1"
	}
	return "0"
}

// dump prints everything observable: per known id the record with every part read back, the
// completeness / load outcome, KnowsBundle, the pending query, the files on disk.
func (q *c08Seq) dump() string {
	var items, knows []string
	fams := append([]*c08Fam{}, q.fams...)
	sort.Slice(fams, func(i, j int) bool { return c08IdLess(fams[i].id(), fams[j].id()) })
	for _, f := range fams {
		bid := f.bundle(nil).ID()
		if q.store.KnowsBundle(bid) {
			knows = append(knows, f.id())
		}
		bi, err := q.store.QueryId(bid)
		if err != nil {
			continue
		}
		var parts []string
		type iv struct{ off, end, total uint64 }
		var ivs []iv
		readable := true
		for _, p := range bi.Parts {
			label, ok := q.names[filepath.Base(p.Filename)]
			if !ok || filepath.Dir(p.Filename) != filepath.Join(q.dir, dirBundle) {
				label = "?"
			}
			data := "!"
			if pb, err := p.Load(); err == nil {
				data = c08Hex(c08Enc(pb))
				ivs = append(ivs, iv{p.FragmentOffset, p.FragmentOffset + uint64(c08PayLen(pb)), p.TotalDataLength})
			} else {
				readable = false
			}
			parts = append(parts, fmt.Sprintf("%d:%d:%s:%s", p.FragmentOffset, p.TotalDataLength, label, data))
		}
		complete := "p"
		func() {
			defer func() {
				if recover() != nil {
					complete = "p"
				}
			}()
			complete = c08Bool(bi.IsComplete())
		}()
		load := "x"
		if !bi.Fragmented {
			func() {
				defer func() {
					if recover() != nil {
						load = "p"
					}
				}()
				if lb, err := bi.Load(); err != nil {
					load = "0"
				} else if pb, err := bi.Parts[0].Load(); err == nil && bytes.Equal(c08Enc(lb), c08Enc(pb)) {
					load = "1"
				} else {
					load = "2"
				}
			}()
		} else if readable && complete == "1" {
			// only sets with one common total length (mixed totals are C10's subject)
			sort.SliceStable(ivs, func(i, j int) bool { return ivs[i].off < ivs[j].off })
			clean := true
			for i := range ivs {
				if ivs[i].total != ivs[0].total {
					clean = false
				}
			}
			if clean {
				func() {
					defer func() {
						if recover() != nil {
							load = "p"
						}
					}()
					if lb, err := bi.Load(); err != nil {
						load = "0"
					} else if pb, err := lb.PayloadBlock(); err == nil && int(ivs[0].total) <= len(f.base) &&
						bytes.Equal(pb.Value.(*bpv7.PayloadBlock).Data(), f.base[:ivs[0].total]) && !lb.PrimaryBlock.HasFragmentation() {
						load = "1"
					} else {
						load = "2"
					}
				}()
			}
		}
		items = append(items, fmt.Sprintf("%s/%s/%d/%s/%s/%s/%s/%s", f.id(), c08Bool(bi.Pending),
			bi.Expires.UnixNano()/1000000, c08Bool(bi.Fragmented), c08Props(bi.Properties), complete, load,
			strings.Join(parts, "+")))
	}
	var pend []string
	if bis, err := q.store.QueryPending(); err != nil {
		pend = []string{"error"}
	} else {
		for _, bi := range bis {
			if f := q.famOfId(bi.BId); f != nil {
				pend = append(pend, f.id())
			} else {
				pend = append(pend, "?")
			}
		}
		sort.Slice(pend, func(i, j int) bool { return c08IdLess(pend[i], pend[j]) })
	}
	var files []string
	ents, _ := os.ReadDir(filepath.Join(q.dir, dirBundle))
	for _, e := range ents {
		label, ok := q.names[e.Name()]
		if base := strings.TrimSuffix(e.Name(), ".tmp"); !ok && base != e.Name() {
			if label, ok = q.names[base]; ok {
				label += "!tmp"
			}
		}
		if !ok {
			label = "?" + e.Name()
		}
		sz := int64(-1)
		if fi, err := e.Info(); err == nil {
			sz = fi.Size()
		}
		files = append(files, fmt.Sprintf("%s#%d", label, sz))
	}
	sort.Strings(files)
	j := func(l []string) string {
		if len(l) == 0 {
			return "-"
		}
		return strings.Join(l, ",")
	}
	return fmt.Sprintf("st=%s files=%s pend=%s knows=%s", j(items), j(files), j(pend), j(knows))
}

func (q *c08Seq) famOfId(bid bpv7.BundleID) *c08Fam {
	for _, f := range q.fams {
		if fmt.Sprintf("dtn://n%d/", f.src) == bid.SourceNode.String() &&
			uint64(bid.Timestamp.DtnTime()) == f.ts && bid.Timestamp.SequenceNumber() == f.seq {
			return f
		}
	}
	return nil
}

func c08IdLess(a, b string) bool {
	pa, pb := strings.Split(a, "."), strings.Split(b, ".")
	for i := 0; i < len(pa) && i < len(pb); i++ {
		x, _ := strconv.ParseUint(pa[i], 10, 64)
		y, _ := strconv.ParseUint(pb[i], 10, 64)
		if x != y {
			return x < y
		}
	}
	return len(pa) < len(pb)
}

func c08Res(err error) string {
	if err == nil {
		return "ok"
	}
	return "err"
}

// ---- operations (each prints one `op` line) ----

func (q *c08Seq) opLine(desc, res string) {
	q.n++
	q.emit("op %s %d %s res=%s %s", q.sid, q.n, desc, res, q.dump())
}

func (q *c08Seq) doPush(b bpv7.Bundle) {
	q.given = append(q.given, b)
	desc := q.pushDesc(b)
	res := "panic"
	func() {
		defer func() { _ = recover() }()
		res = c08Res(q.store.Push(b))
	}()
	q.opLine(desc, res)
}

func (q *c08Seq) doUpdate(f *c08Fam, pending bool, expMs int64, props map[string]interface{}) {
	desc := fmt.Sprintf("update:%s:%s:%d:%s", f.id(), c08Bool(pending), expMs, c08Props(props))
	res := "notfound"
	if bi, err := q.store.QueryId(f.bundle(nil).ID()); err == nil {
		bi.Pending = pending
		bi.Expires = time.Unix(0, expMs*1000000)
		bi.Properties = props
		res = c08Res(q.store.Update(bi))
	}
	q.opLine(desc, res)
}

// doStaleUpdate: the record is read (as ReportFailure / Sync do), removed meanwhile (delivered and deleted, or
// swept by the expiry job) and then written back with Store.Update: that must fail and must not bring the
// record back. `how`: 0 = Delete, 1 = expiry sweep of a record made to expire.
func (q *c08Seq) doStaleUpdate(f *c08Fam, how int) {
	bi, err := q.store.QueryId(f.bundle(nil).ID())
	if err != nil {
		return
	}
	if how == 0 {
		q.doDelete(f)
	} else {
		q.doUpdate(f, true, q.nowMs-5000, nil)
		q.doSweep()
	}
	bi.Pending = true
	res := "panic"
	func() {
		defer func() { _ = recover() }()
		res = c08Res(q.store.Update(bi))
	}()
	q.opLine("staleupdate:"+f.id(), res)
}

func (q *c08Seq) replaceDesc(b bpv7.Bundle) string {
	return "replace" + strings.TrimPrefix(q.pushDesc(b), "push")
}

// doReplace calls Store.ReplaceBundle (what Core.receive does after it removed a block).
func (q *c08Seq) doReplace(b bpv7.Bundle) {
	desc := q.replaceDesc(b)
	res := "panic"
	func() {
		defer func() { _ = recover() }()
		res = c08Res(q.store.ReplaceBundle(b))
	}()
	q.opLine(desc, res)
}

func (q *c08Seq) doDelete(f *c08Fam) {
	q.opLine("delete:"+f.id(), c08Res(q.store.Delete(f.bundle(nil).ID())))
}

func (q *c08Seq) doSweep() {
	now := time.Now().UnixNano() / 1000000
	q.store.DeleteExpired()
	q.opLine(fmt.Sprintf("sweep:%d", now), "ok")
}

func (q *c08Seq) doQuery(f *c08Fam) {
	res := "notfound"
	if _, err := q.store.QueryId(f.bundle(nil).ID()); err == nil {
		res = "found"
	}
	q.opLine("query:"+f.id(), res)
}

func (q *c08Seq) doReopen() {
	res := c08Res(q.store.Close())
	q.open()
	q.opLine("reopen", res)
}

// doPushFail makes the part file unwritable (a directory sits at its path) and pushes: an I/O error
// inside Push must not leave a record behind.
func (q *c08Seq) doPushFail(b bpv7.Bundle) {
	name := bundlePartPath(b.ID(), filepath.Join(q.dir, dirBundle))
	if err := os.Mkdir(name, 0700); err != nil {
		q.doPush(b) // the file exists already
		return
	}
	desc := "pushfail" + strings.TrimPrefix(q.pushDesc(b), "push")
	res := "panic"
	func() {
		defer func() { _ = recover() }()
		res = c08Res(q.store.Push(b))
	}()
	_ = os.Remove(name)
	q.opLine(desc, res)
}

// doJunk leaves a file as a torn write of a killed process would (not referenced by the index).
func (q *c08Seq) doJunk(b bpv7.Bundle, data []byte) {
	q.register(b)
	name := bundlePartPath(b.ID(), filepath.Join(q.dir, dirBundle))
	if err := os.WriteFile(name, data, 0600); err != nil {
		panic(err)
	}
	q.opLine(fmt.Sprintf("junk:%s~%s:%s", q.famOf(b).id(), c08FragStr(b), c08Hex(data)), "ok")
}

// ---- generators ----

func (q *c08Seq) newFam(expired bool, total int) *c08Fam {
	// all expiry times are hours away from the wall clock: no verdict depends on timing
	f := &c08Fam{src: 1 + q.r.intn(4), seq: uint64(q.r.intn(3)), lifetime: 21600000}
	if expired {
		f.ts = uint64(q.nowMs) - 946684800000 - 43200000 - uint64(q.r.intn(100000))
	} else {
		f.ts = uint64(q.nowMs) - 946684800000 - 60000 - uint64(q.r.intn(100000))
	}
	for _, g := range q.fams {
		if g.id() == f.id() {
			f.ts++
		}
	}
	f.base = make([]byte, total)
	for i := range f.base {
		f.base[i] = byte(q.r.next())
	}
	q.fams = append(q.fams, f)
	return f
}

// randFrag picks a fragment of f: mostly cuts on a grid (so that sets complete), sometimes arbitrary.
func (q *c08Seq) randFrag(f *c08Fam) *[3]int {
	t := len(f.base)
	switch q.r.intn(12) {
	case 0: // arbitrary, possibly overlapping / contained
		off := q.r.intn(t)
		n := 1 + q.r.intn(t-off)
		return &[3]int{off, n, t}
	case 1: // same offset as a grid fragment, another total
		g := t / 3
		return &[3]int{g * q.r.intn(3), g, t + 5}
	case 2, 3, 10, 11: // same offset and total as a grid fragment, shorter or longer (another MTU)
		k := 2 + len(f.base)%2
		g := t / k
		i := q.r.intn(k)
		n := g/2 + q.r.intn(g)
		if g*i+n > t {
			n = t - g*i
		}
		if n < 1 {
			n = 1
		}
		return &[3]int{g * i, n, t}
	default:
		k := 2 + len(f.base)%2 // 2 or 3 pieces
		g := t / k
		i := q.r.intn(k)
		n := g
		if i == k-1 {
			n = t - g*i
		}
		return &[3]int{g * i, n, t}
	}
}

func (q *c08Seq) randProps() map[string]interface{} {
	m := map[string]interface{}{}
	for i, n := 0, q.r.intn(3); i < n; i++ {
		m[fmt.Sprintf("k%d", q.r.intn(4))] = fmt.Sprintf("v%d", q.r.intn(100))
	}
	return m
}

func (q *c08Seq) randExp() int64 {
	if q.r.intn(3) == 0 {
		return q.nowMs - 10800000 - int64(q.r.intn(100000))
	}
	return q.nowMs + 10800000 + int64(q.r.intn(100000))
}

func (q *c08Seq) futureExp() int64 { return q.nowMs + 10800000 + int64(q.r.intn(100000)) }

func (q *c08Seq) randomOp(reopens *int) {
	var f *c08Fam
	if len(q.fams) < 2 || (len(q.fams) < 6 && q.r.intn(6) == 0) {
		f = q.newFam(q.r.intn(4) == 0, 12+q.r.intn(24))
	} else {
		f = q.fams[q.r.intn(len(q.fams))]
	}
	switch k := q.r.intn(100); {
	case k < 14:
		q.doPush(f.bundleV(nil, q.r.intn(2)))
	case k < 52:
		q.doPush(f.bundleV(q.randFrag(f), q.r.intn(4)/3))
	case k < 66:
		q.doUpdate(f, q.r.intn(2) == 0, q.randExp(), q.randProps())
	case k < 74:
		q.doDelete(f)
	case k < 76:
		q.doStaleUpdate(f, q.r.intn(2))
	case k < 83:
		q.doSweep()
	case k < 90:
		q.doQuery(f)
	case k < 91:
		if q.r.intn(2) == 0 {
			q.doPushFail(f.bundle(nil))
		} else {
			q.doPushFail(f.bundle(q.randFrag(f)))
		}
	case k < 95:
		// ReplaceBundle: mostly for something that was pushed (the other variant: a block removed /
		// added), sometimes for something unknown
		if len(q.given) > 0 && q.r.intn(4) != 0 {
			g := q.given[q.r.intn(len(q.given))]
			gf := q.famOf(g)
			var frag *[3]int
			if g.PrimaryBlock.HasFragmentation() {
				frag = &[3]int{int(g.PrimaryBlock.FragmentOffset), c08PayLen(g), int(g.PrimaryBlock.TotalDataLength)}
			}
			variant := 1
			if _, err := g.ExtensionBlock(bpv7.ExtBlockTypeHopCountBlock); err == nil {
				variant = 0
			}
			q.doReplace(gf.bundleV(frag, variant))
		} else {
			q.doReplace(f.bundleV(q.randFrag(f), q.r.intn(2)))
		}
	case k < 97 && *reopens > 0:
		*reopens--
		q.doReopen()
	default:
		q.doPush(f.bundle(q.randFrag(f)))
	}
}

func h(s string) uint64 {
	v := uint64(0)
	for _, c := range []byte(s) {
		v = v*31 + uint64(c)
	}
	return v
}

func c08NewSeq(scratch, sid string, seed uint64) *c08Seq {
	h := uint64(1469598103934665603)
	for _, c := range []byte(sid) {
		h = (h ^ uint64(c)) * 1099511628211
	}
	q := &c08Seq{sid: sid, dir: filepath.Join(scratch, "c08-"+sid), names: map[string]string{},
		r: &c08Rng{s: seed*0x9e3779b97f4a7c15 ^ h}, nowMs: time.Now().UnixNano() / 1000000}
	_ = os.RemoveAll(q.dir)
	q.emit("begin %s seed=%d now=%d", sid, seed, q.nowMs)
	q.open()
	return q
}

// (a) random sequence
func c08RunRandom(scratch, sid string, seed uint64, length int) []string {
	q := c08NewSeq(scratch, sid, seed)
	reopens := 1 + int(seed+h(sid))%2
	for i := 0; i < length; i++ {
		q.randomOp(&reopens)
	}
	_ = q.store.Close()
	return q.out
}

// ---- (b) crash points ----

func (q *c08Seq) crashOp(point string, nth int, kind string, b bpv7.Bundle) {
	q.crashOpRec(point, nth, kind, b, "")
}

// crashOpRec: with record != "" the child writes the names of all hook points it passes to that file.
func (q *c08Seq) crashOpRec(point string, nth int, kind string, b bpv7.Bundle, record string) {
	_ = q.store.Close()
	desc := ""
	switch kind {
	case "push":
		desc = q.pushDesc(b)
	case "delete":
		desc = "delete:" + q.famOf(b).id()
	case "replace":
		desc = q.replaceDesc(b)
	case "sweep":
		desc = fmt.Sprintf("sweep:%d", time.Now().UnixNano()/1000000)
	}
	cmd := exec.Command(os.Args[0], "-test.run=^TestVerifC08Child$")
	f := q.famOf(b)
	variant := 0
	if _, err := b.ExtensionBlock(bpv7.ExtBlockTypeHopCountBlock); err == nil {
		variant = 1
	}
	spec := fmt.Sprintf("%d,%d,%d,%d,%s,%s,%d,%d", f.src, f.ts, f.seq, f.lifetime, hex.EncodeToString(f.base), c08FragStr(b), c08PayLen(b), variant)
	cmd.Env = append(os.Environ(), "VERIF_C08_CHILD_DIR="+q.dir, "VERIF_C08_CHILD_OP="+kind,
		"VERIF_C08_CHILD_BUNDLE="+spec, fmt.Sprintf("VERIF_CRASH=%s:%d", point, nth), "VERIF_OUT=",
		"VERIF_C08_CHILD_RECORD="+record)
	out, err := cmd.CombinedOutput()
	code := 0
	if ee, ok := err.(*exec.ExitError); ok {
		code = ee.ExitCode()
	} else if err != nil {
		code = -1
	}
	if code != 0 && code != 77 {
		q.emit("# child failed: %v %s", err, strings.ReplaceAll(string(out), "\n", " | "))
	}
	q.open()
	q.n++
	q.emit("crash %s %d %s:%d %s exit=%d %s", q.sid, q.n, point, nth, desc, code, q.dump())
}

func TestVerifC08Child(t *testing.T) {
	dir := os.Getenv("VERIF_C08_CHILD_DIR")
	if dir == "" {
		t.Skip("helper process of TestVerifC08")
	}
	log.SetLevel(log.ErrorLevel)
	// the bundle is rebuilt from its parameters (ParseBundle would reject one whose lifetime is exceeded)
	ps := strings.Split(os.Getenv("VERIF_C08_CHILD_BUNDLE"), ",")
	if len(ps) != 8 {
		fmt.Println("child: bad bundle spec")
		os.Exit(3)
	}
	fam := &c08Fam{}
	fam.src, _ = strconv.Atoi(ps[0])
	fam.ts, _ = strconv.ParseUint(ps[1], 10, 64)
	fam.seq, _ = strconv.ParseUint(ps[2], 10, 64)
	fam.lifetime, _ = strconv.ParseUint(ps[3], 10, 64)
	fam.base, _ = hex.DecodeString(ps[4])
	var frag *[3]int
	if ps[5] != "-" {
		ot := strings.Split(ps[5], ".")
		off, _ := strconv.Atoi(ot[0])
		tot, _ := strconv.Atoi(ot[1])
		n, _ := strconv.Atoi(ps[6])
		frag = &[3]int{off, n, tot}
	}
	variant, _ := strconv.Atoi(ps[7])
	b := fam.bundleV(frag, variant)
	var s *Store
	var err error
	for i := 0; i < 100; i++ {
		if s, err = NewStore(dir); err == nil || !strings.Contains(err.Error(), "directory lock") {
			break
		}
		time.Sleep(20 * time.Millisecond)
	}
	if err != nil {
		fmt.Println("child: open", err)
		os.Exit(4)
	}
	var hits []string
	if os.Getenv("VERIF_C08_CHILD_RECORD") != "" {
		c08SetSched(func(name string) { hits = append(hits, name) })
	}
	switch os.Getenv("VERIF_C08_CHILD_OP") {
	case "push":
		err = s.Push(b)
	case "delete":
		err = s.Delete(b.ID())
	case "replace":
		err = s.ReplaceBundle(b)
	case "sweep":
		s.DeleteExpired()
	}
	if err != nil {
		fmt.Println("child: op", err)
		os.Exit(5)
	}
	if rec := os.Getenv("VERIF_C08_CHILD_RECORD"); rec != "" {
		_ = os.WriteFile(rec, []byte(strings.Join(hits, "\n")), 0600)
	}
	if err := s.Close(); err != nil {
		fmt.Println("child: close", err)
		os.Exit(6)
	}
	os.Exit(0)
}

// c08Grid returns the k grid fragments of f.
func c08Grid(f *c08Fam, k int) []*[3]int {
	t := len(f.base)
	g := t / k
	var out []*[3]int
	for i := 0; i < k; i++ {
		n := g
		if i == k-1 {
			n = t - g*i
		}
		out = append(out, &[3]int{g * i, n, t})
	}
	return out
}

// c08RunStale: items read before their record was removed are written back (directed; both ways of removal,
// whole bundles and fragment records), then the same bundles are pushed again and must be filed again.
func c08RunStale(scratch, sid string, seed uint64) []string {
	q := c08NewSeq(scratch, sid, seed)
	keep := q.newFam(false, 10+q.r.intn(10))
	q.doPush(keep.bundle(nil))
	for i := 0; i < 4; i++ {
		f := q.newFam(false, 12+q.r.intn(12))
		if i%2 == 0 {
			q.doPush(f.bundle(nil))
		} else {
			for _, fr := range c08Grid(f, 2) {
				q.doPush(f.bundle(fr))
			}
		}
		q.doUpdate(f, true, q.futureExp(), q.randProps())
		q.doStaleUpdate(f, i/2)
		q.doQuery(f)
		if i%2 == 0 {
			q.doPush(f.bundle(nil)) // a record brought back without files would make this Push a no-op
			q.doQuery(f)
		}
	}
	q.doReopen()
	q.doQuery(keep)
	_ = q.store.Close()
	return q.out
}

func c08RunCrash(scratch, sid string, seed uint64, variants []int) []string {
	q := c08NewSeq(scratch, sid, seed)
	// some unrelated records first (they must survive untouched)
	o1 := q.newFam(false, 10+q.r.intn(10))
	q.doPush(o1.bundle(nil))
	o2 := q.newFam(false, 12+q.r.intn(10))
	for _, fr := range c08Grid(o2, 2) {
		q.doPush(o2.bundle(fr))
	}
	q.doUpdate(o1, true, q.futureExp(), q.randProps())
	for _, variant := range variants {
		q.crashScenario(variant)
	}
	q.doSweep()
	q.doDelete(o2)
	_ = q.store.Close()
	return q.out
}

// c08RunSweepCrash kills DeleteExpired at EVERY hook point it passes while sweeping several expired
// records. The bundles stay valid (readable): only the records' Expires is moved into the past by
// Update, as the routing layer may do. Control records (one not expired, pending) must survive.
// The points are taken from a recorded dry run of the same sweep, not from a list.
func c08RunSweepCrash(scratch, sid string, seed uint64, maxKills int) []string {
	q := c08NewSeq(scratch, sid, seed)
	ctl := q.newFam(false, 10+q.r.intn(10))
	q.doPush(ctl.bundle(nil))
	q.doUpdate(ctl, true, q.futureExp(), q.randProps())
	ctl2 := q.newFam(false, 12+q.r.intn(10))
	for _, fr := range c08Grid(ctl2, 2) {
		q.doPush(ctl2.bundle(fr))
	}
	pastExp := func() int64 { return q.nowMs - 10800000 - int64(q.r.intn(100000)) }
	// two or three expired records: a whole bundle, a fragment record with 2 parts, maybe a third
	third := q.r.intn(2) == 0
	setup := func() []*c08Fam {
		a := q.newFam(false, 10+q.r.intn(10))
		q.doPush(a.bundle(nil))
		b := q.newFam(false, 14+q.r.intn(10))
		for _, fr := range c08Grid(b, 2) {
			q.doPush(b.bundle(fr))
		}
		fams := []*c08Fam{a, b}
		if third {
			c := q.newFam(false, 9+q.r.intn(6))
			q.doPush(c.bundle(c08Grid(c, 3)[1]))
			fams = append(fams, c)
		}
		for _, f := range fams {
			q.doUpdate(f, true, pastExp(), q.randProps())
		}
		return fams
	}
	after := func(fams []*c08Fam) {
		// every id: lookup, re-push (must be stored and readable again or still), then finish the sweep
		for _, f := range fams {
			q.doQuery(f)
		}
		q.doQuery(ctl)
		for _, f := range fams {
			q.doPush(f.bundle(c08Grid(f, 2)[0]))
			q.doPush(f.bundle(nil))
		}
		if q.r.intn(3) == 0 {
			q.doReopen()
		}
		q.doSweep()
		for _, f := range fams {
			q.doDelete(f)
		}
	}
	// dry run: which hook points does a sweep over such records pass?
	fams := setup()
	rec := filepath.Join(scratch, "c08-"+sid+"-points.txt")
	q.crashOpRec("none", 1, "sweep", fams[0].bundle(nil), rec)
	after(fams)
	data, _ := os.ReadFile(rec)
	var hits []string
	if len(data) > 0 {
		hits = strings.Split(string(data), "\n")
	}
	q.emit("# sweep dry run passed %d hook points: %s", len(hits), strings.Join(hits, " "))
	// one kill per observed hit (the n-th hit of its name); when limited, spread over the whole sweep
	type kill struct {
		name string
		nth  int
	}
	var kills []kill
	count := map[string]int{}
	for _, h := range hits {
		count[h]++
		kills = append(kills, kill{h, count[h]})
	}
	if len(kills) == 0 {
		// no hook point was observed (a tree without hooks in the sweep path): still try the known names
		kills = []kill{{"delete:before-remove", 1}, {"delete:file-removed", 1}}
	}
	step := 1
	if maxKills > 0 && len(kills) > maxKills {
		step = (len(kills) + maxKills - 1) / maxKills
	}
	for i := int(seed) % step; i < len(kills); i += step {
		fams := setup()
		q.crashOp(kills[i].name, kills[i].nth, "sweep", fams[0].bundle(nil))
		after(fams)
	}
	q.doQuery(ctl2)
	_ = q.store.Close()
	return q.out
}

func (q *c08Seq) crashScenario(variant int) {
	f := q.newFam(false, 15+q.r.intn(12))
	grid := c08Grid(f, 3)
	var target bpv7.Bundle
	followFrag := grid[2]
	switch variant % 14 {
	case 12: // a longer fragment for a stored offset, killed between the temporary file and the rename
		short := &[3]int{grid[0][0], grid[0][1] / 2, grid[0][2]}
		q.doPush(f.bundle(short))
		q.doPush(f.bundle(grid[1]))
		target = f.bundle(grid[0])
		q.crashOp("replace:tmp-written", 1, "push", target)
		followFrag = short // the shorter one is ignored afterwards
	case 13: // ReplaceBundle of a stored whole bundle / fragment, killed at the same point
		if q.r.intn(2) == 0 {
			q.doPush(f.bundleV(nil, 1))
			target = f.bundle(nil)
		} else {
			q.doPush(f.bundleV(grid[0], 1))
			target = f.bundle(grid[0])
		}
		q.crashOp("replace:tmp-written", 1, "replace", target)
		q.doReplace(target)
	case 0: // kill while inserting a new whole bundle
		target = f.bundle(nil)
		q.crashOp("push:new:file-written", 1, "push", target)
	case 1: // … a first fragment
		target = f.bundle(grid[0])
		q.crashOp("push:new:file-written", 1, "push", target)
	case 2: // kill while adding a second fragment
		q.doPush(f.bundle(grid[0]))
		target = f.bundle(grid[1])
		q.crashOp("push:frag:file-written", 1, "push", target)
	case 3: // … the completing fragment, over a torn file of an earlier attempt
		q.doPush(f.bundle(grid[0]))
		q.doPush(f.bundle(grid[1]))
		target = f.bundle(grid[2])
		enc := c08Enc(target)
		q.doJunk(target, append(append([]byte{}, enc[:len(enc)/2]...), bytes.Repeat([]byte{0x9f}, 2*len(enc))...))
		q.crashOp("push:frag:file-written", 1, "push", target)
	case 4: // a point that is not reached: the duplicate fragment is ignored, the child finishes
		q.doPush(f.bundle(grid[0]))
		target = f.bundle(grid[0])
		q.crashOp("push:frag:file-written", 1, "push", target)
	case 5: // kill in Delete before anything happened
		target = f.bundle(nil)
		q.doPush(target)
		q.doUpdate(f, true, q.futureExp(), q.randProps())
		q.crashOp("delete:before-index", 1, "delete", target)
	case 6: // kill after the index entry is gone, before the file removal
		target = f.bundle(nil)
		q.doPush(target)
		q.doUpdate(f, true, q.futureExp(), q.randProps())
		q.crashOp("delete:before-remove", 1, "delete", target)
	case 7: // kill after the only file was removed
		target = f.bundle(nil)
		q.doPush(target)
		q.crashOp("delete:file-removed", 1, "delete", target)
	case 8, 9, 10: // three parts, kill after 1, 2, 3 removals / before the 1st, 2nd, 3rd
		for _, fr := range grid {
			q.doPush(f.bundle(fr))
		}
		target = f.bundle(grid[0])
		if q.r.intn(2) == 0 {
			q.crashOp("delete:file-removed", 1+variant%14-8, "delete", target)
		} else {
			q.crashOp("delete:before-remove", 1+variant%14-8, "delete", target)
		}
	case 11: // expiry sweep of one expired record, killed inside its Delete
		q.doSweep() // nothing else may be expired
		e := q.newFam(true, 12)
		target = e.bundle(nil)
		q.doPush(target)
		if q.r.intn(2) == 0 {
			q.crashOp("delete:before-remove", 1, "sweep", target)
		} else {
			q.crashOp("delete:file-removed", 1, "sweep", target)
		}
		f = e
		grid = c08Grid(f, 3)
		followFrag = grid[1]
	}
	// later operations on the same id must work
	q.doQuery(f)
	q.doPush(target)
	if q.r.intn(4) == 0 {
		q.doReopen()
	}
	q.doPush(f.bundle(followFrag))
	q.doUpdate(f, q.r.intn(2) == 0, q.futureExp(), q.randProps())
	for _, fr := range grid {
		q.doPush(f.bundle(fr))
	}
	q.doDelete(f)
	q.doPush(target)
}

// ---- (c) concurrent pushes ----

func c08SetSched(f func(string)) {
	verifMutex.Lock()
	verifSched = f
	verifMutex.Unlock()
}

func c08RunConc(scratch, sid string, seed uint64, variants []int) []string {
	q := c08NewSeq(scratch, sid, seed)
	o := q.newFam(false, 10)
	q.doPush(o.bundle(nil))
	for _, v := range variants {
		q.concScenario(v)
	}
	_ = q.store.Close()
	return q.out
}

func (q *c08Seq) concScenario(variant int) {
	f := q.newFam(false, 18+q.r.intn(12))
	grid := c08Grid(f, 3)
	withRecord := variant%2 == 0
	point := "push:new:file-written"
	if withRecord {
		q.doPush(f.bundle(grid[0]))
		point = "push:frag:file-written"
	}
	b := []bpv7.Bundle{f.bundle(grid[1]), f.bundle(grid[2])}
	first := (variant / 2) % 2
	d1, d2 := q.pushDesc(b[0]), q.pushDesc(b[1])

	parked := make(chan struct{})
	release := make(chan struct{})
	var once sync.Once
	c08SetSched(func(name string) {
		if name != point {
			return
		}
		mine := false
		once.Do(func() { mine = true })
		if mine {
			close(parked)
			select {
			case <-release:
			case <-time.After(90 * time.Second):
			}
		}
	})
	res := make([]string, 2)
	var wg sync.WaitGroup
	run := func(i int, done chan struct{}) {
		defer wg.Done()
		defer func() {
			if recover() != nil {
				res[i] = "panic"
			}
			if done != nil {
				close(done)
			}
		}()
		res[i] = c08Res(q.store.Push(b[i]))
	}
	wg.Add(1)
	go run(first, nil)
	wasParked, blocked := "0", "0"
	select {
	case <-parked:
		wasParked = "1"
	case <-time.After(60 * time.Second):
	}
	done2 := make(chan struct{})
	wg.Add(1)
	go run(1-first, done2)
	select {
	case <-done2:
	case <-time.After(400 * time.Millisecond):
		blocked = "1"
	}
	close(release)
	wg.Wait()
	c08SetSched(nil)
	q.n++
	q.emit("conc %s %d first=%d %s %s parked=%s blocked=%s res=%s,%s %s", q.sid, q.n, first+1, d1, d2,
		wasParked, blocked, res[0], res[1], q.dump())
	q.doPush(b[0])
	if q.r.intn(2) == 0 {
		q.doDelete(f)
	}
}

func c08RunStress(scratch, sid string, seed uint64, rounds []int) []string {
	q := c08NewSeq(scratch, sid, seed)
	for ri, n := range rounds {
		var bs []bpv7.Bundle
		if ri%2 == 0 { // n different fragments of one bundle
			f := q.newFam(false, 4*n+q.r.intn(8))
			grid := c08Grid(f, n)
			if q.r.intn(2) == 0 {
				q.doPush(f.bundle(grid[0]))
			}
			for _, fr := range grid {
				bs = append(bs, f.bundle(fr))
			}
		} else { // n bundles with different ids (badgerhold's secondary index keys are shared)
			for i := 0; i < n; i++ {
				bs = append(bs, q.newFam(false, 8+q.r.intn(8)).bundle(nil))
			}
		}
		var descs []string
		for _, b := range bs {
			descs = append(descs, q.pushDesc(b))
		}
		res := make([]string, len(bs))
		var wg sync.WaitGroup
		start := make(chan struct{})
		for i := range bs {
			wg.Add(1)
			go func(i int) {
				defer wg.Done()
				<-start
				res[i] = c08Res(q.store.Push(bs[i]))
			}(i)
		}
		close(start)
		wg.Wait()
		q.n++
		q.emit("stress %s %d n=%d %s res=%s %s", q.sid, q.n, len(bs), strings.Join(descs, " "), strings.Join(res, ","), q.dump())
		// the stored part order is scheduling dependent: start the next round from a clean store
		for _, f := range q.fams {
			_ = q.store.Delete(f.bundle(nil).ID())
		}
		q.fams = nil
		q.n++
		q.emit("reset %s %d %s", q.sid, q.n, q.dump())
	}
	_ = q.store.Close()
	return q.out
}

func TestVerifC08(t *testing.T) {
	outPath := os.Getenv("VERIF_OUT")
	if outPath == "" {
		t.Skip("VERIF_OUT not set")
	}
	log.SetLevel(log.PanicLevel)
	seed, _ := strconv.ParseUint(os.Getenv("VERIF_SEED"), 10, 64)
	if seed == 0 {
		seed = 1
	}
	thorough := os.Getenv("VERIF_TIER") == "thorough"
	scratch := os.Getenv("VERIF_SCRATCH")
	if scratch == "" {
		scratch = t.TempDir()
	}
	_, _ = bpv7.NewEndpointID("dtn://x/") // gob registration of the endpoint types, as routing.NewCore does

	only := ""
	if rp := os.Getenv("VERIF_REPLAY"); rp != "" {
		var rec struct {
			Input string `json:"minimal_input"`
			Seed  uint64 `json:"seed"`
		}
		if data, err := os.ReadFile(rp); err == nil && json.Unmarshal(data, &rec) == nil {
			if fs := strings.Fields(rec.Input); len(fs) > 1 {
				only = fs[1]
			}
			if rec.Seed != 0 {
				seed = rec.Seed
			}
		}
	}

	type job struct {
		sid string
		run func() []string
	}
	var jobs []job
	add := func(sid string, run func() []string) {
		if only == "" || only == sid {
			jobs = append(jobs, job{sid, run})
		}
	}
	// quick: 8 random sequences, every crash scenario once (14, five per store); thorough: 120 / 25x
	nRandom, nCrashSeq := 8, 3
	if thorough {
		nRandom, nCrashSeq = 120, 75
	}
	for i := 0; i < nRandom; i++ {
		sid, n := fmt.Sprintf("r%d", i), 30+(i*7+int(seed))%31
		add(sid, func() []string { return c08RunRandom(scratch, sid, seed, n) })
	}
	for i := 0; i < nCrashSeq; i++ {
		sid, vs := fmt.Sprintf("c%d", i), []int{5 * i, 5*i + 1, 5*i + 2, 5*i + 3, 5*i + 4}
		if !thorough && i == 2 {
			vs = vs[:4] // 14 scenarios
		}
		add(sid, func() []string { return c08RunCrash(scratch, sid, seed, vs) })
	}
	add("st0", func() []string { return c08RunStale(scratch, "st0", seed) })
	nSweep, maxKills := 1, 0
	if thorough {
		nSweep = 8
	}
	for i := 0; i < nSweep; i++ {
		sid := fmt.Sprintf("w%d", i)
		add(sid, func() []string { return c08RunSweepCrash(scratch, sid, seed, maxKills) })
	}
	results := make([][]string, len(jobs))
	var wg sync.WaitGroup
	sem := make(chan struct{}, 11)
	for i := range jobs {
		wg.Add(1)
		sem <- struct{}{}
		go func(i int) {
			defer wg.Done()
			defer func() { <-sem }()
			defer func() {
				if r := recover(); r != nil {
					results[i] = append(results[i], fmt.Sprintf("begin %s seed=%d now=0", jobs[i].sid, seed),
						fmt.Sprintf("op %s 0 harness-panic res=panic st=- files=- pend=- knows=-", jobs[i].sid),
						fmt.Sprintf("# harness panic: %v", r))
				}
			}()
			t0 := time.Now()
			results[i] = jobs[i].run()
			results[i] = append(results[i], fmt.Sprintf("# time %s %.1fs", jobs[i].sid, time.Since(t0).Seconds()))
		}(i)
	}
	wg.Wait()
	tConc := time.Now()
	// the schedule hook is global: the concurrent part runs alone
	nConc := 1
	if thorough {
		nConc = 10
	}
	for i := 0; i < nConc; i++ {
		sid := fmt.Sprintf("k%d", i)
		if only == "" || only == sid {
			results = append(results, c08RunConc(scratch, sid, seed, []int{0, 1, 2, 3, 4, 5, 6, 7}))
		}
		sid = fmt.Sprintf("s%d", i)
		if only == "" || only == sid {
			results = append(results, c08RunStress(scratch, sid, seed, []int{3, 6, 4, 8, 5, 12, 6, 16}))
		}
	}

	fo, err := os.Create(outPath)
	if err != nil {
		t.Fatal(err)
	}
	w := bufio.NewWriter(fo)
	nl := 0
	for _, r := range results {
		for _, l := range r {
			fmt.Fprintln(w, l)
			nl++
		}
	}
	fmt.Fprintf(w, "# C08 harness: %d sequences, %d lines, seed %d, concurrent part %.1fs\n", len(results), nl, seed,
		time.Since(tConc).Seconds())
	_ = w.Flush()
	_ = fo.Close()
}
