package storage

// Correspondence harness for C10, store part: fragments are pushed into a real Store (in $VERIF_SCRATCH),
// then BundleItem.IsComplete / BundleItem.Load of the stored item are observed. Line format: see
// /verif/lean/Driver/C10.lean (`store` lines).

import (
	"bufio"
	"bytes"
	"encoding/hex"
	"encoding/json"
	"fmt"
	"os"
	"path/filepath"
	"sort"
	"strconv"
	"strings"
	"testing"

	log "github.com/sirupsen/logrus"

	"github.com/dtn7/dtn7-go/pkg/bpv7"
)

type vsRng struct{ s uint64 }

func (r *vsRng) next() uint64 {
	r.s += 0x9e3779b97f4a7c15
	z := r.s
	z = (z ^ (z >> 30)) * 0xbf58476d1ce4e5b9
	z = (z ^ (z >> 27)) * 0x94d049bb133111eb
	return z ^ (z >> 31)
}
func (r *vsRng) intn(n int) int {
	if n <= 0 {
		return 0
	}
	return int(r.next() % uint64(n))
}

func vsHex(b []byte) string {
	if len(b) == 0 {
		return "-"
	}
	return hex.EncodeToString(b)
}

func vsSer(b bpv7.Bundle) []byte {
	c := bpv7.Bundle{PrimaryBlock: b.PrimaryBlock, CanonicalBlocks: append([]bpv7.CanonicalBlock(nil), b.CanonicalBlocks...)}
	var buf bytes.Buffer
	if err := c.MarshalCbor(&buf); err != nil {
		return nil
	}
	return buf.Bytes()
}

func vsPayload(b bpv7.Bundle) []byte {
	pb, err := b.PayloadBlock()
	if err != nil {
		return nil
	}
	return pb.Value.(*bpv7.PayloadBlock).Data()
}

func vsTypes(b bpv7.Bundle) string {
	var ts []string
	for _, cb := range b.CanonicalBlocks {
		if cb.TypeCode() != bpv7.ExtBlockTypePayloadBlock {
			ts = append(ts, strconv.FormatUint(cb.TypeCode(), 10))
		}
	}
	if len(ts) == 0 {
		return "-"
	}
	return strings.Join(ts, ".")
}

type vsFrag struct {
	b   bpv7.Bundle
	lvl string
}

func vsDesc(f vsFrag) string {
	isf := 0
	if f.b.PrimaryBlock.BundleControlFlags.Has(bpv7.IsFragment) {
		isf = 1
	}
	return fmt.Sprintf("%s:%d:%d:%d:%s:%s", f.lvl, isf, f.b.PrimaryBlock.FragmentOffset, f.b.PrimaryBlock.TotalDataLength,
		vsHex(vsPayload(f.b)), vsTypes(f.b))
}

// vsHand builds the fragment [off, off+n) of b by hand.
func vsHand(b bpv7.Bundle, off, n int) bpv7.Bundle {
	pb := b.PrimaryBlock
	pb.BundleControlFlags |= bpv7.IsFragment
	pb.FragmentOffset = uint64(off)
	pb.TotalDataLength = uint64(len(vsPayload(b)))
	pb.CRC = nil
	var cbs []bpv7.CanonicalBlock
	for _, cb := range b.CanonicalBlocks {
		if cb.TypeCode() == bpv7.ExtBlockTypePayloadBlock {
			cbs = append(cbs, bpv7.CanonicalBlock{BlockNumber: cb.BlockNumber, BlockControlFlags: cb.BlockControlFlags, CRCType: cb.CRCType,
				Value: bpv7.NewPayloadBlock(append([]byte{}, vsPayload(b)[off:off+n]...))})
			continue
		}
		if off > 0 && !cb.BlockControlFlags.Has(bpv7.ReplicateBlock) {
			continue
		}
		cbs = append(cbs, cb)
	}
	return bpv7.Bundle{PrimaryBlock: pb, CanonicalBlocks: cbs}
}

func vsBundle(r *vsRng, seq int, p int) (bpv7.Bundle, error) {
	pl := make([]byte, p)
	for i := range pl {
		pl[i] = byte(r.next())
	}
	bld := bpv7.Builder().
		CRC([]bpv7.CRCType{bpv7.CRC32, bpv7.CRC16}[seq%2]).
		Source([]string{"dtn://src/", "ipn:5.7"}[seq%2]).
		Destination("dtn://dst/app").
		CreationTimestampNow().
		Lifetime("1h")
	if seq%3 != 0 {
		bld = bld.HopCountBlock(16 + seq%5)
	}
	if seq%4 == 1 {
		bld = bld.PreviousNodeBlock("dtn://prev/")
	}
	if seq%3 == 1 {
		bld = bld.Canonical(bpv7.NewGenericExtensionBlock([]byte{1, 2, 3}, 201)) // not replicated
	}
	b, err := bld.PayloadBlock(pl).Build()
	if err != nil {
		return b, err
	}
	// distinct bundle IDs within one store
	b.PrimaryBlock.CreationTimestamp[1] = uint64(1000 + seq)
	b.PrimaryBlock.CRC = nil
	return b, nil
}

func vsObserve(store *Store, orig bpv7.Bundle, set []vsFrag) string {
	descs := make([]string, len(set))
	for i, f := range set {
		descs[i] = vsDesc(f)
		c := bpv7.Bundle{PrimaryBlock: f.b.PrimaryBlock, CanonicalBlocks: append([]bpv7.CanonicalBlock(nil), f.b.CanonicalBlocks...)}
		if err := store.Push(c); err != nil {
			return "# push error " + err.Error()
		}
	}
	bi, err := store.QueryId(orig.ID())
	if err != nil {
		return "# query error " + err.Error()
	}
	able, res := "", ""
	func() {
		defer func() {
			if p := recover(); p != nil {
				able = "panic"
			}
		}()
		if bi.IsComplete() {
			able = "yes"
		} else {
			able = "no"
		}
	}()
	func() {
		defer func() {
			if p := recover(); p != nil {
				res = "panic"
			}
		}()
		rb, err := bi.Load()
		if err != nil {
			res = "err"
			return
		}
		ident := 0
		if bytes.Equal(vsSer(rb), vsSer(orig)) {
			ident = 1
		}
		res = fmt.Sprintf("ok:%s:%d:%s", vsHex(vsPayload(rb)), ident, vsTypes(rb))
	}()
	_ = store.Delete(orig.ID())
	return fmt.Sprintf("store %s %s %s %s %s", vsHex(vsPayload(orig)), vsTypes(orig), strings.Join(descs, ";"), able, res)
}

// vfSameInput compares the input part of two observation lines (operation, payload, block types, fragments).
func vfSameInput(a, b string) bool {
	fa, fb := strings.Fields(a), strings.Fields(b)
	if len(fa) < 4 || len(fb) < 4 {
		return false
	}
	for i := 0; i < 4; i++ {
		if fa[i] != fb[i] {
			return false
		}
	}
	return true
}

func TestVerifC10(t *testing.T) {
	outPath := os.Getenv("VERIF_OUT")
	if outPath == "" {
		t.Skip("VERIF_OUT not set")
	}
	log.SetLevel(log.ErrorLevel)
	f, err := os.Create(outPath)
	if err != nil {
		t.Fatal(err)
	}
	defer f.Close()
	w := bufio.NewWriterSize(f, 1<<20)
	defer w.Flush()
	seed, _ := strconv.ParseUint(os.Getenv("VERIF_SEED"), 10, 64)
	thorough := os.Getenv("VERIF_TIER") == "thorough"
	only := ""
	if rp := os.Getenv("VERIF_REPLAY"); rp != "" {
		raw, err := os.ReadFile(rp)
		if err != nil {
			t.Fatal(err)
		}
		var r struct {
			MinimalInput string `json:"minimal_input"`
			Seed         uint64 `json:"seed"`
			Tier         string `json:"tier"`
		}
		if err := json.Unmarshal(raw, &r); err != nil {
			t.Fatal(err)
		}
		only, seed, thorough = r.MinimalInput, r.Seed, r.Tier == "thorough"
		if !strings.HasPrefix(only, "store ") {
			return
		}
	}
	scratch := os.Getenv("VERIF_SCRATCH")
	if scratch == "" {
		scratch = os.TempDir()
	}
	dir := filepath.Join(scratch, fmt.Sprintf("c10-store-%d-%d", seed, os.Getpid()))
	defer func() { _ = os.RemoveAll(dir) }()
	store, err := NewStore(dir)
	if err != nil {
		t.Fatal(err)
	}
	defer func() { _ = store.Close() }()

	r := &vsRng{s: seed*2654435761 + 1010}
	count := map[string]int{}
	emit := func(part, s string) {
		if only != "" && !vfSameInput(s, only) {
			return
		}
		fmt.Fprintln(w, s)
		count[part]++
	}
	nSets := 160
	if thorough {
		nSets = 1500
	}
	for k := 0; k < nSets; k++ {
		p := 4 + r.intn(28)
		b, err := vsBundle(r, k, p)
		if err != nil {
			fmt.Fprintln(w, "# build error "+err.Error())
			continue
		}
		var set []vsFrag
		switch k % 4 {
		case 0, 1: // fragments cut by the real code with one or two limits, some cut again; random sub-multiset
			size := len(vsSer(b))
			var pool []vsFrag
			for c := 0; c < 1+k%2; c++ {
				frags, err := b.Fragment(size - 1 - r.intn(p-1))
				if err != nil || len(frags) < 2 {
					continue
				}
				for _, fr := range frags {
					pool = append(pool, vsFrag{fr, "1"})
				}
				fr := frags[r.intn(len(frags))]
				if fl := len(vsPayload(fr)); fl >= 2 {
					if subs, err := fr.Fragment(len(vsSer(fr)) - 1 - r.intn(fl-1)); err == nil && len(subs) >= 2 {
						for _, s := range subs {
							pool = append(pool, vsFrag{s, "2"})
						}
					}
				}
			}
			if len(pool) == 0 {
				continue
			}
			for _, fr := range pool {
				if r.intn(6) != 0 {
					set = append(set, fr)
				}
			}
			for i := 0; i < r.intn(3); i++ {
				set = append(set, pool[r.intn(len(pool))])
			}
		default: // hand-built intervals: a partition, perturbed by overlapping / contained / missing pieces
			cuts := map[int]bool{0: true, p: true}
			for i := 0; i < r.intn(4); i++ {
				cuts[r.intn(p)] = true
			}
			var cs []int
			for c := range cuts {
				cs = append(cs, c)
			}
			sort.Ints(cs)
			for i := 0; i+1 < len(cs); i++ {
				if r.intn(7) != 0 {
					set = append(set, vsFrag{vsHand(b, cs[i], cs[i+1]-cs[i]), "s"})
				}
			}
			for i := 0; i < r.intn(3); i++ {
				o := r.intn(p)
				n := 1 + r.intn(p-o)
				set = append(set, vsFrag{vsHand(b, o, n), "s"})
			}
		}
		if len(set) == 0 {
			continue
		}
		for i := len(set) - 1; i > 0; i-- {
			j := r.intn(i + 1)
			set[i], set[j] = set[j], set[i]
		}
		emit("store", vsObserve(store, b, set))
	}
	// same offset, three lengths, every arrival order (three fragmentations with different limits share an offset):
	// whatever arrives last, the longest one must be what the store holds afterwards; the rest of the payload
	// arrives before, between or after
	nSame := 6
	if thorough {
		nSame = 60
	}
	perms3 := [][3]int{{0, 1, 2}, {0, 2, 1}, {1, 0, 2}, {1, 2, 0}, {2, 0, 1}, {2, 1, 0}}
	for t := 0; t < nSame; t++ {
		p := 8 + r.intn(24)
		b, err := vsBundle(r, 100000+t, p)
		if err != nil {
			continue
		}
		o := 0
		if t%2 == 1 {
			o = 1 + r.intn(p-4)
		}
		ls := map[int]bool{}
		for len(ls) < 3 {
			ls[1+r.intn(p-o)] = true
		}
		var l []int
		for x := range ls {
			l = append(l, x)
		}
		sort.Ints(l)
		var rest []vsFrag
		if o > 0 {
			rest = append(rest, vsFrag{vsHand(b, 0, o), "s"})
		}
		if o+l[2] < p {
			rest = append(rest, vsFrag{vsHand(b, o+l[2], p-o-l[2]), "s"})
		}
		for pi, pm := range perms3 {
			var set []vsFrag
			same := []vsFrag{{vsHand(b, o, l[pm[0]]), "s"}, {vsHand(b, o, l[pm[1]]), "s"}, {vsHand(b, o, l[pm[2]]), "s"}}
			switch (t + pi) % 3 {
			case 0:
				set = append(append(set, rest...), same...)
			case 1:
				set = append(append(set, same...), rest...)
			default:
				set = append(set, same[0])
				set = append(set, rest...)
				set = append(set, same[1], same[2])
			}
			emit("store", vsObserve(store, b, set))
		}
	}
	fmt.Fprintf(w, "# C10 store generator: store=%d\n", count["store"])
}
