package agent

// Correspondence harness for C07 (attached to the package with `go test -overlay`; never part of /repo).
// Writes one observation per line to $VERIF_OUT; the format is documented in /verif/lean/Driver/C07.lean.
//
// Everything below drives the REAL code: MuxAgent, PingAgent, RestAgent behind an httptest.Server
// (real /register /fetch /unregister JSON), WebSocketAgent with real WebSocketAgentConnector
// clients (plus raw gorilla connections that never register), and trivial mock agents.

import (
	"bytes"
	"encoding/hex"
	"encoding/json"
	"fmt"
	"net/http"
	"net/http/httptest"
	"os"
	"sort"
	"strconv"
	"strings"
	"sync"
	"testing"
	"time"

	"github.com/gorilla/mux"
	"github.com/gorilla/websocket"
	log "github.com/sirupsen/logrus"

	"github.com/dtn7/dtn7-go/pkg/bpv7"
)

// ---------------------------------------------------------------------------------------------
// small helpers

type vRng struct{ s uint64 }

func (r *vRng) next() uint64 {
	r.s += 0x9e3779b97f4a7c15
	z := r.s
	z = (z ^ (z >> 30)) * 0xbf58476d1ce4e5b9
	z = (z ^ (z >> 27)) * 0x94d049bb133111eb
	return z ^ (z >> 31)
}
func (r *vRng) intn(n int) int { return int(r.next() % uint64(n)) }

func vSeed() uint64 {
	s, _ := strconv.ParseUint(os.Getenv("VERIF_SEED"), 10, 64)
	return s
}
func vThorough() bool { return os.Getenv("VERIF_TIER") == "thorough" }

// protocol endpoint "n1/a" <-> dtn://n1/a
func vEid(p string) bpv7.EndpointID { return bpv7.MustNewEndpointID("dtn://" + p) }
func vProto(e bpv7.EndpointID) string {
	return strings.TrimPrefix(e.String(), "dtn://")
}

func vToks(ts []int) string {
	if len(ts) == 0 {
		return "-"
	}
	ss := make([]string, len(ts))
	for i, t := range ts {
		ss[i] = strconv.Itoa(t)
	}
	return strings.Join(ss, ",")
}

func vCbor(b bpv7.Bundle) []byte {
	var buf bytes.Buffer
	if err := b.MarshalCbor(&buf); err != nil {
		return []byte("marshal-error:" + err.Error())
	}
	return buf.Bytes()
}

func vJson(b bpv7.Bundle) []byte {
	j, err := json.Marshal(b)
	if err != nil {
		return []byte("marshal-error:" + err.Error())
	}
	var c bytes.Buffer
	if json.Compact(&c, j) != nil {
		return j
	}
	return c.Bytes()
}

// vBarrier is a Message without recipients: the MuxAgent broadcasts it to every child, and every
// agent's handler ignores it. Because all handlers are sequential loops over unbuffered channels,
// "the k-th barrier was accepted" implies "everything before the (k-1)-th barrier was processed one
// level further down" (mux -> agent -> inner mux -> web client).
type vBarrier struct{}

func (vBarrier) Recipients() []bpv7.EndpointID { return nil }

// ---------------------------------------------------------------------------------------------
// mock agent / ping wrapper

type vMock struct {
	mu       sync.Mutex
	eps      []bpv7.EndpointID
	receiver chan Message
	sender   chan Message
	inbox    []bpv7.Bundle
}

func newVMock(eps []bpv7.EndpointID) *vMock {
	m := &vMock{eps: eps, receiver: make(chan Message), sender: make(chan Message)}
	go func() {
		for msg := range m.receiver {
			if bm, ok := msg.(BundleMessage); ok {
				m.mu.Lock()
				m.inbox = append(m.inbox, bm.Bundle)
				m.mu.Unlock()
			}
			if _, ok := msg.(ShutdownMessage); ok {
				return
			}
		}
	}()
	return m
}
func (m *vMock) Endpoints() []bpv7.EndpointID  { return m.eps }
func (m *vMock) MessageReceiver() chan Message { return m.receiver }
func (m *vMock) MessageSender() chan Message   { return m.sender }
func (m *vMock) drain() []bpv7.Bundle {
	m.mu.Lock()
	defer m.mu.Unlock()
	l := m.inbox
	m.inbox = nil
	return l
}

// vPing registers a REAL PingAgent with the mux through a thin synchronous relay: Endpoints() is the
// PingAgent's own method; every message is passed to the PingAgent's receiver and its answer (the
// "pong" bundle, if any) is collected before the next message is accepted. This makes "who acked
// which bundle" observable without sleeping.
type vPing struct {
	p        *PingAgent
	receiver chan Message
	sender   chan Message
	mu       sync.Mutex
	pongs    []bpv7.Bundle
}

func newVPing(ep bpv7.EndpointID) *vPing {
	v := &vPing{p: NewPing(ep), receiver: make(chan Message), sender: make(chan Message)}
	go func() {
		for msg := range v.receiver {
			v.p.MessageReceiver() <- msg
			if _, ok := msg.(ShutdownMessage); ok {
				return
			}
			// either the PingAgent answers, or it is back at its receive statement
			select {
			case out, ok := <-v.p.MessageSender():
				if bm, isB := out.(BundleMessage); ok && isB {
					v.mu.Lock()
					v.pongs = append(v.pongs, bm.Bundle)
					v.mu.Unlock()
				}
			case v.p.MessageReceiver() <- vBarrier{}:
			}
		}
	}()
	return v
}
func (v *vPing) Endpoints() []bpv7.EndpointID  { return v.p.Endpoints() }
func (v *vPing) MessageReceiver() chan Message { return v.receiver }
func (v *vPing) MessageSender() chan Message   { return v.sender }
func (v *vPing) drain() []bpv7.Bundle {
	v.mu.Lock()
	defer v.mu.Unlock()
	l := v.pongs
	v.pongs = nil
	return l
}

// ---------------------------------------------------------------------------------------------
// web socket clients

type vConn struct {
	wac *WebSocketAgentConnector // registered client (real connector), or
	raw *websocket.Conn          // raw connection which never registers
	eid string                   // protocol endpoint or "-"

	mu      sync.Mutex
	got     []bpv7.Bundle
	pongIn  chan string // connector: from the reader's pong handler to the collector goroutine
	pong    chan string // to the harness
	rawDone chan struct{}
}

func (c *vConn) drain() []bpv7.Bundle {
	c.mu.Lock()
	defer c.mu.Unlock()
	l := c.got
	c.got = nil
	return l
}

// ---------------------------------------------------------------------------------------------
// environment of one history

type vAgent struct {
	kind    byte // P M R W
	id      int
	mock    *vMock
	ping    *vPing
	rest    *RestAgent
	ws      *WebSocketAgent
	srv     *httptest.Server
	uuids   map[int]string // REST client number -> uuid (kept after unregister: names orphan mailboxes)
	names   map[string]int // uuid -> client number
	conns   map[int]*vConn
	removed bool
}

type vEnv struct {
	t      *testing.T
	mux    *MuxAgent
	agents map[int]*vAgent
	order  []int

	bundles map[int]bpv7.Bundle
	byCbor  map[string]int
	byJson  map[string]int
	markSeq int
	failed  string
}

func newVEnv(t *testing.T) *vEnv {
	e := &vEnv{t: t, mux: NewMuxAgent(), agents: map[int]*vAgent{},
		bundles: map[int]bpv7.Bundle{}, byCbor: map[string]int{}, byJson: map[string]int{}}
	// nothing is expected on the mux's sender side (the ping relays keep the pongs); drain anyway
	go func() {
		for range e.mux.MessageSender() {
		}
	}()
	return e
}

func (e *vEnv) fail(format string, a ...interface{}) {
	if e.failed == "" {
		e.failed = fmt.Sprintf(format, a...)
	}
}

func vBundle(tok int, dest string, variant int) bpv7.Bundle {
	bl := bpv7.Builder().
		Source("dtn://src/app").
		Destination("dtn://" + dest).
		ReportTo(fmt.Sprintf("dtn://rt/%d", tok)).
		CreationTimestampTime(time.Date(2021, 3, 4, 5, 6, 7, 0, time.UTC)).
		Lifetime("876000h")
	payload := []byte(fmt.Sprintf("t%d", tok))
	switch variant % 5 {
	case 1:
		bl = bl.CRC(bpv7.CRC32).HopCountBlock(64)
	case 2:
		bl = bl.CRC(bpv7.CRC16).BundleAgeBlock(uint64(1000 + tok))
		payload = append(payload, bytes.Repeat([]byte{0xff, 0x00, byte(tok)}, 9)...)
	case 3:
		bl = bl.BundleCtrlFlags(bpv7.MustNotFragmented | bpv7.StatusRequestDelivery).PreviousNodeBlock("dtn://prev/")
	case 4:
		bl = bl.HopCountBlock(3).BundleAgeBlock(0)
		payload = append(payload, make([]byte, 40)...)
	}
	b, err := bl.PayloadBlock(payload).Build()
	if err != nil {
		panic(err)
	}
	return b
}

func (e *vEnv) bundle(tok int, dest string) bpv7.Bundle {
	if b, ok := e.bundles[tok]; ok {
		return b
	}
	b := vBundle(tok, dest, tok)
	e.bundles[tok] = b
	e.byCbor[string(vCbor(b))] = tok
	e.byJson[string(vJson(b))] = tok
	return b
}

// tokOf resolves received content to the token of the bundle with byte-identical serialisation
// (exact map lookup on the full serialisation; 0 = no delivered bundle has this content).
func (e *vEnv) tokOf(b bpv7.Bundle) int    { return e.byCbor[string(vCbor(b))] }
func (e *vEnv) tokOfJson(raw []byte) int {
	var c bytes.Buffer
	if json.Compact(&c, raw) != nil {
		return 0
	}
	return e.byJson[c.String()]
}

func (e *vEnv) post(a *vAgent, path string, req interface{}, resp interface{}) {
	var buf bytes.Buffer
	_ = json.NewEncoder(&buf).Encode(req)
	r, err := a.srv.Client().Post(a.srv.URL+"/rest/"+path, "application/json", &buf)
	if err != nil {
		e.fail("POST %s: %v", path, err)
		return
	}
	defer r.Body.Close()
	if err := json.NewDecoder(r.Body).Decode(resp); err != nil {
		e.fail("POST %s: decode: %v", path, err)
	}
}

type vFetchResponse struct {
	Error   string            `json:"error"`
	Bundles []json.RawMessage `json:"bundles"`
}

func (e *vEnv) fetch(a *vAgent, c int) []int {
	var fr vFetchResponse
	e.post(a, "fetch", RestFetchRequest{UUID: a.uuids[c]}, &fr)
	if fr.Error != "" {
		e.fail("fetch error %s", fr.Error)
	}
	var toks []int
	for _, raw := range fr.Bundles {
		toks = append(toks, e.tokOfJson(raw))
	}
	return toks
}

// barrier: see vBarrier. Four levels: mux, agent handler, inner mux of the WebSocketAgent, web client.
func (e *vEnv) barrier() {
	for i := 0; i < 5; i++ {
		e.mux.MessageReceiver() <- vBarrier{}
	}
}

// syncConns makes sure every frame written by the server so far has been read by the clients: a
// WebSocket ping is answered by the server's read loop with a pong, which the client reads after
// all frames written before. (Control frames do not pass the MuxAgent: the synchronisation does not
// depend on the code under test.)
func (e *vEnv) syncConns() {
	e.markSeq++
	seq := strconv.Itoa(e.markSeq)
	var waitFor []*vConn
	for _, id := range e.order {
		a := e.agents[id]
		if a.kind != 'W' {
			continue
		}
		for _, c := range a.conns {
			conn := c.raw
			if c.wac != nil {
				conn = c.wac.conn
			}
			if err := conn.WriteControl(websocket.PingMessage, []byte(seq), time.Now().Add(2*time.Second)); err != nil {
				e.fail("web socket ping: %v", err)
				continue
			}
			waitFor = append(waitFor, c)
		}
	}
	for _, c := range waitFor {
		deadline := time.After(3 * time.Second)
		for done := false; !done; {
			select {
			case m := <-c.pong:
				done = m == seq
			case <-deadline:
				e.fail("web socket connection did not answer the ping")
				done = true
			}
		}
	}
}

func (e *vEnv) wsConnect(a *vAgent, c int, eid string) {
	url := "ws" + strings.TrimPrefix(a.srv.URL, "http") + "/ws"
	before := e.wsChildren(a)
	vc := &vConn{eid: eid, pongIn: make(chan string), pong: make(chan string, 4), rawDone: make(chan struct{})}
	if eid != "-" {
		wac, err := NewWebSocketAgentConnector(url, "dtn://"+eid)
		if err != nil {
			e.fail("connector: %v", err)
			return
		}
		vc.wac = wac
		// the pong travels through the collector goroutine, so it is seen after every bundle read before
		wac.conn.SetPongHandler(func(d string) error { vc.pongIn <- d; return nil })
		go func() {
			bc, sc := wac.msgInBundleChan, wac.msgInSyscallChan
			for bc != nil || sc != nil {
				select {
				case b, ok := <-bc:
					if !ok {
						bc = nil
						continue
					}
					vc.mu.Lock()
					vc.got = append(vc.got, b)
					vc.mu.Unlock()
				case _, ok := <-sc:
					if !ok {
						sc = nil
					}
				case d := <-vc.pongIn:
					vc.pong <- d
				}
			}
		}()
	} else {
		conn, _, err := websocket.DefaultDialer.Dial(url, nil)
		if err != nil {
			e.fail("raw dial: %v", err)
			return
		}
		vc.raw = conn
		conn.SetPongHandler(func(d string) error { vc.pong <- d; return nil })
		go func() {
			defer close(vc.rawDone)
			for {
				mt, r, err := conn.NextReader()
				if err != nil {
					return
				}
				if mt == websocket.BinaryMessage {
					if m, err := unmarshalCbor(r); err == nil {
						if wb, ok := m.(*wamBundle); ok {
							vc.mu.Lock()
							vc.got = append(vc.got, wb.b)
							vc.mu.Unlock()
						}
					}
				}
			}
		}()
	}
	a.conns[c] = vc
	// ServeHTTP registers the client with the inner mux before it starts reading; a connector has
	// seen the registration acknowledged, a raw connection has not exchanged anything yet
	e.waitFor(func() bool { return e.wsChildren(a) == before+1 }, "web client registration")
}

func (e *vEnv) wsChildren(a *vAgent) int {
	a.ws.clientMux.Lock()
	defer a.ws.clientMux.Unlock()
	return len(a.ws.clientMux.children)
}

func (e *vEnv) waitFor(cond func() bool, what string) {
	deadline := time.Now().Add(5 * time.Second)
	for !cond() {
		if time.Now().After(deadline) {
			e.fail("timeout waiting for %s", what)
			return
		}
		time.Sleep(200 * time.Microsecond)
	}
}

func (e *vEnv) wsClose(a *vAgent, c int) {
	vc := a.conns[c]
	if vc == nil {
		return
	}
	before := e.wsChildren(a)
	if vc.wac != nil {
		vc.wac.Close()
	} else if vc.raw != nil {
		_ = vc.raw.Close()
	}
	delete(a.conns, c)
	e.waitFor(func() bool { return e.wsChildren(a) == before-1 }, "web client removal")
}

func (e *vEnv) muxChildren() int {
	e.mux.Lock()
	defer e.mux.Unlock()
	return len(e.mux.children)
}

// ---------------------------------------------------------------------------------------------
// observations

type vEntry struct {
	kind byte
	a, c int
	toks []int
}

func vEntries(es []vEntry) string {
	sort.SliceStable(es, func(i, j int) bool {
		if es[i].kind != es[j].kind {
			return es[i].kind < es[j].kind
		}
		if es[i].a != es[j].a {
			return es[i].a < es[j].a
		}
		return es[i].c < es[j].c
	})
	var parts []string
	for _, x := range es {
		name := fmt.Sprintf("%c%d", x.kind, x.a)
		if x.kind == 'R' || x.kind == 'W' {
			name += "." + strconv.Itoa(x.c)
		}
		parts = append(parts, name+":"+vToks(x.toks))
	}
	if len(parts) == 0 {
		return "-"
	}
	return strings.Join(parts, ";")
}

// received: what the push-type recipients got since the last call.
func (e *vEnv) received() []vEntry {
	var es []vEntry
	for _, id := range e.order {
		a := e.agents[id]
		switch a.kind {
		case 'M':
			var ts []int
			for _, b := range a.mock.drain() {
				ts = append(ts, e.tokOf(b))
			}
			if len(ts) > 0 {
				es = append(es, vEntry{'M', id, 0, ts})
			}
		case 'P':
			var ts []int
			for _, pong := range a.ping.drain() {
				// the pong is addressed to the acknowledged bundle's report-to endpoint dtn://rt/<tok>
				t, _ := strconv.Atoi(strings.TrimPrefix(pong.PrimaryBlock.Destination.String(), "dtn://rt/"))
				if pong.PrimaryBlock.SourceNode != a.ping.p.endpoint {
					t = 0
				}
				ts = append(ts, t)
			}
			if len(ts) > 0 {
				es = append(es, vEntry{'P', id, 0, ts})
			}
		case 'W':
			for c, vc := range a.conns {
				var ts []int
				for _, b := range vc.drain() {
					ts = append(ts, e.tokOf(b))
				}
				if len(ts) > 0 {
					es = append(es, vEntry{'W', id, c, ts})
				}
			}
		}
	}
	return es
}

func (e *vEnv) mailboxes() []vEntry {
	var es []vEntry
	for _, id := range e.order {
		a := e.agents[id]
		if a.kind != 'R' {
			continue
		}
		a.rest.mailbox.Range(func(k, v interface{}) bool {
			c, ok := a.names[k.(string)]
			if !ok {
				c = 9999
			}
			var ts []int
			for _, b := range v.([]bpv7.Bundle) {
				ts = append(ts, e.tokOf(b))
			}
			es = append(es, vEntry{'R', id, c, ts})
			return true
		})
	}
	return es
}

func (e *vEnv) endpoints() string {
	var ss []string
	for _, ep := range e.mux.Endpoints() {
		ss = append(ss, vProto(ep))
	}
	if len(ss) == 0 {
		return "-"
	}
	sort.Strings(ss)
	return strings.Join(ss, ",")
}

func (e *vEnv) obs(extra []vEntry) string {
	e.barrier()
	e.syncConns()
	rec := append(e.received(), extra...)
	return vEntries(rec) + "|" + vEntries(e.mailboxes()) + "|" + e.endpoints()
}

// ---------------------------------------------------------------------------------------------
// operations (see Driver/C07.lean for the grammar)

func vSplitAC(s string) (a, c int) {
	p := strings.SplitN(s, ".", 2)
	a, _ = strconv.Atoi(p[0])
	if len(p) > 1 {
		c, _ = strconv.Atoi(p[1])
	}
	return
}

func (e *vEnv) register(a *vAgent, app ApplicationAgent) {
	e.agents[a.id] = a
	e.order = append(e.order, a.id)
	e.mux.Register(app)
}

func (e *vEnv) do(op string) string {
	head, arg := op, ""
	if i := strings.IndexByte(op, ':'); i >= 0 {
		head, arg = op[:i], op[i+1:]
	}
	var extra []vEntry
	switch head[0] {
	case 'P':
		id, _ := strconv.Atoi(head[1:])
		a := &vAgent{kind: 'P', id: id, ping: newVPing(vEid(arg))}
		e.register(a, a.ping)
	case 'M':
		id, _ := strconv.Atoi(head[1:])
		var eps []bpv7.EndpointID
		if arg != "-" {
			for _, s := range strings.Split(arg, "+") {
				eps = append(eps, vEid(s))
			}
		}
		a := &vAgent{kind: 'M', id: id, mock: newVMock(eps)}
		e.register(a, a.mock)
	case 'R':
		id, _ := strconv.Atoi(head[1:])
		r := mux.NewRouter()
		ra := NewRestAgent(r.PathPrefix("/rest").Subrouter())
		a := &vAgent{kind: 'R', id: id, rest: ra, srv: httptest.NewServer(r), uuids: map[int]string{}, names: map[string]int{}}
		e.register(a, ra)
	case 'W':
		id, _ := strconv.Atoi(head[1:])
		ws := NewWebSocketAgent()
		hm := http.NewServeMux()
		hm.HandleFunc("/ws", ws.ServeHTTP)
		a := &vAgent{kind: 'W', id: id, ws: ws, srv: httptest.NewServer(hm), conns: map[int]*vConn{}}
		e.register(a, ws)
	case 'X':
		id, _ := strconv.Atoi(head[1:])
		if a := e.agents[id]; a != nil && a.kind == 'M' && !a.removed {
			before := e.muxChildren()
			a.mock.sender <- ShutdownMessage{}
			e.waitFor(func() bool { return e.muxChildren() == before-1 }, "mock agent removal")
			a.removed = true
		}
	case 'r':
		ai, c := vSplitAC(head[1:])
		if a := e.agents[ai]; a != nil && a.kind == 'R' {
			var rr RestRegisterResponse
			e.post(a, "register", RestRegisterRequest{EndpointId: "dtn://" + arg}, &rr)
			if rr.Error != "" || rr.UUID == "" {
				e.fail("register: %q", rr.Error)
			}
			a.uuids[c] = rr.UUID
			a.names[rr.UUID] = c
		}
	case 'u':
		ai, c := vSplitAC(head[1:])
		if a := e.agents[ai]; a != nil && a.kind == 'R' {
			var ur RestUnregisterResponse
			e.post(a, "unregister", RestUnregisterRequest{UUID: a.uuids[c]}, &ur)
		}
	case 'f':
		ai, c := vSplitAC(head[1:])
		if a := e.agents[ai]; a != nil && a.kind == 'R' {
			if ts := e.fetch(a, c); len(ts) > 0 {
				extra = append(extra, vEntry{'R', ai, c, ts})
			}
		}
	case 'w':
		ai, c := vSplitAC(head[1:])
		if a := e.agents[ai]; a != nil && a.kind == 'W' {
			e.wsConnect(a, c, arg)
		}
	case 'x':
		ai, c := vSplitAC(head[1:])
		if a := e.agents[ai]; a != nil && a.kind == 'W' {
			e.wsClose(a, c)
		}
	case 'd':
		tok, _ := strconv.Atoi(head[1:])
		e.mux.MessageReceiver() <- BundleMessage{Bundle: e.bundle(tok, arg)}
	default:
		e.fail("unknown op %q", op)
	}
	return op + "=" + e.obs(extra)
}

func (e *vEnv) close() {
	for _, id := range e.order {
		a := e.agents[id]
		if a.kind == 'W' {
			for c := range a.conns {
				e.wsClose(a, c)
			}
		}
	}
	e.mux.MessageReceiver() <- ShutdownMessage{}
	for _, id := range e.order {
		if a := e.agents[id]; a.srv != nil {
			a.srv.Close()
		}
	}
}

var vHarnessFailures int

// vFailed: harness failures (time-outs waiting for the code under test) are reported once or twice,
// then the run is cut short instead of waiting for every remaining history to time out.
func vFailed(t *testing.T, format string, a ...interface{}) {
	vHarnessFailures++
	t.Errorf(format, a...)
	if vHarnessFailures >= 3 {
		t.Fatalf("verif: %d harness failures, giving up", vHarnessFailures)
	}
}

func vRunHist(t *testing.T, ops []string) string {
	e := newVEnv(t)
	defer e.close()
	parts := []string{"hist"}
	for _, op := range ops {
		parts = append(parts, e.do(op))
		if e.failed != "" {
			vFailed(t, "harness failure in %q: %s", strings.Join(ops, " "), e.failed)
			return "# harness-failure " + e.failed + " in " + strings.Join(ops, " ")
		}
	}
	return strings.Join(parts, " ")
}

// ---------------------------------------------------------------------------------------------
// generators

// ("n1/A": an endpoint that differs from n1/a only in the case of its demux - a different endpoint)
var vEndpoints = []string{"n1/a", "n1/b", "n2/a", "n1/", "n1/A"}

// vExhaustive: every sequence of up to `maxK` recipients (each a REST client, a web socket client, a
// mock agent or a ping agent) registering for the endpoint n1/a — i.e. 0..maxK recipients per endpoint
// in every registration order — next to distractors on n1/b (same node), n2/a (same service name) and
// n1/ ; then one bundle per endpoint plus one for an endpoint nobody registered, then all fetches.
func vExhaustive(maxK int, emit func(ops []string)) {
	kinds := []byte{'r', 'w', 'm', 'p'}
	var rec func(seq []byte)
	rec = func(seq []byte) {
		ops := []string{"R0", "W1", "M2:n1/b+n2/a", "r0.90:n1/b", "w1.91:n2/a", "r0.92:n1/", "r0.93:n1/A"}
		nextAgent := 3
		var clients []int
		clients = append(clients, 90, 92, 93)
		for i, k := range seq {
			switch k {
			case 'r':
				ops = append(ops, fmt.Sprintf("r0.%d:n1/a", i))
				clients = append(clients, i)
			case 'w':
				ops = append(ops, fmt.Sprintf("w1.%d:n1/a", i))
			case 'm':
				ops = append(ops, fmt.Sprintf("M%d:n1/a", nextAgent))
				nextAgent++
			case 'p':
				ops = append(ops, fmt.Sprintf("P%d:n1/a", nextAgent))
				nextAgent++
			}
		}
		ops = append(ops, "d1:n1/a", "d2:n1/b", "d3:n2/a", "d4:n2/b", "d5:n1/", "d6:n1/a", "d8:n1/A")
		for _, c := range clients {
			ops = append(ops, fmt.Sprintf("f0.%d", c))
		}
		ops = append(ops, "d7:n1/a")
		for _, c := range clients {
			ops = append(ops, fmt.Sprintf("f0.%d", c))
		}
		emit(ops)
		if len(seq) < maxK {
			for _, k := range kinds {
				rec(append(append([]byte{}, seq...), k))
			}
		}
	}
	rec(nil)
}

// vRandomHist: a random sequence of register / unregister / connect / close / deliver / fetch
// operations over two REST agents, one web socket agent, mocks and ping agents.
func vRandomHist(r *vRng, n int) []string {
	var ops []string
	type cl struct{ a, c int }
	var restAgents, wsAgents, mocks []int
	var live []cl // registered REST clients
	var conns []cl
	nextAgent, nextClient, tok := 0, 0, 0
	ep := func() string { return vEndpoints[r.intn(len(vEndpoints))] }
	addAgent := func() {
		switch k := r.intn(6); {
		case k <= 1 && len(restAgents) < 2:
			ops = append(ops, fmt.Sprintf("R%d", nextAgent))
			restAgents = append(restAgents, nextAgent)
		case k == 2 && len(wsAgents) < 1:
			ops = append(ops, fmt.Sprintf("W%d", nextAgent))
			wsAgents = append(wsAgents, nextAgent)
		case k == 3:
			ops = append(ops, fmt.Sprintf("P%d:%s", nextAgent, ep()))
		default:
			switch r.intn(4) {
			case 0:
				ops = append(ops, fmt.Sprintf("M%d:-", nextAgent))
			case 1:
				ops = append(ops, fmt.Sprintf("M%d:%s+%s", nextAgent, ep(), ep()))
			default:
				ops = append(ops, fmt.Sprintf("M%d:%s", nextAgent, ep()))
			}
			mocks = append(mocks, nextAgent)
		}
		nextAgent++
	}
	for i := 0; i < 2+r.intn(3); i++ {
		addAgent()
	}
	for len(ops) < n {
		switch k := r.intn(100); {
		case k < 24 && len(restAgents) > 0:
			a := restAgents[r.intn(len(restAgents))]
			ops = append(ops, fmt.Sprintf("r%d.%d:%s", a, nextClient, ep()))
			live = append(live, cl{a, nextClient})
			nextClient++
		case k < 55:
			tok++
			d := ep()
			if r.intn(8) == 0 {
				d = "n2/b"
			}
			ops = append(ops, fmt.Sprintf("d%d:%s", tok, d))
		case k < 68 && len(live) > 0:
			x := live[r.intn(len(live))]
			ops = append(ops, fmt.Sprintf("f%d.%d", x.a, x.c))
		case k < 75 && len(live) > 0:
			i := r.intn(len(live))
			ops = append(ops, fmt.Sprintf("u%d.%d", live[i].a, live[i].c))
			live = append(live[:i], live[i+1:]...)
		case k < 86 && len(wsAgents) > 0:
			a := wsAgents[0]
			e := ep()
			if r.intn(6) == 0 {
				e = "-"
			}
			ops = append(ops, fmt.Sprintf("w%d.%d:%s", a, nextClient, e))
			conns = append(conns, cl{a, nextClient})
			nextClient++
		case k < 90 && len(conns) > 0:
			i := r.intn(len(conns))
			ops = append(ops, fmt.Sprintf("x%d.%d", conns[i].a, conns[i].c))
			conns = append(conns[:i], conns[i+1:]...)
		case k < 94 && len(mocks) > 0:
			i := r.intn(len(mocks))
			ops = append(ops, fmt.Sprintf("X%d", mocks[i]))
			mocks = append(mocks[:i], mocks[i+1:]...)
		case k >= 94:
			addAgent()
		}
	}
	for _, x := range live {
		ops = append(ops, fmt.Sprintf("f%d.%d", x.a, x.c))
	}
	return ops
}

// vManyClients: 4..k recipients of every kind on ONE endpoint (and the same number spread over others).
func vManyClients(r *vRng, k int) []string {
	ops := []string{"R0", "W1", "R2"}
	next := 3
	var fetches []string
	for i := 0; i < k; i++ {
		ops = append(ops, fmt.Sprintf("r0.%d:n1/a", i), fmt.Sprintf("w1.%d:n1/a", 100+i), fmt.Sprintf("r2.%d:n1/a", 200+i),
			fmt.Sprintf("r0.%d:%s", 300+i, vEndpoints[1+r.intn(3)]))
		fetches = append(fetches, fmt.Sprintf("f0.%d", i), fmt.Sprintf("f2.%d", 200+i), fmt.Sprintf("f0.%d", 300+i))
		if r.intn(2) == 0 {
			ops = append(ops, fmt.Sprintf("M%d:n1/a", next))
			next++
		}
		if r.intn(3) == 0 {
			ops = append(ops, fmt.Sprintf("P%d:n1/a", next))
			next++
		}
	}
	ops = append(ops, "d1:n1/a", "d2:n1/b", "d3:n1/a")
	ops = append(ops, fetches...)
	return ops
}

// ---------------------------------------------------------------------------------------------
// deliver-during-fetch with a forced order of the mailbox accesses (schedule points of the verif hooks)

type vSched struct {
	mu      sync.Mutex
	reached map[string]chan struct{}
	release map[string]chan struct{}
}

func newVSched(points ...string) *vSched {
	s := &vSched{reached: map[string]chan struct{}{}, release: map[string]chan struct{}{}}
	for _, p := range points {
		s.reached[p] = make(chan struct{}, 64)
		s.release[p] = make(chan struct{})
	}
	return s
}

// hook parks the calling goroutine at a known point until released (or 3 s: never dead-lock).
func (s *vSched) hook(name string) {
	r, ok := s.reached[name]
	if !ok {
		return
	}
	select {
	case r <- struct{}{}:
	default:
	}
	select {
	case <-s.release[name]:
	case <-time.After(3 * time.Second):
	}
}
func (s *vSched) waitReached(name string, d time.Duration) bool {
	select {
	case <-s.reached[name]:
		return true
	case <-time.After(d):
		return false
	}
}
func (s *vSched) releaseAll(name string) { close(s.release[name]) }

const (
	vPointFetch   = "rest.fetch.loaded"
	vPointDeliver = "rest.deliver.loaded"
)

// vRace: one REST client whose mailbox holds `pre` bundles; one fetch and one delivery overlap in the
// order given by mode; then a final fetch.
//   fd: fetch loads, delivery loads, fetch deletes, delivery stores
//   seqfd / seqdf: no overlap
// (df — delivery loads, fetch loads, delivery stores, fetch deletes — is vRaceDF)
func vRace(t *testing.T, mode string, pre int) string {
	e := newVEnv(t)
	defer e.close()
	e.do("R0")
	e.do("r0.1:n1/a")
	a := e.agents[0]
	var preToks []int
	for i := 1; i <= pre; i++ {
		e.do(fmt.Sprintf("d%d:n1/a", i))
		preToks = append(preToks, i)
	}
	newTok := pre + 1
	nb := e.bundle(newTok, "n1/a")

	s := newVSched(vPointFetch, vPointDeliver)
	verifHook.Store(func(name string) { s.hook(name) })
	defer verifHook.Store(func(string) {})

	var f1 []int
	fetchDone := make(chan struct{})
	startFetch := func() { go func() { f1 = e.fetch(a, 1); close(fetchDone) }() }
	startDeliver := func() { e.mux.MessageReceiver() <- BundleMessage{Bundle: nb} }
	note := "forced"
	const patience = 150 * time.Millisecond
	switch mode {
	case "fd":
		startFetch()
		if !s.waitReached(vPointFetch, patience) {
			note = "fetch-did-not-park"
		}
		startDeliver()
		if !s.waitReached(vPointDeliver, patience) {
			note = "delivery-excluded"
		}
		s.releaseAll(vPointFetch)
		<-fetchDone
		s.releaseAll(vPointDeliver)
	case "seqfd":
		s.releaseAll(vPointFetch)
		s.releaseAll(vPointDeliver)
		startFetch()
		<-fetchDone
		startDeliver()
	case "seqdf":
		s.releaseAll(vPointFetch)
		s.releaseAll(vPointDeliver)
		startDeliver()
		e.barrier()
		startFetch()
		<-fetchDone
	}
	e.barrier()
	f2 := e.fetch(a, 1)
	if e.failed != "" {
		t.Errorf("harness failure in race %s %d: %s", mode, pre, e.failed)
		return "# harness-failure " + e.failed
	}
	return fmt.Sprintf("race %s %s %d %s %s %s", mode, vToks(preToks), newTok, vToks(f1), vToks(f2), note)
}

// in mode df the store must precede the delete: park the fetch until the delivery's barrier passed
func vRaceDF(t *testing.T, pre int) string {
	e := newVEnv(t)
	defer e.close()
	e.do("R0")
	e.do("r0.1:n1/a")
	a := e.agents[0]
	var preToks []int
	for i := 1; i <= pre; i++ {
		e.do(fmt.Sprintf("d%d:n1/a", i))
		preToks = append(preToks, i)
	}
	newTok := pre + 1
	nb := e.bundle(newTok, "n1/a")
	s := newVSched(vPointFetch, vPointDeliver)
	verifHook.Store(func(name string) { s.hook(name) })
	defer verifHook.Store(func(string) {})
	const patience = 150 * time.Millisecond
	note := "forced"
	var f1 []int
	fetchDone := make(chan struct{})
	e.mux.MessageReceiver() <- BundleMessage{Bundle: nb}
	if !s.waitReached(vPointDeliver, patience) {
		note = "delivery-did-not-park"
	}
	go func() { f1 = e.fetch(a, 1); close(fetchDone) }()
	if !s.waitReached(vPointFetch, patience) {
		note = "fetch-excluded"
	}
	s.releaseAll(vPointDeliver)
	// wait until the REST agent's handler is back at its receive statement: the store happened
	a.rest.MessageReceiver() <- vBarrier{}
	s.releaseAll(vPointFetch)
	<-fetchDone
	e.barrier()
	f2 := e.fetch(a, 1)
	if e.failed != "" {
		t.Errorf("harness failure in race df %d: %s", pre, e.failed)
		return "# harness-failure " + e.failed
	}
	return fmt.Sprintf("race df %s %d %s %s %s", vToks(preToks), newTok, vToks(f1), vToks(f2), note)
}

// ---------------------------------------------------------------------------------------------
// 16-goroutine stress: deliveries, fetches, registrations and endpoint queries overlap freely

func vStress(t *testing.T, r *vRng, perDeliverer int) []string {
	e := newVEnv(t)
	defer e.close()
	e.do("R0")
	e.do("M1:n1/a")
	a := e.agents[0]
	persistent := []struct {
		c  int
		ep string
	}{{1, "n1/a"}, {2, "n1/a"}, {3, "n1/b"}}
	for _, p := range persistent {
		e.do(fmt.Sprintf("r0.%d:%s", p.c, p.ep))
	}
	const deliverers = 4
	// build all bundles up front (the token tables are read-only afterwards)
	type job struct {
		tok int
		ep  string
	}
	jobs := make([][]job, deliverers)
	delivered := map[string][]int{}
	tok := 0
	for d := 0; d < deliverers; d++ {
		for i := 0; i < perDeliverer; i++ {
			tok++
			ep := []string{"n1/a", "n1/b", "n1/a", "n2/a"}[r.intn(4)]
			e.bundle(tok, ep)
			jobs[d] = append(jobs[d], job{tok, ep})
			delivered[ep] = append(delivered[ep], tok)
		}
	}
	stop := make(chan struct{})
	var wgD, wgO sync.WaitGroup
	var mu sync.Mutex
	fetched := map[int][]int{}
	transientBad := 0
	transientGot := 0
	// 4 deliverers
	for d := 0; d < deliverers; d++ {
		wgD.Add(1)
		go func(d int) {
			defer wgD.Done()
			for _, j := range jobs[d] {
				e.mux.MessageReceiver() <- BundleMessage{Bundle: e.bundles[j.tok]}
			}
		}(d)
	}
	// 6 fetchers: two per persistent client
	for i := 0; i < 6; i++ {
		wgO.Add(1)
		go func(c int) {
			defer wgO.Done()
			for {
				select {
				case <-stop:
					return
				default:
				}
				ts := e.fetch(a, c)
				mu.Lock()
				fetched[c] = append(fetched[c], ts...)
				mu.Unlock()
			}
		}(persistent[i%3].c)
	}
	// 4 registrars with transient clients
	for i := 0; i < 4; i++ {
		wgO.Add(1)
		go func(i int) {
			defer wgO.Done()
			ep := []string{"n1/a", "n1/b", "n2/a", "n1/a"}[i]
			for n := 0; ; n++ {
				select {
				case <-stop:
					return
				default:
				}
				var rr RestRegisterResponse
				e.post(a, "register", RestRegisterRequest{EndpointId: "dtn://" + ep}, &rr)
				var got []int
				for k := 0; k < 3; k++ {
					var fr vFetchResponse
					e.post(a, "fetch", RestFetchRequest{UUID: rr.UUID}, &fr)
					for _, raw := range fr.Bundles {
						got = append(got, e.tokOfJson(raw))
					}
				}
				var ur RestUnregisterResponse
				e.post(a, "unregister", RestUnregisterRequest{UUID: rr.UUID}, &ur)
				seen := map[int]bool{}
				bad := 0
				for _, g := range got {
					if g == 0 || seen[g] || e.bundles[g].PrimaryBlock.Destination != vEid(ep) {
						bad++
					}
					seen[g] = true
				}
				mu.Lock()
				transientBad += bad
				transientGot += len(got)
				mu.Unlock()
			}
		}(i)
	}
	// 2 endpoint observers
	for i := 0; i < 2; i++ {
		wgO.Add(1)
		go func() {
			defer wgO.Done()
			for {
				select {
				case <-stop:
					return
				default:
				}
				_ = e.mux.Endpoints()
				_ = AppAgentHasEndpoint(e.mux, vEid("n1/b"))
			}
		}()
	}
	wgD.Wait()
	e.barrier()
	close(stop)
	wgO.Wait()
	var lines []string
	for _, p := range persistent {
		fetched[p.c] = append(fetched[p.c], e.fetch(a, p.c)...)
		d := append([]int{}, delivered[p.ep]...)
		sort.Ints(d)
		lines = append(lines, fmt.Sprintf("stress R0.%d all %s %s", p.c, vToks(d), vToks(fetched[p.c])))
	}
	var mt []int
	for _, b := range e.agents[1].mock.drain() {
		mt = append(mt, e.tokOf(b))
	}
	d := append([]int{}, delivered["n1/a"]...)
	sort.Ints(d)
	lines = append(lines, fmt.Sprintf("stress M1 all %s %s", vToks(d), vToks(mt)))
	lines = append(lines, fmt.Sprintf("# stress transient clients fetched %d bundles, %d wrong/duplicate", transientGot, transientBad))
	if transientBad > 0 {
		lines = append(lines, fmt.Sprintf("stress transient sub - %d", transientBad))
	}
	if e.failed != "" {
		t.Errorf("harness failure in stress: %s", e.failed)
	}
	return lines
}

// ---------------------------------------------------------------------------------------------
// content lines: the bytes handed to each kind of recipient vs. the bytes delivered

func vContent(t *testing.T, emit func(string)) {
	e := newVEnv(t)
	defer e.close()
	for _, op := range []string{"R0", "W1", "M2:n1/a", "r0.1:n1/a", "w1.2:n1/a"} {
		e.do(op)
	}
	for tok := 1; tok <= 10; tok++ {
		b := e.bundle(tok, "n1/a")
		e.mux.MessageReceiver() <- BundleMessage{Bundle: b}
		e.barrier()
		e.syncConns()
		for _, got := range e.agents[2].mock.drain() {
			emit(fmt.Sprintf("content mock %s %s", hex.EncodeToString(vCbor(b)), hex.EncodeToString(vCbor(got))))
		}
		for _, got := range e.agents[1].conns[2].drain() {
			emit(fmt.Sprintf("content ws %s %s", hex.EncodeToString(vCbor(b)), hex.EncodeToString(vCbor(got))))
		}
		var fr vFetchResponse
		e.post(e.agents[0], "fetch", RestFetchRequest{UUID: e.agents[0].uuids[1]}, &fr)
		for _, raw := range fr.Bundles {
			var c bytes.Buffer
			_ = json.Compact(&c, raw)
			emit(fmt.Sprintf("content restjson %s %s", hex.EncodeToString(vJson(b)), hex.EncodeToString(c.Bytes())))
		}
	}
	if e.failed != "" {
		t.Errorf("harness failure in content: %s", e.failed)
	}
}

// ---------------------------------------------------------------------------------------------
// muxu lines: a child of the MuxAgent unregisters while the delivery of a bundle to the children is in
// progress (the mux is blocked handing the bundle to an earlier child whose reader is slow).

type vPlainAgent struct {
	eid  bpv7.EndpointID
	recv chan Message
	send chan Message
}

func (a *vPlainAgent) Endpoints() []bpv7.EndpointID { return []bpv7.EndpointID{a.eid} }
func (a *vPlainAgent) MessageReceiver() chan Message  { return a.recv }
func (a *vPlainAgent) MessageSender() chan Message    { return a.send }

// vMuxUnregister: n children for one endpoint, child 0 reads late, child `leave` shuts down while the mux is
// blocked at child 0. Reported: how often each child was handed the bundle.
func vMuxUnregister(n, leave int) string {
	mux := NewMuxAgent()
	go func() {
		for range mux.MessageSender() {
		}
	}()
	eid := bpv7.MustNewEndpointID("dtn://n1/a")
	var kids []*vPlainAgent
	counts := make([]int, n)
	var mu sync.Mutex
	var wg sync.WaitGroup
	reader := func(i int) {
		defer wg.Done()
		for msg := range kids[i].recv {
			if _, ok := msg.(BundleMessage); ok {
				mu.Lock()
				counts[i]++
				mu.Unlock()
			}
		}
	}
	for i := 0; i < n; i++ {
		k := &vPlainAgent{eid: eid, recv: make(chan Message), send: make(chan Message)}
		kids = append(kids, k)
		mux.Register(k)
	}
	for i := 1; i < n; i++ {
		wg.Add(1)
		go reader(i)
	}
	b, err := bpv7.Builder().CRC(bpv7.CRC32).Source("dtn://src/").Destination(eid).CreationTimestampNow().
		Lifetime("1h").PayloadBlock([]byte("muxu")).Build()
	if err != nil {
		return "# muxu cannot build bundle"
	}
	delivered := make(chan struct{})
	go func() {
		mux.MessageReceiver() <- BundleMessage{Bundle: b}
		close(delivered)
	}()
	<-delivered // the mux has taken the message and is (about to be) blocked at child 0
	time.Sleep(30 * time.Millisecond)
	kids[leave].send <- ShutdownMessage{} // handleChild -> unregister
	time.Sleep(60 * time.Millisecond)
	wg.Add(1)
	go reader(0)
	// a second message without recipients flushes the fan-out of the first one
	done := make(chan struct{})
	go func() {
		mux.MessageReceiver() <- ShutdownMessage{}
		close(done)
	}()
	select {
	case <-done:
	case <-time.After(5 * time.Second):
		return fmt.Sprintf("muxu %d %d hang", n, leave)
	}
	// the mux shuts its children down (they close their senders in reaction: emulate, then the mux closes the receivers)
	time.Sleep(50 * time.Millisecond)
	for i, k := range kids {
		if i != leave {
			close(k.send)
		}
	}
	waited := make(chan struct{})
	go func() { wg.Wait(); close(waited) }()
	select {
	case <-waited:
	case <-time.After(5 * time.Second):
	}
	mu.Lock()
	defer mu.Unlock()
	var cs []string
	for _, c := range counts {
		cs = append(cs, strconv.Itoa(c))
	}
	return fmt.Sprintf("muxu %d %d %s", n, leave, strings.Join(cs, ","))
}

// vMuxSlow: a burst of m bundles for an endpoint with a quick child and a child that needs `busy` per bundle.
// Every child must be handed every bundle (exactly once), however long it is busy.
func vMuxSlow(m int, busy time.Duration) string {
	mux := NewMuxAgent()
	go func() {
		for range mux.MessageSender() {
		}
	}()
	eid := bpv7.MustNewEndpointID("dtn://n1/a")
	kids := []*vPlainAgent{
		{eid: eid, recv: make(chan Message), send: make(chan Message)},
		{eid: eid, recv: make(chan Message), send: make(chan Message)},
	}
	counts := make([]int, 2)
	var mu sync.Mutex
	var wg sync.WaitGroup
	for i, k := range kids {
		mux.Register(k)
		wg.Add(1)
		go func(i int, k *vPlainAgent) {
			defer wg.Done()
			for msg := range k.recv {
				if _, ok := msg.(BundleMessage); ok {
					mu.Lock()
					counts[i]++
					mu.Unlock()
					if i == 1 {
						time.Sleep(busy)
					}
				}
			}
		}(i, k)
	}
	done := make(chan struct{})
	go func() {
		defer close(done)
		for j := 0; j < m; j++ {
			b, err := bpv7.Builder().CRC(bpv7.CRC32).Source("dtn://src/").Destination(eid).CreationTimestampNow().
				Lifetime("1h").PayloadBlock([]byte(fmt.Sprintf("slow %d", j))).Build()
			if err != nil {
				return
			}
			mux.MessageReceiver() <- BundleMessage{Bundle: b}
		}
		mux.MessageReceiver() <- ShutdownMessage{}
	}()
	select {
	case <-done:
	case <-time.After(time.Duration(m+2)*busy + 5*time.Second):
		return fmt.Sprintf("muxslow %d hang", m)
	}
	time.Sleep(50 * time.Millisecond)
	for _, k := range kids {
		close(k.send)
	}
	waited := make(chan struct{})
	go func() { wg.Wait(); close(waited) }()
	select {
	case <-waited:
	case <-time.After(time.Duration(m+2)*busy + 5*time.Second):
	}
	mu.Lock()
	defer mu.Unlock()
	return fmt.Sprintf("muxslow %d %d,%d", m, counts[0], counts[1])
}

// ---------------------------------------------------------------------------------------------

func vStripObs(line string) (kind string, ops []string) {
	f := strings.Fields(line)
	if len(f) == 0 {
		return "", nil
	}
	for _, it := range f[1:] {
		if i := strings.IndexByte(it, '='); i >= 0 {
			it = it[:i]
		}
		ops = append(ops, it)
	}
	return f[0], ops
}

func TestVerifC07(t *testing.T) {
	log.SetLevel(log.PanicLevel)
	outPath := os.Getenv("VERIF_OUT")
	if outPath == "" {
		t.Skip("VERIF_OUT not set")
	}
	f, err := os.Create(outPath)
	if err != nil {
		t.Fatal(err)
	}
	defer f.Close()
	emit := func(s string) { fmt.Fprintln(f, s) }

	if rp := os.Getenv("VERIF_REPLAY"); rp != "" {
		var rep struct {
			Input string `json:"minimal_input"`
		}
		if data, err := os.ReadFile(rp); err == nil && json.Unmarshal(data, &rep) == nil {
			switch kind, ops := vStripObs(rep.Input); kind {
			case "hist":
				emit(vRunHist(t, ops))
				return
			case "race":
				if len(ops) >= 2 {
					pre := 0
					if ops[1] != "-" {
						pre = len(strings.Split(ops[1], ","))
					}
					if ops[0] == "df" {
						emit(vRaceDF(t, pre))
					} else {
						emit(vRace(t, ops[0], pre))
					}
					return
				}
			case "core":
				return // belongs to the pkg/routing harness
			}
		}
	}

	// histories run code that may panic in a goroutine of the MuxAgent / an agent (not recoverable here): every
	// history is announced first (see bin/check, "#@begin")
	runHist := func(ops []string) string {
		fmt.Fprintln(f, "#@begin hist "+strings.Join(ops, " "))
		_ = f.Sync()
		return vRunHist(t, ops)
	}

	seed := vSeed()
	r := &vRng{s: seed*0x1234567 + 99}
	thorough := vThorough()
	t0 := time.Now()
	lap := func(what string) {
		emit(fmt.Sprintf("# timing %s %.1fs", what, time.Since(t0).Seconds()))
		t0 = time.Now()
	}

	// 1. every registration order of 0..3 recipients on one endpoint
	n := 0
	vExhaustive(3, func(ops []string) { emit(runHist(ops)); n++ })
	emit(fmt.Sprintf("# exhaustive registration orders: %d histories", n))
	lap("exhaustive")

	// 2. many recipients per endpoint
	for k := 4; k <= 6; k++ {
		emit(runHist(vManyClients(r, k)))
	}

	// 3. random histories
	nh := 200
	if thorough {
		nh = 1500
	}
	for i := 0; i < nh; i++ {
		emit(runHist(vRandomHist(r, 10+r.intn(25))))
	}

	lap("random-histories")

	// 4. deliver during fetch, both forced orders and the two sequential ones, mailbox of 0..3 bundles
	for pre := 0; pre <= 3; pre++ {
		emit(vRace(t, "fd", pre))
		emit(vRaceDF(t, pre))
		emit(vRace(t, "seqfd", pre))
		emit(vRace(t, "seqdf", pre))
	}

	lap("race")

	// 4b. a child unregisters while a delivery is in progress. A panic in one of the MuxAgent's own goroutines
	// cannot be recovered here and ends the process: the line is written as "crashed" first (fixed width) and
	// overwritten in place with the result.
	for n := 3; n <= 5; n++ {
		for leave := 1; leave < n; leave++ {
			const width = 48
			pos, _ := f.Seek(0, 1)
			fmt.Fprintf(f, "%-*s\n", width, fmt.Sprintf("muxu %d %d crashed", n, leave))
			_ = f.Sync()
			res := func() (r string) {
				defer func() {
					if x := recover(); x != nil {
						r = fmt.Sprintf("muxu %d %d panic", n, leave)
					}
				}()
				return vMuxUnregister(n, leave)
			}()
			if len(res) <= width {
				_, _ = f.WriteAt([]byte(fmt.Sprintf("%-*s", width, res)), pos)
			}
		}
	}
	lap("mux-unregister")

	// 4c. a child that stays busy for a long time per bundle (longer than any plausible hand-over time-out)
	emit(vMuxSlow(3, 1200*time.Millisecond))
	lap("mux-slow")

	// 5. content
	vContent(t, emit)
	lap("content")

}

// TestVerifC07Stress: the 16-goroutine stress (run with -race in the thorough tier).
func TestVerifC07Stress(t *testing.T) {
	log.SetLevel(log.PanicLevel)
	outPath := os.Getenv("VERIF_OUT")
	if outPath == "" {
		t.Skip("VERIF_OUT not set")
	}
	if os.Getenv("VERIF_REPLAY") != "" {
		return
	}
	f, err := os.Create(outPath)
	if err != nil {
		t.Fatal(err)
	}
	defer f.Close()
	emit := func(s string) { fmt.Fprintln(f, s) }
	r := &vRng{s: vSeed()*0x7654321 + 5}
	t0 := time.Now()
	rounds := 3
	if vThorough() {
		rounds = 12
	}
	for i := 0; i < rounds; i++ {
		for _, l := range vStress(t, r, 40) {
			emit(l)
		}
	}
	emit(fmt.Sprintf("# timing stress %.1fs", time.Since(t0).Seconds()))
}
