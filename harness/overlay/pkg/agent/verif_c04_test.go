package agent

// C04 harness for the application agents:
//   wam         one binary WebSocket message → unmarshalCbor (+ the endpoint parser for register messages)
//   wam-handler the same message sent over a loopback WebSocket to the agent's real connection handler
//   rest-build  one HTTP body → the real RestAgent.handleBuild of a registered client (JSON of any shape)
//   rest-other  the same body → handleRegister, handleFetch, handleUnregister

import (
	"bytes"
	"fmt"
	"net/http"
	"net/http/httptest"
	"strings"
	"sync"
	"testing"
	"time"

	"github.com/gorilla/mux"
	"github.com/gorilla/websocket"
	log "github.com/sirupsen/logrus"

	"github.com/dtn7/dtn7-go/pkg/bpv7"
)

const verifC04Uuid = "00000000-0000-0000-0000-000000000000"

func verifC04Rest() (*RestAgent, chan struct{}, *int) {
	ra := NewRestAgent(mux.NewRouter())
	ra.clients.Store(verifC04Uuid, bpv7.MustNewEndpointID("dtn://src/"))
	stop := make(chan struct{})
	sent := 0
	go func() {
		for {
			select {
			case <-ra.sender:
				sent++
			case <-stop:
				return
			}
		}
	}()
	return ra, stop, &sent
}

// ---- the WebSocket agent's own connection handler ----
//
// One loopback WebSocket server per child process; its HTTP handler is what WebSocketAgent.ServeHTTP does
// (upgrade, newWebAgentClient, handleConn) with the client's outgoing channel drained and with a recover()
// of its own, because net/http would swallow a panic of the handler.

type verifC04WsResult struct {
	panicked  string
	forwarded int
}

var (
	verifC04WsOnce   sync.Once
	verifC04WsURL    string
	verifC04WsResChn = make(chan verifC04WsResult, 16)
)

func verifC04WsServer() string {
	verifC04WsOnce.Do(func() {
		upgrader := websocket.Upgrader{}
		srv := httptest.NewServer(http.HandlerFunc(func(rw http.ResponseWriter, r *http.Request) {
			res := verifC04WsResult{}
			defer func() {
				if p := recover(); p != nil {
					res.panicked = fmt.Sprint(p)
				}
				verifC04WsResChn <- res
			}()
			conn, err := upgrader.Upgrade(rw, r, nil)
			if err != nil {
				return
			}
			client := newWebAgentClient(conn)
			stop := make(chan struct{})
			drained := make(chan struct{})
			go func() {
				defer close(drained)
				for {
					select {
					case _, ok := <-client.sender:
						if !ok {
							return
						}
						res.forwarded++
					case <-stop:
						return
					}
				}
			}()
			func() {
				defer func() { close(stop); <-drained }()
				client.handleConn()
			}()
		}))
		verifC04WsURL = "ws" + strings.TrimPrefix(srv.URL, "http")
	})
	return verifC04WsURL
}

// verifC04WsHandle sends the input as ONE binary message (twice: a second register / bundle on the same
// connection takes other branches) and waits for the handler to finish.
func verifC04WsHandle(in []byte) (string, string) {
	conn, _, err := websocket.DefaultDialer.Dial(verifC04WsServer(), nil)
	if err != nil {
		return "error", "dial"
	}
	replies := 0
	readDone := make(chan struct{})
	go func() {
		defer close(readDone)
		for {
			if _, _, err := conn.ReadMessage(); err != nil {
				return
			}
			replies++
		}
	}()
	_ = conn.WriteMessage(websocket.BinaryMessage, in)
	_ = conn.WriteMessage(websocket.BinaryMessage, in)
	_ = conn.WriteMessage(websocket.CloseMessage, websocket.FormatCloseMessage(websocket.CloseNormalClosure, ""))
	select {
	case res := <-verifC04WsResChn:
		_ = conn.Close()
		<-readDone
		if res.panicked != "" {
			panic("web agent client handler: " + res.panicked)
		}
		if res.forwarded > 0 || replies > 0 {
			return "value", fmt.Sprintf("forwarded=%d,replies=%d", res.forwarded, replies)
		}
		return "error", "-"
	case <-time.After(verifC04Budget()):
		_ = conn.Close()
		return "timeout", "-"
	}
}

func verifC04Decoders() map[string]verifC04Dec {
	return map[string]verifC04Dec{
		"wam-handler": verifC04WsHandle,
		"wam": func(in []byte) (string, string) {
			m, err := unmarshalCbor(bytes.NewReader(in))
			if err != nil {
				return "error", "-"
			}
			switch m := m.(type) {
			case *wamRegister:
				_, _ = bpv7.NewEndpointID(m.endpoint)
			case *wamBundle:
				_ = m.b.ID().String()
			}
			return "value", fmt.Sprintf("type=%d", m.typeCode())
		},
		"rest-build": func(in []byte) (string, string) {
			ra, stop, sent := verifC04Rest()
			defer close(stop)
			w := httptest.NewRecorder()
			ra.handleBuild(w, httptest.NewRequest("POST", "/build", bytes.NewReader(in)))
			if strings.Contains(w.Body.String(), `"error":""`) {
				return "value", fmt.Sprintf("sent=%d", *sent)
			}
			return "error", "-"
		},
		"rest-other": func(in []byte) (string, string) {
			ra, stop, _ := verifC04Rest()
			defer close(stop)
			ra.mailbox.Store(verifC04Uuid, []bpv7.Bundle{})
			ra.handleRegister(httptest.NewRecorder(), httptest.NewRequest("POST", "/register", bytes.NewReader(in)))
			ra.handleFetch(httptest.NewRecorder(), httptest.NewRequest("POST", "/fetch", bytes.NewReader(in)))
			ra.handleUnregister(httptest.NewRecorder(), httptest.NewRequest("POST", "/unregister", bytes.NewReader(in)))
			return "value", "-"
		},
	}
}

func verifC04Wam(m webAgentMessage) []byte {
	var buf bytes.Buffer
	if err := marshalCbor(m, &buf); err != nil {
		panic(err)
	}
	return buf.Bytes()
}

func verifC04BuildBodies() (out []string) {
	keys := []string{"destination", "source", "report_to", "creation_timestamp_epoch", "creation_timestamp_now",
		"creation_timestamp_time", "lifetime", "bundle_ctrl_flags", "canonical", "bundle_age_block", "hop_count_block",
		"payload_block", "previous_node_block", "unknown_method"}
	vals := []string{`null`, `true`, `0`, `-1`, `1e300`, `1.5`, `18446744073709551616`, `""`, `"x"`, `"dtn://a/"`, `"1h"`,
		`[]`, `[null]`, `[1,"x"]`, `{}`, `{"a":null}`, `"\u0000"`}
	base := `"destination":"dtn://dst/","source":"dtn://src/","creation_timestamp_now":1,"lifetime":"1h","payload_block":"p"`
	out = append(out, fmt.Sprintf(`{"uuid":%q,"arguments":{%s}}`, verifC04Uuid, base))
	for _, k := range keys {
		for _, v := range vals {
			out = append(out, fmt.Sprintf(`{"uuid":%q,"arguments":{%q:%s}}`, verifC04Uuid, k, v))
			out = append(out, fmt.Sprintf(`{"uuid":%q,"arguments":{%s,%q:%s}}`, verifC04Uuid, base, k, v))
		}
	}
	for _, v := range append(vals, `{"destination":"dtn://dst/"}`) {
		out = append(out, fmt.Sprintf(`{"uuid":%q,"arguments":%s}`, verifC04Uuid, v))
		out = append(out, fmt.Sprintf(`{"uuid":%s,"arguments":{%s}}`, v, base))
		out = append(out, fmt.Sprintf(`{"uuid":%s,"endpoint_id":%s}`, v, v))
		out = append(out, v)
	}
	out = append(out, "", "{", `{"uuid":`, `{"uuid":"`+strings.Repeat("u", 60000)+`"}`,
		`{"uuid":"`+verifC04Uuid+`","arguments":{"payload_block":`+strings.Repeat("[", 9000)+strings.Repeat("]", 9000)+`}}`,
		`{"uuid":"`+verifC04Uuid+`","arguments":{"payload_block":`+strings.Repeat("[", 30000)+`}}`)
	return
}

func verifC04Gen(r *verifC04Rng, thorough bool) (cases []verifC04Case) {
	nRand := 100
	if thorough {
		nRand = 4000
	}
	b, err := bpv7.Builder().
		Source("dtn://src/").Destination("dtn://dst/").
		CreationTimestampEpoch().Lifetime("10m").
		BundleAgeBlock(uint64(5)).
		PayloadBlock([]byte("hello")).
		Build()
	if err != nil {
		panic(err)
	}
	seeds := [][]byte{
		verifC04Wam(newStatusMessage(nil)), verifC04Wam(newStatusMessage(fmt.Errorf("some error"))),
		verifC04Wam(newRegisterMessage("dtn://foo/bar")), verifC04Wam(newBundleMessage(b)),
		verifC04Wam(newSyscallRequestMessage("node_id")), verifC04Wam(newSyscallResponseMessage("node_id", []byte("dtn://n/"))),
	}
	for _, s := range seeds {
		cases = append(cases, verifC04Case{"wam", s})
		cases = append(cases, verifC04CborBoundaries("wam", s)...)
		cases = append(cases, verifC04Truncations("wam", s)...)
		cases = append(cases, verifC04Random("wam", s, nRand, r)...)
	}
	// every message also takes the way through the agent's connection handler
	for _, c := range cases {
		cases = append(cases, verifC04Case{"wam-handler", c.in})
	}
	for code := uint64(0); code < 8; code++ {
		cases = append(cases, verifC04Case{"wam", append(append(verifC04Head(4, 2, 0), verifC04Head(0, code, 0)...), 0x60)})
	}
	cases = append(cases, verifC04Case{"wam", verifC04Wam(newSyscallResponseMessage(strings.Repeat("r", 30000), bytes.Repeat([]byte{1}, 30000)))})
	for _, body := range verifC04BuildBodies() {
		cases = append(cases, verifC04Case{"rest-build", []byte(body)}, verifC04Case{"rest-other", []byte(body)})
	}
	cases = append(cases, verifC04Random("rest-build", []byte(verifC04BuildBodies()[0]), nRand, r)...)
	return
}

func TestVerifC04(t *testing.T) {
	log.SetLevel(log.PanicLevel)
	verifC04Main(t, "TestVerifC04", verifC04Decoders(), verifC04Gen)
}
