package agent

// Correspondence harness for C17, WebSocket agent messages (attached with `go test -overlay`).
//
//   wam enc <desc> <hex of marshalCbor> <trailer> <result of unmarshalCbor(hex ++ trailer)>
//   wam dec <hex> <result>
//   desc: st:<hex> | rg:<hex> | rq:<hex> | rs:<hex>:<hex>          (the bundle message is C01's subject)

import (
	"bufio"
	"bytes"
	"encoding/hex"
	"fmt"
	"os"
	"strconv"
	"strings"
	"testing"

	"github.com/dtn7/cboring"
)

type c17Rng struct{ s uint64 }

func (r *c17Rng) next() uint64 {
	r.s += 0x9e3779b97f4a7c15
	z := r.s
	z = (z ^ (z >> 30)) * 0xbf58476d1ce4e5b9
	z = (z ^ (z >> 27)) * 0x94d049bb133111eb
	return z ^ (z >> 31)
}
func (r *c17Rng) intn(n int) int { return int(r.next() % uint64(n)) }
func (r *c17Rng) bytes(n int) []byte {
	b := make([]byte, n)
	for i := range b {
		b[i] = byte(r.next())
	}
	return b
}

func c17Hex(b []byte) string {
	if len(b) == 0 {
		return "-"
	}
	return hex.EncodeToString(b)
}

func c17ErrClass(err error) string {
	if strings.Contains(err.Error(), "EOF") {
		return "err/eof"
	}
	return "err/inv"
}

func c17Desc(m webAgentMessage) string {
	switch v := m.(type) {
	case *wamStatus:
		return "st:" + c17Hex([]byte(v.errorMsg))
	case *wamRegister:
		return "rg:" + c17Hex([]byte(v.endpoint))
	case *wamSyscallRequest:
		return "rq:" + c17Hex([]byte(v.request))
	case *wamSyscallResponse:
		return "rs:" + c17Hex([]byte(v.request)) + ":" + c17Hex(v.response)
	case *wamBundle:
		return "bundle"
	}
	return "?"
}

func c17Dec(b []byte, anyErr bool) (res string) {
	defer func() {
		if p := recover(); p != nil {
			res = "panic"
		}
	}()
	rd := bytes.NewReader(b)
	m, err := unmarshalCbor(rd)
	if err != nil {
		if anyErr {
			return "err/any"
		}
		return c17ErrClass(err)
	}
	return fmt.Sprintf("ok/%s/%d", c17Desc(m), len(b)-rd.Len())
}

func TestVerifC17(t *testing.T) {
	outPath := os.Getenv("VERIF_OUT")
	if outPath == "" {
		t.Skip("VERIF_OUT not set")
	}
	fl, err := os.Create(outPath)
	if err != nil {
		t.Fatal(err)
	}
	defer fl.Close()
	w := bufio.NewWriterSize(fl, 1<<20)
	defer w.Flush()
	seed, _ := strconv.ParseUint(os.Getenv("VERIF_SEED"), 10, 64)
	thorough := os.Getenv("VERIF_TIER") == "thorough"
	r := &c17Rng{s: seed*2654435761 + 17000017}
	scale := 1
	if thorough {
		scale = 8
	}

	emit := func(m webAgentMessage) []byte {
		var buf bytes.Buffer
		if err := marshalCbor(m, &buf); err != nil {
			fmt.Fprintf(w, "wam enc %s merr - -\n", c17Desc(m))
			return nil
		}
		enc := buf.Bytes()
		tr := r.bytes(r.intn(4))
		fmt.Fprintf(w, "wam enc %s %s %s %s\n", c17Desc(m), c17Hex(enc), c17Hex(tr), c17Dec(append(append([]byte{}, enc...), tr...), false))
		return enc
	}
	lens := []int{0, 1, 23, 24, 255, 256, 65535, 65536}
	var samples [][]byte
	for _, l := range lens {
		s := string(r.bytes(l))
		samples = append(samples, emit(&wamStatus{s}))
		emit(&wamRegister{s})
		emit(&wamSyscallRequest{s})
		for _, l2 := range lens {
			if l > 256 && l2 > 256 && l != l2 {
				continue
			}
			enc := emit(newSyscallResponseMessage(s, r.bytes(l2)))
			if l == 1 && l2 == 1 {
				samples = append(samples, enc)
			}
		}
	}
	emit(newStatusMessage(nil))
	emit(newStatusMessage(fmt.Errorf("some error: %d", 23)))
	emit(newRegisterMessage("dtn://foo/bar"))
	emit(newSyscallResponseMessage("node_id", nil))
	for i := 0; i < 60*scale; i++ {
		switch r.intn(4) {
		case 0:
			emit(&wamStatus{string(r.bytes(r.intn(300)))})
		case 1:
			emit(&wamRegister{string(r.bytes(r.intn(300)))})
		case 2:
			emit(&wamSyscallRequest{string(r.bytes(r.intn(300)))})
		default:
			emit(newSyscallResponseMessage(string(r.bytes(r.intn(300))), r.bytes(r.intn(3000))))
		}
	}

	// ALL type codes 0..255 (and some larger) in front of a text body / an array body
	for v := 0; v < 260; v++ {
		for _, body := range [][]byte{{0x61, 0x78}, {0x82, 0x61, 0x78, 0x41, 0x01}} {
			var buf bytes.Buffer
			_ = cboring.WriteArrayLength(2, &buf)
			_ = cboring.WriteUInt(uint64(v), &buf)
			buf.Write(body)
			b := buf.Bytes()
			// the bundle message (code 2) hands the stream to the bundle decoder: only accept/reject is compared
			fmt.Fprintf(w, "wam dec %s %s\n", c17Hex(b), c17Dec(b, v == 2))
		}
	}
	// truncations and mutations of short messages
	interesting := []byte{0x00, 0x01, 0x03, 0x04, 0x05, 0x17, 0x18, 0x19, 0x1b, 0x1c, 0x40, 0x41, 0x60, 0x61, 0x62, 0x7a, 0x7b, 0x80, 0x81, 0x82, 0x83, 0x9f, 0xf4, 0xff}
	for _, s := range [][]byte{samples[1], samples[len(samples)-1]} {
		if len(s) > 12 {
			continue
		}
		for k := 0; k < len(s); k++ {
			fmt.Fprintf(w, "wam dec %s %s\n", c17Hex(s[:k]), c17Dec(s[:k], false))
		}
		for pos := 0; pos < len(s); pos++ {
			for _, v := range interesting {
				b := append([]byte{}, s...)
				b[pos] = v
				isBundle := len(b) > 1 && b[1] == 2
				fmt.Fprintf(w, "wam dec %s %s\n", c17Hex(b), c17Dec(b, isBundle))
			}
		}
	}
	for v := 0; v <= 8; v++ {
		b := []byte{byte(0x80 + v), 0x00, 0x61, 0x78, 0x00}
		fmt.Fprintf(w, "wam dec %s %s\n", c17Hex(b), c17Dec(b, false))
	}

	// streams of 1..20 messages on one connection
	for i := 0; i < 40*scale; i++ {
		n := 1 + r.intn(20)
		var descs, got []string
		var buf bytes.Buffer
		for j := 0; j < n; j++ {
			var m webAgentMessage
			switch r.intn(4) {
			case 0:
				m = &wamStatus{string(r.bytes(r.intn(30)))}
			case 1:
				m = &wamRegister{string(r.bytes(r.intn(30)))}
			case 2:
				m = &wamSyscallRequest{string(r.bytes(r.intn(30)))}
			default:
				m = newSyscallResponseMessage(string(r.bytes(r.intn(30))), r.bytes(r.intn(300)))
			}
			descs = append(descs, c17Desc(m))
			_ = marshalCbor(m, &buf)
		}
		all := buf.Bytes()
		rd := bytes.NewReader(all)
		for rd.Len() > 0 {
			m, err := unmarshalCbor(rd)
			if err != nil {
				got = append(got, "!"+c17ErrClass(err)[4:])
				break
			}
			got = append(got, fmt.Sprintf("%s@%d", c17Desc(m), len(all)-rd.Len()))
		}
		fmt.Fprintf(w, "wam stream %s %s %s\n", strings.Join(descs, "~"), c17Hex(all), strings.Join(got, "~"))
	}
}
