package bpv7

// Correspondence harness for C10 (reassembly accepts any covering set of fragments and nothing else).
// Writes one observation per line to $VERIF_OUT; the format is documented in /verif/lean/Driver/C10.lean.

import (
	"bufio"
	"bytes"
	"encoding/json"
	"fmt"
	"os"
	"sort"
	"strconv"
	"strings"
	"testing"

	log "github.com/sirupsen/logrus"
)

// vfPoolFrag is a fragment with its provenance: "1" first-level (cut by Bundle.Fragment from the
// original), "2" second-level (cut by Bundle.Fragment from a first-level fragment), "s" built by hand.
type vfPoolFrag struct {
	b   Bundle
	lvl string
}

func vfTypes(b Bundle) string {
	var ts []string
	for _, cb := range b.CanonicalBlocks {
		if cb.TypeCode() != ExtBlockTypePayloadBlock {
			ts = append(ts, strconv.FormatUint(cb.TypeCode(), 10))
		}
	}
	if len(ts) == 0 {
		return "-"
	}
	return strings.Join(ts, ".")
}

func vfFragDesc(f vfPoolFrag) string {
	isf := 0
	if f.b.PrimaryBlock.BundleControlFlags.Has(IsFragment) {
		isf = 1
	}
	return fmt.Sprintf("%s:%d:%d:%d:%s:%s", f.lvl, isf, f.b.PrimaryBlock.FragmentOffset, f.b.PrimaryBlock.TotalDataLength,
		vfHex(vfPayload(f.b)), vfTypes(f.b))
}

// vfHandFragment builds the fragment [off, off+n) of b by hand (the way a peer's implementation would).
func vfHandFragment(b Bundle, off, n int) Bundle {
	pb := b.PrimaryBlock
	pb.BundleControlFlags |= IsFragment
	pb.FragmentOffset = uint64(off)
	pb.TotalDataLength = uint64(len(vfPayload(b)))
	pb.CRC = nil
	var cbs []CanonicalBlock
	for _, cb := range b.CanonicalBlocks {
		if cb.TypeCode() == ExtBlockTypePayloadBlock {
			c := CanonicalBlock{BlockNumber: cb.BlockNumber, BlockControlFlags: cb.BlockControlFlags, CRCType: cb.CRCType,
				Value: NewPayloadBlock(append([]byte{}, vfPayload(b)[off:off+n]...))}
			cbs = append(cbs, c)
			continue
		}
		if off > 0 && !cb.BlockControlFlags.Has(ReplicateBlock) {
			continue
		}
		cbs = append(cbs, cb)
	}
	return Bundle{PrimaryBlock: pb, CanonicalBlocks: cbs}
}

// vfObserveReassembly calls IsBundleReassemblable and ReassembleFragments on the given order.
func vfObserveReassembly(orig Bundle, set []vfPoolFrag) string {
	origSer := vfSer(orig)
	bs := make([]Bundle, len(set))
	descs := make([]string, len(set))
	order := make([]int, len(set))
	for i, f := range set {
		bs[i] = f.b
		descs[i] = vfFragDesc(f)
		order[i] = i
	}
	able := vfReassemblable(bs, order)
	rb, oc := vfReassemble(bs, order)
	res := oc
	if oc == "ok" {
		ident := 0
		if bytes.Equal(vfSer(rb), origSer) {
			ident = 1
		}
		res = fmt.Sprintf("ok:%s:%d:%s", vfHex(vfPayload(rb)), ident, vfTypes(rb))
	}
	fr := "-"
	if len(descs) > 0 {
		fr = strings.Join(descs, ";")
	}
	return fmt.Sprintf("reasm %s %s %s %s %s", vfHex(vfPayload(orig)), vfTypes(orig), fr, able, res)
}

// vfPool cuts the bundle with up to three limits and cuts some of the fragments again.
func vfPool(r *vfRng, b Bundle, maxPool int) (pool []vfPoolFrag) {
	n, err := vfNumbersOf(b)
	if err != nil {
		return nil
	}
	seen := map[string]bool{}
	add := func(f Bundle, lvl string) {
		k := fmt.Sprintf("%d-%d", f.PrimaryBlock.FragmentOffset, len(vfPayload(f)))
		if seen[k+lvl] || len(pool) >= maxPool {
			return
		}
		seen[k+lvl] = true
		pool = append(pool, vfPoolFrag{f, lvl})
	}
	cut := func(b Bundle, ov, size int) []Bundle {
		// a limit between the first fragment's overhead estimate and the size (retry: the estimate
		// varies by a byte or two with the widths of the heads)
		if size-ov < 3 {
			return nil
		}
		for try := 0; try < 8; try++ {
			m := ov + 2 + r.intn(size-ov-2)
			if frags, err := vfCloneBundle(b).Fragment(m); err == nil && len(frags) >= 2 {
				return frags
			}
		}
		return nil
	}
	for k := 0; k < 3; k++ {
		frags := cut(b, n.overhead, n.size)
		for _, f := range frags {
			add(f, "1")
		}
		if len(frags) == 0 {
			continue
		}
		// second level: cut one or two of the larger fragments again
		for t := 0; t < 2; t++ {
			f := frags[r.intn(len(frags))]
			fl := len(vfPayload(f))
			if fl < 2 {
				continue
			}
			fn, err := vfNumbersOf(f)
			if err != nil {
				continue
			}
			for _, s := range cut(f, fn.overhead, fn.size) {
				add(s, "2")
			}
		}
	}
	return pool
}

func vfPermutations(n int, f func([]int)) {
	p := make([]int, n)
	for i := range p {
		p[i] = i
	}
	var rec func(k int)
	rec = func(k int) {
		if k == n {
			f(p)
			return
		}
		for i := k; i < n; i++ {
			p[k], p[i] = p[i], p[k]
			rec(k + 1)
			p[k], p[i] = p[i], p[k]
		}
	}
	rec(0)
}

// vfSubsets enumerates the index subsets of {0..n-1} with 1..maxK elements.
func vfSubsets(n, maxK int, f func([]int)) {
	var cur []int
	var rec func(start int)
	rec = func(start int) {
		if len(cur) > 0 {
			f(cur)
		}
		if len(cur) == maxK {
			return
		}
		for i := start; i < n; i++ {
			cur = append(cur, i)
			rec(i + 1)
			cur = cur[:len(cur)-1]
		}
	}
	rec(0)
}

// vfSameInput compares the input part of two observation lines (operation, payload, block types, fragments).
func vfSameInput(a, b string) bool {
	fa, fb := strings.Fields(a), strings.Fields(b)
	if len(fa) < 4 || len(fb) < 4 {
		return false
	}
	for i := 0; i < 4; i++ {
		if fa[i] != fb[i] {
			return false
		}
	}
	return true
}

func TestVerifC10(t *testing.T) {
	outPath := os.Getenv("VERIF_OUT")
	if outPath == "" {
		t.Skip("VERIF_OUT not set")
	}
	log.SetLevel(log.ErrorLevel)
	f, err := os.Create(outPath)
	if err != nil {
		t.Fatal(err)
	}
	defer f.Close()
	w := bufio.NewWriterSize(f, 1<<20)
	defer w.Flush()
	seed, _ := strconv.ParseUint(os.Getenv("VERIF_SEED"), 10, 64)
	thorough := os.Getenv("VERIF_TIER") == "thorough"
	only := ""
	if rp := os.Getenv("VERIF_REPLAY"); rp != "" {
		raw, err := os.ReadFile(rp)
		if err != nil {
			t.Fatal(err)
		}
		var r struct {
			MinimalInput string `json:"minimal_input"`
			Seed         uint64 `json:"seed"`
			Tier         string `json:"tier"`
		}
		if err := json.Unmarshal(raw, &r); err != nil {
			t.Fatal(err)
		}
		only, seed, thorough = r.MinimalInput, r.Seed, r.Tier == "thorough"
	}
	r := &vfRng{s: seed*2654435761 + 10}
	count := map[string]int{}
	emit := func(part, s string) {
		if only != "" && !vfSameInput(s, only) {
			return
		}
		fmt.Fprintln(w, s)
		count[part]++
		if fs := strings.Fields(s); len(fs) > 5 {
			count["outcome-reassemblable-"+fs[4]]++
		}
	}
	specs := vfFixedSpecs()

	// (A) pools from up to three fragmentations with different limits + second-level fragmentation
	nPools := 6
	if thorough {
		nPools = 30
	}
	for pi := 0; pi < nPools; pi++ {
		s := specs[(pi*7+1)%len(specs)]
		if pi >= len(specs) {
			s = vfRandomSpec(r, 7000+pi)
		}
		p := 30 + r.intn(40)
		b, err := s.build(r.bytes(p))
		if err != nil {
			fmt.Fprintln(w, "# build error "+err.Error())
			continue
		}
		maxPool := 10
		if pi%3 == 2 {
			maxPool = 16
		}
		pool := vfPool(r, b, maxPool)
		fmt.Fprintf(w, "# pool %d: spec=%s payload=%d elements=%d\n", pi, s.name, p, len(pool))
		if len(pool) < 3 {
			continue
		}
		pick := func(idx []int) []vfPoolFrag {
			out := make([]vfPoolFrag, len(idx))
			for i, j := range idx {
				out[i] = pool[j]
			}
			return out
		}
		shuffle := func(set []vfPoolFrag) {
			for i := len(set) - 1; i > 0; i-- {
				j := r.intn(i + 1)
				set[i], set[j] = set[j], set[i]
			}
		}
		if len(pool) <= 10 {
			// all subsets of size <= 6, each in pool order and in one random order
			vfSubsets(len(pool), 6, func(idx []int) {
				set := pick(idx)
				emit("A-pool-subsets", vfObserveReassembly(b, set))
				if len(set) > 1 {
					shuffle(set)
					emit("A-pool-subsets", vfObserveReassembly(b, set))
				}
			})
		}
		// all orders of some sets with <= 5 elements
		nOrd := 12
		if thorough {
			nOrd = 60
		}
		for k := 0; k < nOrd; k++ {
			sz := 2 + r.intn(4)
			if sz > len(pool) {
				sz = len(pool)
			}
			if sz == 5 && k%4 != 0 {
				sz = 4
			}
			idx := make([]int, sz)
			for i := range idx {
				idx[i] = r.intn(len(pool)) // duplicates allowed
			}
			set := pick(idx)
			vfPermutations(sz, func(p []int) {
				ord := make([]vfPoolFrag, sz)
				for i, j := range p {
					ord[i] = set[j]
				}
				emit("A-pool-all-orders", vfObserveReassembly(b, ord))
			})
		}
		// random multisets with duplicates, random order; half of them seeded with a covering set
		nMul := 150
		if thorough {
			nMul = 600
		}
		for k := 0; k < nMul; k++ {
			var set []vfPoolFrag
			if k%2 == 0 {
				// one complete first-level cut (consecutive first-level elements form one) plus extras
				for _, f := range pool {
					if f.lvl == "1" {
						set = append(set, f)
						if int(f.b.PrimaryBlock.FragmentOffset)+len(vfPayload(f.b)) == p {
							break
						}
					}
				}
				if r.intn(3) == 0 && len(set) > 1 {
					set = append(set[:1], set[2:]...) // drop one: usually no longer covering
				}
			}
			extra := r.intn(6)
			for i := 0; i < extra; i++ {
				set = append(set, pool[r.intn(len(pool))])
			}
			if len(set) == 0 {
				set = append(set, pool[r.intn(len(pool))])
			}
			shuffle(set)
			emit("A-pool-multisets", vfObserveReassembly(b, set))
		}
	}

	// (B) synthetic interval multisets built by hand: exhaustive for small totals, random up to 24
	exT := 5
	if thorough {
		exT = 6
	}
	for T := 1; T <= exT; T++ {
		exK := 4 // number of fragments per multiset
		if !thorough && T > 4 {
			exK = 3
		}
		s := specs[T%len(specs)]
		b, err := s.build(r.bytes(T))
		if err != nil {
			fmt.Fprintln(w, "# build error "+err.Error())
			continue
		}
		var ivs [][2]int
		for o := 0; o < T; o++ {
			for n := 1; o+n <= T; n++ {
				ivs = append(ivs, [2]int{o, n})
			}
		}
		frs := make([]vfPoolFrag, len(ivs))
		for i, iv := range ivs {
			frs[i] = vfPoolFrag{vfHandFragment(b, iv[0], iv[1]), "s"}
		}
		// multisets = non-decreasing index sequences; emitted in that order and reversed
		var cur []int
		var rec func(start int)
		rec = func(start int) {
			if len(cur) > 0 {
				set := make([]vfPoolFrag, len(cur))
				for i, j := range cur {
					set[i] = frs[j]
				}
				emit("B-synthetic-exhaustive", vfObserveReassembly(b, set))
				if len(set) > 1 {
					rev := make([]vfPoolFrag, len(set))
					for i := range set {
						rev[i] = set[len(set)-1-i]
					}
					emit("B-synthetic-exhaustive", vfObserveReassembly(b, rev))
				}
			}
			if len(cur) == exK {
				return
			}
			for i := start; i < len(frs); i++ {
				cur = append(cur, i)
				rec(i)
				cur = cur[:len(cur)-1]
			}
		}
		rec(0)
	}
	nRnd := 2500
	if thorough {
		nRnd = 20000
	}
	for k := 0; k < nRnd; k++ {
		T := 1 + r.intn(24)
		s := specs[k%len(specs)]
		b, err := s.build(r.bytes(T))
		if err != nil {
			continue
		}
		sz := 1 + r.intn(4)
		var set []vfPoolFrag
		// bias towards covering: start from a random partition of [0,T) into <= sz pieces, then perturb
		if k%3 != 0 {
			cuts := map[int]bool{}
			for i := 0; i < sz-1; i++ {
				cuts[1+r.intn(T)] = true
			}
			delete(cuts, T)
			cs := append([]int{0}, vfSortedInts(cuts)...)
			cs = append(cs, T)
			sort.Ints(cs)
			for i := 0; i+1 < len(cs); i++ {
				if cs[i] < cs[i+1] {
					set = append(set, vfPoolFrag{vfHandFragment(b, cs[i], cs[i+1]-cs[i]), "s"})
				}
			}
			// replace / add random intervals
			for i := 0; i < r.intn(3); i++ {
				o := r.intn(T)
				n := r.intn(T - o + 1)
				if len(set) < 4 {
					set = append(set, vfPoolFrag{vfHandFragment(b, o, n), "s"})
				} else {
					set[r.intn(len(set))] = vfPoolFrag{vfHandFragment(b, o, n), "s"}
				}
			}
		} else {
			for i := 0; i < sz; i++ {
				o := r.intn(T)
				n := r.intn(T - o + 1)
				if r.intn(8) != 0 && n == 0 {
					n = 1
				}
				set = append(set, vfPoolFrag{vfHandFragment(b, o, n), "s"})
			}
		}
		for i := len(set) - 1; i > 0; i-- {
			j := r.intn(i + 1)
			set[i], set[j] = set[j], set[i]
		}
		emit("B-synthetic-random", vfObserveReassembly(b, set))
	}

	// (C) degenerate inputs: empty slice, an unfragmented bundle among fragments
	{
		b, _ := specs[1].build(r.bytes(9))
		emit("C-degenerate", vfObserveReassembly(b, nil))
		emit("C-degenerate", vfObserveReassembly(b, []vfPoolFrag{{b, "s"}}))
		emit("C-degenerate", vfObserveReassembly(b, []vfPoolFrag{{vfHandFragment(b, 0, 4), "s"}, {b, "s"}, {vfHandFragment(b, 4, 5), "s"}}))
	}

	// (D) pieces that end beyond the total length they announce: [0,a) and [a,T) of a T-byte payload, both announcing
	// T' with a < T' < T. They tile more than T' bytes; no bundle has such fragments, and the set has to be refused.
	for _, T := range []int{6, 9, 17} {
		b, _ := specs[1].build(r.bytes(T))
		for a := 1; a < T-1; a++ {
			for tp := a + 1; tp < T; tp++ {
				f1, f2 := vfHandFragment(b, 0, a), vfHandFragment(b, a, T-a)
				f1.PrimaryBlock.TotalDataLength, f2.PrimaryBlock.TotalDataLength = uint64(tp), uint64(tp)
				emit("D-beyond-total", vfObserveReassembly(b, []vfPoolFrag{{f1, "x"}, {f2, "x"}}))
				emit("D-beyond-total", vfObserveReassembly(b, []vfPoolFrag{{f2, "x"}, {f1, "x"}}))
			}
		}
	}

	var keys []string
	for k, v := range count {
		keys = append(keys, fmt.Sprintf("%s=%d", k, v))
	}
	sort.Strings(keys)
	fmt.Fprintln(w, "# C10 generator: "+strings.Join(keys, " "))
}
