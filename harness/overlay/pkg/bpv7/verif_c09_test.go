package bpv7

// Correspondence harness for C09 (fragmentation respects the size limit and is exactly invertible).
// Writes one observation per line to $VERIF_OUT; the format is documented in /verif/lean/Driver/C09.lean.

import (
	"bufio"
	"bytes"
	"encoding/hex"
	"encoding/json"
	"fmt"
	"os"
	"sort"
	"strconv"
	"strings"
	"sync"
	"testing"
	"time"

	log "github.com/sirupsen/logrus"
)

// vfCtx is the context of a second-level fragmentation: the bundle is the idx-th fragment of `siblings`,
// which were cut from a bundle serialising to `origSer`.
type vfCtx struct {
	siblings []Bundle
	idx      int
	origSer  []byte
}

// vfObserveFragment runs b.Fragment(mtu) on the real code and renders the observation line.
func vfObserveFragment(r *vfRng, b Bundle, mtu int, ctx *vfCtx) string {
	bser := vfSer(b)
	n, err := vfNumbersOf(b)
	if err != nil {
		return "# numbers error " + err.Error()
	}
	first, others := "e", "e"
	if f, o, e := fragmentExtensionBlocksLen(vfCloneBundle(b), mtu); e == nil {
		first, others = strconv.Itoa(f), strconv.Itoa(o)
	}
	payload := append([]byte(nil), vfPayload(b)...)
	blocks := "-"
	if len(n.blocks) > 0 {
		blocks = strings.Join(n.blocks, ",")
	}

	var frags []Bundle
	var ferr error
	outcome := ""
	// Fragment runs under a (generous, load tolerant) watchdog: a loop that stops advancing (capacity 0)
	// would otherwise eat all memory.
	done := make(chan struct{})
	go func() {
		defer close(done)
		defer func() {
			if p := recover(); p != nil {
				outcome = "panic"
			}
		}()
		frags, ferr = vfCloneBundle(b).Fragment(mtu)
	}()
	select {
	case <-done:
	case <-time.After(10*time.Second + time.Duration(len(payload))*20*time.Millisecond):
		outcome = "hang"
	}
	res, reasm := "", "na"
	switch {
	case outcome == "hang":
		res = "hang"
	case outcome == "panic":
		res = "panic"
	case ferr != nil:
		res = vfErrKind(ferr)
	case len(frags) == 0:
		res = "empty"
	case len(frags) == 1 && bytes.Equal(vfSer(frags[0]), bser):
		res = "self"
	default:
		var parts []string
		for _, f := range frags {
			parts = append(parts, vfFragObs(b, f, true))
		}
		res = strings.Join(parts, ";")
		// reassembly in >= 5 orders must serialise byte-identically to the original
		set := frags
		want := bser
		if ctx != nil {
			set = nil
			set = append(set, ctx.siblings[:ctx.idx]...)
			set = append(set, frags...)
			set = append(set, ctx.siblings[ctx.idx+1:]...)
			want = ctx.origSer
		} else if b.PrimaryBlock.HasFragmentation() {
			set = nil // fragments of a lone fragment do not cover the whole payload
		}
		if set != nil {
			orders := vfShuffles(r, len(set), 6)
			good, bad := 0, ""
			for _, o := range orders {
				rb, oc := vfReassemble(set, o)
				if oc == "ok" && !bytes.Equal(vfSer(rb), want) {
					oc = "differs"
				}
				if oc == "ok" {
					good++
				} else if bad == "" {
					bad = oc
				}
			}
			reasm = fmt.Sprintf("%d/%d", good, len(orders))
			if bad != "" {
				reasm += ":" + bad
			}
		}
	}
	plRep := 0
	if n.plRep {
		plRep = 1
	}
	zt := 0
	if b.PrimaryBlock.CreationTimestamp.IsZeroTime() {
		zt = 1
	}
	return fmt.Sprintf("frag %d %d %d %d %d %d %d %s %s %d:%d:%d %s %s %s %s %s", mtu, uint64(b.PrimaryBlock.BundleControlFlags),
		b.PrimaryBlock.FragmentOffset, b.PrimaryBlock.TotalDataLength, zt, n.pbase, n.size, first, others,
		plRep, n.plPriced, n.plActual0,
		blocks, vfHex(payload), res, reasm, hex.EncodeToString(bser))
}

func vfReplayFragment(t *testing.T, w *bufio.Writer, path string) {
	raw, err := os.ReadFile(path)
	if err != nil {
		t.Fatal(err)
	}
	var rp struct {
		MinimalInput string `json:"minimal_input"`
	}
	if err := json.Unmarshal(raw, &rp); err != nil {
		t.Fatal(err)
	}
	fs := strings.Fields(rp.MinimalInput)
	if len(fs) < 16 || fs[0] != "frag" {
		t.Fatalf("replay file has no frag line")
	}
	mtu, _ := strconv.Atoi(fs[1])
	bs, err := hex.DecodeString(fs[len(fs)-1])
	if err != nil {
		t.Fatal(err)
	}
	b, err := ParseBundle(bytes.NewReader(bs))
	if err != nil {
		t.Fatalf("replay bundle does not parse (lifetime exceeded meanwhile?): %v", err)
	}
	fmt.Fprintln(w, vfObserveFragment(&vfRng{s: 1}, b, mtu, nil))
}

// vfJob produces the observation lines of one bundle (or a small group); jobs run on a worker pool, each
// with its own generator state, and their lines are written in job order: the output is a pure function
// of (seed, tier, code under test).
type vfJob struct {
	part string
	run  func(r *vfRng, emit func(string))
}

func TestVerifC09(t *testing.T) {
	outPath := os.Getenv("VERIF_OUT")
	if outPath == "" {
		t.Skip("VERIF_OUT not set")
	}
	log.SetLevel(log.ErrorLevel)
	f, err := os.Create(outPath)
	if err != nil {
		t.Fatal(err)
	}
	defer f.Close()
	w := bufio.NewWriterSize(f, 1<<20)
	defer w.Flush()
	if rp := os.Getenv("VERIF_REPLAY"); rp != "" {
		vfReplayFragment(t, w, rp)
		return
	}
	seed, _ := strconv.ParseUint(os.Getenv("VERIF_SEED"), 10, 64)
	thorough := os.Getenv("VERIF_TIER") == "thorough"
	r := &vfRng{s: seed*2654435761 + 9}
	var jobs []vfJob
	add := func(part string, run func(r *vfRng, emit func(string))) { jobs = append(jobs, vfJob{part, run}) }

	sweep := func(r *vfRng, emit func(string), b Bundle, lo, hi int, ctx *vfCtx) {
		if lo < 0 {
			lo = 0
		}
		for m := lo; m <= hi; m++ {
			emit(vfObserveFragment(r, b, m, ctx))
		}
	}

	// (A) every block mix of the table x payload 0..pmax x ALL mtu from (minimal overhead - 3) to (size + 3)
	pmax := 32
	if thorough {
		pmax = 48
	}
	specs := vfFixedSpecs()
	for _, s := range specs {
		for p := 0; p <= pmax; p++ {
			s, p := s, p
			add("A-exhaustive", func(r *vfRng, emit func(string)) {
				b, err := s.build(r.bytes(p))
				if err != nil {
					emit("# build error " + err.Error())
					return
				}
				n, err := vfNumbersOf(b)
				if err != nil {
					emit("# numbers error " + err.Error())
					return
				}
				sweep(r, emit, b, n.minOverhead-3, n.size+3, nil)
			})
		}
	}

	// (B) where the payload-length head changes width (chunk capacity around 23/24, 255/256, 65535/65536)
	widths := []int{22, 23, 24, 25, 254, 255, 256, 257}
	plens := []int{60, 300, 600}
	nB := 4
	if thorough {
		nB = 16
		plens = append(plens, 66000, 140000)
		widths = append(widths, 65534, 65535, 65536, 65537)
	}
	for i := 0; i < nB; i++ {
		for _, p := range plens {
			i, p := i, p
			add("B-head-width", func(r *vfRng, emit func(string)) {
				var s vfSpec
				if i < 2 {
					s = specs[[]int{11, 3}[i]] // the tight mix first
				} else {
					s = vfRandomSpec(r, 1000+i)
				}
				b, err := s.build(r.bytes(p))
				if err != nil {
					emit("# build error " + err.Error())
					return
				}
				n, _ := vfNumbersOf(b)
				ms := map[int]bool{}
				for _, c := range widths {
					if c <= p+40 {
						// capacity of the first / of the other fragments close to c
						for _, hl := range []int{0, 1, 2, 4} {
							ms[n.overhead+hl+c] = true
							ms[n.minOverhead+hl+c] = true
						}
					}
				}
				for _, m := range vfSortedInts(ms) {
					if p > 4096 && m < 600 {
						continue // keep the number of fragments of the large payloads moderate
					}
					emit(vfObserveFragment(r, b, m, nil))
				}
			})
		}
	}

	// (B2) a large extension block that is NOT replicated (only the first fragment carries it): the later fragments
	// have more room than the first one, so that the payload-length head of the first and of the later fragments
	// can differ in width. Every block with CRC-32 (the overhead estimate is exact), every mtu across the
	// 23/24 and 255/256 boundaries of both capacities.
	for _, big := range []int{60, 90} {
		big := big
		add("B2-unreplicated-block", func(r *vfRng, emit func(string)) {
			s := vfSpec{name: fmt.Sprintf("big%d", big), src: "dtn://src/", dst: "dtn://n1/app", rpt: "dtn:none",
				pcrc: CRC32, plCrc: CRC32, lifetime: vfHour,
				blocks: []vfBlk{{kind: "gen", num: 2, crc: CRC32, typ: 201, data: r.bytes(big)},
					{kind: "hop", num: 3, flags: ReplicateBlock, crc: CRC32, a: 30, c: 2}}}
			b, err := s.build(r.bytes(700))
			if err != nil {
				emit("# build error " + err.Error())
				return
			}
			n, err := vfNumbersOf(b)
			if err != nil {
				emit("# numbers error " + err.Error())
				return
			}
			lo, hi := n.minOverhead+10, n.overhead+300
			if !thorough {
				// the windows around the two boundaries of the later fragments' capacity
				for m := n.minOverhead + 15; m <= n.minOverhead+40; m++ {
					emit(vfObserveFragment(r, b, m, nil))
				}
				lo, hi = n.minOverhead+230, n.overhead+275
			}
			for m := lo; m <= hi; m++ {
				emit(vfObserveFragment(r, b, m, nil))
			}
		})
	}

	// (C) random block mixes x random payload sizes x sampled mtu (boundaries + random)
	nC := 60
	if thorough {
		nC = 500
	}
	for i := 0; i < nC; i++ {
		i := i
		add("C-random", func(r *vfRng, emit func(string)) {
			s := vfRandomSpec(r, i)
			p := []int{0, 1, 2, 23, 24, 25, 64, 100, 255, 256, 257, 1000, 2000}[r.intn(13)]
			if r.intn(2) == 0 {
				p = r.intn(400)
			}
			b, err := s.build(r.bytes(p))
			if err != nil {
				emit("# build error " + err.Error())
				return
			}
			n, _ := vfNumbersOf(b)
			ms := map[int]bool{}
			for d := -3; d <= 4; d++ {
				ms[n.minOverhead+d] = true
				ms[n.overhead+d] = true
				ms[n.size+d] = true
			}
			for k := 0; k < 6; k++ {
				ms[n.minOverhead+r.intn(n.size-n.minOverhead+4)] = true
			}
			for _, m := range vfSortedInts(ms) {
				if m < 0 || (p > 500 && m < n.overhead+8) {
					continue
				}
				emit(vfObserveFragment(r, b, m, nil))
			}
		})
	}

	// (D) must-not-fragment bundles (also anonymous ones), fitting and not fitting
	for i, s := range []vfSpec{specs[0], specs[1], specs[4]} {
		i, s := i, s
		add("D-must-not-fragment", func(r *vfRng, emit func(string)) {
			s.flags |= MustNotFragmented
			if i == 2 {
				s.src = "dtn:none"
				s.rpt = "dtn:none"
			}
			for _, p := range []int{0, 10, 200} {
				b, err := s.build(r.bytes(p))
				if err != nil {
					emit("# build error " + err.Error())
					continue
				}
				n, _ := vfNumbersOf(b)
				for _, m := range []int{n.minOverhead + 5, n.size - 1, n.size, n.size + 1, 1 << 20} {
					emit(vfObserveFragment(r, b, m, nil))
				}
			}
		})
	}

	// (E) second-level fragmentation: fragments of fragments keep absolute offsets and the original total
	nE := 6
	if thorough {
		nE = 24
	}
	for i := 0; i < nE; i++ {
		i := i
		add("E-refragment", func(r *vfRng, emit func(string)) {
			var s vfSpec
			if i < len(specs) {
				s = specs[(i*5+2)%len(specs)]
			} else {
				s = vfRandomSpec(r, 5000+i)
			}
			p := 40 + r.intn(60)
			b, err := s.build(r.bytes(p))
			if err != nil {
				emit("# build error " + err.Error())
				return
			}
			n, _ := vfNumbersOf(b)
			if n.size-n.overhead < 4 {
				return
			}
			var frags []Bundle
			for try := 0; try < 8 && len(frags) < 2; try++ {
				frags, err = vfCloneBundle(b).Fragment(n.overhead + 2 + r.intn(n.size-n.overhead-2))
				if err != nil {
					frags = nil
				}
			}
			if len(frags) < 2 {
				return
			}
			bser := vfSer(b)
			for idx, fr := range frags {
				if len(vfPayload(fr)) < 2 {
					continue
				}
				fn, err := vfNumbersOf(fr)
				if err != nil {
					continue
				}
				lo, hi := fn.minOverhead-1, fn.size+1
				if !thorough && hi-lo > 14 {
					lo = hi - 14
				}
				sweep(r, emit, fr, lo, hi, &vfCtx{siblings: frags, idx: idx, origSer: bser})
			}
		})
	}

	// run the jobs
	results := make([][]string, len(jobs))
	var wg sync.WaitGroup
	var hangMu sync.Mutex
	sem := make(chan struct{}, 8)
	for ji := range jobs {
		wg.Add(1)
		sem <- struct{}{}
		go func(ji int) {
			defer wg.Done()
			defer func() { <-sem }()
			jr := &vfRng{s: r.s + uint64(ji)*0x9e3779b97f4a7c15}
			jobs[ji].run(jr, func(line string) {
				results[ji] = append(results[ji], line)
				if fs := strings.Fields(line); len(fs) > 14 && fs[0] == "frag" && fs[13] == "hang" {
					// the runaway goroutine cannot be stopped: report this line and leave
					hangMu.Lock()
					fmt.Fprintln(w, line)
					w.Flush()
					f.Close()
					os.Exit(3)
				}
			})
		}(ji)
	}
	wg.Wait()
	count := map[string]int{}
	kinds := map[string]int{}
	for ji, ls := range results {
		for _, l := range ls {
			fmt.Fprintln(w, l)
			if !strings.HasPrefix(l, "#") {
				count[jobs[ji].part]++
				if fs := strings.Fields(l); len(fs) > 13 {
					k := fs[13]
					if n := strings.Count(k, ";"); n > 0 || strings.Contains(k, ":1") {
						switch {
						case n+1 <= 4:
							k = fmt.Sprintf("%d-fragments", n+1)
						case n+1 <= 16:
							k = "5..16-fragments"
						default:
							k = "more-than-16-fragments"
						}
					}
					kinds[k]++
				}
			}
		}
	}
	var ks []string
	for k, v := range kinds {
		ks = append(ks, fmt.Sprintf("%s=%d", k, v))
	}
	sort.Strings(ks)
	fmt.Fprintln(w, "# C09 results of the real code: "+strings.Join(ks, " "))
	var keys []string
	for k, v := range count {
		keys = append(keys, fmt.Sprintf("%s=%d", k, v))
	}
	sort.Strings(keys)
	fmt.Fprintln(w, "# C09 generator: "+strings.Join(keys, " "))
}
