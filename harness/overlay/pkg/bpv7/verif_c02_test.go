package bpv7

// Correspondence harness for C02 (only well-formed bundles are accepted / produced) — attached with
// `go test -overlay` together with verif_c01_test.go (shared helpers). Formats: /verif/lean/Driver/C02.lean.

import (
	"bytes"
	"fmt"
	"os"
	"sort"
	"strconv"
	"strings"
	"testing"
	"time"
)

// ---------------------------------------------------------------- rule violations (one at a time)

// A vRule turns a valid bundle into one that breaks exactly one rule of the statement (as far as the
// generator can tell); the encoding is produced by the harness' own encoder with all CRCs recomputed.
type vRule struct {
	name string
	f    func(r *vRng, b *Bundle, o *vOver, now uint64) bool // false: not applicable to this bundle
}

func vIdx(b *Bundle, pred func(cb *CanonicalBlock) bool) int {
	for i := range b.CanonicalBlocks {
		if pred(&b.CanonicalBlocks[i]) {
			return i
		}
	}
	return -1
}

func vFreeNum(b *Bundle, r *vRng) uint64 {
	for {
		n := 2 + uint64(r.intn(1000))
		if vIdx(b, func(cb *CanonicalBlock) bool { return cb.BlockNumber == n }) < 0 {
			return n
		}
	}
}

func vInsert(b *Bundle, at int, cb CanonicalBlock) {
	cbs := append([]CanonicalBlock{}, b.CanonicalBlocks[:at]...)
	cbs = append(cbs, cb)
	b.CanonicalBlocks = append(cbs, b.CanonicalBlocks[at:]...)
}

func vMakeNamed(b *Bundle) {
	if b.PrimaryBlock.SourceNode == DtnNone() {
		b.PrimaryBlock.SourceNode = EndpointID{IpnEndpoint{7, 1}}
	}
}

func vClearReports(b *Bundle) {
	b.PrimaryBlock.BundleControlFlags &^= vStatusFlags
	for i := range b.CanonicalBlocks {
		b.CanonicalBlocks[i].BlockControlFlags &^= StatusReportBlock
	}
}

var vRules = []vRule{
	{"version", func(r *vRng, b *Bundle, o *vOver, now uint64) bool {
		o.version = vPtrU([]uint64{0, 6, 8, 70, 1 << 40}[r.intn(5)])
		return true
	}},
	{"no-blocks", func(r *vRng, b *Bundle, o *vOver, now uint64) bool {
		b.CanonicalBlocks = nil
		return true
	}},
	{"no-payload", func(r *vRng, b *Bundle, o *vOver, now uint64) bool {
		if len(b.CanonicalBlocks) < 2 {
			return false
		}
		b.CanonicalBlocks = b.CanonicalBlocks[:len(b.CanonicalBlocks)-1]
		return true
	}},
	{"payload-generic-last", func(r *vRng, b *Bundle, o *vOver, now uint64) bool {
		// the last block is not a payload block although it is numbered 1
		last := len(b.CanonicalBlocks) - 1
		b.CanonicalBlocks[last].Value = NewGenericExtensionBlock([]byte("x"), 33)
		return true
	}},
	{"two-payloads", func(r *vRng, b *Bundle, o *vOver, now uint64) bool {
		vInsert(b, r.intn(len(b.CanonicalBlocks)), CanonicalBlock{BlockNumber: vFreeNum(b, r), Value: NewPayloadBlock([]byte("second"))})
		return true
	}},
	{"two-payloads-both-1", func(r *vRng, b *Bundle, o *vOver, now uint64) bool {
		vInsert(b, r.intn(len(b.CanonicalBlocks)), CanonicalBlock{BlockNumber: 1, Value: NewPayloadBlock([]byte("second"))})
		return true
	}},
	{"payload-number", func(r *vRng, b *Bundle, o *vOver, now uint64) bool {
		b.CanonicalBlocks[len(b.CanonicalBlocks)-1].BlockNumber = []uint64{0, vFreeNum(b, r), 1 << 33}[r.intn(3)]
		return true
	}},
	{"payload-not-last", func(r *vRng, b *Bundle, o *vOver, now uint64) bool {
		n := len(b.CanonicalBlocks)
		if n < 2 {
			vInsert(b, 1, CanonicalBlock{BlockNumber: vFreeNum(b, r), Value: NewGenericExtensionBlock([]byte{1, 2}, 40)})
			return true
		}
		i := r.intn(n - 1)
		b.CanonicalBlocks[i], b.CanonicalBlocks[n-1] = b.CanonicalBlocks[n-1], b.CanonicalBlocks[i]
		return true
	}},
	{"duplicate-number", func(r *vRng, b *Bundle, o *vOver, now uint64) bool {
		n := len(b.CanonicalBlocks)
		if n < 2 {
			return false
		}
		i := r.intn(n - 1)
		vInsert(b, r.intn(n), CanonicalBlock{BlockNumber: b.CanonicalBlocks[i].BlockNumber, Value: NewGenericExtensionBlock(nil, 41)})
		return true
	}},
	{"duplicate-number-with-payload", func(r *vRng, b *Bundle, o *vOver, now uint64) bool {
		vInsert(b, 0, CanonicalBlock{BlockNumber: 1, Value: NewGenericExtensionBlock(nil, 42)})
		return true
	}},
	{"duplicate-type", func(r *vRng, b *Bundle, o *vOver, now uint64) bool {
		n := len(b.CanonicalBlocks)
		if n < 2 {
			return false
		}
		i := r.intn(n - 1)
		c := b.CanonicalBlocks[i]
		c.BlockNumber = vFreeNum(b, r)
		vInsert(b, r.intn(n), c)
		return true
	}},
	{"duplicate-type-unknown", func(r *vRng, b *Bundle, o *vOver, now uint64) bool {
		if vIdx(b, func(cb *CanonicalBlock) bool { return cb.TypeCode() == 77 }) >= 0 {
			return false
		}
		vInsert(b, 0, CanonicalBlock{BlockNumber: vFreeNum(b, r), Value: NewGenericExtensionBlock([]byte{1}, 77)})
		vInsert(b, r.intn(len(b.CanonicalBlocks)), CanonicalBlock{BlockNumber: vFreeNum(b, r), Value: NewGenericExtensionBlock([]byte{2}, 77)})
		return true
	}},
	{"eid-dst", func(r *vRng, b *Bundle, o *vOver, now uint64) bool {
		b.PrimaryBlock.Destination = EndpointID{IpnEndpoint{0, uint64(r.intn(3))}}
		return true
	}},
	{"eid-src", func(r *vRng, b *Bundle, o *vOver, now uint64) bool {
		vMakeNamed(b)
		b.PrimaryBlock.SourceNode = EndpointID{IpnEndpoint{uint64(1 + r.intn(3)), 0}}
		return true
	}},
	{"eid-rpt", func(r *vRng, b *Bundle, o *vOver, now uint64) bool {
		b.PrimaryBlock.ReportTo = EndpointID{IpnEndpoint{0, 0}}
		return true
	}},
	{"eid-dtn-text", func(r *vRng, b *Bundle, o *vOver, now uint64) bool {
		bad := []string{"///x", "//a b/", "//node", "none", "//n\xc3\xb6/", "", "/n/"}[r.intn(7)]
		w := &vW{}
		w.array(2)
		w.uint(1)
		w.tstr(bad)
		o.eidRaw = map[string][]byte{[]string{"dst", "rpt"}[r.intn(2)]: w.buf}
		return true
	}},
	{"eid-dtn-other-major", func(r *vRng, b *Bundle, o *vOver, now uint64) bool {
		it := [][]byte{{0x20}, {0x40}, {0x80}, {0xa0}, {0xf4}, {0x38, 0x05}, {0x43, '/', '/', 'a'}}[r.intn(7)]
		o.eidRaw = map[string][]byte{[]string{"dst", "rpt"}[r.intn(2)]: append([]byte{0x82, 0x01}, it...)}
		return true
	}},
	{"eid-dtn-demux-lf", func(r *vRng, b *Bundle, o *vOver, now uint64) bool {
		b.PrimaryBlock.Destination = EndpointID{DtnEndpoint{NodeName: "n", Demux: "a\nb"}}
		return true
	}},
	{"eid-prev-node", func(r *vRng, b *Bundle, o *vOver, now uint64) bool {
		i := vIdx(b, func(cb *CanonicalBlock) bool { return cb.TypeCode() == ExtBlockTypePreviousNodeBlock })
		bad := NewPreviousNodeBlock(EndpointID{IpnEndpoint{uint64(r.intn(2)), 0}})
		if i >= 0 {
			b.CanonicalBlocks[i].Value = bad
		} else {
			vInsert(b, 0, CanonicalBlock{BlockNumber: vFreeNum(b, r), CRCType: CRCType(r.intn(3)), Value: bad})
		}
		return true
	}},
	{"fragment-and-must-not-fragment", func(r *vRng, b *Bundle, o *vOver, now uint64) bool {
		b.PrimaryBlock.BundleControlFlags |= IsFragment | MustNotFragmented
		return true
	}},
	{"admin-with-status-request", func(r *vRng, b *Bundle, o *vOver, now uint64) bool {
		vMakeNamed(b)
		b.PrimaryBlock.BundleControlFlags |= AdministrativeRecordPayload
		b.PrimaryBlock.BundleControlFlags |= []BundleControlFlags{StatusRequestReception, StatusRequestForward, StatusRequestDelivery, StatusRequestDeletion}[r.intn(4)]
		return true
	}},
	{"admin-with-reporting-block", func(r *vRng, b *Bundle, o *vOver, now uint64) bool {
		vMakeNamed(b)
		vClearReports(b)
		b.PrimaryBlock.BundleControlFlags |= AdministrativeRecordPayload
		b.CanonicalBlocks[r.intn(len(b.CanonicalBlocks))].BlockControlFlags |= StatusReportBlock
		return true
	}},
	{"anonymous-with-status-request", func(r *vRng, b *Bundle, o *vOver, now uint64) bool {
		vClearReports(b)
		b.PrimaryBlock.SourceNode = DtnNone()
		b.PrimaryBlock.BundleControlFlags &^= IsFragment
		b.PrimaryBlock.BundleControlFlags |= MustNotFragmented
		b.PrimaryBlock.BundleControlFlags |= []BundleControlFlags{StatusRequestReception, StatusRequestForward, StatusRequestDelivery, StatusRequestDeletion}[r.intn(4)]
		return true
	}},
	{"anonymous-with-reporting-block", func(r *vRng, b *Bundle, o *vOver, now uint64) bool {
		vClearReports(b)
		b.PrimaryBlock.SourceNode = DtnNone()
		b.PrimaryBlock.BundleControlFlags &^= IsFragment
		b.PrimaryBlock.BundleControlFlags |= MustNotFragmented
		b.CanonicalBlocks[r.intn(len(b.CanonicalBlocks))].BlockControlFlags |= StatusReportBlock
		return true
	}},
	{"anonymous-may-fragment", func(r *vRng, b *Bundle, o *vOver, now uint64) bool {
		vClearReports(b)
		b.PrimaryBlock.SourceNode = DtnNone()
		b.PrimaryBlock.BundleControlFlags &^= MustNotFragmented
		return true
	}},
	{"zero-time-no-age", func(r *vRng, b *Bundle, o *vOver, now uint64) bool {
		b.PrimaryBlock.CreationTimestamp[0] = 0
		for {
			i := vIdx(b, func(cb *CanonicalBlock) bool { return cb.TypeCode() == ExtBlockTypeBundleAgeBlock })
			if i < 0 {
				break
			}
			b.CanonicalBlocks = append(b.CanonicalBlocks[:i:i], b.CanonicalBlocks[i+1:]...)
		}
		return true
	}},
	{"hop-count-exceeded", func(r *vRng, b *Bundle, o *vOver, now uint64) bool {
		lim := uint8(r.intn(255))
		hc := &HopCountBlock{Limit: lim, Count: lim + 1 + uint8(r.intn(255-int(lim)))}
		i := vIdx(b, func(cb *CanonicalBlock) bool { return cb.TypeCode() == ExtBlockTypeHopCountBlock })
		if i >= 0 {
			b.CanonicalBlocks[i].Value = hc
		} else {
			vInsert(b, 0, CanonicalBlock{BlockNumber: vFreeNum(b, r), CRCType: CRCType(r.intn(3)), Value: hc})
		}
		return true
	}},
	{"hop-field-256", func(r *vRng, b *Bundle, o *vOver, now uint64) bool {
		i := vIdx(b, func(cb *CanonicalBlock) bool { return cb.TypeCode() == ExtBlockTypeHopCountBlock })
		if i < 0 {
			vInsert(b, 0, CanonicalBlock{BlockNumber: vFreeNum(b, r), Value: NewHopCountBlock(3)})
			i = 0
		}
		// either field out of the uint8 range; a count of exactly 256 would wrap to 0
		w := &vW{}
		w.array(2)
		if r.chance(50) {
			w.uint(256 + uint64(r.intn(3)))
			w.uint(1)
		} else {
			w.uint(uint64(r.intn(256)))
			w.uint([]uint64{256, 256, 512, 1 << 32, 257}[r.intn(5)])
		}
		o.inner = map[int][]byte{i: w.buf}
		return true
	}},
	{"lifetime-over-by-time", func(r *vRng, b *Bundle, o *vOver, now uint64) bool {
		if b.PrimaryBlock.CreationTimestamp[0] == 0 {
			b.PrimaryBlock.CreationTimestamp[0] = now - 1
		}
		back := 10000 + uint64(r.intn(1<<30))
		b.PrimaryBlock.CreationTimestamp[0] = now - back
		b.PrimaryBlock.Lifetime = back - 5000 - uint64(r.intn(5000))
		return true
	}},
	{"lifetime-over-by-age", func(r *vRng, b *Bundle, o *vOver, now uint64) bool {
		b.PrimaryBlock.CreationTimestamp[0] = 0
		b.PrimaryBlock.Lifetime = r.u64() >> 1
		age := NewBundleAgeBlock(b.PrimaryBlock.Lifetime + 1 + uint64(r.intn(1000)))
		i := vIdx(b, func(cb *CanonicalBlock) bool { return cb.TypeCode() == ExtBlockTypeBundleAgeBlock })
		if i >= 0 {
			b.CanonicalBlocks[i].Value = age
		} else {
			vInsert(b, 0, CanonicalBlock{BlockNumber: vFreeNum(b, r), Value: age})
		}
		return true
	}},
	{"lifetime-int64-wrap", func(r *vRng, b *Bundle, o *vOver, now uint64) bool {
		// time.Duration(lifetime) * time.Millisecond wraps around
		if b.PrimaryBlock.CreationTimestamp[0] == 0 {
			return false
		}
		b.PrimaryBlock.Lifetime = []uint64{1<<63 - 1, 1 << 63, 1<<64 - 1, 9223372036855, 9223372036854, 18446744073710, 1 << 62}[r.intn(7)]
		return true
	}},
	{"time-int64-wrap", func(r *vRng, b *Bundle, o *vOver, now uint64) bool {
		b.PrimaryBlock.CreationTimestamp[0] = []uint64{1<<63 - 1, 1 << 63, 1<<64 - 1, 1<<63 - 946684800000, 1<<63 - 946684800001}[r.intn(5)]
		return true
	}},
	{"signature-sizes", func(r *vRng, b *Bundle, o *vOver, now uint64) bool {
		i := vIdx(b, func(cb *CanonicalBlock) bool { _, ok := cb.Value.(*SignatureBlock); return ok })
		if i < 0 {
			return false
		}
		b.CanonicalBlocks[i].Value = &SignatureBlock{PublicKey: r.bytesN(31 + 2*r.intn(2)), Signature: r.bytesN(64)}
		return true
	}},
}

// ---------------------------------------------------------------- CheckValid on structures (no wire)

func vCheckValid(b *Bundle) (res string) {
	defer func() {
		if r := recover(); r != nil {
			res = "panic"
		}
	}()
	if err := b.CheckValid(); err != nil {
		return "0"
	}
	return "1"
}

func vChk(o *vOut, class string, extra []uint64, b *Bundle) {
	now0 := vNowMs()
	v := vCheckValid(b)
	now1 := vNowMs()
	o.line("chk/"+class+"/"+v, "chk extra=%s now0=%d now1=%d b=%s valid=%s", vExtraStr(extra), now0, now1, vDumpBundle(b), v)
}

// ---------------------------------------------------------------- produced bundles

// vProd reports a bundle handed out by a producer (builder, fragmentation, …): its structure, whether it
// marshals, and whether the parser takes the bytes back.
func vProd(o *vOut, kind, desc string, extra []uint64, now0 uint64, b *Bundle) {
	dump := vDumpBundle(b)
	valid := vCheckValid(b)
	ser, e := vMarshal(b)
	serS, parseS, pdump := vHex(ser), "-", "-"
	if e != "" {
		serS = e
	} else {
		b2, used, e2 := vParse(ser)
		switch {
		case e2 != "":
			parseS = e2
		case used != len(ser):
			parseS = "partial"
		default:
			parseS = "ok"
			if d2 := vDumpBundle(&b2); d2 == dump {
				pdump = "same"
			} else {
				pdump = d2
			}
		}
	}
	now1 := vNowMs()
	o.line("prod/"+kind+"/ok", "prod kind=%s extra=%s now0=%d now1=%d desc=%s res=ok valid=%s dump=%s ser=%s parse=%s pdump=%s",
		kind, vExtraStr(extra), now0, now1, desc, valid, dump, serS, parseS, pdump)
}

func vProdErr(o *vOut, kind, desc, res string) {
	o.line("prod/"+kind+"/"+res, "prod kind=%s desc=%s res=%s", kind, desc, res)
}

var vEidStrings = []string{"dtn://node/", "dtn://n1/a/b", "dtn:none", "ipn:1.2", "ipn:23.42", "dtn://a.b-c_d/~group", "dtn://x/ü",
	"dtn://", "ipn:0.1", "ipn:1.0", "foo:bar", "", "dtn:none/", "ipn:1", "dtn://n ode/", "dtn:///x", "ipn:18446744073709551616.1", "ipn:01.1"}

func vDescEsc(s string) string {
	// printable ASCII only (endpoint texts may hold arbitrary bytes), no blanks, no '='
	b := []byte(s)
	if len(b) > 40 {
		b = append(b[:40:40], '~')
	}
	for i, c := range b {
		if c <= 0x20 || c > 0x7e || c == '=' {
			b[i] = '_'
		}
	}
	return string(b)
}

// vBuilderSeq: a random call sequence on the fluent builder.
func vBuilderSeq(r *vRng) (desc string, b Bundle, err error, panicked bool) {
	var calls []string
	defer func() {
		desc = strings.Join(calls, ";")
		if rec := recover(); rec != nil {
			panicked = true
		}
	}()
	bl := Builder()
	eid := func() string {
		if r.chance(90) {
			return vEidStrings[r.intn(7)]
		}
		return vEidStrings[r.intn(len(vEidStrings))]
	}
	lifetime := func() interface{} {
		switch r.intn(12) {
		case 0, 8, 9:
			return "10m"
		case 1, 10, 11:
			return "24h"
		case 2:
			return uint64(r.intn(100000000))
		case 3:
			return r.intn(100000000) - 100
		case 4:
			return float64(r.intn(1000000)) - 10
		case 5:
			return time.Duration(r.intn(1000)) * time.Minute
		case 6:
			return []string{"-5m", "0s", "abc", "1ms", "999999h"}[r.intn(5)]
		default:
			return nil
		}
	}
	flagsArg := func() []interface{} {
		if r.chance(50) {
			return nil
		}
		return []interface{}{[]BlockControlFlags{0, ReplicateBlock, StatusReportBlock, DeleteBundle, RemoveBlock, StatusReportBlock | DeleteBundle}[r.intn(6)]}
	}
	step := func(k int) {
		switch k {
		case 0:
			s := eid()
			calls = append(calls, "Source("+vDescEsc(s)+")")
			bl.Source(s)
		case 1:
			s := eid()
			calls = append(calls, "Destination("+vDescEsc(s)+")")
			bl.Destination(s)
		case 2:
			s := eid()
			calls = append(calls, "ReportTo("+vDescEsc(s)+")")
			bl.ReportTo(s)
		case 3:
			calls = append(calls, "CreationTimestampNow()")
			bl.CreationTimestampNow()
		case 4:
			calls = append(calls, "CreationTimestampEpoch()")
			bl.CreationTimestampEpoch()
		case 5:
			d := time.Duration(r.intn(200)-100) * time.Minute
			calls = append(calls, "CreationTimestampTime(now+"+d.String()+")")
			bl.CreationTimestampTime(time.Now().Add(d))
		case 6:
			l := lifetime()
			calls = append(calls, vDescEsc(fmt.Sprintf("Lifetime(%T:%v)", l, l)))
			bl.Lifetime(l)
		case 7:
			var f BundleControlFlags
			for _, x := range []BundleControlFlags{IsFragment, AdministrativeRecordPayload, MustNotFragmented, RequestUserApplicationAck,
				RequestStatusTime, StatusRequestReception, StatusRequestForward, StatusRequestDelivery, StatusRequestDeletion} {
				if r.chance(25) {
					f |= x
				}
			}
			calls = append(calls, fmt.Sprintf("BundleCtrlFlags(%d)", uint64(f)))
			bl.BundleCtrlFlags(f)
		case 8:
			c := []CRCType{CRCNo, CRC16, CRC32}[r.intn(3)]
			calls = append(calls, fmt.Sprintf("CRC(%d)", uint64(c)))
			bl.CRC(c)
		case 9:
			n := r.intn(300)
			calls = append(calls, fmt.Sprintf("PayloadBlock(%dB)", n))
			bl.PayloadBlock(append([]interface{}{r.bytesN(n)}, flagsArg()...)...)
		case 10:
			l := lifetime()
			calls = append(calls, vDescEsc(fmt.Sprintf("BundleAgeBlock(%T:%v)", l, l)))
			bl.BundleAgeBlock(append([]interface{}{l}, flagsArg()...)...)
		case 11:
			var a interface{} = r.intn(400) - 20
			if r.chance(15) {
				a = float64(7)
			}
			calls = append(calls, vDescEsc(fmt.Sprintf("HopCountBlock(%T:%v)", a, a)))
			bl.HopCountBlock(append([]interface{}{a}, flagsArg()...)...)
		case 12:
			s := eid()
			calls = append(calls, "PreviousNodeBlock("+vDescEsc(s)+")")
			bl.PreviousNodeBlock(append([]interface{}{s}, flagsArg()...)...)
		case 13:
			t := []uint64{0, 2, 6, 7, 10, 99, 192}[r.intn(7)]
			var v ExtensionBlock
			switch t {
			case 6:
				v = NewPreviousNodeBlock(vGenEid(r, true))
			case 7:
				v = NewBundleAgeBlock(r.u64())
			case 10:
				v = &HopCountBlock{Limit: uint8(r.intn(256)), Count: uint8(r.intn(256))}
			default:
				v = NewGenericExtensionBlock(r.bytesN(r.intn(30)), t)
			}
			calls = append(calls, fmt.Sprintf("Canonical(type%d)", t))
			if r.chance(50) {
				bl.Canonical(v, BlockControlFlags(r.intn(32)))
			} else {
				bl.Canonical(CanonicalBlock{BlockNumber: uint64(r.intn(5)), BlockControlFlags: BlockControlFlags(r.intn(32)), CRCType: CRCType(r.intn(3)), Value: v})
			}
		case 14:
			ref := vGenBundle(r, vGenOpts{now: vNowMs(), payload: 5})
			item := []StatusInformationPos{ReceivedBundle, ForwardedBundle, DeliveredBundle, DeletedBundle}[r.intn(4)]
			calls = append(calls, fmt.Sprintf("StatusReport(item%d)", int(item)))
			if r.chance(50) {
				bl.StatusReport(ref, item, NoInformation)
			} else {
				bl.StatusReport(ref, item, LifetimeExpired, DtnTimeNow())
			}
		}
	}
	// mostly sensible skeleton + random extra calls
	if r.chance(80) {
		for _, k := range []int{0, 1, 3, 6, 9} {
			if r.chance(95) {
				step(k)
			}
		}
	}
	for n := r.intn(4); n > 0; n-- {
		step(r.intn(15))
	}
	calls = append(calls, "Build()")
	b, err = bl.Build()
	return
}

// vFromMap: an argument map as it arrives from JSON.
func vFromMap(r *vRng) (desc string, b Bundle, err error, panicked bool) {
	m := map[string]interface{}{}
	val := func() interface{} {
		switch r.intn(8) {
		case 0:
			return vEidStrings[r.intn(len(vEidStrings))]
		case 1:
			return float64(r.intn(100000))
		case 2:
			return []string{"10m", "1h", "-1s", "x"}[r.intn(4)]
		case 3:
			return nil
		case 4:
			return []interface{}{float64(1), "a"}
		case 5:
			return map[string]interface{}{"a": float64(1)}
		case 6:
			return true
		default:
			return "hello world"
		}
	}
	if r.chance(70) {
		m["source"] = vEidStrings[r.intn(7)]
		m["destination"] = vEidStrings[r.intn(7)]
		m["creation_timestamp_now"] = nil
		m["lifetime"] = []interface{}{"10m", float64(600000), "24h"}[r.intn(3)]
		m["payload_block"] = "hello world"
	}
	keys := []string{"destination", "source", "report_to", "creation_timestamp_epoch", "creation_timestamp_now", "creation_timestamp_time",
		"lifetime", "bundle_ctrl_flags", "canonical", "bundle_age_block", "hop_count_block", "payload_block", "previous_node_block", "bogus"}
	for n := r.intn(5); n > 0; n-- {
		m[keys[r.intn(len(keys))]] = val()
	}
	if r.chance(30) {
		delete(m, keys[r.intn(7)])
	}
	var ks []string
	for k, v := range m {
		ks = append(ks, vDescEsc(fmt.Sprintf("%s:%v", k, v)))
	}
	sort.Strings(ks)
	desc = strings.Join(ks, ";")
	defer func() {
		if rec := recover(); rec != nil {
			panicked = true
		}
	}()
	b, err = BuildFromMap(m)
	return
}

func vFragment(b *Bundle, mtu int) (bs []Bundle, err error, panicked bool) {
	defer func() {
		if rec := recover(); rec != nil {
			panicked = true
		}
	}()
	bs, err = b.Fragment(mtu)
	return
}

func vReassemble(bs []Bundle) (b Bundle, err error, panicked bool) {
	defer func() {
		if rec := recover(); rec != nil {
			panicked = true
		}
	}()
	b, err = ReassembleFragments(bs)
	return
}


// ---------------------------------------------------------------- fragmentation corners

// vCorner: one combination of the properties the validity rules of a fragment depend on.
// age / hop / prev: 0 = no such block, 1 = block with the replicate flag, 2 = block without it.
type vCorner struct {
	zeroTime       bool
	age, hop, prev int
	anon, admin    bool
}

func (c vCorner) String() string {
	b := func(v bool) int {
		if v {
			return 1
		}
		return 0
	}
	return fmt.Sprintf("zt%d-age%d-hop%d-prev%d-anon%d-admin%d", b(c.zeroTime), c.age, c.hop, c.prev, b(c.anon), b(c.admin))
}

func vCorners() (out []vCorner) {
	for _, zt := range []bool{false, true} {
		for age := 0; age < 3; age++ {
			if zt && age == 0 {
				continue // not a valid bundle to start from
			}
			for hop := 0; hop < 3; hop++ {
				for prev := 0; prev < 3; prev++ {
					for _, anon := range []bool{false, true} {
						for _, admin := range []bool{false, true} {
							out = append(out, vCorner{zt, age, hop, prev, anon, admin})
						}
					}
				}
			}
		}
	}
	return
}

// vCornerBundle: a valid bundle of the given corner with a payload large enough for several fragments.
func vCornerBundle(r *vRng, c vCorner, now uint64) Bundle {
	var flags BundleControlFlags
	src := vGenEid(r, false)
	if c.anon {
		src = DtnNone()
		flags |= MustNotFragmented // required for an anonymous source; Fragment must refuse such a bundle
	}
	if c.admin {
		flags |= AdministrativeRecordPayload
	}
	if !c.anon && !c.admin {
		for _, f := range []BundleControlFlags{StatusRequestReception, StatusRequestForward, StatusRequestDelivery, StatusRequestDeletion} {
			if r.chance(30) {
				flags |= f
			}
		}
	}
	if r.chance(30) {
		flags |= RequestUserApplicationAck
	}
	p := PrimaryBlock{Version: 7, BundleControlFlags: flags, CRCType: CRCType(r.intn(3)),
		Destination: vGenEid(r, false), SourceNode: src, ReportTo: vGenEid(r, true), Lifetime: 86400000 + uint64(r.intn(1000000))}
	var age uint64
	if c.zeroTime {
		p.CreationTimestamp = NewCreationTimestamp(0, uint64(r.intn(100)))
		age = uint64(r.intn(1000000))
	} else {
		p.CreationTimestamp = NewCreationTimestamp(DtnTime(now-uint64(r.intn(3600000))), uint64(r.intn(100)))
		age = r.u64()
	}
	bf := func(mode int) BlockControlFlags {
		var f BlockControlFlags
		if mode == 1 {
			f |= ReplicateBlock
		}
		if r.chance(25) {
			f |= DeleteBundle
		}
		if r.chance(25) {
			f |= RemoveBlock
		}
		if r.chance(25) && !c.anon && !c.admin {
			f |= StatusReportBlock
		}
		return f
	}
	num := uint64(2)
	var cbs []CanonicalBlock
	add := func(mode int, v ExtensionBlock) {
		cbs = append(cbs, CanonicalBlock{BlockNumber: num, BlockControlFlags: bf(mode), CRCType: CRCType(r.intn(3)), Value: v})
		num += 1 + uint64(r.intn(3))
	}
	if c.prev > 0 {
		add(c.prev, NewPreviousNodeBlock(vGenEid(r, false)))
	}
	if c.age > 0 {
		add(c.age, NewBundleAgeBlock(age))
	}
	if c.hop > 0 {
		lim := uint8(1 + r.intn(255))
		add(c.hop, &HopCountBlock{Limit: lim, Count: uint8(r.intn(int(lim) + 1))})
	}
	if r.chance(50) {
		add(1+r.intn(2), NewGenericExtensionBlock(r.bytesN(r.intn(30)), uint64(20+r.intn(100))))
	}
	if r.chance(30) { // not in ascending order
		for i, j := 0, len(cbs)-1; i < j; i, j = i+1, j-1 {
			cbs[i], cbs[j] = cbs[j], cbs[i]
		}
	}
	cbs = append(cbs, CanonicalBlock{BlockNumber: 1, BlockControlFlags: bf(r.intn(3)), CRCType: CRCType(r.intn(3)),
		Value: NewPayloadBlock(r.bytesN(300 + r.intn(700)))})
	return Bundle{PrimaryBlock: p, CanonicalBlocks: cbs}
}

// vFragStream: Fragment a bundle so that about `want` fragments result; EVERY returned fragment is reported as a
// produced bundle, then the fragments are reassembled from a shuffled order, and one fragment is fragmented again.
func vFragStream(o *vOut, r *vRng, tag string, b *Bundle, now0 uint64, want int) {
	var enc bytes.Buffer
	if b.MarshalCbor(&enc) != nil {
		return
	}
	pl := 0
	if pb, err := b.PayloadBlock(); err == nil {
		pl = len(pb.Value.(*PayloadBlock).Data())
	}
	mtu := enc.Len() - pl + 48 + pl/want + r.intn(8)
	desc := fmt.Sprintf("%s-len%d-mtu%d", tag, enc.Len(), mtu)
	if vCheckValid(b) != "1" {
		vProdErr(o, "fragment", desc+"-source-invalid", "err")
		return
	}
	frags, err, pan := vFragment(b, mtu)
	switch {
	case pan:
		vProdErr(o, "fragment", desc, "panic")
		return
	case err != nil:
		vProdErr(o, "fragment", desc, "err")
		return
	}
	for j := range frags {
		vProd(o, "fragment", fmt.Sprintf("%s-%d/%d", desc, j, len(frags)), nil, now0, &frags[j])
	}
	if len(frags) < 2 {
		return
	}
	shuffled := append([]Bundle{}, frags...)
	for i := len(shuffled) - 1; i > 0; i-- {
		j := r.intn(i + 1)
		shuffled[i], shuffled[j] = shuffled[j], shuffled[i]
	}
	re, err, pan := vReassemble(shuffled)
	switch {
	case pan:
		vProdErr(o, "reassembled", desc, "panic")
	case err != nil:
		vProdErr(o, "reassembled", desc, "err")
	default:
		vProd(o, "reassembled", desc, nil, now0, &re)
	}
	// a fragment of a fragment
	k := r.intn(len(frags))
	var fenc bytes.Buffer
	if frags[k].MarshalCbor(&fenc) != nil {
		return
	}
	sub, err, pan := vFragment(&frags[k], fenc.Len()*2/3)
	switch {
	case pan:
		vProdErr(o, "refragment", desc, "panic")
	case err != nil:
		vProdErr(o, "refragment", desc, "err")
	default:
		for j := range sub {
			vProd(o, "refragment", fmt.Sprintf("%s-f%d-%d/%d", desc, k, j, len(sub)), nil, now0, &sub[j])
		}
	}
}

// ---------------------------------------------------------------- bundles the node makes itself

func vBuild(f func() (Bundle, error)) (b Bundle, err error, panicked bool) {
	defer func() {
		if rec := recover(); rec != nil {
			panicked = true
		}
	}()
	b, err = f()
	return
}

// vNodeMade runs the Builder() call chains of Pipeline.sendReport, PingAgent.ackBundle and sendMetadataBundle.
func vNodeMade(o *vOut, r *vRng, i int) {
	now0 := vNowMs()
	node := vGenEid(r, false)
	// the bundle that triggers the reaction: any valid bundle, as received from the network
	ref := vGenBundle(r, vGenOpts{now: now0, payload: r.intn(40)})
	var kind, desc string
	var b Bundle
	var err error
	var pan bool
	switch i % 3 {
	case 0:
		kind = "statusreport"
		item := []StatusInformationPos{ReceivedBundle, ForwardedBundle, DeliveredBundle, DeletedBundle}[r.intn(4)]
		reason := []StatusReportReason{NoInformation, LifetimeExpired, HopLimitExceeded, BlockUnintelligible, NoRouteToDestination}[r.intn(5)]
		desc = fmt.Sprintf("item%d-reason%d-rpt:%s", int(item), int(reason), vDescEsc(ref.PrimaryBlock.ReportTo.String()))
		b, err, pan = vBuild(func() (Bundle, error) {
			return Builder().
				CRC(CRC32).
				Source(node).
				Destination(ref.PrimaryBlock.ReportTo).
				CreationTimestampNow().
				Lifetime(ref.PrimaryBlock.Lifetime).
				StatusReport(ref, item, reason).
				Build()
		})
	case 1:
		kind = "pong"
		hopCount := 64
		if hc, e := ref.ExtensionBlock(ExtBlockTypeHopCountBlock); e == nil {
			hopCount = int(hc.Value.(*HopCountBlock).Limit)
		}
		desc = fmt.Sprintf("hop%d-rpt:%s", hopCount, vDescEsc(ref.PrimaryBlock.ReportTo.String()))
		b, err, pan = vBuild(func() (Bundle, error) {
			return Builder().
				CRC(CRC32).
				Source(node).
				Destination(ref.PrimaryBlock.ReportTo).
				BundleCtrlFlags(MustNotFragmented).
				CreationTimestampNow().
				Lifetime(ref.PrimaryBlock.Lifetime).
				HopCountBlock(hopCount).
				PayloadBlock([]byte("pong")).
				Build()
		})
	default:
		kind = "metadata"
		var meta ExtensionBlock
		switch r.intn(3) {
		case 0:
			pd := DTLSRPeerData{ID: node, Timestamp: DtnTimeNow(), Peers: map[EndpointID]DtnTime{}}
			for k := r.intn(4); k > 0; k-- {
				pd.Peers[vGenEid(r, false)] = DtnTime(r.u64())
			}
			meta = NewDTLSRBlock(pd)
		case 1:
			m := map[EndpointID]float64{}
			for k := r.intn(4); k > 0; k-- {
				m[vGenEid(r, false)] = float64(r.intn(1000)) / 1000
			}
			meta = NewProphetBlock(m)
		default:
			meta = NewBinarySprayBlock(r.u64())
		}
		dst := vGenEid(r, false)
		desc = fmt.Sprintf("type%d", meta.BlockTypeCode())
		b, err, pan = vBuild(func() (Bundle, error) {
			bundleBuilder := Builder()
			bundleBuilder.Source(node)
			bundleBuilder.Destination(dst)
			bundleBuilder.CreationTimestampNow()
			bundleBuilder.Lifetime("1m")
			bundleBuilder.BundleCtrlFlags(MustNotFragmented)
			bundleBuilder.PayloadBlock(byte(1))
			bundleBuilder.Canonical(meta)
			return bundleBuilder.Build()
		})
	}
	switch {
	case pan:
		vProdErr(o, kind, desc, "panic")
	case err != nil:
		vProdErr(o, kind, desc, "err")
	default:
		// the receiving node has the routing block types registered
		vSetExtra(vExtraTypes)
		vProd(o, kind, desc, vExtraTypes, now0, &b)
		vSetExtra(nil)
	}
}

// ---------------------------------------------------------------- TestVerifC02

func vDoReplayC02(o *vOut, line string) bool {
	defer vSetExtra(nil)
	extra := vParseExtra(vField(line, "extra"))
	switch strings.Fields(line)[0] {
	case "chk":
		vSetExtra(extra)
		b := vReadBundle(vField(line, "b"))
		vChk(o, "replay", extra, &b)
		return true
	case "prod":
		// a produced bundle is replayed from its dump: is it (still) marshalled and accepted?
		if vField(line, "dump") == "" {
			return false
		}
		vSetExtra(extra)
		b := vReadBundle(vField(line, "dump"))
		vProd(o, vField(line, "kind"), "replay", extra, vNowMs(), &b)
		return true
	}
	return vDoReplay(o, line)
}

func TestVerifC02(t *testing.T) {
	o := vOpen(t)
	defer o.close()
	if line := vReplayLine(); line != "" {
		if !vDoReplayC02(o, line) {
			t.Fatalf("cannot replay %q", line)
		}
		return
	}
	seed, _ := strconv.ParseUint(os.Getenv("VERIF_SEED"), 10, 64)
	thorough := os.Getenv("VERIF_TIER") == "thorough"
	r := &vRng{s: seed*0x1000193 + 0xC02}
	defer vSetExtra(nil)
	start := time.Now()

	nBase, nBuild, nFrag, nNode := 60, 1500, 60, 300
	if thorough {
		nBase, nBuild, nFrag, nNode = 1200, 40000, 1500, 15000
	}

	for pi, extra := range [][]uint64{nil, vExtraTypes} {
		vSetExtra(extra)
		for i := 0; i < nBase/(1+pi); i++ {
			now := vNowMs()
			base := vGenBundle(r, vGenOpts{now: now, extra: extra, payload: r.intn(50)})
			vPar(o, "valid", extra, vEncBundle(&base, nil))
			vChk(o, "valid", extra, &base)
			// every rule on its own
			for _, rule := range vRules {
				b, ov := vCloneBlocks(&base), &vOver{}
				if !rule.f(r, &b, ov, now) {
					continue
				}
				vPar(o, "rule/"+rule.name, extra, vEncBundle(&b, ov))
				if ov.version != nil {
					b.PrimaryBlock.Version = *ov.version
				}
				if ov.inner == nil && ov.eidRaw == nil {
					vChk(o, "rule/"+rule.name, extra, &b)
				}
			}
			// pairs of rules
			for k := 0; k < 12; k++ {
				r1, r2 := vRules[r.intn(len(vRules))], vRules[r.intn(len(vRules))]
				b, ov := vCloneBlocks(&base), &vOver{}
				if !r1.f(r, &b, ov, now) || len(b.CanonicalBlocks) == 0 || !r2.f(r, &b, ov, now) {
					continue
				}
				vPar(o, "pair", extra, vEncBundle(&b, ov))
				if ov.inner == nil && ov.eidRaw == nil {
					if ov.version != nil {
						b.PrimaryBlock.Version = *ov.version
					}
					vChk(o, "pair", extra, &b)
				}
			}
			// the same violations as Go serialises them (where it can)
			for k := 0; k < 4; k++ {
				rule := vRules[r.intn(len(vRules))]
				b, ov := vCloneBlocks(&base), &vOver{}
				if !rule.f(r, &b, ov, now) || ov.inner != nil || ov.eidRaw != nil || ov.version != nil {
					continue
				}
				if out, e := vMarshal(&b); e == "" {
					vPar(o, "rule-go-serialised", extra, out)
				}
			}
		}
	}
	vSetExtra(nil)

	// producers: builder call sequences, BuildFromMap
	for i := 0; i < nBuild; i++ {
		now0 := vNowMs()
		if i%3 != 2 {
			desc, b, err, pan := vBuilderSeq(r)
			switch {
			case pan:
				vProdErr(o, "builder", desc, "panic")
			case err != nil:
				vProdErr(o, "builder", desc, "err")
			default:
				vProd(o, "builder", desc, nil, now0, &b)
			}
		} else {
			desc, b, err, pan := vFromMap(r)
			switch {
			case pan:
				vProdErr(o, "frommap", desc, "panic")
			case err != nil:
				vProdErr(o, "frommap", desc, "err")
			default:
				vProd(o, "frommap", desc, nil, now0, &b)
			}
		}
	}

	// producers: fragmentation and reassembly over the rule-relevant corner combinations (every combination in
	// every run), then of random valid bundles
	for _, c := range vCorners() {
		reps := 1
		if thorough {
			reps = 6
		}
		for k := 0; k < reps; k++ {
			now0 := vNowMs()
			b := vCornerBundle(r, c, now0)
			vFragStream(o, r, c.String(), &b, now0, 3+r.intn(4))
		}
	}
	for i := 0; i < nFrag; i++ {
		now0 := vNowMs()
		b := vGenBundle(r, vGenOpts{now: now0, payload: 50 + r.intn(600)})
		if r.chance(50) {
			// the usual case: all extension blocks are replicated into every fragment
			for j := range b.CanonicalBlocks {
				b.CanonicalBlocks[j].BlockControlFlags |= ReplicateBlock
			}
		}
		b = MustNewBundle(b.PrimaryBlock, b.CanonicalBlocks)
		vFragStream(o, r, "random", &b, now0, 1+r.intn(5))
	}

	// producers: the bundles the node makes itself. Their constructors live in pkg/routing (Pipeline.sendReport,
	// sendMetadataBundle) and pkg/agent (PingAgent.ackBundle) and are plain Builder() call chains; the same chains
	// (pinned by the facts statusReportChain / metadataChain / pongChain of Dtn7.Gen.C02) are run here on generated
	// inputs.
	for i := 0; i < nNode; i++ {
		vNodeMade(o, r, i)
	}
	o.line("note", "# c02 seed=%d tier=%s elapsed=%s", seed, os.Getenv("VERIF_TIER"), time.Since(start).Round(time.Millisecond))
}
