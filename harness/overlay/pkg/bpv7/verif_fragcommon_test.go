package bpv7

// Shared helpers of the C09 / C10 correspondence harnesses (attached with `go test -overlay`; never
// part of /repo): deterministic generator of bundles with varied block mixes, the per-bundle numbers
// `Bundle.Fragment` works with, and the observation of one fragment.

import (
	"bytes"
	"encoding/hex"
	"fmt"
	"sort"
	"strings"
)

type vfRng struct{ s uint64 }

func (r *vfRng) next() uint64 {
	r.s += 0x9e3779b97f4a7c15
	z := r.s
	z = (z ^ (z >> 30)) * 0xbf58476d1ce4e5b9
	z = (z ^ (z >> 27)) * 0x94d049bb133111eb
	return z ^ (z >> 31)
}
func (r *vfRng) intn(n int) int {
	if n <= 0 {
		return 0
	}
	return int(r.next() % uint64(n))
}
func (r *vfRng) bytes(n int) []byte {
	b := make([]byte, n)
	for i := range b {
		b[i] = byte(r.next())
	}
	return b
}

func vfHex(b []byte) string {
	if len(b) == 0 {
		return "-"
	}
	return hex.EncodeToString(b)
}

// vfSer serialises a bundle (a copy of the block slice, so that the CRC fields written by MarshalCbor do
// not leak into the caller's value).
func vfSer(b Bundle) []byte {
	c := Bundle{PrimaryBlock: b.PrimaryBlock, CanonicalBlocks: append([]CanonicalBlock(nil), b.CanonicalBlocks...)}
	var buf bytes.Buffer
	if err := c.MarshalCbor(&buf); err != nil {
		return nil
	}
	return buf.Bytes()
}

func vfBlockLen(cb CanonicalBlock) int {
	var buf bytes.Buffer
	if err := cb.MarshalCbor(&buf); err != nil {
		return -1
	}
	return buf.Len()
}

func vfValueBytes(cb CanonicalBlock) []byte {
	var buf bytes.Buffer
	if err := GetExtensionBlockManager().WriteBlock(cb.Value, &buf); err != nil {
		return nil
	}
	return buf.Bytes()
}

func vfPayload(b Bundle) []byte {
	pb, err := b.PayloadBlock()
	if err != nil {
		return nil
	}
	return pb.Value.(*PayloadBlock).Data()
}

// ---- generator ----

type vfBlk struct {
	kind  string // hop | age | prev | gen
	num   uint64
	flags BlockControlFlags
	crc   CRCType
	typ   uint64 // gen only
	data  []byte // gen only
	eid   string // prev only
	a, c  uint64 // hop limit/count, age
}

type vfSpec struct {
	name     string
	src, dst string
	rpt      string
	flags    BundleControlFlags
	pcrc     CRCType // primary
	zeroTime bool
	seq      uint64
	lifetime uint64
	blocks   []vfBlk // wire order
	plFlags  BlockControlFlags
	plCrc    CRCType
}

func (s vfSpec) build(payload []byte) (Bundle, error) {
	ts := NewCreationTimestamp(DtnTimeNow(), s.seq)
	if s.zeroTime {
		ts = NewCreationTimestamp(DtnTimeEpoch, s.seq)
	}
	pb := NewPrimaryBlock(s.flags, MustNewEndpointID(s.dst), MustNewEndpointID(s.src), ts, s.lifetime)
	pb.ReportTo = MustNewEndpointID(s.rpt)
	pb.CRCType = s.pcrc
	pb.CRC = nil
	var cbs []CanonicalBlock
	for _, k := range s.blocks {
		var v ExtensionBlock
		switch k.kind {
		case "hop":
			h := NewHopCountBlock(uint8(k.a))
			h.Count = uint8(k.c)
			v = h
		case "age":
			v = NewBundleAgeBlock(k.a)
		case "prev":
			v = NewPreviousNodeBlock(MustNewEndpointID(k.eid))
		default:
			v = NewGenericExtensionBlock(k.data, k.typ)
		}
		cb := NewCanonicalBlock(k.num, k.flags, v)
		cb.CRCType = k.crc
		cbs = append(cbs, cb)
	}
	pl := NewCanonicalBlock(1, s.plFlags, NewPayloadBlock(payload))
	pl.CRCType = s.plCrc
	cbs = append(cbs, pl)
	// wire order is kept: no sorting (a received bundle keeps the order of its sender)
	raw := Bundle{PrimaryBlock: pb, CanonicalBlocks: cbs}
	if err := raw.CheckValid(); err != nil {
		return raw, fmt.Errorf("spec %s invalid: %v", s.name, err)
	}
	// what a node holds is the parsed form of the wire bytes
	b, err := ParseBundle(bytes.NewReader(vfSer(raw)))
	if err != nil {
		return raw, fmt.Errorf("spec %s does not parse: %v", s.name, err)
	}
	return b, nil
}

const vfHour = 3600 * 1000

// vfFixedSpecs is the table of block mixes of the exhaustive part.
func vfFixedSpecs() []vfSpec {
	long := "dtn://a-rather-long-node-name.example.org/with/a/long/demux/part-0123456789"
	return []vfSpec{
		{name: "plain", src: "dtn://src/", dst: "dtn://dst/", rpt: "dtn://src/", pcrc: CRC32, lifetime: vfHour, plCrc: CRCNo},
		{name: "hop", src: "dtn://src/", dst: "dtn://dst/", rpt: "dtn://src/", pcrc: CRC32, lifetime: vfHour, plCrc: CRC32,
			blocks: []vfBlk{{kind: "hop", num: 2, a: 64, c: 3}}},
		{name: "age-rep+hop-zero-time", src: "dtn://src/", dst: "ipn:23.42", rpt: "dtn:none", pcrc: CRC32, zeroTime: true, seq: 7,
			lifetime: 24 * vfHour, plCrc: CRC16,
			blocks: []vfBlk{{kind: "age", num: 2, flags: ReplicateBlock, a: 1234, crc: CRC16}, {kind: "hop", num: 3, a: 255, c: 0, crc: CRC32}}},
		{name: "prev-rep+gen+gen-rep-ipn", src: "ipn:1.2", dst: "ipn:4000000.70000", rpt: "ipn:1.1", pcrc: CRC16, lifetime: vfHour, seq: 300,
			plCrc: CRCNo,
			blocks: []vfBlk{{kind: "prev", num: 2, flags: ReplicateBlock, crc: CRC16, eid: "dtn://prev-node/"},
				{kind: "gen", num: 3, typ: 200, data: []byte{1, 2, 3, 4, 5}},
				{kind: "gen", num: 4, typ: 201, flags: ReplicateBlock | RemoveBlock, crc: CRC32}}},
		{name: "noncontiguous-numbers", src: "dtn://src/", dst: "dtn://dst/x", rpt: "dtn://rpt/", pcrc: CRC32, lifetime: vfHour, plCrc: CRC32,
			blocks: []vfBlk{{kind: "hop", num: 5, a: 10, c: 1}, {kind: "gen", num: 40, typ: 222, flags: ReplicateBlock, data: []byte{9, 9}},
				{kind: "prev", num: 300, eid: "ipn:7.7", crc: CRC16}}},
		{name: "nonascending-wire-order", src: "dtn://src/", dst: "dtn://dst/", rpt: "dtn://src/", pcrc: CRC32, zeroTime: true, lifetime: vfHour,
			plCrc: CRC16,
			blocks: []vfBlk{{kind: "gen", num: 7, typ: 230, data: []byte{0xaa}, flags: ReplicateBlock}, {kind: "hop", num: 3, a: 30, c: 30, crc: CRC16},
				{kind: "age", num: 2, a: 0, flags: ReplicateBlock}}},
		{name: "payload-replicate-flag", src: "dtn://src/", dst: "dtn://dst/", rpt: "dtn://src/", pcrc: CRC32, lifetime: vfHour,
			plFlags: ReplicateBlock, plCrc: CRC16,
			blocks: []vfBlk{{kind: "hop", num: 2, a: 64, c: 0, flags: ReplicateBlock}}},
		{name: "all-crc16", src: "dtn://src/", dst: "dtn://dst/", rpt: "dtn://src/", pcrc: CRC16, lifetime: vfHour, plCrc: CRC16,
			blocks: []vfBlk{{kind: "hop", num: 2, a: 64, c: 0, crc: CRC16}, {kind: "gen", num: 3, typ: 199, data: []byte{}, crc: CRC16, flags: ReplicateBlock}}},
		{name: "no-crc-at-all", src: "dtn://src/", dst: "dtn://dst/", rpt: "dtn://src/", pcrc: CRCNo, lifetime: vfHour, plCrc: CRCNo,
			blocks: []vfBlk{{kind: "prev", num: 2, eid: "dtn://p/"}, {kind: "gen", num: 3, typ: 198, data: []byte{1}, flags: ReplicateBlock}}},
		{name: "many-generic", src: "dtn://src/", dst: "dtn://dst/", rpt: "dtn://src/", pcrc: CRC32, lifetime: vfHour, plCrc: CRC32,
			blocks: []vfBlk{{kind: "gen", num: 2, typ: 64, data: bytes.Repeat([]byte{7}, 30), flags: ReplicateBlock},
				{kind: "gen", num: 3, typ: 65, data: []byte{1, 2, 3}, flags: DeleteBundle},
				{kind: "gen", num: 4, typ: 66, data: nil, flags: ReplicateBlock | StatusReportBlock, crc: CRC16},
				{kind: "gen", num: 5, typ: 1000, data: []byte{5}, crc: CRC32},
				{kind: "hop", num: 6, a: 8, c: 2, flags: ReplicateBlock, crc: CRC32},
				{kind: "gen", num: 24, typ: 70000, data: bytes.Repeat([]byte{1}, 24), flags: 0x101}}},
		{name: "long-eids-big-numbers", src: long, dst: long + "/dst", rpt: "ipn:18446744073709551615.4294967296", pcrc: CRC32,
			flags: StatusRequestDelivery | StatusRequestForward | RequestStatusTime, seq: 1 << 40, lifetime: 1 << 33, plCrc: CRC32,
			blocks: []vfBlk{{kind: "hop", num: 2, a: 64, c: 0}}},
		{name: "all-crc32-tight", src: "ipn:1.2", dst: "ipn:3.4", rpt: "ipn:1.2", pcrc: CRC32, lifetime: vfHour, plCrc: CRC32,
			blocks: []vfBlk{{kind: "hop", num: 2, a: 64, c: 0, crc: CRC32}, {kind: "gen", num: 3, typ: 197, data: []byte{1, 2}, crc: CRC32, flags: ReplicateBlock}}},
		{name: "block-number-zero", src: "dtn://src/", dst: "dtn://dst/", rpt: "dtn://src/", pcrc: CRC32, lifetime: vfHour, plCrc: CRCNo,
			blocks: []vfBlk{{kind: "gen", num: 0, typ: 77, data: []byte{1}, flags: ReplicateBlock}, {kind: "hop", num: 23, a: 1, c: 0}}},
	}
}

// vfRandomSpec draws a block mix; no multi-entry map blocks (their byte order is unspecified).
func vfRandomSpec(r *vfRng, i int) vfSpec {
	eids := []string{"dtn://src/", "dtn://n1/app", "ipn:1.2", "ipn:977000.3", "dtn://a-longer-node-name.example/inbox/sub", "dtn://x/~group"}
	crcs := []CRCType{CRCNo, CRC16, CRC32}
	s := vfSpec{name: fmt.Sprintf("random%d", i)}
	s.src = eids[r.intn(len(eids))]
	s.dst = eids[r.intn(len(eids))]
	s.rpt = append(eids, "dtn:none")[r.intn(len(eids)+1)]
	s.pcrc = crcs[r.intn(3)]
	s.plCrc = crcs[r.intn(3)]
	s.seq = []uint64{0, 1, 23, 24, 255, 256, 70000, 1 << 33}[r.intn(8)]
	s.lifetime = []uint64{vfHour, 24 * vfHour, 30 * 24 * vfHour, 1 << 33}[r.intn(4)]
	if r.intn(5) == 0 {
		s.flags |= StatusRequestDelivery
	}
	if r.intn(6) == 0 {
		s.flags |= RequestUserApplicationAck
	}
	if r.intn(8) == 0 {
		s.plFlags = ReplicateBlock
	}
	s.zeroTime = r.intn(4) == 0
	tight := r.intn(3) == 0 // every block with CRC-32: the overhead estimate is then exact
	if tight {
		s.plCrc = CRC32
	}
	kinds := []string{"hop", "age", "prev", "gen", "gen", "gen"}
	perm := []int{0, 1, 2, 3, 4, 5}
	for k := len(perm) - 1; k > 0; k-- {
		j := r.intn(k + 1)
		perm[k], perm[j] = perm[j], perm[k]
	}
	n := r.intn(6)
	hasAge := false
	nums := map[uint64]bool{1: true}
	num := uint64(2)
	for k := 0; k < n; k++ {
		kd := kinds[perm[k]]
		blk := vfBlk{kind: kd, crc: crcs[r.intn(3)]}
		if tight {
			blk.crc = CRC32
		}
		switch r.intn(4) {
		case 0:
			blk.flags = ReplicateBlock
		case 1:
			blk.flags = ReplicateBlock | []BlockControlFlags{0, StatusReportBlock, DeleteBundle, RemoveBlock}[r.intn(4)]
		case 2:
			blk.flags = []BlockControlFlags{0, DeleteBundle, RemoveBlock}[r.intn(3)]
		}
		if s.zeroTime && blk.flags.Has(StatusReportBlock) {
			blk.flags &^= StatusReportBlock
		}
		// block numbers: mostly ascending, sometimes jumps over the 1-byte / 2-byte head boundaries
		switch r.intn(5) {
		case 0:
			num += uint64(1 + r.intn(30))
		case 1:
			num = []uint64{24, 255, 256, 65535, 65536}[r.intn(5)] + uint64(r.intn(3))
		}
		for nums[num] {
			num++
		}
		blk.num = num
		nums[num] = true
		num++
		switch kd {
		case "hop":
			blk.a = uint64(r.intn(256))
			blk.c = uint64(r.intn(int(blk.a) + 1))
		case "age":
			blk.a = []uint64{0, 23, 24, 1000, 70000}[r.intn(5)]
			hasAge = true
		case "prev":
			blk.eid = eids[r.intn(len(eids))]
		default:
			blk.typ = uint64(60 + perm[k]*400 + r.intn(20))
			blk.data = r.bytes([]int{0, 1, 5, 23, 24, 40}[r.intn(6)])
		}
		s.blocks = append(s.blocks, blk)
	}
	if s.zeroTime && !hasAge {
		s.blocks = append(s.blocks, vfBlk{kind: "age", num: num + 1, a: 5, flags: ReplicateBlock})
	}
	// sometimes a non-ascending wire order
	if len(s.blocks) > 1 && r.intn(3) == 0 {
		j := r.intn(len(s.blocks) - 1)
		s.blocks[j], s.blocks[j+1] = s.blocks[j+1], s.blocks[j]
	}
	return s
}

// ---- the numbers Bundle.Fragment works with ----

type vfNumbers struct {
	pbase                 int // fragment primary block length minus the two one-byte heads of offset 0 / total 0
	size                  int
	plRep                 bool
	plPriced, plActual0   int
	blocks                []string // num:type:rep:priced:actual
	minOverhead, overhead int      // estimate for the others / the first fragment at a huge mtu (sweep bounds only)
}

func vfRep(f BlockControlFlags) int {
	if f.Has(ReplicateBlock) {
		return 1
	}
	return 0
}

func vfNumbersOf(b Bundle) (n vfNumbers, err error) {
	_, l, err := fragmentPrimaryBlock(b.PrimaryBlock, 0, 0)
	if err != nil {
		return
	}
	n.pbase = l - 2
	n.size = len(vfSer(b))
	first, others := 0, 0
	for _, cb := range b.CanonicalBlocks {
		if cb.TypeCode() == ExtBlockTypePayloadBlock {
			p := CanonicalBlock{BlockNumber: cb.BlockNumber, BlockControlFlags: cb.BlockControlFlags, CRCType: CRC32, Value: NewPayloadBlock(nil)}
			n.plPriced = vfBlockLen(p)
			p.CRCType = cb.CRCType
			p.CRC = nil
			n.plActual0 = vfBlockLen(p)
			n.plRep = cb.BlockControlFlags.Has(ReplicateBlock)
			first += n.plPriced
			others += n.plPriced
			continue
		}
		actual := vfBlockLen(cb)
		pc := cb
		pc.CRCType = CRC32
		pc.CRC = nil
		priced := vfBlockLen(pc)
		n.blocks = append(n.blocks, fmt.Sprintf("%d:%d:%d:%d:%d", cb.BlockNumber, cb.TypeCode(), vfRep(cb.BlockControlFlags), priced, actual))
		first += priced
		if cb.BlockControlFlags.Has(ReplicateBlock) {
			others += priced
		}
	}
	n.minOverhead = 2 + l + others
	n.overhead = 2 + l + first
	return
}

func vfErrKind(err error) string {
	s := err.Error()
	switch {
	case strings.Contains(s, "forbids bundle fragmentation"):
		return "err:mnf"
	case strings.Contains(s, "empty payload"):
		return "err:empty"
	case strings.Contains(s, "exceeds MTU"):
		return "err:overhead"
	case strings.Contains(s, "Bundle Age block"):
		return "err:invalid"
	default:
		return "err:other"
	}
}

// vfFragObs renders one fragment: off:total:plen:size:flags:ident:blocks:sliceok:valid:payloadhex
// orig is the bundle that was fragmented (possibly itself a fragment); blocks are `num/type/len/same`.
func vfFragObs(orig Bundle, f Bundle, withHex bool) string {
	op := orig.PrimaryBlock
	fp := f.PrimaryBlock
	ident := func(ok bool) byte {
		if ok {
			return '1'
		}
		return '0'
	}
	eq := func(a, b EndpointID) bool {
		var x, y bytes.Buffer
		_ = a.MarshalCbor(&x)
		_ = b.MarshalCbor(&y)
		return a.String() == b.String() && bytes.Equal(x.Bytes(), y.Bytes())
	}
	id := string([]byte{ident(eq(op.SourceNode, fp.SourceNode)), ident(op.CreationTimestamp == fp.CreationTimestamp),
		ident(eq(op.Destination, fp.Destination)), ident(eq(op.ReportTo, fp.ReportTo)), ident(op.Lifetime == fp.Lifetime)})
	var blks []string
	data := []byte(nil)
	nPayload := 0
	for _, cb := range f.CanonicalBlocks {
		if cb.TypeCode() == ExtBlockTypePayloadBlock {
			data = cb.Value.(*PayloadBlock).Data()
			nPayload++
			continue
		}
		same := 0
		for _, ob := range orig.CanonicalBlocks {
			if ob.TypeCode() == cb.TypeCode() {
				if ob.BlockControlFlags == cb.BlockControlFlags && ob.CRCType == cb.CRCType && bytes.Equal(vfValueBytes(ob), vfValueBytes(cb)) {
					same = 1
				}
			}
		}
		blks = append(blks, fmt.Sprintf("%d/%d/%d/%d", cb.BlockNumber, cb.TypeCode(), vfBlockLen(cb), same))
	}
	bl := "-"
	if len(blks) > 0 {
		bl = strings.Join(blks, ".")
	}
	origData := vfPayload(orig)
	base := uint64(0)
	if op.HasFragmentation() {
		base = op.FragmentOffset
	}
	sliceok := 0
	if nPayload == 1 && fp.FragmentOffset >= base {
		rel := fp.FragmentOffset - base
		if rel+uint64(len(data)) <= uint64(len(origData)) && bytes.Equal(data, origData[rel:rel+uint64(len(data))]) {
			sliceok = 1
		}
	}
	// payload block flags / CRC type must be the original's
	if opb, err := orig.PayloadBlock(); err == nil {
		if fpb, err := f.PayloadBlock(); err != nil || fpb.BlockControlFlags != opb.BlockControlFlags || fpb.CRCType != opb.CRCType || fpb.BlockNumber != 1 {
			sliceok = 0
		}
	}
	hx := "~"
	if withHex {
		hx = vfHex(data)
	}
	// a valid bundle of its own: passes CheckValid, its serialisation parses and re-serialises identically
	fser := vfSer(f)
	valid := 0
	if vfCloneBundle(f).CheckValid() == nil {
		if pf, err := ParseBundle(bytes.NewReader(fser)); err == nil && bytes.Equal(vfSer(pf), fser) {
			valid = 1
		}
	}
	return fmt.Sprintf("%d:%d:%d:%d:%d:%s:%s:%d:%d:%s", fp.FragmentOffset, fp.TotalDataLength, len(data), len(fser),
		uint64(fp.BundleControlFlags), id, bl, sliceok, valid, hx)
}

// vfShuffles returns n orders of 0..k-1: identity, reverse, rotations and random ones.
func vfShuffles(r *vfRng, k, n int) [][]int {
	id := make([]int, k)
	for i := range id {
		id[i] = i
	}
	out := [][]int{append([]int(nil), id...)}
	rev := make([]int, k)
	for i := range rev {
		rev[i] = k - 1 - i
	}
	out = append(out, rev)
	for len(out) < n {
		p := append([]int(nil), id...)
		for i := k - 1; i > 0; i-- {
			j := r.intn(i + 1)
			p[i], p[j] = p[j], p[i]
		}
		out = append(out, p)
	}
	return out
}

// vfCloneBundle copies the block slice so that the in-place sort of prepareReassembly and the CRC
// write-back of MarshalCbor do not disturb the caller's slice.
func vfCloneBundle(b Bundle) Bundle {
	return Bundle{PrimaryBlock: b.PrimaryBlock, CanonicalBlocks: append([]CanonicalBlock(nil), b.CanonicalBlocks...)}
}

// vfReassemble calls ReassembleFragments on a copy of the given order; outcome: ok / err / panic.
func vfReassemble(fs []Bundle, order []int) (b Bundle, outcome string) {
	in := make([]Bundle, len(order))
	for i, j := range order {
		in[i] = vfCloneBundle(fs[j])
	}
	defer func() {
		if p := recover(); p != nil {
			outcome = "panic"
		}
	}()
	r, err := ReassembleFragments(in)
	if err != nil {
		return r, "err"
	}
	return r, "ok"
}

func vfReassemblable(fs []Bundle, order []int) (outcome string) {
	in := make([]Bundle, len(order))
	for i, j := range order {
		in[i] = vfCloneBundle(fs[j])
	}
	defer func() {
		if p := recover(); p != nil {
			outcome = "panic"
		}
	}()
	if IsBundleReassemblable(in) {
		return "yes"
	}
	return "no"
}

func vfSortedInts(m map[int]bool) []int {
	var out []int
	for k := range m {
		out = append(out, k)
	}
	sort.Ints(out)
	return out
}
