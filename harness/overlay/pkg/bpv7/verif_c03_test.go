package bpv7

// Correspondence harness for C03 (attached to the package with `go test -overlay`; never part of /repo).
// Writes one observation per line to $VERIF_OUT; see /verif/lean/Driver/C03.lean for the format.
//
//	raw  <t> <datahex> <valuehex>      crc16.Checksum / crc32.Checksum with the package's tables
//	calc <t> <bufhex> <valuehex|err>   calculateCRCBuff on a buffer holding <bufhex>
//	prim <requested> <blockhex>        primary block created with the requested CRC type, serialised alone
//	orig <hex> <verdict>               generated bundle (CRC on every block), serialised and re-parsed
//	mut  <orighex> <off> <xorhex> <verdict>   ParseBundle on orig with <xorhex> xor-ed in at byte <off>
//	direct <name> <hex> <verdict>      hand-made encodings (CRC type / array length edge, non-shortest heads)
//	adversarial <hex> <off> <xorhex> <verdict> <verdict-mutated>   crafted payload, one bit of its length flipped
//	after <mutatedhex> <verdict-mutated> <pristinehex> <reserialisedhex> <verdict-pristine>
//	     state carried over a FAILED parse: directly after the failed parse of <mutatedhex> the known-good
//	     bundle object is serialised again and its pristine encoding is parsed again, in the same process
//
// verdict = accept | crc ("invalid CRC value") | other | panic

import (
	"bufio"
	"bytes"
	"encoding/binary"
	"encoding/hex"
	"encoding/json"
	"fmt"
	"hash/crc32"
	"os"
	"strconv"
	"strings"
	"testing"
	"time"

	"github.com/howeyc/crc16"
	log "github.com/sirupsen/logrus"
)

type verifC03Rng struct{ s uint64 }

func (r *verifC03Rng) next() uint64 {
	r.s += 0x9e3779b97f4a7c15
	z := r.s
	z = (z ^ (z >> 30)) * 0xbf58476d1ce4e5b9
	z = (z ^ (z >> 27)) * 0x94d049bb133111eb
	return z ^ (z >> 31)
}
func (r *verifC03Rng) intn(n int) int { return int(r.next() % uint64(n)) }
func (r *verifC03Rng) bytes(n int) []byte {
	b := make([]byte, n)
	for i := range b {
		b[i] = byte(r.next())
	}
	return b
}

func verifC03Hex(b []byte) string {
	if len(b) == 0 {
		return "-"
	}
	return hex.EncodeToString(b)
}

func verifC03Parse(data []byte) (verdict string) {
	defer func() {
		if rec := recover(); rec != nil {
			verdict = "panic"
		}
	}()
	_, err := ParseBundle(bytes.NewReader(data))
	if err == nil {
		return "accept"
	}
	if strings.Contains(err.Error(), "invalid CRC value") {
		return "crc"
	}
	return "other"
}

// verifC03Raw is the library call of calculateCRCBuff without the appended empty field.
func verifC03Raw(t CRCType, data []byte) []byte {
	switch t {
	case CRC16:
		v := make([]byte, 2)
		binary.BigEndian.PutUint16(v, crc16.Checksum(data, crc16table))
		return v
	case CRC32:
		v := make([]byte, 4)
		binary.BigEndian.PutUint32(v, crc32.Checksum(data, crc32table))
		return v
	}
	return nil
}

func verifC03Calc(t CRCType, data []byte) string {
	buf := new(bytes.Buffer)
	buf.Write(data)
	v, err := calculateCRCBuff(buf, t)
	if err != nil {
		return "err"
	}
	return verifC03Hex(v)
}

var verifC03Eids = []string{
	"dtn://a/", "dtn://node-12/inbox", "dtn://n.example_org/~grp/x", "ipn:1.2", "ipn:4711.99",
	"ipn:18446744073709551615.1", "dtn://x/" + strings.Repeat("y", 30),
}

var verifC03Time = time.Date(2024, 5, 17, 12, 0, 0, 0, time.UTC)

const verifC03Century = uint64(100 * 365 * 24 * 3600 * 1000)

type verifC03Bundle struct {
	b       Bundle
	enc     []byte
	extents [][2]int // [start, end) of every block in enc
	widths  []int    // CRC width in bits of every block
	desc    string
}

// verifC03Gen builds one valid bundle with a CRC on every block. mix: 0 = all CRC-32, 1 = all CRC-16,
// 2 = per block at random.
func verifC03Gen(r *verifC03Rng, mix int, maxPayload int) (vb verifC03Bundle, err error) {
	bl := Builder()
	src := verifC03Eids[r.intn(len(verifC03Eids))]
	dst := verifC03Eids[r.intn(len(verifC03Eids))]
	flags := BundleControlFlags(0)
	desc := []string{}
	switch r.intn(6) {
	case 0:
		src = "dtn:none"
		flags = MustNotFragmented
	case 1:
		flags = StatusRequestDelivery | RequestStatusTime
	case 2:
		flags = MustNotFragmented | RequestUserApplicationAck
	}
	bl.Source(src).Destination(dst).BundleCtrlFlags(flags)
	if r.intn(3) == 0 {
		bl.ReportTo(verifC03Eids[r.intn(len(verifC03Eids))])
	}
	epoch := r.intn(4) == 0
	if epoch {
		bl.CreationTimestampEpoch().Lifetime(uint64(1000000 + r.intn(1<<30)))
		bl.BundleAgeBlock(uint64(r.intn(100000)))
		desc = append(desc, "epoch+age")
	} else {
		bl.CreationTimestampTime(verifC03Time.Add(time.Duration(r.intn(1<<30)) * time.Millisecond))
		bl.Lifetime(verifC03Century + uint64(r.intn(1<<20)))
		if r.intn(3) == 0 {
			bl.BundleAgeBlock(uint64(r.intn(1 << 20)))
			desc = append(desc, "age")
		}
	}
	if r.intn(2) == 0 {
		bl.HopCountBlock(1 + r.intn(255))
		desc = append(desc, "hop")
	}
	if r.intn(3) == 0 {
		bl.PreviousNodeBlock(verifC03Eids[r.intn(len(verifC03Eids))])
		desc = append(desc, "prev")
	}
	if r.intn(3) == 0 {
		bl.Canonical(NewGenericExtensionBlock(r.bytes(r.intn(24)), uint64(200+r.intn(50))))
		desc = append(desc, "generic")
	}
	pl := r.intn(maxPayload + 1)
	if r.intn(8) == 0 {
		pl = 0
	}
	bl.PayloadBlock(r.bytes(pl))
	desc = append(desc, fmt.Sprintf("payload%d", pl))
	b, err := bl.Build()
	if err != nil {
		return vb, err
	}
	if src != "dtn:none" && r.intn(5) == 0 {
		b.PrimaryBlock.BundleControlFlags |= IsFragment
		b.PrimaryBlock.BundleControlFlags &^= MustNotFragmented
		b.PrimaryBlock.FragmentOffset = uint64(r.intn(5000))
		b.PrimaryBlock.TotalDataLength = b.PrimaryBlock.FragmentOffset + uint64(pl) + uint64(r.intn(5000))
		desc = append(desc, "fragment")
	}
	pick := func() CRCType {
		switch mix {
		case 0:
			return CRC32
		case 1:
			return CRC16
		}
		if r.intn(2) == 0 {
			return CRC16
		}
		return CRC32
	}
	b.PrimaryBlock.SetCRCType(pick())
	for i := range b.CanonicalBlocks {
		b.CanonicalBlocks[i].SetCRCType(pick())
		// block processing control flags (the builder's helpers set none): a block the receiver may DROP when it
		// cannot process it, a replicated one - the CRC must be checked all the same
		if b.CanonicalBlocks[i].TypeCode() != ExtBlockTypePayloadBlock {
			switch r.intn(4) {
			case 0:
				b.CanonicalBlocks[i].BlockControlFlags |= RemoveBlock
			case 1:
				b.CanonicalBlocks[i].BlockControlFlags |= ReplicateBlock
			}
		}
	}
	var enc bytes.Buffer
	if err = b.MarshalCbor(&enc); err != nil {
		return vb, err
	}
	vb.b, vb.enc = b, enc.Bytes()
	// block extents from separate serialisations
	pos := 1
	var pbuf bytes.Buffer
	if err = b.PrimaryBlock.MarshalCbor(&pbuf); err != nil {
		return vb, err
	}
	vb.extents = append(vb.extents, [2]int{pos, pos + pbuf.Len()})
	vb.widths = append(vb.widths, 16*int(b.PrimaryBlock.CRCType))
	pos += pbuf.Len()
	for i := range b.CanonicalBlocks {
		var cbuf bytes.Buffer
		if err = b.CanonicalBlocks[i].MarshalCbor(&cbuf); err != nil {
			return vb, err
		}
		vb.extents = append(vb.extents, [2]int{pos, pos + cbuf.Len()})
		vb.widths = append(vb.widths, 16*int(b.CanonicalBlocks[i].CRCType))
		pos += cbuf.Len()
	}
	if pos+1 != len(vb.enc) {
		return vb, fmt.Errorf("extent bookkeeping: %d+1 != %d", pos, len(vb.enc))
	}
	vb.desc = fmt.Sprintf("mix%d,%s,len%d,blocks%d", mix, strings.Join(desc, "+"), len(vb.enc), len(vb.extents))
	return vb, nil
}

// widthAt: CRC width (bits) protecting byte i; the two frame bytes count as 16.
func (vb *verifC03Bundle) widthAt(i int) int {
	for k, e := range vb.extents {
		if e[0] <= i && i < e[1] {
			return vb.widths[k]
		}
	}
	return 16
}

// state of the "after a failed parse" stream
var (
	verifC03Cur   *Bundle // known-good object whose encoding is being mutated
	verifC03Fails int
	verifC03Every = 41
)

// verifC03After: the parse of `mutated` has just failed. Serialise the good object and parse its pristine
// encoding; both must be untouched by whatever the failed parse left behind (scratch buffers, pools, …).
func verifC03After(w *bufio.Writer, b *Bundle, mutated []byte, mv string, pristine []byte) {
	var enc bytes.Buffer
	reser := "err"
	func() {
		defer func() {
			if rec := recover(); rec != nil {
				reser = "panic"
			}
		}()
		if err := b.MarshalCbor(&enc); err == nil {
			reser = verifC03Hex(enc.Bytes())
		}
	}()
	fmt.Fprintf(w, "after %s %s %s %s %s\n", verifC03Hex(mutated), mv, verifC03Hex(pristine), reser, verifC03Parse(pristine))
}

func verifC03Mut(w *bufio.Writer, origHex string, orig []byte, off int, x []byte) {
	allZero := true
	for _, v := range x {
		if v != 0 {
			allZero = false
		}
	}
	if allZero || off+len(x) > len(orig) {
		return
	}
	m := append([]byte{}, orig...)
	for i, v := range x {
		m[off+i] ^= v
	}
	v := verifC03Parse(m)
	fmt.Fprintf(w, "mut %s %d %s %s\n", origHex, off, verifC03Hex(x), v)
	if v != "accept" && verifC03Cur != nil {
		verifC03Fails++
		if verifC03Fails%verifC03Every == 0 {
			verifC03After(w, verifC03Cur, m, v, orig)
		}
	}
}

// burst in CRC bit order (bit i of the encoding = bit i%8, counted from the least significant, of byte i/8)
func verifC03Burst(start int, pattern []bool) (off int, x []byte) {
	off = start / 8
	end := start + len(pattern) - 1
	x = make([]byte, end/8-off+1)
	for k, p := range pattern {
		if p {
			bit := start + k
			x[bit/8-off] |= 1 << uint(bit%8)
		}
	}
	return
}

func verifC03Mutations(w *bufio.Writer, r *verifC03Rng, vb *verifC03Bundle, perStart int, stride int) (n int) {
	orig := vb.enc
	oh := verifC03Hex(orig)
	nbits := 8 * len(orig)
	verifC03Cur = &vb.b
	defer func() { verifC03Cur = nil }()
	// every single bit
	for i := 0; i < nbits; i += stride {
		j := i
		if stride > 1 {
			j = i + r.intn(stride)
			if j >= nbits {
				break
			}
		}
		verifC03Mut(w, oh, orig, j/8, []byte{1 << uint(j%8)})
		n++
	}
	// bursts: every start position, random patterns no longer than the CRC width of the block hit
	for i := 0; i < nbits; i += stride {
		wd := vb.widthAt(i / 8)
		for k := 0; k < perStart; k++ {
			l := 2 + r.intn(wd-1)
			if k == 0 {
				l = wd // the longest guaranteed burst at every start
			}
			if i+l > nbits {
				l = nbits - i
			}
			if l < 2 {
				continue
			}
			// a burst reaching into the next block must also respect that block's width
			if wd2 := vb.widthAt((i + l - 1) / 8); wd2 < l {
				l = wd2
			}
			pat := make([]bool, l)
			pat[0], pat[l-1] = true, true
			for q := 1; q < l-1; q++ {
				pat[q] = r.next()&1 == 1
			}
			off, x := verifC03Burst(i, pat)
			verifC03Mut(w, oh, orig, off, x)
			n++
		}
	}
	// straddling bursts: last j data bits, the (unchanged) head byte of the CRC item, first i value bits,
	// j+8+i <= CRC width. CRC-16: every pattern; CRC-32: every (j,i) with random fillings.
	if stride == 1 {
		for k, e := range vb.extents {
			wd := vb.widths[k]
			nb := wd / 8
			headBit := 8 * (e[1] - nb - 1) // first bit of the item head = end of the data bits
			for j := 1; j+8+1 <= wd; j++ {
				for i := 1; j+8+i <= wd; i++ {
					free := j + i - 2 // first data bit and last value bit are set
					reps := 1 << uint(free)
					if wd == 32 {
						reps = perStart
					}
					for rep := 0; rep < reps; rep++ {
						fill := uint64(rep)
						if wd == 32 {
							fill = r.next()
						}
						pat := make([]bool, j+8+i)
						pat[0], pat[j+8+i-1] = true, true
						q := 0
						for b := 1; b < j+8+i-1; b++ {
							if b >= j && b < j+8 {
								continue
							}
							pat[b] = fill>>uint(q)&1 == 1
							q++
						}
						off, x := verifC03Burst(headBit-j, pat)
						verifC03Mut(w, oh, orig, off, x)
						n++
					}
				}
			}
		}
	}
	// byte windows: 2 resp. 4 arbitrary consecutive bytes
	for o := 0; o < len(orig); o += stride {
		nb := vb.widthAt(o) / 8
		if o+nb > len(orig) {
			nb = len(orig) - o
		}
		if wd2 := vb.widthAt(o+nb-1) / 8; wd2 < nb {
			nb = wd2
		}
		verifC03Mut(w, oh, orig, o, r.bytes(nb))
		n++
	}
	return
}

// verifC03Adversarial: a payload chosen such that ONE flipped bit of the payload length moves the block
// boundary onto a correct CRC item and a break byte inside the payload (DESIGN §8 C03, "deliberately
// not a theorem"). Both encodings are expected to be accepted; the driver only compares with the model.
func verifC03Adversarial(w *bufio.Writer, r *verifC03Rng) {
	for _, t := range []CRCType{CRC16, CRC32} {
		n := 2 * int(t)
		b, err := Builder().Source("dtn://s/").Destination("dtn://d/").
			CreationTimestampTime(verifC03Time).Lifetime(verifC03Century).PayloadBlock([]byte{0}).Build()
		if err != nil {
			panic(err)
		}
		b.PrimaryBlock.SetCRCType(t)
		var p bytes.Buffer
		_ = b.PrimaryBlock.MarshalCbor(&p)
		a := r.bytes(12)
		inner := append([]byte{0x86, 1, 1, 0, byte(t), 0x58, 0x0c}, a...)
		c1 := verifC03Raw(t, append(append(append([]byte{}, inner...), byte(0x40+n)), make([]byte, n)...))
		payload := append(append(append(append([]byte{}, a...), byte(0x40+n)), c1...), 0xff)
		payload = append(payload, r.bytes(44-len(payload))...)
		outer := append([]byte{0x86, 1, 1, 0, byte(t), 0x58, 0x2c}, payload...)
		c2 := verifC03Raw(t, append(append(append([]byte{}, outer...), byte(0x40+n)), make([]byte, n)...))
		enc := append([]byte{0x9f}, p.Bytes()...)
		off := len(enc) + 6
		enc = append(enc, outer...)
		enc = append(append(append(enc, byte(0x40+n)), c2...), 0xff)
		m := append([]byte{}, enc...)
		m[off] ^= 0x20
		fmt.Fprintf(w, "adversarial %s %d 20 %s %s\n", verifC03Hex(enc), off, verifC03Parse(enc), verifC03Parse(m))
	}
}

// verifC03Direct: hand-made encodings around the "declares a CRC" edge.
func verifC03Direct(w *bufio.Writer, r *verifC03Rng) {
	emit := func(name string, enc []byte) {
		fmt.Fprintf(w, "direct %s %s %s\n", name, verifC03Hex(enc), verifC03Parse(enc))
	}
	mk := func(primT, payT CRCType, payload []byte) (prim, pay []byte) {
		b, err := Builder().Source("dtn://s/").Destination("dtn://d/").
			CreationTimestampTime(verifC03Time).Lifetime(verifC03Century).PayloadBlock(payload).Build()
		if err != nil {
			panic(err)
		}
		b.PrimaryBlock.SetCRCType(primT)
		b.CanonicalBlocks[0].SetCRCType(payT)
		var p, c bytes.Buffer
		_ = b.PrimaryBlock.MarshalCbor(&p)
		_ = b.CanonicalBlocks[0].MarshalCbor(&c)
		return p.Bytes(), c.Bytes()
	}
	bundle := func(blocks ...[]byte) []byte {
		out := []byte{0x9f}
		for _, b := range blocks {
			out = append(out, b...)
		}
		return append(out, 0xff)
	}
	payload := r.bytes(9)
	for _, t := range []CRCType{CRC16, CRC32} {
		n := 2 * int(t)
		prim, pay := mk(t, t, payload)
		_, payNo := mk(t, CRCNo, payload)
		tag := fmt.Sprintf("crc%d", 16*int(t))
		emit("plain-"+tag, bundle(prim, pay))

		// CRC type set, but a 5-element array without CRC item (D5)
		x := append([]byte{}, payNo...)
		x[4] = byte(t)
		emit("canonical-type-without-item-"+tag, bundle(prim, x))
		x = append([]byte{}, payNo...)
		x[4] = 3
		emit("canonical-unknown-type-without-item", bundle(prim, x))
		// primary: 8 elements, CRC type set, CRC item cut off
		p8 := append([]byte{0x88}, prim[1:len(prim)-1-n]...)
		emit("primary-type-without-item-"+tag, bundle(p8, pay))
		// unknown type with an item
		x = append([]byte{}, pay...)
		x[4] = 3
		emit("canonical-unknown-type-with-item", bundle(prim, x))
		// CRC type 0 with a 6-element array: empty byte string / non-empty byte string
		x = append(append([]byte{0x86}, payNo[1:]...), 0x40)
		emit("canonical-type0-empty-item", bundle(prim, x))
		x = append(append([]byte{0x86}, payNo[1:]...), 0x42, 0, 0)
		emit("canonical-type0-nonempty-item", bundle(prim, x))
		// wrong length of the CRC item
		x = append(append([]byte{}, pay[:len(pay)-1-n]...), byte(0x40+n+1))
		x = append(x, pay[len(pay)-n:]...)
		x = append(x, 0)
		emit("canonical-item-too-long-"+tag, bundle(prim, x))

		// non-shortest array head 0x98 0x06, CRC value as computed by dtn7 (over the replayed 0x86 …)
		x = append([]byte{0x98, 0x06}, pay[1:]...)
		emit("canonical-long-array-head-crc-over-short-"+tag, bundle(prim, x))
		// … and the CRC value computed over the received bytes
		x = append([]byte{0x98, 0x06}, pay[1:]...)
		for i := 0; i < n; i++ {
			x[len(x)-n+i] = 0
		}
		copy(x[len(x)-n:], verifC03Raw(t, x))
		emit("canonical-long-array-head-crc-over-received-"+tag, bundle(prim, x))
		// non-shortest head of the CRC item: 0x58 n, value as computed by dtn7 (over 0x4n 00…)
		x = append(append([]byte{}, pay[:len(pay)-1-n]...), 0x58, byte(n))
		x = append(x, pay[len(pay)-n:]...)
		emit("canonical-long-item-head-crc-over-short-"+tag, bundle(prim, x))
		x = append(append([]byte{}, pay[:len(pay)-1-n]...), 0x58, byte(n))
		x = append(x, make([]byte, n)...)
		copy(x[len(x)-n:], verifC03Raw(t, x))
		emit("canonical-long-item-head-crc-over-received-"+tag, bundle(prim, x))
		x = append(append([]byte{}, prim[:len(prim)-1-n]...), 0x58, byte(n))
		x = append(x, prim[len(prim)-n:]...)
		emit("primary-long-item-head-crc-over-short-"+tag, bundle(x, pay))
		x = append(append([]byte{}, prim[:len(prim)-1-n]...), 0x58, byte(n))
		x = append(x, make([]byte, n)...)
		copy(x[len(x)-n:], verifC03Raw(t, x))
		emit("primary-long-item-head-crc-over-received-"+tag, bundle(x, pay))
		// primary with a non-shortest array head 0x98 0x09 (tee'd as received), CRC over received bytes
		x = append([]byte{0x98, 0x09}, prim[1:]...)
		for i := 0; i < n; i++ {
			x[len(x)-n+i] = 0
		}
		copy(x[len(x)-n:], verifC03Raw(t, x))
		emit("primary-long-array-head-crc-over-received-"+tag, bundle(x, pay))
		x = append([]byte{0x98, 0x09}, prim[1:]...)
		emit("primary-long-array-head-crc-over-short-"+tag, bundle(x, pay))
		// "unset" CRC values must not be accepted
		for _, fill := range []byte{0x00, 0xff} {
			x = append([]byte{}, pay...)
			for i := 0; i < n; i++ {
				x[len(x)-n+i] = fill
			}
			emit(fmt.Sprintf("canonical-crc-value-all-%02x-%s", fill, tag), bundle(prim, x))
			x = append([]byte{}, prim...)
			for i := 0; i < n; i++ {
				x[len(x)-n+i] = fill
			}
			emit(fmt.Sprintf("primary-crc-value-all-%02x-%s", fill, tag), bundle(x, pay))
		}
		// a CRC item which is a proper prefix of the right value (every length, the empty one too)
		for k := 0; k < n; k++ {
			x = append(append([]byte{}, pay[:len(pay)-1-n]...), byte(0x40+k))
			x = append(x, pay[len(pay)-n:len(pay)-n+k]...)
			emit(fmt.Sprintf("canonical-item-prefix-%d-%s", k, tag), bundle(prim, x))
			x = append(append([]byte{}, prim[:len(prim)-1-n]...), byte(0x40+k))
			x = append(x, prim[len(prim)-n:len(prim)-n+k]...)
			emit(fmt.Sprintf("primary-item-prefix-%d-%s", k, tag), bundle(x, pay))
		}
		// a break byte where the CRC item of the last block should start
		x = append([]byte{}, pay...)
		x[len(x)-1-n] = 0xff
		emit("canonical-break-instead-of-item-"+tag, bundle(prim, x))
	}
}

// verifC03Reserialise: the serialiser clause over multi-step histories of ONE bundle value: it is built (or
// parsed), serialised, then fields of its blocks are assigned directly — as the agents, the routing algorithms
// and Core.forward do with bundles they hold — and it is serialised again. Every CRC written must be the CRC
// of the bytes written in THAT serialisation.
func verifC03Reserialise(w *bufio.Writer, r *verifC03Rng) {
	ser := func(b *Bundle) []byte {
		var buf bytes.Buffer
		if err := b.MarshalCbor(&buf); err != nil {
			return nil
		}
		return buf.Bytes()
	}
	emit := func(what string, enc []byte) {
		if enc == nil {
			fmt.Fprintf(w, "reser %s - error\n", what)
			return
		}
		fmt.Fprintf(w, "reser %s %s %s\n", what, verifC03Hex(enc), verifC03Parse(enc))
	}
	muts := []struct {
		name string
		f    func(b *Bundle)
	}{
		{"primary-destination-assigned", func(b *Bundle) { b.PrimaryBlock.Destination = MustNewEndpointID("dtn://other-destination/x") }},
		{"primary-report-to-assigned", func(b *Bundle) { b.PrimaryBlock.ReportTo = MustNewEndpointID("ipn:77.9") }},
		{"primary-lifetime-assigned", func(b *Bundle) { b.PrimaryBlock.Lifetime = b.PrimaryBlock.Lifetime + 12345 }},
		{"primary-flags-assigned", func(b *Bundle) { b.PrimaryBlock.BundleControlFlags |= MustNotFragmented }},
		{"primary-sequence-number-assigned", func(b *Bundle) { b.PrimaryBlock.CreationTimestamp[1] += 7 }},
		{"canonical-flags-assigned", func(b *Bundle) {
			b.CanonicalBlocks[0].BlockControlFlags |= ReplicateBlock
		}},
		{"hop-count-incremented", func(b *Bundle) {
			if cb, err := b.ExtensionBlock(ExtBlockTypeHopCountBlock); err == nil {
				cb.Value.(*HopCountBlock).Increment()
			}
		}},
	}
	for _, ct := range []CRCType{CRC16, CRC32} {
		for _, m := range muts {
			mk := func() (Bundle, error) {
				return Builder().CRC(ct).Source("dtn://s/").Destination("dtn://d/").ReportTo("dtn://s/r").
					CreationTimestampTime(verifC03Time).Lifetime(verifC03Century).HopCountBlock(17).
					PayloadBlock(r.bytes(1 + r.intn(20))).Build()
			}
			// built, serialised, assigned, serialised again
			if b, err := mk(); err == nil {
				_ = ser(&b)
				m.f(&b)
				emit(fmt.Sprintf("%s-after-serialising-crc%d", m.name, 16*int(ct)), ser(&b))
			}
			// built, assigned, serialised (no first serialisation)
			if b, err := mk(); err == nil {
				m.f(&b)
				emit(fmt.Sprintf("%s-after-building-crc%d", m.name, 16*int(ct)), ser(&b))
			}
			// built, serialised, parsed, assigned, serialised again
			if b, err := mk(); err == nil {
				if p, err := ParseBundle(bytes.NewReader(ser(&b))); err == nil {
					m.f(&p)
					emit(fmt.Sprintf("%s-after-parsing-crc%d", m.name, 16*int(ct)), ser(&p))
				}
			}
		}
	}
}

func TestVerifC03(t *testing.T) {
	outPath := os.Getenv("VERIF_OUT")
	if outPath == "" {
		t.Skip("VERIF_OUT not set")
	}
	log.SetLevel(log.ErrorLevel)
	f, err := os.Create(outPath)
	if err != nil {
		t.Fatal(err)
	}
	defer f.Close()
	w := bufio.NewWriterSize(f, 1<<20)
	defer w.Flush()
	seed, _ := strconv.ParseUint(os.Getenv("VERIF_SEED"), 10, 64)
	thorough := os.Getenv("VERIF_TIER") == "thorough"
	r := &verifC03Rng{s: seed*2654435761 + 3}

	if rp := os.Getenv("VERIF_REPLAY"); rp != "" {
		verifC03Replay(t, w, rp)
		return
	}

	// (i) the two libraries with the tables the package actually uses
	check := []byte("123456789")
	for _, ct := range []CRCType{CRC16, CRC32} {
		fmt.Fprintf(w, "raw %d %s %s\n", ct, verifC03Hex(check), verifC03Hex(verifC03Raw(ct, check)))
		fmt.Fprintf(w, "raw %d %s %s\n", ct, "-", verifC03Hex(verifC03Raw(ct, nil)))
	}
	nRaw, maxRaw := 400, 96
	if thorough {
		nRaw, maxRaw = 4000, 2048
	}
	for i := 0; i < nRaw; i++ {
		l := r.intn(maxRaw + 1)
		if i < 40 {
			l = i
		}
		d := r.bytes(l)
		switch r.intn(8) { // degenerate contents
		case 0:
			for j := range d {
				d[j] = 0
			}
		case 1:
			for j := range d {
				d[j] = 0xff
			}
		}
		ct := CRCType(1 + i%2)
		fmt.Fprintf(w, "raw %d %s %s\n", ct, verifC03Hex(d), verifC03Hex(verifC03Raw(ct, d)))
		fmt.Fprintf(w, "calc %d %s %s\n", ct, verifC03Hex(d), verifC03Calc(ct, d))
	}
	fmt.Fprintf(w, "calc 0 %s %s\n", verifC03Hex(check), verifC03Calc(CRCNo, check))
	fmt.Fprintf(w, "calc 3 %s %s\n", verifC03Hex(check), verifC03Calc(CRCType(3), check))

	// created primary blocks always carry a CRC
	for _, ct := range []CRCType{CRCNo, CRC16, CRC32} {
		pb := NewPrimaryBlock(0, MustNewEndpointID("dtn://d/"), MustNewEndpointID("ipn:3.4"),
			NewCreationTimestamp(DtnTimeFromTime(verifC03Time), uint64(r.intn(100))), 1000)
		pb.SetCRCType(ct)
		var pbuf bytes.Buffer
		if err := pb.MarshalCbor(&pbuf); err != nil {
			fmt.Fprintf(w, "# primary marshal error %v\n", err)
		}
		fmt.Fprintf(w, "prim %d %s\n", ct, verifC03Hex(pbuf.Bytes()))
		b, err := Builder().CRC(ct).Source("dtn://s/").Destination("dtn://d/").CreationTimestampTime(verifC03Time).
			Lifetime(verifC03Century).PayloadBlock([]byte("x")).Build()
		if err != nil {
			fmt.Fprintf(w, "# builder error %v\n", err)
			continue
		}
		pbuf.Reset()
		_ = b.PrimaryBlock.MarshalCbor(&pbuf)
		fmt.Fprintf(w, "prim %d %s\n", ct, verifC03Hex(pbuf.Bytes()))
	}

	verifC03Direct(w, r)
	verifC03Adversarial(w, r)
	verifC03Reserialise(w, r)

	// (ii) generated bundles, all three CRC mixes
	nBundles, maxPayload, perStart := 27, 60, 2
	if thorough {
		nBundles, maxPayload, perStart = 120, 160, 3
	}
	total := 0
	for i := 0; i < nBundles; i++ {
		mp := maxPayload
		if i%3 == 0 {
			mp = 12 // short bundles: more of the flips hit structure
		}
		vb, err := verifC03Gen(r, i%3, mp)
		if err != nil {
			fmt.Fprintf(w, "# generator error: %v\n", err)
			continue
		}
		fmt.Fprintf(w, "# bundle %d %s\n", i, vb.desc)
		fmt.Fprintf(w, "orig %s %s\n", verifC03Hex(vb.enc), verifC03Parse(vb.enc))
		total += verifC03Mutations(w, r, &vb, perStart, 1)
	}
	if thorough {
		// large bundles: sampled positions
		for i := 0; i < 6; i++ {
			vb, err := verifC03Gen(r, i%3, 4096)
			if err != nil {
				fmt.Fprintf(w, "# generator error: %v\n", err)
				continue
			}
			fmt.Fprintf(w, "# bundle large-%d %s\n", i, vb.desc)
			fmt.Fprintf(w, "orig %s %s\n", verifC03Hex(vb.enc), verifC03Parse(vb.enc))
			total += verifC03Mutations(w, r, &vb, 1, 197)
		}
	}
	fmt.Fprintf(w, "# mutations %d\n", total)
}

// verifC03Replay re-runs the single observation stored in a replay file.
func verifC03Replay(t *testing.T, w *bufio.Writer, path string) {
	raw, err := os.ReadFile(path)
	if err != nil {
		t.Fatal(err)
	}
	var rp struct {
		MinimalInput string `json:"minimal_input"`
	}
	if err := json.Unmarshal(raw, &rp); err != nil {
		t.Fatal(err)
	}
	fs := strings.Fields(rp.MinimalInput)
	unhex := func(s string) []byte {
		if s == "-" {
			return nil
		}
		b, _ := hex.DecodeString(s)
		return b
	}
	if len(fs) == 0 {
		return
	}
	switch {
	case fs[0] == "mut" && len(fs) >= 4:
		off, _ := strconv.Atoi(fs[2])
		orig := unhex(fs[1])
		verifC03Mut(w, fs[1], orig, off, unhex(fs[3]))
	case fs[0] == "after" && len(fs) >= 4:
		pristine := unhex(fs[3])
		b, err := ParseBundle(bytes.NewReader(pristine))
		if err != nil {
			fmt.Fprintf(w, "# replay: pristine bundle does not parse: %v\n", err)
			return
		}
		m := unhex(fs[1])
		verifC03After(w, &b, m, verifC03Parse(m), pristine)
	case fs[0] == "orig" && len(fs) >= 2:
		fmt.Fprintf(w, "orig %s %s\n", fs[1], verifC03Parse(unhex(fs[1])))
	case fs[0] == "direct" && len(fs) >= 3:
		fmt.Fprintf(w, "direct %s %s %s\n", fs[1], fs[2], verifC03Parse(unhex(fs[2])))
	case fs[0] == "raw" && len(fs) >= 3:
		ct, _ := strconv.Atoi(fs[1])
		fmt.Fprintf(w, "raw %d %s %s\n", ct, fs[2], verifC03Hex(verifC03Raw(CRCType(ct), unhex(fs[2]))))
	case fs[0] == "calc" && len(fs) >= 3:
		ct, _ := strconv.Atoi(fs[1])
		fmt.Fprintf(w, "calc %d %s %s\n", ct, fs[2], verifC03Calc(CRCType(ct), unhex(fs[2])))
	default:
		fmt.Fprintf(w, "# replay: unsupported line %q\n", rp.MinimalInput)
	}
}
