package bpv7

// C04 harness for the bundle codec: bundles with every extension block, administrative records,
// endpoint IDs (CBOR and text), DTLSR / PRoPHET / signature blocks, BuildFromMap (the REST agent's /build).
// Attached with `go test -overlay`; never part of /repo. See verif_c04_common_test.go.

import (
	"bytes"
	"encoding/hex"
	"encoding/json"
	"fmt"
	"sort"
	"strings"
	"testing"

	"github.com/dtn7/cboring"
	log "github.com/sirupsen/logrus"
)

func verifC04EidCanon(e EndpointID) string {
	switch t := e.EndpointType.(type) {
	case nil:
		return "nil"
	case DtnEndpoint:
		if t.IsDtnNone {
			return "none"
		}
		return "dtn:" + verifC04Hex([]byte(t.NodeName)) + ":" + verifC04Hex([]byte(t.Demux))
	case IpnEndpoint:
		return fmt.Sprintf("ipn:%d.%d", t.Node, t.Service)
	}
	return "other"
}

func verifC04RegisterBlocks() {
	ebm := GetExtensionBlockManager()
	_ = ebm.Register(NewDTLSRBlock(DTLSRPeerData{}))
	_ = ebm.Register(NewProphetBlock(nil))
	_ = ebm.Register(NewBinarySprayBlock(0))
	_ = ebm.Register(&SignatureBlock{})
}

// verifC04ConsumeBundle does with an accepted bundle what its consumers in pkg/routing do first: the
// validity check, the look-ups of the well-known blocks with the type assertions used there
// (processing.go, pipeline_checks.go, bundle_descriptor.go, algorithm_*.go) and the administrative record
// decoder on the payload.
func verifC04ConsumeBundle(b *Bundle) {
	_ = b.CheckValid()
	if blk, err := b.ExtensionBlock(ExtBlockTypeHopCountBlock); err == nil {
		hc := blk.Value.(*HopCountBlock)
		_ = hc.IsExceeded()
		hc.Increment()
	}
	if blk, err := b.ExtensionBlock(ExtBlockTypePreviousNodeBlock); err == nil {
		_ = blk.Value.(*PreviousNodeBlock).Endpoint().String()
	}
	if blk, err := b.ExtensionBlock(ExtBlockTypeBundleAgeBlock); err == nil {
		_ = blk.Value.(*BundleAgeBlock).Age()
	}
	if blk, err := b.ExtensionBlock(ExtBlockTypeDTLSRBlock); err == nil {
		_ = blk.Value.(*DTLSRBlock).GetPeerData()
	}
	if blk, err := b.ExtensionBlock(ExtBlockTypeProphetBlock); err == nil {
		_ = blk.Value.(*ProphetBlock).GetPredictabilities()
	}
	if blk, err := b.ExtensionBlock(ExtBlockTypeBinarySprayBlock); err == nil {
		_ = blk.Value.(*BinarySprayBlock).RemainingCopies()
	}
	if blk, err := b.ExtensionBlock(ExtBlockTypeSignatureBlock); err == nil {
		_ = blk.Value.(*SignatureBlock).Verify(*b)
	}
	if pb, err := b.PayloadBlock(); err == nil {
		data := pb.Value.(*PayloadBlock).Data()
		if b.IsAdministrativeRecord() {
			if ar, arErr := NewAdministrativeRecordFromCbor(data); arErr == nil {
				if sr, ok := ar.(*StatusReport); ok {
					_ = sr.StatusInformations()
					_ = sr.String()
				}
			}
		}
	}
	_ = b.PrimaryBlock.HasFragmentation()
	_ = b.ID().Scrub().String()
}

func verifC04Decoders() map[string]verifC04Dec {
	res := func(err error, canon string) (string, string) {
		if err != nil {
			return "error", "-"
		}
		return "value", canon
	}
	return map[string]verifC04Dec{
		"bundle": func(in []byte) (string, string) {
			var b Bundle
			err := b.UnmarshalCbor(bytes.NewReader(in))
			if err != nil {
				return "error", "-"
			}
			// what the node does with an accepted bundle before any routing decision
			_ = b.String()
			_ = b.ID().String()
			_ = b.IsLifetimeExceeded()
			for i := range b.CanonicalBlocks {
				_ = b.CanonicalBlocks[i].String()
			}
			if b.IsAdministrativeRecord() {
				if ar, arErr := b.AdministrativeRecord(); arErr == nil {
					_ = fmt.Sprint(ar)
				}
			}
			verifC04ConsumeBundle(&b)
			_, _ = json.Marshal(b) // REST agent: /fetch
			var buf bytes.Buffer
			_ = b.MarshalCbor(&buf) // forwarding
			return "value", fmt.Sprintf("blocks=%d", len(b.CanonicalBlocks))
		},
		"adminrec": func(in []byte) (string, string) {
			ar, err := GetAdministrativeRecordManager().ReadAdministrativeRecord(bytes.NewBuffer(in))
			if err != nil {
				return "error", "-"
			}
			sr, ok := ar.(*StatusReport)
			if !ok {
				return "value", "other"
			}
			_ = sr.String()
			_ = sr.StatusInformations()
			frag := 0
			if sr.RefBundle.IsFragment {
				frag = 1
			}
			return "value", fmt.Sprintf("n=%d,reason=%d,frag=%d,src=%s", len(sr.StatusInformation), uint64(sr.ReportReason), frag,
				verifC04EidCanon(sr.RefBundle.SourceNode))
		},
		"eid-cbor": func(in []byte) (string, string) {
			var e EndpointID
			err := e.UnmarshalCbor(bytes.NewReader(in))
			if err == nil {
				_ = e.String()
				_ = e.CheckValid()
			}
			return res(err, verifC04EidCanon(e))
		},
		"dtlsr": func(in []byte) (string, string) {
			var d DTLSRBlock
			err := d.UnmarshalCbor(bytes.NewReader(in))
			return res(err, fmt.Sprintf("n=%d,ts=%d,id=%s", len(d.Peers), uint64(d.Timestamp), verifC04EidCanon(d.ID)))
		},
		"prophet": func(in []byte) (string, string) {
			var p ProphetBlock
			err := p.UnmarshalCbor(bytes.NewReader(in))
			return res(err, fmt.Sprintf("n=%d", len(p)))
		},
		"sigblock": func(in []byte) (string, string) {
			var s SignatureBlock
			err := s.UnmarshalCbor(bytes.NewReader(in))
			if err == nil {
				_ = s.CheckValid()
			}
			return res(err, fmt.Sprintf("pk=%d,sig=%d", len(s.PublicKey), len(s.Signature)))
		},
		"canonical": func(in []byte) (string, string) {
			var cb CanonicalBlock
			err := cb.UnmarshalCbor(bytes.NewReader(in))
			if err == nil {
				_ = cb.CheckValid()
				_ = cb.String()
			}
			return res(err, "-")
		},
		"primary": func(in []byte) (string, string) {
			var pb PrimaryBlock
			err := pb.UnmarshalCbor(bytes.NewReader(in))
			if err == nil {
				_ = pb.CheckValid()
				_ = pb.String()
			}
			return res(err, "-")
		},
		"eid-str": func(in []byte) (string, string) {
			e, err := NewEndpointID(string(in))
			if err == nil {
				_ = e.String()
				_ = e.Authority()
				_ = e.Path()
				_ = e.IsSingleton()
			}
			return res(err, verifC04EidCanon(e))
		},
		"build": func(in []byte) (string, string) {
			// RestAgent.handleBuild: json → RestBuildRequest.Args → BuildFromMap
			var req struct {
				Args map[string]interface{} `json:"arguments"`
			}
			if err := json.NewDecoder(bytes.NewReader(in)).Decode(&req); err != nil {
				return "error", "json"
			}
			b, err := BuildFromMap(req.Args)
			if err == nil {
				_ = b.ID().String()
			}
			return res(err, "-")
		},
	}
}

// ---- seeds ----

func verifC04Marshal(m cboring.CborMarshaler) []byte {
	var buf bytes.Buffer
	if err := cboring.Marshal(m, &buf); err != nil {
		panic(err)
	}
	return buf.Bytes()
}

func verifC04BundleSeeds() (seeds [][]byte) {
	peers := map[EndpointID]DtnTime{
		MustNewEndpointID("dtn://peer-a/"):     0,
		MustNewEndpointID("dtn://peer-b/x/y"):  4711,
		MustNewEndpointID("ipn:23.42"):         1 << 40,
		MustNewEndpointID("dtn://peer.c_d-e/"): 23,
	}
	preds := map[EndpointID]float64{
		MustNewEndpointID("dtn://peer-a/"): 0.5,
		MustNewEndpointID("ipn:1.1"):       0.75,
		MustNewEndpointID("dtn://zzz/~g"):  1,
	}
	sig := &SignatureBlock{PublicKey: bytes.Repeat([]byte{0xa5}, 32), Signature: bytes.Repeat([]byte{0x5a}, 64)}

	// A: no CRC, every block type
	a, err := Builder().
		Source("dtn://src/app").Destination("dtn://dst/").ReportTo("dtn://rep/").
		CreationTimestampEpoch().Lifetime("10m").
		BundleAgeBlock(uint64(1234)).
		HopCountBlock(64).
		PreviousNodeBlock("dtn://prev/").
		Canonical(NewDTLSRBlock(DTLSRPeerData{ID: MustNewEndpointID("dtn://src/"), Timestamp: 99, Peers: peers})).
		Canonical(NewProphetBlock(preds)).
		Canonical(NewBinarySprayBlock(7)).
		Canonical(sig).
		Canonical(NewGenericExtensionBlock([]byte("generic block data"), 77)).
		PayloadBlock([]byte("hello world")).
		Build()
	if err != nil {
		panic(err)
	}
	seeds = append(seeds, verifC04Marshal(&a))

	// B: CRC32, ipn endpoints, fragment
	b, err := Builder().CRC(CRC32).
		Source("ipn:1.2").Destination("ipn:3.4").
		CreationTimestampEpoch().Lifetime("10m").
		BundleAgeBlock(uint64(5)).
		PayloadBlock([]byte("fragment payload")).
		Build()
	if err != nil {
		panic(err)
	}
	b.PrimaryBlock.BundleControlFlags |= IsFragment
	b.PrimaryBlock.FragmentOffset = 16
	b.PrimaryBlock.TotalDataLength = 64
	seeds = append(seeds, verifC04Marshal(&b))

	// C: administrative record (status report about A), CRC16
	c, err := Builder().CRC(CRC16).
		Source("dtn://rep/").Destination("dtn://src/app").
		CreationTimestampEpoch().Lifetime("10m").
		BundleAgeBlock(uint64(5)).
		StatusReport(a, ReceivedBundle, NoInformation, DtnTime(1000)).
		Build()
	if err != nil {
		panic(err)
	}
	seeds = append(seeds, verifC04Marshal(&c))

	// D: the same without CRC, so that a lying count inside the record survives the block check and reaches
	// the administrative record decoder the node runs on an accepted bundle
	d, err := Builder().
		Source("dtn://rep/").Destination("dtn://src/app").
		CreationTimestampEpoch().Lifetime("10m").
		BundleAgeBlock(uint64(5)).
		StatusReport(b, DeletedBundle, LifetimeExpired, DtnTime(2000)).
		Build()
	if err != nil {
		panic(err)
	}
	seeds = append(seeds, verifC04Marshal(&d))
	return
}

func verifC04LargeBundle(n int) []byte {
	b, err := Builder().
		Source("dtn://src/").Destination("dtn://dst/").
		CreationTimestampEpoch().Lifetime("10m").
		BundleAgeBlock(uint64(5)).
		PayloadBlock(bytes.Repeat([]byte{0x42}, n)).
		Build()
	if err != nil {
		panic(err)
	}
	return verifC04Marshal(&b)
}

// verifC04StatusReport encodes [1, [items, reason, eid, ts(, off, total)]] by hand with n items.
func verifC04StatusReport(n int, frag bool, eid []byte) []byte {
	var w bytes.Buffer
	_ = cboring.WriteArrayLength(2, &w)
	_ = cboring.WriteUInt(1, &w)
	if frag {
		_ = cboring.WriteArrayLength(6, &w)
	} else {
		_ = cboring.WriteArrayLength(4, &w)
	}
	_ = cboring.WriteArrayLength(uint64(n), &w)
	for i := 0; i < n; i++ {
		if i%3 == 0 {
			_ = cboring.WriteArrayLength(2, &w)
			_ = cboring.WriteBoolean(true, &w)
			_ = cboring.WriteUInt(uint64(1000+i), &w)
		} else {
			_ = cboring.WriteArrayLength(1, &w)
			_ = cboring.WriteBoolean(i%2 == 0, &w)
		}
	}
	_ = cboring.WriteUInt(5, &w)
	w.Write(eid)
	_ = cboring.WriteArrayLength(2, &w)
	_ = cboring.WriteUInt(700000, &w)
	_ = cboring.WriteUInt(3, &w)
	if frag {
		_ = cboring.WriteUInt(10, &w)
		_ = cboring.WriteUInt(100, &w)
	}
	return w.Bytes()
}

func verifC04Eid(s string) []byte {
	e := MustNewEndpointID(s)
	return verifC04Marshal(&e)
}

func verifC04DtlsrSeed(n int) []byte {
	peers := map[EndpointID]DtnTime{}
	for i := 0; i < n; i++ {
		if i%2 == 0 {
			peers[MustNewEndpointID(fmt.Sprintf("dtn://n%d/", i))] = DtnTime(i)
		} else {
			peers[MustNewEndpointID(fmt.Sprintf("ipn:%d.1", i))] = DtnTime(i * 1000)
		}
	}
	return verifC04Marshal(NewDTLSRBlock(DTLSRPeerData{ID: MustNewEndpointID("dtn://me/"), Timestamp: 42, Peers: peers}))
}

func verifC04ProphetSeed(n int) []byte {
	preds := map[EndpointID]float64{}
	for i := 0; i < n; i++ {
		preds[MustNewEndpointID(fmt.Sprintf("dtn://n%d/", i))] = 1 / float64(i+1)
	}
	return verifC04Marshal(NewProphetBlock(preds))
}

var verifC04EidStrings = []string{
	"dtn:none", "dtn://a/", "dtn://a/b", "dtn://node-1.x_y/~group/sub", "dtn://a//", "dtn://a/\xff\xfe", "dtn://a/b\nc",
	"ipn:1.1", "ipn:18446744073709551615.1", "ipn:18446744073709551616.1", "ipn:0.1", "ipn:1.0", "ipn:01.1", "ipn:1.01",
	"ipn:1", "ipn:1.", "ipn:.1", "ipn:1.1.1", "ipn:-1.1", "ipn:1.1 ", " ipn:1.1",
	"", ":", "dtn", "dtn:", "dtn:/", "dtn://", "dtn:///", "dtn://a", "dtn:// /", "dtn://a b/", "dtn://ä/", "DTN://a/", "dtn:None",
	"dtn:none ", "dtn:nonex", "http://a/", "x:y", "1:2", "a+b:c", "dtn://a/" + "\x00", "\x00dtn://a/",
	"dtn:\n//a/", "ipn:9999999999999999999999999999.1",
}

var verifC04BuildBodies = []string{
	`{"uuid":"u","arguments":{"destination":"dtn://dst/","source":"dtn://src/","creation_timestamp_now":1,"lifetime":"24h","payload_block":"hello world"}}`,
	`{"arguments":{"destination":"dtn://dst/","source":"dtn://src/","creation_timestamp_epoch":1,"lifetime":60000,"bundle_age_block":5,"previous_node_block":"dtn://p/","payload_block":"x"}}`,
	`{"arguments":{"destination":"dtn://dst/","source":"dtn://src/","report_to":"ipn:1.1","creation_timestamp_now":true,"lifetime":1.5e3,"payload_block":[1,2,3]}}`,
	`{"arguments":null}`, `{"arguments":{}}`, `{}`, `null`, `[]`, `1`, `"x"`, `{"arguments":[]}`, `{"arguments":"x"}`, `{"arguments":{"":null}}`,
}

// wrong-typed values for every BuildFromMap key
func verifC04BuildTypeMatrix() (out []string) {
	keys := []string{"destination", "source", "report_to", "creation_timestamp_epoch", "creation_timestamp_now",
		"creation_timestamp_time", "lifetime", "bundle_ctrl_flags", "canonical", "bundle_age_block", "hop_count_block",
		"payload_block", "previous_node_block", "unknown_method"}
	vals := []string{`null`, `true`, `false`, `0`, `-1`, `1e300`, `-1e300`, `1.5`, `18446744073709551616`, `""`, `"x"`, `"dtn://a/"`, `"1h"`,
		`"-1h"`, `[]`, `[null]`, `[1,"x"]`, `[[[]]]`, `{}`, `{"a":null}`, `{"a":{"b":[1]}}`, `"\u0000"`, `"` + strings.Repeat("a", 300) + `"`}
	base := `"destination":"dtn://dst/","source":"dtn://src/","creation_timestamp_now":1,"lifetime":"1h","payload_block":"p"`
	for _, k := range keys {
		for _, v := range vals {
			out = append(out, fmt.Sprintf(`{"arguments":{%q:%s}}`, k, v))
			out = append(out, fmt.Sprintf(`{"arguments":{%s,%q:%s}}`, base, k, v))
		}
	}
	// deep nesting
	out = append(out, `{"arguments":{"payload_block":`+strings.Repeat("[", 5000)+strings.Repeat("]", 5000)+`}}`)
	out = append(out, `{"arguments":{"payload_block":`+strings.Repeat("[", 20000)+`}}`)
	return
}

func verifC04Gen(r *verifC04Rng, thorough bool) (cases []verifC04Case) {
	nRand := 60
	if thorough {
		nRand = 2500
	}
	add := func(dec string, seed []byte, random int) {
		cases = append(cases, verifC04Case{dec, seed})
		cases = append(cases, verifC04CborBoundaries(dec, seed)...)
		cases = append(cases, verifC04Truncations(dec, seed)...)
		cases = append(cases, verifC04Random(dec, seed, random, r)...)
	}
	for _, s := range verifC04BundleSeeds() {
		add("bundle", s, nRand)
	}
	// primary and canonical blocks of the seeds, decoded directly
	for _, s := range verifC04BundleSeeds() {
		var b Bundle
		if err := b.UnmarshalCbor(bytes.NewReader(s)); err != nil {
			panic(fmt.Sprintf("seed bundle does not parse: %v %s", err, hex.EncodeToString(s)))
		}
		add("primary", verifC04Marshal(&b.PrimaryBlock), nRand/3)
		for i := range b.CanonicalBlocks {
			add("canonical", verifC04Marshal(&b.CanonicalBlocks[i]), nRand/10)
		}
	}
	// large inputs: honest sizes (calibrates k) and lying lengths on them
	big := verifC04LargeBundle(60000)
	cases = append(cases, verifC04Case{"bundle", big})
	cases = append(cases, verifC04CborBoundaries("bundle", verifC04LargeBundle(3000))...)
	for _, cut := range []int{100, 30000, len(big) - 1} {
		cases = append(cases, verifC04Case{"bundle", big[:cut]})
	}
	cases = append(cases, verifC04Random("bundle", big, 6, r)...)

	for _, eid := range [][]byte{verifC04Eid("dtn://src/app"), verifC04Eid("ipn:7.9"), verifC04Eid("dtn:none")} {
		add("adminrec", verifC04StatusReport(4, false, eid), nRand)
		add("adminrec", verifC04StatusReport(4, true, eid), nRand/3)
	}
	add("adminrec", verifC04StatusReport(0, false, verifC04Eid("dtn:none")), 20)
	add("adminrec", verifC04StatusReport(30, true, verifC04Eid("ipn:7.9")), 50)
	for _, n := range []int{1000, 20000} {
		sr := verifC04StatusReport(n, false, verifC04Eid("dtn://src/app"))
		cases = append(cases, verifC04Case{"adminrec", sr}, verifC04Case{"adminrec", sr[:len(sr)/2]})
	}

	for _, s := range []string{"dtn:none", "dtn://a/", "dtn://node-1.x_y/~group/sub", "ipn:1.1", "ipn:18446744073709551615.4294967296"} {
		add("eid-cbor", verifC04Eid(s), nRand)
	}
	// text SSPs that are no valid dtn SSP, including invalid UTF-8 and line breaks
	for _, ssp := range []string{"none", "//a", "/a/", "//a/b\nc", "//a/\xff", "//\xc3\xa4/", "//a b/", "", "//", "///", "//a/" + strings.Repeat("d", 300)} {
		var w bytes.Buffer
		_ = cboring.WriteArrayLength(2, &w)
		_ = cboring.WriteUInt(1, &w)
		_ = cboring.WriteTextString(ssp, &w)
		cases = append(cases, verifC04Case{"eid-cbor", w.Bytes()})
	}
	for _, n := range []int{0, 1, 4} {
		add("dtlsr", verifC04DtlsrSeed(n), nRand)
		add("prophet", verifC04ProphetSeed(n), nRand)
	}
	cases = append(cases, verifC04Case{"dtlsr", verifC04DtlsrSeed(3000)}, verifC04Case{"prophet", verifC04ProphetSeed(3000)})
	add("sigblock", verifC04Marshal(&SignatureBlock{PublicKey: bytes.Repeat([]byte{1}, 32), Signature: bytes.Repeat([]byte{2}, 64)}), nRand)

	for _, s := range verifC04EidStrings {
		cases = append(cases, verifC04Case{"eid-str", []byte(s)})
		cases = append(cases, verifC04Random("eid-str", []byte(s), 4, r)...)
	}
	cases = append(cases, verifC04Case{"eid-str", []byte("dtn://" + strings.Repeat("n", 30000) + "/" + strings.Repeat("d", 30000))})
	cases = append(cases, verifC04Case{"eid-str", []byte("ipn:" + strings.Repeat("9", 60000) + ".1")})
	// the grammar, exhaustively over a small alphabet
	alpha := []string{"dtn", "ipn", ":", "/", "//", "none", "a", "1", ".", "~", "\n", "0"}
	var grow func(prefix string, depth int)
	grow = func(prefix string, depth int) {
		cases = append(cases, verifC04Case{"eid-str", []byte(prefix)})
		if depth == 0 {
			return
		}
		for _, a := range alpha {
			grow(prefix+a, depth-1)
		}
	}
	if thorough {
		grow("", 4)
	} else {
		grow("dtn:", 2)
		grow("ipn:", 2)
		grow("", 2)
	}

	for _, b := range verifC04BuildBodies {
		cases = append(cases, verifC04Case{"build", []byte(b)})
		cases = append(cases, verifC04Random("build", []byte(b), 10, r)...)
	}
	for _, b := range verifC04BuildTypeMatrix() {
		cases = append(cases, verifC04Case{"build", []byte(b)})
	}
	sort.SliceStable(cases, func(i, j int) bool { return cases[i].dec < cases[j].dec })
	return
}

func TestVerifC04(t *testing.T) {
	log.SetLevel(log.PanicLevel)
	verifC04RegisterBlocks()
	verifC04Main(t, "TestVerifC04", verifC04Decoders(), verifC04Gen)
}
