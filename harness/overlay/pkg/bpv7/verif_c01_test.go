package bpv7

// Correspondence harness for C01 (bundle wire codec) — attached to package bpv7 with `go test -overlay`;
// never part of /repo. Also holds the helpers shared with verif_c02_test.go.
// One observation per line goes to $VERIF_OUT; formats: /verif/lean/Dtn7/Model/BundleText.lean,
// /verif/lean/Driver/C01.lean.

import (
	"bufio"
	"bytes"
	"encoding/binary"
	"encoding/hex"
	"encoding/json"
	"fmt"
	"hash/crc32"
	"math"
	"os"
	"sort"
	"strconv"
	"strings"
	"testing"
	"time"

	"github.com/howeyc/crc16"
)

// ---------------------------------------------------------------- rng

type vRng struct{ s uint64 }

func (r *vRng) next() uint64 {
	r.s += 0x9e3779b97f4a7c15
	z := r.s
	z = (z ^ (z >> 30)) * 0xbf58476d1ce4e5b9
	z = (z ^ (z >> 27)) * 0x94d049bb133111eb
	return z ^ (z >> 31)
}
func (r *vRng) intn(n int) int   { return int(r.next() % uint64(n)) }
func (r *vRng) chance(p int) bool { return r.intn(100) < p }

var vBoundaries = []uint64{0, 1, 22, 23, 24, 25, 254, 255, 256, 257, 65534, 65535, 65536, 65537,
	1<<32 - 1, 1 << 32, 1<<32 + 1, 1<<63 - 1, 1 << 63, 1<<64 - 1}

func (r *vRng) u64() uint64 {
	switch r.intn(4) {
	case 0:
		return vBoundaries[r.intn(len(vBoundaries))]
	case 1:
		return uint64(r.intn(40))
	case 2:
		return r.next() >> uint(r.intn(64))
	default:
		return uint64(r.intn(70000))
	}
}

func (r *vRng) bytesN(n int) []byte {
	b := make([]byte, n)
	for i := 0; i < n; i += 8 {
		v := r.next()
		for j := 0; j < 8 && i+j < n; j++ {
			b[i+j] = byte(v >> (8 * uint(j)))
		}
	}
	return b
}

// ---------------------------------------------------------------- output

type vOut struct {
	w     *bufio.Writer
	f     *os.File
	hist  map[string]int
	limit int
}

func vOpen(t *testing.T) *vOut {
	p := os.Getenv("VERIF_OUT")
	if p == "" {
		t.Skip("VERIF_OUT not set: this is a verification harness, run it through /verif/bin/check")
	}
	f, err := os.Create(p)
	if err != nil {
		t.Fatal(err)
	}
	return &vOut{w: bufio.NewWriterSize(f, 1<<20), f: f, hist: map[string]int{}}
}

func (o *vOut) line(class string, format string, a ...interface{}) {
	o.hist[class]++
	fmt.Fprintf(o.w, format, a...)
	o.w.WriteByte('\n')
}

func (o *vOut) close() {
	keys := make([]string, 0, len(o.hist))
	for k := range o.hist {
		keys = append(keys, k)
	}
	sort.Strings(keys)
	var parts []string
	for _, k := range keys {
		parts = append(parts, fmt.Sprintf("%s=%d", k, o.hist[k]))
	}
	fmt.Fprintf(o.w, "# distribution %s\n", strings.Join(parts, " "))
	o.w.Flush()
	o.f.Close()
}

func vHex(b []byte) string {
	if len(b) == 0 {
		return "-"
	}
	return hex.EncodeToString(b)
}

func vUnhex(s string) []byte {
	if s == "-" || s == "" {
		return nil
	}
	b, err := hex.DecodeString(s)
	if err != nil {
		panic(err)
	}
	return b
}

// ---------------------------------------------------------------- structural dump (text format of BundleText.lean)

func vDumpEid(e EndpointID) string {
	switch et := e.EndpointType.(type) {
	case DtnEndpoint:
		if et.IsDtnNone {
			return "n"
		}
		return "d." + vHex([]byte(et.NodeName)) + "." + vHex([]byte(et.Demux))
	case IpnEndpoint:
		return fmt.Sprintf("i.%d.%d", et.Node, et.Service)
	case nil:
		return "nil"
	default:
		return fmt.Sprintf("unknown-%T", et)
	}
}

func vDumpPairs(ps []string) string {
	if len(ps) == 0 {
		return "-"
	}
	sort.Strings(ps)
	return strings.Join(ps, ",")
}

func vDumpValue(v ExtensionBlock) string {
	switch x := v.(type) {
	case *PayloadBlock:
		return "pl:" + vHex(x.Data())
	case *PreviousNodeBlock:
		return "pn:" + vDumpEid(x.Endpoint())
	case *BundleAgeBlock:
		return fmt.Sprintf("ag:%d", x.Age())
	case *HopCountBlock:
		return fmt.Sprintf("hc:%d:%d", x.Limit, x.Count)
	case *BinarySprayBlock:
		return fmt.Sprintf("sp:%d", x.RemainingCopies())
	case *DTLSRBlock:
		var ps []string
		for k, ts := range x.Peers {
			ps = append(ps, fmt.Sprintf("%s=%d", vDumpEid(k), uint64(ts)))
		}
		return fmt.Sprintf("dl:%s:%d:%s", vDumpEid(x.ID), uint64(x.Timestamp), vDumpPairs(ps))
	case *ProphetBlock:
		var ps []string
		for k, p := range *x {
			ps = append(ps, fmt.Sprintf("%s=%d", vDumpEid(k), math.Float64bits(p)))
		}
		return "pr:" + vDumpPairs(ps)
	case *SignatureBlock:
		return "sg:" + vHex(x.PublicKey) + ":" + vHex(x.Signature)
	case *GenericExtensionBlock:
		return fmt.Sprintf("ge:%d:%s", x.typeCode, vHex(x.data))
	default:
		return fmt.Sprintf("unknown-%T", v)
	}
}

func vDumpBundle(b *Bundle) string {
	p := &b.PrimaryBlock
	parts := []string{fmt.Sprintf("P:%d:%d:%d:%s:%s:%s:%d:%d:%d:%d:%d", p.Version, uint64(p.BundleControlFlags),
		uint64(p.CRCType), vDumpEid(p.Destination), vDumpEid(p.SourceNode), vDumpEid(p.ReportTo),
		p.CreationTimestamp[0], p.CreationTimestamp[1], p.Lifetime, p.FragmentOffset, p.TotalDataLength)}
	for i := range b.CanonicalBlocks {
		cb := &b.CanonicalBlocks[i]
		parts = append(parts, fmt.Sprintf("C:%d:%d:%d:%s", cb.BlockNumber, uint64(cb.BlockControlFlags),
			uint64(cb.CRCType), vDumpValue(cb.Value)))
	}
	return strings.Join(parts, "/")
}

// ---- reading the text format back (replay)

func vReadEid(s string) EndpointID {
	f := strings.Split(s, ".")
	switch f[0] {
	case "n":
		return DtnNone()
	case "d":
		return EndpointID{DtnEndpoint{NodeName: string(vUnhex(f[1])), Demux: string(vUnhex(f[2]))}}
	case "i":
		n, _ := strconv.ParseUint(f[1], 10, 64)
		sv, _ := strconv.ParseUint(f[2], 10, 64)
		return EndpointID{IpnEndpoint{Node: n, Service: sv}}
	}
	panic("bad eid " + s)
}

func vReadPairs(s string) [][2]string {
	if s == "-" {
		return nil
	}
	var out [][2]string
	for _, kv := range strings.Split(s, ",") {
		x := strings.SplitN(kv, "=", 2)
		out = append(out, [2]string{x[0], x[1]})
	}
	return out
}

func vAtoi(s string) uint64 {
	n, err := strconv.ParseUint(s, 10, 64)
	if err != nil {
		panic(err)
	}
	return n
}

func vReadBundle(s string) Bundle {
	parts := strings.Split(s, "/")
	p := strings.Split(parts[0], ":")
	b := Bundle{PrimaryBlock: PrimaryBlock{Version: vAtoi(p[1]), BundleControlFlags: BundleControlFlags(vAtoi(p[2])),
		CRCType: CRCType(vAtoi(p[3])), Destination: vReadEid(p[4]), SourceNode: vReadEid(p[5]), ReportTo: vReadEid(p[6]),
		CreationTimestamp: CreationTimestamp{vAtoi(p[7]), vAtoi(p[8])}, Lifetime: vAtoi(p[9]),
		FragmentOffset: vAtoi(p[10]), TotalDataLength: vAtoi(p[11])}}
	for _, cs := range parts[1:] {
		c := strings.Split(cs, ":")
		cb := CanonicalBlock{BlockNumber: vAtoi(c[1]), BlockControlFlags: BlockControlFlags(vAtoi(c[2])), CRCType: CRCType(vAtoi(c[3]))}
		switch c[4] {
		case "pl":
			cb.Value = NewPayloadBlock(vUnhex(c[5]))
		case "pn":
			cb.Value = NewPreviousNodeBlock(vReadEid(c[5]))
		case "ag":
			cb.Value = NewBundleAgeBlock(vAtoi(c[5]))
		case "hc":
			cb.Value = &HopCountBlock{Limit: uint8(vAtoi(c[5])), Count: uint8(vAtoi(c[6]))}
		case "sp":
			cb.Value = NewBinarySprayBlock(vAtoi(c[5]))
		case "dl":
			pd := DTLSRPeerData{ID: vReadEid(c[5]), Timestamp: DtnTime(vAtoi(c[6])), Peers: map[EndpointID]DtnTime{}}
			for _, kv := range vReadPairs(c[7]) {
				pd.Peers[vReadEid(kv[0])] = DtnTime(vAtoi(kv[1]))
			}
			cb.Value = NewDTLSRBlock(pd)
		case "pr":
			m := map[EndpointID]float64{}
			for _, kv := range vReadPairs(c[5]) {
				m[vReadEid(kv[0])] = math.Float64frombits(vAtoi(kv[1]))
			}
			cb.Value = NewProphetBlock(m)
		case "sg":
			cb.Value = &SignatureBlock{PublicKey: vUnhex(c[5]), Signature: vUnhex(c[6])}
		case "ge":
			cb.Value = NewGenericExtensionBlock(vUnhex(c[6]), vAtoi(c[5]))
		default:
			panic("bad value " + cs)
		}
		b.CanonicalBlocks = append(b.CanonicalBlocks, cb)
	}
	return b
}

// ---------------------------------------------------------------- registry control

var vExtraTypes = []uint64{ExtBlockTypeBinarySprayBlock, ExtBlockTypeDTLSRBlock, ExtBlockTypeProphetBlock, ExtBlockTypeSignatureBlock}

func vProto(t uint64) ExtensionBlock {
	switch t {
	case ExtBlockTypeBinarySprayBlock:
		return NewBinarySprayBlock(0)
	case ExtBlockTypeDTLSRBlock:
		return NewDTLSRBlock(DTLSRPeerData{})
	case ExtBlockTypeProphetBlock:
		return NewProphetBlock(nil)
	case ExtBlockTypeSignatureBlock:
		return &SignatureBlock{}
	}
	panic("no proto")
}

// vSetExtra makes exactly the given routing/signature block types registered (besides the default four).
func vSetExtra(extra []uint64) {
	m := GetExtensionBlockManager()
	for _, t := range vExtraTypes {
		m.Unregister(vProto(t))
	}
	for _, t := range extra {
		_ = m.Register(vProto(t))
	}
}

func vExtraStr(extra []uint64) string {
	if len(extra) == 0 {
		return "-"
	}
	var p []string
	for _, t := range extra {
		p = append(p, strconv.FormatUint(t, 10))
	}
	return strings.Join(p, ",")
}

func vParseExtra(s string) []uint64 {
	if s == "-" || s == "" {
		return nil
	}
	var out []uint64
	for _, f := range strings.Split(s, ",") {
		out = append(out, vAtoi(f))
	}
	return out
}

// ---------------------------------------------------------------- independent ("loose") encoder

// vW writes CBOR heads; wide > 0 uses a head that is `wide` sizes larger than necessary (non-shortest form).
type vW struct {
	buf  []byte
	wide int
}

func (w *vW) head(major byte, n uint64) {
	sz := 0 // 0: inline, 1: 1 byte, 2: 2 bytes, 3: 4 bytes, 4: 8 bytes
	switch {
	case n < 24:
		sz = 0
	case n < 1<<8:
		sz = 1
	case n < 1<<16:
		sz = 2
	case n < 1<<32:
		sz = 3
	default:
		sz = 4
	}
	sz += w.wide
	if sz > 4 {
		sz = 4
	}
	if sz == 0 {
		w.buf = append(w.buf, major<<5|byte(n))
		return
	}
	l := 1 << uint(sz-1)
	w.buf = append(w.buf, major<<5|byte(23+sz))
	for i := l - 1; i >= 0; i-- {
		w.buf = append(w.buf, byte(n>>(8*uint(i))))
	}
}
func (w *vW) uint(n uint64)   { w.head(0, n) }
func (w *vW) array(n uint64)  { w.head(4, n) }
func (w *vW) bstr(b []byte)   { w.head(2, uint64(len(b))); w.buf = append(w.buf, b...) }
func (w *vW) tstr(s string)   { w.head(3, uint64(len(s))); w.buf = append(w.buf, s...) }
func (w *vW) raw(b []byte)    { w.buf = append(w.buf, b...) }
func (w *vW) simple(n uint64) { w.head(7, n) }

func (w *vW) eid(e EndpointID) {
	switch et := e.EndpointType.(type) {
	case DtnEndpoint:
		w.array(2)
		w.uint(1)
		if et.IsDtnNone {
			w.uint(0)
		} else {
			w.tstr("//" + et.NodeName + "/" + et.Demux)
		}
	case IpnEndpoint:
		w.array(2)
		w.uint(2)
		w.array(2)
		w.uint(et.Node)
		w.uint(et.Service)
	default:
		panic("vW.eid: unsupported endpoint")
	}
}

var (
	vCrc16Tab = crc16.MakeTable(crc16.CCITT)
	vCrc32Tab = crc32.MakeTable(crc32.Castagnoli)
)

// vCrcBytes: CRC over `covered` followed by a zeroed CRC byte string; nil for type 0 / unknown types
// (an unknown type gets `unknownLen` zero bytes so that the block stays well delimited).
func vCrcBytes(t uint64, covered []byte, bad bool) []byte {
	var out []byte
	switch t {
	case 1:
		buf := append(append([]byte{}, covered...), 0x42, 0, 0)
		out = make([]byte, 2)
		binary.BigEndian.PutUint16(out, crc16.Checksum(buf, vCrc16Tab))
	case 2:
		buf := append(append([]byte{}, covered...), 0x44, 0, 0, 0, 0)
		out = make([]byte, 4)
		binary.BigEndian.PutUint32(out, crc32.Checksum(buf, vCrc32Tab))
	default:
		return nil
	}
	if bad {
		out[len(out)-1] ^= 0x01
	}
	return out
}

// vOver describes deviations from the regular encoding of a bundle.
type vOver struct {
	wide       int               // non-shortest heads everywhere
	version    *uint64           // version field
	primLen    *uint64           // array length of the primary block
	primFrag   *bool             // write fragment fields regardless of the flag
	primCrc    *bool             // write a CRC field regardless of the CRC type
	primBadCrc bool              // corrupt the primary CRC
	eidRaw     map[string][]byte // "dst" | "src" | "rpt" | "pn" → raw CBOR item
	blockLen   map[int]uint64    // array length of block i
	blockCrc   map[int]bool      // force presence/absence of the CRC field of block i
	blockBad   map[int]bool      // corrupt the CRC of block i
	blockWire  map[int]bool      // CRC over the array head as sent (instead of the re-encoded shortest one)
	inner      map[int][]byte    // replace the inner value bytes of block i
	trailer    map[int][]byte    // bytes appended inside the value byte string of block i
	breakAt    map[int]int       // block i: write 0xFF instead of item k (0 = array head … 5 = value head, 6 = crc head) and stop the block there
	noBreak    bool              // omit the final 0xFF
	tail       []byte            // bytes after the bundle
}

func vInner(v ExtensionBlock, o *vOver, wide int) []byte {
	w := &vW{wide: wide}
	switch x := v.(type) {
	case *PayloadBlock:
		return x.Data()
	case *GenericExtensionBlock:
		return x.data
	case *PreviousNodeBlock:
		if o != nil && o.eidRaw["pn"] != nil {
			return o.eidRaw["pn"]
		}
		w.eid(x.Endpoint())
	case *BundleAgeBlock:
		w.uint(x.Age())
	case *HopCountBlock:
		w.array(2)
		w.uint(uint64(x.Limit))
		w.uint(uint64(x.Count))
	case *BinarySprayBlock:
		w.uint(x.RemainingCopies())
	case *DTLSRBlock:
		w.array(3)
		w.eid(x.ID)
		w.uint(uint64(x.Timestamp))
		w.head(5, uint64(len(x.Peers)))
		keys := make([]EndpointID, 0, len(x.Peers))
		for k := range x.Peers {
			keys = append(keys, k)
		}
		sort.Slice(keys, func(i, j int) bool { return vDumpEid(keys[i]) < vDumpEid(keys[j]) })
		for _, k := range keys {
			w.eid(k)
			w.uint(uint64(x.Peers[k]))
		}
	case *ProphetBlock:
		w.head(5, uint64(len(*x)))
		keys := make([]EndpointID, 0, len(*x))
		for k := range *x {
			keys = append(keys, k)
		}
		sort.Slice(keys, func(i, j int) bool { return vDumpEid(keys[i]) < vDumpEid(keys[j]) })
		for _, k := range keys {
			w.eid(k)
			w.simple(math.Float64bits((*x)[k]))
		}
	case *SignatureBlock:
		w.array(2)
		w.bstr(x.PublicKey)
		w.bstr(x.Signature)
	default:
		panic(fmt.Sprintf("vInner: %T", v))
	}
	return w.buf
}

func vEncPrimary(p *PrimaryBlock, o *vOver) []byte {
	w := &vW{wide: o.wide}
	frag := p.BundleControlFlags.Has(IsFragment)
	if o.primFrag != nil {
		frag = *o.primFrag
	}
	crc := p.CRCType != CRCNo
	if o.primCrc != nil {
		crc = *o.primCrc
	}
	n := uint64(8)
	if frag {
		n += 2
	}
	if crc {
		n++
	}
	if o.primLen != nil {
		n = *o.primLen
	}
	w.array(n)
	ver := uint64(7)
	if o.version != nil {
		ver = *o.version
	}
	w.uint(ver)
	w.uint(uint64(p.BundleControlFlags))
	w.uint(uint64(p.CRCType))
	for _, x := range []struct {
		k string
		e EndpointID
	}{{"dst", p.Destination}, {"src", p.SourceNode}, {"rpt", p.ReportTo}} {
		if raw := o.eidRaw[x.k]; raw != nil {
			w.raw(raw)
		} else {
			w.eid(x.e)
		}
	}
	w.array(2)
	w.uint(p.CreationTimestamp[0])
	w.uint(p.CreationTimestamp[1])
	w.uint(p.Lifetime)
	if frag {
		w.uint(p.FragmentOffset)
		w.uint(p.TotalDataLength)
	}
	if crc {
		w.bstr(vCrcBytes(uint64(p.CRCType), w.buf, o.primBadCrc))
	}
	return w.buf
}

func vEncCanon(cb *CanonicalBlock, i int, o *vOver) []byte {
	w := &vW{wide: o.wide}
	crc := cb.CRCType != CRCNo
	if f, ok := o.blockCrc[i]; ok {
		crc = f
	}
	n := uint64(5)
	if crc {
		n = 6
	}
	if l, ok := o.blockLen[i]; ok {
		n = l
	}
	brk, hasBrk := o.breakAt[i]
	item := 0
	step := func(f func()) bool {
		if hasBrk && brk == item {
			w.raw([]byte{0xFF})
			return false
		}
		item++
		f()
		return true
	}
	if !step(func() { w.array(n) }) {
		return w.buf
	}
	headLen := len(w.buf)
	for _, f := range []uint64{cb.Value.BlockTypeCode(), cb.BlockNumber, uint64(cb.BlockControlFlags), uint64(cb.CRCType)} {
		f := f
		if !step(func() { w.uint(f) }) {
			return w.buf
		}
	}
	inner, ok := o.inner[i]
	if !ok {
		inner = vInner(cb.Value, o, o.wide)
	}
	inner = append(append([]byte{}, inner...), o.trailer[i]...)
	if !step(func() { w.bstr(inner) }) {
		return w.buf
	}
	if crc {
		covered := w.buf
		if !o.blockWire[i] {
			// what the receiver covers: a freshly encoded array head + the bytes as received
			hw := &vW{}
			hw.array(n)
			covered = append(hw.buf, w.buf[headLen:]...)
		}
		if !step(func() { w.bstr(vCrcBytes(uint64(cb.CRCType), covered, o.blockBad[i])) }) {
			return w.buf
		}
	}
	return w.buf
}

func vEncBundle(b *Bundle, o *vOver) []byte {
	if o == nil {
		o = &vOver{}
	}
	out := []byte{0x9F}
	out = append(out, vEncPrimary(&b.PrimaryBlock, o)...)
	for i := range b.CanonicalBlocks {
		out = append(out, vEncCanon(&b.CanonicalBlocks[i], i, o)...)
	}
	if !o.noBreak {
		out = append(out, 0xFF)
	}
	return append(out, o.tail...)
}

// ---------------------------------------------------------------- generators

const vNodeChars = "abcdefghijklmnopqrstuvwxyzABCDEFGHIJKLMNOPQRSTUVWXYZ0123456789_-."

func (r *vRng) nodeName(n int) string {
	b := make([]byte, n)
	for i := range b {
		b[i] = vNodeChars[r.intn(len(vNodeChars))]
	}
	return string(b)
}

var vLens = []int{0, 1, 2, 17, 18, 19, 20, 21, 22, 23, 24, 25, 100, 247, 248, 249, 250, 251, 252, 253, 254, 255, 256, 257, 300}

// vGenEid: a valid endpoint of a random form. Text lengths cross the 23/24 and 255/256 head boundaries
// ("//" + node + "/" + demux).
var vBigText = false // 64 KiB endpoint texts now and then

func vGenEid(r *vRng, allowNone bool) EndpointID {
	switch k := r.intn(10); {
	case k < 2 && allowNone:
		return DtnNone()
	case k < 6:
		total := vLens[r.intn(len(vLens))]
		if vBigText && r.chance(3) {
			total = []int{65532, 65533, 65534, 65535, 65536, 65537}[r.intn(6)]
		}
		nl := 1 + r.intn(12)
		if total < nl+3 {
			total = nl + 3
		}
		dl := total - 3 - nl
		node := r.nodeName(nl)
		var demux string
		switch r.intn(4) {
		case 0: // arbitrary bytes except LF (incl. invalid UTF-8, '/', NUL)
			d := r.bytesN(dl)
			for i := range d {
				if d[i] == '\n' {
					d[i] = '~'
				}
			}
			demux = string(d)
		case 1:
			demux = strings.Repeat("ü/", dl/3) + strings.Repeat("x", dl-3*(dl/3))
		default:
			demux = r.nodeName(dl)
		}
		return EndpointID{DtnEndpoint{NodeName: node, Demux: demux}}
	default:
		n, s := r.u64(), r.u64()
		if n == 0 {
			n = 1
		}
		if s == 0 {
			s = 1
		}
		return EndpointID{IpnEndpoint{Node: n, Service: s}}
	}
}

// vGenBadEid: endpoint structures that fail CheckValid.
func vGenBadEid(r *vRng) EndpointID {
	switch r.intn(6) {
	case 0:
		return EndpointID{IpnEndpoint{Node: 0, Service: r.u64()}}
	case 1:
		return EndpointID{IpnEndpoint{Node: 1 + uint64(r.intn(9)), Service: 0}}
	case 2:
		return EndpointID{DtnEndpoint{NodeName: "", Demux: "x"}}
	case 3:
		return EndpointID{DtnEndpoint{NodeName: "a b", Demux: ""}}
	case 4:
		return EndpointID{DtnEndpoint{NodeName: "node", Demux: "a\nb"}}
	default:
		return EndpointID{DtnEndpoint{NodeName: "nö", Demux: ""}}
	}
}

var vPayloadLens = []int{0, 1, 22, 23, 24, 25, 254, 255, 256, 257}
var vPayloadLensBig = []int{65534, 65535, 65536, 65537}

func vGenPayloadLen(r *vRng, big bool) int {
	if big && r.chance(8) {
		return vPayloadLensBig[r.intn(len(vPayloadLensBig))]
	}
	if r.chance(50) {
		return vPayloadLens[r.intn(len(vPayloadLens))]
	}
	return r.intn(600)
}

const vStatusFlags = StatusRequestReception | StatusRequestForward | StatusRequestDelivery | StatusRequestDeletion

// vGenOpts steers vGenBundle.
type vGenOpts struct {
	now      uint64 // DTN ms
	extra    []uint64
	big      bool // allow 64 KiB payloads / texts
	payload  int  // -1: random
	nearEdge bool // lifetime ends within ± a few seconds of now
}

// vGenBundle: a VALID bundle (passes CheckValid at `now`, serialisable) of random shape.
func vGenBundle(r *vRng, o vGenOpts) Bundle {
	vBigText = o.big
	defer func() { vBigText = false }()
	var flags BundleControlFlags
	for _, f := range []BundleControlFlags{IsFragment, AdministrativeRecordPayload, MustNotFragmented, RequestUserApplicationAck,
		RequestStatusTime, StatusRequestReception, StatusRequestForward, StatusRequestDelivery, StatusRequestDeletion} {
		if r.chance(30) {
			flags |= f
		}
	}
	if r.chance(10) { // undefined bits are carried along
		flags |= BundleControlFlags(1) << uint(7+r.intn(50))
	}
	src := vGenEid(r, true)
	if src == DtnNone() {
		flags |= MustNotFragmented
		flags &^= vStatusFlags
	}
	if flags.Has(AdministrativeRecordPayload) {
		flags &^= vStatusFlags
	}
	if flags.Has(IsFragment) && flags.Has(MustNotFragmented) {
		if src == DtnNone() || r.chance(50) {
			flags &^= IsFragment
		} else {
			flags &^= MustNotFragmented
		}
	}
	noBlockReports := flags.Has(AdministrativeRecordPayload) || src == DtnNone()

	p := PrimaryBlock{Version: 7, BundleControlFlags: flags, CRCType: CRCType(r.intn(3)),
		Destination: vGenEid(r, true), SourceNode: src, ReportTo: vGenEid(r, true)}
	zeroTime := r.chance(25)
	var age uint64
	switch {
	case zeroTime:
		p.CreationTimestamp = NewCreationTimestamp(0, r.u64())
		p.Lifetime = r.u64()
		if p.Lifetime == 0 || p.Lifetime == 1<<64-1 || r.chance(50) {
			age = p.Lifetime
		} else {
			age = r.next() % (p.Lifetime + 1)
		}
	case o.nearEdge:
		back := uint64(r.intn(100000))
		p.CreationTimestamp = NewCreationTimestamp(DtnTime(o.now-back), r.u64())
		p.Lifetime = back + uint64(r.intn(6000)) - 3000
	default:
		// comfortably alive: created up to a day ago or up to a day ahead, ≥ 2 days of lifetime
		t := o.now - 86400000 + uint64(r.intn(2*86400000))
		p.CreationTimestamp = NewCreationTimestamp(DtnTime(t), r.u64())
		p.Lifetime = 2*86400000 + r.u64()%(1<<40)
	}
	if flags.Has(IsFragment) {
		p.FragmentOffset, p.TotalDataLength = r.u64(), r.u64()
	}

	usedNum := map[uint64]bool{1: true}
	num := func() uint64 {
		for {
			n := r.u64()
			if r.chance(60) {
				n = 2 + uint64(r.intn(12))
			}
			if !usedNum[n] {
				usedNum[n] = true
				return n
			}
		}
	}
	bflags := func() BlockControlFlags {
		var f BlockControlFlags
		for _, x := range []BlockControlFlags{ReplicateBlock, StatusReportBlock, DeleteBundle, RemoveBlock} {
			if r.chance(30) {
				f |= x
			}
		}
		if r.chance(8) {
			f |= BlockControlFlags(1) << uint(5+r.intn(50))
		}
		if noBlockReports {
			f &^= StatusReportBlock
		}
		return f
	}
	var cbs []CanonicalBlock
	add := func(v ExtensionBlock) {
		cbs = append(cbs, CanonicalBlock{BlockNumber: num(), BlockControlFlags: bflags(), CRCType: CRCType(r.intn(3)), Value: v})
	}
	if r.chance(40) {
		add(NewPreviousNodeBlock(vGenEid(r, true)))
	}
	if zeroTime || r.chance(30) {
		if !zeroTime {
			age = r.u64()
		}
		add(NewBundleAgeBlock(age))
	}
	if r.chance(40) {
		lim := uint8(r.intn(256))
		cnt := uint8(r.intn(int(lim) + 1))
		if r.chance(30) {
			cnt = lim
		}
		add(&HopCountBlock{Limit: lim, Count: cnt})
	}
	// unknown block types (decode as generic): distinct codes, sometimes huge
	usedType := map[uint64]bool{}
	for k := r.intn(3); k > 0; k-- {
		var t uint64
		for {
			t = []uint64{0, 2, 3, 5, 8, 9, 11, 23, 24, 191, 196, 255, 256, 65536, 1 << 32, 1<<64 - 1}[r.intn(16)]
			if !usedType[t] {
				break
			}
		}
		usedType[t] = true
		add(NewGenericExtensionBlock(r.bytesN(vGenPayloadLen(r, false)), t))
	}
	for _, t := range vExtraTypes {
		if !r.chance(35) {
			continue
		}
		reg := false
		for _, e := range o.extra {
			reg = reg || e == t
		}
		if !reg {
			// not registered: such a block exists on the wire only as a generic one
			add(NewGenericExtensionBlock(r.bytesN(r.intn(40)), t))
			continue
		}
		switch t {
		case ExtBlockTypeBinarySprayBlock:
			add(NewBinarySprayBlock(r.u64()))
		case ExtBlockTypeDTLSRBlock:
			pd := DTLSRPeerData{ID: vGenEid(r, true), Timestamp: DtnTime(r.u64()), Peers: map[EndpointID]DtnTime{}}
			for k := r.intn(4); k > 0; k-- {
				pd.Peers[vGenEid(r, true)] = DtnTime(r.u64())
			}
			add(NewDTLSRBlock(pd))
		case ExtBlockTypeProphetBlock:
			m := map[EndpointID]float64{}
			for k := r.intn(4); k > 0; k-- {
				var f float64
				switch r.intn(4) {
				case 0:
					f = float64(r.intn(1000)) / 1000
				case 1:
					f = math.Float64frombits(r.u64())
				case 2:
					f = []float64{0, 1, 0.5, math.Inf(1), math.SmallestNonzeroFloat64}[r.intn(5)]
				default:
					f = math.Float64frombits(r.next())
				}
				m[vGenEid(r, true)] = f
			}
			add(NewProphetBlock(m))
		case ExtBlockTypeSignatureBlock:
			add(&SignatureBlock{PublicKey: r.bytesN(32), Signature: r.bytesN(64)})
		}
	}
	// order: mostly ascending by number as the node keeps them, sometimes as generated
	if r.chance(70) {
		sort.Slice(cbs, func(i, j int) bool { return cbs[i].BlockNumber < cbs[j].BlockNumber })
	}
	pl := o.payload
	if pl < 0 {
		pl = vGenPayloadLen(r, o.big)
	}
	cbs = append(cbs, CanonicalBlock{BlockNumber: 1, BlockControlFlags: bflags(), CRCType: CRCType(r.intn(3)), Value: NewPayloadBlock(r.bytesN(pl))})
	return Bundle{PrimaryBlock: p, CanonicalBlocks: cbs}
}

func vNowMs() uint64 { return uint64(DtnTimeNow()) }

// ---------------------------------------------------------------- operations

func vMarshal(b *Bundle) (out []byte, errStr string) {
	defer func() {
		if r := recover(); r != nil {
			out, errStr = nil, fmt.Sprintf("panic:%v", r)
		}
	}()
	var buf bytes.Buffer
	if err := b.MarshalCbor(&buf); err != nil {
		return nil, "err"
	}
	return buf.Bytes(), ""
}

func vParse(in []byte) (b Bundle, used int, errStr string) {
	defer func() {
		if r := recover(); r != nil {
			errStr = "panic"
		}
	}()
	rd := bytes.NewReader(in)
	var err error
	b, err = ParseBundle(rd)
	if err != nil {
		return b, 0, "err"
	}
	return b, len(in) - rd.Len(), ""
}

// vSer: one (ser) observation — the structure, what MarshalCbor makes of it, and the way back.
func vSer(o *vOut, class string, extra []uint64, b *Bundle) []byte {
	dump := vDumpBundle(b)
	now0 := vNowMs()
	out, e := vMarshal(b)
	res, back, again := vHex(out), "-", "-"
	if e != "" {
		res = e
	} else {
		b2, used, e2 := vParse(out)
		switch {
		case e2 != "":
			back = e2
		case used != len(out):
			back = fmt.Sprintf("partial:%d", used)
		default:
			if d2 := vDumpBundle(&b2); d2 == dump {
				back = "same"
			} else {
				back = d2
			}
			if r2, e3 := vMarshal(&b2); e3 != "" {
				again = e3
			} else if bytes.Equal(r2, out) {
				again = "same"
			} else {
				again = vHex(r2)
			}
		}
	}
	now1 := vNowMs()
	o.line("ser/"+class, "ser extra=%s now0=%d now1=%d b=%s out=%s back=%s again=%s", vExtraStr(extra), now0, now1, dump, res, back, again)
	return out
}

// vPar: one (par) observation — bytes in, verdict, structure, and the re-serialisation chain.
func vPar(o *vOut, class string, extra []uint64, in []byte) {
	now0 := vNowMs()
	b, used, e := vParse(in)
	now1 := vNowMs()
	if e != "" {
		o.line("par/"+class+"/"+e, "par extra=%s now0=%d now1=%d in=%s res=%s", vExtraStr(extra), now0, now1, vHex(in), e)
		return
	}
	dump := vDumpBundle(&b)
	reser, e1 := vMarshal(&b)
	reserS, re2S, reser2S := vHex(reser), "-", "-"
	if e1 != "" {
		reserS = e1
	} else {
		b2, used2, e2 := vParse(reser)
		if e2 != "" {
			re2S = e2
		} else {
			if used2 != len(reser) {
				re2S = fmt.Sprintf("partial:%d", used2)
			} else if d2 := vDumpBundle(&b2); d2 == dump {
				re2S = "same"
			} else {
				re2S = d2
			}
			r2, e3 := vMarshal(&b2)
			if e3 != "" {
				reser2S = e3
			} else if bytes.Equal(r2, reser) {
				reser2S = "same"
			} else {
				reser2S = vHex(r2)
			}
		}
	}
	if reserS == vHex(in) {
		reserS = "same"
	}
	o.line("par/"+class+"/ok", "par extra=%s now0=%d now1=%d in=%s res=ok used=%d dump=%s reser=%s re2=%s reser2=%s",
		vExtraStr(extra), now0, now1, vHex(in), used, dump, reserS, re2S, reser2S)
}

// ---------------------------------------------------------------- byte-level mutations (no CRC repair)

func vMutateBytes(r *vRng, in []byte) []byte {
	out := append([]byte{}, in...)
	if len(out) == 0 {
		return out
	}
	switch r.intn(7) {
	case 0: // flip one bit
		i := r.intn(len(out))
		out[i] ^= 1 << uint(r.intn(8))
	case 1: // overwrite one byte
		out[r.intn(len(out))] = byte(r.next())
	case 2: // truncate
		out = out[:r.intn(len(out))]
	case 3: // delete a run
		i := r.intn(len(out))
		j := i + 1 + r.intn(4)
		if j > len(out) {
			j = len(out)
		}
		out = append(out[:i], out[j:]...)
	case 4: // insert random bytes
		i := r.intn(len(out) + 1)
		ins := r.bytesN(1 + r.intn(4))
		out = append(out[:i], append(ins, out[i:]...)...)
	case 5: // interesting byte
		out[r.intn(len(out))] = []byte{0xFF, 0x9F, 0x00, 0x40, 0x80, 0x82, 0x85, 0x86, 0x18, 0x1b, 0x5b, 0x7b, 0xbb}[r.intn(13)]
	default: // duplicate a run
		i := r.intn(len(out))
		j := i + 1 + r.intn(8)
		if j > len(out) {
			j = len(out)
		}
		seg := append([]byte{}, out[i:j]...)
		out = append(out[:j], append(seg, out[j:]...)...)
	}
	return out
}

var vFuzzVectors = [][]byte{
	{0x9f, 0x8b, 0x07, 0x07, 0x0f, 0x82, 0x07, 0x7b, 0x30, 0x30, 0x30, 0x30, 0x30, 0x30, 0x30, 0x30},
	{0x9f, 0x89, 0x07, 0x07, 0x00, 0x82, 0x07, 0x30, 0x82, 0x07, 0x30, 0x82, 0x07, 0x30, 0x82, 0x07,
		0x07, 0x07, 0x5b, 0x30, 0x30, 0x30, 0x30, 0x30, 0x30, 0x30, 0x30},
	{0x9f, 0x89, 0x07, 0x11, 0x00, 0x82, 0x07, 0x30, 0x82, 0x02,
		0x00, 0x82, 0x07, 0x30, 0x82, 0x07, 0x07, 0x07, 0x40, 0xff},
	{0x9f, 0x89, 0x07, 0x11, 0x00, 0x82, 0x07, 0x30, 0x82, 0x02,
		0x30, 0x82, 0x07, 0x30, 0x82, 0x07, 0x07, 0x07, 0x40, 0xff},
}

// ---------------------------------------------------------------- structure-aware encodings (CRCs recomputed)

func vPtrU(v uint64) *uint64 { return &v }
func vPtrB(v bool) *bool     { return &v }

// vEncodingVariants: encodings of a valid bundle that deviate from the serialiser's in form only or in
// exactly one aspect; every CRC is recomputed so that the aspect alone decides.
func vEncodingVariants(r *vRng, b *Bundle, extra []uint64) map[string][]byte {
	out := map[string][]byte{}
	// D6: endpoint IDs inside the map-valued routing blocks
	for _, t := range extra {
		if b.HasExtensionBlock(t) {
			continue
		}
		bad := vGenBadEid(r)
		switch t {
		case ExtBlockTypeDTLSRBlock:
			c := vCloneBlocks(b)
			pd := DTLSRPeerData{ID: vGenEid(r, true), Timestamp: DtnTime(r.u64()), Peers: map[EndpointID]DtnTime{vGenEid(r, true): 5, bad: DtnTime(r.u64())}}
			c.CanonicalBlocks = append([]CanonicalBlock{{BlockNumber: 1 << 40, CRCType: CRCType(r.intn(3)), Value: NewDTLSRBlock(pd)}}, c.CanonicalBlocks...)
			out["dtlsr-invalid-peer-eid"] = vEncBundle(&c, nil)
			c = vCloneBlocks(b)
			pd = DTLSRPeerData{ID: bad, Timestamp: DtnTime(r.u64()), Peers: map[EndpointID]DtnTime{}}
			c.CanonicalBlocks = append([]CanonicalBlock{{BlockNumber: 1 << 40, CRCType: CRCType(r.intn(3)), Value: NewDTLSRBlock(pd)}}, c.CanonicalBlocks...)
			out["dtlsr-invalid-id"] = vEncBundle(&c, nil)
		case ExtBlockTypeProphetBlock:
			c := vCloneBlocks(b)
			m := map[EndpointID]float64{bad: 0.5}
			c.CanonicalBlocks = append([]CanonicalBlock{{BlockNumber: 1 << 41, CRCType: CRCType(r.intn(3)), Value: NewProphetBlock(m)}}, c.CanonicalBlocks...)
			out["prophet-invalid-eid"] = vEncBundle(&c, nil)
		}
	}
	n := len(b.CanonicalBlocks)
	last := n - 1
	any := r.intn(n)
	out["regular"] = vEncBundle(b, nil)
	out["wide1"] = vEncBundle(b, &vOver{wide: 1})
	out["wide2-wirecrc"] = vEncBundle(b, &vOver{wide: 2, blockWire: map[int]bool{0: true, any: true, last: true}})
	out["tail"] = vEncBundle(b, &vOver{tail: r.bytesN(1 + r.intn(5))})
	out["nobreak"] = vEncBundle(b, &vOver{noBreak: true})
	out["trailer-in-value"] = vEncBundle(b, &vOver{trailer: map[int][]byte{any: {0x00, 0xFF}}})
	// D5: CRC type / array length
	out["prim-crctype3-nocrc"] = func() []byte {
		c := *b
		c.PrimaryBlock.CRCType = CRCType(3 + r.intn(5))
		return vEncBundle(&c, &vOver{primCrc: vPtrB(false)})
	}()
	out["prim-crctype3-crcfield"] = func() []byte {
		c := *b
		c.PrimaryBlock.CRCType = 3
		return vEncBundle(&c, &vOver{primCrc: vPtrB(true)})
	}()
	out["prim-crctype0-emptycrc"] = func() []byte {
		c := *b
		c.PrimaryBlock.CRCType = CRCNo
		return vEncBundle(&c, &vOver{primCrc: vPtrB(true)})
	}()
	out["prim-crctype12-nocrcfield"] = func() []byte {
		c := *b
		c.PrimaryBlock.CRCType = CRCType(1 + r.intn(2))
		return vEncBundle(&c, &vOver{primCrc: vPtrB(false)})
	}()
	out["block-crctype3-nocrc"] = func() []byte {
		c := vCloneBlocks(b)
		c.CanonicalBlocks[any].CRCType = CRCType(3 + r.intn(250))
		return vEncBundle(&c, &vOver{blockCrc: map[int]bool{any: false}})
	}()
	out["block-crctype0-emptycrc"] = func() []byte {
		c := vCloneBlocks(b)
		c.CanonicalBlocks[any].CRCType = CRCNo
		return vEncBundle(&c, &vOver{blockCrc: map[int]bool{any: true}})
	}()
	out["block-crctype12-nocrcfield"] = func() []byte {
		c := vCloneBlocks(b)
		c.CanonicalBlocks[any].CRCType = CRCType(1 + r.intn(2))
		return vEncBundle(&c, &vOver{blockCrc: map[int]bool{any: false}})
	}()
	// D7: fragment fields without the flag / flag without the fields
	out["prim-fragfields-noflag"] = func() []byte {
		c := *b
		c.PrimaryBlock.BundleControlFlags &^= IsFragment
		c.PrimaryBlock.FragmentOffset, c.PrimaryBlock.TotalDataLength = 1+uint64(r.intn(100)), 200+uint64(r.intn(100))
		return vEncBundle(&c, &vOver{primFrag: vPtrB(true)})
	}()
	out["prim-fragflag-nofields"] = func() []byte {
		c := *b
		c.PrimaryBlock.BundleControlFlags |= IsFragment
		c.PrimaryBlock.BundleControlFlags &^= MustNotFragmented
		if c.PrimaryBlock.SourceNode == DtnNone() {
			c.PrimaryBlock.SourceNode = EndpointID{IpnEndpoint{1, 1}}
		}
		return vEncBundle(&c, &vOver{primFrag: vPtrB(false)})
	}()
	// CRC damage
	out["prim-badcrc"] = func() []byte {
		c := *b
		if c.PrimaryBlock.CRCType == CRCNo {
			c.PrimaryBlock.CRCType = CRC16
		}
		return vEncBundle(&c, &vOver{primBadCrc: true})
	}()
	out["block-badcrc"] = func() []byte {
		c := vCloneBlocks(b)
		if c.CanonicalBlocks[any].CRCType == CRCNo {
			c.CanonicalBlocks[any].CRCType = CRC32
		}
		return vEncBundle(&c, &vOver{blockBad: map[int]bool{any: true}})
	}()
	// the break code in place of an item of a block
	for k := 0; k <= 6; k++ {
		out[fmt.Sprintf("break-at-%d", k)] = vEncBundle(b, &vOver{breakAt: map[int]int{last: k}})
		if n > 1 {
			out[fmt.Sprintf("break-at-%d-early", k)] = vEncBundle(b, &vOver{breakAt: map[int]int{0: k}})
		}
	}
	// array lengths out of range
	out["prim-len7"] = vEncBundle(b, &vOver{primLen: vPtrU(7)})
	out["prim-len12"] = vEncBundle(b, &vOver{primLen: vPtrU(12)})
	out["block-len4"] = vEncBundle(b, &vOver{blockLen: map[int]uint64{any: 4}})
	out["block-len7"] = vEncBundle(b, &vOver{blockLen: map[int]uint64{any: 7}})
	// dtn:none written with a non-zero integer, "none" as text
	out["eid-none-as-5"] = vEncBundle(b, &vOver{eidRaw: map[string][]byte{"dst": {0x82, 0x01, 0x05}}})
	out["eid-none-as-text"] = vEncBundle(b, &vOver{eidRaw: map[string][]byte{"dst": {0x82, 0x01, 0x64, 'n', 'o', 'n', 'e'}}})
	out["eid-scheme3"] = vEncBundle(b, &vOver{eidRaw: map[string][]byte{"rpt": {0x82, 0x03, 0x00}}})
	out["eid-len3"] = vEncBundle(b, &vOver{eidRaw: map[string][]byte{"rpt": {0x83, 0x01, 0x00, 0x00}}})
	out["eid-dtn-bytes"] = vEncBundle(b, &vOver{eidRaw: map[string][]byte{"rpt": {0x82, 0x01, 0x44, '/', '/', 'a', '/'}}})
	// the SSP of a dtn endpoint as an item of another major type (negative int, empty byte string, array, map, simple)
	for _, it := range [][]byte{{0x20}, {0x40}, {0x80}, {0xa0}, {0xf4}, {0x38, 0x05}} {
		out[fmt.Sprintf("eid-dtn-major-%02x", it[0])] = vEncBundle(b, &vOver{eidRaw: map[string][]byte{
			[]string{"dst", "src", "rpt"}[r.intn(3)]: append([]byte{0x82, 0x01}, it...)}})
	}
	out["eid-ipn-as-uint"] = vEncBundle(b, &vOver{eidRaw: map[string][]byte{"dst": {0x82, 0x02, 0x05}}})
	out["eid-ipn-len3"] = vEncBundle(b, &vOver{eidRaw: map[string][]byte{"dst": {0x82, 0x02, 0x83, 0x01, 0x01, 0x01}}})
	return out
}

func vCloneBlocks(b *Bundle) Bundle {
	c := *b
	c.CanonicalBlocks = append([]CanonicalBlock{}, b.CanonicalBlocks...)
	return c
}

// ---------------------------------------------------------------- replay

type vReplay struct {
	MinimalInput string `json:"minimal_input"`
}

func vReplayLine() string {
	p := os.Getenv("VERIF_REPLAY")
	if p == "" {
		return ""
	}
	data, err := os.ReadFile(p)
	if err != nil {
		panic(err)
	}
	var rp vReplay
	if err := json.Unmarshal(data, &rp); err != nil {
		panic(err)
	}
	return rp.MinimalInput
}

func vField(line, key string) string {
	for _, f := range strings.Fields(line) {
		if strings.HasPrefix(f, key+"=") {
			return f[len(key)+1:]
		}
	}
	return ""
}

// vDoReplay re-runs the operation of a recorded line against the current code.
func vDoReplay(o *vOut, line string) bool {
	defer vSetExtra(nil)
	extra := vParseExtra(vField(line, "extra"))
	switch strings.Fields(line)[0] {
	case "ser":
		vSetExtra(extra)
		b := vReadBundle(vField(line, "b"))
		vSer(o, "replay", extra, &b)
	case "par":
		vSetExtra(extra)
		vPar(o, "replay", extra, vUnhex(vField(line, "in")))
	default:
		return false
	}
	return true
}

// ---------------------------------------------------------------- TestVerifC01

func TestVerifC01(t *testing.T) {
	o := vOpen(t)
	defer o.close()
	if line := vReplayLine(); line != "" {
		if !vDoReplay(o, line) {
			t.Fatalf("cannot replay %q", line)
		}
		return
	}
	seed, _ := strconv.ParseUint(os.Getenv("VERIF_SEED"), 10, 64)
	thorough := os.Getenv("VERIF_TIER") == "thorough"
	r := &vRng{s: seed*0x1000193 + 0xC01}
	defer vSetExtra(nil)

	nSer, nPar, nMut := 2500, 260, 2500
	if thorough {
		nSer, nPar, nMut = 15000, 2500, 80000
	}
	phases := [][]uint64{nil, vExtraTypes, {ExtBlockTypeBinarySprayBlock, ExtBlockTypeSignatureBlock}}
	start := time.Now()

	// regression vectors of the repository's (disabled) fuzz target
	for _, v := range vFuzzVectors {
		vPar(o, "fuzz-vector", nil, v)
	}

	for pi, extra := range phases {
		vSetExtra(extra)
		share := []int{2, 2, 1}[pi]

		// (ser) valid bundles, and structures the serialiser must refuse
		for i := 0; i < nSer*share/5; i++ {
			b := vGenBundle(r, vGenOpts{now: vNowMs(), extra: extra, big: i%9 == 0, payload: -1})
			out := vSer(o, "valid", extra, &b)
			if i%3 == 0 && out != nil { // the independent encoder must agree with the serialiser on regular bundles
				if mine := vEncBundle(&b, nil); !bytes.Equal(mine, out) && !vHasMultiMap(&b) {
					o.line("note/encoder-mismatch", "# harness encoder differs from MarshalCbor for %s", vDumpBundle(&b))
				}
			}
			if i%4 == 0 {
				c := vCloneBlocks(&b)
				switch r.intn(6) {
				case 0:
					c.PrimaryBlock.Destination = vGenBadEid(r)
				case 1:
					c.PrimaryBlock.SourceNode = vGenBadEid(r)
				case 2:
					c.PrimaryBlock.CRCType = CRCType(3 + r.intn(4))
				case 3:
					c.CanonicalBlocks[r.intn(len(c.CanonicalBlocks))].CRCType = CRCType(3 + r.intn(4))
				case 4:
					c.PrimaryBlock.Version = uint64(r.intn(9))
				default:
					c.CanonicalBlocks = append([]CanonicalBlock{{BlockNumber: 99, Value: NewPreviousNodeBlock(vGenBadEid(r))}}, c.CanonicalBlocks...)
				}
				vSer(o, "refusable", extra, &c)
			}
		}

		// (par) what the serialiser wrote, and form/one-aspect variants with recomputed CRCs
		for i := 0; i < nPar*share/5; i++ {
			b := vGenBundle(r, vGenOpts{now: vNowMs(), extra: extra, big: i%11 == 0, payload: -1, nearEdge: i%10 == 9})
			if vHasMultiMap(&b) || i%4 != 0 {
				if out, e := vMarshal(&b); e == "" {
					vPar(o, "serialised", extra, out)
				}
			}
			vs := vEncodingVariants(r, &b, extra)
			keys := make([]string, 0, len(vs))
			for k := range vs {
				keys = append(keys, k)
			}
			sort.Strings(keys)
			for _, k := range keys {
				if k == "regular" || len(vs[k]) < 3000 || r.chance(10) {
					vPar(o, "variant/"+k, extra, vs[k])
				}
			}
		}

		// (par) byte-level damage without CRC repair: truncations, flips, splices
		for i := 0; i < nMut*share/5; {
			b := vGenBundle(r, vGenOpts{now: vNowMs(), extra: extra, payload: r.intn(40)})
			if r.chance(50) { // without CRCs most damage reaches the structure checks
				b.PrimaryBlock.CRCType = CRCNo
				for j := range b.CanonicalBlocks {
					b.CanonicalBlocks[j].CRCType = CRCNo
				}
			}
			enc := vEncBundle(&b, nil)
			for k := 0; k < 12; k++ {
				m := vMutateBytes(r, enc)
				if r.chance(25) {
					m = vMutateBytes(r, m)
				}
				vPar(o, "damaged", extra, m)
				i++
			}
			if i%600 < 12 { // every prefix
				for l := 0; l < len(enc); l++ {
					vPar(o, "prefix", extra, enc[:l])
				}
			}
		}
	}

	// payloads of exactly 64 KiB ± and (thorough) > 1 MiB: both reader branches of cboring.ReadRawBytes
	vSetExtra(nil)
	bigs := []int{65535, 65536, 1<<20 - 1, 1 << 20}
	if thorough {
		bigs = append(bigs, 1<<20+1, 3<<20+17)
	}
	for _, n := range bigs {
		b := vGenBundle(r, vGenOpts{now: vNowMs(), payload: n})
		if out := vSer(o, "big", nil, &b); out != nil {
			vPar(o, "big", nil, out)
			vPar(o, "big-truncated", nil, out[:len(out)-2])
		}
	}
	o.line("note", "# c01 seed=%d tier=%s elapsed=%s", seed, os.Getenv("VERIF_TIER"), time.Since(start).Round(time.Millisecond))
}

func vHasMultiMap(b *Bundle) bool {
	for i := range b.CanonicalBlocks {
		switch x := b.CanonicalBlocks[i].Value.(type) {
		case *DTLSRBlock:
			if len(x.Peers) > 1 {
				return true
			}
		case *ProphetBlock:
			if len(*x) > 1 {
				return true
			}
		}
	}
	return false
}
