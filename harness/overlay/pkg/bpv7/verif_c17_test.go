package bpv7

// Correspondence harness for C17, bpv7 part: endpoint IDs (URI text and CBOR), creation timestamp, bundle ID,
// status report, administrative record wrapper. Attached with `go test -overlay`; never part of /repo.
// Line formats: /verif/lean/Driver/C17.lean.

import (
	"bufio"
	"bytes"
	"encoding/hex"
	"fmt"
	"io"
	"math"
	"os"
	"strconv"
	"strings"
	"testing"

	"github.com/dtn7/cboring"
)

type c17Rng struct{ s uint64 }

func (r *c17Rng) next() uint64 {
	r.s += 0x9e3779b97f4a7c15
	z := r.s
	z = (z ^ (z >> 30)) * 0xbf58476d1ce4e5b9
	z = (z ^ (z >> 27)) * 0x94d049bb133111eb
	return z ^ (z >> 31)
}
func (r *c17Rng) intn(n int) int { return int(r.next() % uint64(n)) }
func (r *c17Rng) bytes(n int) []byte {
	b := make([]byte, n)
	for i := range b {
		b[i] = byte(r.next())
	}
	return b
}
func (r *c17Rng) pick(ss []string) string { return ss[r.intn(len(ss))] }

var c17U64 = []uint64{0, 1, 23, 24, 255, 256, 65535, 65536, math.MaxUint32, math.MaxUint32 + 1, math.MaxUint64}

func (r *c17Rng) u64() uint64 {
	if r.intn(3) == 0 {
		return r.next() >> uint(r.intn(64))
	}
	return c17U64[r.intn(len(c17U64))]
}

func c17Hex(b []byte) string {
	if len(b) == 0 {
		return "-"
	}
	return hex.EncodeToString(b)
}

func c17Bit(b bool) string {
	if b {
		return "1"
	}
	return "0"
}

func c17ErrClass(err error) string {
	if strings.Contains(err.Error(), "EOF") {
		return "err/eof"
	}
	return "err/inv"
}

func c17EidDesc(e EndpointID) string {
	switch v := e.EndpointType.(type) {
	case DtnEndpoint:
		if v.IsDtnNone {
			return "none"
		}
		return fmt.Sprintf("dtn:%s:%s", c17Hex([]byte(v.NodeName)), c17Hex([]byte(v.Demux)))
	case IpnEndpoint:
		return fmt.Sprintf("ipn:%d:%d", v.Node, v.Service)
	}
	return "nil"
}

func c17BidDesc(b BundleID) string {
	return fmt.Sprintf("%s|%d|%d|%s|%d|%d", c17EidDesc(b.SourceNode), b.Timestamp[0], b.Timestamp[1],
		c17Bit(b.IsFragment), b.FragmentOffset, b.TotalDataLength)
}

func c17SrDesc(sr *StatusReport) string {
	var items []string
	for _, si := range sr.StatusInformation {
		items = append(items, fmt.Sprintf("%s.%d.%s", c17Bit(si.Asserted), uint64(si.Time), c17Bit(si.StatusRequested)))
	}
	is := "-"
	if len(items) > 0 {
		is = strings.Join(items, ",")
	}
	return fmt.Sprintf("%s|%d|%s", is, uint64(sr.ReportReason), c17BidDesc(sr.RefBundle))
}

// c17Codec describes one format: desc of a value, marshal, and "decode bytes, describe the value".
type c17Codec struct {
	name string
	dec  func(r io.Reader) (string, error)
}

func (c c17Codec) decode(b []byte) (res string) {
	defer func() {
		if p := recover(); p != nil {
			res = "panic"
		}
	}()
	rd := bytes.NewReader(b)
	d, err := c.dec(rd)
	if err != nil {
		return c17ErrClass(err)
	}
	return fmt.Sprintf("ok/%s/%d", d, len(b)-rd.Len())
}

func (c c17Codec) emitEnc(w io.Writer, r *c17Rng, desc string, m func(io.Writer) error) []byte {
	var buf bytes.Buffer
	if err := m(&buf); err != nil {
		fmt.Fprintf(w, "%s enc %s merr - -\n", c.name, desc)
		return nil
	}
	enc := buf.Bytes()
	trailer := r.bytes(r.intn(4))
	fmt.Fprintf(w, "%s enc %s %s %s %s\n", c.name, desc, c17Hex(enc), c17Hex(trailer),
		c.decode(append(append([]byte{}, enc...), trailer...)))
	return enc
}

func (c c17Codec) emitDec(w io.Writer, b []byte) {
	fmt.Fprintf(w, "%s dec %s %s\n", c.name, c17Hex(b), c.decode(b))
}

// mutations of a valid encoding: every prefix, and every position set to a list of interesting bytes
// (positions in `skip` are wire-derived allocation sizes — C04's subject — and left alone).
func (c c17Codec) emitMutations(w io.Writer, r *c17Rng, enc []byte, skip map[int]bool, perPos int) {
	for k := 0; k < len(enc); k++ {
		c.emitDec(w, enc[:k])
	}
	interesting := []byte{0x00, 0x01, 0x02, 0x03, 0x17, 0x18, 0x19, 0x1a, 0x1b, 0x1c, 0x1f, 0x40, 0x41, 0x60, 0x61, 0x64, 0x80, 0x81, 0x82,
		0x83, 0x84, 0x86, 0x9f, 0xa0, 0xf4, 0xf5, 0xf6, 0xff, 0x0a, 0x2f}
	for pos := 0; pos < len(enc); pos++ {
		if skip[pos] {
			continue
		}
		for k := 0; k < perPos; k++ {
			v := interesting[r.intn(len(interesting))]
			if r.intn(4) == 0 {
				v = byte(r.next())
			}
			if v == enc[pos] {
				continue
			}
			b := append([]byte{}, enc...)
			b[pos] = v
			c.emitDec(w, b)
		}
	}
}

func c17ParseUri(s string) string {
	e, err := NewEndpointID(s)
	if err != nil {
		return "err"
	}
	return fmt.Sprintf("ok/%s/%s", c17EidDesc(e), c17Hex([]byte(e.String())))
}

func TestVerifC17(t *testing.T) {
	outPath := os.Getenv("VERIF_OUT")
	if outPath == "" {
		t.Skip("VERIF_OUT not set")
	}
	fl, err := os.Create(outPath)
	if err != nil {
		t.Fatal(err)
	}
	defer fl.Close()
	w := bufio.NewWriterSize(fl, 1<<20)
	defer w.Flush()
	seed, _ := strconv.ParseUint(os.Getenv("VERIF_SEED"), 10, 64)
	thorough := os.Getenv("VERIF_TIER") == "thorough"
	r := &c17Rng{s: seed*2654435761 + 170017}
	scale := 1
	if thorough {
		scale = 10
	}

	// =========================================================== endpoint URI text
	seen := map[string]bool{}
	uri := func(s string) {
		if seen[s] {
			return
		}
		seen[s] = true
		fmt.Fprintf(w, "eiduri parse %s %s\n", c17Hex([]byte(s)), c17ParseUri(s))
	}
	nodeAlpha := "abcxyzABCXYZ0189_-."
	randNode := func(n int) string {
		b := make([]byte, n)
		for i := range b {
			b[i] = nodeAlpha[r.intn(len(nodeAlpha))]
		}
		return string(b)
	}
	demuxes := []string{"", "a", "a/b", "~group", "/", "//", "a b", "%20", ":", "?q=1#f", "ü€😀", "\x80", "\xff\xfe", "\xc3", "\x00", "\t", "\r",
		"none", "\u2028", "\u0085", "\v", "\f"}
	randDemux := func() string {
		if r.intn(2) == 0 {
			return r.pick(demuxes)
		}
		b := r.bytes(r.intn(12))
		for i := range b {
			if b[i] == '\n' {
				b[i] = 'n'
			}
		}
		return string(b)
	}
	uri("dtn:none")
	for i := 0; i < 300*scale; i++ {
		uri("dtn://" + randNode(1+r.intn(12)) + "/" + randDemux())
	}
	uri("dtn://" + randNode(300) + "/" + string(r.bytes(5)))
	for _, d := range demuxes {
		uri("dtn://n/" + d)
		uri("dtn://n/" + d + "\n")
		uri("dtn://n/\n" + d)
		uri("dtn://n" + d + "/x")
	}
	nums := []string{"0", "1", "2", "9", "10", "99", "100", "4294967295", "4294967296", "9223372036854775807", "9223372036854775808",
		"18446744073709551614", "18446744073709551615", "18446744073709551616", "18446744073709551617", "100000000000000000000",
		"1000000000000000000000000000000", "01", "007", "00", "000", "010", "00000000000000000000000000000000000001", "018446744073709551615",
		"+1", "-1", " 1", "1 ", "1e3", "0x1", "\uff11", "\u0661", "1_0", "", "1\n", "a", "1a", "٣"}
	for _, a := range nums {
		for _, b := range nums {
			uri("ipn:" + a + "." + b)
		}
	}
	for i := 0; i < 200*scale; i++ {
		uri(fmt.Sprintf("ipn:%d.%d", r.u64(), r.u64()))
	}
	for _, s := range []string{"", ":", "dtn", "dtn:", "dtn:/", "dtn://", "dtn:///", "dtn:////", "dtn://a", "dtn://a/", "dtn:a/b", "dtn:/a/b", "dtn:///a",
		"dtn:none ", " dtn:none", "dtn:none/", "dtn:None", "dtn:NONE", "dtn:nonee", "dtn:non", "DTN:none", "Dtn://a/", "dtn//a/", "dtn;//a/",
		"dtn://a b/", "dtn://a:1/", "dtn://a@b/", "dtn://ä/", "dtn://a/\n", "\ndtn://a/", "dtn:\n//a/", "dtn://a\n/", "dtn://a/b\nc", "dtn://a/b\r\n",
		"dtn://none/", "dtn://none", "dtn:none\n", "ipn", "ipn:", "ipn:1", "ipn:1.", "ipn:.1", "ipn:.", "ipn:1.1.1", "ipn:1..1", "ipn:1,1", "ipn:1.1 ",
		"ipn://1.1", "IPN:1.1", "ipn:1.1\n", "ipn:1.1\x00", "ipn:1\n.1", "ipm:1.1", "ip:1.1", "http://a/", "a:b", "1:2", "dtn1://a/", "d-n://a/", "dtn+x://a/",
		"\xff:a", "dtn\x00://a/", "ü://a/", "dtn:://a/", "::", "a:", ":a", "ipn:1.1:", "dtn:ipn:1.1", "ipn:dtn://a/"} {
		uri(s)
	}
	// exhaustive single byte position classes: ALL 256 byte values in every position class of both grammars
	for v := 0; v < 256; v++ {
		c := string([]byte{byte(v)})
		uri("dtn://" + c + "/")
		uri("dtn://a" + c + "/x")
		uri("dtn://" + c + "a/x")
		uri("dtn://a/" + c)
		uri("dtn://a/x" + c + "y")
		uri(c + "tn://a/")
		uri("dt" + c + "://a/")
		uri("dtn" + c + "//a/")
		uri("dtn:" + c + "/a/")
		uri("dtn://a" + c)
		uri("dtn:non" + c)
		uri("dtn:none" + c)
		uri("ipn:" + c + ".1")
		uri("ipn:1" + c + "1")
		uri("ipn:1." + c)
		uri("ipn:1.1" + c)
		uri("ipn:" + c + "1.1")
		uri("ip" + c + ":1.1")
		uri("ipn" + c + "1.1")
	}
	// random mutations of valid strings
	var valid []string
	for s := range seen {
		if _, err := NewEndpointID(s); err == nil {
			valid = append(valid, s)
		}
	}
	// (map order is random: sort for determinism)
	sortStrings(valid)
	special := []byte{'\n', '/', ':', '.', '0', '1', 0x80, ' ', '_', '-', 'n', 0}
	for i := 0; i < 1500*scale; i++ {
		s := []byte(valid[r.intn(len(valid))])
		for k := 0; k <= r.intn(2); k++ {
			v := special[r.intn(len(special))]
			if r.intn(3) == 0 {
				v = byte(r.next())
			}
			p := r.intn(len(s) + 1)
			switch r.intn(3) {
			case 0:
				if p < len(s) {
					s[p] = v
				}
			case 1:
				s = append(s[:p], append([]byte{v}, s[p:]...)...)
			default:
				if p < len(s) {
					s = append(s[:p], s[p+1:]...)
				}
			}
		}
		uri(string(s))
	}

	// structure -> text -> structure
	prt := func(e EndpointID) {
		p := e.String()
		res := "err"
		if e2, err := NewEndpointID(p); err == nil {
			res = "ok/" + c17EidDesc(e2)
		}
		fmt.Fprintf(w, "eiduri print %s %s %s\n", c17EidDesc(e), c17Hex([]byte(p)), res)
	}
	var eids []EndpointID
	eids = append(eids, DtnNone())
	for i := 0; i < 60*scale; i++ {
		eids = append(eids, EndpointID{DtnEndpoint{NodeName: randNode(1 + r.intn(10)), Demux: randDemux()}})
	}
	for _, a := range c17U64 {
		for _, b := range c17U64 {
			eids = append(eids, EndpointID{IpnEndpoint{a, b}})
		}
	}
	// invalid structures
	for _, ne := range []DtnEndpoint{{NodeName: "", Demux: "x"}, {NodeName: "a/b", Demux: "c"}, {NodeName: "a b", Demux: ""}, {NodeName: "a", Demux: "b\nc"},
		{NodeName: "a\n", Demux: ""}, {NodeName: "ä", Demux: ""}, {NodeName: "", Demux: ""}, {NodeName: "/", Demux: ""}, {NodeName: "", Demux: "/a/b"}} {
		eids = append(eids, EndpointID{ne})
	}
	for _, e := range eids {
		prt(e)
	}

	// =========================================================== endpoint CBOR
	eidC := c17Codec{"eidcbor", func(rd io.Reader) (string, error) {
		var e EndpointID
		if err := cboring.Unmarshal(&e, rd); err != nil {
			return "", err
		}
		return c17EidDesc(e), nil
	}}
	var eidEncs [][]byte
	for i, e := range eids {
		e := e
		enc := eidC.emitEnc(w, r, c17EidDesc(e), func(wr io.Writer) error { return cboring.Marshal(&e, wr) })
		if enc != nil && (i < 12 || i%7 == 0) {
			eidEncs = append(eidEncs, enc)
		}
	}
	for _, l := range []int{20, 21, 252, 253, 65532, 65533, 70000} { // SSP lengths 23, 24, 255, 256, 65535, 65536
		e := EndpointID{DtnEndpoint{NodeName: "n", Demux: strings.Repeat("x", l)}}
		eidC.emitEnc(w, r, c17EidDesc(e), func(wr io.Writer) error { return cboring.Marshal(&e, wr) })
	}
	for _, enc := range eidEncs {
		eidC.emitMutations(w, r, enc, nil, 2)
	}
	for _, h := range []string{"820100", "820101", "820105", "82011817", "8201190100", "82011bffffffffffffffff", "8201646e6f6e65", "8201632f2f61", "8201642f2f612f",
		"8201652f2f612f0a", "82016361622f", "820140", "820180", "8201f4", "82028201", "8202820000", "8202820001", "8202820100", "820282011bffffffffffffffff",
		"82028301", "8202810101", "820201", "82028218ff1901", "820300", "82181e00", "8200f6", "81", "83010000", "80", "9f0100ff", "98020100", "8218010018", "a20100",
		"820160", "8201612f", "8201622f2f", "8201632f2f2f", "8201642f2f2f2f", "82017a000000042f2f612f", "82017b00000000000000042f2f612f", "82017b00000000ffffffff2f",
		"82017affffffff2f2f", "82017a7fffffff2f2f", "8201790004", "820178", "82", "8201", "820182", "8202", "820282", "82028201"} {
		b, _ := hex.DecodeString(h)
		eidC.emitDec(w, b)
	}
	// ALL 256 scheme numbers, ALL 256 first bytes of the dtn SSP item
	for v := 0; v < 256; v++ {
		var buf bytes.Buffer
		_ = cboring.WriteArrayLength(2, &buf)
		_ = cboring.WriteUInt(uint64(v), &buf)
		buf.Write([]byte{0x82, 0x01, 0x01})
		eidC.emitDec(w, buf.Bytes())
		eidC.emitDec(w, []byte{0x82, 0x01, byte(v), 0x2f, 0x2f, 0x61, 0x2f, 0, 0, 0, 0})
	}

	// =========================================================== creation timestamp
	tsC := c17Codec{"ts", func(rd io.Reader) (string, error) {
		var ts CreationTimestamp
		if err := cboring.Unmarshal(&ts, rd); err != nil {
			return "", err
		}
		return fmt.Sprintf("%d|%d", ts[0], ts[1]), nil
	}}
	var tsEnc []byte
	for _, a := range c17U64 {
		for _, b := range c17U64 {
			ts := NewCreationTimestamp(DtnTime(a), b)
			tsEnc = tsC.emitEnc(w, r, fmt.Sprintf("%d|%d", a, b), func(wr io.Writer) error { return cboring.Marshal(&ts, wr) })
		}
	}
	for i := 0; i < 100*scale; i++ {
		ts := NewCreationTimestamp(DtnTime(r.u64()), r.u64())
		tsC.emitEnc(w, r, fmt.Sprintf("%d|%d", ts[0], ts[1]), func(wr io.Writer) error { return cboring.Marshal(&ts, wr) })
	}
	tsC.emitMutations(w, r, tsEnc, nil, 6)
	for _, h := range []string{"820000", "8200", "82", "", "830000", "810000", "9f0000ff", "98020000", "82180000", "8218001800", "821900001a00000000", "40", "8240", "820040",
		"82f400", "8200f4", "821c00", "82001f", "a20000"} {
		b, _ := hex.DecodeString(h)
		tsC.emitDec(w, b)
	}

	// =========================================================== bundle ID
	bidC := func(isFrag bool) c17Codec {
		name := "bidN"
		if isFrag {
			name = "bidF"
		}
		return c17Codec{name, func(rd io.Reader) (string, error) {
			bid := BundleID{IsFragment: isFrag}
			if err := cboring.Unmarshal(&bid, rd); err != nil {
				return "", err
			}
			return c17BidDesc(bid), nil
		}}
	}
	randEid := func() EndpointID { return eids[r.intn(len(eids))] }
	randBid := func() BundleID {
		b := BundleID{SourceNode: randEid(), Timestamp: NewCreationTimestamp(DtnTime(r.u64()), r.u64())}
		if r.intn(2) == 0 {
			b.IsFragment = true
			b.FragmentOffset = r.u64()
			b.TotalDataLength = r.u64()
		}
		return b
	}
	var bidEncN, bidEncF []byte
	for i := 0; i < 300*scale; i++ {
		b := randBid()
		if i%25 == 0 && !b.IsFragment { // non-canonical: fragment fields set on a non-fragment id (not written)
			b.FragmentOffset, b.TotalDataLength = 5, 9
		}
		enc := bidC(b.IsFragment).emitEnc(w, r, c17BidDesc(b), func(wr io.Writer) error { return cboring.Marshal(&b, wr) })
		if enc != nil {
			if b.IsFragment {
				bidEncF = enc
			} else {
				bidEncN = enc
			}
		}
	}
	bidC(false).emitMutations(w, r, bidEncN, nil, 3)
	bidC(true).emitMutations(w, r, bidEncF, nil, 3)
	// a fragment's id read as a whole bundle's and vice versa (the caller decides)
	bidC(false).emitDec(w, bidEncF)
	bidC(true).emitDec(w, bidEncN)

	// =========================================================== status report + administrative record
	srC := c17Codec{"sr", func(rd io.Reader) (string, error) {
		var sr StatusReport
		if err := cboring.Unmarshal(&sr, rd); err != nil {
			return "", err
		}
		return c17SrDesc(&sr), nil
	}}
	arC := c17Codec{"ar", func(rd io.Reader) (string, error) {
		ar, err := GetAdministrativeRecordManager().ReadAdministrativeRecord(rd)
		if err != nil {
			return "", err
		}
		sr, ok := ar.(*StatusReport)
		if !ok {
			return "", fmt.Errorf("not a status report")
		}
		return c17SrDesc(sr), nil
	}}
	randItem := func() BundleStatusItem {
		switch r.intn(6) {
		case 0:
			return NewBundleStatusItem(false)
		case 1:
			return NewBundleStatusItem(true)
		case 2:
			return NewTimeReportingBundleStatusItem(DtnTime(r.u64()))
		default: // arbitrary, possibly non-canonical combination
			return BundleStatusItem{Asserted: r.intn(2) == 0, Time: DtnTime(r.u64() * uint64(r.intn(2))), StatusRequested: r.intn(2) == 0}
		}
	}
	reasons := []uint64{0, 1, 2, 3, 4, 5, 6, 7, 8, 9, 10, 11, 12, 23, 24, 255, 256, math.MaxUint64}
	var srEncs, arEncs [][]byte
	for i := 0; i < 400*scale; i++ {
		n := 4
		if r.intn(3) == 0 {
			n = r.intn(8)
		}
		if i == 7 {
			n = 24
		}
		if i == 8 {
			n = 300
		}
		sr := &StatusReport{StatusInformation: make([]BundleStatusItem, n), ReportReason: StatusReportReason(reasons[r.intn(len(reasons))]), RefBundle: randBid()}
		for j := range sr.StatusInformation {
			sr.StatusInformation[j] = randItem()
		}
		enc := srC.emitEnc(w, r, c17SrDesc(sr), func(wr io.Writer) error { return cboring.Marshal(sr, wr) })
		if enc != nil && len(srEncs) < 4 && n <= 5 {
			srEncs = append(srEncs, enc)
		}
		enc = arC.emitEnc(w, r, c17SrDesc(sr), func(wr io.Writer) error {
			return GetAdministrativeRecordManager().WriteAdministrativeRecord(sr, wr)
		})
		if enc != nil && len(arEncs) < 2 && n <= 5 {
			arEncs = append(arEncs, enc)
		}
	}
	// all four (asserted, requested) combinations x time 0 / non-zero, as single-item reports
	for a := 0; a < 2; a++ {
		for q := 0; q < 2; q++ {
			for _, tm := range []uint64{0, 1, math.MaxUint64} {
				sr := &StatusReport{StatusInformation: []BundleStatusItem{{Asserted: a == 1, Time: DtnTime(tm), StatusRequested: q == 1}},
					RefBundle: BundleID{SourceNode: DtnNone()}}
				srC.emitEnc(w, r, c17SrDesc(sr), func(wr io.Writer) error { return cboring.Marshal(sr, wr) })
			}
		}
	}
	// NewStatusReport as the node builds it
	for pos := 0; pos < 4; pos++ {
		for _, fl := range []BundleControlFlags{0, RequestStatusTime} {
			bndl, err := Builder().CRC(CRC32).Source("dtn://src/").Destination("dtn://dst/").CreationTimestampNow().Lifetime("1m").
				BundleCtrlFlags(fl).PayloadBlock([]byte("x")).Build()
			if err != nil {
				t.Fatal(err)
			}
			sr := NewStatusReport(bndl, StatusInformationPos(pos), LifetimeExpired, DtnTime(r.u64()))
			arC.emitEnc(w, r, c17SrDesc(sr), func(wr io.Writer) error {
				return GetAdministrativeRecordManager().WriteAdministrativeRecord(sr, wr)
			})
		}
	}
	for _, enc := range srEncs {
		srC.emitMutations(w, r, enc, map[int]bool{1: true}, 2) // byte 1 = length of the item array (allocation size, C04)
	}
	for _, enc := range arEncs {
		arC.emitMutations(w, r, enc, map[int]bool{3: true}, 2)
	}
	// ALL record type codes 0..255 in front of a valid status report
	var srBody bytes.Buffer
	{
		sr := &StatusReport{StatusInformation: []BundleStatusItem{NewBundleStatusItem(true)}, RefBundle: BundleID{SourceNode: DtnNone()}}
		_ = cboring.Marshal(sr, &srBody)
	}
	for v := 0; v < 256; v++ {
		var buf bytes.Buffer
		_ = cboring.WriteArrayLength(2, &buf)
		_ = cboring.WriteUInt(uint64(v), &buf)
		buf.Write(srBody.Bytes())
		arC.emitDec(w, buf.Bytes())
	}
	// status item array lengths 0..3 and outer array lengths 0..8
	for v := 0; v <= 8; v++ {
		b := append([]byte{byte(0x80 + v)}, srBody.Bytes()[1:]...)
		srC.emitDec(w, b)
	}
	for _, h := range []string{"8480008201008200", "848081f4008201008200", "848081f5008201008200", "848082f500008201008200", "848082f400008201008200", "848083f50000008201008200",
		"84808000008201008200", "848081f6008201008200", "848081e0008201008200", "84808114008201008200", "848081f8008201008200", "8681 81f5 00 820100 820000 0000"} {
		b, _ := hex.DecodeString(strings.ReplaceAll(h, " ", ""))
		srC.emitDec(w, b)
	}
	// ALL 256 byte values in the boolean position of a status item
	for v := 0; v < 256; v++ {
		b := []byte{0x84, 0x81, 0x81, byte(v), 0x00, 0x82, 0x01, 0x00, 0x82, 0x00, 0x00}
		srC.emitDec(w, b)
	}

	// =========================================================== streams of timestamps and of administrative records
	for i := 0; i < 40*scale; i++ {
		n := 1 + r.intn(20)
		var descs []string
		var buf bytes.Buffer
		for j := 0; j < n; j++ {
			ts := NewCreationTimestamp(DtnTime(r.u64()), r.u64())
			descs = append(descs, fmt.Sprintf("%d|%d", ts[0], ts[1]))
			_ = cboring.Marshal(&ts, &buf)
		}
		c17Stream(w, "ts", descs, buf.Bytes(), tsC.dec)
	}
	for i := 0; i < 40*scale; i++ {
		n := 1 + r.intn(20)
		var descs []string
		var buf bytes.Buffer
		for j := 0; j < n; j++ {
			b := randBid()
			if b.SourceNode.CheckValid() != nil {
				b.SourceNode = DtnNone()
			}
			sr := &StatusReport{StatusInformation: make([]BundleStatusItem, r.intn(6)), ReportReason: StatusReportReason(reasons[r.intn(len(reasons))]), RefBundle: b}
			for k := range sr.StatusInformation {
				sr.StatusInformation[k] = []BundleStatusItem{NewBundleStatusItem(false), NewBundleStatusItem(true), NewTimeReportingBundleStatusItem(DtnTime(r.u64()))}[r.intn(3)]
			}
			descs = append(descs, c17SrDesc(sr))
			_ = GetAdministrativeRecordManager().WriteAdministrativeRecord(sr, &buf)
		}
		c17Stream(w, "ar", descs, buf.Bytes(), arC.dec)
	}

	// =========================================================== streams of endpoint IDs
	for i := 0; i < 60*scale; i++ {
		n := 1 + r.intn(20)
		var descs, got []string
		var buf bytes.Buffer
		for j := 0; j < n; j++ {
			e := eids[r.intn(len(eids))]
			if e.CheckValid() != nil {
				e = DtnNone()
			}
			descs = append(descs, c17EidDesc(e))
			_ = cboring.Marshal(&e, &buf)
		}
		all := buf.Bytes()
		rd := bytes.NewReader(all)
		for rd.Len() > 0 {
			var e EndpointID
			if err := cboring.Unmarshal(&e, rd); err != nil {
				got = append(got, "!"+c17ErrClass(err)[4:])
				break
			}
			got = append(got, fmt.Sprintf("%s@%d", c17EidDesc(e), len(all)-rd.Len()))
		}
		fmt.Fprintf(w, "eidcbor stream %s %s %s\n", strings.Join(descs, "~"), c17Hex(all), strings.Join(got, "~"))
	}
}

// c17Stream writes n values into one buffer and reads them back one after the other from one reader.
func c17Stream(w io.Writer, name string, descs []string, all []byte, readOne func(rd io.Reader) (string, error)) {
	rd := bytes.NewReader(all)
	var got []string
	for rd.Len() > 0 {
		d, err := readOne(rd)
		if err != nil {
			got = append(got, "!"+c17ErrClass(err)[4:])
			break
		}
		got = append(got, fmt.Sprintf("%s@%d", d, len(all)-rd.Len()))
	}
	fmt.Fprintf(w, "%s stream %s %s %s\n", name, strings.Join(descs, "~"), c17Hex(all), strings.Join(got, "~"))
}

func sortStrings(s []string) {
	for i := 1; i < len(s); i++ {
		for j := i; j > 0 && s[j] < s[j-1]; j-- {
			s[j], s[j-1] = s[j-1], s[j]
		}
	}
}
