package discovery

// Correspondence harness for C17, discovery announcements (attached with `go test -overlay`).
//
//   ann  enc|dec …   one Announcement through cboring.Marshal / cboring.Unmarshal on a counting reader
//   anns enc|dec …   a packet through MarshalAnnouncements / UnmarshalAnnouncements (consumption not observable: "?")
//   desc: <cla type>|<eid desc>|<port>, packets: ';'-separated or "-"

import (
	"bufio"
	"bytes"
	"encoding/hex"
	"fmt"
	"math"
	"os"
	"strconv"
	"strings"
	"testing"

	"github.com/dtn7/cboring"

	"github.com/dtn7/dtn7-go/pkg/bpv7"
	"github.com/dtn7/dtn7-go/pkg/cla"
)

type c17Rng struct{ s uint64 }

func (r *c17Rng) next() uint64 {
	r.s += 0x9e3779b97f4a7c15
	z := r.s
	z = (z ^ (z >> 30)) * 0xbf58476d1ce4e5b9
	z = (z ^ (z >> 27)) * 0x94d049bb133111eb
	return z ^ (z >> 31)
}
func (r *c17Rng) intn(n int) int { return int(r.next() % uint64(n)) }
func (r *c17Rng) bytes(n int) []byte {
	b := make([]byte, n)
	for i := range b {
		b[i] = byte(r.next())
	}
	return b
}

func c17Hex(b []byte) string {
	if len(b) == 0 {
		return "-"
	}
	return hex.EncodeToString(b)
}

func c17ErrClass(err error) string {
	if strings.Contains(err.Error(), "EOF") {
		return "err/eof"
	}
	return "err/inv"
}

func c17EidDesc(e bpv7.EndpointID) string {
	switch v := e.EndpointType.(type) {
	case bpv7.DtnEndpoint:
		if v.IsDtnNone {
			return "none"
		}
		return fmt.Sprintf("dtn:%s:%s", c17Hex([]byte(v.NodeName)), c17Hex([]byte(v.Demux)))
	case bpv7.IpnEndpoint:
		return fmt.Sprintf("ipn:%d:%d", v.Node, v.Service)
	}
	return "nil"
}

func c17AnnDesc(a Announcement) string {
	return fmt.Sprintf("%d|%s|%d", uint64(a.Type), c17EidDesc(a.Endpoint), uint64(a.Port))
}

func c17AnnsDesc(as []Announcement) string {
	if len(as) == 0 {
		return "-"
	}
	var parts []string
	for _, a := range as {
		parts = append(parts, c17AnnDesc(a))
	}
	return strings.Join(parts, ";")
}

func c17Dec1(b []byte) (res string) {
	defer func() {
		if p := recover(); p != nil {
			res = "panic"
		}
	}()
	rd := bytes.NewReader(b)
	var a Announcement
	if err := cboring.Unmarshal(&a, rd); err != nil {
		return c17ErrClass(err)
	}
	return fmt.Sprintf("ok/%s/%d", c17AnnDesc(a), len(b)-rd.Len())
}

func c17DecN(b []byte) (res string) {
	defer func() {
		if p := recover(); p != nil {
			res = "panic"
		}
	}()
	as, err := UnmarshalAnnouncements(b)
	if err != nil {
		return c17ErrClass(err)
	}
	return fmt.Sprintf("ok/%s/?", c17AnnsDesc(as))
}

func TestVerifC17(t *testing.T) {
	outPath := os.Getenv("VERIF_OUT")
	if outPath == "" {
		t.Skip("VERIF_OUT not set")
	}
	fl, err := os.Create(outPath)
	if err != nil {
		t.Fatal(err)
	}
	defer fl.Close()
	w := bufio.NewWriterSize(fl, 1<<20)
	defer w.Flush()
	seed, _ := strconv.ParseUint(os.Getenv("VERIF_SEED"), 10, 64)
	thorough := os.Getenv("VERIF_TIER") == "thorough"
	r := &c17Rng{s: seed*2654435761 + 1700017}
	scale := 1
	if thorough {
		scale = 10
	}

	eids := []bpv7.EndpointID{bpv7.DtnNone(), bpv7.MustNewEndpointID("dtn://node/"), bpv7.MustNewEndpointID("dtn://a.b-c_d/x/y"),
		bpv7.MustNewEndpointID("ipn:1.1"), bpv7.MustNewEndpointID("ipn:18446744073709551615.23"),
		{EndpointType: bpv7.DtnEndpoint{NodeName: "", Demux: ""}}, {EndpointType: bpv7.IpnEndpoint{Node: 0, Service: 1}}}
	ports := []uint{0, 1, 23, 24, 255, 256, 4556, 65535, 65536, math.MaxUint32, math.MaxUint64}
	emit1 := func(a Announcement) []byte {
		var buf bytes.Buffer
		if err := cboring.Marshal(&a, &buf); err != nil {
			fmt.Fprintf(w, "ann enc %s merr - -\n", c17AnnDesc(a))
			return nil
		}
		enc := buf.Bytes()
		tr := r.bytes(r.intn(4))
		fmt.Fprintf(w, "ann enc %s %s %s %s\n", c17AnnDesc(a), c17Hex(enc), c17Hex(tr), c17Dec1(append(append([]byte{}, enc...), tr...)))
		return enc
	}
	// ALL CLA type values 0..255 (+ some large ones) x endpoints x ports
	var sample []byte
	for ct := 0; ct < 256; ct++ {
		for _, e := range eids[:5] {
			enc := emit1(Announcement{Type: cla.CLAType(ct), Endpoint: e, Port: ports[r.intn(len(ports))]})
			if ct == 10 {
				sample = enc
			}
		}
	}
	for _, ct := range []uint{256, 65535, math.MaxUint32, math.MaxUint64} {
		emit1(Announcement{Type: cla.CLAType(ct), Endpoint: eids[1], Port: 1})
	}
	for _, e := range eids {
		for _, p := range ports {
			emit1(Announcement{Type: cla.MTCP, Endpoint: e, Port: p})
		}
	}
	for k := 0; k < len(sample); k++ {
		fmt.Fprintf(w, "ann dec %s %s\n", c17Hex(sample[:k]), c17Dec1(sample[:k]))
	}
	interesting := []byte{0x00, 0x01, 0x02, 0x0a, 0x14, 0x15, 0x17, 0x18, 0x19, 0x1b, 0x1c, 0x40, 0x60, 0x64, 0x80, 0x82, 0x83, 0x84, 0x9f, 0xf4, 0xff}
	for pos := 0; pos < len(sample); pos++ {
		for _, v := range interesting {
			b := append([]byte{}, sample...)
			b[pos] = v
			fmt.Fprintf(w, "ann dec %s %s\n", c17Hex(b), c17Dec1(b))
		}
	}
	// array lengths 0..8 of one announcement
	for v := 0; v <= 8; v++ {
		b := append([]byte{byte(0x80 + v)}, sample[1:]...)
		fmt.Fprintf(w, "ann dec %s %s\n", c17Hex(b), c17Dec1(b))
	}

	// packets of 0..20 announcements
	valid := []cla.CLAType{cla.TCPCLv4, cla.TCPCLv4WebSocket, cla.MTCP, cla.BBC}
	for i := 0; i < 120*scale; i++ {
		n := r.intn(21)
		if i < 25 {
			n = i
		}
		as := make([]Announcement, n)
		for j := range as {
			as[j] = Announcement{Type: valid[r.intn(4)], Endpoint: eids[r.intn(5)], Port: ports[r.intn(len(ports))]}
			if i%15 == 14 && j == n/2 {
				as[j].Type = cla.CLAType(2 + r.intn(8)) // an unknown CLA type in the middle
			}
		}
		data, err := MarshalAnnouncements(as)
		if err != nil {
			fmt.Fprintf(w, "anns enc %s merr - -\n", c17AnnsDesc(as))
			continue
		}
		tr := r.bytes(r.intn(4))
		fmt.Fprintf(w, "anns enc %s %s %s %s\n", c17AnnsDesc(as), c17Hex(data), c17Hex(tr), c17DecN(append(append([]byte{}, data...), tr...)))
		if i%10 == 0 && n > 0 {
			// truncations and mutations; byte 0 is the announced number of announcements (allocation size: C04)
			for k := 1; k < len(data); k += 1 + len(data)/40 {
				fmt.Fprintf(w, "anns dec %s %s\n", c17Hex(data[:k]), c17DecN(data[:k]))
			}
			for k := 0; k < 30; k++ {
				b := append([]byte{}, data...)
				b[1+r.intn(len(b)-1)] = interesting[r.intn(len(interesting))]
				fmt.Fprintf(w, "anns dec %s %s\n", c17Hex(b), c17DecN(b))
			}
		}
	}
	// announced count larger / smaller than what follows (small numbers only)
	one, _ := MarshalAnnouncements([]Announcement{{Type: cla.MTCP, Endpoint: eids[1], Port: 7}})
	for v := 0; v <= 5; v++ {
		b := append([]byte{byte(0x80 + v)}, one[1:]...)
		b = append(b, one[1:]...)
		fmt.Fprintf(w, "anns dec %s %s\n", c17Hex(b), c17DecN(b))
	}
	fmt.Fprintf(w, "anns dec - %s\n", c17DecN(nil))
}
