package discovery

// C04 harness for discovery announcements (one UDP packet = one call of UnmarshalAnnouncements).

import (
	"fmt"
	"sync"
	"testing"
	"time"

	"github.com/schollz/peerdiscovery"
	log "github.com/sirupsen/logrus"

	"github.com/dtn7/dtn7-go/pkg/bpv7"
	"github.com/dtn7/dtn7-go/pkg/cla"
)

// verifC04Notify hands one received packet to the Manager's own handler (Manager.notify →
// UnmarshalAnnouncements → one handleDiscovery goroutine per announcement → CLA construction →
// RegisterFunc); nothing touches the network: the convergence layers are only constructed.
func verifC04Notify(in []byte) (string, string) {
	var mu sync.Mutex
	registered := 0
	m := &Manager{
		NodeId: bpv7.MustNewEndpointID("dtn://me/"),
		RegisterFunc: func(c cla.Convergable) {
			_ = fmt.Sprint(c)
			mu.Lock()
			registered++
			mu.Unlock()
		},
	}
	// what the handler is expected to register
	expected := 0
	as, err := UnmarshalAnnouncements(in)
	if err == nil {
		for _, a := range as {
			if !m.NodeId.SameNode(a.Endpoint) && (a.Type == cla.MTCP || a.Type == cla.TCPCLv4) {
				expected++
			}
		}
	}
	m.notify(peerdiscovery.Discovered{Address: "192.0.2.1", Payload: in})
	m.notify6(peerdiscovery.Discovered{Address: "2001:db8::1", Payload: in})
	deadline := time.Now().Add(verifC04Budget())
	for {
		mu.Lock()
		n := registered
		mu.Unlock()
		if n >= 2*expected {
			break
		}
		if time.Now().After(deadline) {
			return "timeout", "-"
		}
		time.Sleep(100 * time.Microsecond)
	}
	if err != nil {
		return "error", "-"
	}
	return "value", fmt.Sprintf("n=%d,registered=%d", len(as), registered)
}

func verifC04Decoders() map[string]verifC04Dec {
	return map[string]verifC04Dec{
		"announce-handler": verifC04Notify,
		"announce": func(in []byte) (string, string) {
			as, err := UnmarshalAnnouncements(in)
			if err != nil {
				return "error", "-"
			}
			for _, a := range as {
				_ = a.String()
			}
			return "value", fmt.Sprintf("n=%d", len(as))
		},
	}
}

func verifC04Announcements(n int) []byte {
	var as []Announcement
	for i := 0; i < n; i++ {
		switch i % 3 {
		case 0:
			as = append(as, Announcement{Type: cla.MTCP, Endpoint: bpv7.MustNewEndpointID(fmt.Sprintf("dtn://node%d/", i)), Port: uint(4000 + i)})
		case 1:
			as = append(as, Announcement{Type: cla.TCPCLv4, Endpoint: bpv7.MustNewEndpointID(fmt.Sprintf("ipn:%d.7", i)), Port: 4556})
		default:
			as = append(as, Announcement{Type: cla.TCPCLv4WebSocket, Endpoint: bpv7.DtnNone(), Port: 65535})
		}
	}
	data, err := MarshalAnnouncements(as)
	if err != nil {
		panic(err)
	}
	return data
}

func verifC04Gen(r *verifC04Rng, thorough bool) (cases []verifC04Case) {
	nRand := 120
	if thorough {
		nRand = 5000
	}
	for _, n := range []int{0, 1, 2, 3, 7} {
		s := verifC04Announcements(n)
		cases = append(cases, verifC04Case{"announce", s})
		cases = append(cases, verifC04CborBoundaries("announce", s)...)
		cases = append(cases, verifC04Truncations("announce", s)...)
		cases = append(cases, verifC04Random("announce", s, nRand, r)...)
	}
	// honest large packets (the 64 KiB of a UDP datagram) and lying counts in front of them
	for _, n := range []int{500, 4000} {
		s := verifC04Announcements(n)
		if len(s) > 65536 {
			s = s[:65536]
		}
		cases = append(cases, verifC04Case{"announce", s}, verifC04Case{"announce", s[:len(s)/2]})
		for _, v := range verifC04Boundary {
			cases = append(cases, verifC04Case{"announce", append(verifC04Head(4, v, 0), s[3:]...)})
		}
	}
	// every packet also takes the way through the manager's handler
	for _, c := range cases {
		if len(c.in) < 20000 {
			cases = append(cases, verifC04Case{"announce-handler", c.in})
		}
	}
	// count only, nothing behind it
	for _, v := range verifC04Boundary {
		cases = append(cases, verifC04Case{"announce", verifC04Head(4, v, 0)}, verifC04Case{"announce", verifC04Head(4, v, 8)})
	}
	return
}

func TestVerifC04(t *testing.T) {
	log.SetLevel(log.PanicLevel)
	verifC04Main(t, "TestVerifC04", verifC04Decoders(), verifC04Gen)
}
