package discovery

// C04 harness for discovery announcements (one UDP packet = one call of UnmarshalAnnouncements).

import (
	"fmt"
	"testing"

	log "github.com/sirupsen/logrus"

	"github.com/dtn7/dtn7-go/pkg/bpv7"
	"github.com/dtn7/dtn7-go/pkg/cla"
)

func verifC04Decoders() map[string]verifC04Dec {
	return map[string]verifC04Dec{
		"announce": func(in []byte) (string, string) {
			as, err := UnmarshalAnnouncements(in)
			if err != nil {
				return "error", "-"
			}
			for _, a := range as {
				_ = a.String()
			}
			return "value", fmt.Sprintf("n=%d", len(as))
		},
	}
}

func verifC04Announcements(n int) []byte {
	var as []Announcement
	for i := 0; i < n; i++ {
		switch i % 3 {
		case 0:
			as = append(as, Announcement{Type: cla.MTCP, Endpoint: bpv7.MustNewEndpointID(fmt.Sprintf("dtn://node%d/", i)), Port: uint(4000 + i)})
		case 1:
			as = append(as, Announcement{Type: cla.TCPCLv4, Endpoint: bpv7.MustNewEndpointID(fmt.Sprintf("ipn:%d.7", i)), Port: 4556})
		default:
			as = append(as, Announcement{Type: cla.TCPCLv4WebSocket, Endpoint: bpv7.DtnNone(), Port: 65535})
		}
	}
	data, err := MarshalAnnouncements(as)
	if err != nil {
		panic(err)
	}
	return data
}

func verifC04Gen(r *verifC04Rng, thorough bool) (cases []verifC04Case) {
	nRand := 120
	if thorough {
		nRand = 5000
	}
	for _, n := range []int{0, 1, 2, 3, 7} {
		s := verifC04Announcements(n)
		cases = append(cases, verifC04Case{"announce", s})
		cases = append(cases, verifC04CborBoundaries("announce", s)...)
		cases = append(cases, verifC04Truncations("announce", s)...)
		cases = append(cases, verifC04Random("announce", s, nRand, r)...)
	}
	// honest large packets (the 64 KiB of a UDP datagram) and lying counts in front of them
	for _, n := range []int{500, 4000} {
		s := verifC04Announcements(n)
		if len(s) > 65536 {
			s = s[:65536]
		}
		cases = append(cases, verifC04Case{"announce", s}, verifC04Case{"announce", s[:len(s)/2]})
		for _, v := range verifC04Boundary {
			cases = append(cases, verifC04Case{"announce", append(verifC04Head(4, v, 0), s[3:]...)})
		}
	}
	// count only, nothing behind it
	for _, v := range verifC04Boundary {
		cases = append(cases, verifC04Case{"announce", verifC04Head(4, v, 0)}, verifC04Case{"announce", verifC04Head(4, v, 8)})
	}
	return
}

func TestVerifC04(t *testing.T) {
	log.SetLevel(log.PanicLevel)
	verifC04Main(t, "TestVerifC04", verifC04Decoders(), verifC04Gen)
}
