package msgs

// C04 harness for the TCPCLv4 messages: XFER_SEGMENT and SESS_INIT (length fields!) decoded directly,
// and every message type through ReadMessage (what MessageSwitchReaderWriter.handleIn calls per message).

import (
	"bytes"
	"fmt"
	"testing"
)

func verifC04Decoders() map[string]verifC04Dec {
	return map[string]verifC04Dec{
		"xfer-segment": func(in []byte) (string, string) {
			var m DataTransmissionMessage
			if err := m.Unmarshal(bytes.NewReader(in)); err != nil {
				return "error", "-"
			}
			_ = m.String()
			return "value", fmt.Sprintf("flags=%d,tid=%d,len=%d", uint8(m.Flags), m.TransferId, len(m.Data))
		},
		"sess-init": func(in []byte) (string, string) {
			var m SessionInitMessage
			if err := m.Unmarshal(bytes.NewReader(in)); err != nil {
				return "error", "-"
			}
			_ = m.String()
			return "value", fmt.Sprintf("ka=%d,smru=%d,tmru=%d,idlen=%d", m.KeepaliveInterval, m.SegmentMru, m.TransferMru, len(m.NodeId))
		},
		"tcpcl-msg": func(in []byte) (string, string) {
			m, err := ReadMessage(bytes.NewReader(in))
			if err != nil {
				return "error", "-"
			}
			_ = fmt.Sprint(m)
			return "value", "-"
		},
	}
}

func verifC04Msg(m Message) []byte {
	var buf bytes.Buffer
	if err := m.Marshal(&buf); err != nil {
		panic(err)
	}
	return buf.Bytes()
}

// verifC04WithExt inserts n extension-item bytes after the 4 byte length field at offset off.
func verifC04WithExt(msg []byte, off, n int) []byte {
	out := append([]byte(nil), msg[:off]...)
	out = append(out, byte(n>>24), byte(n>>16), byte(n>>8), byte(n))
	out = append(out, bytes.Repeat([]byte{0xee}, n)...)
	return append(out, msg[off+4:]...)
}

func verifC04Gen(r *verifC04Rng, thorough bool) (cases []verifC04Case) {
	nRand := 100
	if thorough {
		nRand = 5000
	}
	add := func(dec string, msg []byte, fields [][2]int) {
		for _, d := range []string{dec, "tcpcl-msg"} {
			cases = append(cases, verifC04Case{d, msg})
			cases = append(cases, verifC04FieldBoundaries(d, msg, fields)...)
			cases = append(cases, verifC04Truncations(d, msg)...)
			cases = append(cases, verifC04Random(d, msg, nRand, r)...)
		}
	}
	// XFER_SEGMENT: hdr flags tid[8] extlen[4] ext datalen[8] data
	for _, n := range []int{0, 1, 3, 300} {
		seg := verifC04Msg(NewDataTransmissionMessage(SegmentStart|SegmentEnd, 7, bytes.Repeat([]byte{0xda}, n)))
		add("xfer-segment", seg, [][2]int{{10, 4}, {14, 8}, {2, 8}, {0, 1}, {1, 1}})
		ext := verifC04WithExt(seg, 10, 5)
		add("xfer-segment", ext, [][2]int{{10, 4}, {19, 8}})
	}
	big := verifC04Msg(NewDataTransmissionMessage(SegmentStart, 1, bytes.Repeat([]byte{0x11}, 60000)))
	cases = append(cases, verifC04Case{"xfer-segment", big}, verifC04Case{"xfer-segment", big[:30000]})
	cases = append(cases, verifC04FieldBoundaries("xfer-segment", big, [][2]int{{10, 4}, {14, 8}})...)
	// data length just around cboring's pre-allocation limit, nothing behind it
	for _, v := range []uint64{1<<20 - 1, 1 << 20, 1<<20 + 1, 1 << 24, 1 << 30} {
		m := append([]byte(nil), big[:22]...)
		for i := 0; i < 8; i++ {
			m[14+i] = byte(v >> (8 * uint(7-i)))
		}
		cases = append(cases, verifC04Case{"xfer-segment", m}, verifC04Case{"xfer-segment", append(m, bytes.Repeat([]byte{1}, 1000)...)})
	}

	// SESS_INIT: hdr ka[2] smru[8] tmru[8] idlen[2] id extlen[4] ext
	for _, id := range []string{"", "dtn://node/", "ipn:1.1"} {
		si := verifC04Msg(NewSessionInitMessage(30, 1048576, 1073741824, id))
		l := len(id)
		add("sess-init", si, [][2]int{{1, 2}, {3, 8}, {11, 8}, {19, 2}, {21 + l, 4}, {0, 1}})
		add("sess-init", verifC04WithExt(si, 21+l, 9), [][2]int{{19, 2}, {21 + l, 4}})
	}
	long := verifC04Msg(NewSessionInitMessage(30, 1, 1, string(bytes.Repeat([]byte{'n'}, 65535))))
	cases = append(cases, verifC04Case{"sess-init", long}, verifC04Case{"sess-init", long[:40000]})

	// everything else ReadMessage knows
	others := []Message{
		NewContactHeader(ContactCanTls), NewKeepaliveMessage(),
		NewMessageRejectionMessage(RejectionUnsupported, XFER_SEGMENT),
		NewSessionTerminationMessage(TerminationReply, TerminationBusy),
		NewDataAcknowledgementMessage(SegmentEnd, 9, 4711), NewTransferRefusalMessage(RefusalNoResources, 3),
	}
	for _, m := range others {
		b := verifC04Msg(m)
		var fields [][2]int
		for off := 0; off < len(b); off++ {
			for _, w := range []int{1, 8} {
				fields = append(fields, [2]int{off, w})
			}
		}
		cases = append(cases, verifC04Case{"tcpcl-msg", b})
		cases = append(cases, verifC04FieldBoundaries("tcpcl-msg", b, fields)...)
		cases = append(cases, verifC04Truncations("tcpcl-msg", b)...)
		cases = append(cases, verifC04Random("tcpcl-msg", b, nRand/3, r)...)
	}
	for c := 0; c < 256; c++ {
		cases = append(cases, verifC04Case{"tcpcl-msg", []byte{byte(c)}}, verifC04Case{"tcpcl-msg", append([]byte{byte(c)}, bytes.Repeat([]byte{0xff}, 40)...)})
	}
	return
}

func TestVerifC04(t *testing.T) {
	verifC04Main(t, "TestVerifC04", verifC04Decoders(), verifC04Gen)
}
